package connx

import (
	"context"
	"fmt"
	"runtime"
	"sync"
	"time"

	"github.com/conduitio/conduit-commons/database/inmemory"
	"github.com/conduitio/conduit-commons/opencdc"
	"github.com/conduitio/conduit/pkg/connector"
	"github.com/conduitio/conduit/pkg/foundation/log"
)

// Step is one letter of the schedule alphabet.
//
//	read s k        the engine reads k more records of source s
//	ack s k mal     the engine acks the next k read records of s (reading more if needed);
//	                mal != 0 = a misbehaving engine: 1 reversed order, 2 re-ack of already
//	                acked records, 3 skip one record, 4 an empty position in a non-last slot
//	timer           the debounce timer fires (if armed)
//	flush ctx       Persister.Flush(ctx)
//	release ok new  a parked commit finishes (ok / fails); when nothing is parked and !ok the
//	                next un-gated commit fails
//	failset s       the next Set of source s (-1: of any connector) inside a tx fails
//	failtx          the next NewTransaction fails
//	sendfail s n    the next n stream sends of source s fail
//	holdsend s      the next ack send of source s parks inside stream.Send (plugin not consuming)
//	releasesend s   the parked send of source s goes on
//	stop s          Source.Stop (the graceful stop signal: the plugin answers with the last position
//	                it handed out; the engine reads no further records of s afterwards)
//	teardown s ctx  Source.Teardown(ctx)
//
// ctx (flush, teardown) is the state of the context the caller hands over: 0 live, 1 already
// cancelled when the call is made, 2 expiring: cancelled as soon as the call has returned or has
// been seen blocked behind a parked commit / a parked send (a force-stopped pipeline tears its
// sources down with exactly such a context). The unchanged code serialises a flush behind the
// write in flight whatever the context says; a cancelled context only cuts Teardown's two bounded
// waits short (so such a teardown is never reported as "fast").
type Step struct {
	Op     string `json:"op"`
	S      int    `json:"s,omitempty"`
	K      int    `json:"k,omitempty"`
	Mal    int    `json:"mal,omitempty"`
	Ok     bool   `json:"ok,omitempty"`
	Newest bool   `json:"newest,omitempty"`
	Ctx    int    `json:"ctx,omitempty"`
	Rush   bool   `json:"rush,omitempty"` // do not wait for the system to settle after this step
}

type Input struct {
	NSrc    int    `json:"nsrc"`
	Inits   []int  `json:"inits"`   // position each source is created with (0 = none)
	Retries int    `json:"retries"` // deferredAckMaxRetries
	Gated   bool   `json:"gated"`   // commits park until released
	Bundle  int    `json:"bundle"`  // persister bundle-count threshold
	TdShort bool   `json:"tdshort"` // tiny teardown flush budget
	PlStatus int   `json:"plstatus,omitempty"` // stored pipeline status: 0 running 1 user-stopped 2 degraded 3 system-stopped 4 recovering
	Engine  string `json:"engine,omitempty"`   // lifecycle service of the full restart: v1 | v2
	Full    bool   `json:"full,omitempty"`     // restart through pipeline/connector/processor/lifecycle services too
	Steps   []Step `json:"steps"`
}

func (in *Input) Normalize() {
	if in.NSrc < 1 {
		in.NSrc = 1
	}
	if in.NSrc > 4 {
		in.NSrc = 4
	}
	for len(in.Inits) < in.NSrc {
		in.Inits = append(in.Inits, 0)
	}
	in.Inits = in.Inits[:in.NSrc]
	for i := range in.Inits {
		if in.Inits[i] < 0 || in.Inits[i] > 50 {
			in.Inits[i] = 0
		}
	}
	if in.Retries < 1 {
		in.Retries = 1
	}
	if in.Retries > 4 {
		in.Retries = 4
	}
	if in.Bundle < 1 {
		in.Bundle = 10000
	}
	if in.PlStatus < 0 || in.PlStatus > 4 {
		in.PlStatus = 0
	}
	if in.Engine != "v2" {
		in.Engine = "v1"
	}
}

type srcCtl struct {
	id      string
	inst    *connector.Instance
	src     *connector.Source
	plug    *FakeSource
	nextRec int   // id of the next record the plugin produces
	unacked []int // read, not yet acked, in read order
	acked   []int // acked so far (for the re-ack misbehaviour)
	nacks   int   // number of Ack calls issued
	busy    chan struct{}
	reading *pendingRead
	tdStarted bool
	stopped   bool
	tdDone    chan struct{}
}

type World struct {
	in    Input
	Log   *Log
	DB    *FaultDB
	pers  *connector.Persister
	svc   *connector.Service
	srcs  []*srcCtl
	stopE chan struct{}

	tmu    sync.Mutex
	tfn    func()
	tarmed bool

	tdBudget time.Duration
	ops      []chan struct{} // operations still running in the background
	Hang bool
}

func srcID(i int) string { return fmt.Sprintf("src%d", i) }

const pluginName = "fake-source"

func NewWorld(in Input) (*World, error) {
	ctx := context.Background()
	w := &World{in: in, Log: &Log{}, stopE: make(chan struct{})}
	ids := make([]string, in.NSrc)
	for i := range ids {
		ids[i] = srcID(i)
	}
	w.DB = NewFaultDB(w.Log, ids)
	logger := log.Nop()
	w.pers = connector.NewPersister(logger, w.DB, time.Hour, in.Bundle)
	w.pers.VerifSetClock(time.Now, func(_ time.Duration, f func()) func() bool {
		w.tmu.Lock()
		w.tfn, w.tarmed = f, true
		w.tmu.Unlock()
		return func() bool {
			w.tmu.Lock()
			defer w.tmu.Unlock()
			was := w.tarmed
			w.tarmed = false
			return was
		}
	})
	w.svc = connector.NewService(logger, w.DB, w.pers)
	if err := w.svc.Init(ctx); err != nil {
		return nil, err
	}
	fetch := Fetcher{}
	for i := 0; i < in.NSrc; i++ {
		inst, err := w.svc.Create(ctx, ids[i], connector.TypeSource, pluginName+ids[i], "pipe",
			connector.Config{Name: ids[i], Settings: map[string]string{"k": "v"}}, connector.ProvisionTypeAPI)
		if err != nil {
			return nil, err
		}
		if in.Inits[i] > 0 {
			if _, err := w.svc.SetState(ctx, ids[i], connector.SourceState{Position: PosBytes(in.Inits[i], 0)}); err != nil {
				return nil, err
			}
		}
		plug := NewFakeSource(i, w.Log)
		fetch[pluginName+ids[i]] = dispenser{src: plug}
		w.srcs = append(w.srcs, &srcCtl{id: ids[i], inst: inst, plug: plug, nextRec: in.Inits[i] + 1})
	}
	if err := setupPipeline(w.DB, w.svc, in, ids); err != nil {
		return nil, err
	}
	td := 400 * time.Millisecond
	if in.TdShort {
		td = 12 * time.Millisecond
	}
	w.tdBudget = td
	for si, sc := range w.srcs {
		c, err := sc.inst.Connector(ctx, fetch)
		if err != nil {
			return nil, err
		}
		sc.src = c.(*connector.Source)
		sc.src.VerifSetAckTimings(td, in.Retries, 150*time.Microsecond)
		// the engine reads Source.Errors() while the source runs
		go func(sc *srcCtl, s int) {
			for {
				select {
				case <-sc.src.Errors():
					w.Log.Add(Event{K: "srcerr", S: s})
				case <-w.stopE:
					return
				}
			}
		}(sc, si)
	}
	for _, sc := range w.srcs {
		if err := sc.src.Open(ctx); err != nil {
			return nil, err
		}
	}
	// the stored state a crash before the first commit would find
	w.DB.mu.Lock()
	w.DB.snaps = append(w.DB.snaps, StoreSnap{At: 0, Raw: w.DB.CopyRaw()})
	w.DB.mu.Unlock()
	w.DB.SetGated(in.Gated)
	return w, nil
}

// background runs f in a goroutine and waits for it unless it is blocked behind a write that
// is in flight on a gated store (the only thing that can block indefinitely here).
func (w *World) background(f func()) chan struct{} {
	done := make(chan struct{})
	go func() {
		defer close(done)
		defer func() {
			if r := recover(); r != nil {
				w.Log.Add(Event{K: "panic", Note: fmt.Sprint(r)})
			}
		}()
		f()
	}()
	if !w.await(done, 8*time.Second) {
		w.ops = append(w.ops, done)
	}
	return done
}

func (w *World) await(done <-chan struct{}, limit time.Duration) bool {
	start := time.Now()
	var blockedSince time.Time
	for {
		select {
		case <-done:
			return true
		default:
		}
		pause(20 * time.Microsecond)
		now := time.Now()
		if (w.DB.InFlight() > 0 && w.DB.Parked() > 0) || w.sendParked() {
			if blockedSince.IsZero() {
				blockedSince = now
			} else if now.Sub(blockedSince) > 1500*time.Microsecond {
				return false
			}
		} else {
			blockedSince = time.Time{}
		}
		if now.Sub(start) > limit {
			select {
			case <-done:
				return true
			default:
			}
			w.Hang = true
			w.Log.Add(Event{K: "hang"})
			return false
		}
	}
}

// pause yields the processor for about d (time.Sleep is far too coarse here).
func pause(d time.Duration) {
	t0 := time.Now()
	for time.Since(t0) < d {
		runtime.Gosched()
	}
}

func (w *World) sendParked() bool {
	for _, sc := range w.srcs {
		if sc.plug.SendParked() {
			return true
		}
	}
	return false
}

func (w *World) releaseSends() bool {
	any := false
	for _, sc := range w.srcs {
		if sc.plug.ReleaseSend() {
			any = true
		}
	}
	return any
}

// settle waits until the log has stopped growing for a moment.
func (w *World) settle() {
	last, stable := w.Log.Len(), 0
	for i := 0; i < 100 && stable < 8; i++ {
		pause(25 * time.Microsecond)
		if n := w.Log.Len(); n != last {
			last, stable = n, 0
		} else {
			stable++
		}
	}
}

func (w *World) rec(r int) opencdc.Record {
	return opencdc.Record{
		Position:  PosBytes(r, 0),
		Operation: opencdc.OperationCreate,
		Metadata:  opencdc.Metadata{},
		Key:       opencdc.RawData("k"),
		Payload:   opencdc.Change{After: opencdc.RawData("v")},
	}
}

func (w *World) read(s, k int) {
	w.reap(s)
	sc := w.srcs[s]
	if sc.tdStarted || sc.stopped || k <= 0 || w.isBusy(sc) {
		return // (an Ack blocked behind the store holds the instance lock Read needs)
	}
	recs := make([]opencdc.Record, k)
	ids := make([]int, k)
	for i := range recs {
		ids[i] = sc.nextRec
		recs[i] = w.rec(sc.nextRec)
		sc.nextRec++
	}
	sc.plug.Produce(recs, ids[len(ids)-1])
	// Read takes no lock that the unchanged code holds across a store write; it still runs
	// in the background so that a change which makes it block cannot hang the harness
	pr := &pendingRead{ids: ids}
	pr.done = w.background(func() { pr.got, pr.err = sc.src.Read(context.Background()) })
	sc.reading = pr
	sc.busy = pr.done // nothing more happens on this source until the read has returned
	w.reap(s)
}

type pendingRead struct {
	done chan struct{}
	ids  []int
	got  []opencdc.Record
	err  error
}

// reap books a Source.Read that has returned: the records count as read from here on.
func (w *World) reap(s int) {
	sc := w.srcs[s]
	pr := sc.reading
	if pr == nil {
		return
	}
	select {
	case <-pr.done:
	default:
		return
	}
	sc.reading = nil
	if pr.err != nil || len(pr.got) != len(pr.ids) {
		w.Log.Add(Event{K: "ackerr", S: s, Note: fmt.Sprint("read: ", pr.err, len(pr.got))})
		return
	}
	w.Log.With(func(app func(Event)) {
		for _, id := range pr.ids {
			app(Event{K: "read", S: s, N: id})
		}
	})
	sc.unacked = append(sc.unacked, pr.ids...)
}

func (w *World) ack(s, k, mal int) {
	w.reap(s)
	sc := w.srcs[s]
	if sc.tdStarted {
		// both engines stop acking a source before they tear it down (an Ack that loses the race
		// against plugin := nil returns ErrPluginNotRunning without touching any state)
		return
	}
	if w.isBusy(sc) {
		return // the engine acks one call at a time per source
	}
	if k < 1 {
		k = 1
	}
	var ks []int
	switch mal {
	case 2: // re-ack
		if len(sc.acked) == 0 {
			return
		}
		if k > len(sc.acked) {
			k = len(sc.acked)
		}
		ks = append(ks, sc.acked[len(sc.acked)-k:]...)
	default:
		need := k
		if mal == 3 {
			need = k + 1
		}
		if len(sc.unacked) < need {
			if sc.tdStarted {
				return
			}
			w.read(s, need-len(sc.unacked))
		}
		if len(sc.unacked) < need {
			return
		}
		take := append([]int(nil), sc.unacked[:need]...)
		sc.unacked = sc.unacked[need:]
		switch mal {
		case 1:
			for i, j := 0, len(take)-1; i < j; i, j = i+1, j-1 {
				take[i], take[j] = take[j], take[i]
			}
		case 3:
			take = take[1:] // the first one is never acked
		case 4:
			take = append([]int{0}, take...)
		}
		ks = take
		for _, r := range ks {
			if r != 0 {
				sc.acked = append(sc.acked, r)
			}
		}
	}
	sc.nacks++
	tag := sc.nacks
	positions := make([]opencdc.Position, len(ks))
	for i, r := range ks {
		positions[i] = PosBytes(r, tag)
	}
	w.Log.Add(Event{K: "ack", S: s, Ks: ks})
	sc.busy = w.background(func() {
		if err := sc.src.Ack(context.Background(), positions); err != nil {
			w.Log.Add(Event{K: "ackerr", S: s, Note: err.Error()})
		}
	})
}

func (w *World) isBusy(sc *srcCtl) bool {
	if sc.busy == nil {
		return false
	}
	select {
	case <-sc.busy:
		return false
	default:
		return true
	}
}

func (w *World) stop(s int) {
	w.reap(s)
	sc := w.srcs[s]
	if sc.tdStarted || sc.stopped || w.isBusy(sc) {
		return
	}
	sc.stopped = true
	sc.busy = w.background(func() { _, _ = sc.src.Stop(context.Background()) })
}

// callCtx returns the context of a call with ctx mode `mode` and what the schedule does once the
// call has returned or has been seen blocked.
func callCtx(mode int) (context.Context, func()) {
	switch mode {
	case 1:
		ctx, cancel := context.WithCancel(context.Background())
		cancel()
		return ctx, func() {}
	case 2:
		return context.WithCancel(context.Background())
	}
	return context.Background(), func() {}
}

func (w *World) teardown(s, mode int) {
	w.reap(s)
	sc := w.srcs[s]
	if sc.tdStarted || w.isBusy(sc) {
		return // (both engines stop acking a source before they tear it down)
	}
	sc.tdStarted = true
	w.Log.Add(Event{K: "tdbegin", S: s})
	ctx, after := callCtx(mode)
	sc.tdDone = w.background(func() {
		t0 := time.Now()
		_ = sc.src.Teardown(ctx)
		// Ok = fast: none of Teardown's bounded waits can have given up (neither on its budget
		// nor on the caller's context)
		w.Log.Add(Event{K: "tdend", S: s, Ok: mode == 0 && time.Since(t0) < w.tdBudget/2})
	})
	after()
}

func (w *World) Do(st Step) {
	if st.S < -1 || st.S >= w.in.NSrc || st.Ctx < 0 || st.Ctx > 2 {
		return
	}
	switch st.Op {
	case "read":
		if st.S >= 0 && st.K <= 8 {
			w.read(st.S, st.K)
		}
	case "ack":
		if st.S >= 0 && st.K <= 8 {
			w.ack(st.S, st.K, st.Mal)
		}
	case "timer":
		w.tmu.Lock()
		f, armed := w.tfn, w.tarmed
		w.tarmed = false
		w.tmu.Unlock()
		if armed && f != nil {
			w.background(f)
		}
	case "flush":
		ctx, after := callCtx(st.Ctx)
		w.background(func() { w.pers.Flush(ctx) })
		after()
	case "release":
		if !w.DB.Release(st.Ok, st.Newest) && !st.Ok {
			w.DB.FailNextCommit()
		}
	case "failset":
		w.DB.FailNextSet(st.S)
	case "failtx":
		w.DB.FailNextTx()
	case "sendfail":
		if st.S >= 0 && st.K >= 1 && st.K <= 12 {
			w.srcs[st.S].plug.SendFail(st.K)
		}
	case "holdsend":
		if st.S >= 0 && !w.srcs[st.S].tdStarted {
			w.srcs[st.S].plug.HoldNextSend()
		}
	case "releasesend":
		if st.S >= 0 {
			w.srcs[st.S].plug.ReleaseSend()
		}
	case "stop":
		if st.S >= 0 {
			w.stop(st.S)
		}
	case "teardown":
		if st.S >= 0 {
			w.teardown(st.S, st.Ctx)
		}
	default:
		return
	}
	if !st.Rush {
		w.settle()
	}
}

// Finish lets everything that is parked complete, tears down what is still running and
// returns the log.
func (w *World) Finish() []Event {
	w.DB.SetGated(false)
	deadline := time.Now().Add(10 * time.Second)
	pendingOps := func() bool {
		for _, d := range w.ops {
			select {
			case <-d:
			default:
				return true
			}
		}
		return false
	}
	for time.Now().Before(deadline) {
		if w.DB.Release(true, false) || w.releaseSends() {
			continue
		}
		if !pendingOps() && w.DB.InFlight() == 0 {
			break
		}
		pause(30 * time.Microsecond)
	}
	w.settle()
	for s := range w.srcs {
		w.teardown(s, 0)
	}
	for time.Now().Before(deadline) {
		if w.DB.Release(true, false) || w.releaseSends() {
			continue
		}
		if !pendingOps() && w.DB.InFlight() == 0 {
			break
		}
		pause(30 * time.Microsecond)
	}
	if pendingOps() {
		w.Log.Add(Event{K: "hang"})
	}
	for i := 0; i < 4; i++ {
		w.settle()
	}
	close(w.stopE)
	return w.Log.Snapshot()
}

// Restart initialises a FRESH persister + connector.Service on a copy of a store snapshot and
// opens every source through them; it returns the positions the plugins were opened with.
func Restart(in Input, snap StoreSnap) ([]Robs, error) {
	ctx := context.Background()
	db := &inmemory.DB{}
	for k, v := range snap.Raw {
		if err := db.Set(ctx, k, v); err != nil {
			return nil, err
		}
	}
	logger := log.Nop()
	pers := connector.NewPersister(logger, db, time.Hour, 10000)
	svc := connector.NewService(logger, db, pers)
	if err := svc.Init(ctx); err != nil {
		return nil, err
	}
	var out []Robs
	for i := 0; i < in.NSrc; i++ {
		inst, err := svc.Get(ctx, srcID(i))
		if err != nil {
			return nil, err
		}
		plug := NewFakeSource(i, &Log{})
		c, err := inst.Connector(ctx, Fetcher{inst.Plugin: dispenser{src: plug}})
		if err != nil {
			return nil, err
		}
		src := c.(*connector.Source)
		src.VerifSetAckTimings(200*time.Millisecond, 1, time.Millisecond)
		stop := make(chan struct{})
		go func() {
			for {
				select {
				case <-src.Errors():
				case <-stop:
					return
				}
			}
		}()
		if err := src.Open(ctx); err != nil {
			close(stop)
			return nil, err
		}
		opened, tag, pos := plug.OpenedAt()
		if !opened {
			tag, pos = 4095, 0
		}
		out = append(out, Robs{At: snap.At, S: i, Tag: tag, Pos: pos})
		_ = src.Teardown(ctx)
		close(stop)
	}
	return out, nil
}
