// Package applyx assembles the REAL v1 lifecycle service (pkg/lifecycle) together
// with the real connector / processor / pipeline services and the real
// provisioning.Service on an in-memory database, behind fake connector and
// processor plugins, for the end-to-end half of C16: a plan is applied with
// ApplyPlanLive while records flow, and everything observable goes into one
// mutex-guarded event log (a linearisation consistent with real time).
//
// The assembly follows harness/lib/stopx (C06); it is a copy of the ideas, not
// of the package: one source (tokens released by the harness), one destination
// that confirms every record, one pipeline processor whose instances number
// themselves so that a live swap is visible.
package applyx

import (
	"context"
	"errors"
	"fmt"
	"strconv"
	"strings"
	"sync"
	"time"

	"github.com/conduitio/conduit-commons/config"
	"github.com/conduitio/conduit-commons/database"
	"github.com/conduitio/conduit-commons/database/inmemory"
	"github.com/conduitio/conduit-commons/opencdc"
	"github.com/conduitio/conduit-connector-protocol/pconnector"
	sdk "github.com/conduitio/conduit-processor-sdk"
	"github.com/conduitio/conduit/pkg/connector"
	"github.com/conduitio/conduit/pkg/foundation/log"
	"github.com/conduitio/conduit/pkg/lifecycle"
	"github.com/conduitio/conduit/pkg/pipeline"
	connectorPlugin "github.com/conduitio/conduit/pkg/plugin/connector"
	"github.com/conduitio/conduit/pkg/plugin/connector/builtin"
	"github.com/conduitio/conduit/pkg/plugin/processor/egress"
	"github.com/conduitio/conduit/pkg/processor"
	"github.com/conduitio/conduit/pkg/provisioning"
)

// Ev is one observable event.
//
//	read   N=k     the source plugin handed record k to the engine
//	unread N=k     ... but the hand-off failed (stream closed)
//	write  N=k     the destination plugin received record k (and confirms it)
//	pack   N=k     the source plugin received the ack of record k
//	commit N=pos   a store transaction (not an import) was committed; pos = stored source position
//	import N=pos X=ok|fail   a transactionalImport of the apply under test ended
//	open   C=src|dst N=pos   plugin Open (source: the position it resumes from)
//	td     C=src|dst         plugin Teardown
//	popen / ptd N=inst       processor plugin instance opened / torn down
//	applycall / applyret X=class
type Ev struct {
	K string `json:"k"`
	C string `json:"c,omitempty"`
	N int    `json:"n"`
	X string `json:"x,omitempty"`
}

type World struct {
	mu  sync.Mutex
	evs []Ev

	smu     sync.Mutex
	scv     *sync.Cond
	batches []int
	gen     int
}

func (w *World) Log(e Ev) {
	w.mu.Lock()
	w.evs = append(w.evs, e)
	w.mu.Unlock()
}

func (w *World) Events() []Ev {
	w.mu.Lock()
	defer w.mu.Unlock()
	return append([]Ev{}, w.evs...)
}

func (w *World) Reset() {
	w.mu.Lock()
	w.evs = nil
	w.mu.Unlock()
}

// WaitFor polls the log until pred holds or d elapsed.
func (w *World) WaitFor(d time.Duration, pred func([]Ev) bool) bool {
	deadline := time.Now().Add(d)
	for {
		w.mu.Lock()
		ok := pred(w.evs)
		w.mu.Unlock()
		if ok {
			return true
		}
		if time.Now().After(deadline) {
			return false
		}
		time.Sleep(100 * time.Microsecond)
	}
}

// Emit lets the source hand out one more response with n records.
func (w *World) Emit(n int) {
	w.smu.Lock()
	w.batches = append(w.batches, n)
	w.smu.Unlock()
	w.scv.Broadcast()
}

func pos(k int) []byte { return []byte("r:" + strconv.Itoa(k)) }

func parsePos(p []byte) int {
	s := string(p)
	i := strings.LastIndex(s, ":")
	if i < 0 {
		return 0
	}
	k, err := strconv.Atoi(s[i+1:])
	if err != nil {
		return 0
	}
	return k
}

// ---------------------------------------------------------------- source plugin

type srcPlugin struct {
	w *World

	mu       sync.Mutex
	next     int
	started  int
	openPos  int
	stopped  bool
	done     chan struct{}
	doneOnce sync.Once
	gen      int
	ackDone  chan struct{}
}

var _ connectorPlugin.SourcePlugin = (*srcPlugin)(nil)

func (p *srcPlugin) Configure(context.Context, pconnector.SourceConfigureRequest) (pconnector.SourceConfigureResponse, error) {
	return pconnector.SourceConfigureResponse{}, nil
}

func (p *srcPlugin) Open(_ context.Context, req pconnector.SourceOpenRequest) (pconnector.SourceOpenResponse, error) {
	k := parsePos(req.Position)
	p.mu.Lock()
	p.next, p.started, p.openPos = k, k, k
	p.mu.Unlock()
	p.w.smu.Lock()
	p.w.gen++
	p.gen = p.w.gen
	p.w.smu.Unlock()
	p.w.scv.Broadcast()
	p.w.Log(Ev{K: "open", C: "src", N: k})
	return pconnector.SourceOpenResponse{}, nil
}

func (p *srcPlugin) finish() {
	p.doneOnce.Do(func() { close(p.done) })
	p.w.scv.Broadcast()
}

func (p *srcPlugin) isDone() bool {
	select {
	case <-p.done:
		return true
	default:
		return false
	}
}

func (p *srcPlugin) Run(ctx context.Context, stream pconnector.SourceRunStream) error {
	s, ok := stream.(*builtin.InMemorySourceRunStream)
	if !ok {
		return fmt.Errorf("fake source: unexpected stream type %T", stream)
	}
	s.Init(ctx)
	server := s.Server()
	go p.produce(server)
	p.mu.Lock()
	p.ackDone = make(chan struct{})
	ackDone := p.ackDone
	p.mu.Unlock()
	go func() {
		defer close(ackDone)
		for {
			req, err := server.Recv()
			if err != nil {
				return
			}
			for _, ap := range req.AckPositions {
				p.w.Log(Ev{K: "pack", N: parsePos(ap)})
			}
		}
	}()
	go func() {
		<-ctx.Done()
		p.finish()
	}()
	return nil
}

func (p *srcPlugin) produce(server pconnector.SourceRunStreamServer) {
	w := p.w
	for {
		w.smu.Lock()
		for len(w.batches) == 0 && !p.isDone() && w.gen == p.gen {
			w.scv.Wait()
		}
		if p.isDone() || w.gen != p.gen {
			w.smu.Unlock()
			return
		}
		p.mu.Lock()
		if p.stopped {
			p.mu.Unlock()
			w.smu.Unlock()
			return
		}
		n := w.batches[0]
		w.batches = w.batches[1:]
		first := p.next + 1
		p.started = p.next + n
		p.mu.Unlock()
		w.smu.Unlock()

		recs := make([]opencdc.Record, n)
		for i := range recs {
			k := first + i
			recs[i] = opencdc.Record{
				Position:  pos(k),
				Operation: opencdc.OperationCreate,
				Metadata:  opencdc.Metadata{},
				Key:       opencdc.RawData("k" + strconv.Itoa(k)),
				Payload:   opencdc.Change{After: opencdc.RawData("v")},
			}
			p.w.Log(Ev{K: "read", N: k}) // before the hand-off: no consequence of the read can precede it
		}
		if err := server.Send(pconnector.SourceRunResponse{Records: recs}); err != nil {
			for i := n - 1; i >= 0; i-- {
				p.w.Log(Ev{K: "unread", N: first + i})
			}
			// the records were not taken: the token goes back
			w.smu.Lock()
			w.batches = append([]int{n}, w.batches...)
			w.smu.Unlock()
			return
		}
		p.mu.Lock()
		p.next += n
		p.mu.Unlock()
	}
}

func (p *srcPlugin) Stop(context.Context, pconnector.SourceStopRequest) (pconnector.SourceStopResponse, error) {
	p.mu.Lock()
	p.stopped = true
	last := p.started
	p.mu.Unlock()
	p.w.scv.Broadcast()
	if last == p.openPos {
		return pconnector.SourceStopResponse{}, nil
	}
	return pconnector.SourceStopResponse{LastPosition: pos(last)}, nil
}

func (p *srcPlugin) Teardown(context.Context, pconnector.SourceTeardownRequest) (pconnector.SourceTeardownResponse, error) {
	p.finish()
	p.mu.Lock()
	ackDone := p.ackDone
	p.mu.Unlock()
	if ackDone != nil {
		select {
		case <-ackDone:
		case <-time.After(time.Second):
		}
	}
	p.w.Log(Ev{K: "td", C: "src"})
	return pconnector.SourceTeardownResponse{}, nil
}

func (p *srcPlugin) LifecycleOnCreated(context.Context, pconnector.SourceLifecycleOnCreatedRequest) (pconnector.SourceLifecycleOnCreatedResponse, error) {
	return pconnector.SourceLifecycleOnCreatedResponse{}, nil
}
func (p *srcPlugin) LifecycleOnUpdated(context.Context, pconnector.SourceLifecycleOnUpdatedRequest) (pconnector.SourceLifecycleOnUpdatedResponse, error) {
	return pconnector.SourceLifecycleOnUpdatedResponse{}, nil
}
func (p *srcPlugin) LifecycleOnDeleted(context.Context, pconnector.SourceLifecycleOnDeletedRequest) (pconnector.SourceLifecycleOnDeletedResponse, error) {
	return pconnector.SourceLifecycleOnDeletedResponse{}, nil
}
func (p *srcPlugin) NewStream() pconnector.SourceRunStream { return &builtin.InMemorySourceRunStream{} }

// ---------------------------------------------------------------- destination plugin (confirms everything)

type dstPlugin struct {
	w        *World
	main     bool // the pipeline's destination (not the DLQ)
	mu       sync.Mutex
	loopDone chan struct{}
}

var _ connectorPlugin.DestinationPlugin = (*dstPlugin)(nil)

func (p *dstPlugin) Configure(context.Context, pconnector.DestinationConfigureRequest) (pconnector.DestinationConfigureResponse, error) {
	return pconnector.DestinationConfigureResponse{}, nil
}
func (p *dstPlugin) Open(context.Context, pconnector.DestinationOpenRequest) (pconnector.DestinationOpenResponse, error) {
	if p.main {
		p.w.Log(Ev{K: "open", C: "dst"})
	}
	return pconnector.DestinationOpenResponse{}, nil
}
func (p *dstPlugin) Run(ctx context.Context, stream pconnector.DestinationRunStream) error {
	s, ok := stream.(*builtin.InMemoryDestinationRunStream)
	if !ok {
		return fmt.Errorf("fake destination: unexpected stream type %T", stream)
	}
	s.Init(ctx)
	server := s.Server()
	p.mu.Lock()
	p.loopDone = make(chan struct{})
	loopDone := p.loopDone
	p.mu.Unlock()
	go func() {
		defer close(loopDone)
		for {
			req, err := server.Recv()
			if err != nil {
				return
			}
			acks := make([]pconnector.DestinationRunResponseAck, 0, len(req.Records))
			for _, r := range req.Records {
				if p.main {
					p.w.Log(Ev{K: "write", N: parsePos(r.Position), X: r.Metadata["verif.inst"]})
				}
				acks = append(acks, pconnector.DestinationRunResponseAck{Position: r.Position})
			}
			if err := server.Send(pconnector.DestinationRunResponse{Acks: acks}); err != nil {
				return
			}
		}
	}()
	return nil
}
func (p *dstPlugin) Stop(context.Context, pconnector.DestinationStopRequest) (pconnector.DestinationStopResponse, error) {
	return pconnector.DestinationStopResponse{}, nil
}
func (p *dstPlugin) Teardown(context.Context, pconnector.DestinationTeardownRequest) (pconnector.DestinationTeardownResponse, error) {
	p.mu.Lock()
	loopDone := p.loopDone
	p.mu.Unlock()
	if loopDone != nil {
		select {
		case <-loopDone:
		case <-time.After(time.Second):
		}
	}
	if p.main {
		p.w.Log(Ev{K: "td", C: "dst"})
	}
	return pconnector.DestinationTeardownResponse{}, nil
}
func (p *dstPlugin) LifecycleOnCreated(context.Context, pconnector.DestinationLifecycleOnCreatedRequest) (pconnector.DestinationLifecycleOnCreatedResponse, error) {
	return pconnector.DestinationLifecycleOnCreatedResponse{}, nil
}
func (p *dstPlugin) LifecycleOnUpdated(context.Context, pconnector.DestinationLifecycleOnUpdatedRequest) (pconnector.DestinationLifecycleOnUpdatedResponse, error) {
	return pconnector.DestinationLifecycleOnUpdatedResponse{}, nil
}
func (p *dstPlugin) LifecycleOnDeleted(context.Context, pconnector.DestinationLifecycleOnDeletedRequest) (pconnector.DestinationLifecycleOnDeletedResponse, error) {
	return pconnector.DestinationLifecycleOnDeletedResponse{}, nil
}
func (p *dstPlugin) NewStream() pconnector.DestinationRunStream {
	return &builtin.InMemoryDestinationRunStream{}
}

type dispenser struct {
	w  *World
	id string
}

func (d dispenser) DispenseSpecifier() (connectorPlugin.SpecifierPlugin, error) {
	return nil, errors.New("fake dispenser: no specifier")
}
func (d dispenser) DispenseSource() (connectorPlugin.SourcePlugin, error) {
	return &srcPlugin{w: d.w, done: make(chan struct{})}, nil
}
func (d dispenser) DispenseDestination() (connectorPlugin.DestinationPlugin, error) {
	return &dstPlugin{w: d.w, main: d.id == DstID}, nil
}

type pluginService struct{ w *World }

func (p pluginService) NewDispenser(_ log.CtxLogger, _ string, connectorID string) (connectorPlugin.Dispenser, error) {
	return dispenser{w: p.w, id: connectorID}, nil
}

// ---------------------------------------------------------------- processor plugin

type procPlugin struct {
	sdk.UnimplementedProcessor
	w    *World
	inst int
}

func (p *procPlugin) Specification() (sdk.Specification, error) {
	return sdk.Specification{Name: "fake-proc", Version: "v0"}, nil
}
func (p *procPlugin) Configure(context.Context, config.Config) error { return nil }
func (p *procPlugin) Open(context.Context) error {
	p.w.Log(Ev{K: "popen", N: p.inst})
	return nil
}
func (p *procPlugin) Process(_ context.Context, recs []opencdc.Record) []sdk.ProcessedRecord {
	res := make([]sdk.ProcessedRecord, len(recs))
	for i, r := range recs {
		r2 := r.Clone()
		if r2.Metadata == nil {
			r2.Metadata = opencdc.Metadata{}
		}
		r2.Metadata["verif.inst"] = strconv.Itoa(p.inst)
		res[i] = sdk.SingleRecord(r2)
	}
	return res
}
func (p *procPlugin) Teardown(context.Context) error {
	p.w.Log(Ev{K: "ptd", N: p.inst})
	return nil
}

type quietProc struct{ sdk.UnimplementedProcessor }

func (quietProc) Specification() (sdk.Specification, error) {
	return sdk.Specification{Name: "fake-proc", Version: "v0"}, nil
}

type procRegistry struct {
	w     *World
	mu    sync.Mutex
	count int
	armed bool
}

func (r *procRegistry) NewProcessor(_ context.Context, name string, _ string, _ egress.Policy) (sdk.Processor, error) {
	if !strings.HasPrefix(name, "proc-") {
		return nil, fmt.Errorf("plugin %q not found", name)
	}
	r.mu.Lock()
	defer r.mu.Unlock()
	if !r.armed {
		return quietProc{}, nil // processor.Service.Create probes the plugin with a throw-away instance
	}
	r.count++
	return &procPlugin{w: r.w, inst: r.count}, nil
}

// ---------------------------------------------------------------- database: commits and imports in the log

type applyKey struct{}

// WithApply marks the context of the apply under test: its transactions are the imports.
func WithApply(ctx context.Context) context.Context { return context.WithValue(ctx, applyKey{}, true) }

type loggedDB struct {
	database.DB
	w     *World
	store *connector.Store
}

type loggedTx struct {
	database.Transaction
	db     *loggedDB
	imp    bool
	done   bool
	FailAt bool
}

func (d *loggedDB) srcPos() int {
	inst, err := d.store.Get(context.Background(), SrcID)
	if err != nil || inst == nil {
		return 0
	}
	if st, ok := inst.State.(connector.SourceState); ok {
		return parsePos(st.Position)
	}
	return 0
}

func (d *loggedDB) NewTransaction(ctx context.Context, update bool) (database.Transaction, context.Context, error) {
	tx, ctx2, err := d.DB.NewTransaction(ctx, update)
	if err != nil || !update {
		return tx, ctx2, err
	}
	imp, _ := ctx.Value(applyKey{}).(bool)
	return &loggedTx{Transaction: tx, db: d, imp: imp}, ctx2, nil
}

func (t *loggedTx) Commit() error {
	w := t.db.w
	w.mu.Lock() // commit and snapshot are one step with respect to the log
	defer w.mu.Unlock()
	t.done = true
	err := t.Transaction.Commit()
	switch {
	case t.imp && err == nil:
		w.evs = append(w.evs, Ev{K: "import", N: t.db.srcPos(), X: "ok"})
	case t.imp:
		w.evs = append(w.evs, Ev{K: "import", N: t.db.srcPos(), X: "fail"})
	case err == nil:
		w.evs = append(w.evs, Ev{K: "commit", N: t.db.srcPos()})
	}
	return err
}

func (t *loggedTx) Discard() {
	if !t.done && t.imp {
		t.db.w.Log(Ev{K: "import", N: t.db.srcPos(), X: "fail"})
	}
	t.done = true
	t.Transaction.Discard()
}

// ---------------------------------------------------------------- assembly

const (
	PipelineID = "pl"
	SrcID      = "pl:c1"
	DstID      = "pl:c2"
	ProcID     = "pl:p1"
)

type Sys struct {
	W    *World
	Pl   *pipeline.Service
	Conn *connector.Service
	Proc *processor.Service
	Life *lifecycle.Service
	Prov *provisioning.Service
	reg  *procRegistry
	db   *loggedDB
}

// New builds the services; nothing is provisioned yet.
func New() *Sys {
	w := &World{}
	w.scv = sync.NewCond(&w.smu)
	logger := log.Nop()
	mem := &inmemory.DB{}
	db := &loggedDB{DB: mem, w: w, store: connector.NewStore(mem, logger)}
	persister := connector.NewPersister(logger, db, 20*time.Millisecond, 10000)
	s := &Sys{W: w, db: db}
	s.reg = &procRegistry{w: w}
	s.Pl = pipeline.NewService(logger, db)
	s.Conn = connector.NewService(logger, db, persister)
	s.Proc = processor.NewService(logger, db, s.reg)
	rec := &lifecycle.ErrRecoveryCfg{MinDelay: time.Millisecond, MaxDelay: 5 * time.Millisecond, BackoffFactor: 2,
		MaxRetries: 0, MaxRetriesWindow: 50 * time.Millisecond}
	s.Life = lifecycle.NewService(logger, rec, s.Conn, s.Proc, pluginService{w}, s.Pl)
	s.Prov = provisioning.NewService(db, logger, s.Pl, s.Conn, s.Proc, pluginService{w}, s.Life, "")
	return s
}

// Arm makes processor instances log themselves from now on (after provisioning).
func (s *Sys) Arm() {
	s.reg.mu.Lock()
	s.reg.armed = true
	s.reg.mu.Unlock()
}

// StoredPos is the durable position of the source connector, read from the store.
func (s *Sys) StoredPos() int { return s.db.srcPos() }

// Running reports the pipeline status.
func (s *Sys) Running() bool {
	inst, err := s.Pl.Get(context.Background(), PipelineID)
	return err == nil && inst.GetStatus() == pipeline.StatusRunning
}
