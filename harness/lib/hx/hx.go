// Package hx holds what every property harness shares: the PRNG all random
// choices derive from, command-line plumbing, and writers for the two case
// files a run produces (cases_<shard>.jsonl for people and replays,
// cases_<shard>.v for the Coq model).
package hx

import (
	"bufio"
	"encoding/json"
	"flag"
	"fmt"
	"os"
	"path/filepath"
	"strings"
)

// Rand is splitmix64; every random choice of a run derives from one state.
type Rand struct{ s uint64 }

func NewRand(seed uint64) *Rand { return &Rand{s: seed*0x9E3779B97F4A7C15 + 0x1234567} }

func (r *Rand) U64() uint64 {
	r.s += 0x9E3779B97F4A7C15
	z := r.s
	z = (z ^ (z >> 30)) * 0xBF58476D1CE4E5B9
	z = (z ^ (z >> 27)) * 0x94D049BB133111EB
	return z ^ (z >> 31)
}

// Intn returns a value in [0,n).
func (r *Rand) Intn(n int) int {
	if n <= 0 {
		return 0
	}
	return int(r.U64() % uint64(n))
}

// Range returns a value in [lo,hi].
func (r *Rand) Range(lo, hi int) int { return lo + r.Intn(hi-lo+1) }
func (r *Rand) Bool() bool          { return r.U64()&1 == 1 }

// Chance is true with probability num/den.
func (r *Rand) Chance(num, den int) bool { return r.Intn(den) < num }

// Fork derives an independent stream (e.g. one per case) so that a case can be
// regenerated from (seed, index) alone.
func (r *Rand) Fork(i uint64) *Rand { return NewRand(r.s ^ (i+1)*0xD6E8FEB86659FD93) }

// Opts are the flags every harness accepts.
type Opts struct {
	Seed   uint64
	N      int
	Tier   string
	Out    string
	Shard  int
	Shards int
	Replay string
	Mode   string
}

func ParseFlags() Opts {
	var o Opts
	flag.Uint64Var(&o.Seed, "seed", 1, "PRNG seed")
	flag.IntVar(&o.N, "n", 100, "number of generated cases in this shard")
	flag.StringVar(&o.Tier, "tier", "quick", "quick|thorough")
	flag.StringVar(&o.Out, "out", ".", "output directory")
	flag.IntVar(&o.Shard, "shard", 0, "shard index")
	flag.IntVar(&o.Shards, "shards", 1, "number of shards")
	flag.StringVar(&o.Replay, "replay", "", "replay the case(s) in this JSON(L) file instead of generating")
	flag.StringVar(&o.Mode, "mode", "", "harness specific sub-mode")
	flag.Parse()
	return o
}

// Writer writes the two case files of a shard.
type Writer struct {
	jf, vf *os.File
	jw, vw *bufio.Writer
	n      int
	first  bool
}

// NewWriter opens cases_<shard>.jsonl/.v. header is the Coq prelude
// (Require lines); ctype the Coq type of a case; chk the checker function.
func NewWriter(o Opts, header, ctype string) (*Writer, error) {
	if err := os.MkdirAll(o.Out, 0o755); err != nil {
		return nil, err
	}
	base := filepath.Join(o.Out, fmt.Sprintf("cases_%d", o.Shard))
	jf, err := os.Create(base + ".jsonl")
	if err != nil {
		return nil, err
	}
	vf, err := os.Create(base + ".v")
	if err != nil {
		return nil, err
	}
	w := &Writer{jf: jf, vf: vf, jw: bufio.NewWriter(jf), vw: bufio.NewWriter(vf), first: true}
	fmt.Fprintf(w.vw, "%s\nDefinition cases : list (N * %s) := [\n", header, ctype)
	return w, nil
}

// Add appends one case: js is marshalled to the jsonl file together with its
// index, coq is the Coq term of the case.
func (w *Writer) Add(js map[string]any, coq string) int {
	idx := w.n
	js["idx"] = idx
	b, err := json.Marshal(js)
	if err != nil {
		panic(err)
	}
	w.jw.Write(b)
	w.jw.WriteByte('\n')
	if !w.first {
		w.vw.WriteString(";\n")
	}
	w.first = false
	fmt.Fprintf(w.vw, "(%d%%N, %s)", idx, coq)
	w.n++
	return idx
}

// Close finishes both files; chk is the Coq checker applied to every case.
func (w *Writer) Close(chk string) error {
	fmt.Fprintf(w.vw, "\n].\nDefinition R := Eval vm_compute in failing %s cases.\nPrint R.\n", chk)
	if err := w.vw.Flush(); err != nil {
		return err
	}
	if err := w.jw.Flush(); err != nil {
		return err
	}
	w.vf.Close()
	return w.jf.Close()
}

func (w *Writer) Count() int { return w.n }

// ---- Coq term rendering ----

func Bool(b bool) string {
	if b {
		return "true"
	}
	return "false"
}
func Nat(n int) string { return fmt.Sprintf("%d", n) }
func Z(n int64) string {
	if n < 0 {
		return fmt.Sprintf("(%d)%%Z", n)
	}
	return fmt.Sprintf("%d%%Z", n)
}
func N(n uint64) string { return fmt.Sprintf("%d%%N", n) }
func List(items []string) string {
	return "[" + strings.Join(items, "; ") + "]"
}
func Bools(bs []bool) string {
	s := make([]string, len(bs))
	for i, b := range bs {
		s[i] = Bool(b)
	}
	return List(s)
}
func Nats(ns []int) string {
	s := make([]string, len(ns))
	for i, n := range ns {
		s[i] = Nat(n)
	}
	return List(s)
}
func Pair(a, b string) string { return "(" + a + ", " + b + ")" }
func Some(a string) string    { return "(Some " + a + ")" }

const None = "None"

// Str renders a Go string as a Coq string literal (bytes > 127 or control
// characters are not supported here; use Bytes for arbitrary data).
func Str(s string) string {
	return "\"" + strings.ReplaceAll(s, "\"", "\"\"") + "\"%string"
}

// ReadJSONL reads every line of a jsonl (or single-object json) file.
func ReadJSONL(path string) ([]map[string]any, error) {
	b, err := os.ReadFile(path)
	if err != nil {
		return nil, err
	}
	var out []map[string]any
	for _, line := range strings.Split(string(b), "\n") {
		line = strings.TrimSpace(line)
		if line == "" {
			continue
		}
		var m map[string]any
		if err := json.Unmarshal([]byte(line), &m); err != nil {
			// maybe a pretty-printed single object
			var m2 map[string]any
			if err2 := json.Unmarshal(b, &m2); err2 == nil {
				return []map[string]any{m2}, nil
			}
			return nil, err
		}
		out = append(out, m)
	}
	return out, nil
}

// Try runs f and reports whether it returned without panicking. Used to skip
// ill-formed replay/shrink candidates.
func Try(f func()) (ok bool) {
	defer func() {
		if recover() != nil {
			ok = false
		}
	}()
	f()
	return true
}
