package funnelx

import (
	"encoding/json"
	"fmt"
	"os"

	"github.com/conduitio/conduit/pkg/lifecycle-poc/funnel"

	"verifharness/lib/hx"
)

func emit(w *hx.Writer, c Case) {
	o := Run(c)
	w.Add(map[string]any{"input": c, "observed": o}, CoqCase(c, o))
}

// Main is the entry point shared by cmd/c08 and cmd/c09.
func Main(prop string) {
	o := hx.ParseFlags()
	a, s := funnel.VerifRetryLimits()
	lim := limits{a, s}
	malformed := prop == "C09"
	chk := "chk08"
	if malformed {
		chk = "chk09"
	}
	if o.Mode == "probe" {
		cs, err := hx.ReadJSONL(o.Replay)
		if err != nil {
			fmt.Fprintln(os.Stderr, err)
			os.Exit(2)
		}
		for _, m := range cs {
			c := CaseFromJSON(m)
			ob := Run(c)
			b, _ := json.Marshal(ob)
			fmt.Println(string(b))
		}
		return
	}
	w, err := hx.NewWriter(o, "From Verif Require Import Base.CaseCheck Funnel.Check.", "fcase")
	if err != nil {
		fmt.Fprintln(os.Stderr, err)
		os.Exit(2)
	}
	switch {
	case o.Replay != "":
		cs, err := hx.ReadJSONL(o.Replay)
		if err != nil {
			fmt.Fprintln(os.Stderr, err)
			os.Exit(2)
		}
		for _, m := range cs {
			var c Case
			var coq string
			var ob Obs
			if !hx.Try(func() { c = CaseFromJSON(m); ob = Obs{}; coq = CoqCase(c, ob) }) {
				continue // not a well-formed case (e.g. a shrink candidate)
			}
			_ = coq
			emit(w, c)
		}
	case o.Mode == "cond":
		maxN := 4
		if o.Tier == "thorough" {
			maxN = 6
		}
		CondCases(lim, maxN, o.Shard, o.Shards, func(c Case) { emit(w, c) })
	default:
		root := hx.NewRand(o.Seed)
		for i := 0; i < o.N; i++ {
			r := root.Fork(uint64(o.Shard)<<32 | uint64(i))
			emit(w, Gen(r, lim, malformed))
		}
	}
	if err := w.Close(chk); err != nil {
		fmt.Fprintln(os.Stderr, err)
		os.Exit(2)
	}
	fmt.Printf("cases=%d\n", w.Count())
}
