package funnelx

import (
	"encoding/json"
	"fmt"
	"os"
	"strings"

	"github.com/conduitio/conduit/pkg/lifecycle-poc/funnel"

	"verifharness/lib/hx"
)

func emit(w *hx.Writer, c Case) {
	o := Run(c)
	w.Add(map[string]any{"input": c, "observed": o, "variant": TreeFix}, CoqCase(c, o))
}

func plainDest() Dest { return Dest{WriteErrAt: -1, Fail: [][]int{}, Chunks: []int{}, Acts: []Act{}} }

func probeCase(lim limits, recs []Rec, procs []Proc, dest Dest) Case {
	return Case{Recs: recs, Procs: procs, Dest: dest, Dlq: plainDest(), SrcActs: []Act{},
		MaxAttempts: lim.attempts, MaxStall: lim.stall}
}

// ProbeFixes runs the minimal input of each C08/C09 finding once on the real
// code and reads off which variant (shipped / repaired) the tree shows.
func ProbeFixes(lim limits) Fixes {
	var f Fixes
	rec := func(k int, cond ...int) Rec { return Rec{Pos: Pos{k}, ID: []int{k}, Cond: cond} }
	ks := func(names ...string) []Kind {
		out := make([]Kind, len(names))
		for i, n := range names {
			out[i] = Kind{K: n}
			if n == "multi" {
				out[i].N = 2
			}
		}
		return out
	}
	// S2: condition true for 0 and 2 of 4, one result for the two kept records
	o := Run(probeCase(lim, []Rec{rec(0, 1), rec(1, 0), rec(2, 1), rec(3, 0)},
		[]Proc{{Cond: true, Replies: []Reply{{Kinds: ks("same")}}}}, plainDest()))
	f.CondPad = o.Term != "panic"
	// more results than records
	o = Run(probeCase(lim, []Rec{rec(0), rec(1)},
		[]Proc{{Replies: []Reply{{Kinds: ks("same", "same", "filter")}}}}, plainDest()))
	f.More = o.Term != "panic"
	// nil source position that gets split
	o = Run(probeCase(lim, []Rec{{Pos: nil, ID: []int{0}}, rec(1)},
		[]Proc{{Replies: []Reply{{Kinds: ks("multi", "same")}}}}, plainDest()))
	f.SrcPos = o.Term != "panic" && len(o.Events) == 0
	// empty ack replies
	d := plainDest()
	d.Acts = []Act{{Call: 0, Act: "empty"}, {Call: 1, Act: "empty"}}
	o = Run(probeCase(lim, []Rec{rec(0), rec(1)}, []Proc{}, d))
	f.EmptyAck = o.Term == "err"
	// a processor error the DLQ does not absorb (window of 1, threshold 0)
	pc := probeCase(lim, []Rec{rec(0)}, []Proc{{Replies: []Reply{{Kinds: ks("err")}}}}, plainDest())
	pc.DlqSize, pc.DlqThr = 1, 0
	o = Run(pc)
	f.ProcFatal = o.Term == "err" && o.Fatal
	// nack of a piece whose run holds a filtered piece
	d = plainDest()
	d.Fail, d.Chunks = [][]int{{0, 1}, {1}}, []int{1}
	o = Run(probeCase(lim, []Rec{rec(0), rec(1)},
		[]Proc{{Replies: []Reply{{Kinds: ks("multi", "same")}}}, {Replies: []Reply{{Kinds: ks("filter", "same", "same")}}}}, d))
	for _, e := range o.Events {
		if e.K == "dlqwrite" {
			for _, r := range e.Recs {
				if len(r.ID) > 0 && r.ID[0] == 1 {
					f.Unfilter = true
				}
			}
		}
	}
	return f
}

func replayIsV1(path string) bool {
	cs, err := hx.ReadJSONL(path)
	if err != nil || len(cs) == 0 {
		return false
	}
	in, ok := UnwrapReplay(cs[0])["input"].(map[string]any)
	if !ok {
		return false
	}
	e, _ := in["engine"].(string)
	return e == "v1-proc" || e == "v1-acker" || e == "sandbox"
}

func replayIsPar(path string) bool {
	cs, err := hx.ReadJSONL(path)
	if err != nil || len(cs) == 0 {
		return false
	}
	in, ok := UnwrapReplay(cs[0])["input"].(map[string]any)
	if !ok {
		return false
	}
	e, _ := in["engine"].(string)
	return e == "v1-par"
}

// UnwrapReplay accepts, besides a plain case line {"input":...}, a replay file
// written by the driver ({"case": {...}, "original_case": {...}, ...}).
func UnwrapReplay(m map[string]any) map[string]any {
	if _, ok := m["input"]; ok {
		return m
	}
	for _, k := range []string{"case", "original_case", "broken_correspondence_case"} {
		if c, ok := m[k].(map[string]any); ok {
			if _, ok := c["input"]; ok {
				return c
			}
		}
	}
	return m
}

// Main is the entry point shared by cmd/c08 and cmd/c09.
func Main(prop string) {
	o := hx.ParseFlags()
	a, s := funnel.VerifRetryLimits()
	lim := limits{a, s}
	if o.Mode != "v1child" {
		TreeFix = ProbeFixes(lim)
	}
	malformed := prop == "C09"
	chk := "chk08"
	if malformed {
		chk = "chk09"
	}
	if o.Replay != "" && !strings.HasPrefix(o.Mode, "v1") && o.Mode != "probe" && replayIsV1(o.Replay) {
		o.Mode = "v1:0:1"
	}
	if o.Mode != "v1child" && (strings.HasPrefix(o.Mode, "par") || (o.Replay != "" && replayIsPar(o.Replay))) {
		ParMain(o) // classic engine ParallelNode (own case type, see v1par.go)
		return
	}
	if strings.HasPrefix(o.Mode, "v1") {
		V1Main(o) // classic engine nodes + built-in connector sandbox (own case type, see v1.go)
		return
	}
	if o.Mode == "probe" {
		cs, err := hx.ReadJSONL(o.Replay)
		if err != nil {
			fmt.Fprintln(os.Stderr, err)
			os.Exit(2)
		}
		for _, m := range cs {
			c := CaseFromJSON(m)
			ob := Run(c)
			b, _ := json.Marshal(ob)
			fmt.Println(string(b))
		}
		return
	}
	w, err := hx.NewWriter(o, "From Verif Require Import Base.CaseCheck Funnel.Check.", "fcase")
	if err != nil {
		fmt.Fprintln(os.Stderr, err)
		os.Exit(2)
	}
	switch {
	case o.Replay != "":
		cs, err := hx.ReadJSONL(o.Replay)
		if err != nil {
			fmt.Fprintln(os.Stderr, err)
			os.Exit(2)
		}
		for _, m := range cs {
			m = UnwrapReplay(m)
			var c Case
			var coq string
			var ob Obs
			if !hx.Try(func() { c = CaseFromJSON(m); ob = Obs{}; coq = CoqCase(c, ob) }) {
				continue // not a well-formed case (e.g. a shrink candidate)
			}
			_ = coq
			emit(w, c)
		}
	case strings.HasPrefix(o.Mode, "cond"):
		// "cond:<i>:<n>": the i-th of n shards of the exhaustive condition enumeration
		maxN := 3
		if o.Tier == "thorough" {
			maxN = 6
		}
		i, n := 0, 1
		fmt.Sscanf(o.Mode, "cond:%d:%d", &i, &n)
		if n < 1 || i < 0 || i >= n {
			i, n = 0, 1
		}
		CondCases(lim, maxN, i, n, func(c Case) { emit(w, c) })
	case strings.HasPrefix(o.Mode, "dest"):
		// "dest:<i>:<n>": the i-th of n shards of the exhaustive destination reply enumeration
		maxM := 4
		if o.Tier == "thorough" {
			maxM = 5
		}
		i, n := 0, 1
		fmt.Sscanf(o.Mode, "dest:%d:%d", &i, &n)
		if n < 1 || i < 0 || i >= n {
			i, n = 0, 1
		}
		DestCases(lim, maxM, i, n, func(c Case) { emit(w, c) })
	default:
		root := hx.NewRand(o.Seed)
		for i := 0; i < o.N; i++ {
			r := root.Fork(uint64(o.Shard)<<32 | uint64(i))
			emit(w, Gen(r, lim, malformed))
		}
	}
	if err := w.Close(chk); err != nil {
		fmt.Fprintln(os.Stderr, err)
		os.Exit(2)
	}
	fmt.Printf("cases=%d\n", w.Count())
}
