// Package funnelx is the shared harness of C08 and C09: it drives whole
// passes of the real funnel.Worker (source task -> processor tasks -> one
// destination task, DLQ) through the package's exported API with scripted fake
// plugins, and renders the case plus what was observed as a Coq term for the
// model in coq/Funnel.
//
// Case grammar (JSON "input"):
//
//	recs      source batch; record k has id [k], a position (null = nil,
//	          [] = empty, [a,b..] = bytes "a.b..") and per-processor condition
//	          values cond[p] (0 false, 1 true, anything else: evaluation error)
//	procs     chain; each: cond (has a condition) and replies (one per Process
//	          call; exhausted => every record passes unchanged). A reply is a
//	          vector of result kinds applied to the input record at the same
//	          index: same | mod | pos(p) | filter | err | multi(n) | nil, plus a
//	          capacity slack of the returned slice.
//	dest,dlq  destination scripts: write_err_at, fail (ids whose ack carries an
//	          error), chunks (sizes of consecutive ack replies, 0 = all
//	          pending), acts (per Ack call: empty|err|extra|wrongpos|dup|swap)
//	dlq_size, dlq_thr   DLQ window
//	src_acts  per Source.Ack call: err | eof
//	max_attempts, max_stall   the two retry bounds (set through the verif hook)
package funnelx

import (
	"encoding/json"
	"fmt"
	"strconv"
	"strings"

	"verifharness/lib/hx"
)

// Pos is a position: nil slice = nil position, empty = empty non-nil.
type Pos []int

type Rec struct {
	Pos  Pos   `json:"pos"`
	ID   []int `json:"id"`
	Cond []int `json:"cond"`
}

type Kind struct {
	K string `json:"k"`
	N int    `json:"n,omitempty"`
	P Pos    `json:"p"`
}

// Reply: Exact=false: the result vector is Kinds literally (any length).
// Exact=true: the vector has max(0, len(input)-Short) entries, entry i is
// Kinds[i mod len(Kinds)] (KSame when Kinds is empty).
type Reply struct {
	Kinds []Kind `json:"kinds"`
	Slack int    `json:"slack,omitempty"`
	Exact bool   `json:"exact,omitempty"`
	Short int    `json:"short,omitempty"`
}

type Proc struct {
	Cond    bool    `json:"cond"`
	Replies []Reply `json:"replies"`
}

// Act is one scripted misbehaviour of the Call-th call. For the destination acts
// N is an index or a count: "extra" sends N+1 surplus acks, "wrongpos"/"dup"/
// "swap" act on the N-th ack of the reply, "short" loses the last N+1 acks.
type Act struct {
	Call int    `json:"call"`
	Act  string `json:"act"`
	N    int    `json:"n,omitempty"`
}

type Dest struct {
	WriteErrAt int     `json:"write_err_at"` // -1: never
	Fail       [][]int `json:"fail"`
	FailMod    []int   `json:"fail_mod"` // [m, r]: also fail ids whose element sum mod m == r (m > 0)
	Chunks     []int   `json:"chunks"`
	Acts       []Act   `json:"acts"`
}

type Case struct {
	Recs        []Rec  `json:"recs"`
	Procs       []Proc `json:"procs"`
	Dest        Dest   `json:"dest"`
	Dlq         Dest   `json:"dlq"`
	DlqSize     int    `json:"dlq_size"`
	DlqThr      int    `json:"dlq_thr"`
	SrcActs     []Act  `json:"src_acts"`
	MaxAttempts int    `json:"max_attempts"`
	MaxStall    int    `json:"max_stall"`
}

// ---- observation ----

type ORec struct {
	Pos  []int  `json:"pos"`
	ID   []int  `json:"id"`
	Err  *OErr  `json:"err,omitempty"`  // DLQ writes only
	Task int    `json:"task,omitempty"` // DLQ writes only (task index: processors 1.., destination n+1)
	OK   bool   `json:"ok,omitempty"`   // destination confirmations only
	Raw  string `json:"raw,omitempty"`  // set when something could not be decoded
}

type OErr struct {
	T  string `json:"t"` // EP | ED | ENG
	P  int    `json:"p,omitempty"`
	ID []int  `json:"id,omitempty"`
}

type Event struct {
	K     string  `json:"k"` // proc | write | dack | dlqwrite | dlqack | sack
	P     int     `json:"p,omitempty"`
	Recs  []ORec  `json:"recs,omitempty"`
	Pos   [][]int `json:"pos,omitempty"`
	Kinds []int   `json:"kinds,omitempty"` // proc: result kinds returned (see coq/Funnel/Tasks.v kind_code)
}

type Obs struct {
	Events []Event `json:"events"`
	Term   string  `json:"term"` // ok | err | panic | hang
	Fatal  bool    `json:"fatal,omitempty"`
	Code   string  `json:"code,omitempty"` // none | empty_pos | retry | other
	Detail string  `json:"detail,omitempty"`
	Site   string  `json:"site,omitempty"` // panic: first frame inside the engine
}

// Fixes says which of the repairs of the C08/C09 findings the tree under test
// contains (coq/Funnel/Batch.v, record fixes). It is PROBED on the real code by
// running the minimal input of each finding once (ProbeFixes), so that the same
// model checks the shipped and the repaired tree; the property monitor does not
// depend on it.
type Fixes struct {
	CondPad   bool `json:"cond_pad"`
	More      bool `json:"more"`
	Unfilter  bool `json:"unfilter"`
	SrcPos    bool `json:"srcpos"`
	EmptyAck  bool `json:"emptyack"`
	ProcFatal bool `json:"procfatal"`
	V1Acker   bool `json:"v1_acker"`
}

// TreeFix is set once at start-up.
var TreeFix Fixes

func (f Fixes) coq() string {
	// fx_procfatal is rendered as repaired whatever the probe saw: the fatality of
	// a processor error the DLQ does not absorb is C10's property and the C08/C09
	// monitors have no clause for it, so a tree showing the shipped variant must
	// surface as a disagreement with the model instead of being followed silently
	// (the probed value stays visible in the case's "variant").
	return fmt.Sprintf("(mkFix %s %s %s %s %s %s)", hx.Bool(f.CondPad), hx.Bool(f.More), hx.Bool(f.Unfilter),
		hx.Bool(f.SrcPos), hx.Bool(f.EmptyAck), hx.Bool(true))
}

// ---- JSON ----

func CaseFromJSON(m map[string]any) Case {
	in, ok := m["input"]
	if !ok {
		in = m
	}
	b, err := json.Marshal(in)
	if err != nil {
		panic(err)
	}
	var c Case
	c.Dest.WriteErrAt, c.Dlq.WriteErrAt = -1, -1
	if err := json.Unmarshal(b, &c); err != nil {
		panic(err)
	}
	if c.MaxAttempts <= 0 || c.MaxStall <= 0 {
		panic("ill-formed case: retry bounds")
	}
	if len(c.Procs) > 8 || len(c.Recs) > 64 {
		panic("ill-formed case: too large")
	}
	return c
}

// ---- dotted rendering of int lists (positions, ids) ----

func Dotted(l []int) string {
	s := make([]string, len(l))
	for i, x := range l {
		s[i] = strconv.Itoa(x)
	}
	return strings.Join(s, ".")
}

func ParseDotted(s string) ([]int, bool) {
	if s == "" {
		return []int{}, true
	}
	parts := strings.Split(s, ".")
	out := make([]int, len(parts))
	for i, p := range parts {
		n, err := strconv.Atoi(p)
		if err != nil || n < 0 {
			return nil, false
		}
		out[i] = n
	}
	return out, true
}

// ---- Coq rendering ----

func cNats(l []int) string { return hx.Nats(l) }

func cPos(p Pos) string {
	if p == nil {
		return "None"
	}
	return hx.Some(cNats(p))
}

func cRec(r Rec) string {
	return fmt.Sprintf("(mkRec %s %s %s)", cPos(r.Pos), cNats(r.ID), cNats(r.Cond))
}

func cKind(k Kind) string {
	switch k.K {
	case "same":
		return "KSame"
	case "mod":
		return "KMod"
	case "pos":
		return "(KPos " + cPos(k.P) + ")"
	case "filter":
		return "KFilter"
	case "err":
		return "KErr"
	case "multi":
		return fmt.Sprintf("(KMulti %d)", k.N)
	case "nil":
		return "KNil"
	}
	panic("ill-formed kind " + k.K)
}

func cAct(a Act) string {
	if a.N < 0 {
		panic("ill-formed act parameter")
	}
	arg := func(c string) string { return "(" + c + " " + hx.Nat(a.N) + ")" }
	switch a.Act {
	case "empty":
		return "AEmpty"
	case "err":
		return "AErr"
	case "extra":
		return arg("AExtra")
	case "wrongpos":
		return arg("AWrongPos")
	case "dup":
		return arg("ADup")
	case "swap":
		return arg("ASwap")
	case "short":
		return arg("AShort")
	case "eof":
		return "AEof"
	}
	panic("ill-formed act " + a.Act)
}

func cActs(as []Act) string {
	items := make([]string, len(as))
	for i, a := range as {
		if a.Call < 0 {
			panic("ill-formed act call")
		}
		items[i] = hx.Pair(hx.Nat(a.Call), cAct(a))
	}
	return hx.List(items)
}

func cDest(d Dest) string {
	w := "None"
	if d.WriteErrAt >= 0 {
		w = hx.Some(hx.Nat(d.WriteErrAt))
	}
	fails := make([]string, len(d.Fail))
	for i, f := range d.Fail {
		fails[i] = cNats(f)
	}
	for _, c := range d.Chunks {
		if c < 0 {
			panic("ill-formed chunk")
		}
	}
	fm := "None"
	if len(d.FailMod) >= 2 && d.FailMod[0] > 0 && d.FailMod[1] >= 0 {
		fm = hx.Some(hx.Pair(hx.Nat(d.FailMod[0]), hx.Nat(d.FailMod[1])))
	}
	return fmt.Sprintf("(mkDest %s %s %s %s %s)", w, hx.List(fails), fm, cNats(d.Chunks), cActs(d.Acts))
}

func cCase(c Case) string {
	recs := make([]string, len(c.Recs))
	for i, r := range c.Recs {
		recs[i] = cRec(r)
	}
	procs := make([]string, len(c.Procs))
	for i, p := range c.Procs {
		reps := make([]string, len(p.Replies))
		for j, r := range p.Replies {
			ks := make([]string, len(r.Kinds))
			for l, k := range r.Kinds {
				ks[l] = cKind(k)
			}
			if r.Slack < 0 || r.Short < 0 {
				panic("ill-formed slack")
			}
			reps[j] = fmt.Sprintf("(mkReply %s %d %s %d)", hx.List(ks), r.Slack, hx.Bool(r.Exact), r.Short)
		}
		procs[i] = fmt.Sprintf("(mkProc %s %s)", hx.Bool(p.Cond), hx.List(reps))
	}
	if c.DlqSize < 0 || c.DlqThr < 0 {
		panic("ill-formed window")
	}
	return fmt.Sprintf("(mkCfg %s %s %s %s %d %d %s %s %s %s)",
		hx.List(recs), hx.List(procs), cDest(c.Dest), cDest(c.Dlq), c.DlqSize, c.DlqThr,
		cActs(c.SrcActs), hx.N(uint64(c.MaxAttempts)), hx.N(uint64(c.MaxStall)), TreeFix.coq())
}

func cORec(r ORec) string {
	return hx.Pair(cNats(r.Pos), cNats(r.ID))
}

func cOErr(e *OErr) string {
	if e == nil {
		return "None"
	}
	switch e.T {
	case "EP":
		return hx.Some(fmt.Sprintf("(EP %d %s)", e.P, cNats(e.ID)))
	case "ED":
		return hx.Some("(ED " + cNats(e.ID) + ")")
	}
	return hx.Some("EEng")
}

func cEvent(e Event) string {
	recs := make([]string, len(e.Recs))
	switch e.K {
	case "proc":
		for i, r := range e.Recs {
			recs[i] = cORec(r)
		}
		return fmt.Sprintf("(EvProc %d %s %s)", e.P, hx.List(recs), hx.Nats(e.Kinds))
	case "write":
		for i, r := range e.Recs {
			recs[i] = cORec(r)
		}
		return "(EvWrite " + hx.List(recs) + ")"
	case "dack", "dlqack":
		for i, r := range e.Recs {
			recs[i] = hx.Pair(cORec(r), hx.Bool(r.OK))
		}
		if e.K == "dack" {
			return "(EvDAck " + hx.List(recs) + ")"
		}
		return "(EvDlqAck " + hx.List(recs) + ")"
	case "dlqwrite":
		for i, r := range e.Recs {
			recs[i] = fmt.Sprintf("(mkDlqRec %s %s %s %d)", cNats(r.Pos), cNats(r.ID), cOErr(r.Err), r.Task)
		}
		return "(EvDlqWrite " + hx.List(recs) + ")"
	case "sack":
		ps := make([]string, len(e.Pos))
		for i, p := range e.Pos {
			ps[i] = cNats(p)
		}
		return "(EvSAck " + hx.List(ps) + ")"
	}
	panic("unknown event " + e.K)
}

func cObs(o Obs) string {
	evs := make([]string, len(o.Events))
	for i, e := range o.Events {
		evs[i] = cEvent(e)
	}
	var term string
	switch o.Term {
	case "ok":
		term = "TOk"
	case "err":
		code := "CNone"
		switch o.Code {
		case "empty_pos":
			code = "CEmptyPos"
		case "retry":
			code = "CRetry"
		case "other":
			code = "COther"
		}
		term = fmt.Sprintf("(TErr %s %s)", hx.Bool(o.Fatal), code)
	case "panic":
		term = "TPanic"
	default:
		term = "THang"
	}
	return hx.Pair(hx.List(evs), term)
}

// CoqCase renders "mkCase cfg observed".
func CoqCase(c Case, o Obs) string {
	return fmt.Sprintf("mkCase %s %s", cCase(c), cObs(o))
}
