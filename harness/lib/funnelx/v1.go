package funnelx

// Classic engine (pipeline architecture v1) half of C09 and the built-in
// connector sandbox. Three case kinds, each driving REAL code of /repo:
//
//	v1-proc    stream.ProcessorNode.Run with a scripted stream.Processor
//	v1-acker   stream.DestinationAckerNode.Run with a scripted stream.Destination
//	           (always in a child process: the node's worker goroutine can panic)
//	sandbox    builtin.runSandbox through the verif hook VerifRunSandbox
//	           (in a child process when the sandboxed function panics)
//
// Case grammar (JSON "input"):
//
//	{"engine":"v1-proc","msgs":[{"pos":[1],"id":[1],"filtered":false,
//	     "nack":"ok|err|none","reply":[{"k":"same|mod|pos|filter|err|multi|nil","n":2,"p":[9]}]}]}
//	{"engine":"v1-acker","msgs":[{"pos":[1],"filtered":false,"ack_err":false,"nack":"ok|err"}],
//	     "replies":[{"acks":[{"pos":[1],"err":false}],"err":false}]}
//	{"engine":"sandbox","calls":[{"block":"no|released|forever","then":"ret|fail|panic_err|panic_val",
//	     "cancel":"never|before|during","val":1,"req":2}]}
//
// The model is coq/Funnel/V1.v (chk_v1).

import (
	"bytes"
	"context"
	"encoding/json"
	"errors"
	"fmt"
	"io"
	"os"
	"os/exec"
	"runtime"
	"runtime/debug"
	"strings"
	"sync"
	"sync/atomic"
	"time"

	"github.com/conduitio/conduit-commons/opencdc"
	sdk "github.com/conduitio/conduit-processor-sdk"
	"github.com/conduitio/conduit/pkg/connector"
	"github.com/conduitio/conduit/pkg/foundation/cerrors"
	"github.com/conduitio/conduit/pkg/foundation/cerrors/conduiterr"
	"github.com/conduitio/conduit/pkg/foundation/log"
	"github.com/conduitio/conduit/pkg/foundation/metrics/noop"
	"github.com/conduitio/conduit/pkg/lifecycle/stream"
	"github.com/conduitio/conduit/pkg/plugin/connector/builtin"

	"verifharness/lib/hx"
)

// ---------- case ----------

type V1Msg struct {
	Pos      Pos    `json:"pos"`
	ID       []int  `json:"id,omitempty"`
	Filtered bool   `json:"filtered,omitempty"`
	Nack     string `json:"nack,omitempty"`    // ok (default) | err | none (v1-proc only)
	AckErr   bool   `json:"ack_err,omitempty"` // v1-acker: the ack handler fails
	Reply    []Kind `json:"reply,omitempty"`   // v1-proc: result vector of Process
}

type V1Ack struct {
	Pos Pos  `json:"pos"`
	Err bool `json:"err,omitempty"`
}

type V1Reply struct {
	Acks []V1Ack `json:"acks"`
	Err  bool    `json:"err,omitempty"`
}

type V1Call struct {
	Block  string `json:"block"`  // no | released | forever
	Then   string `json:"then"`   // ret | fail | panic_err | panic_val
	Cancel string `json:"cancel"` // never | before | during
	Val    int    `json:"val"`
	Req    int    `json:"req"`
}

type V1Case struct {
	Engine  string    `json:"engine"`
	Msgs    []V1Msg   `json:"msgs,omitempty"`
	Replies []V1Reply `json:"replies,omitempty"`
	Calls   []V1Call  `json:"calls,omitempty"`
	// v1-acker: the feeding schedule. The messages reach the node in groups of
	// these sizes; the next group is handed over only after the node has dealt
	// with the previous one and its queue has run empty (so a message can arrive
	// after the Ack reply that covers it). Empty: all messages first.
	Feed []int `json:"feed,omitempty"`
	// v1-par: number of workers of the ParallelNode
	Workers int `json:"workers,omitempty"`
}

// v1Phases cuts the message indices 0..n-1 into the groups of the schedule
// (sizes beyond n are cut, what the sizes do not cover forms a last group).
func v1Phases(c V1Case) [][2]int {
	n := len(c.Msgs)
	var out [][2]int
	at := 0
	for _, k := range c.Feed {
		if at >= n {
			break
		}
		if at+k > n {
			k = n - at
		}
		out = append(out, [2]int{at, at + k})
		at += k
	}
	if at < n {
		out = append(out, [2]int{at, n})
	}
	return out
}

type V1Fwd struct {
	I        int   `json:"i"`
	Pos      []int `json:"pos"`
	ID       []int `json:"id"`
	Filtered bool  `json:"filtered"`
}

type V1SRes struct {
	Returned bool   `json:"returned"`
	Val      int    `json:"val"`
	Err      string `json:"err"` // nil | fn | panic_err | panic_val | ctx | other
}

type V1Obs struct {
	Term   string   `json:"term"` // ok | err | panic | hang
	Detail string   `json:"detail,omitempty"`
	Site   string   `json:"site,omitempty"`
	Fatal  bool     `json:"fatal,omitempty"`
	Code   string   `json:"code,omitempty"` // conduiterr code carried by the error
	Ctx    bool     `json:"ctx,omitempty"`  // the error is the context error
	Fwd    []V1Fwd  `json:"fwd,omitempty"`
	Status []string `json:"status,omitempty"` // per message: open | acked | nacked
	Calls  []V1SRes `json:"calls,omitempty"`
	Aux    string   `json:"aux,omitempty"` // anything that could not be canonicalised
	Par    []V1PObs `json:"par,omitempty"` // v1-par: per message
	Closed bool     `json:"closed,omitempty"` // v1-par: the outbound channel was closed
}

const v1MaxNat = 5000

func v1CheckNats(l []int) {
	for _, x := range l {
		if x < 0 || x > v1MaxNat {
			panic("ill-formed case: number out of range")
		}
	}
}

// V1CaseFromJSON decodes and validates one case; it panics on an ill-formed one.
func V1CaseFromJSON(m map[string]any) V1Case {
	in, ok := m["input"]
	if !ok {
		in = m
	}
	b, err := json.Marshal(in)
	if err != nil {
		panic(err)
	}
	var c V1Case
	if err := json.Unmarshal(b, &c); err != nil {
		panic(err)
	}
	if len(c.Msgs) > 16 || len(c.Replies) > 32 || len(c.Calls) > 8 {
		panic("ill-formed case: too large")
	}
	switch c.Engine {
	case "v1-proc":
		for _, m := range c.Msgs {
			v1CheckNats(m.Pos)
			v1CheckNats(m.ID)
			if len(m.Reply) > 8 {
				panic("ill-formed case: reply too long")
			}
			switch m.Nack {
			case "", "ok", "err", "none":
			default:
				panic("ill-formed nack mode")
			}
			for _, k := range m.Reply {
				v1CheckNats(k.P)
				if k.N < 0 || k.N > 16 {
					panic("ill-formed multi")
				}
				_ = v1Kind(k)
			}
		}
	case "v1-acker":
		if len(c.Feed) > 16 {
			panic("ill-formed case: feed too long")
		}
		for _, k := range c.Feed {
			if k < 1 || k > 16 {
				panic("ill-formed case: feed group size")
			}
		}
		for _, m := range c.Msgs {
			v1CheckNats(m.Pos)
			switch m.Nack {
			case "", "ok", "err":
			default:
				panic("ill-formed nack mode")
			}
		}
		for _, r := range c.Replies {
			if len(r.Acks) > 16 {
				panic("ill-formed case: too many acks")
			}
			for _, a := range r.Acks {
				v1CheckNats(a.Pos)
			}
		}
	case "sandbox":
		for _, s := range c.Calls {
			_ = v1Call(s)
		}
	case "v1-par":
		v1ParValidate(c)
	default:
		panic("ill-formed case: engine")
	}
	return c
}

// ---------- Coq rendering ----------

func v1Kind(k Kind) string {
	switch k.K {
	case "same":
		return "VSame"
	case "mod":
		return "VMod"
	case "pos":
		return "(VPos " + hx.Nats(k.P) + ")"
	case "filter":
		return "VFilter"
	case "err":
		return "VErr"
	case "multi":
		return fmt.Sprintf("(VMulti %d)", k.N)
	case "nil":
		return "VNil"
	}
	panic("ill-formed kind " + k.K)
}

func v1Call(s V1Call) string {
	var b, t, c string
	switch s.Block {
	case "no":
		b = "BNo"
	case "released":
		b = "BReleased"
	case "forever":
		b = "BForever"
	default:
		panic("ill-formed block")
	}
	switch s.Then {
	case "ret":
		t = "SRet"
	case "fail":
		t = "SFail"
	case "panic_err":
		t = "SPanicErr"
	case "panic_val":
		t = "SPanicVal"
	default:
		panic("ill-formed then")
	}
	switch s.Cancel {
	case "never":
		c = "CNever"
	case "before":
		c = "CBefore"
	case "during":
		c = "CDuring"
	default:
		panic("ill-formed cancel")
	}
	if s.Val < 0 || s.Val > 1000 || s.Req < 0 || s.Req > 1000 {
		panic("ill-formed value")
	}
	return fmt.Sprintf("(mkSCall %s %s %s %d %d)", b, t, c, s.Val, s.Req)
}

func v1Status(ss []string) string {
	items := make([]string, len(ss))
	for i, s := range ss {
		switch s {
		case "acked":
			items[i] = "SAcked"
		case "nacked":
			items[i] = "SNacked"
		default:
			items[i] = "SOpen"
		}
	}
	return hx.List(items)
}

func v1Clamp(l []int) []int {
	out := make([]int, len(l))
	for i, x := range l {
		if x < 0 || x > v1MaxNat {
			x = v1MaxNat + 1
		}
		out[i] = x
	}
	return out
}

// V1CoqCase renders the case with its observation as a term of type v1case.
func V1CoqCase(c V1Case, o V1Obs) string {
	switch c.Engine {
	case "v1-proc":
		ms := make([]string, len(c.Msgs))
		for i, m := range c.Msgs {
			ks := make([]string, len(m.Reply))
			for j, k := range m.Reply {
				ks[j] = v1Kind(k)
			}
			nm := "NackOk"
			switch m.Nack {
			case "err":
				nm = "NackErr"
			case "none":
				nm = "NackNone"
			}
			ms[i] = fmt.Sprintf("(mkPMsg %s %s %s %s %s)", hx.Nats(m.Pos), hx.Nats(m.ID), hx.Bool(m.Filtered), nm, hx.List(ks))
		}
		fw := make([]string, len(o.Fwd))
		for i, f := range o.Fwd {
			idx := f.I
			if idx < 0 {
				idx = v1MaxNat
			}
			fw[i] = fmt.Sprintf("(mkFwd %d %s %s %s)", idx, hx.Nats(v1Clamp(f.Pos)), hx.Nats(v1Clamp(f.ID)), hx.Bool(f.Filtered))
		}
		var t string
		switch o.Term {
		case "ok":
			t = "PTOk"
		case "err":
			t = fmt.Sprintf("(PTErr %s %s)", hx.Bool(o.Fatal), hx.Bool(o.Code == stream.CodeFanOutRequiresArchV2.Reason()))
		case "panic":
			t = "PTPanic"
		default:
			t = "PTHang"
		}
		return fmt.Sprintf("CProc %s %s %s %s", hx.List(ms), hx.List(fw), v1Status(o.Status), t)
	case "v1-acker":
		ms := make([]string, len(c.Msgs))
		for i, m := range c.Msgs {
			ms[i] = fmt.Sprintf("(mkAMsg %s %s %s %s)", hx.Nats(m.Pos), hx.Bool(m.Filtered), hx.Bool(m.AckErr), hx.Bool(m.Nack == "err"))
		}
		rs := make([]string, len(c.Replies))
		for i, r := range c.Replies {
			if r.Err {
				rs[i] = "RErr"
				continue
			}
			as := make([]string, len(r.Acks))
			for j, a := range r.Acks {
				as[j] = hx.Pair(hx.Nats(a.Pos), hx.Bool(a.Err))
			}
			rs[i] = "(RAcks " + hx.List(as) + ")"
		}
		var t string
		switch o.Term {
		case "ok":
			t = "ATOk"
		case "err":
			t = "(ATErr " + hx.Bool(o.Ctx) + ")"
		case "panic":
			t = "ATPanic"
		default:
			t = "ATHang"
		}
		var phs []string
		for _, ph := range v1Phases(c) {
			phs = append(phs, hx.List(ms[ph[0]:ph[1]]))
		}
		return fmt.Sprintf("CAcker %s %s %s %s %s", hx.Bool(TreeFix.V1Acker), hx.List(phs), hx.List(rs), v1Status(o.Status), t)
	case "sandbox":
		cs := make([]string, len(c.Calls))
		for i, s := range c.Calls {
			cs[i] = v1Call(s)
		}
		os_ := make([]string, len(o.Calls))
		for i, r := range o.Calls {
			if !r.Returned {
				os_[i] = "SWaits"
				continue
			}
			e := "EOther"
			switch r.Err {
			case "nil":
				e = "ENil"
			case "fn":
				e = "EFn"
			case "panic_err":
				e = "EPanicErr"
			case "panic_val":
				e = "EPanicVal"
			case "ctx":
				e = "ECtx"
			}
			v := r.Val
			if v < 0 || v > v1MaxNat {
				v = v1MaxNat
			}
			os_[i] = fmt.Sprintf("(SReturns %d %s)", v, e)
		}
		t := "STOk"
		switch o.Term {
		case "panic":
			t = "STPanic"
		case "hang":
			t = "STHang"
		}
		return fmt.Sprintf("CSandbox %s %s %s", hx.List(cs), hx.List(os_), t)
	}
	panic("ill-formed case: engine")
}

// ---------- shared ----------

// V1Deadline bounds one case; exceeding it is the observation "hang".
var V1Deadline = 10 * time.Second

func v1Record(m V1Msg) opencdc.Record {
	return opencdc.Record{
		Position:  posBytes(m.Pos),
		Operation: opencdc.OperationCreate,
		Metadata:  opencdc.Metadata{},
		Key:       opencdc.RawData("k"),
		Payload:   opencdc.Change{After: opencdc.RawData(Dotted(m.ID))},
	}
}

func v1StatusOf(m *stream.Message) string {
	switch m.Status() {
	case stream.MessageStatusAcked:
		return "acked"
	case stream.MessageStatusNacked:
		return "nacked"
	case stream.MessageStatusOpen:
		return "open"
	}
	return "open"
}

func v1ClassifyRun(err error, o *V1Obs) {
	if err == nil {
		o.Term = "ok"
		return
	}
	o.Term = "err"
	o.Detail = err.Error()
	o.Fatal = cerrors.IsFatalError(err)
	if ce, ok := conduiterr.Get(err); ok && ce != nil {
		o.Code = ce.Code.Reason()
	}
	o.Ctx = errors.Is(err, context.Canceled) || errors.Is(err, context.DeadlineExceeded)
}

// ---------- (a) ProcessorNode ----------

type v1Processor struct {
	replies [][]Kind // one per Process call (= per unfiltered message, in order)
	calls   int
}

func (p *v1Processor) Open(context.Context) error     { return nil }
func (p *v1Processor) Teardown(context.Context) error { return nil }

func (p *v1Processor) Process(_ context.Context, in []opencdc.Record) []sdk.ProcessedRecord {
	idx := p.calls
	p.calls++
	var kinds []Kind
	if idx < len(p.replies) {
		kinds = p.replies[idx]
	}
	var r opencdc.Record
	if len(in) > 0 {
		r = in[0]
	}
	out := make([]sdk.ProcessedRecord, len(kinds))
	for i, k := range kinds {
		switch k.K {
		case "same":
			out[i] = sdk.SingleRecord(r)
		case "mod":
			out[i] = sdk.SingleRecord(withRid(r, strings.TrimPrefix(ridOf(r)+".100", ".")))
		case "pos":
			q := r
			q.Position = posBytes(k.P)
			out[i] = sdk.SingleRecord(q)
		case "filter":
			out[i] = sdk.FilterRecord{}
		case "err":
			out[i] = sdk.ErrorRecord{Error: errors.New("processor failed on record")}
		case "multi":
			m := make(sdk.MultiRecord, k.N)
			for j := range m {
				m[j] = r
			}
			out[i] = m
		case "nil":
			out[i] = nil
		default:
			panic("ill-formed kind")
		}
	}
	return out
}

func runV1Proc(c V1Case) V1Obs {
	ctx, cancel := context.WithCancel(context.Background())
	defer cancel()

	proc := &v1Processor{}
	msgs := make([]*stream.Message, len(c.Msgs))
	index := map[*stream.Message]int{}
	for i, m := range c.Msgs {
		msg := &stream.Message{Ctx: ctx, Record: v1Record(m), SourceID: "src"}
		msg.RegisterAckHandler(func(*stream.Message) error { return nil })
		switch m.Nack {
		case "err":
			msg.RegisterNackHandler(func(*stream.Message, stream.NackMetadata) error {
				return errors.New("nack handler failed")
			})
		case "none":
			// no nack handler: Message.Nack returns an error wrapping the reason
		default:
			msg.RegisterNackHandler(func(*stream.Message, stream.NackMetadata) error { return nil })
		}
		if m.Filtered {
			msg.VerifSetFiltered(true)
		} else {
			proc.replies = append(proc.replies, m.Reply)
		}
		msgs[i] = msg
		index[msg] = i
	}

	node := &stream.ProcessorNode{Name: "proc", Processor: proc, ProcessorTimer: noop.Timer{}}
	node.SetLogger(log.Nop())
	in := make(chan *stream.Message)
	node.Sub(in)
	out := node.Pub()

	var (
		o        V1Obs
		runErr   error
		panicked any
		stack    string
	)
	runDone := make(chan struct{})
	go func() {
		defer close(runDone)
		defer func() {
			if r := recover(); r != nil {
				panicked = r
				stack = string(debug.Stack())
			}
		}()
		runErr = node.Run(ctx)
	}()

	var fwd []V1Fwd
	var aux []string
	readDone := make(chan struct{})
	go func() {
		defer close(readDone)
		for m := range out {
			f := V1Fwd{I: -1}
			if i, ok := index[m]; ok {
				f.I = i
			}
			p, ok1 := ParseDotted(string(m.Record.Position))
			id, ok2 := ParseDotted(ridOf(m.Record))
			if !ok1 || !ok2 {
				aux = append(aux, fmt.Sprintf("forwarded pos=%q id=%q", m.Record.Position, ridOf(m.Record)))
				p, id = []int{v1MaxNat + 1}, []int{v1MaxNat + 1}
			}
			f.Pos, f.ID, f.Filtered = p, id, m.VerifFiltered()
			fwd = append(fwd, f)
		}
	}()

	deadline := time.After(V1Deadline)
	hang := false
feed:
	for _, m := range msgs {
		select {
		case in <- m:
		case <-runDone:
			break feed
		case <-deadline:
			hang = true
			break feed
		}
	}
	close(in)
	if !hang {
		select {
		case <-runDone:
		case <-deadline:
			hang = true
		}
	}
	if hang {
		cancel()
		select {
		case <-runDone:
		case <-time.After(2 * time.Second):
		}
	}
	select {
	case <-readDone:
	case <-time.After(2 * time.Second):
		aux = append(aux, "outbound channel was not closed")
	}

	switch {
	case hang:
		o.Term = "hang"
		o.Detail = "ProcessorNode.Run did not return"
	case panicked != nil:
		o.Term = "panic"
		o.Detail = strings.SplitN(fmt.Sprint(panicked), "\n", 2)[0]
		o.Site = panicSite(stack)
	default:
		v1ClassifyRun(runErr, &o)
	}
	select {
	case <-readDone:
		o.Fwd = fwd
		o.Aux = strings.Join(aux, "; ")
	default:
	}
	for _, m := range msgs {
		o.Status = append(o.Status, v1StatusOf(m))
	}
	return o
}

// ---------- (b) DestinationAckerNode ----------

// v1Gate holds back the destination's replies and the messages' handlers while
// the harness hands a group of messages to the node.
type v1Gate struct {
	mu   sync.Mutex
	ch   chan struct{}
	open bool
}

func newV1Gate() *v1Gate { return &v1Gate{ch: make(chan struct{})} }

func (g *v1Gate) Open() {
	g.mu.Lock()
	if !g.open {
		close(g.ch)
		g.open = true
	}
	g.mu.Unlock()
}

func (g *v1Gate) Shut() {
	g.mu.Lock()
	if g.open {
		g.ch = make(chan struct{})
		g.open = false
	}
	g.mu.Unlock()
}

func (g *v1Gate) C() <-chan struct{} {
	g.mu.Lock()
	defer g.mu.Unlock()
	return g.ch
}

type v1Dest struct {
	mu        sync.Mutex
	replies   []V1Reply
	calls     int
	gate      *v1Gate
	exhausted chan struct{}
	once      sync.Once
}

func (d *v1Dest) ID() string                                    { return "dest" }
func (d *v1Dest) Open(context.Context) error                    { return nil }
func (d *v1Dest) Write(context.Context, []opencdc.Record) error { return nil }
func (d *v1Dest) Stop(context.Context, opencdc.Position) error  { return nil }
func (d *v1Dest) Teardown(context.Context) error                { return nil }
func (d *v1Dest) Errors() <-chan error                          { return nil }

func (d *v1Dest) Ack(ctx context.Context) ([]connector.DestinationAck, error) {
	select {
	case <-d.gate.C():
	case <-ctx.Done():
		return nil, ctx.Err()
	}
	d.mu.Lock()
	idx := d.calls
	d.calls++
	d.mu.Unlock()
	if idx >= len(d.replies) {
		d.once.Do(func() { close(d.exhausted) })
		<-ctx.Done()
		return nil, ctx.Err()
	}
	r := d.replies[idx]
	if r.Err {
		return nil, errors.New("destination ack stream failed")
	}
	out := make([]connector.DestinationAck, len(r.Acks))
	for i, a := range r.Acks {
		p := posBytes(a.Pos)
		if p == nil {
			p = opencdc.Position{}
		}
		out[i] = connector.DestinationAck{Position: p}
		if a.Err {
			out[i].Error = errors.New("destination rejected record")
		}
	}
	return out, nil
}

func runV1Acker(c V1Case) V1Obs {
	ctx, cancel := context.WithCancel(context.Background())
	defer cancel()

	gate := newV1Gate()
	dest := &v1Dest{replies: c.Replies, gate: gate, exhausted: make(chan struct{})}

	resolvedCh := make(chan struct{}, 2*len(c.Msgs)+1)
	var handlerFailed atomic.Bool

	msgs := make([]*stream.Message, len(c.Msgs))
	for i, m := range c.Msgs {
		m := m
		msg := &stream.Message{Ctx: ctx, Record: v1Record(V1Msg{Pos: m.Pos, ID: []int{i}}), SourceID: "src"}
		msg.RegisterAckHandler(func(*stream.Message) error {
			<-gate.C()
			if m.AckErr {
				handlerFailed.Store(true)
			}
			resolvedCh <- struct{}{}
			if m.AckErr {
				return errors.New("ack handler failed")
			}
			return nil
		})
		msg.RegisterNackHandler(func(*stream.Message, stream.NackMetadata) error {
			<-gate.C()
			if m.Nack == "err" {
				handlerFailed.Store(true)
			}
			resolvedCh <- struct{}{}
			if m.Nack == "err" {
				return errors.New("nack handler failed")
			}
			return nil
		})
		if m.Filtered {
			msg.VerifSetFiltered(true)
		}
		msgs[i] = msg
	}

	node := &stream.DestinationAckerNode{Name: "acker", Destination: dest}
	node.SetLogger(log.Nop())
	in := make(chan *stream.Message)
	node.Sub(in)

	var runErr error
	runDone := make(chan struct{})
	go func() {
		defer close(runDone)
		runErr = node.Run(ctx) // a panic (also of the worker goroutine) kills this process: see v1Child
	}()

	deadline := time.After(V1Deadline)
	hang := false
	ended := false // Run returned, or it was cancelled because the destination went silent
	resolved := 0
	phases := v1Phases(c)
feed:
	for pi, ph := range phases {
		// hand the group over with the replies and the handlers held back: Run pushes a
		// received message into its queue before it receives again
		gate.Shut()
		for i := ph[0]; i < ph[1]; i++ {
			select {
			case in <- msgs[i]:
			case <-runDone:
				ended = true
				break feed
			case <-deadline:
				hang = true
				break feed
			}
		}
		time.Sleep(2 * time.Millisecond)
		gate.Open()
		// the node now has everything it needs to deal with this group
		for resolved < ph[1] {
			select {
			case <-resolvedCh:
				resolved++
			case <-runDone:
				ended = true
				break feed
			case <-dest.exhausted:
				// the destination has nothing more to say and the worker waits for it:
				// stop the pipeline
				cancel()
				ended = true
				break feed
			case <-deadline:
				hang = true
				break feed
			}
		}
		if handlerFailed.Load() {
			// a failed handler ends Run; do not race the next group against that
			ended = true
			break feed
		}
		if pi+1 < len(phases) {
			// let the queue run empty: the worker goes back to waiting for a signal
			time.Sleep(2 * time.Millisecond)
		}
	}
	gate.Open() // every gate is released from here on
	if !hang && !ended {
		close(in)
	}
	if !hang {
		select {
		case <-runDone:
		case <-deadline:
			hang = true
		}
	}
	var o V1Obs
	if hang {
		cancel()
		select {
		case <-runDone:
		case <-time.After(2 * time.Second):
		}
		o.Term = "hang"
		o.Detail = "DestinationAckerNode.Run did not return"
	} else {
		v1ClassifyRun(runErr, &o)
	}
	for _, m := range msgs {
		o.Status = append(o.Status, v1StatusOf(m))
	}
	return o
}

// ---------- (c) runSandbox ----------

type v1SandboxRes struct {
	v   int
	err error
}

func runV1Sandbox(c V1Case) V1Obs {
	var o V1Obs
	o.Term = "ok"
	fnErr := errors.New("sandboxed function failed")
	panicErr := errors.New("sandboxed function panicked with an error value")
	var releases []chan struct{}
	defer func() {
		for _, r := range releases {
			close(r)
		}
	}()
	for _, s := range c.Calls {
		s := s
		ctx, cancel := context.WithCancel(context.Background())
		started := make(chan struct{})
		release := make(chan struct{})
		f := func(_ context.Context, req int) (int, error) {
			if s.Block != "no" {
				close(started)
				<-release
			}
			switch s.Then {
			case "fail":
				return s.Val, fnErr
			case "panic_err":
				panic(panicErr)
			case "panic_val":
				panic(fmt.Sprintf("boom %d", s.Val))
			}
			return req + s.Val, nil
		}
		if s.Cancel == "before" {
			cancel()
		}
		resCh := make(chan v1SandboxRes, 1)
		go func() {
			v, err := builtin.VerifRunSandbox(ctx, f, s.Req)
			resCh <- v1SandboxRes{v, err}
		}()
		deadline := time.After(V1Deadline)
		var res *v1SandboxRes
		wait := func(d <-chan time.Time) bool {
			select {
			case r := <-resCh:
				res = &r
				return true
			case <-d:
				return false
			}
		}
		hang := false
		waits := false
		if s.Block != "no" {
			select {
			case <-started:
			case <-deadline:
				hang = true
				o.Aux += "sandboxed function was never started; "
			}
		}
		if !hang {
			switch {
			case s.Block == "no" || s.Cancel == "before":
				hang = !wait(deadline)
			case s.Cancel == "during":
				cancel()
				hang = !wait(deadline)
			case s.Block == "released":
				close(release)
				release = nil
				hang = !wait(deadline)
			default: // blocks forever under a live context: the caller waits
				if wait(time.After(150 * time.Millisecond)) {
					break
				}
				waits = true
				// it must still be possible to get the caller back by cancelling
				cancel()
				var r2 *v1SandboxRes
				select {
				case r := <-resCh:
					r2 = &r
				case <-deadline:
					hang = true
				}
				if r2 != nil && !errors.Is(r2.err, context.Canceled) {
					o.Aux += "waiting call did not return the context error after cancel; "
				}
			}
		}
		cancel()
		if release != nil {
			releases = append(releases, release) // released when the case ends
		}
		if hang {
			o.Term = "hang"
			o.Detail = "runSandbox did not return"
			return o
		}
		if waits {
			o.Calls = append(o.Calls, V1SRes{Returned: false})
			continue
		}
		r := V1SRes{Returned: true, Val: res.v}
		switch {
		case res.err == nil:
			r.Err = "nil"
		case errors.Is(res.err, fnErr):
			r.Err = "fn"
		case errors.Is(res.err, panicErr):
			r.Err = "panic_err"
		case errors.Is(res.err, context.Canceled):
			r.Err = "ctx"
		case strings.HasPrefix(res.err.Error(), "panic: boom"):
			r.Err = "panic_val"
		default:
			r.Err = "other"
			o.Aux += "unclassified error: " + res.err.Error() + "; "
		}
		o.Calls = append(o.Calls, r)
	}
	return o
}

// ---------- dispatch, child process ----------

func v1RunLocal(c V1Case) V1Obs {
	switch c.Engine {
	case "v1-proc":
		return runV1Proc(c)
	case "v1-acker":
		return runV1Acker(c)
	case "sandbox":
		return runV1Sandbox(c)
	case "v1-par":
		return runV1Par(c)
	}
	panic("ill-formed case: engine")
}

func v1NeedsChild(c V1Case) bool {
	switch c.Engine {
	case "v1-acker", "v1-par":
		return true // the worker goroutine can panic: no recover can catch that
	case "sandbox":
		for _, s := range c.Calls {
			if strings.HasPrefix(s.Then, "panic") {
				return true // the panic is raised in the sandbox's goroutine
			}
		}
	}
	return false
}

// v1Child: JSON cases on stdin (one per line), one observation JSON line on
// stdout per case, in order. A panic of the code under test kills this
// process; the parent reads it from stderr and knows from the number of lines
// printed which case it was.
func v1Child() {
	b, err := io.ReadAll(os.Stdin)
	if err != nil {
		fmt.Fprintln(os.Stderr, err)
		os.Exit(3)
	}
	hangs := 0
	for _, line := range strings.Split(string(b), "\n") {
		line = strings.TrimSpace(line)
		if line == "" {
			continue
		}
		var m map[string]any
		if err := json.Unmarshal([]byte(line), &m); err != nil {
			fmt.Fprintln(os.Stderr, err)
			os.Exit(3)
		}
		c := V1CaseFromJSON(m)
		if hangs >= v1MaxHangs {
			return // every further case would cost a full deadline; the parent skips the rest
		}
		base := runtime.NumGoroutine()
		o := v1RunLocal(c)
		if o.Term == "hang" {
			hangs++
		}
		// A panicking goroutine first runs its deferred calls (the worker's
		// "defer close(errChan)" lets Run return) and only then kills the
		// process: do not report the case before all its goroutines are gone,
		// or the panic would be attributed to the next case.
		for t0 := time.Now(); runtime.NumGoroutine() > base && time.Since(t0) < 3*time.Second; {
			time.Sleep(200 * time.Microsecond)
		}
		out, _ := json.Marshal(o)
		fmt.Println(string(out))
	}
}

// v1RunChildren runs the cases in child processes: one child works through the
// list; when it dies the case it was at gets the observation "panic" and a
// fresh child continues with the rest.
func v1RunChildren(cs []V1Case) []V1Obs {
	obs := make([]V1Obs, 0, len(cs))
	for len(obs) < len(cs) {
		rest := cs[len(obs):]
		var in bytes.Buffer
		for _, c := range rest {
			b, _ := json.Marshal(c)
			in.Write(b)
			in.WriteByte('\n')
		}
		// every case bounds itself by V1Deadline inside the child
		budget := time.Duration(len(rest))*(V1Deadline+3*time.Second) + 15*time.Second
		ctx, cancel := context.WithTimeout(context.Background(), budget)
		cmd := exec.CommandContext(ctx, os.Args[0], "--mode", "v1child")
		cmd.Stdin = &in
		var stdout, stderr bytes.Buffer
		cmd.Stdout, cmd.Stderr = &stdout, &stderr
		err := cmd.Run()
		timedOut := ctx.Err() != nil
		cancel()
		got := 0
		for _, line := range strings.Split(stdout.String(), "\n") {
			line = strings.TrimSpace(line)
			if line == "" || got >= len(rest) {
				continue
			}
			var o V1Obs
			if json.Unmarshal([]byte(line), &o) != nil || o.Term == "" {
				break
			}
			obs = append(obs, o)
			got++
		}
		if got == len(rest) {
			break
		}
		if err == nil && !timedOut {
			// the child gave up after v1MaxHangs hangs: the rest is not run (Term "")
			for len(obs) < len(cs) {
				obs = append(obs, V1Obs{})
			}
			break
		}
		// the child stopped at case number got
		switch {
		case timedOut:
			obs = append(obs, V1Obs{Term: "hang", Detail: "child process did not finish"})
		default:
			o := V1Obs{Term: "panic", Detail: fmt.Sprintf("child process failed: %v", err)}
			for _, line := range strings.Split(stderr.String(), "\n") {
				if strings.HasPrefix(line, "panic: ") || strings.HasPrefix(line, "fatal error: ") {
					o.Detail = strings.TrimSpace(strings.TrimPrefix(line, "panic: "))
					break
				}
			}
			o.Site = panicSite(stderr.String())
			obs = append(obs, o)
		}
	}
	return obs
}

// v1RunAll runs the cases (those that need a child process in a few parallel
// batches) and returns the observations in the order of the cases.
func v1RunAll(cs []V1Case) []V1Obs {
	obs := make([]V1Obs, len(cs))
	var childIdx []int
	for i, c := range cs {
		if v1NeedsChild(c) {
			childIdx = append(childIdx, i)
		}
	}
	const par = 4
	var wg sync.WaitGroup
	for p := 0; p < par; p++ {
		var idx []int
		for k := p; k < len(childIdx); k += par {
			idx = append(idx, childIdx[k])
		}
		if len(idx) == 0 {
			continue
		}
		wg.Add(1)
		go func(idx []int) {
			defer wg.Done()
			batch := make([]V1Case, len(idx))
			for k, i := range idx {
				batch[k] = cs[i]
			}
			for k, o := range v1RunChildren(batch) {
				obs[idx[k]] = o
			}
		}(idx)
	}
	hangs := 0
	for i, c := range cs {
		if !v1NeedsChild(c) && hangs < v1MaxHangs {
			obs[i] = v1RunLocal(c)
			if obs[i].Term == "hang" {
				hangs++
			}
		}
	}
	wg.Wait()
	return obs
}

// v1MaxHangs: after this many hangs in one process the remaining cases are
// skipped (a hang costs a full V1Deadline; the witnesses found are enough).
const v1MaxHangs = 3

// ---------- generators ----------

var v1KindNames = []string{"same", "mod", "posch", "possame", "filter", "err", "multi0", "multi1", "multi2", "nil"}

func v1OtherPos(r *hx.Rand, p Pos) Pos {
	switch r.Intn(5) {
	case 0:
		return Pos{9}
	case 1:
		if len(p) > 0 {
			return Pos{} // empty, non-nil
		}
		return Pos{0}
	case 2:
		if len(p) > 0 {
			return nil
		}
		return Pos{7, 7}
	case 3:
		return append(append(Pos{}, p...), 0)
	default:
		if len(p) > 1 {
			return append(Pos{}, p[:len(p)-1]...)
		}
		return Pos{p0(p) + 1}
	}
}

func p0(p Pos) int {
	if len(p) == 0 {
		return 0
	}
	return p[0]
}

func v1MkKind(r *hx.Rand, name string, p Pos) Kind {
	switch name {
	case "posch":
		return Kind{K: "pos", P: v1OtherPos(r, p)}
	case "possame":
		// the same bytes, possibly nil instead of empty
		if len(p) == 0 && r.Bool() {
			return Kind{K: "pos", P: nil}
		}
		return Kind{K: "pos", P: append(Pos{}, p...)}
	case "multi0":
		return Kind{K: "multi", N: 0}
	case "multi1":
		return Kind{K: "multi", N: 1}
	case "multi2":
		return Kind{K: "multi", N: 2 + r.Intn(2)}
	}
	return Kind{K: name}
}

func v1GenPos(r *hx.Rand, i int) Pos {
	switch r.Intn(10) {
	case 0:
		return Pos{}
	case 1:
		return nil
	case 2:
		return Pos{i + 1, r.Intn(3)}
	}
	return Pos{i + 1}
}

func v1GenProc(r *hx.Rand) V1Case {
	c := V1Case{Engine: "v1-proc"}
	n := r.Range(1, 4)
	mostlyValid := r.Chance(1, 2)
	for i := 0; i < n; i++ {
		m := V1Msg{Pos: v1GenPos(r, i), ID: []int{i + 1}}
		m.Filtered = r.Chance(1, 8)
		switch r.Intn(10) {
		case 0, 1, 2:
			m.Nack = "err"
		case 3, 4:
			m.Nack = "none"
		default:
			m.Nack = "ok"
		}
		if mostlyValid && r.Chance(4, 5) {
			m.Nack = "ok"
			names := []string{"same", "mod", "filter", "err", "possame"}
			m.Reply = []Kind{v1MkKind(r, names[r.Intn(len(names))], m.Pos)}
		} else {
			ln := 1
			switch r.Intn(20) {
			case 0, 1, 2:
				ln = 0
			case 3, 4, 5, 6:
				ln = 2
			case 7, 8:
				ln = 3
			}
			for j := 0; j < ln; j++ {
				m.Reply = append(m.Reply, v1MkKind(r, v1KindNames[r.Intn(len(v1KindNames))], m.Pos))
			}
		}
		c.Msgs = append(c.Msgs, m)
	}
	return c
}

// v1ExhaustiveProc: one message, every result vector of length 0..2 over all
// kinds, every nack mode.
func v1ExhaustiveProc(emit func(V1Case)) {
	kinds := []Kind{
		{K: "same"}, {K: "mod"}, {K: "pos", P: Pos{9}}, {K: "pos", P: Pos{1}}, {K: "filter"}, {K: "err"},
		{K: "multi", N: 0}, {K: "multi", N: 1}, {K: "multi", N: 2}, {K: "nil"},
	}
	var vectors [][]Kind
	vectors = append(vectors, nil)
	for _, a := range kinds {
		vectors = append(vectors, []Kind{a})
	}
	for _, a := range kinds {
		for _, b := range kinds {
			vectors = append(vectors, []Kind{a, b})
		}
	}
	for _, nm := range []string{"ok", "err", "none"} {
		for _, v := range vectors {
			emit(V1Case{Engine: "v1-proc", Msgs: []V1Msg{{Pos: Pos{1}, ID: []int{1}, Nack: nm, Reply: v}}})
		}
	}
}

func v1GenAcker(r *hx.Rand) V1Case {
	c := V1Case{Engine: "v1-acker"}
	n := r.Range(1, 5)
	var stream_ []V1Ack
	for i := 0; i < n; i++ {
		m := V1Msg{Pos: Pos{i + 1}}
		if r.Chance(1, 12) {
			m.Pos = Pos{}
		}
		m.Filtered = r.Chance(1, 5)
		m.AckErr = r.Chance(1, 10)
		m.Nack = "ok"
		if r.Chance(1, 6) {
			m.Nack = "err"
		}
		if !m.Filtered {
			stream_ = append(stream_, V1Ack{Pos: append(Pos{}, m.Pos...), Err: r.Chance(1, 5)})
		}
		c.Msgs = append(c.Msgs, m)
	}
	// malformations of the ack stream (malformed-first: 3 of 4 cases get at least one)
	muts := 0
	if r.Chance(3, 4) {
		muts = r.Range(1, 2)
	}
	emptyAt := -1
	errAt := -1
	for k := 0; k < muts; k++ {
		switch r.Intn(8) {
		case 0: // drop an ack
			if len(stream_) > 0 {
				i := r.Intn(len(stream_))
				stream_ = append(stream_[:i:i], stream_[i+1:]...)
			}
		case 1: // duplicate one
			if len(stream_) > 0 {
				i := r.Intn(len(stream_))
				stream_ = append(stream_[:i+1:i+1], stream_[i:]...)
			}
		case 2: // swap two (out of order)
			if len(stream_) > 1 {
				i := r.Intn(len(stream_) - 1)
				stream_[i], stream_[i+1] = stream_[i+1], stream_[i]
			}
		case 3: // wrong position
			if len(stream_) > 0 {
				i := r.Intn(len(stream_))
				stream_[i].Pos = v1OtherPos(r, stream_[i].Pos)
			}
		case 4: // too many
			for j := r.Range(1, 3); j > 0; j-- {
				stream_ = append(stream_, V1Ack{Pos: Pos{90 + j}, Err: r.Chance(1, 4)})
			}
		case 5: // the stream ends early (the destination goes silent)
			if len(stream_) > 0 {
				stream_ = stream_[:r.Intn(len(stream_))]
			}
		case 6:
			emptyAt = r.Intn(4)
		default:
			errAt = r.Intn(4)
		}
	}
	// cut into replies
	for len(stream_) > 0 {
		k := r.Range(1, 3)
		if k > len(stream_) {
			k = len(stream_)
		}
		c.Replies = append(c.Replies, V1Reply{Acks: append([]V1Ack{}, stream_[:k]...)})
		stream_ = stream_[k:]
	}
	ins := func(at int, rep V1Reply) {
		if at > len(c.Replies) {
			at = len(c.Replies)
		}
		c.Replies = append(c.Replies[:at:at], append([]V1Reply{rep}, c.Replies[at:]...)...)
	}
	if emptyAt >= 0 {
		ins(emptyAt, V1Reply{Acks: []V1Ack{}})
	}
	if errAt >= 0 {
		ins(errAt, V1Reply{Err: true})
	}
	// the feeding schedule: two of three cases hand the messages over in groups,
	// so that a batched reply covers messages that have not reached the node yet
	if r.Chance(2, 3) {
		for left := n; left > 0; {
			k := r.Range(1, 2)
			if k > left {
				k = left
			}
			c.Feed = append(c.Feed, k)
			left -= k
		}
	}
	return c
}

// v1ExhaustiveAcker enumerates, for n <= maxN messages: every feeding schedule
// (all compositions of n), every way to cut the ack stream into Ack() replies
// (all compositions of its length: replies of 1..len acks) and the streams
// exact / one surplus ack / a wrong position, a duplicate, a negative ack at
// every index / the last ack missing; once more with the first message filtered.
func v1ExhaustiveAcker(maxN int, emit func(V1Case)) {
	for n := 1; n <= maxN; n++ {
		for _, filt := range []bool{false, true} {
			var base []V1Ack
			for i := 0; i < n; i++ {
				if !(filt && i == 0) {
					base = append(base, V1Ack{Pos: Pos{i + 1}})
				}
			}
			cp := func() []V1Ack {
				out := make([]V1Ack, len(base))
				for i, a := range base {
					out[i] = V1Ack{Pos: append(Pos{}, a.Pos...)}
				}
				return out
			}
			streams := [][]V1Ack{cp(), append(cp(), V1Ack{Pos: Pos{99}})}
			if len(base) > 0 {
				streams = append(streams, cp()[:len(base)-1])
			}
			for i := range base {
				w := cp()
				w[i].Pos = Pos{77}
				d := cp()
				d = append(d[:i+1:i+1], d[i:]...)
				e := cp()
				e[i].Err = true
				streams = append(streams, w, d, e)
			}
			for _, feed := range compositions(n) {
				for _, st := range streams {
					for _, cut := range compositions(len(st)) {
						c := V1Case{Engine: "v1-acker"}
						for i := 0; i < n; i++ {
							c.Msgs = append(c.Msgs, V1Msg{Pos: Pos{i + 1}, Nack: "ok", Filtered: filt && i == 0})
						}
						if len(feed) > 1 {
							c.Feed = append([]int{}, feed...)
						}
						at := 0
						for _, k := range cut {
							c.Replies = append(c.Replies, V1Reply{Acks: append([]V1Ack{}, st[at:at+k]...)})
							at += k
						}
						emit(c)
					}
				}
			}
		}
	}
}

func v1GenSandbox(r *hx.Rand) V1Case {
	c := V1Case{Engine: "sandbox"}
	blocks := []string{"no", "no", "released", "released", "forever"}
	thens := []string{"ret", "fail", "panic_err", "panic_val"}
	cancels := []string{"never", "never", "before", "during", "during"}
	for n := r.Range(1, 3); n > 0; n-- {
		c.Calls = append(c.Calls, V1Call{
			Block:  blocks[r.Intn(len(blocks))],
			Then:   thens[r.Intn(len(thens))],
			Cancel: cancels[r.Intn(len(cancels))],
			Val:    r.Range(0, 20),
			Req:    r.Range(0, 20),
		})
	}
	return c
}

// ---------- entry point ----------

// V1Main drives the classic-engine half of C09.
//
//	--mode v1:<i>:<n>   the i-th of n shards of the generated stream (shard 0
//	                    also emits the exhaustive small v1-proc enumeration)
//	--mode v1child      one case on stdin, observation on stdout
//	--replay f.jsonl    re-run every line's "input"
func V1Main(o hx.Opts) {
	if o.Mode == "v1child" {
		v1Child()
		return
	}
	w, err := hx.NewWriter(o, "From Verif Require Import Base.CaseCheck Funnel.V1.", "v1case")
	if err != nil {
		fmt.Fprintln(os.Stderr, err)
		os.Exit(2)
	}
	// which variant of DestinationAckerNode does this tree show on an empty ack reply
	// (shipped: panic in the worker goroutine; repaired: refused)? Probed in a child.
	probe := v1RunChildren([]V1Case{{Engine: "v1-acker", Msgs: []V1Msg{{Pos: Pos{1}}}, Replies: []V1Reply{{Acks: []V1Ack{}}}}})
	TreeFix.V1Acker = len(probe) == 1 && probe[0].Term != "panic"
	var cs []V1Case
	if o.Replay != "" {
		ms, err := hx.ReadJSONL(o.Replay)
		if err != nil {
			fmt.Fprintln(os.Stderr, err)
			os.Exit(2)
		}
		for _, m := range ms {
			m = UnwrapReplay(m)
			var c V1Case
			if !hx.Try(func() { c = V1CaseFromJSON(m); _ = V1CoqCase(c, V1Obs{Term: "ok"}) }) {
				continue // not a well-formed case (e.g. a shrink candidate)
			}
			cs = append(cs, c)
		}
	} else {
		i, n := o.Shard, o.Shards
		if _, err := fmt.Sscanf(o.Mode, "v1:%d:%d", &i, &n); err != nil || n < 1 || i < 0 || i >= n {
			i, n = o.Shard, o.Shards
			if n < 1 || i < 0 || i >= n {
				i, n = 0, 1
			}
		}
		mult := 1
		if o.Tier == "thorough" {
			mult = 10
		}
		base := o.N
		if base <= 0 {
			base = 100
		}
		nProc, nAcker, nSandbox := 40*base/100*mult, 25*base/100*mult, 20*base/100*mult
		if i == 0 {
			v1ExhaustiveProc(func(c V1Case) { cs = append(cs, c) })
		}
		maxN, ek := 3, 0
		if o.Tier == "thorough" {
			maxN = 4
		}
		v1ExhaustiveAcker(maxN, func(c V1Case) {
			if ek%n == i {
				cs = append(cs, c)
			}
			ek++
		})
		root := hx.NewRand(o.Seed)
		for k := 0; k < nProc; k++ {
			cs = append(cs, v1GenProc(root.Fork(1<<40|uint64(i)<<24|uint64(k))))
		}
		for k := 0; k < nAcker; k++ {
			cs = append(cs, v1GenAcker(root.Fork(2<<40|uint64(i)<<24|uint64(k))))
		}
		for k := 0; k < nSandbox; k++ {
			cs = append(cs, v1GenSandbox(root.Fork(3<<40|uint64(i)<<24|uint64(k))))
		}
	}
	obs := v1RunAll(cs)
	skipped := 0
	for k, c := range cs {
		if obs[k].Term == "" {
			skipped++ // not run: see v1MaxHangs
			continue
		}
		w.Add(map[string]any{"input": c, "observed": obs[k], "variant": TreeFix}, V1CoqCase(c, obs[k]))
	}
	if skipped > 0 {
		fmt.Fprintf(os.Stderr, "v1: %d cases skipped after %d hangs\n", skipped, v1MaxHangs)
	}
	if err := w.Close("chk_v1"); err != nil {
		fmt.Fprintln(os.Stderr, err)
		os.Exit(2)
	}
	fmt.Printf("cases=%d\n", w.Count())
}
