package funnelx

// Classic engine, stream.ParallelNode (a processor configured with workers > 1)
// around real stream.ProcessorNode workers: case kind "v1-par".
//
//	{"engine":"v1-par","workers":2,"msgs":[{"pos":[1],"id":[1],"nack":"ok|err",
//	     "reply":[{"k":"same|mod|pos|filter|err|multi|nil","n":2,"p":[9]}]}]}
//
// The scripted processor answers by record (the reply travels with the message:
// any worker may get it). The nack handler plays the DLQ: "ok" accepts the
// rejected record, "err" fails. Observed per message: was it taken by the node,
// did it reach Processor.Process, its final status, how often and in what shape
// it appeared on the node's outbound channel; and how Run ended. A node that
// does not take the next message, or does not return after its inbound channel
// was closed, within V1ParDeadline is the observation "hang". Always run in a
// child process (the worker goroutines can panic, a wedged node leaks its
// goroutines). No context cancellation / force stop in this family.
//
// The model is coq/Funnel/Par.v (chk_par).

import (
	"context"
	"errors"
	"fmt"
	"os"
	"runtime/debug"
	"strings"
	"sync"
	"time"

	"github.com/conduitio/conduit-commons/opencdc"
	sdk "github.com/conduitio/conduit-processor-sdk"
	"github.com/conduitio/conduit/pkg/foundation/log"
	"github.com/conduitio/conduit/pkg/foundation/metrics/noop"
	"github.com/conduitio/conduit/pkg/lifecycle/stream"

	"verifharness/lib/hx"
)

type V1PObs struct {
	Handed    bool   `json:"handed"`
	Processed bool   `json:"processed"`
	Status    string `json:"status"`
	NFwd      int    `json:"nfwd"`
	FPos      []int  `json:"fpos,omitempty"`
	FID       []int  `json:"fid,omitempty"`
	FFilt     bool   `json:"ffilt,omitempty"`
}

const v1ParMaxWorkers = 4

// V1ParDeadline bounds one v1-par case (a regular one takes a few milliseconds);
// exceeding it is the observation "hang".
var V1ParDeadline = 6 * time.Second

func v1ParValidate(c V1Case) {
	if c.Workers < 2 || c.Workers > v1ParMaxWorkers {
		panic("ill-formed case: workers")
	}
	if len(c.Calls) > 0 || len(c.Replies) > 0 || len(c.Feed) > 0 {
		panic("ill-formed case: fields of another engine")
	}
	nerr := 0
	ids := map[string]bool{}
	for _, m := range c.Msgs {
		if key := Dotted(m.ID); ids[key] {
			panic("ill-formed case: duplicate message id")
		} else {
			ids[key] = true
		}
		v1CheckNats(m.Pos)
		v1CheckNats(m.ID)
		if m.Filtered || m.AckErr {
			panic("ill-formed case: v1-par messages are not pre-filtered")
		}
		if len(m.Reply) > 8 {
			panic("ill-formed case: reply too long")
		}
		switch m.Nack {
		case "", "ok":
		case "err":
			nerr++
		default:
			panic("ill-formed nack mode")
		}
		for _, k := range m.Reply {
			v1CheckNats(k.P)
			if k.N < 0 || k.N > 16 {
				panic("ill-formed multi")
			}
			_ = v1Kind(k)
		}
	}
	// every failed nack puts one error into the node's errs channel (capacity =
	// workers) which Run reads only between two messages; more failed nacks than
	// that is the shape of the open finding v1/ParallelNode/shutdown-deadlock-errs-channel
	if nerr > c.Workers {
		panic("ill-formed case: more failing nack handlers than workers")
	}
}

// V1ParCoqCase renders the case with its observation as a term of type parcase.
func V1ParCoqCase(c V1Case, o V1Obs) string {
	ms := make([]string, len(c.Msgs))
	for i, m := range c.Msgs {
		ks := make([]string, len(m.Reply))
		for j, k := range m.Reply {
			ks[j] = v1Kind(k)
		}
		nm := "NackOk"
		if m.Nack == "err" {
			nm = "NackErr"
		}
		ms[i] = fmt.Sprintf("(mkPMsg %s %s false %s %s)", hx.Nats(m.Pos), hx.Nats(m.ID), nm, hx.List(ks))
	}
	os_ := make([]string, len(o.Par))
	for i, p := range o.Par {
		n := p.NFwd
		if n < 0 || n > v1MaxNat {
			n = v1MaxNat
		}
		os_[i] = fmt.Sprintf("(mkPO %s %s %s %d %s %s %s)", hx.Bool(p.Handed), hx.Bool(p.Processed),
			v1ParStatus(p.Status), n, hx.Nats(v1Clamp(p.FPos)), hx.Nats(v1Clamp(p.FID)), hx.Bool(p.FFilt))
	}
	var t string
	switch o.Term {
	case "ok":
		t = "PTOk"
	case "err":
		t = "(PTErr false false)"
	case "panic":
		t = "PTPanic"
	default:
		t = "PTHang"
	}
	return fmt.Sprintf("CPar %d %s %s %s %s", c.Workers, hx.List(ms), hx.List(os_), hx.Bool(o.Closed), t)
}

func v1ParStatus(s string) string {
	switch s {
	case "acked":
		return "SAcked"
	case "nacked":
		return "SNacked"
	}
	return "SOpen"
}

// v1ParProcessor answers by record: the payload carries the message's id.
type v1ParProcessor struct {
	mu      *sync.Mutex
	replies map[string][]Kind
	seen    map[string]int
}

func (p *v1ParProcessor) Open(context.Context) error     { return nil }
func (p *v1ParProcessor) Teardown(context.Context) error { return nil }

func (p *v1ParProcessor) Process(ctx context.Context, in []opencdc.Record) []sdk.ProcessedRecord {
	var r opencdc.Record
	if len(in) > 0 {
		r = in[0]
	}
	key := ridOf(r)
	p.mu.Lock()
	p.seen[key]++
	kinds := p.replies[key]
	p.mu.Unlock()
	one := &v1Processor{replies: [][]Kind{kinds}}
	return one.Process(ctx, in)
}

func runV1Par(c V1Case) V1Obs {
	ctx := context.Background()
	var mu sync.Mutex
	replies := map[string][]Kind{}
	seen := map[string]int{}
	msgs := make([]*stream.Message, len(c.Msgs))
	keys := make([]string, len(c.Msgs)) // the processor may change the record of the message
	index := map[*stream.Message]int{}
	var aux []string
	for i, m := range c.Msgs {
		rec := v1Record(m)
		msg := &stream.Message{Ctx: ctx, Record: rec, SourceID: "src"}
		msg.RegisterAckHandler(func(*stream.Message) error { return nil })
		if m.Nack == "err" {
			msg.RegisterNackHandler(func(*stream.Message, stream.NackMetadata) error {
				return errors.New("nack handler failed")
			})
		} else {
			msg.RegisterNackHandler(func(*stream.Message, stream.NackMetadata) error { return nil })
		}
		keys[i] = ridOf(rec)
		replies[keys[i]] = m.Reply
		msgs[i] = msg
		index[msg] = i
	}

	pn := &stream.ParallelNode{
		Name: "par",
		NewNode: func(i int) stream.PubSubNode {
			return &stream.ProcessorNode{
				Name:           fmt.Sprintf("proc-%d", i),
				Processor:      &v1ParProcessor{mu: &mu, replies: replies, seen: seen},
				ProcessorTimer: noop.Timer{},
			}
		},
		Workers: c.Workers,
	}
	pn.SetLogger(log.Nop())
	in := make(chan *stream.Message)
	pn.Sub(in)
	out := pn.Pub()

	var (
		o        V1Obs
		runErr   error
		panicked any
		stack    string
	)
	runDone := make(chan struct{})
	go func() {
		defer close(runDone)
		defer func() {
			if r := recover(); r != nil {
				panicked = r
				stack = string(debug.Stack())
			}
		}()
		runErr = pn.Run(ctx)
	}()

	par := make([]V1PObs, len(msgs))
	readDone := make(chan struct{})
	go func() {
		defer close(readDone)
		for m := range out {
			i, ok := index[m]
			if !ok {
				mu.Lock()
				aux = append(aux, "a message that was never handed in appeared downstream")
				mu.Unlock()
				continue
			}
			mu.Lock()
			par[i].NFwd++
			if par[i].NFwd == 1 {
				p, ok1 := ParseDotted(string(m.Record.Position))
				id, ok2 := ParseDotted(ridOf(m.Record))
				if !ok1 || !ok2 {
					p, id = []int{v1MaxNat + 1}, []int{v1MaxNat + 1}
				}
				par[i].FPos, par[i].FID, par[i].FFilt = p, id, m.VerifFiltered()
			}
			mu.Unlock()
		}
	}()

	deadline := time.After(V1ParDeadline)
	hang := ""
	handed := 0
feed:
	for _, m := range msgs {
		select {
		case in <- m:
			handed++
		case <-runDone:
			break feed
		case <-deadline:
			hang = fmt.Sprintf("ParallelNode does not take message %d and does not stop", handed)
			break feed
		}
	}
	if hang == "" {
		close(in)
		select {
		case <-runDone:
		case <-deadline:
			hang = "ParallelNode.Run did not return after its inbound channel was closed"
		}
	}
	closed := false
	if hang == "" {
		select {
		case <-readDone:
			closed = true
		case <-time.After(3 * time.Second):
		}
	}

	switch {
	case hang != "":
		o.Term = "hang"
		o.Detail = hang
	case panicked != nil:
		o.Term = "panic"
		o.Detail = strings.SplitN(fmt.Sprint(panicked), "\n", 2)[0]
		o.Site = panicSite(stack)
	default:
		v1ClassifyRun(runErr, &o)
	}
	o.Closed = closed
	mu.Lock()
	for i, m := range msgs {
		par[i].Handed = i < handed
		par[i].Processed = seen[keys[i]] > 0
		par[i].Status = v1StatusOf(m)
	}
	o.Par = append([]V1PObs{}, par...)
	o.Aux = strings.Join(aux, "; ")
	mu.Unlock()
	return o
}

// ---------- generators ----------

func v1ParGood(i int) V1Msg {
	return V1Msg{Pos: Pos{i + 1}, ID: []int{i + 1}, Nack: "ok", Reply: []Kind{{K: "same"}}}
}

// v1ExhaustivePar: for 2 and 3 workers, every result vector of length 0..2 over
// all kinds as the reply to the message at index 0, 1 or 2 of a stream of
// otherwise well-formed messages, with a DLQ that accepts the rejected record;
// the stream goes on long enough for every forwarder to receive further jobs.
func v1ExhaustivePar(emit func(V1Case)) {
	kinds := []Kind{
		{K: "same"}, {K: "mod"}, {K: "pos", P: Pos{9}}, {K: "filter"}, {K: "err"},
		{K: "multi", N: 0}, {K: "multi", N: 1}, {K: "multi", N: 2}, {K: "nil"},
	}
	var vectors [][]Kind
	vectors = append(vectors, []Kind{})
	for _, a := range kinds {
		vectors = append(vectors, []Kind{a})
	}
	for _, a := range kinds {
		for _, b := range kinds {
			vectors = append(vectors, []Kind{a, b})
		}
	}
	k := 0
	for _, v := range vectors {
		w := 2 + k%2
		at := k % 3
		k++
		c := V1Case{Engine: "v1-par", Workers: w}
		for i := 0; i < at+3*w+2; i++ {
			m := v1ParGood(i)
			if i == at {
				m.Reply = v
			}
			c.Msgs = append(c.Msgs, m)
		}
		emit(c)
	}
}

func v1GenPar(r *hx.Rand) V1Case {
	c := V1Case{Engine: "v1-par", Workers: r.Range(2, v1ParMaxWorkers)}
	n := r.Range(2, 14)
	bad := r.Range(1, c.Workers+1) // up to one more malformed reply than workers: all workers can die
	nerr := 0
	for i := 0; i < n; i++ {
		m := v1ParGood(i)
		if r.Chance(1, 6) {
			names := []string{"mod", "filter", "err", "possame"}
			m.Reply = []Kind{v1MkKind(r, names[r.Intn(len(names))], m.Pos)}
		}
		if bad > 0 && r.Chance(1, 3) {
			bad--
			ln := 1
			switch r.Intn(6) {
			case 0:
				ln = 0
			case 1, 2:
				ln = 2
			case 3:
				ln = 3
			}
			m.Reply = []Kind{}
			for j := 0; j < ln; j++ {
				m.Reply = append(m.Reply, v1MkKind(r, v1KindNames[r.Intn(len(v1KindNames))], m.Pos))
			}
		}
		if nerr < c.Workers && r.Chance(1, 10) {
			m.Nack = "err"
			nerr++
		}
		c.Msgs = append(c.Msgs, m)
	}
	return c
}

// ParMain drives the v1-par family (own case type: parcase / chk_par).
//
//	--mode par:<i>:<n>  the i-th of n shards (exhaustive small enumeration dealt round robin + generated stream)
//	--replay f.jsonl    re-run every line's "input"
func ParMain(o hx.Opts) {
	w, err := hx.NewWriter(o, "From Verif Require Import Base.CaseCheck Funnel.Par.", "parcase")
	if err != nil {
		fmt.Fprintln(os.Stderr, err)
		os.Exit(2)
	}
	var cs []V1Case
	if o.Replay != "" {
		ms, err := hx.ReadJSONL(o.Replay)
		if err != nil {
			fmt.Fprintln(os.Stderr, err)
			os.Exit(2)
		}
		for _, m := range ms {
			m = UnwrapReplay(m)
			var c V1Case
			if !hx.Try(func() { c = V1CaseFromJSON(m); _ = V1ParCoqCase(c, V1Obs{Term: "ok"}) }) || c.Engine != "v1-par" {
				continue // not a well-formed case (e.g. a shrink candidate)
			}
			cs = append(cs, c)
		}
	} else {
		i, n := 0, 1
		if _, err := fmt.Sscanf(o.Mode, "par:%d:%d", &i, &n); err != nil || n < 1 || i < 0 || i >= n {
			i, n = 0, 1
		}
		ek := 0
		v1ExhaustivePar(func(c V1Case) {
			if ek%n == i {
				cs = append(cs, c)
			}
			ek++
		})
		root := hx.NewRand(o.Seed)
		for k := 0; k < o.N; k++ {
			cs = append(cs, v1GenPar(root.Fork(4<<40|uint64(i)<<24|uint64(k))))
		}
	}
	obs := v1RunAll(cs)
	skipped := 0
	for k, c := range cs {
		if obs[k].Term == "" {
			skipped++ // not run: see v1MaxHangs
			continue
		}
		w.Add(map[string]any{"input": c, "observed": obs[k]}, V1ParCoqCase(c, obs[k]))
	}
	if skipped > 0 {
		fmt.Fprintf(os.Stderr, "par: %d cases skipped after %d hangs\n", skipped, v1MaxHangs)
	}
	if err := w.Close("chk_par"); err != nil {
		fmt.Fprintln(os.Stderr, err)
		os.Exit(2)
	}
	fmt.Printf("cases=%d\n", w.Count())
}
