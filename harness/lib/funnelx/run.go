package funnelx

import (
	"context"
	"errors"
	"fmt"
	"io"
	"runtime/debug"
	"strings"
	"time"

	"github.com/conduitio/conduit-commons/config"
	"github.com/conduitio/conduit-commons/database/inmemory"
	"github.com/conduitio/conduit-commons/opencdc"
	sdk "github.com/conduitio/conduit-processor-sdk"
	"github.com/conduitio/conduit/pkg/connector"
	"github.com/conduitio/conduit/pkg/foundation/cerrors"
	"github.com/conduitio/conduit/pkg/foundation/cerrors/conduiterr"
	"github.com/conduitio/conduit/pkg/foundation/log"
	"github.com/conduitio/conduit/pkg/foundation/metrics/noop"
	"github.com/conduitio/conduit/pkg/lifecycle-poc/funnel"
	"github.com/conduitio/conduit/pkg/plugin/processor/egress"
	"github.com/conduitio/conduit/pkg/processor"
)

// ---------- records ----------

func posBytes(p Pos) opencdc.Position {
	if p == nil {
		return nil
	}
	return opencdc.Position(Dotted(p)) // empty list -> empty non-nil
}

func mkRecord(r Rec) opencdc.Record {
	md := opencdc.Metadata{}
	for i, c := range r.Cond {
		v := "x"
		if c == 0 {
			v = "false"
		} else if c == 1 {
			v = "true"
		}
		md[fmt.Sprintf("c%d", i)] = v
	}
	pos := posBytes(r.Pos)
	if pos != nil && len(pos) == 0 {
		pos = opencdc.Position{}
	}
	return opencdc.Record{
		Position:  pos,
		Operation: opencdc.OperationCreate,
		Metadata:  md,
		Key:       opencdc.RawData("k"),
		Payload:   opencdc.Change{After: opencdc.RawData(Dotted(r.ID))},
	}
}

func ridOf(r opencdc.Record) string {
	switch d := r.Payload.After.(type) {
	case opencdc.RawData:
		return string(d)
	case opencdc.StructuredData: // a DLQ record: the failed record is stored in After
		if pl, ok := d["payload"].(map[string]any); ok {
			if b, ok := pl["after"].([]byte); ok {
				return string(b)
			}
		}
	}
	return "?"
}

func withRid(r opencdc.Record, rid string) opencdc.Record {
	r.Payload = opencdc.Change{After: opencdc.RawData(rid)}
	return r
}

func oRec(r opencdc.Record) ORec {
	var o ORec
	p, ok1 := ParseDotted(string(r.Position))
	id, ok2 := ParseDotted(ridOf(r))
	o.Pos, o.ID = p, id
	if !ok1 || !ok2 {
		o.Raw = fmt.Sprintf("pos=%q id=%q", r.Position, ridOf(r))
		o.Pos, o.ID = []int{99999}, []int{99999}
	}
	return o
}

func oRecs(rs []opencdc.Record) []ORec {
	out := make([]ORec, len(rs))
	for i, r := range rs {
		out[i] = oRec(r)
	}
	return out
}

// ---------- event log ----------

type evlog struct{ evs []Event }

func (l *evlog) add(e Event) { l.evs = append(l.evs, e) }

// ---------- fake source ----------

type fakeSource struct {
	l     *evlog
	recs  []opencdc.Record
	reads int
	acks  int
	acts  []Act
}

func (s *fakeSource) ID() string                     { return "src" }
func (s *fakeSource) Open(context.Context) error     { return nil }
func (s *fakeSource) Teardown(context.Context) error { return nil }
func (s *fakeSource) Errors() <-chan error           { return nil }
func (s *fakeSource) Read(context.Context) ([]opencdc.Record, error) {
	s.reads++
	if s.reads == 1 {
		return s.recs, nil
	}
	return nil, io.EOF
}

func (s *fakeSource) Ack(_ context.Context, ps []opencdc.Position) error {
	idx := s.acks
	s.acks++
	e := Event{K: "sack"}
	for _, p := range ps {
		l, ok := ParseDotted(string(p))
		if !ok {
			l = []int{99999}
		}
		e.Pos = append(e.Pos, l)
	}
	if e.Pos == nil {
		e.Pos = [][]int{}
	}
	s.l.add(e)
	switch lookupAct(s.acts, idx) {
	case "err":
		return errors.New("source ack failed")
	case "eof":
		return io.EOF
	}
	return nil
}

func lookupAct(as []Act, idx int) string { return lookupActN(as, idx).Act }

func lookupActN(as []Act, idx int) Act {
	for _, a := range as {
		if a.Call == idx {
			return a
		}
	}
	return Act{}
}

// ---------- fake destination ----------

type fakeDest struct {
	l       *evlog
	id      string
	spec    Dest
	dlq     bool
	pending []opencdc.Record
	writes  int
	acks    int
}

func (d *fakeDest) ID() string                     { return d.id }
func (d *fakeDest) Open(context.Context) error     { return nil }
func (d *fakeDest) Teardown(context.Context) error { return nil }
func (d *fakeDest) Errors() <-chan error           { return nil }

func (d *fakeDest) Write(_ context.Context, rs []opencdc.Record) error {
	idx := d.writes
	d.writes++
	if d.dlq {
		e := Event{K: "dlqwrite"}
		for _, r := range rs {
			o := oRec(r)
			es, _ := r.Metadata.GetConduitDLQNackError()
			o.Err = parseErr(es)
			tid, _ := r.Metadata.GetConduitDLQNackNodeID()
			o.Task = parseTask(tid)
			e.Recs = append(e.Recs, o)
		}
		d.l.add(e)
	} else {
		d.l.add(Event{K: "write", Recs: oRecs(rs)})
	}
	if d.spec.WriteErrAt == idx {
		return errors.New("destination write failed")
	}
	d.pending = append(d.pending, rs...)
	return nil
}

func (d *fakeDest) fails(rid string) bool {
	for _, f := range d.spec.Fail {
		if Dotted(f) == rid {
			return true
		}
	}
	if fm := d.spec.FailMod; len(fm) >= 2 && fm[0] > 0 && fm[1] >= 0 {
		if id, ok := ParseDotted(rid); ok {
			sum := 0
			for _, x := range id {
				sum += x
			}
			return sum%fm[0] == fm[1]
		}
	}
	return false
}

func (d *fakeDest) Ack(context.Context) ([]connector.DestinationAck, error) {
	idx := d.acks
	d.acks++
	ek := "dack"
	if d.dlq {
		ek = "dlqack"
	}
	actN := lookupActN(d.spec.Acts, idx)
	act, ai := actN.Act, actN.N
	switch act {
	case "empty":
		d.l.add(Event{K: ek})
		return []connector.DestinationAck{}, nil
	case "err":
		d.l.add(Event{K: ek})
		return nil, errors.New("destination ack failed")
	}
	c := len(d.pending)
	if len(d.spec.Chunks) > 0 {
		if k := d.spec.Chunks[idx%len(d.spec.Chunks)]; k > 0 && k < c {
			c = k
		}
	}
	acks := make([]connector.DestinationAck, 0, c+1)
	for _, r := range d.pending[:c] {
		a := connector.DestinationAck{Position: r.Position}
		if rid := ridOf(r); d.fails(rid) {
			a.Error = errors.New("ED:" + rid)
		}
		acks = append(acks, a)
	}
	taken := append([]opencdc.Record{}, d.pending[:c]...)
	d.pending = d.pending[c:]
	junk := opencdc.Position("9.9.9")
	switch act {
	case "extra":
		for i := 0; i <= ai; i++ {
			acks = append(acks, connector.DestinationAck{Position: junk})
		}
	case "wrongpos":
		if ai < len(acks) {
			acks[ai].Position = junk
		}
	case "dup":
		if ai < len(acks) {
			out := append([]connector.DestinationAck{}, acks[:ai+1]...)
			acks = append(out, acks[ai:]...)
		}
	case "swap":
		if ai+1 < len(acks) {
			acks[ai], acks[ai+1] = acks[ai+1], acks[ai]
		}
	case "short":
		k := len(acks) - (ai + 1)
		if k < 0 {
			k = 0
		}
		acks = acks[:k]
	}
	// a plugin that sends more acks than it took records for has, as far as the
	// engine can tell, confirmed that many records: it drops them from its queue too
	if n := len(acks) - len(taken); n > 0 {
		if n > len(d.pending) {
			n = len(d.pending)
		}
		taken = append(taken, d.pending[:n]...)
		d.pending = d.pending[n:]
	}
	// what the plugin told the engine about the i-th record it took from its queue
	ev := Event{K: ek}
	for i, r := range taken {
		o := oRec(r)
		o.OK = i < len(acks) && acks[i].Error == nil
		ev.Recs = append(ev.Recs, o)
	}
	d.l.add(ev)
	return acks, nil
}

func parseErr(s string) *OErr {
	switch {
	case strings.HasPrefix(s, "EP:"):
		parts := strings.SplitN(s[3:], ":", 2)
		if len(parts) == 2 {
			p, ok1 := ParseDotted(parts[0])
			id, ok2 := ParseDotted(parts[1])
			if ok1 && ok2 && len(p) == 1 {
				return &OErr{T: "EP", P: p[0], ID: id}
			}
		}
	case strings.HasPrefix(s, "ED:"):
		if id, ok := ParseDotted(s[3:]); ok {
			return &OErr{T: "ED", ID: id}
		}
	}
	return &OErr{T: "ENG"} // an error made by the engine (condition evaluation, too many results, ...)
}

func parseTask(id string) int {
	var n int
	if _, err := fmt.Sscanf(id, "t%d", &n); err == nil {
		return n
	}
	return 0
}

// ---------- fake processor plugin ----------

type fakeProc struct {
	sdk.UnimplementedProcessor
	l     *evlog
	p     int
	spec  Proc
	calls int
}

func (f *fakeProc) Specification() (sdk.Specification, error) {
	return sdk.Specification{Name: fmt.Sprintf("fake%d", f.p), Version: "v0"}, nil
}
func (f *fakeProc) Configure(context.Context, config.Config) error { return nil }
func (f *fakeProc) Open(context.Context) error                     { return nil }
func (f *fakeProc) Teardown(context.Context) error                 { return nil }

var dummyRec = Rec{Pos: Pos{999}, ID: []int{999}}

func (f *fakeProc) Process(_ context.Context, in []opencdc.Record) []sdk.ProcessedRecord {
	idx := f.calls
	f.calls++
	ev := Event{K: "proc", P: f.p, Recs: oRecs(in), Kinds: []int{}}
	if idx >= len(f.spec.Replies) {
		for range in {
			ev.Kinds = append(ev.Kinds, 0)
		}
		f.l.add(ev)
		out := make([]sdk.ProcessedRecord, len(in))
		for i, r := range in {
			out[i] = sdk.SingleRecord(r)
		}
		return out
	}
	rep := f.spec.Replies[idx]
	kinds := rep.Kinds
	if rep.Exact {
		n := len(in) - rep.Short
		if n < 0 {
			n = 0
		}
		kinds = make([]Kind, n)
		for i := range kinds {
			if len(rep.Kinds) == 0 {
				kinds[i] = Kind{K: "same"}
			} else {
				kinds[i] = rep.Kinds[i%len(rep.Kinds)]
			}
		}
	}
	for _, k := range kinds {
		ev.Kinds = append(ev.Kinds, kindCode(k))
	}
	f.l.add(ev)
	out := make([]sdk.ProcessedRecord, len(kinds), len(kinds)+rep.Slack)
	for i, k := range kinds {
		var r opencdc.Record
		if i < len(in) {
			r = in[i]
		} else {
			r = mkRecord(dummyRec)
		}
		rid := ridOf(r)
		switch k.K {
		case "same":
			out[i] = sdk.SingleRecord(r)
		case "mod":
			out[i] = sdk.SingleRecord(withRid(r, rid+".100"))
		case "pos":
			r.Position = posBytes(k.P)
			out[i] = sdk.SingleRecord(r)
		case "filter":
			out[i] = sdk.FilterRecord{}
		case "err":
			out[i] = sdk.ErrorRecord{Error: fmt.Errorf("EP:%d:%s", f.p, rid)}
		case "multi":
			m := make(sdk.MultiRecord, k.N)
			base := string(r.Position)
			for j := range m {
				lbl := j
				if k.N == 1 {
					lbl = 101 // not a split: the single piece replaces the record
				}
				piece := withRid(r, fmt.Sprintf("%s.%d", rid, lbl))
				if base == "" {
					piece.Position = opencdc.Position(fmt.Sprintf("%d", lbl))
				} else {
					piece.Position = opencdc.Position(fmt.Sprintf("%s.%d", base, lbl))
				}
				m[j] = piece
			}
			out[i] = m
		case "nil":
			out[i] = nil
		default:
			panic("ill-formed kind")
		}
	}
	return out
}

func kindCode(k Kind) int {
	switch k.K {
	case "same":
		return 0
	case "mod":
		return 1
	case "pos":
		return 2
	case "filter":
		return 3
	case "err":
		return 4
	case "multi":
		if k.N >= 2 {
			return 7
		}
		return 5 + k.N
	case "nil":
		return 8
	}
	panic("ill-formed kind")
}

type fakeRegistry struct{ procs map[string]*fakeProc }

func (r *fakeRegistry) NewProcessor(_ context.Context, _ string, id string, _ egress.Policy) (sdk.Processor, error) {
	p, ok := r.procs[id]
	if !ok {
		return nil, errors.New("no such fake processor")
	}
	return p, nil
}

// panicSite returns the first function of the engine on the panicking stack
// (the caller of the Batch method when the panic is inside one).
func panicSite(stack string) string {
	const pfx = "github.com/conduitio/conduit/pkg/"
	for _, line := range strings.Split(stack, "\n") {
		if strings.HasPrefix(line, pfx) && !strings.Contains(line, "funnel.(*Batch).") {
			if i := strings.LastIndex(line, "("); i > 0 {
				line = line[:i]
			}
			return strings.TrimPrefix(line, pfx)
		}
	}
	return "?"
}

// ---------- one pass ----------

// CaseDeadline bounds one case; exceeding it is the observation "hang".
var CaseDeadline = 20 * time.Second

func classify(err error, o *Obs) {
	if err == nil {
		o.Term = "ok"
		return
	}
	o.Term = "err"
	o.Fatal = cerrors.IsFatalError(err)
	o.Code = "none"
	if ce, ok := conduiterr.Get(err); ok {
		switch ce.Code {
		case funnel.CodeEmptySourcePosition:
			o.Code = "empty_pos"
		case funnel.CodeRetryNotConverging:
			o.Code = "retry"
		default:
			o.Code = "other"
		}
	}
	o.Detail = err.Error()
	if len(o.Detail) > 300 {
		o.Detail = o.Detail[:300]
	}
}

// Run executes one pass of the real worker over the case's batch.
func Run(c Case) Obs {
	l := &evlog{}
	ctx, cancel := context.WithCancel(context.Background())
	defer cancel()
	logger := log.Nop()

	oa, os := funnel.VerifSetRetryLimits(c.MaxAttempts, c.MaxStall)
	defer funnel.VerifSetRetryLimits(oa, os)

	src := &fakeSource{l: l, acts: c.SrcActs}
	for _, r := range c.Recs {
		src.recs = append(src.recs, mkRecord(r))
	}
	if src.recs == nil {
		src.recs = []opencdc.Record{}
	}
	dest := &fakeDest{l: l, id: "dest", spec: c.Dest}
	dlqDest := &fakeDest{l: l, id: "dlq", spec: c.Dlq, dlq: true}

	reg := &fakeRegistry{procs: map[string]*fakeProc{}}
	svc := processor.NewService(logger, &inmemory.DB{}, reg)

	first := &funnel.TaskNode{Task: funnel.NewSourceTask("t0", src, logger, funnel.NoOpConnectorMetrics{})}
	cur := first
	var setupErr error
	for i, p := range c.Procs {
		id := fmt.Sprintf("t%d", i+1)
		reg.procs[id] = &fakeProc{l: l, p: i, spec: p}
		cond := ""
		if p.Cond {
			cond = fmt.Sprintf(`{{ index .Metadata "c%d" }}`, i)
		}
		inst, err := svc.Create(ctx, id, "fake", processor.Parent{ID: "pl", Type: processor.ParentTypePipeline},
			processor.Config{Settings: map[string]string{}}, processor.ProvisionTypeAPI, cond)
		if err != nil {
			setupErr = err
			break
		}
		rp, err := svc.MakeRunnableProcessor(ctx, inst)
		if err != nil {
			setupErr = err
			break
		}
		n := &funnel.TaskNode{Task: funnel.NewProcessorTask(id, rp, logger, funnel.NoOpProcessorMetrics{})}
		cur.Next = []*funnel.TaskNode{n}
		cur = n
	}
	if setupErr != nil {
		return Obs{Term: "err", Code: "other", Detail: "setup: " + setupErr.Error()}
	}
	dn := &funnel.TaskNode{Task: funnel.NewDestinationTask(fmt.Sprintf("t%d", len(c.Procs)+1), dest, logger, funnel.NoOpConnectorMetrics{})}
	cur.Next = []*funnel.TaskNode{dn}
	dlq := funnel.NewDLQ("dlq", dlqDest, logger, funnel.NoOpConnectorMetrics{}, c.DlqSize, c.DlqThr)
	w, err := funnel.NewWorker(first, dlq, logger, noop.Timer{})
	if err != nil {
		return Obs{Term: "err", Code: "other", Detail: "setup: " + err.Error()}
	}

	type result struct {
		err      error
		panicked bool
		pmsg     string
		site     string
	}
	done := make(chan result, 1)
	go func() {
		var res result
		defer func() {
			if r := recover(); r != nil {
				res.panicked = true
				res.pmsg = fmt.Sprint(r)
				res.site = panicSite(string(debug.Stack()))
			}
			done <- res
		}()
		if err := w.Open(ctx); err != nil {
			res.err = err
			return
		}
		res.err = w.Do(ctx)
		_ = w.Close(ctx)
	}()

	var o Obs
	select {
	case res := <-done:
		if res.panicked {
			o.Term = "panic"
			o.Detail = res.pmsg
			o.Site = res.site
		} else {
			classify(res.err, &o)
		}
	case <-time.After(CaseDeadline):
		o.Term = "hang"
		cancel()
	}
	o.Events = append([]Event{}, l.evs...)
	return o
}
