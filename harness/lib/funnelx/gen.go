package funnelx

import (
	"verifharness/lib/hx"
)

// ---------- generators ----------

type limits struct{ attempts, stall int }

func pick[T any](r *hx.Rand, xs []T) T { return xs[r.Intn(len(xs))] }

func genKind(r *hx.Rand, n int, malformed bool) Kind {
	x := r.Intn(100)
	switch {
	case x < 28:
		return Kind{K: "same"}
	case x < 38:
		return Kind{K: "mod"}
	case x < 46:
		// changed position: fresh, colliding with another record's, empty or nil
		switch r.Intn(6) {
		case 0:
			return Kind{K: "pos", P: nil}
		case 1:
			return Kind{K: "pos", P: Pos{}}
		case 2:
			return Kind{K: "pos", P: Pos{r.Intn(n + 1)}}
		default:
			return Kind{K: "pos", P: Pos{50 + r.Intn(20)}}
		}
	case x < 58:
		return Kind{K: "filter"}
	case x < 68:
		return Kind{K: "err"}
	case x < 73:
		return Kind{K: "multi", N: 0}
	case x < 78:
		return Kind{K: "multi", N: 1}
	case x < 90:
		return Kind{K: "multi", N: 2}
	case x < 95:
		return Kind{K: "multi", N: 3}
	default:
		return Kind{K: "nil"}
	}
}

func genPattern(r *hx.Rand, n int, malformed bool) []Kind {
	// a few patterns are uniform, most are mixed
	l := r.Range(1, n+2)
	if r.Chance(1, 5) {
		k := genKind(r, n, malformed)
		return []Kind{k}
	}
	ks := make([]Kind, l)
	for i := range ks {
		ks[i] = genKind(r, n, malformed)
	}
	return ks
}

func genReply(r *hx.Rand, n int, malformed bool) Reply {
	rep := Reply{Exact: true, Kinds: genPattern(r, n, malformed)}
	if r.Chance(1, 4) {
		rep.Short = r.Range(1, 3)
	}
	if r.Chance(1, 40) {
		rep.Short = n + 3 // empty result
	}
	if r.Chance(1, 6) {
		rep.Slack = r.Range(1, 2)
	}
	if malformed && r.Chance(1, 3) {
		// literal vector: any length relation to the input
		rep.Exact, rep.Short = false, 0
		l := r.Range(0, n+2)
		rep.Kinds = make([]Kind, l)
		for i := range rep.Kinds {
			rep.Kinds[i] = genKind(r, n, malformed)
		}
	}
	return rep
}

func genDest(r *hx.Rand, n int, malformed bool, isDlq bool) Dest {
	d := Dest{WriteErrAt: -1, Fail: [][]int{}, Chunks: []int{}, Acts: []Act{}}
	failDen := 3
	if isDlq {
		failDen = 12
	}
	if r.Chance(1, failDen) {
		d.FailMod = []int{r.Range(2, 5), 0}
		d.FailMod[1] = r.Intn(d.FailMod[0])
	}
	if r.Chance(1, failDen) {
		for k := 0; k < n; k++ {
			if r.Chance(1, 3) {
				id := []int{k}
				for r.Chance(1, 2) {
					id = append(id, pick(r, []int{0, 1, 2, 100}))
				}
				d.Fail = append(d.Fail, id)
			}
		}
	}
	if r.Chance(1, 2) {
		l := r.Range(1, 4)
		for i := 0; i < l; i++ {
			d.Chunks = append(d.Chunks, r.Range(0, 3))
		}
	}
	den := 60
	if malformed {
		den = 3
	}
	if isDlq {
		den *= 3
	}
	if r.Chance(1, den) {
		d.WriteErrAt = r.Intn(3)
	}
	if r.Chance(1, den) {
		l := r.Range(1, 3)
		for i := 0; i < l; i++ {
			a := Act{Call: r.Intn(6), Act: pick(r, []string{"empty", "empty", "err", "extra", "extra", "wrongpos", "dup", "swap", "short"})}
			if r.Chance(1, 2) {
				// the misbehaviour hits any ack of the reply / any surplus up to the batch size
				a.N = r.Intn(n + 1)
			}
			d.Acts = append(d.Acts, a)
		}
	}
	if malformed && r.Chance(1, 8) && n >= 2 {
		// acks in several chunks, the misbehaviour in a chunk after a well-formed one
		k := r.Range(1, n-1)
		d.Chunks = []int{k}
		if r.Bool() {
			d.Chunks = append(d.Chunks, r.Range(1, n))
		}
		d.Acts = append(d.Acts, Act{Call: r.Range(1, 3), Act: pick(r, []string{"extra", "extra", "wrongpos", "dup", "swap", "short", "empty"}), N: r.Intn(n)})
	}
	if malformed && !isDlq && r.Chance(1, 10) {
		// a destination that confirms nothing at all
		for i := 0; i < 3*n+6; i++ {
			d.Acts = append(d.Acts, Act{Call: i, Act: "empty"})
		}
	}
	return d
}

// Gen draws one case. malformed selects the C09 stream (raw result vectors of
// any length, malformed source positions, destination misbehaviour, plugin
// errors); otherwise the C08 stream (well-formed lengths, every result kind).
func Gen(r *hx.Rand, lim limits, malformed bool) Case {
	n := r.Range(1, 12)
	if r.Chance(1, 2) {
		n = r.Range(1, 5)
	}
	if malformed && r.Chance(1, 30) {
		n = 0
	}
	np := r.Range(1, 4)
	if r.Chance(1, 12) {
		np = 0
	}
	c := Case{MaxAttempts: lim.attempts, MaxStall: lim.stall, SrcActs: []Act{}}
	conds := make([]bool, np)
	for p := range conds {
		conds[p] = r.Chance(1, 3)
		if malformed {
			conds[p] = r.Chance(1, 2)
		}
	}
	for k := 0; k < n; k++ {
		rec := Rec{Pos: Pos{k}, ID: []int{k}, Cond: make([]int, np)}
		for p := range rec.Cond {
			rec.Cond[p] = r.Intn(2)
			if conds[p] && r.Chance(1, 25) {
				rec.Cond[p] = 2
			}
		}
		if malformed && r.Chance(1, 25) {
			switch r.Intn(3) {
			case 0:
				rec.Pos = nil
			case 1:
				rec.Pos = Pos{}
			default:
				rec.Pos = Pos{r.Intn(n)}
			}
		}
		c.Recs = append(c.Recs, rec)
	}
	if c.Recs == nil {
		c.Recs = []Rec{}
	}
	c.Procs = []Proc{}
	for p := 0; p < np; p++ {
		pr := Proc{Cond: conds[p], Replies: []Reply{}}
		nr := r.Range(0, 4)
		for i := 0; i < nr; i++ {
			pr.Replies = append(pr.Replies, genReply(r, n, malformed))
		}
		if r.Chance(1, 10) {
			// a processor that keeps returning nothing for (part of) what it is given:
			// the retry chain either converges, stalls (maxRetryStall) or hits the attempt cap
			pat := pick(r, [][]Kind{{{K: "nil"}}, {{K: "same"}, {K: "nil"}}, {{K: "nil"}, {K: "mod"}}, {{K: "filter"}, {K: "nil"}, {K: "nil"}}})
			k := r.Range(2, 7)
			pr.Replies = pr.Replies[:0]
			if r.Bool() {
				pr.Replies = append(pr.Replies, Reply{Exact: true, Kinds: []Kind{{K: "same"}}, Short: r.Range(1, 2)})
			}
			for i := 0; i < k; i++ {
				pr.Replies = append(pr.Replies, Reply{Exact: true, Kinds: pat})
			}
		}
		c.Procs = append(c.Procs, pr)
	}
	c.Dest = genDest(r, n, malformed, false)
	c.Dlq = genDest(r, n, malformed, true)
	if r.Chance(1, 4) {
		c.DlqSize = r.Range(0, 4)
		c.DlqThr = r.Range(0, 3)
	}
	den := 50
	if malformed {
		den = 6
	}
	if r.Chance(1, den) {
		c.SrcActs = append(c.SrcActs, Act{Call: r.Intn(4), Act: pick(r, []string{"err", "eof"})})
	}
	if r.Chance(1, 5) {
		c.MaxAttempts = r.Range(1, 4)
	}
	if r.Chance(1, 5) {
		c.MaxStall = r.Range(1, 3)
	}
	return c
}

// ---------- C09 exhaustive condition/length/kind enumeration ----------

// CondCases enumerates, for one conditional processor over n records (n <= maxN):
// every match pattern (2^n), every length relation of the plugin's result to
// the number of kept records (0, kept-2, kept-1, kept, kept+1) and a set of
// kind mixes. The shard takes every shards-th case.
func CondCases(lim limits, maxN, shard, shards int, emit func(Case)) {
	mixes := [][]Kind{
		{{K: "same"}},
		{{K: "mod"}},
		{{K: "filter"}},
		{{K: "err"}},
		{{K: "multi", N: 2}},
		{{K: "multi", N: 0}, {K: "multi", N: 2}},
		{{K: "mod"}, {K: "filter"}, {K: "err"}, {K: "multi", N: 1}},
		{{K: "nil"}, {K: "mod"}},
	}
	k := 0
	for n := 1; n <= maxN; n++ {
		for mask := 0; mask < 1<<n; mask++ {
			kept := 0
			for i := 0; i < n; i++ {
				if mask>>i&1 == 1 {
					kept++
				}
			}
			seen := map[int]bool{}
			for _, l := range []int{0, kept - 2, kept - 1, kept, kept + 1} {
				if l < 0 || seen[l] {
					continue
				}
				seen[l] = true
				for mi, mix := range mixes {
					k++
					if k%shards != shard {
						continue
					}
					c := Case{MaxAttempts: lim.attempts, MaxStall: lim.stall, SrcActs: []Act{},
						Dest: Dest{WriteErrAt: -1, Fail: [][]int{}, Chunks: []int{}, Acts: []Act{}},
						Dlq:  Dest{WriteErrAt: -1, Fail: [][]int{}, Chunks: []int{}, Acts: []Act{}}}
					for i := 0; i < n; i++ {
						c.Recs = append(c.Recs, Rec{Pos: Pos{i}, ID: []int{i}, Cond: []int{mask >> i & 1}})
					}
					ks := make([]Kind, l)
					for i := range ks {
						ks[i] = mix[i%len(mix)]
					}
					c.Procs = []Proc{{Cond: true, Replies: []Reply{{Kinds: ks, Slack: mi % 2}}}}
					emit(c)
				}
			}
		}
	}
}

// ---------- C09 exhaustive destination reply enumeration ----------

func compositions(m int) [][]int {
	if m == 0 {
		return [][]int{{}}
	}
	var out [][]int
	for k := 1; k <= m; k++ {
		for _, rest := range compositions(m - k) {
			out = append(out, append([]int{k}, rest...))
		}
	}
	return out
}

// DestCases enumerates, for m records arriving at a destination (m <= maxM):
// every way the plugin can cut its acks into chunks (all compositions of m),
// every chunk index (and the call after the last chunk) and, at that chunk,
// every malformed reply: empty, error, a surplus of 1..m acks, a wrong position
// / a duplicate / a transposition at every ack of the chunk, the loss of the
// last 1..k acks. The m records reach the destination directly, behind a
// filtering or a splitting processor, with one record refused by the
// destination, or as dead letters (then the DLQ destination misbehaves).
// The shard takes every shards-th case.
func DestCases(lim limits, maxM, shard, shards int, emit func(Case)) {
	k := 0
	for m := 1; m <= maxM; m++ {
		for _, comp := range compositions(m) {
			for j := 0; j <= len(comp); j++ {
				cj := 0
				if j < len(comp) {
					cj = comp[j]
				}
				acts := []Act{{}, {Call: j, Act: "empty"}, {Call: j, Act: "err"}}
				for x := 0; x < m; x++ {
					acts = append(acts, Act{Call: j, Act: "extra", N: x})
				}
				for x := 0; x < cj; x++ {
					acts = append(acts, Act{Call: j, Act: "wrongpos", N: x}, Act{Call: j, Act: "dup", N: x}, Act{Call: j, Act: "short", N: x})
					if x+1 < cj {
						acts = append(acts, Act{Call: j, Act: "swap", N: x})
					}
				}
				for _, a := range acts {
					if a.Act == "" && j > 0 {
						continue // the well-formed run once per composition
					}
					for fl := 0; fl < 6; fl++ {
						if (fl == 2 || fl == 3) && m < 2 {
							continue
						}
						if m == maxM && maxM > 3 && fl > 0 {
							continue // the largest scope only directly
						}
						k++
						if k%shards != shard {
							continue
						}
						d := plainDest()
						d.Chunks = append([]int{}, comp...)
						if a.Act != "" {
							d.Acts = []Act{a}
						}
						c := Case{MaxAttempts: lim.attempts, MaxStall: lim.stall, SrcActs: []Act{}, Procs: []Proc{}, Dest: d, Dlq: plainDest()}
						n := m
						switch fl {
						case 1: // the destination refuses the first record
							c.Dest.Fail = [][]int{{0}}
						case 2: // a processor filters the first record
							n = m + 1
						case 3: // a processor splits the first record in two
							n = m - 1
						case 4: // the destination refuses the last record
							c.Dest.Fail = [][]int{{m - 1}}
						case 5: // every record is refused: the DLQ destination gets m records and misbehaves
							c.Dlq, c.Dest = d, plainDest()
							c.Dest.FailMod = []int{1, 0}
						}
						for i := 0; i < n; i++ {
							c.Recs = append(c.Recs, Rec{Pos: Pos{i}, ID: []int{i}, Cond: []int{1}})
						}
						if fl == 2 || fl == 3 {
							ks := make([]Kind, n)
							for i := range ks {
								ks[i] = Kind{K: "same"}
							}
							if fl == 2 {
								ks[0] = Kind{K: "filter"}
							} else {
								ks[0] = Kind{K: "multi", N: 2}
							}
							c.Procs = []Proc{{Replies: []Reply{{Kinds: ks}}}}
						}
						emit(c)
					}
				}
			}
		}
	}
}
