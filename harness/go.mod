module verifharness

go 1.25.8

require github.com/conduitio/conduit v0.0.0

replace github.com/conduitio/conduit => /repo
