(* ParallelNode (pkg/lifecycle/stream/parallel.go): Workers processor nodes work on messages
   concurrently, the coordinator forwards results in DISPATCH order.

   ParallelNode.Run (one goroutine) hands each message as a job to `workerJobs` (whichever worker
   is free takes it) and, in the same select arm, appends the job to `coordinatorJobs` - so the
   coordinator's queue is in dispatch order.  Workers finish in any order (PComplete).  The
   coordinator (one goroutine) takes the next job of its queue, WAITS for it (job.Wait()), and
   then: the message is still open -> send it to the next node (or, once a previous job failed,
   nack it); it was acked or nacked by the worker -> skip it; the worker's nack failed -> remember
   the failure.                                                                                *)
From Coq Require Export List Arith Bool Lia.
Export ListNotations.

Inductive outcome :=
| OPass          (* processed (or marked filtered): message still open, to be forwarded *)
| ODone          (* the worker acked / nacked it successfully: nothing to forward *)
| OFail.         (* the worker's nack returned an error *)

Record par := mkPar {
  njobs : nat;                       (* jobs dispatched so far: 0 .. njobs-1 *)
  done_ : list (nat * outcome);      (* completions, in completion order *)
  next : nat;                        (* coordinator cursor *)
  failed : bool;
  forwarded : list nat               (* jobs sent to the next node, oldest first *)
}.

Definition par_init : par := mkPar 0 [] 0 false [].

Inductive pact := PDispatch | PComplete (j : nat) (o : outcome) | PCollect.

Definition outcome_of (p : par) (j : nat) : option outcome :=
  match find (fun x => fst x =? j) (done_ p) with Some (_, o) => Some o | None => None end.

Definition par_step (p : par) (a : pact) : par :=
  match a with
  | PDispatch => mkPar (S (njobs p)) (done_ p) (next p) (failed p) (forwarded p)
  | PComplete j o =>
      if (j <? njobs p) && (match outcome_of p j with None => true | Some _ => false end)
      then mkPar (njobs p) (done_ p ++ [(j, o)]) (next p) (failed p) (forwarded p)
      else p
  | PCollect =>
      if next p <? njobs p then
        match outcome_of p (next p) with
        | None => p                                  (* job.Wait() blocks *)
        | Some OFail => mkPar (njobs p) (done_ p) (S (next p)) true (forwarded p)
        | Some ODone => mkPar (njobs p) (done_ p) (S (next p)) (failed p) (forwarded p)
        | Some OPass =>
            if failed p then mkPar (njobs p) (done_ p) (S (next p)) true (forwarded p)  (* nacked *)
            else mkPar (njobs p) (done_ p) (S (next p)) false (forwarded p ++ [next p])
        end
      else p
  end.

Definition par_run (acts : list pact) : par := fold_left par_step acts par_init.

Fixpoint increasing (l : list nat) : Prop :=
  match l with
  | [] => True
  | a :: r => (forall b, In b r -> a < b) /\ increasing r
  end.

Lemma increasing_snoc l x : increasing l -> (forall a, In a l -> a < x) -> increasing (l ++ [x]).
Proof.
  induction l as [|a l IH]; simpl; intros H Hx; [split; [intros b []|exact I]|].
  destruct H as [H1 H2]. split.
  - intros b Hb. apply in_app_or in Hb as [Hb|[<-|[]]]; [apply H1, Hb|apply Hx; left; reflexivity].
  - apply IH; [exact H2|]. intros c Hc. apply Hx. right. exact Hc.
Qed.

Definition par_inv (p : par) : Prop :=
  next p <= njobs p /\ increasing (forwarded p) /\
  (forall j, In j (forwarded p) -> j < next p /\ outcome_of p j = Some OPass).

Lemma find_snoc {A} (f : A -> bool) l x :
  find f (l ++ [x]) = match find f l with Some y => Some y | None => if f x then Some x else None end.
Proof. induction l as [|a l IH]; simpl; [reflexivity|]. destruct (f a); [reflexivity|exact IH]. Qed.

(* a completion only adds information: what was known stays *)
Lemma outcome_of_complete p j o j' x :
  outcome_of p j' = Some x ->
  outcome_of (mkPar (njobs p) (done_ p ++ [(j, o)]) (next p) (failed p) (forwarded p)) j' = Some x.
Proof.
  unfold outcome_of. simpl. rewrite find_snoc.
  destruct (find (fun y => fst y =? j') (done_ p)) as [[a b]|]; [auto|discriminate].
Qed.

Lemma par_step_inv p a : par_inv p -> par_inv (par_step p a).
Proof.
  intros (H1 & H2 & H3). destruct a as [|j o|]; simpl.
  - split; [simpl; lia|]. split; [exact H2|exact H3].
  - destruct ((j <? njobs p) && match outcome_of p j with None => true | Some _ => false end);
      [|split; [exact H1|split; [exact H2|exact H3]]].
    split; [exact H1|]. split; [exact H2|]. intros j' Hj'. destruct (H3 j' Hj') as [E1 E2].
    split; [exact E1|]. apply outcome_of_complete, E2.
  - destruct (next p <? njobs p) eqn:En; [|split; [exact H1|split; [exact H2|exact H3]]].
    apply Nat.ltb_lt in En.
    assert (Hkeep : forall nx fl, S (next p) = nx ->
              par_inv (mkPar (njobs p) (done_ p) nx fl (forwarded p))).
    { intros nx fl <-. split; [simpl; lia|split; [exact H2|]]. intros j' Hj'.
      destruct (H3 j' Hj'). split; [simpl; lia|assumption]. }
    destruct (outcome_of p (next p)) as [[| |]|] eqn:Eo.
    + destruct (failed p); [apply Hkeep; reflexivity|].
      split; [simpl; lia|]. split.
      * simpl. apply increasing_snoc; [exact H2|]. intros a Ha. apply H3, Ha.
      * simpl. intros j' Hj'. apply in_app_or in Hj' as [Hj'|[<-|[]]].
        -- destruct (H3 j' Hj'). split; [lia|assumption].
        -- split; [lia|exact Eo].
    + apply Hkeep. reflexivity.
    + apply Hkeep. reflexivity.
    + split; [exact H1|split; [exact H2|exact H3]].
Qed.

(* whatever the order in which the workers finish: the coordinator forwards a strictly increasing
   sequence of job numbers (dispatch order is preserved, nothing is forwarded twice), and only
   jobs whose worker left the message open *)
Theorem parallel_preserves_order acts :
  increasing (forwarded (par_run acts)) /\
  forall j, In j (forwarded (par_run acts)) ->
    j < njobs (par_run acts) /\ outcome_of (par_run acts) j = Some OPass.
Proof.
  assert (G : forall acts p, par_inv p -> par_inv (fold_left par_step acts p)).
  { clear. induction acts as [|a acts IH]; intros p H; [exact H|]. simpl. apply IH, par_step_inv, H. }
  destruct (G acts par_init) as (H1 & H2 & H3).
  { split; [simpl; lia|]. split; [exact I|]. intros j []. }
  unfold par_run. split; [exact H2|]. intros j Hj. destruct (H3 j Hj). split; [lia|assumption].
Qed.
