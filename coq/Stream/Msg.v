(* stream.Message (pkg/lifecycle/stream/message.go): status, handlers, Ack/Nack.

   RegisterStatusHandler wraps the previous handler: the new one runs FIRST, so handlers run in
   reverse registration order.  Ack()/Nack() run the chain inside ackNackOnce.Do, i.e. exactly
   once; a second Ack() returns the stored value; Ack() on a nacked message (and vice versa)
   panics ("BUG: message ... ack failed, status is nacked").  Registering on a message that is
   no longer open panics as well. *)
From Coq Require Export List Arith Bool Lia.
Export ListNotations.

Inductive mstatus := SOpen | SAcked | SNacked.
Inductive kind := KAck | KNack.

Record msg := mkMsg {
  status : mstatus;
  handlers : list nat;            (* ids, in registration order *)
  ran : list (nat * kind);        (* handler invocations so far, in order *)
  panicked : bool
}.

Definition new_msg : msg := mkMsg SOpen [] [] false.

Inductive call := CRegister (h : nat) | CAck | CNack.

Definition do_call (m : msg) (c : call) : msg :=
  if panicked m then m else
  match c with
  | CRegister h =>
      match status m with
      | SOpen => mkMsg SOpen (handlers m ++ [h]) (ran m) false
      | _ => mkMsg (status m) (handlers m) (ran m) true
      end
  | CAck =>
      match status m with
      | SOpen => mkMsg SAcked (handlers m) (ran m ++ map (fun h => (h, KAck)) (rev (handlers m))) false
      | SAcked => m
      | SNacked => mkMsg SNacked (handlers m) (ran m) true
      end
  | CNack =>
      match status m with
      | SOpen => mkMsg SNacked (handlers m) (ran m ++ map (fun h => (h, KNack)) (rev (handlers m))) false
      | SNacked => m
      | SAcked => mkMsg SAcked (handlers m) (ran m) true
      end
  end.

Definition do_calls (cs : list call) : msg := fold_left do_call cs new_msg.

(* for every sequence of calls: the handlers ran not at all (still open) or exactly once each, in
   reverse registration order, all with the kind of the one decision that was taken *)
Definition ran_ok (m : msg) : Prop :=
  match status m with
  | SOpen => ran m = []
  | SAcked => ran m = map (fun h => (h, KAck)) (rev (handlers m))
  | SNacked => ran m = map (fun h => (h, KNack)) (rev (handlers m))
  end.

Lemma do_call_ran_ok m c : ran_ok m -> ran_ok (do_call m c).
Proof.
  unfold ran_ok, do_call. intros H. destruct (panicked m); [exact H|].
  destruct c; destruct (status m) eqn:E; simpl; rewrite ?E; auto; rewrite H; reflexivity.
Qed.

Theorem handlers_once_reverse_order : forall cs, ran_ok (do_calls cs).
Proof.
  intros cs. unfold do_calls.
  assert (G : forall m, ran_ok m -> ran_ok (fold_left do_call cs m)).
  { induction cs as [|c cs IH]; intros m H; [exact H|]. simpl. apply IH, do_call_ran_ok, H. }
  apply G. reflexivity.
Qed.

(* the decision is final *)
Lemma do_call_status_final m c : status m <> SOpen -> status (do_call m c) = status m.
Proof.
  unfold do_call. intros H. destruct (panicked m); [reflexivity|].
  destruct c; destruct (status m) eqn:E; simpl; try congruence; rewrite ?E; reflexivity.
Qed.
