(* FanoutNode's per-message bookkeeping (pkg/lifecycle/stream/fanout.go), for one message fanned
   out to M branches: remainingAcks and the two handlers registered on every clone.

     ack handler of a clone:   remaining := atomic.AddInt32(&remainingAcks, -1)
                               remaining == 0 -> return msg.Ack()
                               else wait for the original: acked -> msg.Ack() (its stored value)
                                                           nacked -> error "message was nacked by
                                                                     another node"
     nack handler of a clone:  return msg.Nack(...)          (forwarded immediately)

   Atomicity: the counter is decremented atomically; Message.Ack/Nack decide once
   (ackNackOnce).  A clone is acked or nacked at most once (its own ackNackOnce), which is the
   [COpen] guard below.  Any list of calls = any interleaving of the branches. *)
From Verif Require Import Stream.SysV1 Stream.SysV1Proofs.

Record fo := mkFan {
  remaining : nat;
  orig : mstat;
  clones : list cstat;       (* one per branch *)
  fo_panic : bool            (* msg.Ack() on a nacked original *)
}.

Definition fo_init (M : nat) : fo := mkFan M MOpen (repeat COpen M) false.

Inductive fcall := FAck (d : nat) | FNack (d : nat).

(* what the clone's Ack()/Nack() returns to the DestinationAckerNode *)
Inductive fres := ROk | RWaitThenOk | RErrNackedByOther | RNoop | RPanic.

Fixpoint set_nth {A} (l : list A) (i : nat) (x : A) : list A :=
  match l, i with
  | [], _ => []
  | _ :: r, 0 => x :: r
  | a :: r, S j => a :: set_nth r j x
  end.

Definition fo_call (f : fo) (c : fcall) : fo * fres :=
  match c with
  | FAck d =>
      match nth_error (clones f) d with
      | Some COpen =>
          let r := remaining f - 1 in
          let cl := set_nth (clones f) d CAcked in
          if r =? 0 then
            match orig f with
            | MOpen => (mkFan r MAcked cl (fo_panic f), ROk)
            | MAcked => (mkFan r MAcked cl (fo_panic f), ROk)
            | MNacked => (mkFan r MNacked cl true, RPanic)
            end
          else
            match orig f with
            | MNacked => (mkFan r MNacked cl (fo_panic f), RErrNackedByOther)
            | o => (mkFan r o cl (fo_panic f), RWaitThenOk)
            end
      | _ => (f, RNoop)
      end
  | FNack d =>
      match nth_error (clones f) d with
      | Some COpen =>
          (mkFan (remaining f) (match orig f with MOpen => MNacked | o => o end)
                 (set_nth (clones f) d CNacked) (fo_panic f), ROk)
      | _ => (f, RNoop)
      end
  end.

Definition fo_run (M : nat) (cs : list fcall) : fo := fold_left (fun f c => fst (fo_call f c)) cs (fo_init M).

Definition n_acked (l : list cstat) : nat := length (filter is_acked l).
Definition n_nacked (l : list cstat) : nat :=
  length (filter (fun c => match c with CNacked => true | _ => false end) l).

Record fo_inv (M : nat) (f : fo) : Prop := {
  fi_len : length (clones f) = M;
  fi_cnt : remaining f + n_acked (clones f) = M;
  fi_acked : orig f = MAcked -> remaining f = 0;
  fi_nacked : orig f = MNacked -> 1 <= n_nacked (clones f);
  fi_open : orig f = MOpen -> n_nacked (clones f) = 0;
  fi_panic : fo_panic f = false
}.

Lemma set_nth_length {A} (l : list A) i x : length (set_nth l i x) = length l.
Proof. revert i; induction l as [|a l IH]; intros [|i]; simpl; auto. Qed.

Lemma count_set_nth (p : cstat -> bool) l i c x :
  nth_error l i = Some c ->
  length (filter p (set_nth l i x)) + (if p c then 1 else 0) = length (filter p l) + (if p x then 1 else 0).
Proof.
  revert i; induction l as [|a l IH]; intros [|i] H; simpl in *; try discriminate.
  - injection H as ->. destruct (p c), (p x); simpl; lia.
  - specialize (IH i H). destruct (p a); simpl; lia.
Qed.

Lemma n_le_len (p : cstat -> bool) l : length (filter p l) <= length l.
Proof. induction l as [|a l IH]; simpl; [lia|]. destruct (p a); simpl; lia. Qed.

Lemma n_acked_nacked_le l : n_acked l + n_nacked l <= length l.
Proof.
  unfold n_acked, n_nacked. induction l as [|a l IH]; simpl; [lia|]. destruct a; simpl; lia.
Qed.

Lemma open_clone_counts l d : nth_error l d = Some COpen -> n_acked l + n_nacked l + 1 <= length l.
Proof.
  revert d. induction l as [|a l IH]; intros [|d] H; simpl in *; try discriminate.
  - injection H as ->. pose proof (n_acked_nacked_le l). unfold n_acked, n_nacked in *. simpl. lia.
  - specialize (IH d H). unfold n_acked, n_nacked in *. simpl. destruct a; simpl; lia.
Qed.

Lemma fo_call_inv M f c : fo_inv M f -> fo_inv M (fst (fo_call f c)).
Proof.
  intros [L C A Nk O P]. destruct c as [d|d]; simpl.
  - destruct (nth_error (clones f) d) as [[| |]|] eqn:En; simpl; try (constructor; assumption).
    pose proof (count_set_nth is_acked _ _ _ CAcked En) as Ha. simpl in Ha.
    pose proof (count_set_nth (fun c => match c with CNacked => true | _ => false end) _ _ _ CAcked En) as Hn.
    simpl in Hn. fold (n_acked (clones f)) in Ha. fold (n_nacked (clones f)) in Hn.
    fold (n_acked (set_nth (clones f) d CAcked)) in Ha. fold (n_nacked (set_nth (clones f) d CAcked)) in Hn.
    assert (Hlt : n_acked (clones f) < M).
    { pose proof (n_acked_nacked_le (clones f)). pose proof (n_acked_nacked_le (set_nth (clones f) d CAcked)).
      rewrite set_nth_length in H0. lia. }
    destruct (remaining f - 1 =? 0) eqn:Ez.
    + apply Nat.eqb_eq in Ez. destruct (orig f) eqn:Eo; simpl.
      * constructor; simpl; rewrite ?set_nth_length; auto; try lia; try congruence.
      * specialize (A eq_refl). lia.
      * (* unreachable: a nacked clone exists, so the counter cannot reach zero *)
        exfalso. specialize (Nk eq_refl).
        pose proof (n_acked_nacked_le (set_nth (clones f) d CAcked)). rewrite set_nth_length in H. lia.
    + apply Nat.eqb_neq in Ez. destruct (orig f) eqn:Eo; simpl.
      * constructor; simpl; rewrite ?set_nth_length; auto; try lia; try congruence.
        intros _. specialize (O eq_refl). lia.
      * specialize (A eq_refl). lia.
      * constructor; simpl; rewrite ?set_nth_length; auto; try lia; try congruence.
        intros _. specialize (Nk eq_refl). lia.
  - destruct (nth_error (clones f) d) as [[| |]|] eqn:En; simpl; try (constructor; assumption).
    pose proof (count_set_nth is_acked _ _ _ CNacked En) as Ha. simpl in Ha.
    pose proof (count_set_nth (fun c => match c with CNacked => true | _ => false end) _ _ _ CNacked En) as Hn.
    simpl in Hn. fold (n_acked (clones f)) in Ha. fold (n_nacked (clones f)) in Hn.
    fold (n_acked (set_nth (clones f) d CNacked)) in Ha. fold (n_nacked (set_nth (clones f) d CNacked)) in Hn.
    constructor; simpl; rewrite ?set_nth_length; auto; try lia.
    + destruct (orig f) eqn:Eo; try discriminate. intros _. apply A. reflexivity.
    + destruct (orig f); discriminate.
Qed.

Lemma fo_init_inv M : fo_inv M (fo_init M).
Proof.
  constructor; simpl; try discriminate; auto.
  - apply repeat_length.
  - unfold n_acked. induction M; simpl; auto.
  - intros _. unfold n_nacked. induction M; simpl; auto.
Qed.

(* remaining = M - (number of clones acked), whatever the order of the branches' acks and nacks,
   and msg.Ack() is never called on a nacked original *)
Theorem fanout_counter_inv M cs :
  remaining (fo_run M cs) + n_acked (clones (fo_run M cs)) = M /\ fo_panic (fo_run M cs) = false /\
  (orig (fo_run M cs) = MAcked -> n_acked (clones (fo_run M cs)) = M).
Proof.
  assert (G : forall cs f, fo_inv M f -> fo_inv M (fold_left (fun f c => fst (fo_call f c)) cs f)).
  { clear cs. induction cs as [|c cs IH]; intros f H; [exact H|]. simpl. apply IH, fo_call_inv, H. }
  destruct (G cs _ (fo_init_inv M)) as [L C A Nk O P]. unfold fo_run. splits; auto.
  intros Ha. specialize (A Ha). lia.
Qed.

(* an ack of a clone that arrives after another branch nacked the message does not ack anything:
   it returns the error (and the original stays nacked) *)
Theorem late_ack_after_nack_errors M cs d :
  let f := fo_run M cs in
  orig f = MNacked -> nth_error (clones f) d = Some COpen ->
  snd (fo_call f (FAck d)) = RErrNackedByOther /\ orig (fst (fo_call f (FAck d))) = MNacked.
Proof.
  intros f Ho Hc.
  assert (HI : fo_inv M f).
  { unfold f, fo_run.
    assert (G : forall cs f, fo_inv M f -> fo_inv M (fold_left (fun f c => fst (fo_call f c)) cs f)).
    { clear. induction cs as [|c cs IH]; intros f H; [exact H|]. simpl. apply IH, fo_call_inv, H. }
    apply G, fo_init_inv. }
  destruct HI as [L C A Nk O P]. simpl. rewrite Hc.
  pose proof (count_set_nth is_acked _ _ _ CAcked Hc) as Ha. simpl in Ha.
  pose proof (n_acked_nacked_le (clones f)). specialize (Nk Ho).
  pose proof (open_clone_counts _ _ Hc) as Hcn.
  destruct (remaining f - 1 =? 0) eqn:Ez.
  - apply Nat.eqb_eq in Ez. fold (n_acked (clones f)) in *. lia.
  - rewrite Ho. simpl. auto.
Qed.
