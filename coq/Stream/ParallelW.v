(* ParallelNode with its resources (pkg/lifecycle/stream/parallel.go): W workers, the coordinator
   split into "wait for the job at the head of the line" and "send it on", jobs tagged with the
   source record they carry.  Parallel.v is the unbounded abstraction; this model adds what the
   head-of-line family of the harness drives:

     WDispatch      ParallelNode.Run hands the next message to a FREE worker and queues the job for
                    the coordinator.  A worker is busy from the dispatch until the coordinator has
                    waited for its job (runForwarder blocks in job.Done()), so at most W jobs are
                    between dispatch and collection - however long the head of the line takes.
     WComplete j o  worker finished job j: message still open (OPass), acked / nacked by the worker
                    itself, e.g. dead-lettered (ODone) - which can happen to jobs in the MIDDLE of
                    the queue while the coordinator is held up, since the ticket of a record only
                    depends on its own source -, or the nack failed (OFail).
     WWait          the coordinator (not inside a send) takes the job at the head: blocks until it
                    is complete; ODone -> next job; OFail -> fail latch; OPass -> nack it when the
                    latch is set, else start sending it.
     WSend ok       the next node took the message (ok) / the context ended and it was nacked.

   Theorems (below): the number of uncollected jobs never exceeds W; what is sent on is strictly
   increasing in dispatch order, only jobs left open by their worker, each once; hence for jobs
   tagged with (source, index) whose tags arrive in read order per source, every source's records
   leave in read order. *)
From Verif Require Export Stream.Parallel.

Record parw := mkPW {
  w_n : nat;
  w_done : list (nat * outcome);
  w_next : nat;
  w_hold : option nat;
  w_failed : bool;
  w_fwd : list nat
}.

Definition parw_init : parw := mkPW 0 [] 0 None false [].

Inductive wact := WDispatch | WComplete (j : nat) (o : outcome) | WWait | WSend (ok : bool).

Definition w_outcome (p : parw) (j : nat) : option outcome :=
  match find (fun x => fst x =? j) (w_done p) with Some (_, o) => Some o | None => None end.

Definition parw_step (W : nat) (p : parw) (a : wact) : parw :=
  match a with
  | WDispatch =>
      if w_n p - w_next p <? W
      then mkPW (S (w_n p)) (w_done p) (w_next p) (w_hold p) (w_failed p) (w_fwd p)
      else p
  | WComplete j o =>
      if (j <? w_n p) && (match w_outcome p j with None => true | Some _ => false end)
      then mkPW (w_n p) (w_done p ++ [(j, o)]) (w_next p) (w_hold p) (w_failed p) (w_fwd p)
      else p
  | WWait =>
      match w_hold p with
      | Some _ => p
      | None =>
          if w_next p <? w_n p then
            match w_outcome p (w_next p) with
            | None => p
            | Some OFail => mkPW (w_n p) (w_done p) (S (w_next p)) None true (w_fwd p)
            | Some ODone => mkPW (w_n p) (w_done p) (S (w_next p)) None (w_failed p) (w_fwd p)
            | Some OPass =>
                if w_failed p then mkPW (w_n p) (w_done p) (S (w_next p)) None true (w_fwd p)
                else mkPW (w_n p) (w_done p) (S (w_next p)) (Some (w_next p)) false (w_fwd p)
            end
          else p
      end
  | WSend ok =>
      match w_hold p with
      | Some j =>
          mkPW (w_n p) (w_done p) (w_next p) None (w_failed p) (if ok then w_fwd p ++ [j] else w_fwd p)
      | None => p
      end
  end.

Definition parw_run (W : nat) (acts : list wact) : parw := fold_left (parw_step W) acts parw_init.

Definition parw_inv (W : nat) (p : parw) : Prop :=
  w_next p <= w_n p /\ w_n p - w_next p <= W /\
  increasing (w_fwd p) /\
  (forall j, In j (w_fwd p) -> j < w_next p /\ w_outcome p j = Some OPass /\
                               match w_hold p with Some h => j < h | None => True end) /\
  (forall h, w_hold p = Some h -> h < w_next p /\ w_outcome p h = Some OPass).

Lemma w_outcome_complete p j o j' x :
  w_outcome p j' = Some x ->
  w_outcome (mkPW (w_n p) (w_done p ++ [(j, o)]) (w_next p) (w_hold p) (w_failed p) (w_fwd p)) j' = Some x.
Proof.
  unfold w_outcome. simpl. rewrite find_snoc.
  destruct (find (fun y => fst y =? j') (w_done p)) as [[a b]|]; [auto|discriminate].
Qed.

Lemma parw_step_inv W p a : parw_inv W p -> parw_inv W (parw_step W p a).
Proof.
  intros Hp. pose proof Hp as (H1 & H2 & H3 & H4 & H5). destruct a as [|j o| |ok]; cbn [parw_step].
  - destruct (w_n p - w_next p <? W) eqn:E; [|exact Hp].
    apply Nat.ltb_lt in E. unfold parw_inv; cbn [w_n w_next w_fwd w_hold].
    split; [lia|]. split; [lia|]. split; [exact H3|]. split; [exact H4|exact H5].
  - destruct ((j <? w_n p) && match w_outcome p j with None => true | Some _ => false end);
      [|exact Hp].
    unfold parw_inv; cbn [w_n w_next w_fwd w_hold].
    split; [exact H1|]. split; [exact H2|]. split; [exact H3|]. split.
    + intros j' Hj'. destruct (H4 j' Hj') as (A & B & C). split; [exact A|]. split; [|exact C].
      apply w_outcome_complete, B.
    + intros h Hh. destruct (H5 h Hh) as [A B]. split; [exact A|]. apply w_outcome_complete, B.
  - destruct (w_hold p) as [h|] eqn:Eh; [exact Hp|].
    destruct (w_next p <? w_n p) eqn:En; [|exact Hp].
    apply Nat.ltb_lt in En.
    assert (Hskip : forall fl, parw_inv W (mkPW (w_n p) (w_done p) (S (w_next p)) None fl (w_fwd p))).
    { intros fl. unfold parw_inv; cbn [w_n w_next w_fwd w_hold]. split; [lia|]. split; [lia|].
      split; [exact H3|]. split; [|intros h Hh; discriminate].
      intros j Hj. destruct (H4 j Hj) as (A & B & _). split; [lia|]. split; [exact B|exact I]. }
    destruct (w_outcome p (w_next p)) as [[| |]|] eqn:Eo;
      [|apply Hskip|apply Hskip|exact Hp].
    destruct (w_failed p); [apply Hskip|].
    unfold parw_inv; cbn [w_n w_next w_fwd w_hold]. split; [lia|]. split; [lia|].
    split; [exact H3|]. split.
    + intros j Hj. destruct (H4 j Hj) as (A & B & _). split; [lia|]. split; [exact B|exact A].
    + intros h Hh. injection Hh as <-. split; [lia|exact Eo].
  - destruct (w_hold p) as [h|] eqn:Eh; [|exact Hp].
    destruct (H5 h eq_refl) as [Hh1 Hh2].
    unfold parw_inv; cbn [w_n w_next w_fwd w_hold]. split; [exact H1|]. split; [exact H2|].
    destruct ok.
    + split; [apply increasing_snoc; [exact H3|]; intros a Ha; apply (H4 a Ha)|].
      split; [|intros h' Hh'; discriminate].
      intros j Hj. apply in_app_or in Hj as [Hj|[<-|[]]].
      * destruct (H4 j Hj) as (A & B & _). split; [exact A|]. split; [exact B|exact I].
      * split; [exact Hh1|]. split; [exact Hh2|exact I].
    + split; [exact H3|]. split; [|intros h' Hh'; discriminate].
      intros j Hj. destruct (H4 j Hj) as (A & B & _). split; [exact A|]. split; [exact B|exact I].
Qed.

Lemma parw_run_inv W acts : parw_inv W (parw_run W acts).
Proof.
  assert (G : forall acts p, parw_inv W p -> parw_inv W (fold_left (parw_step W) acts p)).
  { clear. induction acts as [|a acts IH]; intros p H; [exact H|]. simpl. apply IH, parw_step_inv, H. }
  apply G. unfold parw_inv, parw_init; cbn. split; [lia|]. split; [lia|]. split; [exact I|].
  split; [intros j []|intros h Hh; discriminate].
Qed.

(* back-pressure: however long the job at the head of the line takes, at most W jobs are
   dispatched and not yet collected *)
Theorem parallel_inflight_bounded W acts :
  w_n (parw_run W acts) - w_next (parw_run W acts) <= W.
Proof. apply (parw_run_inv W acts). Qed.

(* order: whatever completes in the middle of the queue while the coordinator is held up (in its
   wait or in its send), what is sent on is strictly increasing in dispatch order, and only jobs
   whose worker left the message open *)
Theorem parallel_bounded_preserves_order W acts :
  increasing (w_fwd (parw_run W acts)) /\
  forall j, In j (w_fwd (parw_run W acts)) ->
    j < w_n (parw_run W acts) /\ w_outcome (parw_run W acts) j = Some OPass.
Proof.
  destruct (parw_run_inv W acts) as (H1 & _ & H3 & H4 & _). split; [exact H3|].
  intros j Hj. destruct (H4 j Hj) as (A & B & _). split; [lia|exact B].
Qed.

(* per source: jobs are tagged with the record they carry; if the tags of every source arrive in
   read order (job i before job j, same source => smaller index), then every two records of one
   source leave in read order *)
Lemma increasing_nth l : increasing l ->
  forall i j a b, i < j -> nth_error l i = Some a -> nth_error l j = Some b -> a < b.
Proof.
  induction l as [|x l IH]; intros H i j a b Hij Ha Hb; [destruct i; discriminate|].
  destruct H as [Hx Hl]. destruct i as [|i]; destruct j as [|j]; try lia.
  - cbn in Ha, Hb. injection Ha as <-. apply Hx. eapply nth_error_In, Hb.
  - cbn in Ha, Hb. apply (IH Hl i j); [lia|exact Ha|exact Hb].
Qed.

Theorem parallel_per_source_order W acts (tag : nat -> nat * nat) :
  (forall i j, i < j -> fst (tag i) = fst (tag j) -> snd (tag i) < snd (tag j)) ->
  forall x y a b, x < y ->
    nth_error (w_fwd (parw_run W acts)) x = Some a ->
    nth_error (w_fwd (parw_run W acts)) y = Some b ->
    fst (tag a) = fst (tag b) -> snd (tag a) < snd (tag b).
Proof.
  intros Htag x y a b Hxy Ha Hb Hs. apply Htag; [|exact Hs].
  destruct (parallel_bounded_preserves_order W acts) as [Hinc _].
  eapply increasing_nth; eauto.
Qed.

(* the drain-and-release coordinator (take everything queued, let go of the jobs the worker already
   settled by moving the LAST queued job into their slot) does not have the property: queue
   [1 (settled); 2; 3] leaves as 3, 2 *)
Definition swap_remove_order (queue : list (nat * bool)) : list nat :=
  (fix go (fuel : nat) (q : list (nat * bool)) (i : nat) : list nat :=
     match fuel with
     | 0 => map fst q
     | S f =>
         match nth_error q i with
         | None => map fst q
         | Some (_, false) => go f q (S i)
         | Some (_, true) =>
             match rev q with
             | [] => []
             | lastj :: _ => go f (firstn i q ++ (if i <? length q - 1 then [lastj] else []) ++
                                   firstn (length q - 1 - S i) (skipn (S i) q)) i
             end
         end
     end) (S (length queue)) queue 0.

Theorem swap_remove_coordinator_refuted :
  exists queue, ~ increasing (swap_remove_order queue).
Proof.
  exists [(1, true); (2, false); (3, false)]. vm_compute. intros [H _]. specialize (H 2 (or_introl eq_refl)). lia.
Qed.
