(* The default (v1) engine as an interleaving transition system: N sources x M destinations, the
   ack path (DestinationAckerNode -> FanoutNode counter -> Message status -> SourceAckerNode
   tickets -> DLQ -> Source.Ack) and the part of the forward path the properties depend on.
   Definitions only.

   State (per record (s,k) = message k of source s)
     mst      status of the ORIGINAL message: Open, or the decision taken by the first
              Ack()/Nack() call (Message.ackNackOnce).  The handlers then run inside that call;
              the SourceAckerNode handler first waits for its ticket, so "decided" and "handled"
              are different instants.
     atfan    FanoutNode took the message and made one clone per branch
     rem      FanoutNode's remainingAcks for the message
     cst      status of the clone in branch d
     tick     tickets of SourceAckerNode s released so far = messages of s completely handled;
              tickets are enqueued in the order the node receives messages = read order
     fail1    SourceAckerNode.fail
     dlqw     the nack handler holding the ticket has a DLQ write outstanding
     inq/aq   branch d: clones between FanoutNode and DestinationNode d / in the queue of
              DestinationAckerNode d (FIFO)
     pq       destination plugin d: written, not yet confirmed (FIFO)

   Actions and the atomicity of the code they rely on
     VRd      SourceNode's fetch goroutine: Source.Read; messages enter SourceAckerNode in read
              order over an unbuffered channel (ticket k = emission index k).
     VGFilt   a ProcessorNode before the fan-out sets msg.filtered (single goroutine per node).
     VPNack   any node before the fan-out nacks the message it holds (processor error, send
              failed because the context is cancelled, ...): first Nack() decides.
     VFan     FanoutNode.Run takes the next message.  Messages of one source arrive in read
              order: every hop is an unbuffered channel between single goroutines and ParallelNode
              restores dispatch order (Parallel.v); messages nacked on the way are skipped
              (VSkip).  remainingAcks := M, one clone appended to every branch (with one branch
              the message itself is forwarded, which behaves like a single clone).
     VDFilt   a processor inside branch d filters the clone.
     VBNack   a node inside branch d nacks a clone it holds (not yet written).
     VWr      DestinationNode d (single goroutine) takes the next clone: a filtered one goes
              straight to the acker queue, any other is written first.  (A failing Write is
              modelled as the write followed by a rejection: the clone is nacked either way.)
     VCf      the destination plugin answers its oldest outstanding record.
     VDAck    DestinationAckerNode.worker (single goroutine) handles the head of its queue:
              filtered -> Ack; else the reply for exactly that position (bytes.Equal check)
              -> Ack or Nack.  VDTd: teardown nacks the head regardless.
              clone.Ack runs FanoutNode's handler: atomic.AddInt32(&remainingAcks,-1); zero ->
              msg.Ack(); else it waits for the original's decision (an already nacked original
              makes it return an error, see Fanout.v).  clone.Nack -> msg.Nack().
     VServeAck / VServeNackW / VServeRefuse / VServeSkip / VDlqCf
              SourceAckerNode's handlers run under semaphore.Simple in ticket order: only the
              message with ticket [tick] proceeds.  fail latch set -> nothing is forwarded.
              Nack: DLQHandlerNode.Nack (window may refuse: VServeRefuse) writes to the DLQ and,
              when that succeeded, Source.Ack.
     VStop    the source stops producing (graceful stop / cancellation).                       *)
From Verif Require Export Multi.Trace.

Inductive mstat := MOpen | MAcked | MNacked.
Inductive cstat := COpen | CAcked | CNacked.

Definition u1 {A} (f : nat -> A) (i : nat) (x : A) : nat -> A :=
  fun a => if a =? i then x else f a.
Definition u2 {A} (f : nat -> nat -> A) (i j : nat) (x : A) : nat -> nat -> A :=
  fun a b => if (a =? i) && (b =? j) then x else f a b.
Definition u3 {A} (f : nat -> nat -> nat -> A) (i j k : nat) (x : A) : nat -> nat -> nat -> A :=
  fun a b c => if (a =? i) && (b =? j) && (c =? k) then x else f a b c.

Record sys1 := mkS1 {
  hist1 : list event;                      (* newest first *)
  nrd1  : nat -> nat;
  stopped : bool;
  fwd1  : nat -> nat;                      (* s: records that left the path before the fan-out *)
  mst   : nat -> nat -> mstat;
  atfan : nat -> nat -> bool;
  rem   : nat -> nat -> nat;
  cst   : nat -> nat -> nat -> cstat;      (* d s k *)
  inq   : nat -> list (nat * nat);
  aq    : nat -> list (nat * nat);
  pq    : nat -> list (nat * nat);
  conf1 : nat -> nat -> nat -> option bool;
  wcur1 : nat -> nat -> nat;               (* d s: 1 + last index written *)
  gfl1  : nat -> nat -> bool;
  dfl1  : nat -> nat -> nat -> bool;
  tick  : nat -> nat;
  fail1 : nat -> bool;
  dlqw  : nat -> option nat;
  bug1  : bool                             (* msg.Ack() on a nacked original: the code panics *)
}.

Definition init1 : sys1 :=
  mkS1 [] (fun _ => 0) false (fun _ => 0) (fun _ _ => MOpen) (fun _ _ => false) (fun _ _ => 0)
       (fun _ _ _ => COpen) (fun _ => []) (fun _ => []) (fun _ => []) (fun _ _ _ => None)
       (fun _ _ => 0) (fun _ _ => false) (fun _ _ _ => false) (fun _ => 0) (fun _ => false)
       (fun _ => None) false.

Inductive act1 :=
| VRd (s n : nat)
| VStop
| VGFilt (s k : nat)
| VPNack (s k : nat)
| VFan (s : nat)
| VSkip (s : nat)
| VDFilt (d s k : nat)
| VBNack (d s k : nat)
| VWr (d : nat)
| VCf (d : nat) (ok : bool)
| VDAck (d : nat)
| VDTd (d : nat)
| VServeAck (s : nat)
| VServeSkip (s : nat)
| VServeNackW (s : nat)
| VServeRefuse (s : nat)
| VDlqCf (s : nat) (ok : bool).

Definition mst_eqb (a b : mstat) : bool :=
  match a, b with MOpen, MOpen | MAcked, MAcked | MNacked, MNacked => true | _, _ => false end.

(* is the clone of (s,k) in branch d a filtered message?  [keep]: does the flag survive
   FanoutNode (Message.Clone copies it, or there is a single branch and no clone is made) *)
Definition cfl (keep : bool) (st : sys1) (d s k : nat) : bool :=
  (gfl1 st s k && keep) || dfl1 st d s k.

Definition pair_eqb (p q : nat * nat) : bool := (fst p =? fst q) && (snd p =? snd q).

Fixpoint remove_pair (p : nat * nat) (l : list (nat * nat)) : list (nat * nat) :=
  match l with
  | [] => []
  | q :: r => if pair_eqb p q then r else q :: remove_pair p r
  end.

Definition mem_pair (p : nat * nat) (l : list (nat * nat)) : bool := existsb (pair_eqb p) l.

(* Message.Nack on the original: the first decision wins *)
Definition nack_orig (st : sys1) (s k : nat) : nat -> nat -> mstat :=
  match mst st s k with MOpen => u2 (mst st) s k MNacked | _ => mst st end.

(* clone.Ack(): the FanoutNode ack handler *)
Definition clone_ack (st : sys1) (d s k : nat) (aq' : nat -> list (nat * nat)) : sys1 :=
  let r := rem st s k - 1 in
  let zero := r =? 0 in
  mkS1 (hist1 st) (nrd1 st) (stopped st) (fwd1 st)
       (if zero then match mst st s k with MOpen => u2 (mst st) s k MAcked | _ => mst st end else mst st)
       (atfan st) (u2 (rem st) s k r) (u3 (cst st) d s k CAcked) (inq st) aq' (pq st) (conf1 st)
       (wcur1 st) (gfl1 st) (dfl1 st) (tick st) (fail1 st) (dlqw st)
       (bug1 st || (zero && negb (mst_eqb (mst st s k) MOpen))).

(* clone.Nack(): forwards to the original immediately *)
Definition clone_nack (st : sys1) (d s k : nat) (h : list event)
           (inq' aq' : nat -> list (nat * nat)) (wc : nat -> nat -> nat) : sys1 :=
  mkS1 h (nrd1 st) (stopped st) (fwd1 st) (nack_orig st s k) (atfan st) (rem st)
       (u3 (cst st) d s k CNacked) inq' aq' (pq st) (conf1 st) wc (gfl1 st) (dfl1 st)
       (tick st) (fail1 st) (dlqw st) (bug1 st).

Definition with_hist (st : sys1) (h : list event) : sys1 :=
  mkS1 h (nrd1 st) (stopped st) (fwd1 st) (mst st) (atfan st) (rem st) (cst st) (inq st) (aq st) (pq st)
       (conf1 st) (wcur1 st) (gfl1 st) (dfl1 st) (tick st) (fail1 st) (dlqw st) (bug1 st).

Definition with_serve (st : sys1) (h : list event) (tk : nat -> nat) (fl : nat -> bool)
           (dw : nat -> option nat) : sys1 :=
  mkS1 h (nrd1 st) (stopped st) (fwd1 st) (mst st) (atfan st) (rem st) (cst st) (inq st) (aq st) (pq st)
       (conf1 st) (wcur1 st) (gfl1 st) (dfl1 st) tk fl dw (bug1 st).

Definition step1 (N M : nat) (keep : bool) (st : sys1) (a : act1) : option sys1 :=
  match a with
  | VRd s n =>
      if (s <? N) && negb (stopped st) then
        Some (mkS1 (rev (map (Read s) (seq (nrd1 st s) n)) ++ hist1 st)
                   (u1 (nrd1 st) s (nrd1 st s + n)) (stopped st) (fwd1 st) (mst st) (atfan st) (rem st)
                   (cst st) (inq st) (aq st) (pq st) (conf1 st) (wcur1 st) (gfl1 st) (dfl1 st)
                   (tick st) (fail1 st) (dlqw st) (bug1 st))
      else None
  | VStop =>
      Some (mkS1 (hist1 st) (nrd1 st) true (fwd1 st) (mst st) (atfan st) (rem st) (cst st) (inq st)
                 (aq st) (pq st) (conf1 st) (wcur1 st) (gfl1 st) (dfl1 st) (tick st) (fail1 st)
                 (dlqw st) (bug1 st))
  | VGFilt s k =>
      if (s <? N) && (k <? nrd1 st s) && (fwd1 st s <=? k) && mst_eqb (mst st s k) MOpen then
        Some (mkS1 (Filt None s k :: hist1 st) (nrd1 st) (stopped st) (fwd1 st) (mst st) (atfan st)
                   (rem st) (cst st) (inq st) (aq st) (pq st) (conf1 st) (wcur1 st)
                   (u2 (gfl1 st) s k true) (dfl1 st) (tick st) (fail1 st) (dlqw st) (bug1 st))
      else None
  | VPNack s k =>
      if (s <? N) && (k <? nrd1 st s) && (fwd1 st s <=? k) && mst_eqb (mst st s k) MOpen then
        Some (mkS1 (hist1 st) (nrd1 st) (stopped st) (fwd1 st) (u2 (mst st) s k MNacked) (atfan st)
                   (rem st) (cst st) (inq st) (aq st) (pq st) (conf1 st) (wcur1 st) (gfl1 st)
                   (dfl1 st) (tick st) (fail1 st) (dlqw st) (bug1 st))
      else None
  | VFan s =>
      let k := fwd1 st s in
      if (s <? N) && (k <? nrd1 st s) && mst_eqb (mst st s k) MOpen then
        Some (mkS1 (hist1 st) (nrd1 st) (stopped st) (u1 (fwd1 st) s (S k)) (mst st)
                   (u2 (atfan st) s k true) (u2 (rem st) s k M) (cst st)
                   (fun d => if d <? M then inq st d ++ [(s, k)] else inq st d)
                   (aq st) (pq st) (conf1 st) (wcur1 st) (gfl1 st) (dfl1 st) (tick st) (fail1 st)
                   (dlqw st) (bug1 st))
      else None
  | VSkip s =>
      let k := fwd1 st s in
      if (s <? N) && (k <? nrd1 st s) && mst_eqb (mst st s k) MNacked then
        Some (mkS1 (hist1 st) (nrd1 st) (stopped st) (u1 (fwd1 st) s (S k)) (mst st) (atfan st) (rem st)
                   (cst st) (inq st) (aq st) (pq st) (conf1 st) (wcur1 st) (gfl1 st) (dfl1 st)
                   (tick st) (fail1 st) (dlqw st) (bug1 st))
      else None
  | VDFilt d s k =>
      if (d <? M) && (s <? N) && (k <? nrd1 st s) && mem_pair (s, k) (inq st d) then
        Some (mkS1 (Filt (Some d) s k :: hist1 st) (nrd1 st) (stopped st) (fwd1 st) (mst st) (atfan st)
                   (rem st) (cst st) (inq st) (aq st) (pq st) (conf1 st) (wcur1 st) (gfl1 st)
                   (u3 (dfl1 st) d s k true) (tick st) (fail1 st) (dlqw st) (bug1 st))
      else None
  | VBNack d s k =>
      if mem_pair (s, k) (inq st d) then
        Some (clone_nack st d s k (hist1 st) (u1 (inq st) d (remove_pair (s, k) (inq st d))) (aq st)
                         (wcur1 st))
      else None
  | VWr d =>
      match inq st d with
      | (s, k) :: rest =>
          if cfl keep st d s k then
            Some (mkS1 (hist1 st) (nrd1 st) (stopped st) (fwd1 st) (mst st) (atfan st) (rem st) (cst st)
                       (u1 (inq st) d rest) (u1 (aq st) d (aq st d ++ [(s, k)])) (pq st) (conf1 st)
                       (wcur1 st) (gfl1 st) (dfl1 st) (tick st) (fail1 st) (dlqw st) (bug1 st))
          else
            Some (mkS1 (DestWrite d s k :: hist1 st) (nrd1 st) (stopped st) (fwd1 st) (mst st) (atfan st)
                       (rem st) (cst st) (u1 (inq st) d rest) (u1 (aq st) d (aq st d ++ [(s, k)]))
                       (u1 (pq st) d (pq st d ++ [(s, k)])) (conf1 st) (u2 (wcur1 st) d s (S k))
                       (gfl1 st) (dfl1 st) (tick st) (fail1 st) (dlqw st) (bug1 st))
      | [] => None
      end
  | VCf d ok =>
      match pq st d with
      | (s, k) :: rest =>
          Some (mkS1 (DestConfirm d s k ok :: hist1 st) (nrd1 st) (stopped st) (fwd1 st) (mst st) (atfan st)
                     (rem st) (cst st) (inq st) (aq st) (u1 (pq st) d rest) (u3 (conf1 st) d s k (Some ok))
                     (wcur1 st) (gfl1 st) (dfl1 st) (tick st) (fail1 st) (dlqw st) (bug1 st))
      | [] => None
      end
  | VDAck d =>
      match aq st d with
      | (s, k) :: rest =>
          if cfl keep st d s k then Some (clone_ack st d s k (u1 (aq st) d rest))
          else match conf1 st d s k with
               | Some true => Some (clone_ack st d s k (u1 (aq st) d rest))
               | Some false => Some (clone_nack st d s k (hist1 st) (inq st) (u1 (aq st) d rest) (wcur1 st))
               | None => None
               end
      | [] => None
      end
  | VDTd d =>
      match aq st d with
      | (s, k) :: rest => Some (clone_nack st d s k (hist1 st) (inq st) (u1 (aq st) d rest) (wcur1 st))
      | [] => None
      end
  | VServeAck s =>
      let k := tick st s in
      if mst_eqb (mst st s k) MAcked && negb (fail1 st s) &&
         (match dlqw st s with None => true | Some _ => false end)
      then Some (with_serve st (EngineAck s [k] :: hist1 st) (u1 (tick st) s (S k)) (fail1 st) (dlqw st))
      else None
  | VServeSkip s =>
      let k := tick st s in
      if negb (mst_eqb (mst st s k) MOpen) && fail1 st s &&
         (match dlqw st s with None => true | Some _ => false end)
      then Some (with_serve st (hist1 st) (u1 (tick st) s (S k)) (fail1 st) (dlqw st))
      else None
  | VServeNackW s =>
      let k := tick st s in
      if mst_eqb (mst st s k) MNacked && negb (fail1 st s) &&
         (match dlqw st s with None => true | Some _ => false end)
      then Some (with_serve st (DlqWrite s k :: hist1 st) (tick st) (fail1 st) (u1 (dlqw st) s (Some k)))
      else None
  | VServeRefuse s =>
      let k := tick st s in
      if mst_eqb (mst st s k) MNacked && negb (fail1 st s) &&
         (match dlqw st s with None => true | Some _ => false end)
      then Some (with_serve st (hist1 st) (u1 (tick st) s (S k)) (u1 (fail1 st) s true) (dlqw st))
      else None
  | VDlqCf s ok =>
      match dlqw st s with
      | Some k =>
          if ok then
            Some (with_serve st (EngineAck s [k] :: DlqConfirm s k true :: hist1 st)
                             (u1 (tick st) s (S k)) (fail1 st) (u1 (dlqw st) s None))
          else
            Some (with_serve st (DlqConfirm s k false :: hist1 st)
                             (u1 (tick st) s (S k)) (u1 (fail1 st) s true) (u1 (dlqw st) s None))
      | None => None
      end
  end.

Definition step1' (N M : nat) (keep : bool) (st : sys1) (a : act1) : sys1 :=
  match step1 N M keep st a with Some st' => st' | None => st end.

Definition run1 (N M : nat) (keep : bool) (acts : list act1) : sys1 :=
  fold_left (step1' N M keep) acts init1.

Definition trace1 (N M : nat) (keep : bool) (acts : list act1) : list event :=
  rev (hist1 (run1 N M keep acts)).

(* [keep] of a topology: Message.Clone copies the filtered flag, or there is one branch *)
Definition keep_of (M : nat) (ckf : bool) : bool := ckf || (M <=? 1).
