(* Every schedule of the v1 system produces an event log the acceptor accepts (for the topology
   with the same N, M and clone flag); hence every schedule satisfies C01 and C04, and C05 when
   the filtered flag survives the fan-out. *)
From Verif Require Import Multi.Trace Multi.TraceProofs Multi.Accept Multi.AcceptProofs
  Multi.HistLemmas Stream.SysV1.

Ltac splits := repeat match goal with |- _ /\ _ => split end.
Ltac nil_in := let e := fresh in let H := fresh in intros e H; contradiction H.

(* ---------- function updates ---------- *)
Lemma u1_eq {A} (f : nat -> A) i x : u1 f i x i = x.
Proof. unfold u1. rewrite Nat.eqb_refl. reflexivity. Qed.
Lemma u1_neq {A} (f : nat -> A) i j x : j <> i -> u1 f i x j = f j.
Proof. unfold u1. intros H. destruct (Nat.eqb_spec j i); [contradiction|reflexivity]. Qed.
Lemma u2_eq {A} (f : nat -> nat -> A) i j x : u2 f i j x i j = x.
Proof. unfold u2. rewrite !Nat.eqb_refl. reflexivity. Qed.
Lemma u2_neq {A} (f : nat -> nat -> A) i j a b x : (a, b) <> (i, j) -> u2 f i j x a b = f a b.
Proof.
  unfold u2. intros H. destruct (Nat.eqb_spec a i); [|reflexivity].
  destruct (Nat.eqb_spec b j); [subst; contradiction|reflexivity].
Qed.
Lemma u3_eq {A} (f : nat -> nat -> nat -> A) i j k x : u3 f i j k x i j k = x.
Proof. unfold u3. rewrite !Nat.eqb_refl. reflexivity. Qed.
Lemma u3_neq {A} (f : nat -> nat -> nat -> A) i j k a b c x :
  (a, b, c) <> (i, j, k) -> u3 f i j k x a b c = f a b c.
Proof.
  unfold u3. intros H. destruct (Nat.eqb_spec a i); [|reflexivity].
  destruct (Nat.eqb_spec b j); [|reflexivity].
  destruct (Nat.eqb_spec c k); [subst; contradiction|reflexivity].
Qed.

Lemma mst_eqb_eq a b : mst_eqb a b = true <-> a = b.
Proof. destruct a, b; simpl; split; congruence. Qed.

Lemma pair_eqb_eq p q : pair_eqb p q = true <-> p = q.
Proof.
  destruct p as [a b], q as [c d]. unfold pair_eqb. simpl.
  rewrite andb_true_iff, !Nat.eqb_eq. split; [intros [-> ->]; reflexivity|intros H; injection H; auto].
Qed.

Lemma mem_pair_In p l : mem_pair p l = true <-> In p l.
Proof.
  unfold mem_pair. rewrite existsb_exists. split.
  - intros [q [Hin Hq]]. apply pair_eqb_eq in Hq. subst. exact Hin.
  - intros H. exists p. split; [exact H|apply pair_eqb_eq; reflexivity].
Qed.

Lemma In_remove_pair p q l : In q (remove_pair p l) -> In q l.
Proof.
  induction l as [|a l IH]; simpl; [auto|]. destruct (pair_eqb p a); [auto|].
  intros [H|H]; auto.
Qed.

Lemma nat_list_eqb_refl_1 (k : nat) : nat_list_eqb [k] [k] = true.
Proof. simpl. rewrite Nat.eqb_refl. reflexivity. Qed.

(* ---------- per-source increasing pipelines ---------- *)
Fixpoint inc_src (l : list (nat * nat)) : Prop :=
  match l with
  | [] => True
  | (s, k) :: r => (forall k', In (s, k') r -> k < k') /\ inc_src r
  end.

Lemma inc_src_remove p l : inc_src l -> inc_src (remove_pair p l).
Proof.
  induction l as [|[s k] l IH]; simpl; [auto|]. intros [H1 H2].
  destruct (pair_eqb p (s, k)); [exact H2|]. simpl. split; [|apply IH, H2].
  intros k' Hin. apply H1. eapply In_remove_pair, Hin.
Qed.

Lemma inc_src_app_remove p l1 l2 : inc_src (l1 ++ l2) -> inc_src (l1 ++ remove_pair p l2).
Proof.
  induction l1 as [|[s k] l1 IH]; simpl; [apply inc_src_remove|].
  intros [H1 H2]. split; [|apply IH, H2].
  intros k' Hin. apply H1. apply in_app_or in Hin as [Hin|Hin]; apply in_or_app; [left; exact Hin|].
  right. eapply In_remove_pair, Hin.
Qed.

Lemma inc_src_snoc l s k : inc_src l -> (forall k', In (s, k') l -> k' < k) -> inc_src (l ++ [(s, k)]).
Proof.
  induction l as [|[s0 k0] l IH]; simpl; intros H Hlt; [split; [intros k' []|exact I]|].
  destruct H as [H1 H2]. split.
  - intros k' Hin. apply in_app_or in Hin as [Hin|[Heq|[]]]; [apply H1, Hin|].
    injection Heq as <- <-. apply Hlt. left. reflexivity.
  - apply IH; [exact H2|]. intros k' Hin. apply Hlt. right. exact Hin.
Qed.

Lemma inc_src_tail p l : inc_src (p :: l) -> inc_src l.
Proof. destruct p. simpl. tauto. Qed.

Lemma inc_src_NoDup l : inc_src l -> NoDup l.
Proof.
  induction l as [|[s k] l IH]; simpl; intros H; [constructor|]. destruct H as [H1 H2].
  constructor; [|apply IH, H2]. intros Hin. specialize (H1 k Hin). lia.
Qed.

Lemma inc_src_head_lt s k l k' : inc_src ((s, k) :: l) -> In (s, k') l -> k < k'.
Proof. simpl. intros [H _] Hin. apply H, Hin. Qed.

Lemma inc_src_remove_mid l1 p l2 : inc_src (l1 ++ p :: l2) -> inc_src (l1 ++ l2).
Proof.
  induction l1 as [|[s k] l1 IH]; simpl; [destruct p; simpl; tauto|].
  intros [H1 H2]. split; [|apply IH, H2]. intros k' Hin. apply H1.
  apply in_app_or in Hin as [Hin|Hin]; apply in_or_app; [left; exact Hin|right; right; exact Hin].
Qed.

Lemma NoDup_mid_notin {A} (l1 : list A) p l2 : NoDup (l1 ++ p :: l2) -> ~ In p (l1 ++ l2).
Proof. intros H. apply NoDup_remove_2 in H. exact H. Qed.

Lemma remove_pair_split p l : In p l -> exists l1 l2, l = l1 ++ p :: l2 /\ remove_pair p l = l1 ++ l2.
Proof.
  induction l as [|q l IH]; intros Hin; [contradiction|]. simpl.
  destruct (pair_eqb p q) eqn:E.
  - apply pair_eqb_eq in E. subst q. exists [], l. auto.
  - destruct Hin as [->|Hin]; [rewrite (proj2 (pair_eqb_eq p p) eq_refl) in E; discriminate|].
    destruct (IH Hin) as [l1 [l2 [E1 E2]]]. exists (q :: l1), l2. simpl. rewrite <- E1, E2. auto.
Qed.

Lemma inc_src_suffix l1 l2 : inc_src (l1 ++ l2) -> inc_src l2.
Proof. induction l1 as [|[s k] l1 IH]; simpl; [auto|]. intros [_ H]. apply IH, H. Qed.

Lemma NoDup_snoc {A} (l : list A) x : NoDup l -> ~ In x l -> NoDup (l ++ [x]).
Proof.
  induction l as [|a l IH]; intros Hnd Hni; simpl; [constructor; [intros []|constructor]|].
  inversion Hnd as [|? ? Ha Hl]; subst. constructor.
  - intros Hin. apply in_app_or in Hin as [Hin|[->|[]]]; [contradiction|]. apply Hni. left. reflexivity.
  - apply IH; [exact Hl|]. intros Hin. apply Hni. right. exact Hin.
Qed.

(* ---------- counting acked clones ---------- *)
Definition is_acked (c : cstat) : bool := match c with CAcked => true | _ => false end.

Definition cnt_acked (M : nat) (st : sys1) (s k : nat) : nat :=
  length (filter (fun d => is_acked (cst st d s k)) (seq 0 M)).

Lemma filter_length_le {A} (p : A -> bool) l : length (filter p l) <= length l.
Proof. induction l as [|a l IH]; simpl; [lia|]. destruct (p a); simpl; lia. Qed.

Lemma filter_ext_in {A} (p q : A -> bool) l : (forall x, In x l -> p x = q x) -> filter p l = filter q l.
Proof.
  induction l as [|a l IH]; intros H; [reflexivity|]. simpl.
  rewrite (H a (or_introl eq_refl)), IH; [reflexivity|]. intros x Hx. apply H. right. exact Hx.
Qed.

(* flipping one position (present once) from false to true adds one *)
Lemma filter_flip (p q : nat -> bool) l d :
  NoDup l -> In d l -> p d = false -> q d = true -> (forall x, x <> d -> q x = p x) ->
  length (filter q l) = S (length (filter p l)).
Proof.
  induction l as [|a l IH]; intros Hnd Hin Hp Hq Hoth; [contradiction|].
  inversion Hnd as [|? ? Hni Hnd']; subst. simpl. destruct Hin as [->|Hin].
  - rewrite Hp, Hq. simpl. f_equal. f_equal. apply filter_ext_in.
    intros x Hx. apply Hoth. intros ->. contradiction.
  - assert (a <> d) by (intros ->; contradiction). rewrite (Hoth a H).
    destruct (p a); simpl; rewrite (IH Hnd' Hin Hp Hq Hoth); reflexivity.
Qed.

Lemma filter_full (p : nat -> bool) l : length (filter p l) = length l -> forall x, In x l -> p x = true.
Proof.
  induction l as [|a l IH]; intros H x Hx; [contradiction|]. simpl in H.
  destruct (p a) eqn:E.
  - simpl in H. destruct Hx as [->|Hx]; [exact E|]. apply IH; [lia|exact Hx].
  - pose proof (filter_length_le p l). simpl in H. lia.
Qed.

Lemma filter_not_full (p : nat -> bool) l d : In d l -> p d = false -> length (filter p l) < length l.
Proof.
  induction l as [|a l IH]; intros Hin Hp; [contradiction|]. simpl. destruct Hin as [->|Hin].
  - rewrite Hp. pose proof (filter_length_le p l). lia.
  - specialize (IH Hin Hp). destruct (p a); simpl; lia.
Qed.

(* ---------- history ---------- *)
Definition hjust (d s k : nat) (pre : list event) : bool :=
  existsb (is_filt None s k) pre || existsb (is_filt (Some d) s k) pre || existsb (is_conf_ok d s k) pre.

Lemma existsb_mono {A} (p : A -> bool) l pre : existsb p pre = true -> existsb p (l ++ pre) = true.
Proof. intros H. rewrite existsb_app, H. apply orb_true_r. Qed.

Lemma hjust_mono d s k l pre : hjust d s k pre = true -> hjust d s k (l ++ pre) = true.
Proof.
  unfold hjust. rewrite !orb_true_iff. intros [[H|H]|H]; [left; left|left; right|right];
    apply existsb_mono, H.
Qed.

Lemma dlq_state_cons s k e pre :
  dlq_state s k (e :: pre) =
  if is_dlq_ev s k e
  then match e with DlqWrite _ _ => DPending | DlqConfirm _ _ true => DOk | DlqConfirm _ _ false => DErr
                  | _ => DNone end
  else dlq_state s k pre.
Proof.
  unfold dlq_state. simpl. destruct (is_dlq_ev s k e) eqn:E; [|reflexivity].
  destruct e; try discriminate; reflexivity.
Qed.

Definition is_dlq_src (s : nat) (e : event) : bool :=
  match e with DlqWrite s' _ | DlqConfirm s' _ _ => s' =? s | _ => false end.

Lemma dlq_state_frame s k l pre :
  (forall e, In e l -> is_dlq_src s e = false) -> dlq_state s k (l ++ pre) = dlq_state s k pre.
Proof.
  intros H. unfold dlq_state. rewrite find_app_none; [reflexivity|].
  intros e He. specialize (H e He). destruct e; simpl in *; try reflexivity;
    rewrite Nat.eqb_sym, H; reflexivity.
Qed.

Lemma latch_frame s l pre :
  (forall e, In e l -> is_dlq_src s e = false) -> latch s (l ++ pre) = latch s pre.
Proof.
  intros H. unfold latch. apply existsb_app_false. intros e He. specialize (H e He).
  destruct e as [| | | | |s' k' ok|]; simpl in *; try reflexivity. destruct ok; [reflexivity|].
  rewrite Nat.eqb_sym. exact H.
Qed.

(* ---------- the invariant, in three bundles ---------- *)
Section Inv1.
Variables N M : nat.
Variable ckf : bool.
Hypothesis HM : 1 <= M.
Let keep := keep_of M ckf.
Let t := mkTopo false N M ckf.

(* what the log says about reads, filters, writes and confirmations *)
Record Hst (st : sys1) : Prop := {
  H_rd : forall s, nreads s (hist1 st) = nrd1 st s;
  H_gfl : forall s k, existsb (is_filt None s k) (hist1 st) = gfl1 st s k;
  H_dfl : forall d s k, existsb (is_filt (Some d) s k) (hist1 st) = dfl1 st d s k;
  H_wcur : forall d s j, last_write d s (hist1 st) = Some j -> j < wcur1 st d s;
  H_cw : forall d s k, existsb (is_conf_any d s k) (hist1 st) = true -> k < wcur1 st d s;
  H_pq : forall d, NoDup (pq st d) /\
         forall s k, In (s, k) (pq st d) ->
           existsb (is_write_k d s k) (hist1 st) = true /\
           existsb (is_conf_any d s k) (hist1 st) = false /\ k < wcur1 st d s;
  H_conf : forall d s k, conf1 st d s k = Some true -> existsb (is_conf_ok d s k) (hist1 st) = true
}.

(* SourceAckerNode: tickets, fail latch, DLQ *)
Record Sst (st : sys1) : Prop := {
  S_tick : forall s, tick st s <= nrd1 st s;
  S_handled : forall s k, k < tick st s -> mst st s k <> MOpen;
  S_nacked_le : forall s, nacked s (hist1 st) <= tick st s;
  S_nacked_eq : forall s, fail1 st s = false -> nacked s (hist1 st) = tick st s;
  S_latch : forall s, latch s (hist1 st) = true -> fail1 st s = true;
  S_dec : forall s k, mst st s k <> MOpen -> k < nrd1 st s /\ s < N;
  S_dlq : forall s k, tick st s <= k ->
          dlq_state s k (hist1 st) =
          match dlqw st s with Some k' => if k =? k' then DPending else DNone | None => DNone end;
  S_dlqw : forall s k, dlqw st s = Some k ->
           k = tick st s /\ mst st s k = MNacked /\ fail1 st s = false
}.

(* FanoutNode counters, clones and the branch pipelines *)
Record Fst (st : sys1) : Prop := {
  F_fwd : forall s, fwd1 st s <= nrd1 st s;
  F_atfan : forall s k, atfan st s k = true -> k < fwd1 st s /\ s < N;
  F_cnt : forall s k, atfan st s k = true -> rem st s k + cnt_acked M st s k = M;
  F_acked : forall s k, mst st s k = MAcked -> atfan st s k = true /\ rem st s k = 0;
  F_noclone : forall s k, atfan st s k = false -> forall d, cst st d s k = COpen;
  F_nack : forall s k, atfan st s k = true -> mst st s k = MNacked ->
           exists d, d < M /\ cst st d s k = CNacked;
  F_cack : forall d s k, cst st d s k = CAcked -> hjust d s k (hist1 st) = true;
  F_pipe : forall d, inc_src (aq st d ++ inq st d) /\
           forall s k, In (s, k) (aq st d ++ inq st d) ->
             cst st d s k = COpen /\ atfan st s k = true /\ d < M;
  F_inq : forall d s k, In (s, k) (inq st d) -> wcur1 st d s <= k;
  F_wcur : forall d s, wcur1 st d s <= fwd1 st s;
  F_bug : bug1 st = false
}.

Definition Inv1 (st : sys1) : Prop := Hst st /\ Sst st /\ Fst st.

Lemma Inv1_init : Inv1 init1.
Proof.
  split; [|split]; constructor; simpl; auto; try discriminate; try lia;
    try (intros; split; [constructor|intros ? ? []]; fail); try congruence.
Qed.

Definition Good1 (st st' : sys1) : Prop :=
  Inv1 st' /\ exists em, hist1 st' = rev em ++ hist1 st /\ accepts_from t (hist1 st) em = true.

(* no DLQ / ack event: the SourceAckerNode's view of the log is unchanged *)
Definition quiet (e : event) : bool :=
  match e with DlqWrite _ _ | DlqConfirm _ _ _ | EngineAck _ _ => false | _ => true end.

Lemma nacked_quiet s l : (forall e, In e l -> quiet e = true) -> nacked s l = 0.
Proof.
  induction l as [|e l IH]; intros H; [reflexivity|].
  rewrite nacked_cons, IH by (intros; apply H; right; assumption).
  specialize (H e (or_introl eq_refl)). destruct e; try discriminate; reflexivity.
Qed.

Lemma quiet_not_dlq s l : (forall e, In e l -> quiet e = true) -> forall e, In e l -> is_dlq_src s e = false.
Proof. intros H e He. specialize (H e He). destruct e; try discriminate; reflexivity. Qed.

(* Sst is kept by a step that logs only quiet events, leaves tick/fail/dlqw alone and only
   turns Open messages (already read) into decided ones *)
Lemma Sst_frame st st' l :
  Sst st -> hist1 st' = l ++ hist1 st -> (forall e, In e l -> quiet e = true) ->
  tick st' = tick st -> fail1 st' = fail1 st -> dlqw st' = dlqw st ->
  (forall s, nrd1 st s <= nrd1 st' s) ->
  (forall s k, mst st s k <> MOpen -> mst st' s k = mst st s k) ->
  (forall s k, mst st' s k <> MOpen -> k < nrd1 st' s /\ s < N) ->
  Sst st'.
Proof.
  intros [S1 S2 S3 S4 S5 S6 S7 S8] Hh Hq Ht Hf Hd Hn Hm1 Hm2.
  constructor; rewrite ?Hh, ?Ht, ?Hf, ?Hd.
  - intros s. specialize (S1 s). specialize (Hn s). lia.
  - intros s k Hk. rewrite (Hm1 s k (S2 s k Hk)). apply S2, Hk.
  - intros s. rewrite nacked_app, nacked_quiet by exact Hq. apply S3.
  - intros s Hfl. rewrite nacked_app, nacked_quiet by exact Hq. apply S4, Hfl.
  - intros s. rewrite latch_frame by (apply quiet_not_dlq, Hq). apply S5.
  - exact Hm2.
  - intros s k Hk. rewrite dlq_state_frame by (apply quiet_not_dlq, Hq). apply S7, Hk.
  - intros s k Hk. destruct (S8 s k Hk) as (E1 & E2 & E3). splits; auto.
    rewrite Hm1; [exact E2|congruence].
Qed.

Definition engine_ev (e : event) : bool := negb (quiet e).

Lemma nreads_engine s l : (forall e, In e l -> engine_ev e = true) -> nreads s l = 0.
Proof.
  induction l as [|e l IH]; intros Hl; [reflexivity|].
  rewrite nreads_cons, IH by (intros; apply Hl; right; assumption).
  specialize (Hl e (or_introl eq_refl)). destruct e; try discriminate; reflexivity.
Qed.

(* Hst is kept by a step that logs only DLQ / ack events and leaves its fields alone *)
Lemma Hst_frame st st' l :
  Hst st -> hist1 st' = l ++ hist1 st -> (forall e, In e l -> engine_ev e = true) ->
  nrd1 st' = nrd1 st -> gfl1 st' = gfl1 st -> dfl1 st' = dfl1 st -> wcur1 st' = wcur1 st ->
  pq st' = pq st -> conf1 st' = conf1 st -> Hst st'.
Proof.
  intros [H1 H2 H3 H4 H5 H6 H7] Hh Hl Hn Hg Hd Hw Hq Hc.
  assert (Hex : forall p : event -> bool, (forall e, engine_ev e = true -> p e = false) ->
                existsb p (l ++ hist1 st) = existsb p (hist1 st)).
  { intros p Hpe. apply existsb_app_false. intros e He. apply Hpe, Hl, He. }
  constructor; rewrite ?Hh, ?Hn, ?Hg, ?Hd, ?Hw, ?Hq, ?Hc.
  - intros s. rewrite nreads_app, H1, nreads_engine by exact Hl. reflexivity.
  - intros s k. rewrite Hex; [apply H2|]. intros e He. destruct e; try discriminate; reflexivity.
  - intros d s k. rewrite Hex; [apply H3|]. intros e He. destruct e; try discriminate; reflexivity.
  - intros d s j. unfold last_write. rewrite find_app_none; [apply H4|].
    intros e He. specialize (Hl e He). destruct e; try discriminate; reflexivity.
  - intros d s k. rewrite Hex; [apply H5|]. intros e He. destruct e; try discriminate; reflexivity.
  - intros d. destruct (H6 d) as [Hnd Hent]. split; [exact Hnd|]. intros s k Hin.
    destruct (Hent s k Hin) as (E1 & E2 & E3).
    rewrite !Hex; [auto| |]; intros e He; destruct e; try discriminate; reflexivity.
  - intros d s k Hx. apply existsb_mono, H7, Hx.
Qed.

(* Fst is kept by a step that only extends the log and the number of records read *)
Lemma Fst_frame st st' l :
  Fst st -> hist1 st' = l ++ hist1 st -> (forall s, nrd1 st s <= nrd1 st' s) ->
  fwd1 st' = fwd1 st -> mst st' = mst st -> atfan st' = atfan st -> rem st' = rem st ->
  cst st' = cst st -> inq st' = inq st -> aq st' = aq st -> wcur1 st' = wcur1 st ->
  bug1 st' = bug1 st -> Fst st'.
Proof.
  intros [F1 F2 F3 F4 F5 F6 F7 F8 F9 F9' F10] Hh Hn Hf Hm Ha Hr Hc Hi Hq Hw Hb.
  constructor; unfold cnt_acked in *; rewrite ?Hh, ?Hf, ?Hm, ?Ha, ?Hr, ?Hc, ?Hi, ?Hq, ?Hw, ?Hb; auto.
  - intros s. specialize (F1 s). specialize (Hn s). lia.
  - intros d s k Hx. apply hjust_mono, F7, Hx.
Qed.

Lemma good1_silent st st' : Inv1 st' -> hist1 st' = hist1 st -> Good1 st st'.
Proof. intros HI Hh. split; [exact HI|]. exists []. split; [exact Hh|reflexivity]. Qed.

Lemma good1_event st st' e :
  Inv1 st' -> hist1 st' = e :: hist1 st -> accept_ev t (hist1 st) e = true -> Good1 st st'.
Proof.
  intros HI Hh Ha. split; [exact HI|]. exists [e]. split; [exact Hh|]. simpl. rewrite Ha. reflexivity.
Qed.

Lemma Hst_same st st' :
  Hst st -> hist1 st' = hist1 st -> nrd1 st' = nrd1 st -> gfl1 st' = gfl1 st -> dfl1 st' = dfl1 st ->
  wcur1 st' = wcur1 st -> pq st' = pq st -> conf1 st' = conf1 st -> Hst st'.
Proof. intros H Hh. apply (Hst_frame st st' []); auto. Qed.

Lemma step1_VStop st st' : Inv1 st -> step1 N M keep st VStop = Some st' -> Good1 st st'.
Proof.
  intros (HH & HS & HF) H. cbn [step1] in H. injection H as <-.
  apply good1_silent; [|reflexivity]. split; [|split].
  - apply (Hst_same st); auto.
  - eapply (Sst_frame st _ [] HS); simpl; auto; try nil_in; try apply (S_dec st HS).
  - eapply (Fst_frame st _ [] HF); simpl; auto.
Qed.

Lemma accepts_reads1 s : s < N -> forall n pre a, nreads s pre = a ->
  accepts_from t pre (map (Read s) (seq a n)) = true.
Proof.
  intros Hs. induction n as [|n IH]; intros pre a Ha; [reflexivity|].
  simpl. rewrite Ha, Nat.eqb_refl.
  replace (s <? N) with true by (symmetry; apply Nat.ltb_lt; exact Hs). simpl.
  apply IH. rewrite nreads_cons, Nat.eqb_refl, Ha. reflexivity.
Qed.

Lemma step1_VRd st s n st' : Inv1 st -> step1 N M keep st (VRd s n) = Some st' -> Good1 st st'.
Proof.
  intros (HH & HS & HF) H. cbn [step1] in H.
  destruct ((s <? N) && negb (stopped st)) eqn:Eg; [|discriminate]. injection H as <-.
  apply andb_prop in Eg as [E1 _]. apply Nat.ltb_lt in E1.
  assert (Hq : forall e, In e (rev (map (Read s) (seq (nrd1 st s) n))) -> quiet e = true).
  { intros x Hx. apply in_rev_map_read in Hx. destruct Hx as [? [-> _]]. reflexivity. }
  assert (Hn : forall s0, nrd1 st s0 <= u1 (nrd1 st) s (nrd1 st s + n) s0).
  { intros s0. unfold u1. destruct (Nat.eqb_spec s0 s) as [->|]; lia. }
  split; [split; [|split]|].
  - destruct HH as [H1 H2 H3 H4 H5 H6 H7]. constructor; simpl.
    + intros s0. rewrite nreads_app, nreads_reads, H1. unfold u1.
      rewrite (Nat.eqb_sym s0 s). destruct (Nat.eqb_spec s s0); [subst; lia|lia].
    + intros s0 k0. rewrite <- H2. apply existsb_app_false.
      intros x Hx. apply in_rev_map_read in Hx. destruct Hx as [? [-> _]]. reflexivity.
    + intros d0 s0 k0. rewrite <- H3. apply existsb_app_false.
      intros x Hx. apply in_rev_map_read in Hx. destruct Hx as [? [-> _]]. reflexivity.
    + intros d0 s0 j. unfold last_write. rewrite find_app_none; [apply H4|].
      intros x Hx. apply in_rev_map_read in Hx. destruct Hx as [? [-> _]]. reflexivity.
    + intros d0 s0 k0. rewrite existsb_app_false; [apply H5|].
      intros x Hx. apply in_rev_map_read in Hx. destruct Hx as [? [-> _]]. reflexivity.
    + intros d0. destruct (H6 d0) as [Hnd Hent]. split; [exact Hnd|].
      intros s1 k1 Hin. destruct (Hent s1 k1 Hin) as (E2 & E3 & E4).
      rewrite !existsb_app_false; [auto| |];
        intros x Hx; apply in_rev_map_read in Hx; destruct Hx as [? [-> _]]; reflexivity.
    + intros d0 s0 k0 Hx. apply existsb_mono, H7, Hx.
  - eapply (Sst_frame st _ _ HS); simpl; auto.
    intros s0 k0 Hm. destruct (S_dec st HS s0 k0 Hm) as [E2 E3]. specialize (Hn s0). split; [lia|exact E3].
  - eapply (Fst_frame st _ _ HF); simpl; auto.
  - exists (map (Read s) (seq (nrd1 st s) n)). split; [reflexivity|].
    apply accepts_reads1; [exact E1|apply (H_rd st HH)].
Qed.

(* an Open message has not been handled, so it lies at or beyond everything acked *)
Lemma open_after_acked st s k : Sst st -> mst st s k = MOpen -> nacked s (hist1 st) <= k.
Proof.
  intros HS Hm. pose proof (S_nacked_le st HS s).
  destruct (le_lt_dec (tick st s) k); [lia|]. exfalso. apply (S_handled st HS s k); assumption.
Qed.

Lemma step1_VGFilt st s k st' : Inv1 st -> step1 N M keep st (VGFilt s k) = Some st' -> Good1 st st'.
Proof.
  intros (HH & HS & HF) H. cbn [step1] in H.
  match type of H with (if ?c then _ else _) = _ => destruct c eqn:Eg; [|discriminate] end.
  injection H as <-. apply andb_prop in Eg as [Eg E4]. apply andb_prop in Eg as [Eg E3].
  apply andb_prop in Eg as [E1 E2]. apply mst_eqb_eq in E4.
  eapply good1_event; [|reflexivity|].
  - split; [|split].
    + destruct HH as [H1 H2 H3 H4 H5 H6 H7]. constructor; simpl; unfold last_write; simpl;
        try (intros; rewrite ?nreads_cons; simpl; auto; fail).
      intros s0 k0. unfold u2. rewrite H2. destruct ((s0 =? s) && (k0 =? k)); reflexivity.
    + eapply (Sst_frame st _ [Filt None s k] HS); simpl; auto; try apply (S_dec st HS).
      intros e [<-|[]]. reflexivity.
    + eapply (Fst_frame st _ [Filt None s k] HF); simpl; auto.
  - simpl. rewrite (H_rd st HH), E1, E2. simpl. apply Nat.leb_le, open_after_acked; assumption.
Qed.

Lemma step1_VDFilt st d s k st' : Inv1 st -> step1 N M keep st (VDFilt d s k) = Some st' -> Good1 st st'.
Proof.
  intros (HH & HS & HF) H. cbn [step1] in H.
  match type of H with (if ?c then _ else _) = _ => destruct c eqn:Eg; [|discriminate] end.
  injection H as <-. apply andb_prop in Eg as [Eg E4]. apply andb_prop in Eg as [Eg E3].
  apply andb_prop in Eg as [E1 E2].
  eapply good1_event; [|reflexivity|].
  - split; [|split].
    + destruct HH as [H1 H2 H3 H4 H5 H6 H7]. constructor; simpl; unfold last_write; simpl;
        try (intros; rewrite ?nreads_cons; simpl; auto; fail).
      intros d0 s0 k0. unfold u3. rewrite H3. destruct ((d0 =? d) && (s0 =? s) && (k0 =? k)); reflexivity.
    + eapply (Sst_frame st _ [Filt (Some d) s k] HS); simpl; auto; try apply (S_dec st HS).
      intros e [<-|[]]. reflexivity.
    + eapply (Fst_frame st _ [Filt (Some d) s k] HF); simpl; auto.
  - simpl. rewrite (H_rd st HH), E1, E2, E3. reflexivity.
Qed.

Lemma step1_VCf st d ok st' : Inv1 st -> step1 N M keep st (VCf d ok) = Some st' -> Good1 st st'.
Proof.
  intros (HH & HS & HF) H. cbn [step1] in H.
  destruct (pq st d) as [|[s k] rest] eqn:Eq; [discriminate|]. injection H as <-.
  destruct (H_pq st HH d) as [Hnd Hent]. rewrite Eq in Hnd, Hent.
  destruct (Hent s k (or_introl eq_refl)) as (Hw & Hc & Hlt).
  inversion Hnd as [|? ? Hni Hnd']; subst.
  eapply good1_event; [|reflexivity|].
  - split; [|split].
    + pose proof HH as HH'. destruct HH as [H1 H2 H3 H4 H5 H6 H7]. constructor; simpl; unfold last_write; simpl;
        try (intros; rewrite ?nreads_cons; simpl; auto; fail).
      * intros d0 s0 k0 Hx. apply orb_prop in Hx as [Hx|Hx]; [|apply H5, Hx].
        apply andb_prop in Hx as [Hx E3]. apply andb_prop in Hx as [E1 E2].
        apply Nat.eqb_eq in E1, E2, E3. subst. exact Hlt.
      * intros d0. destruct (Nat.eq_dec d0 d) as [->|Hne].
        -- rewrite u1_eq. split; [exact Hnd'|]. intros s1 k1 Hin.
           destruct (Hent s1 k1 (or_intror Hin)) as (E1 & E2 & E3).
           rewrite ?E1, ?E2, ?orb_true_r, ?orb_false_r. splits; auto.
           destruct ((d =? d) && (s1 =? s) && (k1 =? k)) eqn:E; [|reflexivity].
           apply andb_prop in E as [E E5]. apply andb_prop in E as [_ E4].
           apply Nat.eqb_eq in E4, E5. subst. contradiction.
        -- rewrite u1_neq by exact Hne. destruct (H6 d0) as [Hnd0 Hent0]. split; [exact Hnd0|].
           intros s1 k1 Hin. destruct (Hent0 s1 k1 Hin) as (E1 & E2 & E3).
           rewrite ?E1, ?E2, ?orb_true_r, ?orb_false_r. splits; auto.
           destruct (Nat.eqb_spec d0 d); [contradiction|reflexivity].
      * intros d0 s0 k0. unfold u3.
        destruct ((d0 =? d) && (s0 =? s) && (k0 =? k)) eqn:E.
        -- intros Hx. injection Hx as ->. reflexivity.
        -- intros Hx. rewrite (H7 _ _ _ Hx). destruct ok; reflexivity.
    + eapply (Sst_frame st _ [DestConfirm d s k ok] HS); simpl; auto; try apply (S_dec st HS).
      intros e [<-|[]]. reflexivity.
    + eapply (Fst_frame st _ [DestConfirm d s k ok] HF); simpl; auto.
  - simpl. rewrite Hw, Hc. reflexivity.
Qed.

Lemma pair_neq_cases (a b c d : nat) : (a, b) <> (c, d) \/ (a = c /\ b = d).
Proof.
  destruct (Nat.eq_dec a c) as [->|H1]; [|left; congruence].
  destruct (Nat.eq_dec b d) as [->|H2]; [right; auto|left; congruence].
Qed.

Lemma step1_VPNack st s k st' : Inv1 st -> step1 N M keep st (VPNack s k) = Some st' -> Good1 st st'.
Proof.
  intros (HH & HS & HF) H. cbn [step1] in H.
  match type of H with (if ?c then _ else _) = _ => destruct c eqn:Eg; [|discriminate] end.
  injection H as <-. apply andb_prop in Eg as [Eg E4]. apply andb_prop in Eg as [Eg E3].
  apply andb_prop in Eg as [E1 E2]. apply mst_eqb_eq in E4.
  apply Nat.ltb_lt in E1, E2. apply Nat.leb_le in E3.
  apply good1_silent; [|reflexivity]. split; [|split].
  - apply (Hst_same st); auto.
  - eapply (Sst_frame st _ [] HS); simpl; auto; try nil_in.
    + intros s0 k0 Hm. destruct (pair_neq_cases s0 k0 s k) as [Hne|[-> ->]]; [apply u2_neq, Hne|congruence].
    + intros s0 k0 Hm. destruct (pair_neq_cases s0 k0 s k) as [Hne|[-> ->]]; [|auto].
      rewrite u2_neq in Hm by exact Hne. apply (S_dec st HS), Hm.
  - destruct HF as [F1 F2 F3 F4 F5 F6 F7 F8 F9 F9' F10]. constructor; simpl; auto.
    + intros s0 k0 Hm. destruct (pair_neq_cases s0 k0 s k) as [Hne|[-> ->]].
      * rewrite u2_neq in Hm by exact Hne. apply F4, Hm.
      * rewrite u2_eq in Hm. discriminate.
    + intros s0 k0 Ha Hm. destruct (pair_neq_cases s0 k0 s k) as [Hne|[-> ->]].
      * rewrite u2_neq in Hm by exact Hne. apply F6; assumption.
      * destruct (F2 s k Ha). lia.
Qed.

Lemma step1_VSkip st s st' : Inv1 st -> step1 N M keep st (VSkip s) = Some st' -> Good1 st st'.
Proof.
  intros (HH & HS & HF) H. cbn [step1] in H.
  match type of H with (if ?c then _ else _) = _ => destruct c eqn:Eg; [|discriminate] end.
  injection H as <-. apply andb_prop in Eg as [Eg E3]. apply andb_prop in Eg as [E1 E2].
  apply Nat.ltb_lt in E1, E2.
  apply good1_silent; [|reflexivity]. split; [|split].
  - apply (Hst_same st); auto.
  - eapply (Sst_frame st _ [] HS); simpl; auto; try nil_in; try apply (S_dec st HS).
  - destruct HF as [F1 F2 F3 F4 F5 F6 F7 F8 F9 F9' F10]. constructor; simpl; auto.
    + intros s0. unfold u1. destruct (Nat.eqb_spec s0 s) as [->|]; [lia|apply F1].
    + intros s0 k0 Ha. destruct (F2 s0 k0 Ha) as [E4 E5]. split; [|exact E5].
      unfold u1. destruct (Nat.eqb_spec s0 s) as [->|]; lia.
    + intros d s0. specialize (F9' d s0). unfold u1. destruct (Nat.eqb_spec s0 s) as [->|]; lia.
Qed.

Lemma cnt_acked_zero st s k : (forall d, cst st d s k = COpen) -> cnt_acked M st s k = 0.
Proof.
  intros H. unfold cnt_acked. induction (seq 0 M) as [|a l IH]; [reflexivity|].
  simpl. rewrite H. simpl. exact IH.
Qed.

Lemma step1_VFan st s st' : Inv1 st -> step1 N M keep st (VFan s) = Some st' -> Good1 st st'.
Proof.
  intros (HH & HS & HF) H. cbn [step1] in H.
  match type of H with (if ?c then _ else _) = _ => destruct c eqn:Eg; [|discriminate] end.
  injection H as <-. apply andb_prop in Eg as [Eg E3]. apply andb_prop in Eg as [E1 E2].
  apply Nat.ltb_lt in E1, E2. apply mst_eqb_eq in E3.
  set (k := fwd1 st s) in *.
  pose proof HF as HF'. destruct HF as [F1 F2 F3 F4 F5 F6 F7 F8 F9 F9' F10].
  assert (Hnf : atfan st s k = false).
  { destruct (atfan st s k) eqn:E; [|reflexivity]. destruct (F2 s k E). unfold k in *. lia. }
  apply good1_silent; [|reflexivity]. split; [|split].
  - apply (Hst_same st); auto.
  - eapply (Sst_frame st _ [] HS); simpl; auto; try nil_in; try apply (S_dec st HS).
  - constructor; simpl; auto.
    + intros s0. unfold u1. destruct (Nat.eqb_spec s0 s) as [->|]; [fold k; lia|apply F1].
    + intros s0 k0 Ha. unfold u1. destruct (pair_neq_cases s0 k0 s k) as [Hne|[-> ->]].
      * rewrite u2_neq in Ha by exact Hne. destruct (F2 s0 k0 Ha) as [E4 E5]. split; [|exact E5].
        destruct (Nat.eqb_spec s0 s) as [->|]; [fold k in E4; lia|exact E4].
      * rewrite Nat.eqb_refl. split; [lia|exact E1].
    + intros s0 k0 Ha. destruct (pair_neq_cases s0 k0 s k) as [Hne|[-> ->]].
      * rewrite u2_neq in Ha by exact Hne. rewrite u2_neq by exact Hne. apply F3, Ha.
      * rewrite u2_eq. unfold cnt_acked. simpl.
        fold (cnt_acked M st s k). rewrite cnt_acked_zero; [lia|]. apply F5, Hnf.
    + intros s0 k0 Hm. destruct (pair_neq_cases s0 k0 s k) as [Hne|[-> ->]]; [|congruence].
      rewrite !u2_neq by exact Hne. apply F4, Hm.
    + intros s0 k0 Ha. destruct (pair_neq_cases s0 k0 s k) as [Hne|[-> ->]].
      * rewrite u2_neq in Ha by exact Hne. apply F5, Ha.
      * rewrite u2_eq in Ha. discriminate.
    + intros s0 k0 Ha Hm. destruct (pair_neq_cases s0 k0 s k) as [Hne|[-> ->]]; [|congruence].
      rewrite u2_neq in Ha by exact Hne. apply F6; assumption.
    + intros d. destruct (F8 d) as [Hinc Hent]. destruct (d <? M) eqn:Ed.
      * apply Nat.ltb_lt in Ed. rewrite app_assoc. split.
        -- apply inc_src_snoc; [exact Hinc|]. intros k' Hin.
           destruct (Hent s k' Hin) as (_ & Ha & _). destruct (F2 s k' Ha). exact H.
        -- intros s0 k0 Hin. apply in_app_or in Hin as [Hin|[Heq|[]]].
           ++ destruct (Hent s0 k0 Hin) as (E4 & E5 & E6). splits; auto;
                try (unfold u2; rewrite E5; destruct ((s0 =? s) && (k0 =? k)); reflexivity).
           ++ injection Heq as <- <-. rewrite u2_eq. splits; auto; try (apply F5, Hnf).
      * split; [exact Hinc|]. intros s0 k0 Hin. destruct (Hent s0 k0 Hin) as (E4 & E5 & E6). splits; auto;
          try (unfold u2; rewrite E5; destruct ((s0 =? s) && (k0 =? k)); reflexivity).
    + intros d s0 k0 Hin. destruct (d <? M); [|apply F9, Hin].
      apply in_app_or in Hin as [Hin|[Heq|[]]]; [apply F9, Hin|]. injection Heq as <- <-. apply F9'.
    + intros d s0. specialize (F9' d s0). unfold u1. destruct (Nat.eqb_spec s0 s) as [->|]; [fold k; lia|lia].
Qed.

(* a clone that is still in branch d is nacked: the shape of every "nack" step *)
Lemma clone_nack_inv st d s k l1 l2 inq' aq' :
  Inv1 st ->
  aq st d ++ inq st d = l1 ++ (s, k) :: l2 ->
  aq' d ++ inq' d = l1 ++ l2 ->
  (forall d0, d0 <> d -> aq' d0 = aq st d0 /\ inq' d0 = inq st d0) ->
  (forall s0 k0, In (s0, k0) (inq' d) -> In (s0, k0) (inq st d)) ->
  Inv1 (clone_nack st d s k (hist1 st) inq' aq' (wcur1 st)).
Proof.
  intros (HH & HS & HF) Hd Hd' Ho Hi.
  pose proof HF as HF'. destruct HF as [F1 F2 F3 F4 F5 F6 F7 F8 F9 F9' F10].
  destruct (F8 d) as [Hinc Hent]. rewrite Hd in Hinc, Hent.
  assert (Hmem : In (s, k) (l1 ++ (s, k) :: l2)) by (apply in_or_app; right; left; reflexivity).
  destruct (Hent s k Hmem) as (Hc & Ha & HdM).
  destruct (F2 s k Ha) as [Hkf HsN]. pose proof (F1 s) as Hfn.
  pose proof (NoDup_mid_notin _ _ _ (inc_src_NoDup _ Hinc)) as Hni.
  assert (Hm1 : forall s0 k0, mst st s0 k0 <> MOpen -> nack_orig st s k s0 k0 = mst st s0 k0).
  { intros s0 k0 Hm. unfold nack_orig. destruct (mst st s k) eqn:E; try reflexivity.
    destruct (pair_neq_cases s0 k0 s k) as [Hne|[-> ->]]; [apply u2_neq, Hne|congruence]. }
  assert (Hm2 : forall s0 k0, nack_orig st s k s0 k0 <> MOpen -> mst st s0 k0 <> MOpen \/ (s0 = s /\ k0 = k)).
  { intros s0 k0 Hm. unfold nack_orig in Hm. destruct (mst st s k) eqn:E; auto.
    destruct (pair_neq_cases s0 k0 s k) as [Hne|[-> ->]]; [|auto]. rewrite u2_neq in Hm by exact Hne. auto. }
  assert (Hm3 : forall s0 k0, nack_orig st s k s0 k0 = MAcked -> mst st s0 k0 = MAcked).
  { intros s0 k0 Hm. unfold nack_orig in Hm. destruct (mst st s k) eqn:E; auto.
    destruct (pair_neq_cases s0 k0 s k) as [Hne|[-> ->]]; [rewrite u2_neq in Hm by exact Hne; auto|].
    rewrite u2_eq in Hm. discriminate. }
  assert (Hm4 : forall s0 k0, nack_orig st s k s0 k0 = MNacked -> mst st s0 k0 = MNacked \/ (s0 = s /\ k0 = k)).
  { intros s0 k0 Hm. unfold nack_orig in Hm. destruct (mst st s k) eqn:E; auto.
    destruct (pair_neq_cases s0 k0 s k) as [Hne|[-> ->]]; [rewrite u2_neq in Hm by exact Hne; auto|auto]. }
  split; [|split].
  - apply (Hst_same st); auto.
  - eapply (Sst_frame st _ [] HS); simpl; auto; try nil_in.
    intros s0 k0 Hm. destruct (Hm2 s0 k0 Hm) as [Hx|[-> ->]]; [apply (S_dec st HS), Hx|split; [lia|exact HsN]].
  - constructor; simpl.
    + exact F1.
    + exact F2.
    + intros s0 k0 Hat.
      replace (cnt_acked M (clone_nack st d s k (hist1 st) inq' aq' (wcur1 st)) s0 k0)
        with (cnt_acked M st s0 k0); [apply F3, Hat|].
      unfold cnt_acked. simpl. f_equal. apply filter_ext_in. intros d0 _. unfold u3.
      destruct ((d0 =? d) && (s0 =? s) && (k0 =? k)) eqn:E; [|reflexivity].
      apply andb_prop in E as [E E3]. apply andb_prop in E as [E1 E2].
      apply Nat.eqb_eq in E1, E2, E3. subst. rewrite Hc. reflexivity.
    + intros s0 k0 Hm. apply F4, Hm3, Hm.
    + intros s0 k0 Hat d0. rewrite u3_neq; [apply F5, Hat|]. intros E. injection E as -> -> ->. congruence.
    + intros s0 k0 Hat Hm. destruct (pair_neq_cases s0 k0 s k) as [Hne|[-> ->]].
      * destruct (Hm4 s0 k0 Hm) as [Hx|[-> ->]]; [|congruence].
        destruct (F6 s0 k0 Hat Hx) as [d' [Hd'M Hcd']]. exists d'. split; [exact Hd'M|].
        rewrite u3_neq; [exact Hcd'|]. intros E. injection E as -> -> ->. congruence.
      * exists d. split; [exact HdM|apply u3_eq].
    + intros d0 s0 k0 Hx. apply F7. unfold u3 in Hx.
      destruct ((d0 =? d) && (s0 =? s) && (k0 =? k)); [discriminate|exact Hx].
    + intros d0. destruct (Nat.eq_dec d0 d) as [->|Hne].
      * rewrite Hd'. split; [eapply inc_src_remove_mid, Hinc|].
        intros s0 k0 Hin. assert (Hin' : In (s0, k0) (l1 ++ (s, k) :: l2)).
        { apply in_app_or in Hin as [Hin|Hin]; apply in_or_app; [left|right; right]; exact Hin. }
        destruct (Hent s0 k0 Hin') as (E1 & E2 & E3). splits; auto.
        rewrite u3_neq; [exact E1|]. intros E. injection E as -> ->. contradiction.
      * destruct (Ho d0 Hne) as [-> ->]. destruct (F8 d0) as [Hinc0 Hent0]. split; [exact Hinc0|].
        intros s0 k0 Hin. destruct (Hent0 s0 k0 Hin) as (E1 & E2 & E3). splits; auto.
        rewrite u3_neq; [exact E1|]. intros E. injection E as -> -> ->. contradiction.
    + intros d0 s0 k0 Hin. destruct (Nat.eq_dec d0 d) as [->|Hne]; [apply F9, Hi, Hin|].
      destruct (Ho d0 Hne) as [_ E]. rewrite E in Hin. apply F9, Hin.
    + exact F9'.
    + exact F10.
Qed.

Lemma step1_VBNack st d s k st' : Inv1 st -> step1 N M keep st (VBNack d s k) = Some st' -> Good1 st st'.
Proof.
  intros HI H. cbn [step1] in H. destruct (mem_pair (s, k) (inq st d)) eqn:Em; [|discriminate].
  injection H as <-. apply mem_pair_In in Em.
  destruct (remove_pair_split _ _ Em) as [l1 [l2 [E1 E2]]].
  apply good1_silent; [|reflexivity].
  apply (clone_nack_inv st d s k (aq st d ++ l1) l2); auto.
  - rewrite E1, app_assoc. reflexivity.
  - rewrite u1_eq, E2, app_assoc. reflexivity.
  - intros d0 Hne. rewrite u1_neq by exact Hne. auto.
  - intros s0 k0 Hin. rewrite u1_eq in Hin. eapply In_remove_pair, Hin.
Qed.

Lemma step1_VDTd st d st' : Inv1 st -> step1 N M keep st (VDTd d) = Some st' -> Good1 st st'.
Proof.
  intros HI H. cbn [step1] in H. destruct (aq st d) as [|[s k] rest] eqn:Eq; [discriminate|].
  injection H as <-. apply good1_silent; [|reflexivity].
  apply (clone_nack_inv st d s k [] (rest ++ inq st d)); auto.
  - rewrite Eq. reflexivity.
  - rewrite u1_eq. reflexivity.
  - intros d0 Hne. rewrite u1_neq by exact Hne. auto.
Qed.

Lemma filt_strict_t : filt_strict t = keep.
Proof. reflexivity. Qed.

Lemma step1_VWr st d st' : Inv1 st -> step1 N M keep st (VWr d) = Some st' -> Good1 st st'.
Proof.
  intros (HH & HS & HF) H. cbn [step1] in H.
  destruct (inq st d) as [|[s k] rest] eqn:Eq; [discriminate|].
  pose proof HF as HF'. destruct HF as [F1 F2 F3 F4 F5 F6 F7 F8 F9 F9' F10].
  destruct (F8 d) as [Hinc Hent]. rewrite Eq in Hinc, Hent.
  assert (Hmem : In (s, k) (aq st d ++ (s, k) :: rest)) by (apply in_or_app; right; left; reflexivity).
  destruct (Hent s k Hmem) as (Hc & Ha & HdM). destruct (F2 s k Ha) as [Hkf HsN]. pose proof (F1 s) as Hfn.
  assert (Hpipe : forall d0, inc_src (u1 (aq st) d (aq st d ++ [(s, k)]) d0 ++ u1 (inq st) d rest d0) /\
            forall s0 k0, In (s0, k0) (u1 (aq st) d (aq st d ++ [(s, k)]) d0 ++ u1 (inq st) d rest d0) ->
              cst st d0 s0 k0 = COpen /\ atfan st s0 k0 = true /\ d0 < M).
  { intros d0. destruct (Nat.eq_dec d0 d) as [->|Hne].
    - rewrite !u1_eq, <- app_assoc. simpl. split; [exact Hinc|exact Hent].
    - rewrite !u1_neq by exact Hne. apply F8. }
  destruct (cfl keep st d s k) eqn:Ecfl; injection H as <-.
  - (* a filtered clone goes straight to the acker queue *)
    apply good1_silent; [|reflexivity]. split; [|split].
    + apply (Hst_same st); auto.
    + eapply (Sst_frame st _ [] HS); simpl; auto; try nil_in; try apply (S_dec st HS).
    + constructor; simpl; auto.
      intros d0 s0 k0 Hin. destruct (Nat.eq_dec d0 d) as [->|Hne].
      * rewrite u1_eq in Hin. apply F9. rewrite Eq. right. exact Hin.
      * rewrite u1_neq in Hin by exact Hne. apply F9, Hin.
  - (* written *)
    unfold cfl in Ecfl. apply orb_false_iff in Ecfl as [Eg Ed].
    pose proof (F9 d s k ltac:(rewrite Eq; left; reflexivity)) as Hwk.
    eapply good1_event; [|reflexivity|].
    + split; [|split].
      * pose proof HH as HH'. destruct HH as [H1 H2 H3 H4 H5 H6 H7].
        constructor; simpl; unfold last_write; simpl;
          try (intros; rewrite ?nreads_cons; simpl; auto; fail).
        -- intros d0 s0 j. unfold u2. destruct ((d0 =? d) && (s0 =? s)) eqn:E.
           ++ intros Hj. injection Hj as <-. lia.
           ++ apply H4.
        -- intros d0 s0 k0 Hx. specialize (H5 d0 s0 k0 Hx). unfold u2.
           destruct ((d0 =? d) && (s0 =? s)) eqn:E; [|exact H5].
           apply andb_prop in E as [E1 E2]. apply Nat.eqb_eq in E1, E2. subst. lia.
        -- intros d0. destruct (H6 d0) as [Hnd Hpent]. destruct (Nat.eq_dec d0 d) as [->|Hne].
           ++ rewrite u1_eq. split.
              ** apply NoDup_snoc; [exact Hnd|]. intros Hin. destruct (Hpent s k Hin) as (_ & _ & Hlt). lia.
              ** intros s1 k1 Hin. apply in_app_or in Hin as [Hin|[Heq|[]]].
                 --- destruct (Hpent s1 k1 Hin) as (E1 & E2 & E3). rewrite E1, E2, orb_true_r.
                     splits; auto. unfold u2. destruct ((d =? d) && (s1 =? s)) eqn:E; [|exact E3].
                     apply andb_prop in E as [_ E]. apply Nat.eqb_eq in E. subst. lia.
                 --- injection Heq as <- <-. rewrite !Nat.eqb_refl. simpl. splits; auto.
                     +++ destruct (existsb (is_conf_any d s k) (hist1 st)) eqn:E; [|reflexivity].
                         specialize (H5 _ _ _ E). lia.
                     +++ rewrite u2_eq. lia.
           ++ rewrite u1_neq by exact Hne. split; [exact Hnd|]. intros s1 k1 Hin.
              destruct (Hpent s1 k1 Hin) as (E1 & E2 & E3). rewrite E1, E2, orb_true_r. splits; auto.
              unfold u2. destruct (Nat.eqb_spec d0 d); [contradiction|exact E3].
      * eapply (Sst_frame st _ [DestWrite d s k] HS); simpl; auto; try apply (S_dec st HS).
        intros e [<-|[]]. reflexivity.
      * constructor; simpl; auto.
        -- intros d0 s0 k0 Hin. unfold u2. destruct (Nat.eq_dec d0 d) as [->|Hne].
           ++ rewrite u1_eq in Hin. rewrite Nat.eqb_refl. simpl.
              destruct (Nat.eqb_spec s0 s) as [->|Hs].
              ** pose proof (inc_src_suffix _ _ Hinc) as Hsuf.
                 pose proof (inc_src_head_lt s k rest k0 Hsuf Hin). lia.
              ** apply F9. rewrite Eq. right. exact Hin.
           ++ rewrite u1_neq in Hin by exact Hne. destruct (Nat.eqb_spec d0 d); [contradiction|].
              simpl. apply F9, Hin.
        -- intros d0 s0. unfold u2. destruct ((d0 =? d) && (s0 =? s)) eqn:E; [|apply F9'].
           apply andb_prop in E as [_ E]. apply Nat.eqb_eq in E. subst. lia.
    + unfold t. cbn [accept_ev v2 nsrc ndst]. fold t. rewrite filt_strict_t.
      rewrite (H_rd st HH), (H_gfl st HH), (H_dfl st HH), Ed.
      replace (d <? M) with true by (symmetry; apply Nat.ltb_lt; exact HdM).
      replace (s <? N) with true by (symmetry; apply Nat.ltb_lt; exact HsN).
      replace (k <? nrd1 st s) with true by (symmetry; apply Nat.ltb_lt; lia).
      cbn [andb negb]. apply andb_true_intro. split.
      * rewrite andb_true_r. destruct (last_write d s (hist1 st)) as [j|] eqn:El; [|reflexivity].
        pose proof (H_wcur st HH _ _ _ El). apply Nat.ltb_lt. lia.
      * destruct keep; [|reflexivity]. rewrite andb_true_r in Eg. rewrite Eg. reflexivity.
Qed.

(* DestinationAckerNode acks the clone at the head of its queue *)
Lemma clone_ack_inv st d s k rest :
  Inv1 st -> aq st d = (s, k) :: rest -> hjust d s k (hist1 st) = true ->
  Inv1 (clone_ack st d s k (u1 (aq st) d rest)).
Proof.
  intros (HH & HS & HF) Eq Hj.
  pose proof HF as HF'. destruct HF as [F1 F2 F3 F4 F5 F6 F7 F8 F9 F9' F10].
  destruct (F8 d) as [Hinc Hent]. rewrite Eq in Hinc, Hent. simpl in Hinc, Hent.
  destruct (Hent s k (or_introl eq_refl)) as (Hc & Ha & HdM).
  destruct (F2 s k Ha) as [Hkf HsN]. pose proof (F1 s) as Hfn.
  pose proof (inc_src_NoDup _ (conj (proj1 Hinc) (proj2 Hinc) : inc_src ((s, k) :: rest ++ inq st d))) as Hnd.
  inversion Hnd as [|? ? Hni Hnd']; subst.
  pose proof (F3 s k Ha) as Hcnt.
  assert (Hdin : In d (seq 0 M)) by (apply in_seq; lia).
  assert (Hlt : cnt_acked M st s k < M).
  { unfold cnt_acked. rewrite <- (seq_length M 0) at 2.
    apply (filter_not_full _ _ d Hdin). rewrite Hc. reflexivity. }
  assert (Hrem : 1 <= rem st s k) by lia.
  (* the counter after this ack *)
  assert (Hcnt' : forall st', cst st' = u3 (cst st) d s k CAcked -> cnt_acked M st' s k = S (cnt_acked M st s k)).
  { intros st' Hcs. unfold cnt_acked. rewrite Hcs.
    apply (filter_flip (fun d0 => is_acked (cst st d0 s k)) _ (seq 0 M) d (seq_NoDup M 0) Hdin).
    - rewrite Hc. reflexivity.
    - rewrite u3_eq. reflexivity.
    - intros x Hx. rewrite u3_neq; [reflexivity|]. intros E. injection E as ->. contradiction. }
  assert (Hoth : forall st' s0 k0, cst st' = u3 (cst st) d s k CAcked -> (s0, k0) <> (s, k) ->
                   cnt_acked M st' s0 k0 = cnt_acked M st s0 k0).
  { intros st' s0 k0 Hcs Hne. unfold cnt_acked. rewrite Hcs. apply f_equal, filter_ext_in.
    intros d0 _. rewrite u3_neq; [reflexivity|]. intros E. injection E as _ -> ->. contradiction. }
  (* a zero counter means the original is still open *)
  assert (Hopen : rem st s k - 1 = 0 -> mst st s k = MOpen).
  { intros Hz. destruct (mst st s k) eqn:Em; [reflexivity| |].
    - destruct (F4 s k Em). lia.
    - destruct (F6 s k Ha Em) as [d' [Hd' Hcd']].
      assert (Hfull : cnt_acked M st s k = M - 1) by lia.
      (* all other clones are acked, but d' is nacked *)
      exfalso. assert (d' <> d) by (intros ->; congruence).
      assert (Hall : cnt_acked M (clone_ack st d s k (u1 (aq st) d rest)) s k = M).
      { rewrite (Hcnt' (clone_ack st d s k (u1 (aq st) d rest)) eq_refl). lia. }
      unfold cnt_acked in Hall. rewrite <- (seq_length M 0) in Hall at 2.
      pose proof (filter_full _ _ Hall d' ltac:(apply in_seq; lia)) as Hx. simpl in Hx.
      rewrite u3_neq in Hx by (intros E; injection E as ->; contradiction). rewrite Hcd' in Hx. discriminate. }
  set (st1 := clone_ack st d s k (u1 (aq st) d rest)).
  assert (Hmst : forall s0 k0, mst st s0 k0 <> MOpen -> mst st1 s0 k0 = mst st s0 k0).
  { intros s0 k0 Hm. unfold st1, clone_ack. simpl. destruct (rem st s k - 1 =? 0) eqn:Ez; [|reflexivity].
    apply Nat.eqb_eq in Ez. rewrite (Hopen Ez).
    destruct (pair_neq_cases s0 k0 s k) as [Hne|[-> ->]]; [apply u2_neq, Hne|]. rewrite (Hopen Ez) in Hm. congruence. }
  assert (Hmst2 : forall s0 k0, mst st1 s0 k0 <> mst st s0 k0 ->
                    s0 = s /\ k0 = k /\ mst st1 s k = MAcked /\ rem st s k - 1 = 0).
  { intros s0 k0 Hm. unfold st1, clone_ack in *. simpl in *. destruct (rem st s k - 1 =? 0) eqn:Ez; [|congruence].
    apply Nat.eqb_eq in Ez. rewrite (Hopen Ez) in *.
    destruct (pair_neq_cases s0 k0 s k) as [Hne|[-> ->]]; [rewrite u2_neq in Hm by exact Hne; congruence|].
    rewrite u2_eq. auto. }
  split; [|split].
  - apply (Hst_same st); auto.
  - eapply (Sst_frame st _ [] HS); simpl; auto; try nil_in.
    intros s0 k0 Hm. destruct (mst_eqb (mst st1 s0 k0) (mst st s0 k0)) eqn:E.
    + apply mst_eqb_eq in E. assert (Hm' : mst st1 s0 k0 <> MOpen) by exact Hm.
      rewrite E in Hm'. apply (S_dec st HS), Hm'.
    + assert (Hx : mst st1 s0 k0 <> mst st s0 k0) by (intros Hx; apply mst_eqb_eq in Hx; congruence).
      destruct (Hmst2 s0 k0 Hx) as (-> & -> & _). split; [lia|exact HsN].
  - constructor.
    + exact F1.
    + exact F2.
    + intros s0 k0 Hat. change (atfan st1 s0 k0) with (atfan st s0 k0) in Hat.
      destruct (pair_neq_cases s0 k0 s k) as [Hne|[-> ->]].
      * rewrite (Hoth st1 s0 k0 eq_refl Hne). simpl. rewrite u2_neq by exact Hne. apply F3, Hat.
      * rewrite (Hcnt' st1 eq_refl). simpl. rewrite u2_eq. lia.
    + intros s0 k0 Hm. change (atfan st1 s0 k0) with (atfan st s0 k0).
      destruct (mst_eqb (mst st1 s0 k0) (mst st s0 k0)) eqn:E.
      * apply mst_eqb_eq in E. rewrite E in Hm. destruct (F4 s0 k0 Hm) as [E1 E2]. split; [exact E1|].
        simpl. destruct (pair_neq_cases s0 k0 s k) as [Hne|[-> ->]]; [rewrite u2_neq by exact Hne; exact E2|].
        lia.
      * assert (Hx : mst st1 s0 k0 <> mst st s0 k0) by (intros Hx; apply mst_eqb_eq in Hx; congruence).
        destruct (Hmst2 s0 k0 Hx) as (-> & -> & _ & Hz). split; [exact Ha|]. simpl. rewrite u2_eq. exact Hz.
    + intros s0 k0 Hat d0. change (atfan st1 s0 k0) with (atfan st s0 k0) in Hat. simpl.
      rewrite u3_neq; [apply F5, Hat|]. intros E. injection E as -> -> ->. congruence.
    + intros s0 k0 Hat Hm. change (atfan st1 s0 k0) with (atfan st s0 k0) in Hat.
      assert (Hm0 : mst st s0 k0 = MNacked).
      { destruct (mst_eqb (mst st1 s0 k0) (mst st s0 k0)) eqn:E; [apply mst_eqb_eq in E; congruence|].
        assert (Hx : mst st1 s0 k0 <> mst st s0 k0) by (intros Hx; apply mst_eqb_eq in Hx; congruence).
        destruct (Hmst2 s0 k0 Hx) as (-> & -> & Hy & _). congruence. }
      destruct (F6 s0 k0 Hat Hm0) as [d' [Hd'M Hcd']]. exists d'. split; [exact Hd'M|]. simpl.
      rewrite u3_neq; [exact Hcd'|]. intros E. injection E as -> -> ->. congruence.
    + intros d0 s0 k0 Hx. simpl in Hx. unfold u3 in Hx.
      destruct ((d0 =? d) && (s0 =? s) && (k0 =? k)) eqn:E; [|apply F7, Hx].
      apply andb_prop in E as [E E3]. apply andb_prop in E as [E1 E2].
      apply Nat.eqb_eq in E1, E2, E3. subst. exact Hj.
    + intros d0. simpl. destruct (Nat.eq_dec d0 d) as [->|Hne].
      * rewrite u1_eq. split; [apply Hinc|]. intros s0 k0 Hin.
        destruct (Hent s0 k0 (or_intror Hin)) as (E1 & E2 & E3). splits; auto.
        rewrite u3_neq; [exact E1|]. intros E. injection E as -> ->. contradiction.
      * rewrite u1_neq by exact Hne. destruct (F8 d0) as [Hinc0 Hent0]. split; [exact Hinc0|].
        intros s0 k0 Hin. destruct (Hent0 s0 k0 Hin) as (E1 & E2 & E3). splits; auto.
        rewrite u3_neq; [exact E1|]. intros E. injection E as -> -> ->. contradiction.
    + exact F9.
    + exact F9'.
    + simpl. rewrite F10. simpl. destruct (rem st s k - 1 =? 0) eqn:Ez; [|reflexivity].
      apply Nat.eqb_eq in Ez. rewrite (Hopen Ez). reflexivity.
Qed.

Lemma step1_VDAck st d st' : Inv1 st -> step1 N M keep st (VDAck d) = Some st' -> Good1 st st'.
Proof.
  intros HI H. cbn [step1] in H. destruct (aq st d) as [|[s k] rest] eqn:Eq; [discriminate|].
  pose proof HI as (HH & HS & HF).
  destruct (cfl keep st d s k) eqn:Ecfl.
  - injection H as <-. apply good1_silent; [|reflexivity]. apply clone_ack_inv; auto.
    unfold cfl in Ecfl. unfold hjust. rewrite (H_gfl st HH), (H_dfl st HH).
    apply orb_prop in Ecfl as [E|E]; [apply andb_prop in E as [E _]; rewrite E; reflexivity|].
    rewrite E. rewrite orb_true_r. reflexivity.
  - destruct (conf1 st d s k) as [[|]|] eqn:Ec; [| |discriminate]; injection H as <-;
      apply good1_silent; try reflexivity.
    + apply clone_ack_inv; auto. unfold hjust. rewrite (H_conf st HH _ _ _ Ec). apply orb_true_r.
    + apply (clone_nack_inv st d s k [] (rest ++ inq st d)); auto.
      * rewrite Eq. reflexivity.
      * rewrite u1_eq. reflexivity.
      * intros d0 Hne. rewrite u1_neq by exact Hne. auto.
Qed.

(* an acked original is justified: the counter is zero, so every clone was acked, and a clone is
   acked only when its destination confirmed or a processor filtered it *)
Lemma macked_justified st s k : Inv1 st -> mst st s k = MAcked -> justified t (hist1 st) s k = true.
Proof.
  intros (HH & HS & HF) Hm. destruct (F_acked st HF s k Hm) as [Ha Hr].
  pose proof (F_cnt st HF s k Ha) as Hc. rewrite Hr in Hc. simpl in Hc.
  unfold cnt_acked in Hc. rewrite <- (seq_length M 0) in Hc at 2.
  pose proof (filter_full _ _ Hc) as Hall.
  unfold justified. simpl ndst.
  destruct (existsb (is_filt None s k) (hist1 st)) eqn:Eg; [reflexivity|]. simpl.
  apply orb_true_iff. right. apply forallb_forall. intros d Hd.
  specialize (Hall d Hd). simpl in Hall. destruct (cst st d s k) eqn:Ec; try discriminate.
  pose proof (F_cack st HF d s k Ec) as Hj. unfold hjust in Hj. rewrite Eg in Hj. simpl in Hj.
  rewrite orb_comm. exact Hj.
Qed.

Lemma no_latch st s : Sst st -> fail1 st s = false -> latch s (hist1 st) = false.
Proof.
  intros HS Hf. destruct (latch s (hist1 st)) eqn:E; [|reflexivity].
  rewrite (S_latch st HS s E) in Hf. discriminate.
Qed.

Lemma latch_cons s e pre :
  latch s (e :: pre) = (match e with DlqConfirm s' _ false => s =? s' | _ => false end) || latch s pre.
Proof. unfold latch. simpl. destruct e as [| | | | |? ? []|]; reflexivity. Qed.

Lemma step1_VServeAck st s st' : Inv1 st -> step1 N M keep st (VServeAck s) = Some st' -> Good1 st st'.
Proof.
  intros HI H. pose proof HI as (HH & HS & HF). cbn [step1] in H.
  match type of H with (if ?c then _ else _) = _ => destruct c eqn:Eg; [|discriminate] end.
  injection H as <-. apply andb_prop in Eg as [Eg E3]. apply andb_prop in Eg as [E1 E2].
  apply mst_eqb_eq in E1. apply negb_true_iff in E2.
  destruct (dlqw st s) eqn:Edw; [discriminate|]. clear E3.
  set (k := tick st s) in *.
  assert (Hdec : k < nrd1 st s /\ s < N) by (apply (S_dec st HS); congruence).
  pose proof (S_nacked_eq st HS s E2) as Hnk. fold k in Hnk.
  eapply good1_event; [|reflexivity|].
  - split; [|split].
    + eapply (Hst_frame st _ [EngineAck s [k]] HH); simpl; auto. intros e [<-|[]]. reflexivity.
    + destruct HS as [S1 S2 S3 S4 S5 S6 S7 S8]. constructor; simpl.
      * intros s0. unfold u1. destruct (Nat.eqb_spec s0 s) as [->|]; [lia|apply S1].
      * intros s0 k0 Hk. unfold u1 in Hk. destruct (Nat.eqb_spec s0 s) as [->|]; [|apply S2, Hk].
        destruct (Nat.eq_dec k0 k) as [->|]; [congruence|]. apply S2. fold k. lia.
      * intros s0. rewrite nacked_cons. unfold u1. specialize (S3 s0).
        destruct (Nat.eqb_spec s0 s) as [->|]; simpl; lia.
      * intros s0 Hf. rewrite nacked_cons. unfold u1. specialize (S4 s0 Hf).
        destruct (Nat.eqb_spec s0 s) as [->|]; simpl; [fold k in S4|]; lia.
      * intros s0. exact (S5 s0).
      * exact S6.
      * intros s0 k0 Hk. rewrite ?dlq_state_cons. simpl. apply S7.
        unfold u1 in Hk. destruct (Nat.eqb_spec s0 s) as [->|]; [fold k; lia|exact Hk].
      * intros s0 k0 Hd. destruct (Nat.eq_dec s0 s) as [->|Hne]; [congruence|].
        rewrite u1_neq by exact Hne. apply S8, Hd.
    + eapply (Fst_frame st _ [EngineAck s [k]] HF); simpl; auto.
  - unfold t. cbn [accept_ev v2 nsrc ndst length]. fold t.
    rewrite (H_rd st HH), Hnk. cbn [seq]. rewrite nat_list_eqb_refl_1.
    replace (s <? N) with true by (symmetry; apply Nat.ltb_lt; tauto).
    replace (k + 1 <=? nrd1 st s) with true by (symmetry; apply Nat.leb_le; lia).
    rewrite (no_latch st s HS E2). cbn [andb Nat.leb forallb Nat.eqb negb].
    rewrite !andb_true_r. apply macked_justified; assumption.
Qed.

Lemma step1_VServeSkip st s st' : Inv1 st -> step1 N M keep st (VServeSkip s) = Some st' -> Good1 st st'.
Proof.
  intros HI H. pose proof HI as (HH & HS & HF). cbn [step1] in H.
  match type of H with (if ?c then _ else _) = _ => destruct c eqn:Eg; [|discriminate] end.
  injection H as <-. apply andb_prop in Eg as [Eg E3]. apply andb_prop in Eg as [E1 E2].
  apply negb_true_iff in E1.
  assert (Hm : mst st s (tick st s) <> MOpen) by (intros Hx; rewrite Hx in E1; discriminate).
  destruct (dlqw st s) eqn:Edw; [discriminate|]. clear E3.
  set (k := tick st s) in *.
  assert (Hdec : k < nrd1 st s /\ s < N) by (apply (S_dec st HS); exact Hm).
  apply good1_silent; [|reflexivity]. split; [|split].
  - apply (Hst_same st); auto.
  - destruct HS as [S1 S2 S3 S4 S5 S6 S7 S8]. constructor; simpl.
    + intros s0. unfold u1. destruct (Nat.eqb_spec s0 s) as [->|]; [lia|apply S1].
    + intros s0 k0 Hk. unfold u1 in Hk. destruct (Nat.eqb_spec s0 s) as [->|]; [|apply S2, Hk].
      destruct (Nat.eq_dec k0 k) as [->|]; [exact Hm|]. apply S2. fold k. lia.
    + intros s0. unfold u1. specialize (S3 s0). destruct (Nat.eqb_spec s0 s) as [->|]; [fold k in S3|]; lia.
    + intros s0 Hf. unfold u1. destruct (Nat.eqb_spec s0 s) as [->|]; [congruence|apply S4, Hf].
    + exact S5.
    + exact S6.
    + intros s0 k0 Hk. apply S7. unfold u1 in Hk. destruct (Nat.eqb_spec s0 s) as [->|]; [fold k; lia|exact Hk].
    + intros s0 k0 Hd. destruct (Nat.eq_dec s0 s) as [->|Hne]; [congruence|].
      rewrite u1_neq by exact Hne. apply S8, Hd.
  - eapply (Fst_frame st _ [] HF); simpl; auto.
Qed.

Lemma step1_VServeRefuse st s st' : Inv1 st -> step1 N M keep st (VServeRefuse s) = Some st' -> Good1 st st'.
Proof.
  intros HI H. pose proof HI as (HH & HS & HF). cbn [step1] in H.
  match type of H with (if ?c then _ else _) = _ => destruct c eqn:Eg; [|discriminate] end.
  injection H as <-. apply andb_prop in Eg as [Eg E3]. apply andb_prop in Eg as [E1 E2].
  apply mst_eqb_eq in E1.
  destruct (dlqw st s) eqn:Edw; [discriminate|]. clear E3.
  set (k := tick st s) in *.
  assert (Hdec : k < nrd1 st s /\ s < N) by (apply (S_dec st HS); congruence).
  apply good1_silent; [|reflexivity]. split; [|split].
  - apply (Hst_same st); auto.
  - destruct HS as [S1 S2 S3 S4 S5 S6 S7 S8]. constructor; simpl.
    + intros s0. unfold u1. destruct (Nat.eqb_spec s0 s) as [->|]; [lia|apply S1].
    + intros s0 k0 Hk. unfold u1 in Hk. destruct (Nat.eqb_spec s0 s) as [->|]; [|apply S2, Hk].
      destruct (Nat.eq_dec k0 k) as [->|]; [congruence|]. apply S2. fold k. lia.
    + intros s0. unfold u1. specialize (S3 s0). destruct (Nat.eqb_spec s0 s) as [->|]; [fold k in S3|]; lia.
    + intros s0 Hf. destruct (Nat.eq_dec s0 s) as [E|Hne]; [subst s0; rewrite u1_eq in Hf; discriminate|].
      rewrite u1_neq in Hf by exact Hne. rewrite u1_neq by exact Hne. apply S4, Hf.
    + intros s0 Hl. unfold u1. destruct (Nat.eqb_spec s0 s) as [->|]; [reflexivity|apply S5, Hl].
    + exact S6.
    + intros s0 k0 Hk. apply S7. unfold u1 in Hk. destruct (Nat.eqb_spec s0 s) as [->|]; [fold k; lia|exact Hk].
    + intros s0 k0 Hd. destruct (Nat.eq_dec s0 s) as [->|Hne]; [congruence|].
      rewrite !u1_neq by exact Hne. apply S8, Hd.
  - eapply (Fst_frame st _ [] HF); simpl; auto.
Qed.

Lemma step1_VServeNackW st s st' : Inv1 st -> step1 N M keep st (VServeNackW s) = Some st' -> Good1 st st'.
Proof.
  intros HI H. pose proof HI as (HH & HS & HF). cbn [step1] in H.
  match type of H with (if ?c then _ else _) = _ => destruct c eqn:Eg; [|discriminate] end.
  injection H as <-. apply andb_prop in Eg as [Eg E3]. apply andb_prop in Eg as [E1 E2].
  apply mst_eqb_eq in E1. apply negb_true_iff in E2.
  destruct (dlqw st s) eqn:Edw; [discriminate|]. clear E3.
  set (k := tick st s) in *.
  assert (Hdec : k < nrd1 st s /\ s < N) by (apply (S_dec st HS); congruence).
  pose proof (S_nacked_eq st HS s E2) as Hnk. fold k in Hnk.
  pose proof (S_dlq st HS s k (le_n _)) as Hds. rewrite Edw in Hds.
  eapply good1_event; [|reflexivity|].
  - split; [|split].
    + eapply (Hst_frame st _ [DlqWrite s k] HH); simpl; auto. intros e [<-|[]]. reflexivity.
    + destruct HS as [S1 S2 S3 S4 S5 S6 S7 S8]. constructor; simpl.
      * exact S1.
      * exact S2.
      * intros s0. rewrite nacked_cons. simpl. apply S3.
      * intros s0 Hf. rewrite nacked_cons. simpl. apply S4, Hf.
      * intros s0. exact (S5 s0).
      * exact S6.
      * intros s0 k0 Hk. rewrite dlq_state_cons. simpl. specialize (S7 s0 k0 Hk).
        unfold u1. destruct (Nat.eqb_spec s0 s) as [->|Hne].
        -- rewrite Edw in S7. destruct (Nat.eqb_spec k0 k) as [->|]; simpl; [reflexivity|exact S7].
        -- simpl. exact S7.
      * intros s0 k0 Hd. unfold u1 in Hd. destruct (Nat.eqb_spec s0 s) as [->|Hne]; [|apply S8, Hd].
        injection Hd as <-. auto.
    + eapply (Fst_frame st _ [DlqWrite s k] HF); simpl; auto.
  - unfold t. cbn [accept_ev v2 nsrc ndst]. fold t.
    rewrite (H_rd st HH), Hnk, Nat.sub_diag, Hds, (no_latch st s HS E2).
    replace (s <? N) with true by (symmetry; apply Nat.ltb_lt; tauto).
    replace (k <? nrd1 st s) with true by (symmetry; apply Nat.ltb_lt; tauto).
    rewrite Nat.leb_refl. reflexivity.
Qed.

Lemma step1_VDlqCf st s ok st' : Inv1 st -> step1 N M keep st (VDlqCf s ok) = Some st' -> Good1 st st'.
Proof.
  intros HI H. pose proof HI as (HH & HS & HF). cbn [step1] in H.
  destruct (dlqw st s) as [k|] eqn:Edw; [|discriminate].
  destruct (S_dlqw st HS s k Edw) as (Hk & Hm & Hf).
  assert (Hdec : k < nrd1 st s /\ s < N) by (apply (S_dec st HS); congruence).
  pose proof (S_nacked_eq st HS s Hf) as Hnk. rewrite <- Hk in Hnk.
  pose proof (S_dlq st HS s k ltac:(lia)) as Hds. rewrite Edw, Nat.eqb_refl in Hds.
  destruct ok; injection H as <-.
  - (* the DLQ confirmed: ack the source *)
    split.
    + split; [|split].
      * eapply (Hst_frame st _ [EngineAck s [k]; DlqConfirm s k true] HH); simpl; auto.
        intros e [<-|[<-|[]]]; reflexivity.
      * destruct HS as [S1 S2 S3 S4 S5 S6 S7 S8]. constructor; simpl.
        -- intros s0. unfold u1. destruct (Nat.eqb_spec s0 s) as [->|]; [lia|apply S1].
        -- intros s0 k0 Hk0. unfold u1 in Hk0. destruct (Nat.eqb_spec s0 s) as [->|]; [|apply S2, Hk0].
           destruct (Nat.eq_dec k0 k) as [->|]; [congruence|]. apply S2. lia.
        -- intros s0. rewrite !nacked_cons. unfold u1. specialize (S3 s0).
           destruct (Nat.eqb_spec s0 s) as [->|]; simpl; lia.
        -- intros s0 Hf0. rewrite !nacked_cons. unfold u1. specialize (S4 s0 Hf0).
           destruct (Nat.eqb_spec s0 s) as [->|]; simpl; lia.
        -- intros s0. exact (S5 s0).
        -- exact S6.
        -- intros s0 k0 Hk0. rewrite !dlq_state_cons. simpl. unfold u1 in *.
           destruct (Nat.eqb_spec s0 s) as [->|Hne].
           ++ destruct (Nat.eqb_spec k0 k) as [->|Hnk0]; [lia|]. simpl.
              rewrite (S7 s k0 ltac:(lia)), Edw. destruct (Nat.eqb_spec k0 k); [contradiction|reflexivity].
           ++ simpl. apply S7, Hk0.
        -- intros s0 k0 Hd. unfold u1 in Hd. destruct (Nat.eqb_spec s0 s) as [->|Hne]; [discriminate|].
           rewrite u1_neq by exact Hne. apply S8, Hd.
      * eapply (Fst_frame st _ [EngineAck s [k]; DlqConfirm s k true] HF); simpl; auto.
    + exists [DlqConfirm s k true; EngineAck s [k]]. split; [reflexivity|].
      cbn [accepts_from]. apply andb_true_intro. split; [simpl; rewrite Hds; reflexivity|].
      rewrite andb_true_r. unfold t. cbn [accept_ev v2 nsrc ndst length]. fold t.
      rewrite nacked_cons, nreads_cons, latch_cons. cbn [plus orb].
      rewrite (H_rd st HH), Hnk. cbn [seq]. rewrite nat_list_eqb_refl_1.
      replace (s <? N) with true by (symmetry; apply Nat.ltb_lt; tauto).
      replace (k + 1 <=? nrd1 st s) with true by (symmetry; apply Nat.leb_le; lia).
      rewrite (no_latch st s HS Hf). cbn [andb Nat.leb forallb Nat.eqb negb].
      rewrite !andb_true_r. unfold justified. cbn [existsb is_dlq_ok]. rewrite !Nat.eqb_refl.
      cbn [andb orb]. rewrite orb_true_r. reflexivity.
  - (* the DLQ write failed: fail latch *)
    eapply good1_event; [|reflexivity|].
    + split; [|split].
      * eapply (Hst_frame st _ [DlqConfirm s k false] HH); simpl; auto. intros e [<-|[]]. reflexivity.
      * destruct HS as [S1 S2 S3 S4 S5 S6 S7 S8]. constructor; simpl.
        -- intros s0. unfold u1. destruct (Nat.eqb_spec s0 s) as [->|]; [lia|apply S1].
        -- intros s0 k0 Hk0. unfold u1 in Hk0. destruct (Nat.eqb_spec s0 s) as [->|]; [|apply S2, Hk0].
           destruct (Nat.eq_dec k0 k) as [->|]; [congruence|]. apply S2. lia.
        -- intros s0. rewrite nacked_cons. unfold u1. specialize (S3 s0).
           destruct (Nat.eqb_spec s0 s) as [->|]; simpl; lia.
        -- intros s0 Hf0. rewrite nacked_cons.
           destruct (Nat.eq_dec s0 s) as [E|Hne]; [subst s0; rewrite u1_eq in Hf0; discriminate|].
           rewrite u1_neq in Hf0 by exact Hne. rewrite u1_neq by exact Hne. simpl.
           destruct (Nat.eqb_spec s0 s); [contradiction|]. simpl. apply S4, Hf0.
        -- intros s0 Hl. unfold u1.
           destruct (Nat.eqb_spec s0 s) as [|Hne]; [reflexivity|]. simpl in Hl. apply S5, Hl.
        -- exact S6.
        -- intros s0 k0 Hk0. rewrite dlq_state_cons. simpl. unfold u1 in *.
           destruct (Nat.eqb_spec s0 s) as [->|Hne].
           ++ destruct (Nat.eqb_spec k0 k) as [->|Hnk0]; [lia|]. simpl.
              rewrite (S7 s k0 ltac:(lia)), Edw. destruct (Nat.eqb_spec k0 k); [contradiction|reflexivity].
           ++ simpl. apply S7, Hk0.
        -- intros s0 k0 Hd. unfold u1 in Hd. destruct (Nat.eqb_spec s0 s) as [->|Hne]; [discriminate|].
           rewrite !u1_neq by exact Hne. apply S8, Hd.
      * eapply (Fst_frame st _ [DlqConfirm s k false] HF); simpl; auto.
    + simpl. rewrite Hds. reflexivity.
Qed.

Lemma step1_good st a st' : Inv1 st -> step1 N M keep st a = Some st' -> Good1 st st'.
Proof.
  intros HI H. destruct a.
  - eapply step1_VRd; eassumption.
  - eapply step1_VStop; eassumption.
  - eapply step1_VGFilt; eassumption.
  - eapply step1_VPNack; eassumption.
  - eapply step1_VFan; eassumption.
  - eapply step1_VSkip; eassumption.
  - eapply step1_VDFilt; eassumption.
  - eapply step1_VBNack; eassumption.
  - eapply step1_VWr; eassumption.
  - eapply step1_VCf; eassumption.
  - eapply step1_VDAck; eassumption.
  - eapply step1_VDTd; eassumption.
  - eapply step1_VServeAck; eassumption.
  - eapply step1_VServeSkip; eassumption.
  - eapply step1_VServeNackW; eassumption.
  - eapply step1_VServeRefuse; eassumption.
  - eapply step1_VDlqCf; eassumption.
Qed.

Lemma run1_from_good : forall acts st,
  Inv1 st -> accepts_from t [] (rev (hist1 st)) = true ->
  Inv1 (fold_left (step1' N M keep) acts st) /\
  accepts_from t [] (rev (hist1 (fold_left (step1' N M keep) acts st))) = true.
Proof.
  induction acts as [|a acts IH]; intros st HI Ha; [auto|].
  simpl. destruct (step1 N M keep st a) as [st1|] eqn:Es.
  2:{ assert (E : step1' N M keep st a = st) by (unfold step1'; rewrite Es; reflexivity).
      rewrite E. apply IH; assumption. }
  assert (E : step1' N M keep st a = st1) by (unfold step1'; rewrite Es; reflexivity). rewrite E.
  destruct (step1_good _ _ _ HI Es) as [HI1 [em [Hh Hem]]]. apply IH; [exact HI1|].
  rewrite Hh, rev_app_distr, rev_involutive, accepts_from_app, Ha, rev_involutive, app_nil_r.
  exact Hem.
Qed.

End Inv1.

(* ---------- the theorems ---------- *)
Definition topo_v1 (N M : nat) (ckf : bool) : topo := mkTopo false N M ckf.

Definition trace_v1 (N M : nat) (ckf : bool) (acts : list act1) : list event :=
  trace1 N M (keep_of M ckf) acts.

(* every schedule of the v1 system yields a log the acceptor accepts *)
Theorem sysv1_trace_accepted N M ckf acts :
  1 <= M -> accepts (topo_v1 N M ckf) (trace_v1 N M ckf acts) = true.
Proof.
  intros HM. unfold accepts, trace_v1, trace1, run1, topo_v1. simpl ndst.
  replace (1 <=? M) with true by (symmetry; apply Nat.leb_le; exact HM). simpl.
  exact (proj2 (run1_from_good N M ckf HM acts init1 (Inv1_init N M HM) eq_refl)).
Qed.

Theorem c01_v1 N M ckf acts : 1 <= M -> C01_holds (topo_v1 N M ckf) (trace_v1 N M ckf acts).
Proof. intros HM. apply mon01_sound, accepted_mon01, sysv1_trace_accepted, HM. Qed.

Theorem acks_prefix_v1 N M ckf acts : 1 <= M -> C04_holds (topo_v1 N M ckf) (trace_v1 N M ckf acts).
Proof. intros HM. apply mon04_sound, accepted_mon04, sysv1_trace_accepted, HM. Qed.

(* C05 needs the filtered flag to survive the fan-out: Message.Clone copies it, or M = 1 *)
Theorem dest_order_v1 N M ckf acts :
  1 <= M -> keep_of M ckf = true -> C05_holds (topo_v1 N M ckf) (trace_v1 N M ckf acts).
Proof.
  intros HM Hk. apply mon05_sound, accepted_mon05; [exact Hk|apply sysv1_trace_accepted, HM].
Qed.

(* ... and without it the faithful model violates C05: one source, two destinations, the record
   a pipeline processor filtered is written to both *)
Theorem dest_order_v1_refuted_without_clone_flag :
  exists acts, Mon_C05 (topo_v1 1 2 false) (trace_v1 1 2 false acts) = false.
Proof.
  exists [VRd 0 1; VGFilt 0 0; VFan 0; VWr 0; VWr 1]. vm_compute. reflexivity.
Qed.

(* FanoutNode never calls Ack() on an already nacked original (the code would panic) *)
Theorem fanout_never_acks_nacked N M ckf acts : 1 <= M -> bug1 (run1 N M (keep_of M ckf) acts) = false.
Proof.
  intros HM.
  destruct (proj1 (run1_from_good N M ckf HM acts init1 (Inv1_init N M HM) eq_refl)) as (_ & _ & HF). apply (F_bug _ _ _ HF) || apply (F_bug _ _ HF) || apply (F_bug _ HF).
Qed.

(* ---------- SourceAckerNode: ticket order and the fail latch ---------- *)

(* acks are forwarded in ticket (= read) order: the acked positions of s are 0,1,..,n-1 with n at
   most the number of tickets released, exactly that number while nothing failed; every released
   ticket belongs to a decided message *)
Theorem acker_ticket_order N M ckf acts s :
  1 <= M ->
  let st := run1 N M (keep_of M ckf) acts in
  acks_of s (trace_v1 N M ckf acts) = seq 0 (length (acks_of s (trace_v1 N M ckf acts))) /\
  length (acks_of s (trace_v1 N M ckf acts)) <= tick st s /\
  (fail1 st s = false -> length (acks_of s (trace_v1 N M ckf acts)) = tick st s) /\
  (forall k, k < tick st s -> mst st s k <> MOpen).
Proof.
  intros HM st.
  destruct (run1_from_good N M ckf HM acts init1 (Inv1_init N M HM) eq_refl) as [(HH & HS & HF) Hacc].
  fold (run1 N M (keep_of M ckf) acts) in *. fold st in HS, Hacc.
  destruct (seg_inv_accepted _ _ Hacc s) as (_ & Ha & _).
  unfold trace_v1, trace1. fold st.
  assert (E : length (acks_of s (rev (hist1 st))) = nacked s (hist1 st)).
  { rewrite <- nacked_rev, rev_involutive. reflexivity. }
  split; [exact Ha|]. rewrite E.
  split; [apply (S_nacked_le _ _ HS)|]. split; [apply (S_nacked_eq _ _ HS)|apply (S_handled _ _ HS)].
Qed.

Ltac crush1 H :=
  repeat match type of H with
  | (match ?x with _ => _ end) = Some _ => destruct x eqn:?; try discriminate
  | (if ?c then _ else _) = Some _ => destruct c eqn:?; try discriminate
  end.

Lemma failed_step N M keep st a st' s :
  Sst N st -> fail1 st s = true -> step1 N M keep st a = Some st' ->
  fail1 st' s = true /\ nacked s (hist1 st') = nacked s (hist1 st).
Proof.
  intros HS Hf H.
  destruct a as [s0 n| |s0 k|s0 k|s0|s0|d s0 k|d s0 k|d|d ok|d|d|s0|s0|s0|s0|s0 ok];
    cbn [step1] in H; cbv zeta in H; crush1 H.
  all: try (injection H as <-).
  all: simpl; rewrite ?nacked_app, ?nacked_cons; simpl.
  all: try (rewrite nacked_quiet by (intros x Hx; apply in_rev_map_read in Hx; destruct Hx as [? [-> _]]; reflexivity)).
  all: try (split; [assumption|reflexivity]).
  all: destruct (Nat.eq_dec s0 s) as [->|Hne].
  all: try (rewrite ?u1_neq by exact Hne; destruct (Nat.eqb_spec s s0); [congruence|]; simpl; auto; fail).
  all: try (rewrite Hf in *; simpl in *; rewrite ?andb_false_r in *; discriminate).
  all: try (rewrite u1_eq; auto; fail).
  all: try (rewrite u1_neq by (intros Hx; apply Hne; symmetry; exact Hx); auto; fail).
  all: match goal with Hd : dlqw _ _ = Some _ |- _ =>
         let E := fresh in destruct (S_dlqw _ _ HS _ _ Hd) as (_ & _ & E); congruence end.
Qed.

Lemma failed_run N M ckf s : 1 <= M -> forall acts st,
  Inv1 N M st -> fail1 st s = true ->
  Inv1 N M (fold_left (step1' N M (keep_of M ckf)) acts st) /\
  fail1 (fold_left (step1' N M (keep_of M ckf)) acts st) s = true /\
  nacked s (hist1 (fold_left (step1' N M (keep_of M ckf)) acts st)) = nacked s (hist1 st).
Proof.
  intros HM. induction acts as [|a acts IH]; intros st HI Hf; [auto|].
  simpl. destruct (step1 N M (keep_of M ckf) st a) as [st1|] eqn:Es.
  - assert (E : step1' N M (keep_of M ckf) st a = st1) by (unfold step1'; rewrite Es; reflexivity).
    rewrite E. destruct (step1_good N M ckf HM _ _ _ HI Es) as [HI1 _].
    destruct HI as (HH & HS & HF). destruct (failed_step _ _ _ _ _ _ _ HS Hf Es) as [Hf1 Hn1].
    destruct (IH st1 HI1 Hf1) as (HI2 & Hf2 & Hn2). split; [exact HI2|]. split; [exact Hf2|congruence].
  - assert (E : step1' N M (keep_of M ckf) st a = st) by (unfold step1'; rewrite Es; reflexivity).
    rewrite E. apply IH; assumption.
Qed.

(* once SourceAckerNode s has failed (a DLQ write failed or was refused), no schedule makes the
   engine ack anything more to source s *)
Theorem stop_or_fail_never_acks_v1 N M ckf acts1 acts2 s :
  1 <= M ->
  fail1 (run1 N M (keep_of M ckf) acts1) s = true ->
  length (acks_of s (trace_v1 N M ckf (acts1 ++ acts2))) = length (acks_of s (trace_v1 N M ckf acts1)).
Proof.
  intros HM Hf. unfold trace_v1, trace1, run1 in *. rewrite fold_left_app.
  pose proof (proj1 (run1_from_good N M ckf HM acts1 init1 (Inv1_init N M HM) eq_refl)) as HI.
  destruct (failed_run N M ckf s HM acts2 _ HI Hf) as (_ & _ & Hn).
  rewrite <- !nacked_rev, !rev_involutive. exact Hn.
Qed.
