(* The property theorems of C02 / C03 in declarative form, for every accepted log and - through
   model_log_accepted - for every schedule and every fault of the connector-layer model. *)
From Coq Require Import Sorted.
From Verif Require Import Conn.Crash Conn.TraceProofs Conn.ModelProofs.

(* ---------- reading the log ---------- *)
Definition eacks (s : conn) (l : list event) : list (list pos) :=
  flat_map (fun e => match e with EAck s' ks => if s' =? s then [ks] else [] | _ => [] end) l.

Definition ereads (s : conn) (l : list event) : list pos :=
  flat_map (fun e => match e with ERead s' r => if s' =? s then [r] else [] | _ => [] end) l.

Definition epacks (s : conn) (l : list event) : list (nat * list pos) :=
  flat_map (fun e => match e with EPAck s' n ks => if s' =? s then [(n, ks)] else [] | _ => [] end) l.

Definition sendfails (s : conn) (l : list event) : nat :=
  length (flat_map (fun e => match e with ESendFail s' n => if s' =? s then [n] else [] | _ => [] end) l).

(* the store after a log prefix: what a process that dies right there leaves behind *)
Definition stored_tag (c : cfg) (s : conn) (l : list event) : nat := stag (src (state_after c l) s).
Definition stored_pos (c : cfg) (s : conn) (l : list event) : pos := spos (src (state_after c l) s).
(* the engine hypothesis on a log prefix: records are read in increasing order and the engine acks
   exactly the records it read, in read order, without gap, repeat or empty position *)
Definition engine_in_order (c : cfg) (s : conn) (l : list event) : Prop :=
  eng (src (state_after c l) s) = true.

Lemma state_after_snoc c l e : state_after c (l ++ [e]) = track c (state_after c l) e.
Proof. unfold state_after. rewrite fold_left_app. reflexivity. Qed.

Lemma accepts_prefix c l1 l2 : accepts c (l1 ++ l2) = true -> accepts c l1 = true.
Proof. unfold accepts. rewrite runchk_app. intros H. apply andb_true_iff in H. tauto. Qed.

Lemma accepts_at c l1 e l2 :
  accepts c (l1 ++ e :: l2) = true -> acc_ok c (state_after c l1) e = true.
Proof.
  unfold accepts. rewrite runchk_app. intros H. apply andb_true_iff in H. destruct H as [_ H].
  simpl in H. apply andb_true_iff in H. tauto.
Qed.

Lemma runchk_at c chk l1 e l2 :
  runchk c chk (init_t c) (l1 ++ e :: l2) = true -> chk (state_after c l1) e = true.
Proof.
  rewrite runchk_app. intros H. apply andb_true_iff in H. destruct H as [_ H].
  simpl in H. apply andb_true_iff in H. tauto.
Qed.

Lemma inv_after c l : accepts c l = true -> Inv c (state_after c l).
Proof.
  unfold accepts, state_after. generalize (inv_init c). generalize (init_t c).
  induction l as [|e l IH]; intros t HI H; [exact HI|].
  simpl in H. apply andb_true_iff in H. destruct H as [H1 H2]. simpl. apply IH; [apply step_inv; assumption|exact H2].
Qed.

(* ---------- what the tracked state means in terms of the log ---------- *)
Lemma src_track_other c t e s :
  (forall s' r, e <> ERead s' r) -> (forall s' ks, e <> EAck s' ks) ->
  acks (src (track c t e) s) = acks (src t s) /\ reads (src (track c t e) s) = reads (src t s).
Proof.
  intros H1 H2. destruct e as [s0 r|s0 ks| | |ws ok snap|s0 n ks|s0 n|s0|s0|s0|s0 fast|s0 hn]; simpl;
    try (exfalso; eapply H1; reflexivity); try (exfalso; eapply H2; reflexivity); auto.
  - destruct (apply_writes_frame ok ws (src t) s) as (F1 & F2 & _). auto.
  - unfold upd. destruct (s =? s0) eqn:E; [apply Nat.eqb_eq in E; subst|]; auto.
  - unfold upd. destruct (s =? s0) eqn:E; [apply Nat.eqb_eq in E; subst|]; auto.
  - unfold upd. destruct (s =? s0) eqn:E; [apply Nat.eqb_eq in E; subst|]; auto.
  - unfold upd. destruct (s =? s0) eqn:E; [apply Nat.eqb_eq in E; subst|]; auto.
  - unfold upd. destruct (s =? s0) eqn:E; [apply Nat.eqb_eq in E; subst|]; auto.
  - unfold upd. destruct (s =? s0) eqn:E; [apply Nat.eqb_eq in E; subst|]; auto.
Qed.

Lemma acks_state c s l : acks (src (state_after c l) s) = eacks s l.
Proof.
  induction l as [|e l IH] using rev_ind; [reflexivity|].
  rewrite state_after_snoc. unfold eacks in *. rewrite flat_map_app. simpl. rewrite app_nil_r.
  destruct e as [s0 r|s0 ks| | |ws ok snap|s0 n ks|s0 n|s0|s0|s0|s0 fast|s0 hn];
    try (rewrite app_nil_r; rewrite <- IH; apply src_track_other; intros; discriminate).
  - rewrite app_nil_r, <- IH. simpl. unfold upd. destruct (s =? s0) eqn:E; [apply Nat.eqb_eq in E; subst|]; reflexivity.
  - simpl. unfold upd. rewrite (Nat.eqb_sym s0 s). destruct (s =? s0) eqn:E.
    + apply Nat.eqb_eq in E; subst. simpl. rewrite IH. reflexivity.
    + rewrite app_nil_r. exact IH.
Qed.

Lemma reads_state c s l : reads (src (state_after c l) s) = ereads s l.
Proof.
  induction l as [|e l IH] using rev_ind; [reflexivity|].
  rewrite state_after_snoc. unfold ereads in *. rewrite flat_map_app. simpl. rewrite app_nil_r.
  destruct e as [s0 r|s0 ks| | |ws ok snap|s0 n ks|s0 n|s0|s0|s0|s0 fast|s0 hn];
    try (rewrite app_nil_r; rewrite <- IH; apply src_track_other; intros; discriminate).
  - simpl. unfold upd. rewrite (Nat.eqb_sym s0 s). destruct (s =? s0) eqn:E.
    + apply Nat.eqb_eq in E; subst. simpl. rewrite IH. reflexivity.
    + rewrite app_nil_r. exact IH.
  - rewrite app_nil_r, <- IH. simpl. unfold upd. destruct (s =? s0) eqn:E; [apply Nat.eqb_eq in E; subst|]; reflexivity.
Qed.

(* a successful write with the tag okmax stands in the log *)
Lemma okmax_witness c s l :
  okmax (src (state_after c l) s) = 0 \/
  exists l1 ws snap l2 p, l = l1 ++ ECommit ws true snap :: l2 /\
                          In (mkW s (okmax (src (state_after c l) s)) p true) ws.
Proof.
  induction l as [|e l IH] using rev_ind; [left; reflexivity|].
  rewrite state_after_snoc. set (t := state_after c l) in *.
  assert (Hkeep : okmax (src (track c t e) s) = okmax (src t s) ->
                  okmax (src (track c t e) s) = 0 \/
                  exists l1 ws snap l2 p, l ++ [e] = l1 ++ ECommit ws true snap :: l2 /\
                     In (mkW s (okmax (src (track c t e) s)) p true) ws).
  { intros E. rewrite E. destruct IH as [IH|(l1 & ws & snap & l2 & p & -> & Hin)]; [left; exact IH|].
    right. exists l1, ws, snap, (l2 ++ [e]), p. rewrite <- app_assoc. simpl. auto. }
  destruct e as [s0 r|s0 ks| | |ws ok snap|s0 n ks|s0 n|s0|s0|s0|s0 fast|s0 hn];
    try (apply Hkeep; simpl; unfold upd; destruct (s =? s0) eqn:E; [apply Nat.eqb_eq in E; subst|]; reflexivity);
    try (apply Hkeep; reflexivity).
  (* ECommit *)
  simpl. clear Hkeep.
  assert (Hgen : forall ws' f,
            (okmax (f s) = 0 \/ (exists p, In (mkW s (okmax (f s)) p true) ws /\ ok = true) \/ okmax (f s) = okmax (src t s)) ->
            (forall w, In w ws' -> In w ws) ->
            okmax (apply_writes ok f ws' s) = 0 \/
            (exists p, In (mkW s (okmax (apply_writes ok f ws' s)) p true) ws /\ ok = true) \/
            okmax (apply_writes ok f ws' s) = okmax (src t s)).
  { induction ws' as [|w r IHw]; intros f Hf Hsub; [exact Hf|].
    unfold apply_writes in *. simpl. apply IHw; [|intros w' Hw'; apply Hsub; right; exact Hw'].
    destruct (Nat.eq_dec s (w_s w)) as [->|E]; [|rewrite upd_other by exact E; exact Hf].
    rewrite upd_same. unfold apply_write. simpl.
    destruct (ok && w_ok w) eqn:Eo; [|exact Hf].
    apply andb_true_iff in Eo. destruct Eo as [-> Ewok].
    destruct (Nat.max_spec (okmax (f (w_s w))) (w_tag w)) as [[_ ->]|[_ ->]]; [|exact Hf].
    right. left. exists (w_pos w). split; [|reflexivity]. apply Hsub. left.
    destruct w as [ws0 wt wp wo]. simpl in *. subst wo. reflexivity. }
  destruct (Hgen ws (src t) (or_intror (or_intror eq_refl)) (fun w H => H)) as [H|[(p & Hin & ->)|H]].
  - left. exact H.
  - right. exists l, ws, snap, [], p. auto.
  - rewrite H. destruct IH as [IH|(l1 & ws' & snap' & l2 & p & -> & Hin)]; [left; exact IH|].
    right. exists l1, ws', snap', (l2 ++ [ECommit ws ok snap]), p. rewrite <- app_assoc. simpl. auto.
Qed.

(* ====================================================================================
   C02 on accepted logs
   ==================================================================================== *)
Theorem acc_plugin_ack_after_commit c l1 s n ks l2 :
  fixed c = true -> accepts c (l1 ++ EPAck s n ks :: l2) = true ->
  0 < n /\ nth_error (eacks s l1) (n - 1) = Some ks /\
  exists j1 ws snap j2 n' p,
    l1 = j1 ++ ECommit ws true snap :: j2 /\ In (mkW s n' p true) ws /\ n <= n'.
Proof.
  intros Hfx Ha. pose proof (accepts_at _ _ _ _ Ha) as H. simpl in H.
  repeat (apply andb_true_iff in H; destruct H as [H ?]).
  apply Nat.eqb_eq in H2. apply Nat.leb_le in H1. unfold cov in H1. rewrite Hfx in H1.
  destruct (ack_at (src (state_after c l1) s) n) as [ks'|] eqn:Hk; [|discriminate].
  apply list_eqb_nat_eq in H0. subst ks'.
  split; [lia|]. split.
  - destruct n as [|k]; [discriminate|]. simpl in Hk. rewrite acks_state in Hk. simpl. rewrite Nat.sub_0_r. exact Hk.
  - destruct (okmax_witness c s l1) as [E|(j1 & ws & snap & j2 & p & E & Hin)]; [lia|].
    exists j1, ws, snap, j2, (okmax (src (state_after c l1) s)), p. auto.
Qed.

Theorem acc_failed_write_never_acks c l1 s n ks l2 :
  fixed c = true -> accepts c (l1 ++ EPAck s n ks :: l2) = true ->
  ~ (forall j1 ws ok snap j2 w, l1 = j1 ++ ECommit ws ok snap :: j2 -> In w ws -> w_s w = s -> n <= w_tag w ->
                               ok && w_ok w = false).
Proof.
  intros Hfx Ha Hall. destruct (acc_plugin_ack_after_commit _ _ _ _ _ _ Hfx Ha) as (_ & _ & j1 & ws & snap & j2 & n' & p & E & Hin & Hle).
  specialize (Hall j1 ws true snap j2 _ E Hin eq_refl Hle). discriminate.
Qed.

Lemma commit_write_facts c l1 ws snap l2 w :
  accepts c (l1 ++ ECommit ws true snap :: l2) = true -> In w ws -> w_ok w = true ->
  let x := src (state_after c l1) (w_s w) in
  InvS (init_of c (w_s w)) x /\ write_ok c (state_after c l1) w = true /\ mon2_write c (state_after c l1) true w = true /\
  nodup_src ws = true.
Proof.
  intros Ha Hin Hok x. pose proof (accepts_at _ _ _ _ Ha) as H. simpl in H.
  apply andb_true_iff in H. destruct H as [H _]. apply andb_true_iff in H. destruct H as [H _].
  apply andb_true_iff in H. destruct H as [H Hall]. apply andb_true_iff in H. destruct H as [_ Hnd].
  pose proof (inv_after c l1 (accepts_prefix _ _ _ Ha)) as [HS _].
  rewrite forallb_forall in Hall. specialize (Hall w Hin).
  split; [apply HS|]. split; [exact Hall|]. split; [apply write_mon2; auto|exact Hnd].
Qed.

Theorem acc_stored_position_monotone c l1 ws snap l2 w :
  accepts c (l1 ++ ECommit ws true snap :: l2) = true -> In w ws -> w_ok w = true ->
  engine_in_order c (w_s w) l1 ->
  stored_pos c (w_s w) l1 <= w_pos w /\ (w_tag w <> 0 -> w_pos w <> 0) /\
  stored_pos c (w_s w) (l1 ++ [ECommit ws true snap]) = w_pos w.
Proof.
  intros Ha Hin Hok He. destruct (commit_write_facts _ _ _ _ _ _ Ha Hin Hok) as (HI & Hw & Hm & Hnd).
  unfold engine_in_order in He. unfold mon2_write in Hm. rewrite Hok, He in Hm. simpl in Hm.
  destruct (pos_of_tag (init_of c (w_s w)) (src (state_after c l1) (w_s w)) (w_tag w)) as [p|]; [|discriminate].
  apply andb_true_iff in Hm. destruct Hm as [_ Hm]. apply andb_true_iff in Hm. destruct Hm as [Hm _].
  apply andb_true_iff in Hm. destruct Hm as [H1 H0]. apply Nat.leb_le in H1.
  unfold stored_pos. split; [exact H1|]. split.
  - intros Hne. apply orb_true_iff in H0. destruct H0 as [H0|H0]; [apply Nat.eqb_eq in H0; contradiction|].
    apply negb_true_iff, Nat.eqb_neq in H0. exact H0.
  - rewrite state_after_snoc. simpl.
    destruct (apply_writes_cases true ws (src (state_after c l1)) (w_s w) Hnd) as [[_ Hno]|(w' & Hw' & Es & ->)].
    + exfalso. apply (Hno w Hin). reflexivity.
    + assert (w' = w).
      { clear - Hnd Hin Hw' Es. induction ws as [|v r IH]; [destruct Hin|]. destruct (nodup_head _ _ Hnd) as [Hv Hr].
        destruct Hin as [->|Hin], Hw' as [->|Hw']; auto.
        - exfalso. apply (Hv w' Hw'). exact Es.
        - exfalso. apply (Hv w Hin). symmetry. exact Es. }
      subst w'. unfold apply_write. simpl. rewrite Hok. reflexivity.
Qed.

Theorem acc_commit_covers_handled c l1 ws snap l2 w :
  accepts c (l1 ++ ECommit ws true snap :: l2) = true -> In w ws -> w_ok w = true ->
  ((w_tag w = 0 /\ w_pos w = init_of c (w_s w)) \/
   (0 < w_tag w /\ exists ks, nth_error (eacks (w_s w) l1) (w_tag w - 1) = Some ks /\ lastp_of ks = w_pos w)) /\
  (engine_in_order c (w_s w) l1 ->
   forall r, In r (ereads (w_s w) l1) -> r <= w_pos w -> exists ks, In ks (eacks (w_s w) l1) /\ In r ks).
Proof.
  intros Ha Hin Hok. destruct (commit_write_facts _ _ _ _ _ _ Ha Hin Hok) as (HI & Hw & Hm & Hnd).
  unfold mon2_write in Hm. rewrite Hok in Hm. simpl in Hm. set (x := src (state_after c l1) (w_s w)) in *.
  destruct (pos_of_tag (init_of c (w_s w)) x (w_tag w)) as [p|] eqn:Hp; [|discriminate].
  apply andb_true_iff in Hm. destruct Hm as [Hpe Hm]. apply Nat.eqb_eq in Hpe. subst p. split.
  - destruct (w_tag w) as [|k] eqn:Et; simpl in Hp.
    + left. inversion Hp. auto.
    + right. split; [lia|]. destruct (nth_error (acks x) k) as [ks|] eqn:Hk; [|discriminate].
      exists ks. unfold x in Hk. rewrite acks_state in Hk. simpl. rewrite Nat.sub_0_r. inversion Hp. auto.
  - intros He r Hr Hle. unfold engine_in_order in He. fold x in He. rewrite He in Hm. simpl in Hm.
    apply andb_true_iff in Hm. destruct Hm as [_ H].
    destruct (i_eng _ _ HI He) as (Hc & _ & _ & _ & _).
    rewrite <- (reads_state c) in Hr. fold x in Hr.
    rewrite <- (firstn_skipn (nacked x) (reads x)) in Hr. apply in_app_or in Hr. destruct Hr as [Hr|Hr].
    + rewrite <- Hc in Hr. apply in_concat in Hr. destruct Hr as (ks & Hks & Hrk).
      exists ks. unfold x in Hks. rewrite acks_state in Hks. auto.
    + unfold handled_upto in H. rewrite forallb_forall in H. specialize (H r Hr). apply Nat.ltb_lt in H. lia.
Qed.

(* ---------- deferred_fifo ---------- *)
Lemma track_deliv_frame c t e s :
  (forall n ks, e <> EPAck s n ks) -> (forall n, e <> ESendFail s n) ->
  lastp (src (track c t e) s) = lastp (src t s) /\ dn (src (track c t e) s) = dn (src t s).
Proof.
  intros H1 H2. destruct e as [s0 r|s0 ks| | |ws ok snap|s0 n ks|s0 n|s0|s0|s0|s0 fast|s0 hn]; simpl; auto;
    try (unfold upd; destruct (s =? s0) eqn:E; [apply Nat.eqb_eq in E; subst|]; auto; fail).
  - destruct (apply_writes_frame ok ws (src t) s) as (_ & _ & _ & _ & _ & F6 & F7 & _). auto.
  - unfold upd; destruct (s =? s0) eqn:E; [apply Nat.eqb_eq in E; subst; exfalso; eapply H1; reflexivity|auto].
  - unfold upd; destruct (s =? s0) eqn:E; [apply Nat.eqb_eq in E; subst; exfalso; eapply H2; reflexivity|auto].
Qed.

Definition fifo_inv (c : cfg) (s : conn) (l : list event) : Prop :=
  let x := src (state_after c l) s in
  StronglySorted lt (map fst (epacks s l)) /\
  (forall n, In n (map fst (epacks s l)) -> n <= lastp x) /\
  (forall n ks, In (n, ks) (epacks s l) -> 0 < n /\ nth_error (eacks s l) (n - 1) = Some ks) /\
  (sendfails s l = 0 -> dn x = length (epacks s l) /\ map fst (epacks s l) = seq 1 (length (epacks s l))).

Lemma epacks_snoc s l e :
  epacks s (l ++ [e]) = epacks s l ++ match e with EPAck s' n ks => if s' =? s then [(n, ks)] else [] | _ => [] end.
Proof. unfold epacks. rewrite flat_map_app. simpl. rewrite app_nil_r. reflexivity. Qed.

Lemma eacks_snoc s l e :
  eacks s (l ++ [e]) = eacks s l ++ match e with EAck s' ks => if s' =? s then [ks] else [] | _ => [] end.
Proof. unfold eacks. rewrite flat_map_app. simpl. rewrite app_nil_r. reflexivity. Qed.

Lemma sendfails_snoc s l e :
  sendfails s (l ++ [e]) = sendfails s l + match e with ESendFail s' n => if s' =? s then 1 else 0 | _ => 0 end.
Proof.
  unfold sendfails. rewrite flat_map_app, app_length. simpl. rewrite app_nil_r.
  destruct e; try reflexivity. destruct (s0 =? s); reflexivity.
Qed.

Ltac fifo_fin I3 I4 Hgrow :=
  repeat split; auto;
  try (intros; match goal with H : In (_, _) _ |- _ => first [apply (I3 _ _ H) | apply (Hgrow _ _ H)] end);
  try (match goal with H : sendfails _ _ = 0 |- _ => apply (I4 H) end).

Lemma fifo_inv_holds c s l : accepts c l = true -> fifo_inv c s l.
Proof.
  induction l as [|e l IH] using rev_ind; intros Ha.
  - unfold fifo_inv. simpl. repeat split; try constructor; try (intros ? []); try (intros ? ? []); try contradiction.
  - specialize (IH (accepts_prefix _ _ _ Ha)). pose proof (accepts_at c l e [] Ha) as Hacc.
    pose proof (inv_after c l (accepts_prefix _ _ _ Ha)) as [HS _].
    destruct IH as (I1 & I2 & I3 & I4). unfold fifo_inv. rewrite state_after_snoc, epacks_snoc, eacks_snoc, sendfails_snoc.
    set (t := state_after c l) in *.
    assert (Hgrow : forall n ks, In (n, ks) (epacks s l) ->
               0 < n /\ nth_error (eacks s l ++ match e with EAck s' ks0 => if s' =? s then [ks0] else [] | _ => [] end) (n - 1) = Some ks).
    { intros n ks Hin. destruct (I3 n ks Hin) as [Hp Hn]. split; [exact Hp|].
      rewrite nth_error_app1; [exact Hn|]. apply nth_error_Some. congruence. }
    destruct e as [s0 r|s0 ks| | |ws ok snap|s0 n ks|s0 n|s0|s0|s0|s0 fast|s0 hn];
      try (match goal with |- context [track c t ?ev] =>
             destruct (track_deliv_frame c t ev s ltac:(intros; discriminate) ltac:(intros; discriminate)) as [-> ->] end;
           rewrite ?app_nil_r, ?Nat.add_0_r in *; fifo_fin I3 I4 Hgrow; fail).
    + (* EPAck *)
      destruct (s0 =? s) eqn:E.
      * apply Nat.eqb_eq in E. subst s0. simpl in Hacc.
        repeat (apply andb_true_iff in Hacc; destruct Hacc as [Hacc ?]). apply Nat.eqb_eq in H1.
        destruct (ack_at (src t s) n) as [ks'|] eqn:Hk; [|discriminate]. apply list_eqb_nat_eq in H. subst ks'.
        pose proof (i_lastp _ _ (HS s)) as Hlp.
        simpl. rewrite upd_same. simpl. rewrite map_app, app_length. simpl. rewrite Nat.add_0_r, app_nil_r.
        split; [|split; [|split]].
        -- apply ss_app. repeat split; [exact I1|repeat constructor|]. intros a b Ha' [<-|[]]. specialize (I2 a Ha'). lia.
        -- intros a Ha'. apply in_app_or in Ha'. destruct Ha' as [Ha'|[<-|[]]]; [specialize (I2 a Ha'); lia|lia].
        -- intros n0 ks0 Hin. apply in_app_or in Hin. destruct Hin as [Hin|[Hin|[]]]; [apply (I3 _ _ Hin)|].
           inversion Hin; subst n0 ks0. split; [lia|].
           destruct n as [|k]; [discriminate|]. simpl in Hk. unfold t in Hk. rewrite acks_state in Hk.
           simpl. rewrite Nat.sub_0_r. exact Hk.
        -- intros Hz. rewrite ?Nat.add_0_r in Hz. destruct (I4 Hz) as [Hd Hm]. split; [lia|].
           rewrite Nat.add_1_r, seq_S, Hm. f_equal. simpl. f_equal. lia.
      * destruct (track_deliv_frame c t (EPAck s0 n ks) s) as [-> ->].
        { intros n' ks' E'. inversion E'. subst. rewrite Nat.eqb_refl in E. discriminate. }
        { intros; discriminate. }
        rewrite ?app_nil_r, ?Nat.add_0_r in *. fifo_fin I3 I4 Hgrow.
    + (* ESendFail *)
      destruct (s0 =? s) eqn:E.
      * apply Nat.eqb_eq in E. subst s0. rewrite ?app_nil_r in *.
        assert (Hl : lastp (src (track c t (ESendFail s n)) s) = lastp (src t s)) by (simpl; rewrite upd_same; reflexivity).
        rewrite Hl. fifo_fin I3 I4 Hgrow; lia.
      * destruct (track_deliv_frame c t (ESendFail s0 n) s) as [-> ->].
        { intros; discriminate. }
        { intros n' E'. inversion E'. subst. rewrite Nat.eqb_refl in E. discriminate. }
        rewrite ?app_nil_r, ?Nat.add_0_r in *. fifo_fin I3 I4 Hgrow.
Qed.

Theorem acc_deferred_fifo c l s :
  accepts c l = true ->
  StronglySorted lt (map fst (epacks s l)) /\
  (forall n ks, In (n, ks) (epacks s l) -> 0 < n /\ nth_error (eacks s l) (n - 1) = Some ks) /\
  (sendfails s l = 0 -> map fst (epacks s l) = seq 1 (length (epacks s l))).
Proof.
  intros Ha. destruct (fifo_inv_holds c s l Ha) as (I1 & _ & I3 & I4). repeat split; auto.
  - apply (I3 n ks H).
  - apply (I3 n ks H).
  - intros H. apply (I4 H).
Qed.

(* ---------- monotone store tag, reads above the opening position ---------- *)
Lemma track_store_frame c t e s :
  (forall ws ok snap, e <> ECommit ws ok snap) ->
  stag (src (track c t e) s) = stag (src t s) /\ spos (src (track c t e) s) = spos (src t s).
Proof.
  intros H. destruct e as [s0 r|s0 ks| | |ws ok snap|s0 n ks|s0 n|s0|s0|s0|s0 fast|s0 hn]; simpl; auto;
    try (unfold upd; destruct (s =? s0) eqn:E; [apply Nat.eqb_eq in E; subst|]; auto; fail).
  exfalso. eapply H. reflexivity.
Qed.

Lemma stag_mono_step c t e s : Inv c t -> acc_ok c t e = true -> stag (src t s) <= stag (src (track c t e) s).
Proof.
  intros HI Ha. destruct e as [s0 r|s0 ks| | |ws ok snap|s0 n ks|s0 n|s0|s0|s0|s0 fast|s0 hn];
    try (match goal with |- context [track c t ?ev] => destruct (track_store_frame c t ev s ltac:(intros; discriminate)) as [-> _] end; lia).
  simpl in Ha. apply andb_true_iff in Ha. destruct Ha as [Ha _]. apply andb_true_iff in Ha. destruct Ha as [Ha _].
  apply andb_true_iff in Ha. destruct Ha as [Ha Hall]. apply andb_true_iff in Ha. destruct Ha as [_ Hnd].
  simpl. destruct (apply_writes_cases ok ws (src t) s Hnd) as [[-> _]|(w & Hw & Es & ->)]; [lia|].
  rewrite forallb_forall in Hall. specialize (Hall w Hw). unfold write_ok in Hall. rewrite Es in Hall.
  apply andb_true_iff in Hall. destruct Hall as [Hall _]. apply andb_true_iff in Hall. destruct Hall as [_ Ht].
  destruct HI as [HS _]. pose proof (i_stag_wn _ _ (HS s)). unfold apply_write. simpl.
  destruct (ok && w_ok w); [|lia].
  destruct (w_tag w =? 0) eqn:E0.
  - apply negb_true_iff in Ht. pose proof (i_seen _ _ (HS s) Ht). lia.
  - apply Nat.ltb_lt in Ht. lia.
Qed.

Lemma stag_mono c l1 l2 s :
  accepts c (l1 ++ l2) = true -> stored_tag c s l1 <= stored_tag c s (l1 ++ l2).
Proof.
  unfold stored_tag. induction l2 as [|e l2 IH] using rev_ind; intros Ha; [rewrite app_nil_r; lia|].
  rewrite app_assoc in Ha |- *. specialize (IH (accepts_prefix _ _ _ Ha)).
  rewrite state_after_snoc. etransitivity; [exact IH|].
  apply stag_mono_step; [apply inv_after; apply (accepts_prefix _ _ _ Ha)|apply (accepts_at c (l1 ++ l2) e [] Ha)].
Qed.

Lemma lastread_ge_init c l s : accepts c l = true -> init_of c s <= lastread (src (state_after c l) s).
Proof.
  induction l as [|e l IH] using rev_ind; intros Ha; [simpl; lia|].
  specialize (IH (accepts_prefix _ _ _ Ha)). pose proof (accepts_at c l e [] Ha) as Hacc.
  rewrite state_after_snoc. set (t := state_after c l) in *.
  destruct e as [s0 r|s0 ks| | |ws ok snap|s0 n ks|s0 n|s0|s0|s0|s0 fast|s0 hn]; simpl; auto;
    try (unfold upd; destruct (s =? s0) eqn:E; [apply Nat.eqb_eq in E; subst|]; auto; fail).
  - unfold upd; destruct (s =? s0) eqn:E; [apply Nat.eqb_eq in E; subst|]; auto. simpl.
    simpl in Hacc. apply andb_true_iff in Hacc. destruct Hacc as [_ Hacc]. apply Nat.ltb_lt in Hacc. lia.
  - destruct (apply_writes_frame ok ws (src t) s) as (_ & _ & -> & _). exact IH.
Qed.

Theorem acc_reads_above_init c l s r : accepts c l = true -> In (ERead s r) l -> init_of c s < r.
Proof.
  intros Ha Hin. apply in_split in Hin. destruct Hin as (l1 & l2 & ->).
  pose proof (accepts_at _ _ _ _ Ha) as Hacc. simpl in Hacc.
  apply andb_true_iff in Hacc. destruct Hacc as [_ Hacc]. apply Nat.ltb_lt in Hacc.
  pose proof (lastread_ge_init c l1 s (accepts_prefix _ _ _ Ha)). lia.
Qed.

(* ====================================================================================
   The theorems for the model: every schedule, every fault
   ==================================================================================== *)
Section ModelTheorems.
Variable m : mcfg.
Let c := m_cfg m.
Hypothesis Hret : 1 <= retries c.

(* C02 *)
Theorem plugin_ack_after_commit acts l1 s n ks l2 :
  fixed c = true -> run_log m acts = l1 ++ EPAck s n ks :: l2 ->
  0 < n /\ nth_error (eacks s l1) (n - 1) = Some ks /\
  exists j1 ws snap j2 n' p,
    l1 = j1 ++ ECommit ws true snap :: j2 /\ In (mkW s n' p true) ws /\ n <= n'.
Proof.
  intros Hfx E. apply (acc_plugin_ack_after_commit c _ _ _ _ l2 Hfx). rewrite <- E. apply model_log_accepted. exact Hret.
Qed.

Theorem failed_write_never_acks acts l1 s n ks l2 :
  fixed c = true -> run_log m acts = l1 ++ EPAck s n ks :: l2 ->
  ~ (forall j1 ws ok snap j2 w, l1 = j1 ++ ECommit ws ok snap :: j2 -> In w ws -> w_s w = s -> n <= w_tag w ->
                               ok && w_ok w = false).
Proof.
  intros Hfx E. apply (acc_failed_write_never_acks c _ _ _ ks l2 Hfx). rewrite <- E. apply model_log_accepted. exact Hret.
Qed.

Theorem stored_position_monotone acts l1 ws snap l2 w :
  run_log m acts = l1 ++ ECommit ws true snap :: l2 -> In w ws -> w_ok w = true ->
  engine_in_order c (w_s w) l1 ->
  stored_pos c (w_s w) l1 <= w_pos w /\ (w_tag w <> 0 -> w_pos w <> 0) /\
  stored_pos c (w_s w) (l1 ++ [ECommit ws true snap]) = w_pos w.
Proof.
  intros E. apply (acc_stored_position_monotone c _ _ _ l2). rewrite <- E. apply model_log_accepted. exact Hret.
Qed.

Theorem commit_covers_handled acts l1 ws snap l2 w :
  run_log m acts = l1 ++ ECommit ws true snap :: l2 -> In w ws -> w_ok w = true ->
  ((w_tag w = 0 /\ w_pos w = init_of c (w_s w)) \/
   (0 < w_tag w /\ exists ks, nth_error (eacks (w_s w) l1) (w_tag w - 1) = Some ks /\ lastp_of ks = w_pos w)) /\
  (engine_in_order c (w_s w) l1 ->
   forall r, In r (ereads (w_s w) l1) -> r <= w_pos w -> exists ks, In ks (eacks (w_s w) l1) /\ In r ks).
Proof.
  intros E. apply (acc_commit_covers_handled c _ _ snap l2). rewrite <- E. apply model_log_accepted. exact Hret.
Qed.

Theorem deferred_fifo acts s :
  let l := run_log m acts in
  StronglySorted lt (map fst (epacks s l)) /\
  (forall n ks, In (n, ks) (epacks s l) -> 0 < n /\ nth_error (eacks s l) (n - 1) = Some ks) /\
  (sendfails s l = 0 -> map fst (epacks s l) = seq 1 (length (epacks s l))).
Proof. intros l. apply (acc_deferred_fifo c). apply model_log_accepted. exact Hret. Qed.

Lemma run_state acts :
  let y := run m (init_sys m) acts in
  G m y (state_after c (log_of y)) /\ X m y (state_after c (log_of y)) /\ accepts c (log_of y) = true.
Proof.
  destruct (run_both m Hret acts _ _ (G_init m Hret) (X_init m Hret)) as (es & E & A & HG & HX).
  simpl. unfold log_of. rewrite E. simpl. rewrite app_nil_r, rev_involutive. auto.
Qed.

Theorem teardown_drains acts s :
  let y := run m (init_sys m) acts in
  let t := state_after c (log_of y) in
  pc (Src y s) = 3 -> dq (Src y s) = [] -> timedout (Src y s) = false -> healthy t (src t s) = true ->
  tdacks (src t s) <= lastp (src t s).
Proof.
  intros y t Hpc Hdq Hto Hh. destruct (run_state acts) as (HG & HX & _). fold y t in HG, HX.
  pose proof (drain_from_X m y t s HX Hpc Hdq Hto Hh) as Hd.
  destruct (g_inv _ _ _ HG) as [_ HL]. unfold healthy in Hh.
  repeat (apply andb_true_iff in Hh; destruct Hh as [Hh ?]). apply negb_true_iff in H1.
  rewrite (HL H1 s). exact Hd.
Qed.

(* C03 *)
Theorem no_skip_on_crash acts s :
  let y := run m (init_sys m) acts in
  let l := log_of y in
  let st := crash y in
  st s = (stored_tag c s l, stored_pos c s l) /\
  (fixed c = true -> forall l1 n ks l2, l = l1 ++ EPAck s n ks :: l2 -> n <= fst (st s)) /\
  (engine_in_order c s l ->
   forall r, In r (ereads s l) -> r <= snd (st s) -> exists ks, In ks (eacks s l) /\ In r ks).
Proof.
  intros y l st. destruct (run_state acts) as (HG & HX & Ha). fold y l in HG, HX, Ha.
  assert (Est : st s = (stored_tag c s l, stored_pos c s l)) by apply (rp_store _ _ _ (g_p _ _ _ HG) s).
  split; [exact Est|]. rewrite Est. simpl. split.
  - intros Hfx l1 n ks l2 E. rewrite E in Ha.
    pose proof (accepts_at _ _ _ _ Ha) as Hacc. pose proof (inv_after c l1 (accepts_prefix _ _ _ Ha)) as HI.
    pose proof (step_mon3 true c _ _ (fun _ => Hfx) HI Hacc) as Hm. simpl in Hm.
    apply andb_true_iff in Hm. destruct Hm as [Hm _]. apply Nat.leb_le in Hm.
    rewrite E. etransitivity; [exact Hm|]. apply (stag_mono c l1 (EPAck s n ks :: l2) s Ha).
  - intros He r Hr Hle. unfold engine_in_order in He.
    destruct (inv_after c l Ha) as [HS _]. set (x := src (state_after c l) s) in *.
    pose proof (eng_handled _ _ (HS s) He _ _ (i_spos _ _ (HS s))) as Hh. fold x in Hh.
    destruct (i_eng _ _ (HS s) He) as (Hc & _). fold x in Hc.
    rewrite <- (reads_state c) in Hr. fold x in Hr.
    rewrite <- (firstn_skipn (nacked x) (reads x)) in Hr. apply in_app_or in Hr. destruct Hr as [Hr|Hr].
    + rewrite <- Hc in Hr. apply in_concat in Hr. destruct Hr as (ks & Hks & Hrk).
      exists ks. unfold x in Hks. rewrite acks_state in Hks. auto.
    + unfold handled_upto in Hh. rewrite forallb_forall in Hh. specialize (Hh r Hr). apply Nat.ltb_lt in Hh.
      unfold stored_pos in Hle. fold x in Hle. lia.
Qed.

Lemma nth_map_upto {A} (f : nat -> A) n s d : s < n -> nth s (map f (upto n)) d = f s.
Proof.
  intros H. rewrite upto_seq. rewrite (nth_indep _ d (f 0)) by (rewrite map_length, seq_length; exact H).
  rewrite map_nth. rewrite seq_nth by exact H. reflexivity.
Qed.

Theorem restart_rereads st acts' s r :
  s < nsrc c ->
  reopened_at m st s = snd (st s) /\
  (In (ERead s r) (run_log (restart_cfg m st) acts') -> snd (st s) < r).
Proof.
  intros Hs. assert (Ei : init_of (m_cfg (restart_cfg m st)) s = snd (st s)).
  { unfold restart_cfg, init_of. simpl. fold c. apply (nth_map_upto (fun s0 => snd (st s0))). exact Hs. }
  split.
  - unfold reopened_at, restart, init_sys. simpl. exact Ei.
  - intros Hin. rewrite <- Ei. eapply acc_reads_above_init; [|exact Hin].
    apply model_log_accepted. simpl. exact Hret.
Qed.
End ModelTheorems.

(* ====================================================================================
   The code as written (flushNow hands nil to the callback of a connector whose Set failed): S1
   ==================================================================================== *)
Definition s1_cfg : cfg := mkCfg 1 [0] 2 false.
Definition s1_model : mcfg := mkM s1_cfg 100.
(* read 1, ack 1, flush; the Set of the source fails inside the transaction, the commit succeeds;
   the flush callback runs, the delivery goroutine sends *)
Definition s1_schedule : list action :=
  [ARead 0 1; AAck 0 [1]; AFlush CtxLive; AWriteDone true [0] true; ACallback 0; ADeliver 0 true].

Theorem plugin_ack_after_commit_refuted :
  let l := run_log s1_model s1_schedule in
  l = [ERead 0 1; EAck 0 [1]; ETxBegin; ECommit [mkW 0 1 1 false] true [(0, 0)]; EPAck 0 1 [1]] /\
  accepts s1_cfg l = true /\ Mon_C02 true s1_cfg l = false /\ Mon_C02 false s1_cfg l = true.
Proof. vm_compute. repeat split. Qed.

Theorem no_skip_on_crash_refuted :
  let y := run s1_model (init_sys s1_model) s1_schedule in
  crash y 0 = (0, 0) /\ In (EPAck 0 1 [1]) (log_of y) /\ Mon_C03 true s1_cfg (log_of y) [] = false.
Proof. vm_compute. repeat split. repeat (try (left; reflexivity); right). Qed.

(* the repaired flushNow on the same schedule: the callback gets the Set's error, nothing is acked *)
Example s1_schedule_fixed :
  run_log (mkM (mkCfg 1 [0] 2 true) 100) s1_schedule =
  [ERead 0 1; EAck 0 [1]; ETxBegin; ECommit [mkW 0 1 1 false] true [(0, 0)]; ESrcErr 0].
Proof. vm_compute. reflexivity. Qed.

(* without the engine hypothesis the stored position is not protected: a (misbehaving) engine that
   acks record 2 and then record 1 moves the stored position backwards *)
Example stored_position_needs_engine_order :
  run_log (mkM (mkCfg 1 [0] 2 true) 100)
    [ARead 0 1; ARead 0 2; AAck 0 [2]; AFlush CtxLive; AWriteDone true [] true; AAck 0 [1]; AFlush CtxLive; AWriteDone true [] true] =
  [ERead 0 1; ERead 0 2; EAck 0 [2]; ETxBegin; ECommit [mkW 0 1 2 true] true [(1, 2)];
   EAck 0 [1]; ETxBegin; ECommit [mkW 0 2 1 true] true [(2, 1)]].
Proof. vm_compute. reflexivity. Qed.

(* ====================================================================================
   Reading aids
   ==================================================================================== *)
(* what the engine hypothesis says, in terms of the log *)
Theorem engine_in_order_spec c s l :
  accepts c l = true -> engine_in_order c s l ->
  StronglySorted lt (init_of c s :: ereads s l) /\
  (exists k, concat (eacks s l) = firstn k (ereads s l)) /\
  Forall (fun ks => ks <> []) (eacks s l).
Proof.
  intros Ha He. destruct (inv_after c l Ha) as [HS _]. unfold engine_in_order in He.
  destruct (i_eng _ _ (HS s) He) as (Hc & _ & Hss & _ & Hne).
  rewrite acks_state, reads_state in *. repeat split; auto. eexists. exact Hc.
Qed.

(* the strict and the weakened C02 monitor differ only when a transaction with a failed Set committed:
   this is what the finding key "persister.flushNow/set-fails-commit-ok" stands on *)
Lemma apply_writes_ok_att ok ws (f : conn -> sst) :
  (ok = false \/ all_wok ws = true) -> (forall s, okmax (f s) = attmax (f s)) ->
  forall s, okmax (apply_writes ok f ws s) = attmax (apply_writes ok f ws s).
Proof.
  unfold apply_writes. revert f. induction ws as [|w r IH]; intros f Hok Hf s; [apply Hf|].
  simpl. apply IH.
  - destruct Hok as [Hok|Hok]; [left; exact Hok|right]. unfold all_wok in *. simpl in Hok.
    apply andb_true_iff in Hok. tauto.
  - intros s'. destruct (Nat.eq_dec s' (w_s w)) as [->|E]; [|rewrite upd_other by exact E; apply Hf].
    rewrite upd_same. unfold apply_write. simpl. rewrite (Hf (w_s w)).
    destruct Hok as [->|Hok]; [reflexivity|]. unfold all_wok in Hok. simpl in Hok.
    apply andb_true_iff in Hok. destruct Hok as [-> _]. rewrite andb_true_r. reflexivity.
Qed.

Theorem strict_differs_only_by_failed_set c l :
  Mon_C02 true c l = false -> Mon_C02 false c l = true ->
  exists ws snap, In (ECommit ws true snap) l /\ all_wok ws = false.
Proof.
  intros Hs Hw.
  destruct (existsb (fun e => match e with ECommit ws true _ => negb (all_wok ws) | _ => false end) l) eqn:Hex.
  - apply existsb_exists in Hex. destruct Hex as (e & Hin & He).
    destruct e as [| | | |ws [|] snap| | | | | | |]; try discriminate. exists ws, snap. split; [exact Hin|].
    apply negb_true_iff in He. exact He.
  - exfalso. unfold Mon_C02 in *.
    assert (Hgen : forall l' t, (forall s, okmax (src t s) = attmax (src t s)) ->
               existsb (fun e => match e with ECommit ws true _ => negb (all_wok ws) | _ => false end) l' = false ->
               runchk c (mon2_ok true c) t l' = runchk c (mon2_ok false c) t l').
    { induction l' as [|e l' IH]; intros t Ht Hno; [reflexivity|]. simpl in Hno.
      apply orb_false_iff in Hno. destruct Hno as [He Hno]. simpl runchk. f_equal.
      - destruct e; simpl; try reflexivity. rewrite (Ht s). reflexivity.
      - apply IH; [|exact Hno]. intros s.
        destruct e as [s0 r|s0 ks| | |ws ok snap|s0 n ks|s0 n|s0|s0|s0|s0 fast|s0 hn]; simpl;
          try (unfold upd; destruct (s =? s0) eqn:E; [apply Nat.eqb_eq in E; subst|]; simpl; apply Ht);
          try apply Ht.
        apply apply_writes_ok_att; [|exact Ht]. destruct ok; [right|left; reflexivity].
        apply negb_false_iff in He. exact He. }
    rewrite (Hgen l (init_t c)) in Hs; [congruence|reflexivity|exact Hex].
Qed.

(* data of the non-vacuity examples in Properties/C02.v and Properties/C03.v *)
Definition nv_cfg : cfg := mkCfg 2 [0; 3] 2 true.
Definition nv_model : mcfg := mkM nv_cfg 100.
Definition nv_schedule : list action :=
  [ARead 0 1; ARead 0 2; AAck 0 [1; 2]; ARead 1 4; AAck 1 [4]; ATimer; AWriteDone true [] true;
   ACallback 0; ACallback 0; ADeliver 0 true; ADeliver 1 true;
   ARead 0 3; AAck 0 [3]; ATdBegin 0 CtxLive; AWriteDone true [] true; ACallback 0; ADeliver 0 true;
   ATdWaited 0; ATdCancel 0].
Definition nv3_cfg : cfg := mkCfg 1 [5] 2 true.
Definition nv3_model : mcfg := mkM nv3_cfg 100.
Definition nv3_schedule : list action :=
  [ARead 0 6; ARead 0 7; ARead 0 8; AAck 0 [6; 7]; AFlush CtxLive; AWriteDone true [] true; ACallback 0; ACallback 0;
   ADeliver 0 true; AAck 0 [8]; ARead 0 9].

(* teardown_drains needs its "quiet start" hypothesis: two sources, nothing fails, no bounded wait of
   Teardown times out, and still the last ack of source 0 never reaches its plugin.  The callback
   goroutine of source 0's flush is late; Teardown's own Flush carries only source 1;
   WaitPendingWrites watches the latest flush generation only; the queue is closed; the late
   callback then finds deferredAckClosed and drops the ack. *)
Definition late_cb_cfg : cfg := mkCfg 2 [0; 0] 2 true.
Definition late_cb_schedule : list action :=
  [ATimer; AWriteDone true [] true; ACallback 0; ACallback 0;
   ARead 0 1; AAck 0 [1]; AFlush CtxLive; AWriteDone true [] true;        (* source 0: acked, committed, callback pending *)
   ARead 1 1; AAck 1 [1];
   ATdBegin 0 CtxLive; AWriteDone true [] true; ACallback 1;               (* Teardown(0): its flush holds source 1 only *)
   ATdWaited 0; ACallback 0; ATdCancel 0; ATdDown 0 true].

Example teardown_needs_quiet_start :
  let y := run (mkM late_cb_cfg 100) (init_sys (mkM late_cb_cfg 100)) late_cb_schedule in
  eacks 0 (log_of y) = [[1]] /\ epacks 0 (log_of y) = [] /\ timedout (Src y 0) = false /\
  In (ETdEnd 0 true) (log_of y) /\
  forallb (fun e => match e with ECommit ws ok _ => ok && all_wok ws | ETxFail => false | ESendFail _ _ => false | _ => true end)
          (log_of y) = true.
Proof. vm_compute. repeat split. repeat (try (left; reflexivity); right). Qed.

(* a send parked in the plugin stream (ESendHeld) while a later ack is still in the debounce batch and
   the source is torn down: the teardown is healthy, so both acks must have reached the plugin when the
   stream is cancelled.  A delivery goroutine that exits as soon as it sees the queue closed, with the
   final ack still queued, produces the first log; the code as it is produces the second. *)
Definition held_cfg : cfg := mkCfg 1 [0] 2 true.
Definition held_log (final_ack : bool) : list event :=
  [ERead 0 1; EAck 0 [1]; ETxBegin; ECommit [mkW 0 1 1 true] true [(1, 1)]; ESendHeld 0 1;
   ERead 0 2; EAck 0 [2]; ETdBegin 0; ETxBegin; ECommit [mkW 0 2 2 true] true [(2, 2)]; EPAck 0 1 [1]] ++
  (if final_ack then [EPAck 0 2 [2]] else []) ++ [ETdCancel 0; ETdEnd 0 true].

Example held_send_teardown_must_drain :
  accepts held_cfg (held_log false) = false /\ Mon_C02 true held_cfg (held_log false) = false /\
  accepts held_cfg (held_log true) = true /\ Mon_C02 true held_cfg (held_log true) = true /\
  (* the model produces the good one *)
  run_log (mkM held_cfg 100)
    [ARead 0 1; AAck 0 [1]; AFlush CtxLive; AWriteDone true [] true; ACallback 0; ACallback 0; AHold 0;
     ARead 0 2; AAck 0 [2]; ATdBegin 0 CtxLive; AWriteDone true [] true; ACallback 0; ADeliver 0 true; ATdWaited 0;
     ADeliver 0 true; ATdCancel 0; ATdDown 0 true] = held_log true.
Proof. vm_compute. repeat split. Qed.

(* ====================================================================================
   Restart through the services: running_resumes and the composed crash/restart theorem
   ==================================================================================== *)
(* pipeline.Status as stored: 1 running, 2 system-stopped, 3 user-stopped, 4 degraded, 5 recovering *)
Theorem running_resumes :
  pipeline_init 1 = 2 /\ resumes 1 = true /\ resumes 2 = true /\
  resumes 3 = false /\ resumes 4 = false /\ resumes 5 = false /\
  (forall st, resumes st = true <-> st = 1 \/ st = 2).
Proof.
  repeat split; try reflexivity.
  - unfold resumes, pipeline_init, lifecycle_starts. intros H.
    destruct (st =? 1) eqn:E1; [left; apply Nat.eqb_eq; exact E1|right; apply Nat.eqb_eq; exact H].
  - intros [->| ->]; reflexivity.
Qed.

Theorem full_acc_mon c l o : full_acc c l o = true -> full_mon c l o = true.
Proof.
  unfold full_acc, full_mon. intros H.
  repeat (apply andb_true_iff in H; destruct H as [H ?]).
  apply Nat.eqb_eq in H. apply eqb_prop in H3. rewrite H3, H in *. clear H3.
  apply andb_true_iff. split.
  - unfold resumes. apply eqb_reflx.
  - destruct (lifecycle_starts (pipeline_init (fo_stored o))) eqn:E; [simpl|reflexivity].
    exact H0.
Qed.

Section CrashRestart.
Variable m : mcfg.
Let c := m_cfg m.
Hypothesis Hret : 1 <= retries c.

(* (run prefix, crash, restart): after ANY action list the process dies; what survives is the store and
   the pipeline's stored status.  If that status is one the restart resumes (running, or system-stopped),
   the restarted system exists, opens every source exactly at the stored position, reads only records
   after it, no record that was read but not yet handled by the engine lies at or before that position
   (so an upstream that replays everything after the position it is opened with re-delivers it), and -
   for the repaired flushNow - the plugin was never told to discard anything beyond the store.
   If the status is not resumed, the restart starts nothing. *)
Theorem crash_restart_no_record_skipped acts stored_status s :
  s < nsrc c ->
  let y := run m (init_sys m) acts in
  let l := log_of y in
  let st := crash y in
  match restart_system m st stored_status with
  | None => resumes stored_status = false
  | Some y' =>
      resumes stored_status = true /\
      y' = restart m st /\
      stP (Src y' s) = snd (st s) /\ snd (st s) = stored_pos c s l /\
      (forall acts' r', In (ERead s r') (log_of (run (restart_cfg m st) y' acts')) -> snd (st s) < r') /\
      (engine_in_order c s l ->
       forall r, In r (ereads s l) -> (forall ks, In ks (eacks s l) -> ~ In r ks) -> snd (st s) < r) /\
      (fixed c = true -> forall l1 n ks l2, l = l1 ++ EPAck s n ks :: l2 -> n <= fst (st s))
  end.
Proof.
  intros Hs y l st. unfold restart_system. destruct (resumes stored_status) eqn:Hr; [|reflexivity].
  destruct (no_skip_on_crash m Hret acts s) as (Est & Hpack & Hskip). fold y l st in Est, Hpack, Hskip.
  destruct (restart_rereads m Hret st [] s 0 Hs) as [Hre _].
  split; [reflexivity|]. split; [reflexivity|]. split; [exact Hre|].
  split; [rewrite Est; reflexivity|]. split.
  - intros acts' r' Hin. destruct (restart_rereads m Hret st acts' s r' Hs) as [_ H]. apply H. exact Hin.
  - split; [|exact Hpack].
    intros He r Hrd Hun. destruct (Nat.lt_ge_cases (snd (st s)) r) as [Hlt|Hge]; [exact Hlt|].
    exfalso. destruct (Hskip He r Hrd Hge) as (ks & Hks & Hin). apply (Hun ks Hks Hin).
Qed.
End CrashRestart.

(* a graceful stop with records read beyond the last ack: Stop leaves the stored position alone and
   Teardown stores nothing that was not engine-acked, so the restart opens at the last ACKED record.
   A Teardown that checkpoints the plugin's stop position (the last record PRODUCED) writes the
   second log: rejected by the acceptor and by both monitors. *)
Definition stop_cfg : cfg := mkCfg 1 [0] 2 true.
Definition stop_schedule : list action :=
  [ARead 0 1; ARead 0 2; ARead 0 3; ARead 0 4; ARead 0 5; AAck 0 [1; 2]; AFlush CtxLive; AWriteDone true [] true;
   ACallback 0; ACallback 0; ADeliver 0 true; AStop 0; ATdBegin 0 CtxLive; ATdWaited 0; ATdCancel 0; ATdDown 0 true].
Definition stop_bad_log : list event :=
  [ERead 0 1; ERead 0 2; ERead 0 3; ERead 0 4; ERead 0 5; EAck 0 [1; 2]; ETxBegin;
   ECommit [mkW 0 1 2 true] true [(1, 2)]; EPAck 0 1 [1; 2]; ETdBegin 0; ETxBegin;
   ECommit [mkW 0 0 5 true] true [(0, 5)]; ETdCancel 0; ETdEnd 0 true].

Example stop_then_teardown_keeps_acked_position :
  let y := run (mkM stop_cfg 100) (init_sys (mkM stop_cfg 100)) stop_schedule in
  crash y 0 = (1, 2) /\ ereads 0 (log_of y) = [1; 2; 3; 4; 5] /\
  reopened_at (mkM stop_cfg 100) (crash y) 0 = 2 /\
  Mon_C03 true stop_cfg (log_of y) [(length (log_of y), 0, (1, 2))] = true /\
  accepts stop_cfg stop_bad_log = false /\ Mon_C02 true stop_cfg stop_bad_log = false /\
  Mon_C03 true stop_cfg stop_bad_log [] = false /\ Mon_C03 false stop_cfg stop_bad_log [] = false.
Proof. vm_compute. repeat split. Qed.
