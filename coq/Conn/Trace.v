(* Connector layer (connector.Source + Persister + Store): the observable event log, the executable
   acceptor [accepts] and the property monitors of C02 / C03.  Definitions only.

   Vocabulary.  A source is a number [s < nsrc].  A record of a source is identified by its id in
   read order ([pos], 0 = the empty position).  The harness hands Source.Ack position bytes "r.n"
   (record id r, n = number of this Ack call for the source, its tag), so that every stored or
   plugin-acked position can be decoded to the engine ack it came from without guessing.

   Events (one mutex-guarded log, appended to by the harness-engine, the fault-injecting DB and the
   fake plugin):
     ERead s r          the fake plugin handed record r to the engine (Source.Read returned it)
     EAck s ks          the engine calls Source.Ack(ks)                       (tag = how many so far)
     ETxBegin           db.NewTransaction succeeded
     ETxFail            db.NewTransaction failed
     ECommit ws ok snap tx.Commit finished; ws = every Set attempted inside the tx, decoded
                        (source, tag, record, did the Set succeed); snap = decoded store afterwards
     EPAck s n ks       the plugin received the ack with tag n on its stream
     ESendFail s n      an injected transient stream.Send failure for the ack with tag n
     ESendHeld s n      stream.Send of the ack with tag n has begun and is parked in the plugin stream
                        (the plugin has not consumed it yet); it ends in EPAck or in a failed send
     ESrcErr s          an error surfaced on Source.Errors()
     ETdBegin s / ETdCancel s / ETdEnd s fast
                        Source.Teardown called / the plugin's Teardown called (the stream was cancelled
                        and the delivery goroutine joined before) / returned; fast = it took less than
                        half its flush budget, i.e. none of its bounded waits timed out  *)
From Coq Require Export List Arith Bool Lia.
Export ListNotations.

Definition conn := nat.
Definition pos := nat.

Record write := mkW { w_s : conn; w_tag : nat; w_pos : pos; w_ok : bool }.

Inductive event :=
| ERead (s : conn) (r : pos)
| EAck (s : conn) (ks : list pos)
| ETxBegin
| ETxFail
| ECommit (ws : list write) (ok : bool) (snap : list (nat * pos))
| EPAck (s : conn) (n : nat) (ks : list pos)
| ESendFail (s : conn) (n : nat)
| ESrcErr (s : conn)
| ETdBegin (s : conn)
| ETdCancel (s : conn)
| ETdEnd (s : conn) (fast : bool)
| ESendHeld (s : conn) (n : nat).

(* retries = deferredAckMaxRetries (>= 1); fixed = does flushNow hand a failed Set's error to that
   connector's callback (true) or the shadowed nil (false, the code as written: suspect S1) *)
Record cfg := mkCfg { nsrc : nat; inits : list pos; retries : nat; fixed : bool }.

Definition init_of (c : cfg) (s : conn) : pos := nth s (inits c) 0.

(* ---------- what is tracked about one source while reading the log ---------- *)
Record sst := mkS {
  acks : list (list pos);   (* engine acks so far, oldest first; tag n = n-th element *)
  reads : list pos;         (* records read so far, oldest first *)
  lastread : pos;
  nacked : nat;             (* number of records engine-acked *)
  eng : bool;               (* engine hypothesis so far: reads increase, acks = reads in order, no gap/repeat/empty *)
  seenw : bool;             (* some tx attempted a write for this source *)
  wn : nat;                 (* tag of the latest attempted write *)
  okmax : nat;              (* max tag over writes that succeeded in a committed tx *)
  attmax : nat;             (* max tag over writes attempted in a committed tx *)
  stag : nat; spos : pos;   (* what the store holds now *)
  dn : nat;                 (* tag the delivery goroutine has finished (delivered or dropped) *)
  lastp : nat;              (* tag of the last plugin ack *)
  att : nat;                (* failed sends for tag dn+1 *)
  ph : nat;                 (* 0 running, 1 tearing down, 2 stream cancelled, 3 down *)
  tdacks : nat;             (* number of engine acks when Teardown began *)
  tdh : bool;               (* teardown began in a quiet, failure-free state *)
  tdtx : nat;               (* transactions begun since Teardown began *)
  hs : nat                  (* tag whose stream.Send was seen to have begun (parked in the plugin stream) *)
}.

Definition init_s (p0 : pos) : sst :=
  mkS [] [] p0 0 true false 0 0 0 0 p0 0 0 0 0 0 false 0 0.

Record tst := mkT { src : conn -> sst; intx : nat; anyfail : bool }.

Definition init_t (c : cfg) : tst := mkT (fun s => init_s (init_of c s)) 0 false.

Definition upd (f : conn -> sst) (s : conn) (v : sst) : conn -> sst :=
  fun x => if x =? s then v else f x.

Definition set_src (t : tst) (s : conn) (v : sst) : tst := mkT (upd (src t) s v) (intx t) (anyfail t).

Fixpoint list_eqb_nat (a b : list nat) : bool :=
  match a, b with
  | [], [] => true
  | x :: a', y :: b' => (x =? y) && list_eqb_nat a' b'
  | _, _ => false
  end.

Definition lastp_of (ks : list pos) : pos := last ks 0.
Definition ack_at (x : sst) (n : nat) : option (list pos) :=
  match n with 0 => None | S m => nth_error (acks x) m end.

(* position carried by the engine ack with tag n (tag 0 = the position the source was opened with) *)
Definition pos_of_tag (p0 : pos) (x : sst) (n : nat) : option pos :=
  match n with
  | 0 => Some p0
  | S m => match nth_error (acks x) m with Some ks => Some (lastp_of ks) | None => None end
  end.

Definition apply_write (ok : bool) (x : sst) (w : write) : sst :=
  mkS (acks x) (reads x) (lastread x) (nacked x) (eng x) true (w_tag w)
      (if ok && w_ok w then Nat.max (okmax x) (w_tag w) else okmax x)
      (if ok then Nat.max (attmax x) (w_tag w) else attmax x)
      (if ok && w_ok w then w_tag w else stag x)
      (if ok && w_ok w then w_pos w else spos x)
      (dn x) (lastp x) (att x) (ph x) (tdacks x) (tdh x) (tdtx x) (hs x).

Definition apply_writes (ok : bool) (f : conn -> sst) (ws : list write) : conn -> sst :=
  fold_left (fun g w => upd g (w_s w) (apply_write ok (g (w_s w)) w)) ws f.

Definition all_wok (ws : list write) : bool := forallb w_ok ws.

Definition bump_tdtx (f : conn -> sst) : conn -> sst :=
  fun s => let x := f s in
    mkS (acks x) (reads x) (lastread x) (nacked x) (eng x) (seenw x) (wn x) (okmax x) (attmax x)
        (stag x) (spos x) (dn x) (lastp x) (att x) (ph x) (tdacks x) (tdh x)
        (if (ph x =? 1) || (ph x =? 2) then S (tdtx x) else tdtx x) (hs x).

Definition track (c : cfg) (t : tst) (e : event) : tst :=
  match e with
  | ERead s r =>
      let x := src t s in
      set_src t s (mkS (acks x) (reads x ++ [r]) r (nacked x) (eng x && (lastread x <? r))
                       (seenw x) (wn x) (okmax x) (attmax x) (stag x) (spos x) (dn x) (lastp x) (att x)
                       (ph x) (tdacks x) (tdh x) (tdtx x) (hs x))
  | EAck s ks =>
      let x := src t s in
      let k := length ks in
      set_src t s (mkS (acks x ++ [ks]) (reads x) (lastread x) (nacked x + k)
                       (eng x && (0 <? k) && list_eqb_nat (firstn k (skipn (nacked x) (reads x))) ks)
                       (seenw x) (wn x) (okmax x) (attmax x) (stag x) (spos x) (dn x) (lastp x) (att x)
                       (ph x) (tdacks x) (tdh x) (tdtx x) (hs x))
  | ETxBegin => mkT (bump_tdtx (src t)) (S (intx t)) (anyfail t)
  | ETxFail => mkT (src t) (pred (intx t)) true
  | ECommit ws ok _ =>
      mkT (apply_writes ok (src t) ws) (pred (intx t)) (anyfail t || negb ok || negb (all_wok ws))
  | EPAck s n ks =>
      let x := src t s in
      set_src t s (mkS (acks x) (reads x) (lastread x) (nacked x) (eng x) (seenw x) (wn x) (okmax x)
                       (attmax x) (stag x) (spos x) n n 0 (ph x) (tdacks x) (tdh x) (tdtx x) (hs x))
  | ESendFail s n =>
      let x := src t s in
      let drop := S (att x) =? retries c in
      mkT (upd (src t) s
             (mkS (acks x) (reads x) (lastread x) (nacked x) (eng x) (seenw x) (wn x) (okmax x)
                  (attmax x) (stag x) (spos x) (if drop then n else dn x) (lastp x)
                  (if drop then 0 else S (att x)) (ph x) (tdacks x) (tdh x) (tdtx x) (hs x)))
          (intx t) true
  | ESrcErr _ => t
  | ETdBegin s =>
      let x := src t s in
      set_src t s (mkS (acks x) (reads x) (lastread x) (nacked x) (eng x) (seenw x) (wn x) (okmax x)
                       (attmax x) (stag x) (spos x) (dn x) (lastp x) (att x) 1 (length (acks x))
                       (negb (anyfail t) && (intx t =? 0) && (okmax x <=? Nat.max (dn x) (hs x))) 0 (hs x))
  | ETdCancel s =>
      let x := src t s in
      set_src t s (mkS (acks x) (reads x) (lastread x) (nacked x) (eng x) (seenw x) (wn x) (okmax x)
                       (attmax x) (stag x) (spos x) (dn x) (lastp x) (att x) 2 (tdacks x) (tdh x) (tdtx x) (hs x))
  | ETdEnd s _ =>
      let x := src t s in
      set_src t s (mkS (acks x) (reads x) (lastread x) (nacked x) (eng x) (seenw x) (wn x) (okmax x)
                       (attmax x) (stag x) (spos x) (dn x) (lastp x) (att x) 3 (tdacks x) (tdh x) (tdtx x) (hs x))
  | ESendHeld s n =>
      let x := src t s in
      set_src t s (mkS (acks x) (reads x) (lastread x) (nacked x) (eng x) (seenw x) (wn x) (okmax x)
                       (attmax x) (stag x) (spos x) (dn x) (lastp x) (att x) (ph x) (tdacks x) (tdh x) (tdtx x) n)
  end.

Fixpoint runchk (c : cfg) (chk : tst -> event -> bool) (t : tst) (l : list event) : bool :=
  match l with
  | [] => true
  | e :: r => chk t e && runchk c chk (track c t e) r
  end.

Definition state_after (c : cfg) (l : list event) : tst := fold_left (track c) l (init_t c).

(* a teardown is "healthy" when it started in a quiet failure-free state with nothing durable left
   undelivered (or at least handed to stream.Send: hs), at most its own flush ran meanwhile, and nothing failed or is still in flight *)
Definition healthy (t : tst) (x : sst) : bool :=
  tdh x && negb (anyfail t) && (intx t =? 0) && (tdtx x <=? 1).

(* ---------- the acceptor: what the mechanism determines ---------- *)
Definition cov (c : cfg) (x : sst) : nat := if fixed c then okmax x else attmax x.

Fixpoint nodup_src (ws : list write) : bool :=
  match ws with
  | [] => true
  | w :: r => negb (existsb (fun v => w_s v =? w_s w) r) && nodup_src r
  end.

Definition write_ok (c : cfg) (t : tst) (w : write) : bool :=
  let x := src t (w_s w) in
  (w_s w <? nsrc c) &&
  (if w_tag w =? 0 then negb (seenw x) else wn x <? w_tag w) &&
  match pos_of_tag (init_of c (w_s w)) x (w_tag w) with
  | Some p => p =? w_pos w
  | None => false
  end.

Fixpoint snap_ok (f : conn -> sst) (s : nat) (snap : list (nat * pos)) : bool :=
  match snap with
  | [] => true
  | (n, p) :: r => (stag (f s) =? n) && (spos (f s) =? p) && snap_ok f (S s) r
  end.

Definition acc_ok (c : cfg) (t : tst) (e : event) : bool :=
  match e with
  | ERead s r => let x := src t s in (s <? nsrc c) && (ph x =? 0) && (lastread x <? r)
  | EAck s ks =>
      let x := src t s in
      (s <? nsrc c) && (ph x <=? 1) && (0 <? length ks) && negb (lastp_of ks =? 0)
  | ETxBegin => intx t =? 0
  | ETxFail => 0 <? intx t
  | ECommit ws ok snap =>
      (0 <? intx t) && nodup_src ws && forallb (write_ok c t) ws &&
      (length snap =? nsrc c) && snap_ok (apply_writes ok (src t) ws) 0 snap
  | EPAck s n ks =>
      let x := src t s in
      (s <? nsrc c) && (ph x <=? 1) && (n =? S (dn x)) && (n <=? cov c x) &&
      match ack_at x n with Some ks' => list_eqb_nat ks' ks | None => false end
  | ESendFail s n =>
      let x := src t s in
      (s <? nsrc c) && (ph x <=? 1) && (n =? S (dn x)) && (n <=? cov c x) && (att x <? retries c)
  | ESrcErr s => s <? nsrc c
  | ETdBegin s => (s <? nsrc c) && (ph (src t s) =? 0)
  | ETdCancel s => (s <? nsrc c) && (ph (src t s) =? 1)
  | ETdEnd s fast =>
      let x := src t s in
      (s <? nsrc c) && (ph x =? 2) && (negb (healthy t x && fast) || (tdacks x <=? dn x))
  | ESendHeld s n =>
      let x := src t s in
      (s <? nsrc c) && (ph x <=? 1) && (n =? S (dn x)) && (n <=? cov c x)
  end.

Definition accepts (c : cfg) (l : list event) : bool := runchk c (acc_ok c) (init_t c) l.

(* ---------- monitors ---------- *)
(* all records of the source read so far with id <= p have been engine-acked *)
Definition handled_upto (x : sst) (p : pos) : bool :=
  forallb (fun r => p <? r) (skipn (nacked x) (reads x)).

(* C02.  [strict = true]: the statement of the property.  [strict = false]: the same with "a write
   that was attempted in a committed transaction" in place of "a write the store holds", which is
   what the code as written guarantees (S1). *)
Definition mon2_write (c : cfg) (t : tst) (ok : bool) (w : write) : bool :=
  let x := src t (w_s w) in
  negb (ok && w_ok w) ||
  ((* commit_covers_handled: the stored position is the last position of an engine ack made before *)
   match pos_of_tag (init_of c (w_s w)) x (w_tag w) with
   | Some p => p =? w_pos w
   | None => false
   end &&
   (* stored_position_monotone, under the engine hypothesis *)
   (negb (eng x) || ((spos x <=? w_pos w) && ((w_tag w =? 0) || negb (w_pos w =? 0))
                     && handled_upto x (w_pos w)))).

Definition mon2_ok (strict : bool) (c : cfg) (t : tst) (e : event) : bool :=
  match e with
  | EPAck s n ks =>
      let x := src t s in
      (0 <? n) && (n <=? (if strict then okmax x else attmax x)) && (lastp x <? n) &&
      match ack_at x n with Some ks' => list_eqb_nat ks' ks | None => false end
  | ECommit ws ok _ => forallb (mon2_write c t ok) ws
  | ETdEnd s fast => let x := src t s in negb (healthy t x && fast) || (tdacks x <=? lastp x)
  | _ => true
  end.

Definition Mon_C02 (strict : bool) (c : cfg) (l : list event) : bool :=
  runchk c (mon2_ok strict c) (init_t c) l.

(* C03: at every instant the store (what a restart sees) is not past an unhandled record and not
   behind what the plugin (the upstream) has been told. *)
Fixpoint upto (n : nat) : list nat := match n with 0 => [] | S m => upto m ++ [m] end.

Definition mon3_ok (strict : bool) (c : cfg) (t : tst) (e : event) : bool :=
  match e with
  | EPAck s n ks =>
      let x := src t s in
      if strict then (n <=? stag x) && (negb (eng x) || forallb (fun r => r <=? spos x) ks)
      else n <=? attmax x
  | ECommit ws ok _ =>
      let f := apply_writes ok (src t) ws in
      forallb (fun s => let x := f s in negb (eng x) || handled_upto x (spos x)) (upto (nsrc c))
  | ERead s r => let x := src t s in negb (eng x) || (spos x <? r)
  | _ => true
  end.

(* restart observations: (index of the crash instant = number of log events before it, source,
   decoded position the fresh services handed to the plugin's Open) *)
Definition robs := (nat * conn * (nat * pos))%type.

Definition restart_ok (c : cfg) (l : list event) (o : robs) : bool :=
  let '(i, s, (n, p)) := o in
  let x := src (state_after c (firstn i l)) s in
  (stag x =? n) && (spos x =? p).

Definition Mon_C03 (strict : bool) (c : cfg) (l : list event) (obs : list robs) : bool :=
  runchk c (mon3_ok strict c) (init_t c) l && forallb (restart_ok c l) obs.

(* ---------- restart through the real services (pipeline / connector / processor / lifecycle) ---------- *)
(* pipeline.Status as stored (iota + 1): 1 running, 2 system-stopped, 3 user-stopped, 4 degraded,
   5 recovering.  pipeline.Service.Init turns a stored "running" into "system-stopped"; the lifecycle
   service's Init starts exactly the pipelines it finds system-stopped. *)
Definition pipeline_init (st : nat) : nat := if st =? 1 then 2 else st.
Definition lifecycle_starts (st : nat) : bool := st =? 2.
Definition resumes (stored : nat) : bool := lifecycle_starts (pipeline_init stored).

(* what one source shows after the restart: was its plugin opened, with which decoded position, and
   the record ids that then reached the destination (the restarted plugin replays the successors of
   the position it was opened with, three of them) *)
Record fsrc := mkFS { fs_s : conn; fs_opened : bool; fs_tag : nat; fs_pos : pos; fs_got : list pos }.
Record fobs := mkFO { fo_at : nat; fo_stored : nat; fo_after_init : nat; fo_started : bool;
                      fo_after_boot : nat; fo_srcs : list fsrc }.

Definition fsrc_reopened_right (c : cfg) (l : list event) (at_ : nat) (f : fsrc) : bool :=
  let x := src (state_after c (firstn at_ l)) (fs_s f) in
  fs_opened f && (stag x =? fs_tag f) && (spos x =? fs_pos f) &&
  list_eqb_nat (fs_got f) (seq (S (spos x)) 3).

Definition fsrc_untouched (f : fsrc) : bool :=
  negb (fs_opened f) && match fs_got f with [] => true | _ => false end.

(* model: Init as above, every source of a started pipeline is opened at the stored position *)
Definition full_acc (c : cfg) (l : list event) (o : fobs) : bool :=
  (fo_after_init o =? pipeline_init (fo_stored o)) &&
  Bool.eqb (fo_started o) (lifecycle_starts (fo_after_init o)) &&
  (fo_after_boot o =? (if fo_started o then 1 else fo_after_init o)) &&
  list_eqb_nat (map fs_s (fo_srcs o)) (upto (nsrc c)) &&
  forallb (fun f => if fo_started o then fsrc_reopened_right c l (fo_at o) f else fsrc_untouched f) (fo_srcs o).

(* property: a pipeline that was running (or system-stopped) when the process died is started again,
   one the user stopped or that is degraded / recovering is not, and whatever is started re-reads from
   exactly the stored position on *)
Definition full_mon (c : cfg) (l : list event) (o : fobs) : bool :=
  Bool.eqb (fo_started o) (resumes (fo_stored o)) &&
  (negb (fo_started o) || forallb (fsrc_reopened_right c l (fo_at o)) (fo_srcs o)).
