(* connector.Source's ack path (pkg/connector/source.go: Ack, onPersistFlushed,
   deliverDeferredAcks/deliverOneAck, Teardown) composed with the persister, as one interleaving
   transition system that emits the observable event log.  Definitions only.

   Atomic actions and what makes them atomic in the code:
     ARead s r          Source.Read returned record r to the engine (the engine reads in order)
     AAck s ks          Source.Ack: under Instance.Lock: State := last position; under ackMu:
                        nextAckSeq++, pendingAcks += (seq, ks); Persister.Persist (under Persister.m,
                        may trigger a flush through the bundle threshold; blocks - action not
                        enabled - while that flush has to wait for the write in flight)
     ATimer / AFlush cx Persister.Flush from the debounce timer / from anyone   (Persister.m).
                        cx = the state of the context the caller hands to Flush(ctx): live, already
                        done, or expiring while the call waits.  triggerFlush's wait for the write in
                        flight (`<-p.flush.writeDone`, holding m) does not look at the context, and the
                        store decides the fate of the transaction whatever context it is given
                        (AWriteDone's arguments are the environment's): the step is the same for
                        every cx - which is exactly the claim the theorems make about a forced flush
                        with a cancelled context (no second write is ever started beside the one in
                        flight)
     AWriteDone ..      the store finishes the transaction in flight (environment)
     ACallback i        a callback goroutine spawned by flushNow runs: for Source.Ack's callback this is
                        onPersistFlushed(seq, err) (ackMu); for Open's callback only an error is reported
     ADeliver s ok      the delivery goroutine makes one stream.Send attempt for the head of the
                        deferred queue (ok = the send succeeded); after the stream context is cancelled
                        every send fails and the head is dropped silently
     AHold s            the delivery goroutine has called stream.Send for the head of the queue and the
                        plugin has not consumed it yet (observable: the send is parked in the stream);
                        no state changes - the send ends later as an ADeliver
     AStop s            Source.Stop: the stop signal is passed to the plugin, which answers with the last
                        position it PRODUCED; the answer goes to the caller and nothing of the ack path,
                        the instance state or the persister is touched
     ATdBegin s cx      Teardown(ctx): tearingDown := true, Persister.Flush(ctx).  A context that is
                        done (or expires) only cuts Teardown's two bounded waits short, which
                        ATdWaited / ATdCancel may do at any instant anyway (timedout)
     ATdWaited s        WaitPendingWritesContext returned (done or timed out), deferredAckClosed := true
     ATdCancel s        waitDeliveryDrain returned (drained or timed out), stopStream()
     ATdDown s fast     the delivery goroutine has exited; plugin.Teardown, plugin := nil,
                        Persister.ConnectorStopped (a last triggerFlush); Teardown returns.
                        fast = it took less than half the budget (only possible if no wait timed out) *)
From Verif Require Export Conn.Persister.

Record sstate := mkSS {
  plug : bool;                       (* s.plugin != nil *)
  stT : nat; stP : pos;              (* Instance.State.Position, decoded (tag, record) *)
  nextSeq : nat;
  pending : list (nat * list pos);
  durable : nat;
  dq : list (nat * list pos);        (* deferredAckQueue (and what the goroutine holds), FIFO *)
  attempts : nat;                    (* failed sends of the head *)
  closed : bool; tearing : bool; streamOpen : bool;
  pc : nat;                          (* 0 running, 1 flush-wait, 2 drain-wait, 3 stream cancelled, 4 down *)
  timedout : bool;                   (* one of Teardown's bounded waits gave up *)
  lastRead : pos
}.

Record sys := mkSys { Pst : pstate; Src : conn -> sstate; out : list event (* newest first *) }.

(* the context handed to Persister.Flush / Source.Teardown by the caller *)
Inductive ctxst := CtxLive | CtxDone | CtxExpiring.

Inductive action :=
| ARead (s : conn) (r : pos)
| AAck (s : conn) (ks : list pos)
| ATimer
| AFlush (cx : ctxst)
| AWriteDone (txok : bool) (fails : list conn) (commitok : bool)
| ACallback (i : nat)
| ADeliver (s : conn) (ok : bool)
| ATdBegin (s : conn) (cx : ctxst)
| ATdWaited (s : conn)
| ATdCancel (s : conn)
| ATdDown (s : conn) (fast : bool)
| AHold (s : conn)
| AStop (s : conn).

(* model parameters: the observable cfg plus the persister's bundle threshold *)
Record mcfg := mkM { m_cfg : cfg; m_thr : nat }.

Definition supd (f : conn -> sstate) (s : conn) (v : sstate) : conn -> sstate :=
  fun x => if x =? s then v else f x.

Definition init_src (p0 : pos) : sstate :=
  mkSS true 0 p0 0 [] 0 [] 0 false false true 0 false p0.

(* after Open of every source: Open's own Persist (lifecycle event "created") put one entry per
   source into the batch and armed the timer *)
Definition init_sys (m : mcfg) : sys :=
  let c := m_cfg m in
  mkSys (mkP (map (fun s => mkE s 0 (init_of c s) CbOpen) (upto (nsrc c))) (nsrc c) true None 0 false
             (fun s => (0, init_of c s)) [])
        (fun s => init_src (init_of c s)) [].

Definition emit (es : list event) (o : list event) : list event := rev es ++ o.
Definition tx_event (started : bool) : list event := if started then [ETxBegin] else [].

(* onPersistFlushed(seq, nil): durable := max; drain pending from its head while seq <= durable *)
Fixpoint drain (d : nat) (pend : list (nat * list pos)) : list (nat * list pos) * list (nat * list pos) :=
  match pend with
  | [] => ([], [])
  | (n, ks) :: r =>
      if n <=? d then let (a, b) := drain d r in ((n, ks) :: a, b) else ([], pend)
  end.

Definition on_persist_flushed (x : sstate) (seq : nat) : sstate :=
  let d := Nat.max (durable x) seq in
  let (ready, rest) := drain d (pending x) in
  mkSS (plug x) (stT x) (stP x) (nextSeq x) rest d
       (if closed x then dq x else dq x ++ ready) (attempts x)
       (closed x) (tearing x) (streamOpen x) (pc x) (timedout x) (lastRead x).

Definition step (m : mcfg) (y : sys) (a : action) : option sys :=
  let c := m_cfg m in
  match a with
  | ARead s r =>
      let x := Src y s in
      if (s <? nsrc c) && (pc x =? 0) && (lastRead x <? r) then
        Some (mkSys (Pst y)
                    (supd (Src y) s (mkSS (plug x) (stT x) (stP x) (nextSeq x) (pending x) (durable x) (dq x)
                                        (attempts x) (closed x) (tearing x) (streamOpen x) (pc x) (timedout x) r))
                    (emit [ERead s r] (out y)))
      else None
  | AAck s ks =>
      let x := Src y s in
      if (s <? nsrc c) && plug x && (0 <? length ks) && negb (lastp_of ks =? 0) then
        let seq := S (nextSeq x) in
        match persist (m_thr m) (Pst y) (mkE s seq (lastp_of ks) (CbAck seq)) with
        | None => None
        | Some (p', started) =>
            Some (mkSys p'
                        (supd (Src y) s (mkSS (plug x) seq (lastp_of ks) seq (pending x ++ [(seq, ks)]) (durable x)
                                            (dq x) (attempts x) (closed x) (tearing x) (streamOpen x) (pc x)
                                            (timedout x) (lastRead x)))
                        (emit (EAck s ks :: tx_event started) (out y)))
        end
      else None
  | ATimer =>
      if timer (Pst y) then
        match trigger_flush (Pst y) with
        | None => None
        | Some (p', started) => Some (mkSys p' (Src y) (emit (tx_event started) (out y)))
        end
      else None
  | AFlush _ =>
      match trigger_flush (Pst y) with
      | None => None
      | Some (p', started) => Some (mkSys p' (Src y) (emit (tx_event started) (out y)))
      end
  | AWriteDone txok fails commitok =>
      match write_done (fixed c) (nsrc c) (Pst y) txok fails commitok with
      | None => None
      | Some (p', es) => Some (mkSys p' (Src y) (emit es (out y)))
      end
  | ACallback i =>
      match take_callback (Pst y) i with
      | None => None
      | Some (p', cb) =>
          let s := cb_conn cb in
          if cb_err cb then Some (mkSys p' (Src y) (emit [ESrcErr s] (out y)))   (* s.errs <- err *)
          else match cb_id cb with
               | CbOpen => Some (mkSys p' (Src y) (out y))
               | CbAck seq => Some (mkSys p' (supd (Src y) s (on_persist_flushed (Src y s) seq)) (out y))
               end
      end
  | ADeliver s ok =>
      let x := Src y s in
      match dq x with
      | [] => None
      | (n, ks) :: r =>
          if negb (s <? nsrc c) || negb (plug x) then None
          else if negb (streamOpen x) then
            (* ctx cancelled: the send fails, streamTornDown -> drop, no escalation *)
            Some (mkSys (Pst y)
                        (supd (Src y) s (mkSS (plug x) (stT x) (stP x) (nextSeq x) (pending x) (durable x) r 0
                                            (closed x) (tearing x) (streamOpen x) (pc x) (timedout x) (lastRead x)))
                        (out y))
          else if ok then
            Some (mkSys (Pst y)
                        (supd (Src y) s (mkSS (plug x) (stT x) (stP x) (nextSeq x) (pending x) (durable x) r 0
                                            (closed x) (tearing x) (streamOpen x) (pc x) (timedout x) (lastRead x)))
                        (emit [EPAck s n ks] (out y)))
          else if S (attempts x) =? retries c then
            (* retries exhausted: escalate unless tearing down, DROP the ack, go on with the next (S6) *)
            Some (mkSys (Pst y)
                        (supd (Src y) s (mkSS (plug x) (stT x) (stP x) (nextSeq x) (pending x) (durable x) r 0
                                            (closed x) (tearing x) (streamOpen x) (pc x) (timedout x) (lastRead x)))
                        (emit (ESendFail s n :: (if tearing x then [] else [ESrcErr s])) (out y)))
          else
            Some (mkSys (Pst y)
                        (supd (Src y) s (mkSS (plug x) (stT x) (stP x) (nextSeq x) (pending x) (durable x) (dq x)
                                            (S (attempts x))
                                            (closed x) (tearing x) (streamOpen x) (pc x) (timedout x) (lastRead x)))
                        (emit [ESendFail s n] (out y)))
      end
  | ATdBegin s _ =>
      let x := Src y s in
      if (s <? nsrc c) && plug x && (pc x =? 0) then
        match trigger_flush (Pst y) with
        | None => None
        | Some (p', started) =>
            Some (mkSys p'
                        (supd (Src y) s (mkSS (plug x) (stT x) (stP x) (nextSeq x) (pending x) (durable x) (dq x)
                                            (attempts x) (closed x) true (streamOpen x) 1 false (lastRead x)))
                        (emit (ETdBegin s :: tx_event started) (out y)))
        end
      else None
  | ATdWaited s =>
      let x := Src y s in
      if (s <? nsrc c) && (pc x =? 1) then
        Some (mkSys (Pst y)
                    (supd (Src y) s (mkSS (plug x) (stT x) (stP x) (nextSeq x) (pending x) (durable x) (dq x)
                                        (attempts x) true (tearing x) (streamOpen x) 2
                                        (negb (wait_done (Pst y))) (lastRead x)))
                    (out y))
      else None
  | ATdCancel s =>
      let x := Src y s in
      if (s <? nsrc c) && (pc x =? 2) then
        Some (mkSys (Pst y)
                    (supd (Src y) s (mkSS (plug x) (stT x) (stP x) (nextSeq x) (pending x) (durable x) (dq x)
                                        (attempts x) (closed x) (tearing x) false 3
                                        (timedout x || negb (match dq x with [] => true | _ => false end))
                                        (lastRead x)))
                    (out y))
      else None
  | ATdDown s fast =>
      let x := Src y s in
      if (s <? nsrc c) && (pc x =? 3) && (match dq x with [] => true | _ => false end)
         && (negb fast || negb (timedout x)) then
        match trigger_flush (Pst y) with
        | None => None
        | Some (p', started) =>
            Some (mkSys p'
                        (supd (Src y) s (mkSS false (stT x) (stP x) (nextSeq x) (pending x) (durable x) []
                                            (attempts x) (closed x) (tearing x) (streamOpen x) 4 (timedout x)
                                            (lastRead x)))
                        (emit (ETdCancel s :: ETdEnd s fast :: tx_event started) (out y)))
        end
      else None
  | AHold s =>
      let x := Src y s in
      match dq x with
      | [] => None
      | (n, _) :: _ =>
          if (s <? nsrc c) && plug x && streamOpen x
          then Some (mkSys (Pst y) (Src y) (emit [ESendHeld s n] (out y)))
          else None
      end
  | AStop s => if (s <? nsrc c) && plug (Src y s) then Some y else None
  end.

(* an action that is not enabled in the current state does not happen *)
Fixpoint run (m : mcfg) (y : sys) (acts : list action) : sys :=
  match acts with
  | [] => y
  | a :: r => match step m y a with Some y' => run m y' r | None => run m y r end
  end.

Definition log_of (y : sys) : list event := rev (out y).
Definition run_log (m : mcfg) (acts : list action) : list event := log_of (run m (init_sys m) acts).
