(* Crash and restart for the connector layer.  Definitions only.
   crash keeps exactly the store (everything else - batch, pending acks, deferred queue, callbacks in
   flight - lives in process memory); restart builds fresh services that open every source at the
   position the store holds (connector.Service.Init -> Instance.Connector -> Source.Open ->
   plugin.Open(state.Position)). *)
From Verif Require Export Conn.SourceAck.

Definition crash (y : sys) : conn -> (nat * pos) := store (Pst y).

Definition restart_cfg (m : mcfg) (st : conn -> (nat * pos)) : mcfg :=
  let c := m_cfg m in
  mkM (mkCfg (nsrc c) (map (fun s => snd (st s)) (upto (nsrc c))) (retries c) (fixed c)) (m_thr m).

Definition restart (m : mcfg) (st : conn -> (nat * pos)) : sys := init_sys (restart_cfg m st).

(* the position a source is opened with after the restart *)
Definition reopened_at (m : mcfg) (st : conn -> (nat * pos)) (s : conn) : pos :=
  stP (Src (restart m st) s).
