(* Crash and restart for the connector layer.  Definitions only.
   crash keeps exactly the store (everything else - batch, pending acks, deferred queue, callbacks in
   flight - lives in process memory); restart builds fresh services that open every source at the
   position the store holds (connector.Service.Init -> Instance.Connector -> Source.Open ->
   plugin.Open(state.Position)). *)
From Verif Require Export Conn.SourceAck.

Definition crash (y : sys) : conn -> (nat * pos) := store (Pst y).

Definition restart_cfg (m : mcfg) (st : conn -> (nat * pos)) : mcfg :=
  let c := m_cfg m in
  mkM (mkCfg (nsrc c) (map (fun s => snd (st s)) (upto (nsrc c))) (retries c) (fixed c)) (m_thr m).

Definition restart (m : mcfg) (st : conn -> (nat * pos)) : sys := init_sys (restart_cfg m st).

(* the position a source is opened with after the restart *)
Definition reopened_at (m : mcfg) (st : conn -> (nat * pos)) (s : conn) : pos :=
  stP (Src (restart m st) s).

(* The whole restart: the store also holds the pipeline's status.  pipeline.Service.Init turns a stored
   "running" into "system-stopped", the lifecycle service's Init starts the pipelines it finds
   system-stopped (definitions in Conn/Trace.v); a started pipeline opens every source at its stored
   position.  None = the pipeline is not started by the restart. *)
Definition restart_system (m : mcfg) (st : conn -> (nat * pos)) (stored_status : nat) : option sys :=
  if resumes stored_status then Some (restart m st) else None.
