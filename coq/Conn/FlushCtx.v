(* Forced flushes and their contexts (Persister.Flush(ctx), Source.Teardown(ctx)).

   The model's actions AFlush / ATdBegin carry the state of the caller's context (live, already
   done, expiring while the call waits).  What the code does - and what the model transcribes - is
   that triggerFlush's wait for the write in flight does not look at it.  The theorems here say what
   that buys, for every schedule and every context:

     run_ctx_irrelevant            the run (state and log) is the same whatever contexts the forced
                                   flushes and teardowns are called with
     flushes_serialized            two transactions never overlap: between two ETxBegin there is the end
                                   (commit / failed NewTransaction) of the first one
     commits_in_snapshot_order     the writes of ONE source reach the store in the order their snapshots
                                   were taken (strictly increasing ack tags, over all commit attempts)

   The last two are proved for every ACCEPTED log (so they are what the acceptor enforces on the
   real code's log) and, through model_log_accepted, for every model run. *)
From Verif Require Import Conn.Crash Conn.TraceProofs Conn.ModelProofs Conn.Theorems.

(* ---------- 1. the context is irrelevant to the model ---------- *)
Definition erase_ctx (a : action) : action :=
  match a with
  | AFlush _ => AFlush CtxLive
  | ATdBegin s _ => ATdBegin s CtxLive
  | _ => a
  end.

Lemma step_erase_ctx m y a : step m y (erase_ctx a) = step m y a.
Proof. destruct a; reflexivity. Qed.

Theorem run_ctx_irrelevant m acts : forall y, run m y (map erase_ctx acts) = run m y acts.
Proof.
  induction acts as [|a r IH]; intros y; [reflexivity|].
  simpl. rewrite step_erase_ctx. destruct (step m y a) as [y'|]; apply IH.
Qed.

Theorem run_log_ctx_irrelevant m acts : run_log m (map erase_ctx acts) = run_log m acts.
Proof. unfold run_log. rewrite run_ctx_irrelevant. reflexivity. Qed.

(* a forced flush with any context is blocked exactly while a write is in flight and a batch waits *)
Theorem forced_flush_blocked_while_in_flight m y cx b :
  inflight (Pst y) = Some b -> batch (Pst y) <> [] -> step m y (AFlush cx) = None.
Proof.
  intros Hi Hb. simpl. unfold trigger_flush. destruct (batch (Pst y)) as [|e r]; [congruence|].
  rewrite Hi. reflexivity.
Qed.

(* ---------- 2. transactions never overlap ---------- *)
Definition tx_end (e : event) : bool :=
  match e with ECommit _ _ _ | ETxFail => true | _ => false end.

Lemma intx_track_no_end c t e : tx_end e = false -> intx t <= intx (track c t e).
Proof.
  destruct e as [s0 r|s0 ks| | |ws ok snap|s0 n ks|s0 n|s0|s0|s0|s0 fast|s0 hn]; simpl; intros H;
    try discriminate; auto.
Qed.

Lemma intx_no_end c l : forall t,
  existsb tx_end l = false -> intx t <= intx (fold_left (track c) l t).
Proof.
  induction l as [|e l IH]; intros t H; [simpl; lia|].
  simpl in H. apply orb_false_iff in H. destruct H as [He Hl]. simpl.
  etransitivity; [apply (intx_track_no_end c t e He)|apply IH; exact Hl].
Qed.

Theorem accepted_flushes_serialized c l1 l2 l3 :
  accepts c (l1 ++ ETxBegin :: l2 ++ ETxBegin :: l3) = true -> existsb tx_end l2 = true.
Proof.
  intros H. destruct (existsb tx_end l2) eqn:E; [reflexivity|exfalso].
  assert (H0 : acc_ok c (state_after c ((l1 ++ ETxBegin :: l2))) ETxBegin = true).
  { apply (accepts_at c (l1 ++ ETxBegin :: l2) ETxBegin l3). rewrite <- app_assoc. exact H. }
  simpl in H0. apply Nat.eqb_eq in H0.
  unfold state_after in H0. rewrite fold_left_app in H0. simpl in H0.
  match type of H0 with intx (fold_left _ _ ?t1) = 0 =>
    pose proof (intx_no_end c l2 t1 E) as Hle; rewrite H0 in Hle; simpl in Hle; lia end.
Qed.

Theorem flushes_serialized : forall m, 1 <= retries (m_cfg m) ->
  forall acts l1 l2 l3,
  run_log m acts = l1 ++ ETxBegin :: l2 ++ ETxBegin :: l3 -> existsb tx_end l2 = true.
Proof.
  intros m Hr acts l1 l2 l3 E. apply (accepted_flushes_serialized (m_cfg m) l1 l2 l3).
  rewrite <- E. apply model_log_accepted. exact Hr.
Qed.

(* ---------- 3. the writes of one source are committed in the order their snapshots were taken ---------- *)
Lemma nodup_src_unique ws : nodup_src ws = true ->
  forall a b, In a ws -> In b ws -> w_s a = w_s b -> a = b.
Proof.
  induction ws as [|v r IH]; intros Hnd a b Ha Hb E; [destruct Ha|].
  destruct (nodup_head _ _ Hnd) as [Hv Hr].
  destruct Ha as [<-|Ha], Hb as [<-|Hb]; auto.
  - exfalso. apply (Hv b Hb). congruence.
  - exfalso. apply (Hv a Ha). congruence.
Qed.

(* once a write of s was attempted, every later accepted event keeps [seenw] and does not lower [wn] *)
Lemma seen_track c s t e :
  acc_ok c t e = true -> seenw (src t s) = true ->
  seenw (src (track c t e) s) = true /\ wn (src t s) <= wn (src (track c t e) s).
Proof.
  intros Ha Hs.
  destruct e as [s0 r|s0 ks| | |ws ok snap|s0 n ks|s0 n|s0|s0|s0|s0 fast|s0 hn]; simpl;
    try (destruct (Nat.eq_dec s s0) as [->|Ne];
         [rewrite !upd_same|rewrite !upd_other by exact Ne]; simpl; auto; fail); auto.
  simpl in Ha. repeat (apply andb_true_iff in Ha; destruct Ha as [Ha ?]).
  match goal with H : nodup_src ws = true |- _ => rename H into Hnd end.
  match goal with H : forallb (write_ok c t) ws = true |- _ => rename H into Hw end.
  destruct (apply_writes_cases ok ws (src t) s Hnd) as [[E _]|(w & Hin & Es & E)]; rewrite E; [auto|].
  unfold apply_write; simpl. split; [reflexivity|].
  rewrite forallb_forall in Hw. specialize (Hw w Hin). unfold write_ok in Hw. rewrite Es in Hw.
  repeat (apply andb_true_iff in Hw; destruct Hw as [Hw ?]).
  match goal with H : (if w_tag w =? 0 then _ else _) = true |- _ => rename H into Ht end.
  rewrite Hs in Ht. destruct (w_tag w =? 0); [discriminate|]. apply Nat.ltb_lt in Ht. lia.
Qed.

Lemma seen_run c s l : forall t,
  runchk c (acc_ok c) t l = true -> seenw (src t s) = true ->
  seenw (src (fold_left (track c) l t) s) = true /\ wn (src t s) <= wn (src (fold_left (track c) l t) s).
Proof.
  induction l as [|e l IH]; intros t H Hs; [simpl; auto|].
  simpl in H. apply andb_true_iff in H. destruct H as [He Hl].
  destruct (seen_track c s t e He Hs) as [H1 H2]. destruct (IH _ Hl H1) as [H3 H4].
  simpl. split; [exact H3|lia].
Qed.

Theorem accepted_commits_in_snapshot_order c l1 ws ok snap l2 ws' ok' snap' l3 w w' :
  accepts c (l1 ++ ECommit ws ok snap :: l2 ++ ECommit ws' ok' snap' :: l3) = true ->
  In w ws -> In w' ws' -> w_s w = w_s w' -> w_tag w < w_tag w'.
Proof.
  intros H Hin Hin' Es. set (s := w_s w).
  (* the first commit *)
  pose proof (accepts_at _ _ _ _ H) as A1. simpl in A1.
  repeat (apply andb_true_iff in A1; destruct A1 as [A1 ?]).
  match goal with H : nodup_src ws = true |- _ => rename H into Hnd end.
  set (t0 := state_after c l1) in *.
  set (t1 := track c t0 (ECommit ws ok snap)).
  assert (S1 : seenw (src t1 s) = true /\ wn (src t1 s) = w_tag w).
  { unfold t1. simpl.
    destruct (apply_writes_cases ok ws (src t0) s Hnd) as [[_ Hno]|(v & Hv & Ev & E)].
    - exfalso. apply (Hno w Hin). reflexivity.
    - rewrite E. assert (v = w) by (apply (nodup_src_unique ws Hnd); auto). subst v.
      unfold apply_write; simpl. auto. }
  destruct S1 as [Sa Sb].
  (* the events between the two commits *)
  unfold accepts in H. rewrite runchk_app in H. apply andb_true_iff in H. destruct H as [_ H].
  rewrite runchk_cons in H. apply andb_true_iff in H. destruct H as [_ H].
  rewrite runchk_app in H. apply andb_true_iff in H. destruct H as [R2 R3].
  fold (state_after c l1) in R2, R3. fold t0 in R2, R3. fold t1 in R2, R3.
  destruct (seen_run c s l2 t1 R2 Sa) as [Sc Sd].
  (* the second commit *)
  rewrite runchk_cons in R3. apply andb_true_iff in R3. destruct R3 as [A2 _]. simpl in A2.
  repeat (apply andb_true_iff in A2; destruct A2 as [A2 ?]).
  match goal with H : forallb (write_ok c _) ws' = true |- _ => rename H into Hw end.
  rewrite forallb_forall in Hw. specialize (Hw w' Hin'). unfold write_ok in Hw.
  replace (w_s w') with s in Hw by exact Es.
  repeat (apply andb_true_iff in Hw; destruct Hw as [Hw ?]).
  match goal with H : (if w_tag w' =? 0 then _ else _) = true |- _ => rename H into Ht end.
  rewrite Sc in Ht. destruct (w_tag w' =? 0); [discriminate|]. apply Nat.ltb_lt in Ht. lia.
Qed.

Theorem commits_in_snapshot_order : forall m, 1 <= retries (m_cfg m) ->
  forall acts l1 ws ok snap l2 ws' ok' snap' l3 w w',
  run_log m acts = l1 ++ ECommit ws ok snap :: l2 ++ ECommit ws' ok' snap' :: l3 ->
  In w ws -> In w' ws' -> w_s w = w_s w' -> w_tag w < w_tag w'.
Proof.
  intros m Hr acts l1 ws ok snap l2 ws' ok' snap' l3 w w' E.
  apply (accepted_commits_in_snapshot_order (m_cfg m) l1 ws ok snap l2 ws' ok' snap' l3).
  rewrite <- E. apply model_log_accepted. exact Hr.
Qed.

(* ---------- non-vacuity and the shape the check looks for ---------- *)
(* one source; ack 1, flush (W1 in flight), ack 2, a forced flush with a DEAD context (blocked: it does
   nothing), W1 commits, the forced flush again (now it starts W2), W2 commits *)
Definition fc_cfg := mkCfg 1 [0] 1 true.
Definition fc_model := mkM fc_cfg 100.
Definition fc_schedule :=
  [ARead 0 1; AAck 0 [1]; AFlush CtxLive; ARead 0 2; AAck 0 [2]; AFlush CtxDone;
   AWriteDone true [] true; AFlush CtxExpiring; AWriteDone true [] true].

Example forced_flush_dead_ctx_waits :
  run_log fc_model fc_schedule =
    [ERead 0 1; EAck 0 [1]; ETxBegin; ERead 0 2; EAck 0 [2];
     ECommit [mkW 0 1 1 true] true [(1, 1)]; ETxBegin; ECommit [mkW 0 2 2 true] true [(2, 2)]] /\
  Mon_C02 true fc_cfg (run_log fc_model fc_schedule) = true.
Proof. vm_compute. split; reflexivity. Qed.

(* what a forced flush that does NOT wait produces on a last-commit-wins store (the newer write
   commits first, the older one overwrites it): rejected by the acceptor and by the monitor *)
Definition fc_overlap_log :=
  [ERead 0 1; EAck 0 [1]; ETxBegin; ERead 0 2; EAck 0 [2]; ETxBegin;
   ECommit [mkW 0 2 2 true] true [(2, 2)]; EPAck 0 1 [1]; EPAck 0 2 [2];
   ECommit [mkW 0 1 1 true] true [(1, 1)]].

Example overlapping_forced_flush_rejected :
  accepts fc_cfg fc_overlap_log = false /\ Mon_C02 true fc_cfg fc_overlap_log = false /\
  Mon_C02 false fc_cfg fc_overlap_log = false.
Proof. vm_compute. repeat split. Qed.
