(* Executable correspondence + monitors for the C02 / C03 case files.
   code bit 0 (1): the acceptor rejects the observed log (the code left the model)
   code bit 1 (2): the property monitor rejects it (violation witness)
   code bit 2 (4): also the weakened monitor rejects it, i.e. the violation is NOT explained by
                   "a Set failed inside a transaction that committed" (finding S1)            *)
From Verif Require Import Base.CaseCheck Conn.Trace.

Record ccase := mkCase { c_cfg : cfg; c_log : list event; c_obs : list robs; c_fobs : list fobs }.

Definition code3 (acc mon weak : bool) : nat :=
  (if acc then 0 else 1) + (if mon then 0 else 2) + (if weak then 0 else 4).

Definition chk02 (c : ccase) : nat :=
  code3 (accepts (c_cfg c) (c_log c))
        (Mon_C02 true (c_cfg c) (c_log c))
        (Mon_C02 false (c_cfg c) (c_log c)).

Definition chk03 (c : ccase) : nat :=
  code3 (accepts (c_cfg c) (c_log c) && forallb (restart_ok (c_cfg c) (c_log c)) (c_obs c)
         && forallb (full_acc (c_cfg c) (c_log c)) (c_fobs c))
        (Mon_C03 true (c_cfg c) (c_log c) (c_obs c) && forallb (full_mon (c_cfg c) (c_log c)) (c_fobs c))
        (Mon_C03 false (c_cfg c) (c_log c) (c_obs c) && forallb (full_mon (c_cfg c) (c_log c)) (c_fobs c)).
