(* Every log the connector-layer model can produce (any action list = any schedule, any fault) is
   accepted by the acceptor; with TraceProofs this gives the property theorems for the model. *)
From Verif Require Import Conn.Crash Conn.TraceProofs.

(* ---------- folding the acceptor over emitted events ---------- *)
Lemma runchk_app c chk t l1 l2 :
  runchk c chk t (l1 ++ l2) = runchk c chk t l1 && runchk c chk (fold_left (track c) l1 t) l2.
Proof.
  revert t; induction l1 as [|e l1 IH]; intros t; simpl; [reflexivity|].
  rewrite IH, andb_assoc. reflexivity.
Qed.

Lemma runchk_one c chk t e : runchk c chk t [e] = chk t e.
Proof. simpl. apply andb_true_r. Qed.

Lemma runchk_cons c chk t e es :
  runchk c chk t (e :: es) = chk t e && runchk c chk (track c t e) es.
Proof. reflexivity. Qed.

Lemma upto_seq n : upto n = seq 0 n.
Proof.
  induction n as [|n IH]; [reflexivity|]. simpl upto. rewrite IH.
  rewrite seq_S. reflexivity.
Qed.

(* ---------- apply_writes: what it leaves alone ---------- *)
Definition same_but_store (a b : sst) : Prop :=
  acks a = acks b /\ reads a = reads b /\ lastread a = lastread b /\ nacked a = nacked b /\ eng a = eng b /\
  dn a = dn b /\ lastp a = lastp b /\ att a = att b /\ ph a = ph b /\ tdacks a = tdacks b /\
  tdh a = tdh b /\ tdtx a = tdtx b /\ hs a = hs b.

Lemma same_but_store_refl a : same_but_store a a.
Proof. repeat split. Qed.

Lemma apply_writes_frame ok ws f s : same_but_store (apply_writes ok f ws s) (f s).
Proof.
  unfold apply_writes. revert f. induction ws as [|w r IH]; intros f; simpl; [apply same_but_store_refl|].
  specialize (IH (upd f (w_s w) (apply_write ok (f (w_s w)) w))).
  destruct (Nat.eq_dec s (w_s w)) as [->|E].
  - rewrite upd_same in IH. unfold same_but_store in *. simpl in IH. exact IH.
  - rewrite upd_other in IH by exact E. exact IH.
Qed.

(* ---------- persister toolkit ---------- *)
Lemma in_put e b x : In x (put e b) <-> x = e \/ (In x b /\ e_conn x <> e_conn e).
Proof.
  unfold put. simpl. rewrite filter_In, negb_true_iff, Nat.eqb_neq. intuition.
Qed.

Lemma nodup_put e b : NoDup (map e_conn b) -> NoDup (map e_conn (put e b)).
Proof.
  intros H. unfold put. simpl. constructor.
  - rewrite in_map_iff. intros (x & E & Hx). apply filter_In in Hx. destruct Hx as [_ Hx].
    apply negb_true_iff, Nat.eqb_neq in Hx. congruence.
  - induction b as [|y r IH]; simpl; [constructor|]. inversion H as [|? ? Hn Hr]; subst.
    destruct (negb (e_conn y =? e_conn e)); simpl; [|apply IH; exact Hr].
    constructor; [|apply IH; exact Hr]. rewrite in_map_iff. intros (x & E & Hx).
    apply filter_In in Hx. destruct Hx as [Hx _]. apply Hn. rewrite in_map_iff. exists x. auto.
Qed.

Lemma apply_writes_cov_mono c ok ws f s : cov c (f s) <= cov c (apply_writes ok f ws s).
Proof.
  unfold apply_writes. revert f. induction ws as [|w r IH]; intros f; simpl; [lia|].
  etransitivity; [|apply IH]. destruct (Nat.eq_dec s (w_s w)) as [->|E].
  - rewrite upd_same. unfold cov, apply_write. simpl. destruct (fixed c), ok, (w_ok w); simpl; lia.
  - rewrite upd_other by exact E. lia.
Qed.

Section Model.
Variable m : mcfg.
Let c := m_cfg m.
Hypothesis Hret : 1 <= retries c.

Definition fl_entries (p : pstate) : list entry := match inflight p with Some b => b | None => [] end.

Definition entry_ok (t : tst) (fl : list entry) (e : entry) : Prop :=
  let s := e_conn e in let a := src t s in
  s < nsrc c /\
  match e_cb e with CbOpen => e_tag e = 0 | CbAck n => n = e_tag e /\ 0 < n end /\
  (e_tag e = 0 -> seenw a = false /\ forall e', In e' fl -> e_conn e' <> s) /\
  (0 < e_tag e -> wn a < e_tag e /\ forall e', In e' fl -> e_conn e' = s -> e_tag e' < e_tag e) /\
  pos_of_tag (init_of c s) a (e_tag e) = Some (e_pos e).

Record RelP (p : pstate) (t : tst) : Prop := {
  rp_intx : intx t = match inflight p with Some _ => 1 | None => 0 end;
  rp_store : forall s, store p s = (stag (src t s), spos (src t s));
  rp_nd_b : NoDup (map e_conn (batch p));
  rp_nd_f : NoDup (map e_conn (fl_entries p));
  rp_b : forall e, In e (batch p) -> entry_ok t (fl_entries p) e;
  rp_f : forall e, In e (fl_entries p) -> entry_ok t [] e;
  rp_cb : forall cb, In cb (cbs p) -> cb_conn cb < nsrc c /\
            (cb_err cb = false -> forall n, cb_id cb = CbAck n -> n <= cov c (src t (cb_conn cb)))
}.

Record RelS (x : sstate) (a : sst) : Prop := {
  r_seq : nextSeq x = length (acks a);
  r_pend : exists d, map fst (pending x) = seq (S d) (length (pending x)) /\
                     d + length (pending x) = nextSeq x /\
                     (closed x = false -> d = dn a + length (dq x));
  r_pend_ack : forall n ks, In (n, ks) (pending x) -> ack_at a n = Some ks;
  r_dq_ack : forall n ks, In (n, ks) (dq x) -> ack_at a n = Some ks /\ n <= durable x;
  r_dq_seq : streamOpen x = true -> map fst (dq x) = seq (S (dn a)) (length (dq x));
  r_dur : durable x <= cov c a;
  r_att : streamOpen x = true -> attempts x = att a;
  r_att_lt : att a < retries c;
  r_ph : ph a = match pc x with 0 => 0 | 1 | 2 | 3 => 1 | _ => 3 end;
  r_pc : pc x <= 4;
  r_plug : plug x = negb (pc x =? 4);
  r_open : streamOpen x = (pc x <=? 2);
  r_closed : closed x = (2 <=? pc x);
  r_lr : lastRead x = lastread a;
  r_hs : dn a < hs a -> streamOpen x = true -> dq x <> [];
  r_hs_le : hs a <= S (dn a)
}.

Record G (y : sys) (t : tst) : Prop := {
  g_inv : Inv c t;
  g_p : RelP (Pst y) t;
  g_s : forall s, RelS (Src y s) (src t s)
}.

(* RelS only needs some fields of the tracked state, and a coverage that does not shrink *)
Lemma RelS_ext x a a' :
  RelS x a -> acks a' = acks a -> dn a' = dn a -> att a' = att a -> ph a' = ph a ->
  lastread a' = lastread a -> cov c a <= cov c a' -> hs a' = hs a -> RelS x a'.
Proof.
  intros H E1 E2 E3 E4 E5 Hc E6. destruct H.
  constructor; unfold ack_at in *; rewrite ?E1, ?E2, ?E3, ?E4, ?E5, ?E6; auto. lia.
Qed.

Lemma entry_ok_ext t t' fl fl' e :
  entry_ok t fl e ->
  acks (src t' (e_conn e)) = acks (src t (e_conn e)) ->
  seenw (src t' (e_conn e)) = seenw (src t (e_conn e)) ->
  wn (src t' (e_conn e)) = wn (src t (e_conn e)) ->
  (forall e', In e' fl' -> In e' fl) ->
  entry_ok t' fl' e.
Proof.
  unfold entry_ok. intros (H1 & H2 & H3 & H4 & H5) E1 E2 E3 Hfl.
  rewrite E2, E3, (pos_of_tag_ext _ (src t' (e_conn e)) (src t (e_conn e))) by exact E1.
  repeat split; auto.
  - apply H3; auto.
  - intros e' He'. apply H3; auto.
  - apply H4; auto.
  - intros e' He'. apply H4; auto.
Qed.

(* ---------- the initial state ---------- *)
Lemma seq_map_nodup k n : NoDup (seq k n).
Proof. apply seq_NoDup. Qed.

Lemma G_init : G (init_sys m) (init_t c).
Proof.
  constructor.
  - apply inv_init.
  - unfold init_sys. fold c. constructor; simpl.
    + reflexivity.
    + reflexivity.
    + rewrite map_map. simpl. rewrite map_id, upto_seq. apply seq_NoDup.
    + constructor.
    + intros e He. apply in_map_iff in He. destruct He as (s & <- & Hs).
      rewrite upto_seq in Hs. apply in_seq in Hs. unfold entry_ok. simpl.
      repeat split; try lia; try reflexivity; intros; try lia; try contradiction.
    + intros e [].
    + intros cb [].
  - intros s. unfold init_sys, init_src, init_t, init_s. simpl. constructor; simpl; try reflexivity; try lia.
    all: try (intros n ks []).
    all: try (exists 0; repeat split; reflexivity).
    all: try (unfold cov; simpl; destruct (fixed c); lia).
Qed.

(* ---------- one action ---------- *)
Definition steps_ok (y : sys) (t : tst) (y' : sys) : Prop :=
  exists es, out y' = rev es ++ out y /\ runchk c (acc_ok c) t es = true /\
             G y' (fold_left (track c) es t).

Lemma supd_same f s v : supd f s v s = v.
Proof. unfold supd. rewrite Nat.eqb_refl. reflexivity. Qed.
Lemma supd_other f s v x : x <> s -> supd f s v x = f x.
Proof. intros H. unfold supd. destruct (x =? s) eqn:E; [apply Nat.eqb_eq in E; congruence|reflexivity]. Qed.

(* a change of the tracked state of one source that RelP does not look at *)
Lemma RelP_set_src' p t t' s v :
  RelP p t ->
  src t' = upd (src t) s v -> intx t' = intx t ->
  acks v = acks (src t s) \/ (exists ks, acks v = acks (src t s) ++ [ks]) ->
  seenw v = seenw (src t s) -> wn v = wn (src t s) -> stag v = stag (src t s) -> spos v = spos (src t s) ->
  cov c (src t s) <= cov c v ->
  RelP p t'.
Proof.
  intros H Es Ei Ea E2 E3 E4 E5 Hc. destruct H.
  assert (Hpt : forall n q, pos_of_tag (init_of c s) (src t s) n = Some q -> pos_of_tag (init_of c s) v n = Some q).
  { intros n q Hq. destruct Ea as [Ea|[ks Ea]]; [rewrite (pos_of_tag_ext _ v (src t s)) by exact Ea; exact Hq|].
    destruct n as [|k]; [exact Hq|]. simpl in *. rewrite Ea.
    destruct (nth_error (acks (src t s)) k) eqn:Hn; [|discriminate].
    rewrite nth_error_app1; [rewrite Hn; exact Hq|]. apply nth_error_Some. congruence. }
  assert (Heo : forall fl e, entry_ok t fl e -> entry_ok t' fl e).
  { intros fl e (H1 & H2 & H3 & H4 & H5). unfold entry_ok. rewrite Es.
    destruct (Nat.eq_dec (e_conn e) s) as [E|E].
    - rewrite E in *. rewrite upd_same, E2, E3. repeat split; auto; try apply H3; try apply H4; auto.
    - rewrite upd_other by exact E. repeat split; auto; try apply H3; try apply H4; auto. }
  constructor; rewrite ?Ei, ?Es; auto.
  - intros s'. destruct (Nat.eq_dec s' s) as [->|E]; [rewrite upd_same, E4, E5; auto|rewrite upd_other by exact E; auto].
  - intros cb Hcb. destruct (rp_cb0 cb Hcb) as [H1 H2]. split; [exact H1|].
    intros He n Hn. specialize (H2 He n Hn).
    destruct (Nat.eq_dec (cb_conn cb) s) as [E|E]; [rewrite E in *; rewrite upd_same; lia|rewrite upd_other by exact E; exact H2].
Qed.

Lemma RelP_set_src p t s v :
  RelP p t ->
  acks v = acks (src t s) \/ (exists ks, acks v = acks (src t s) ++ [ks]) ->
  seenw v = seenw (src t s) -> wn v = wn (src t s) -> stag v = stag (src t s) -> spos v = spos (src t s) ->
  cov c (src t s) <= cov c v ->
  Inv c t ->
  RelP p (set_src t s v).
Proof. intros. eapply RelP_set_src'; eauto; reflexivity. Qed.

Lemma G_set_one y t s e x' :
  G y t -> acc_ok c t e = true ->
  (forall s', s' <> s -> src (track c t e) s' = src t s') ->
  RelP (Pst y) (track c t e) ->
  RelS x' (src (track c t e) s) ->
  G (mkSys (Pst y) (supd (Src y) s x') (e :: out y)) (track c t e).
Proof.
  intros HG Ha Ho HP HS. destruct HG. constructor; simpl.
  - apply step_inv; assumption.
  - exact HP.
  - intros s'. destruct (Nat.eq_dec s' s) as [->|E]; [rewrite supd_same; exact HS|].
    rewrite supd_other by exact E. rewrite Ho by exact E. apply g_s0.
Qed.

Lemma step_read y t s r y' : G y t -> step m y (ARead s r) = Some y' -> steps_ok y t y'.
Proof.
  intros HG Hs. simpl in Hs. fold c in Hs.
  destruct ((s <? nsrc c) && (pc (Src y s) =? 0) && (lastRead (Src y s) <? r)) eqn:Hc; [|discriminate].
  inversion Hs; subst y'; clear Hs.
  repeat (apply andb_true_iff in Hc; destruct Hc as [Hc ?]).
  pose proof (g_s _ _ HG s) as HS. pose proof (g_p _ _ HG) as HP. pose proof (g_inv _ _ HG) as HI.
  apply Nat.eqb_eq in H0.
  assert (Ha : acc_ok c t (ERead s r) = true).
  { simpl. rewrite Hc. rewrite (r_ph _ _ HS), H0. simpl. rewrite <- (r_lr _ _ HS). exact H. }
  exists [ERead s r]. split; [reflexivity|]. split; [rewrite runchk_one; exact Ha|].
  cbn [fold_left].
  apply G_set_one; auto.
  - intros s' E. simpl. apply upd_other. exact E.
  - simpl. apply RelP_set_src; auto; simpl; try reflexivity; try lia; try (left; reflexivity); try (unfold cov; simpl; lia).
  - simpl. rewrite upd_same. destruct HS. constructor; simpl; auto.
Qed.

Lemma inv_fold t es : Inv c t -> runchk c (acc_ok c) t es = true -> Inv c (fold_left (track c) es t).
Proof.
  revert t; induction es as [|e es IH]; intros t HI H; [exact HI|].
  simpl in H. apply andb_true_iff in H. destruct H as [H1 H2]. simpl. apply IH; [apply step_inv; assumption|exact H2].
Qed.

Lemma pos_of_tag_le p0 a n q : pos_of_tag p0 a n = Some q -> n <= length (acks a).
Proof.
  destruct n as [|k]; [lia|]. simpl. destruct (nth_error (acks a) k) eqn:H; [|discriminate].
  intros _. assert (k < length (acks a)) by (apply nth_error_Some; congruence). lia.
Qed.

Lemma RelS_txbegin x t s : RelS x (src t s) -> RelS x (src (track c t ETxBegin) s).
Proof. intros H. simpl. eapply RelS_ext; [exact H|..]; try reflexivity; try (unfold cov; simpl; lia). Qed.

Lemma trigger_rel p t p' started :
  RelP p t -> trigger_flush p = Some (p', started) ->
  runchk c (acc_ok c) t (tx_event started) = true /\
  RelP p' (fold_left (track c) (tx_event started) t) /\
  (forall x s, RelS x (src t s) -> RelS x (src (fold_left (track c) (tx_event started) t) s)).
Proof.
  intros HP Ht. unfold trigger_flush in Ht. destruct HP.
  destruct (batch p) as [|e0 b0] eqn:Hb.
  - inversion Ht; subst. simpl. split; [reflexivity|]. split; [|auto].
    constructor; simpl; auto; try constructor; try (intros e []).
  - destruct (inflight p) as [fl|] eqn:Hf; [discriminate|]. inversion Ht; subst. clear Ht.
    unfold fl_entries in *. rewrite Hf in *.
    split; [simpl; rewrite rp_intx0; reflexivity|]. split; [|intros x s; apply RelS_txbegin].
    cbn [tx_event fold_left]. constructor; cbn [inflight batch store cbs fl_entries]; simpl src; simpl intx.
    + rewrite rp_intx0. reflexivity.
    + intros s. simpl. apply rp_store0.
    + constructor.
    + exact rp_nd_b0.
    + intros e [].
    + intros e He. eapply entry_ok_ext; [apply rp_b0; exact He|..]; try reflexivity. auto.
    + intros cb Hcb. destruct (rp_cb0 cb Hcb) as [H1 H2]. split; [exact H1|]. intros He n Hn.
      specialize (H2 He n Hn). unfold cov in *. simpl. exact H2.
Qed.

Lemma RelP_put p t e :
  RelP p t -> entry_ok t (fl_entries p) e ->
  RelP (mkP (put e (batch p)) (S (bundle p)) (timer p) (inflight p) (gen p) (stuck p) (store p) (cbs p)) t.
Proof.
  intros HP He. destruct HP. constructor; simpl; auto.
  - apply nodup_put. exact rp_nd_b0.
  - intros e' He'. apply in_put in He'. destruct He' as [->|[He' _]]; auto.
Qed.

Lemma RelP_timer p t b :
  RelP p t -> RelP (mkP (batch p) (bundle p) b (inflight p) (gen p) (stuck p) (store p) (cbs p)) t.
Proof. intros HP. destruct HP. constructor; simpl; auto. Qed.

Lemma persist_rel p t e p' started :
  RelP p t -> entry_ok t (fl_entries p) e -> persist (m_thr m) p e = Some (p', started) ->
  runchk c (acc_ok c) t (tx_event started) = true /\
  RelP p' (fold_left (track c) (tx_event started) t) /\
  (forall x s, RelS x (src t s) -> RelS x (src (fold_left (track c) (tx_event started) t) s)).
Proof.
  intros HP He Hp. unfold persist in Hp.
  pose proof (RelP_put p t e HP He) as HP1.
  destruct (S (bundle p) =? m_thr m).
  - eapply trigger_rel; eauto.
  - inversion Hp; subst. simpl. split; [reflexivity|]. split; [|auto].
    apply (RelP_timer _ t true) in HP1. exact HP1.
Qed.

Lemma ack_at_app a a' ks n q : acks a' = acks a ++ [ks] -> ack_at a n = Some q -> ack_at a' n = Some q.
Proof.
  intros E H. destruct n as [|k]; [discriminate|]. simpl in *. rewrite E.
  rewrite nth_error_app1; [exact H|]. apply nth_error_Some. congruence.
Qed.

Lemma step_flushlike y t p' started :
  G y t -> trigger_flush (Pst y) = Some (p', started) ->
  steps_ok y t (mkSys p' (Src y) (emit (tx_event started) (out y))).
Proof.
  intros HG Ht. destruct (trigger_rel _ _ _ _ (g_p _ _ HG) Ht) as (Ha & HP & HS).
  exists (tx_event started). split; [reflexivity|]. split; [exact Ha|].
  constructor; simpl.
  - apply inv_fold; [apply (g_inv _ _ HG)|exact Ha].
  - exact HP.
  - intros s. apply HS. apply (g_s _ _ HG).
Qed.

Lemma step_ack y t s ks y' : G y t -> step m y (AAck s ks) = Some y' -> steps_ok y t y'.
Proof.
  intros HG Hs. simpl in Hs. fold c in Hs.
  destruct ((s <? nsrc c) && plug (Src y s) && (0 <? length ks) && negb (lastp_of ks =? 0)) eqn:Hc; [|discriminate].
  set (x := Src y s) in *. set (sq := S (nextSeq x)) in *.
  destruct (persist (m_thr m) (Pst y) (mkE s sq (lastp_of ks) (CbAck sq))) as [[p' started]|] eqn:Hp; [|discriminate].
  inversion Hs; subst y'; clear Hs.
  repeat (apply andb_true_iff in Hc; destruct Hc as [Hc ?]).
  pose proof (g_s _ _ HG s) as HS. fold x in HS. pose proof (g_p _ _ HG) as HP. pose proof (g_inv _ _ HG) as HI.
  assert (Hph : ph (src t s) <= 1).
  { rewrite (r_ph _ _ HS). pose proof (r_plug _ _ HS) as Hpl. rewrite H1 in Hpl.
    pose proof (r_pc _ _ HS) as Hpc.
    destruct (pc x) as [|[|[|[|[|k]]]]]; cbn in Hpl |- *; try lia; try discriminate. }
  assert (Ha : acc_ok c t (EAck s ks) = true).
  { simpl. rewrite Hc, H0, H. simpl. rewrite !andb_true_r. apply Nat.leb_le. exact Hph. }
  set (t1 := track c t (EAck s ks)).
  assert (HI1 : Inv c t1) by (apply step_inv; assumption).
  assert (Hlen : wn (src t s) <= length (acks (src t s))) by apply (i_wn_len _ _ (proj1 HI s)).
  assert (HP1 : RelP (Pst y) t1).
  { unfold t1. simpl. apply RelP_set_src; auto; simpl; try reflexivity; try (unfold cov; simpl; lia).
    right. exists ks. reflexivity. }
  assert (Ht1s : src t1 s = mkS (acks (src t s) ++ [ks]) (reads (src t s)) (lastread (src t s))
                               (nacked (src t s) + length ks)
                               (eng (src t s) && (0 <? length ks) &&
                                list_eqb_nat (firstn (length ks) (skipn (nacked (src t s)) (reads (src t s)))) ks)
                               (seenw (src t s)) (wn (src t s)) (okmax (src t s)) (attmax (src t s))
                               (stag (src t s)) (spos (src t s)) (dn (src t s)) (lastp (src t s)) (att (src t s))
                               (ph (src t s)) (tdacks (src t s)) (tdh (src t s)) (tdtx (src t s)) (hs (src t s))).
  { unfold t1. simpl. apply upd_same. }
  assert (Heo : entry_ok t1 (fl_entries (Pst y)) (mkE s sq (lastp_of ks) (CbAck sq))).
  { unfold entry_ok. cbn [e_conn e_tag e_pos e_cb]. rewrite Ht1s. simpl. apply Nat.ltb_lt in Hc.
    assert (Hsq : sq = S (length (acks (src t s)))) by (unfold sq; rewrite (r_seq _ _ HS); reflexivity).
    repeat split; try lia.
    - intros e' He' Ec. destruct (rp_f _ _ HP e' He') as (_ & _ & _ & _ & Hpt).
      apply pos_of_tag_le in Hpt. rewrite Ec in Hpt. lia.
    - rewrite (r_seq _ _ HS). rewrite nth_error_app2 by lia. rewrite Nat.sub_diag. reflexivity. }
  destruct (persist_rel _ _ _ _ _ HP1 Heo Hp) as (Ha2 & HP2 & HS2).
  exists (EAck s ks :: tx_event started). split; [reflexivity|].
  split; [rewrite runchk_cons, Ha; exact Ha2|].
  cbn [fold_left]. fold t1. constructor; simpl.
  - apply inv_fold; assumption.
  - exact HP2.
  - intros s'. apply HS2. destruct (Nat.eq_dec s' s) as [->|E].
    + rewrite supd_same, Ht1s. destruct HS. constructor; simpl; auto.
      * rewrite app_length. simpl. unfold sq. lia.
      * destruct r_pend0 as (d & Hd1 & Hd2 & Hd3). exists d. rewrite map_app, app_length. simpl.
        repeat split; auto; [|unfold sq; lia]. rewrite Nat.add_1_r, seq_S, Hd1. f_equal. f_equal. unfold sq. lia.
      * intros n q Hin. apply in_app_or in Hin. destruct Hin as [Hin|[Hin|[]]].
        -- eapply ack_at_app; [reflexivity|]. apply r_pend_ack0. exact Hin.
        -- inversion Hin; subst. unfold sq, ack_at. simpl. rewrite r_seq0.
           rewrite nth_error_app2 by lia. rewrite Nat.sub_diag. reflexivity.
      * intros n q Hin. destruct (r_dq_ack0 n q Hin) as [H2 H3]. split; [|exact H3].
        eapply ack_at_app; [reflexivity|exact H2].
    + rewrite supd_other by exact E. unfold t1. simpl. rewrite upd_other by exact E. apply (g_s _ _ HG).
Qed.

Lemma step_timer y t y' : G y t -> step m y ATimer = Some y' -> steps_ok y t y'.
Proof.
  intros HG Hs. simpl in Hs. destruct (timer (Pst y)); [|discriminate].
  destruct (trigger_flush (Pst y)) as [[p' started]|] eqn:Ht; [|discriminate].
  inversion Hs; subst. eapply step_flushlike; eauto.
Qed.

Lemma step_flush y t cx y' : G y t -> step m y (AFlush cx) = Some y' -> steps_ok y t y'.
Proof.
  intros HG Hs. simpl in Hs.
  destruct (trigger_flush (Pst y)) as [[p' started]|] eqn:Ht; [|discriminate].
  inversion Hs; subst. eapply step_flushlike; eauto.
Qed.

(* ---------- the transaction in flight finishes ---------- *)
Lemma in_writes_of fails b w :
  In w (writes_of fails b) <->
  exists e, In e b /\ w = mkW (e_conn e) (e_tag e) (e_pos e) (negb (set_fails fails (e_conn e))).
Proof. unfold writes_of. rewrite in_map_iff. split; intros (e & H1 & H2); exists e; auto. Qed.

Lemma nodup_src_of ws : NoDup (map w_s ws) -> nodup_src ws = true.
Proof.
  induction ws as [|w r IH]; [reflexivity|]. simpl. intros H. inversion H as [|? ? Hn Hr]; subst.
  rewrite IH by exact Hr. rewrite andb_true_r. apply negb_true_iff.
  destruct (existsb (fun v => w_s v =? w_s w) r) eqn:E; [|reflexivity].
  apply existsb_exists in E. destruct E as (v & Hv & Ev). apply Nat.eqb_eq in Ev.
  exfalso. apply Hn. rewrite in_map_iff. exists v. auto.
Qed.

Lemma writes_of_conns fails b : map w_s (writes_of fails b) = map e_conn b.
Proof. unfold writes_of. rewrite map_map. reflexivity. Qed.

Lemma nodup_map_inj {A} (f : A -> nat) l a b :
  NoDup (map f l) -> In a l -> In b l -> f a = f b -> a = b.
Proof.
  induction l as [|x r IH]; [intros _ []|]. simpl. intros H Ha Hb E. inversion H as [|? ? Hn Hr]; subst.
  destruct Ha as [->|Ha], Hb as [->|Hb]; auto.
  - exfalso. apply Hn. rewrite E. apply in_map. exact Hb.
  - exfalso. apply Hn. rewrite <- E. apply in_map. exact Ha.
Qed.

Lemma commit_store_rel ws : forall st f,
  (forall s, st s = (stag (f s), spos (f s))) ->
  forall s, commit_store st ws s = (stag (apply_writes true f ws s), spos (apply_writes true f ws s)).
Proof.
  unfold commit_store, apply_writes. induction ws as [|w r IH]; intros st f H s; simpl; [apply H|].
  apply IH. intros s'. destruct (Nat.eq_dec s' (w_s w)) as [->|E].
  - rewrite upd_same. unfold apply_write. simpl. destruct (w_ok w); simpl.
    + unfold store_upd. rewrite Nat.eqb_refl. reflexivity.
    + apply H.
  - rewrite upd_other by exact E. destruct (w_ok w); [|apply H].
    unfold store_upd. destruct (s' =? w_s w) eqn:E'; [apply Nat.eqb_eq in E'; congruence|apply H].
Qed.

Lemma apply_writes_false_store ws f s :
  stag (apply_writes false f ws s) = stag (f s) /\ spos (apply_writes false f ws s) = spos (f s).
Proof.
  unfold apply_writes. revert f. induction ws as [|w r IH]; intros f; simpl; [auto|].
  destruct (IH (upd f (w_s w) (apply_write false (f (w_s w)) w))) as [H1 H2]. rewrite H1, H2.
  destruct (Nat.eq_dec s (w_s w)) as [->|E]; [rewrite upd_same; auto|rewrite upd_other by exact E; auto].
Qed.

Lemma snap_ok_map st f n : forall k,
  (forall s, st s = (stag (f s), spos (f s))) -> snap_ok f k (map st (seq k n)) = true.
Proof.
  induction n as [|n IH]; intros k H; [reflexivity|]. simpl. rewrite H. rewrite !Nat.eqb_refl. simpl.
  apply IH. exact H.
Qed.

Lemma length_upto n : length (upto n) = n.
Proof. rewrite upto_seq. apply seq_length. Qed.

Lemma step_writedone y t txok fails commitok y' :
  G y t -> step m y (AWriteDone txok fails commitok) = Some y' -> steps_ok y t y'.
Proof.
  intros HG Hs. simpl in Hs. fold c in Hs.
  destruct (write_done (fixed c) (nsrc c) (Pst y) txok fails commitok) as [[p' es]|] eqn:Hw; [|discriminate].
  inversion Hs; subst y'; clear Hs.
  unfold write_done in Hw. destruct (inflight (Pst y)) as [b|] eqn:Hf; [|discriminate].
  pose proof (g_p _ _ HG) as HP. pose proof (g_inv _ _ HG) as HI.
  pose proof HP as [p1 p2 p3 p4 p5 p6 p7]. unfold fl_entries in *. rewrite Hf in *.
  destruct txok; simpl in Hw; inversion Hw; subst p' es; clear Hw.
  - (* commit attempt *)
    set (ws := writes_of fails b). set (e := ECommit ws commitok (snapshot (nsrc c)
                (if commitok then commit_store (store (Pst y)) ws else store (Pst y)))).
    set (t' := track c t e).
    assert (Hsrc : src t' = apply_writes commitok (src t) ws) by reflexivity.
    assert (Hnd : nodup_src ws = true) by (apply nodup_src_of; unfold ws; rewrite writes_of_conns; exact p4).
    assert (Hst : forall s, (if commitok then commit_store (store (Pst y)) ws else store (Pst y)) s =
                            (stag (src t' s), spos (src t' s))).
    { intros s. rewrite Hsrc. destruct commitok; [apply commit_store_rel; exact p2|].
      destruct (apply_writes_false_store ws (src t) s) as [-> ->]. apply p2. }
    assert (Hwok : forallb (write_ok c t) ws = true).
    { apply forallb_forall. intros w Hw. apply in_writes_of in Hw. destruct Hw as (e0 & He0 & ->).
      destruct (p6 e0 He0) as (H1 & H2 & H3 & H4 & H5). unfold write_ok. simpl. rewrite H5, Nat.eqb_refl.
      apply Nat.ltb_lt in H1. rewrite H1. simpl. rewrite andb_true_r.
      destruct (e_tag e0 =? 0) eqn:E0.
      - apply Nat.eqb_eq in E0. destruct (H3 E0) as [-> _]. reflexivity.
      - apply Nat.eqb_neq in E0. apply Nat.ltb_lt. apply H4. lia. }
    assert (Ha : acc_ok c t e = true).
    { unfold e. simpl. rewrite p1. simpl. rewrite Hnd, Hwok. simpl.
      unfold snapshot. rewrite map_length, length_upto, Nat.eqb_refl. simpl.
      rewrite upto_seq. apply snap_ok_map. intros s. rewrite <- Hsrc. apply Hst. }
    exists [e]. split; [reflexivity|]. split; [rewrite runchk_one; exact Ha|].
    cbn [fold_left]. fold t'.
    assert (Hwhich : forall s, (src t' s = src t s /\ forall e0, In e0 b -> e_conn e0 <> s) \/
                        (exists e0, In e0 b /\ e_conn e0 = s /\
                           src t' s = apply_write commitok (src t s)
                                        (mkW (e_conn e0) (e_tag e0) (e_pos e0) (negb (set_fails fails (e_conn e0)))))).
    { intros s. rewrite Hsrc. destruct (apply_writes_cases commitok ws (src t) s Hnd) as [[H1 H2]|(w & Hw & Es & H1)].
      - left. split; [exact H1|]. intros e0 He0 E. apply (H2 (mkW (e_conn e0) (e_tag e0) (e_pos e0) (negb (set_fails fails (e_conn e0))))); [|exact E].
        apply in_writes_of. exists e0. auto.
      - right. apply in_writes_of in Hw. destruct Hw as (e0 & He0 & ->). exists e0. auto. }
    constructor; simpl.
    + apply step_inv; assumption.
    + constructor; simpl; auto.
      * unfold t', e. simpl. rewrite p1. reflexivity.
      * constructor.
      * intros e0 He0. destruct (p5 e0 He0) as (H1 & H2 & H3 & H4 & H5). unfold entry_ok.
        destruct (Hwhich (e_conn e0)) as [[Eq _]|(e1 & He1 & Ec & Eq)]; rewrite Eq.
        -- repeat split; auto; try apply H3; try apply H4; auto; intros ? [].
        -- split; [exact H1|]. split; [exact H2|]. split; [|split; [|exact H5]].
           ++ intros E0. exfalso. destruct (H3 E0) as [_ Hno]. apply (Hno e1 He1 Ec).
           ++ intros Hpos. split; [apply (proj2 (H4 Hpos) e1 He1 Ec)|intros ? []].
      * intros e0 [].
      * intros cb Hcb. apply in_app_or in Hcb. destruct Hcb as [Hcb|Hcb].
        -- destruct (p7 cb Hcb) as [H1 H2]. split; [exact H1|]. intros He n Hn. specialize (H2 He n Hn).
           etransitivity; [exact H2|]. apply (apply_writes_cov_mono c commitok ws (src t)).
        -- apply in_map_iff in Hcb. destruct Hcb as (e0 & <- & He0). simpl.
           destruct (p6 e0 He0) as (H1 & H2 & H3 & H4 & H5). split; [exact H1|].
           intros Herr n Hn. rewrite Hn in H2. destruct H2 as [-> Hpos].
           unfold cb_error in Herr. apply orb_false_iff in Herr. destruct Herr as [Hco Hfx].
           apply negb_false_iff in Hco. subst commitok.
           destruct (Hwhich (e_conn e0)) as [[_ Hno]|(e1 & He1 & Ec & Eq)]; [exfalso; apply (Hno e0 He0); reflexivity|].
           assert (e1 = e0) by (eapply nodup_map_inj; eauto). subst e1.
           change (apply_writes true (src t) ws (e_conn e0)) with (src t' (e_conn e0)). rewrite Eq.
           unfold cov, apply_write. simpl. destruct (fixed c); simpl in *; [|lia].
           rewrite Hfx. simpl. lia.
    + intros s. eapply RelS_ext; [apply (g_s _ _ HG)|..].
      all: try (change (src t' s) with (apply_writes commitok (src t) ws s);
                destruct (apply_writes_frame commitok ws (src t) s) as (F1 & F2 & F3 & F4 & F5 & F6 & F7 & F8 & F9 & F10 & F11 & F12 & F13); congruence).
      apply (apply_writes_cov_mono c commitok ws (src t)).
  - (* NewTransaction failed *)
    assert (Ha : acc_ok c t ETxFail = true) by (simpl; rewrite p1; reflexivity).
    exists [ETxFail]. split; [reflexivity|]. split; [rewrite runchk_one; exact Ha|].
    cbn [fold_left]. constructor; simpl.
    + apply (step_inv c t ETxFail); assumption.
    + constructor; simpl; auto.
      * rewrite p1. reflexivity.
      * constructor.
      * intros e0 He0. eapply entry_ok_ext; [apply p5; exact He0|..]; try reflexivity. intros ? [].
      * intros e0 [].
    + intros s. apply (g_s _ _ HG).
Qed.

(* ---------- callbacks ---------- *)
Lemma in_remove_nth {A} i (l : list A) x : In x (remove_nth i l) -> In x l.
Proof.
  revert i; induction l as [|a r IH]; intros i H; [destruct i; exact H|].
  destruct i as [|j]; simpl in H; [right; exact H|]. destruct H as [->|H]; [left; reflexivity|right; eapply IH; eauto].
Qed.

Lemma drain_spec d pend a b :
  drain d pend = (a, b) ->
  pend = a ++ b /\ (forall n ks, In (n, ks) a -> n <= d) /\
  (b = [] \/ exists n ks r, b = (n, ks) :: r /\ d < n).
Proof.
  revert a b; induction pend as [|[n ks] r IH]; intros a b H; simpl in H.
  - inversion H; subst. repeat split; auto. intros ? ? [].
  - destruct (n <=? d) eqn:E.
    + destruct (drain d r) as [a' b'] eqn:Hd. inversion H; subst.
      destruct (IH a' b eq_refl) as (H1 & H2 & H3). apply Nat.leb_le in E.
      repeat split; [simpl; f_equal; exact H1| |exact H3].
      intros n' ks' [Hin|Hin]; [inversion Hin; subst; exact E|eapply H2; eauto].
    + inversion H; subst. apply Nat.leb_gt in E. repeat split; auto; [intros ? ? []|].
      right. exists n, ks, r. auto.
Qed.

Lemma app_eq_len {A} (a b a' b' : list A) : a ++ b = a' ++ b' -> length a = length a' -> a = a' /\ b = b'.
Proof.
  revert a'; induction a as [|x a IH]; intros [|x' a'] H Hl; simpl in *; try discriminate; [auto|].
  inversion H; subst. destruct (IH a' H2 ltac:(lia)) as [-> ->]. auto.
Qed.

Lemma seq_app_inv {A} (f : A -> nat) l1 l2 k :
  map f (l1 ++ l2) = seq k (length (l1 ++ l2)) ->
  map f l1 = seq k (length l1) /\ map f l2 = seq (k + length l1) (length l2).
Proof.
  rewrite map_app, app_length, seq_app. intros H.
  apply app_eq_len in H; [exact H|]. rewrite map_length, seq_length. reflexivity.
Qed.

Lemma RelP_take p t i p' cb :
  RelP p t -> take_callback p i = Some (p', cb) -> RelP p' t /\ In cb (cbs p).
Proof.
  intros HP Ht. unfold take_callback in Ht. destruct (nth_error (cbs p) i) as [cb0|] eqn:Hn; [|discriminate].
  inversion Ht; subst. split; [|eapply nth_error_In; eauto].
  destruct HP. constructor; simpl; auto. intros cb' Hcb'. apply rp_cb0. eapply in_remove_nth; eauto.
Qed.

Lemma RelS_flushed x a seq :
  RelS x a -> seq <= cov c a -> RelS (on_persist_flushed x seq) a.
Proof.
  intros H Hseq. unfold on_persist_flushed.
  destruct (drain (Nat.max (durable x) seq) (pending x)) as [ready rest] eqn:Hd.
  destruct (drain_spec _ _ _ _ Hd) as (Hsplit & Hle & _).
  destruct H. destruct r_pend0 as (d & Hd1 & Hd2 & Hd3).
  rewrite Hsplit in Hd1. destruct (seq_app_inv fst ready rest (S d) Hd1) as [Hr1 Hr2].
  assert (Hlen : length (pending x) = length ready + length rest) by (rewrite Hsplit, app_length; reflexivity).
  constructor; simpl; auto.
  - exists (d + length ready). repeat split.
    + rewrite Hr2. reflexivity.
    + lia.
    + intros Hc. rewrite Hc. rewrite app_length. specialize (Hd3 Hc). lia.
  - intros n ks Hin. apply r_pend_ack0. rewrite Hsplit. apply in_or_app. right. exact Hin.
  - intros n ks Hin. destruct (closed x).
    + destruct (r_dq_ack0 n ks Hin). split; [assumption|lia].
    + apply in_app_or in Hin. destruct Hin as [Hin|Hin].
      * destruct (r_dq_ack0 n ks Hin). split; [assumption|lia].
      * split; [apply r_pend_ack0; rewrite Hsplit; apply in_or_app; left; exact Hin|eapply Hle; eauto].
  - intros Ho. destruct (closed x) eqn:Hc; [auto|].
    rewrite map_app, app_length, seq_app, (r_dq_seq0 Ho), Hr1. f_equal. f_equal. specialize (Hd3 eq_refl). lia.
  - lia.
  - intros H1 H2. specialize (r_hs0 H1 H2). destruct (closed x); [exact r_hs0|].
    destruct (dq x); [congruence|discriminate].
Qed.

Lemma step_callback y t i y' : G y t -> step m y (ACallback i) = Some y' -> steps_ok y t y'.
Proof.
  intros HG Hs. simpl in Hs.
  destruct (take_callback (Pst y) i) as [[p' cb]|] eqn:Ht; [|discriminate].
  destruct (RelP_take _ _ _ _ _ (g_p _ _ HG) Ht) as [HP' Hin].
  destruct (rp_cb _ _ (g_p _ _ HG) cb Hin) as [Hlt Hcov].
  destruct (cb_err cb) eqn:He.
  - inversion Hs; subst y'; clear Hs.
    assert (Ha : acc_ok c t (ESrcErr (cb_conn cb)) = true) by (simpl; apply Nat.ltb_lt; exact Hlt).
    exists [ESrcErr (cb_conn cb)]. split; [reflexivity|]. split; [rewrite runchk_one; exact Ha|].
    cbn [fold_left]. simpl track. constructor; simpl; [apply (g_inv _ _ HG)|exact HP'|apply (g_s _ _ HG)].
  - destruct (cb_id cb) as [seq|] eqn:Hid; inversion Hs; subst y'; clear Hs.
    + exists []. split; [reflexivity|]. split; [reflexivity|]. simpl. constructor; simpl.
      * apply (g_inv _ _ HG).
      * exact HP'.
      * intros s. destruct (Nat.eq_dec s (cb_conn cb)) as [->|E].
        -- rewrite supd_same. apply RelS_flushed; [apply (g_s _ _ HG)|apply Hcov; auto].
        -- rewrite supd_other by exact E. apply (g_s _ _ HG).
    + exists []. split; [reflexivity|]. split; [reflexivity|]. simpl.
      constructor; simpl; [apply (g_inv _ _ HG)|exact HP'|apply (g_s _ _ HG)].
Qed.

(* ---------- the delivery goroutine ---------- *)
Definition sendfail_st (x : sst) (n : nat) : sst :=
  mkS (acks x) (reads x) (lastread x) (nacked x) (eng x) (seenw x) (wn x) (okmax x) (attmax x) (stag x) (spos x)
      (if S (att x) =? retries c then n else dn x) (lastp x)
      (if S (att x) =? retries c then 0 else S (att x)) (ph x) (tdacks x) (tdh x) (tdtx x) (hs x).

Lemma track_sendfail t s n :
  track c t (ESendFail s n) = mkT (upd (src t) s (sendfail_st (src t s) n)) (intx t) true.
Proof. reflexivity. Qed.

Lemma RelS_head_done x a a' n ks r :
  RelS x a -> dq x = (n, ks) :: r -> streamOpen x = true ->
  acks a' = acks a -> dn a' = n -> att a' = 0 -> ph a' = ph a -> lastread a' = lastread a ->
  cov c a <= cov c a' -> hs a' = hs a ->
  RelS (mkSS (plug x) (stT x) (stP x) (nextSeq x) (pending x) (durable x) r 0
             (closed x) (tearing x) true (pc x) (timedout x) (lastRead x)) a'.
Proof.
  intros H Hdq Ho E1 E2 E3 E4 E5 Hc E6. rewrite <- Ho. destruct H. specialize (r_dq_seq0 Ho). rewrite Hdq in *. simpl in *.
  inversion r_dq_seq0 as [[Hn Hr]].
  constructor; simpl; unfold ack_at in *; rewrite ?E1, ?E2, ?E3, ?E4, ?E5, ?E6; auto; try lia.
  - destruct r_pend0 as (d & Hd1 & Hd2 & Hd3). exists d. repeat split; auto. intros Hcl. specialize (Hd3 Hcl). lia.
  - intros _. rewrite Hn. exact Hr.
Qed.

Lemma step_deliver y t s ok y' : G y t -> step m y (ADeliver s ok) = Some y' -> steps_ok y t y'.
Proof.
  intros HG Hs. cbv beta iota zeta delta [step] in Hs. fold c in Hs. set (x := Src y s) in *.
  destruct (dq x) as [|[n ks] r] eqn:Hdq; [discriminate|].
  destruct (negb (s <? nsrc c) || negb (plug x)) eqn:Hg; [discriminate|].
  apply orb_false_iff in Hg. destruct Hg as [Hlt Hpl]. apply negb_false_iff in Hlt, Hpl.
  pose proof (g_s _ _ HG s) as HS. fold x in HS. pose proof (g_p _ _ HG) as HP. pose proof (g_inv _ _ HG) as HI.
  destruct (streamOpen x) eqn:Ho; [change (negb true) with false in Hs|change (negb false) with true in Hs]; cbv iota in Hs.
  - (* stream open *)
    pose proof (r_dq_seq _ _ HS Ho) as Hseq. rewrite Hdq in Hseq. simpl in Hseq. inversion Hseq as [[Hn Hr]].
    destruct (r_dq_ack _ _ HS n ks) as [Hack Hdur]; [rewrite Hdq; left; reflexivity|].
    pose proof (r_dur _ _ HS) as Hcov.
    assert (Hph : ph (src t s) <=? 1 = true).
    { apply Nat.leb_le. rewrite (r_ph _ _ HS). pose proof (r_open _ _ HS) as Hop. rewrite Ho in Hop.
      destruct (pc x) as [|[|[|[|k]]]]; cbn in Hop |- *; try lia; discriminate. }
    destruct ok.
    + (* delivered *)
      inversion Hs; subst y'; clear Hs.
      assert (Ha : acc_ok c t (EPAck s n ks) = true).
      { simpl. rewrite Hlt, Hph, Hack. rewrite <- Hn, Nat.eqb_refl. simpl.
        rewrite (proj2 (list_eqb_nat_eq ks ks) eq_refl), andb_true_r. apply Nat.leb_le. lia. }
      exists [EPAck s n ks]. split; [reflexivity|]. split; [rewrite runchk_one; exact Ha|].
      cbn [fold_left]. apply G_set_one; auto.
      * intros s' E. simpl. apply upd_other. exact E.
      * simpl. apply RelP_set_src; auto; simpl; try reflexivity; try (left; reflexivity); try (unfold cov; simpl; lia).
      * simpl. rewrite upd_same. eapply RelS_head_done; eauto; try reflexivity; try (unfold cov; simpl; lia).
    + destruct (S (attempts x) =? retries c) eqn:Hex; inversion Hs; try subst y'; clear Hs.
      * (* retries exhausted: dropped *)
        assert (Hatt : att (src t s) = attempts x) by (symmetry; apply (r_att _ _ HS Ho)).
        assert (Ha : acc_ok c t (ESendFail s n) = true).
        { simpl. rewrite Hlt, Hph. rewrite <- Hn, Nat.eqb_refl. simpl.
          apply andb_true_iff. split; [apply Nat.leb_le; lia|]. apply Nat.ltb_lt. apply (r_att_lt _ _ HS). }
        remember (track c t (ESendFail s n)) as t1 eqn:Et1.
        assert (Ht1 : src t1 s = mkS (acks (src t s)) (reads (src t s)) (lastread (src t s)) (nacked (src t s))
                                  (eng (src t s)) (seenw (src t s)) (wn (src t s)) (okmax (src t s))
                                  (attmax (src t s)) (stag (src t s)) (spos (src t s)) n (lastp (src t s)) 0
                                  (ph (src t s)) (tdacks (src t s)) (tdh (src t s)) (tdtx (src t s)) (hs (src t s))).
        { rewrite Et1, track_sendfail. cbn [src]. rewrite upd_same. unfold sendfail_st. rewrite Hatt, Hex. reflexivity. }
        assert (HG1 : G (mkSys (Pst y) (supd (Src y) s
                       (mkSS (plug x) (stT x) (stP x) (nextSeq x) (pending x) (durable x) r 0
                             (closed x) (tearing x) true (pc x) (timedout x) (lastRead x)))
                       (ESendFail s n :: out y)) t1).
        { constructor; simpl.
          - rewrite Et1. apply step_inv; assumption.
          - eapply (RelP_set_src' _ t t1 s); [exact HP|rewrite Et1, track_sendfail; reflexivity|rewrite Et1; reflexivity|..];
              unfold sendfail_st; simpl; try reflexivity; try (left; reflexivity); try (unfold cov; simpl; lia).
          - intros s'. destruct (Nat.eq_dec s' s) as [->|E].
            + rewrite supd_same, Ht1. eapply RelS_head_done; eauto; try reflexivity; try (unfold cov; simpl; lia).
            + rewrite supd_other by exact E. rewrite Et1, track_sendfail. cbn [src]. rewrite upd_other by exact E. apply (g_s _ _ HG). }
        destruct (tearing x).
        -- exists [ESendFail s n]. split; [reflexivity|]. split; [rewrite runchk_one; exact Ha|]. cbn [fold_left]. rewrite <- Et1. exact HG1.
        -- exists [ESendFail s n; ESrcErr s]. split; [reflexivity|].
           split; [rewrite runchk_cons, Ha, runchk_one; simpl; exact Hlt|].
           cbn [fold_left]. rewrite <- Et1. simpl track. destruct HG1. constructor; simpl; auto.
      * (* try again *)
        assert (Hatt : att (src t s) = attempts x) by (symmetry; apply (r_att _ _ HS Ho)).
        assert (Ha : acc_ok c t (ESendFail s n) = true).
        { simpl. rewrite Hlt, Hph. rewrite <- Hn, Nat.eqb_refl. simpl.
          apply andb_true_iff. split; [apply Nat.leb_le; lia|]. apply Nat.ltb_lt. apply (r_att_lt _ _ HS). }
        exists [ESendFail s n]. split; [reflexivity|]. split; [rewrite runchk_one; exact Ha|].
        cbn [fold_left]. remember (track c t (ESendFail s n)) as t1 eqn:Et1.
        pose proof (r_att_lt _ _ HS) as Hal. apply Nat.eqb_neq in Hex.
        constructor; simpl.
        -- rewrite Et1. apply step_inv; assumption.
        -- eapply (RelP_set_src' _ t t1 s); [exact HP|rewrite Et1, track_sendfail; reflexivity|rewrite Et1; reflexivity|..];
             unfold sendfail_st; simpl; try reflexivity; try (left; reflexivity); try (unfold cov; simpl; lia).
        -- intros s'. destruct (Nat.eq_dec s' s) as [->|E].
           ++ rewrite supd_same. rewrite Et1, track_sendfail. cbn [src]. rewrite upd_same. unfold sendfail_st. rewrite Hatt.
              destruct (S (attempts x) =? retries c) eqn:Hex'; [apply Nat.eqb_eq in Hex'; congruence|].
              destruct HS. unfold ack_at, cov in *. rewrite Hdq, Ho in *. simpl in *. constructor; unfold ack_at, cov; simpl; auto; try lia.
           ++ rewrite supd_other by exact E. rewrite Et1, track_sendfail. cbn [src]. rewrite upd_other by exact E. apply (g_s _ _ HG).
  - (* stream cancelled: silent drop *)
    inversion Hs; subst y'; clear Hs.
    exists []. split; [reflexivity|]. split; [reflexivity|]. simpl. constructor; simpl.
    + exact HI.
    + exact HP.
    + intros s'. destruct (Nat.eq_dec s' s) as [->|E]; [|rewrite supd_other by exact E; apply (g_s _ _ HG)].
      rewrite supd_same. fold x. pose proof (r_open _ _ HS) as Hop. pose proof (r_closed _ _ HS) as Hcl.
      rewrite Ho in Hop. assert (Hclosed : closed x = true).
      { rewrite Hcl. destruct (pc x) as [|[|[|k]]]; cbn in Hop |- *; try discriminate; reflexivity. }
      destruct HS. rewrite Hdq in *. constructor; simpl; auto; try congruence.
      * destruct r_pend0 as (d & Hd1 & Hd2 & Hd3). exists d. repeat split; auto. congruence.
      * intros n' ks' Hin. apply r_dq_ack0. right. exact Hin.
Qed.

(* ---------- teardown ---------- *)
Lemma step_tdbegin y t s cx y' : G y t -> step m y (ATdBegin s cx) = Some y' -> steps_ok y t y'.
Proof.
  intros HG Hs. cbv beta iota zeta delta [step] in Hs. fold c in Hs. set (x := Src y s) in *.
  destruct ((s <? nsrc c) && plug x && (pc x =? 0)) eqn:Hc; [|discriminate].
  destruct (trigger_flush (Pst y)) as [[p' started]|] eqn:Ht; [|discriminate].
  inversion Hs; subst y'; clear Hs.
  repeat (apply andb_true_iff in Hc; destruct Hc as [Hc ?]). apply Nat.eqb_eq in H.
  pose proof (g_s _ _ HG s) as HS. fold x in HS. pose proof (g_p _ _ HG) as HP. pose proof (g_inv _ _ HG) as HI.
  assert (Ha : acc_ok c t (ETdBegin s) = true).
  { simpl. rewrite Hc, (r_ph _ _ HS), H. reflexivity. }
  remember (track c t (ETdBegin s)) as t1 eqn:Et1.
  assert (HP1 : RelP (Pst y) t1).
  { rewrite Et1. simpl. apply RelP_set_src; auto; simpl; try reflexivity; try (left; reflexivity); try (unfold cov; simpl; lia). }
  destruct (trigger_rel _ _ _ _ HP1 Ht) as (Ha2 & HP2 & HS2).
  exists (ETdBegin s :: tx_event started). split; [reflexivity|].
  split; [rewrite runchk_cons, Ha, <- Et1; exact Ha2|].
  cbn [fold_left]. rewrite <- Et1. constructor; simpl.
  - apply inv_fold; [rewrite Et1; apply step_inv; assumption|exact Ha2].
  - exact HP2.
  - intros s'. apply HS2. destruct (Nat.eq_dec s' s) as [->|E].
    + rewrite supd_same, Et1. simpl. rewrite upd_same. destruct HS. rewrite H in *.
      unfold ack_at, cov in *. constructor; unfold ack_at, cov; simpl in *; auto.
    + rewrite supd_other by exact E. rewrite Et1. simpl. rewrite upd_other by exact E. apply (g_s _ _ HG).
Qed.

Lemma step_tdwaited y t s y' : G y t -> step m y (ATdWaited s) = Some y' -> steps_ok y t y'.
Proof.
  intros HG Hs. cbv beta iota zeta delta [step] in Hs. fold c in Hs. set (x := Src y s) in *.
  destruct ((s <? nsrc c) && (pc x =? 1)) eqn:Hc; [|discriminate].
  inversion Hs; subst y'; clear Hs. apply andb_true_iff in Hc. destruct Hc as [Hc H]. apply Nat.eqb_eq in H.
  pose proof (g_s _ _ HG s) as HS. fold x in HS.
  exists []. split; [reflexivity|]. split; [reflexivity|]. simpl. constructor; simpl.
  - apply (g_inv _ _ HG).
  - apply (g_p _ _ HG).
  - intros s'. destruct (Nat.eq_dec s' s) as [->|E]; [|rewrite supd_other by exact E; apply (g_s _ _ HG)].
    rewrite supd_same. fold x. destruct HS. rewrite H in *. constructor; simpl in *; auto.
    destruct r_pend0 as (d & Hd1 & Hd2 & Hd3). exists d. repeat split; auto; discriminate.
Qed.

Lemma step_tdcancel y t s y' : G y t -> step m y (ATdCancel s) = Some y' -> steps_ok y t y'.
Proof.
  intros HG Hs. cbv beta iota zeta delta [step] in Hs. fold c in Hs. set (x := Src y s) in *.
  destruct ((s <? nsrc c) && (pc x =? 2)) eqn:Hc; [|discriminate].
  inversion Hs; subst y'; clear Hs. apply andb_true_iff in Hc. destruct Hc as [Hc H]. apply Nat.eqb_eq in H.
  pose proof (g_s _ _ HG s) as HS. fold x in HS.
  exists []. split; [reflexivity|]. split; [reflexivity|]. simpl. constructor; simpl.
  - apply (g_inv _ _ HG).
  - apply (g_p _ _ HG).
  - intros s'. destruct (Nat.eq_dec s' s) as [->|E]; [|rewrite supd_other by exact E; apply (g_s _ _ HG)].
    rewrite supd_same. fold x. destruct HS. rewrite H in *. constructor; simpl in *; auto; try discriminate.
Qed.

Definition drain_cond (y : sys) (t : tst) (s : conn) : Prop :=
  let x := Src y s in
  pc x = 3 -> dq x = [] -> timedout x = false -> healthy t (src t s) = true ->
  tdacks (src t s) <= dn (src t s).

Lemma step_tddown y t s fast y' :
  G y t -> drain_cond y t s -> step m y (ATdDown s fast) = Some y' -> steps_ok y t y'.
Proof.
  intros HG HD Hs. cbv beta iota zeta delta [step] in Hs. fold c in Hs. set (x := Src y s) in *.
  destruct ((s <? nsrc c) && (pc x =? 3) && (match dq x with [] => true | _ => false end)
            && (negb fast || negb (timedout x))) eqn:Hc; [|discriminate].
  destruct (trigger_flush (Pst y)) as [[p' started]|] eqn:Ht; [|discriminate].
  inversion Hs; subst y'; clear Hs.
  repeat (apply andb_true_iff in Hc; destruct Hc as [Hc ?]). apply Nat.eqb_eq in H1.
  assert (Hdq : dq x = []) by (destruct (dq x); [reflexivity|discriminate]).
  pose proof (g_s _ _ HG s) as HS. fold x in HS. pose proof (g_p _ _ HG) as HP. pose proof (g_inv _ _ HG) as HI.
  assert (Ha1 : acc_ok c t (ETdCancel s) = true).
  { simpl. rewrite Hc, (r_ph _ _ HS), H1. reflexivity. }
  remember (track c t (ETdCancel s)) as t1 eqn:Et1.
  assert (Hs1 : src t1 s = mkS (acks (src t s)) (reads (src t s)) (lastread (src t s)) (nacked (src t s))
                              (eng (src t s)) (seenw (src t s)) (wn (src t s)) (okmax (src t s)) (attmax (src t s))
                              (stag (src t s)) (spos (src t s)) (dn (src t s)) (lastp (src t s)) (att (src t s)) 2
                              (tdacks (src t s)) (tdh (src t s)) (tdtx (src t s)) (hs (src t s))).
  { rewrite Et1. simpl. apply upd_same. }
  assert (Hph1 : ph (src t1 s) = 2) by (rewrite Hs1; reflexivity).
  assert (Htd1 : tdacks (src t1 s) = tdacks (src t s)) by (rewrite Hs1; reflexivity).
  assert (Hdn1 : dn (src t1 s) = dn (src t s)) by (rewrite Hs1; reflexivity).
  assert (Hh1 : healthy t1 (src t1 s) = healthy t (src t s)) by (rewrite Hs1, Et1; reflexivity).
  assert (Ha2 : acc_ok c t1 (ETdEnd s fast) = true).
  { unfold acc_ok. rewrite Hc, Hph1, Hh1, Htd1, Hdn1. simpl.
    destruct (healthy t (src t s) && fast) eqn:Hh; [simpl|reflexivity].
    apply andb_true_iff in Hh. destruct Hh as [Hh ->]. simpl in H. apply negb_true_iff in H.
    apply Nat.leb_le. apply HD; auto. }
  remember (track c t1 (ETdEnd s fast)) as t2 eqn:Et2.
  assert (HI1 : Inv c t1) by (rewrite Et1; apply step_inv; assumption).
  assert (HP1 : RelP (Pst y) t1).
  { rewrite Et1. simpl. apply RelP_set_src; auto; simpl; try reflexivity; try (left; reflexivity); try (unfold cov; simpl; lia). }
  assert (HP2' : RelP (Pst y) t2).
  { rewrite Et2. simpl. apply RelP_set_src; auto; simpl; try reflexivity; try (left; reflexivity); try (unfold cov; simpl; lia). }
  destruct (trigger_rel _ _ _ _ HP2' Ht) as (Ha3 & HP3 & HS3).
  exists (ETdCancel s :: ETdEnd s fast :: tx_event started). split; [reflexivity|].
  split; [rewrite runchk_cons, Ha1, <- Et1, runchk_cons, Ha2, <- Et2; exact Ha3|].
  cbn [fold_left]. rewrite <- Et1, <- Et2. constructor; simpl.
  - apply inv_fold; [rewrite Et2; apply step_inv; assumption|exact Ha3].
  - exact HP3.
  - intros s'. apply HS3. destruct (Nat.eq_dec s' s) as [->|E].
    + rewrite supd_same, Et2. simpl. rewrite upd_same, Hs1. destruct HS. rewrite H1, Hdq in *.
      unfold ack_at, cov in *. constructor; unfold ack_at, cov; simpl in *; auto; try discriminate;
        try (intros ? ? []).
    + rewrite supd_other by exact E. rewrite Et2. simpl. rewrite upd_other by exact E.
      rewrite Et1. simpl. rewrite upd_other by exact E. apply (g_s _ _ HG).
Qed.

(* ---------- a send that has begun and is parked in the plugin stream ---------- *)
Lemma step_hold y t s y' : G y t -> step m y (AHold s) = Some y' -> steps_ok y t y'.
Proof.
  intros HG Hs. cbv beta iota zeta delta [step] in Hs. fold c in Hs. set (x := Src y s) in *.
  destruct (dq x) as [|[n ks] r] eqn:Hdq; [discriminate|].
  destruct ((s <? nsrc c) && plug x && streamOpen x) eqn:Hc; [|discriminate].
  inversion Hs; subst y'; clear Hs.
  repeat (apply andb_true_iff in Hc; destruct Hc as [Hc ?]). rename H into Ho.
  pose proof (g_s _ _ HG s) as HS. fold x in HS. pose proof (g_p _ _ HG) as HP. pose proof (g_inv _ _ HG) as HI.
  pose proof (r_dq_seq _ _ HS Ho) as Hseq. rewrite Hdq in Hseq. simpl in Hseq. injection Hseq as Hn Hr.
  destruct (r_dq_ack _ _ HS n ks) as [Hack Hdur]; [rewrite Hdq; left; reflexivity|].
  pose proof (r_dur _ _ HS) as Hcov.
  assert (Hph : ph (src t s) <=? 1 = true).
  { apply Nat.leb_le. rewrite (r_ph _ _ HS). pose proof (r_open _ _ HS) as Hop. rewrite Ho in Hop.
    destruct (pc x) as [|[|[|[|k]]]]; cbn in Hop |- *; try lia; discriminate. }
  assert (Ha : acc_ok c t (ESendHeld s n) = true).
  { simpl. rewrite Hc, Hph. rewrite <- Hn, Nat.eqb_refl. simpl. apply Nat.leb_le. lia. }
  exists [ESendHeld s n]. split; [reflexivity|]. split; [rewrite runchk_one; exact Ha|].
  cbn [fold_left]. constructor; cbn [Pst Src].
  - apply step_inv; assumption.
  - simpl. apply RelP_set_src; auto; simpl; try reflexivity; try (left; reflexivity); try (unfold cov; simpl; lia).
  - intros s'. simpl. destruct (Nat.eq_dec s' s) as [->|E]; [|rewrite upd_other by exact E; apply (g_s _ _ HG)].
    rewrite upd_same. fold x. destruct HS. unfold ack_at, cov in *.
    constructor; unfold ack_at, cov; simpl; auto; try lia.
    intros _ _. rewrite Hdq. discriminate.
Qed.

(* ====================================================================================
   Second invariant: what a healthy teardown needs (teardown_drains)
   ==================================================================================== *)
Definition Hh (y : sys) (t : tst) (s : conn) : Prop :=
  tdh (src t s) = true /\ anyfail t = false /\ tdtx (src t s) <= 1 /\ timedout (Src y s) = false.

Definition in_flight_for (p : pstate) (s : conn) (k : nat) : Prop :=
  exists e, In e (fl_entries p) /\ e_conn e = s /\ k <= e_tag e /\ e_cb e = CbAck (e_tag e).

Definition cb_out_for (p : pstate) (s : conn) (k : nat) : Prop :=
  exists cb n, In cb (cbs p) /\ S (cb_gen cb) = gen p /\ cb_conn cb = s /\ cb_err cb = false /\
               cb_id cb = CbAck n /\ k <= n.

Definition Dst (y : sys) (t : tst) (s : conn) : Prop :=
  let x := Src y s in let a := src t s in
  Hh y t s ->
  match pc x with
  | 1 => tdacks a <= dn a + length (dq x) \/
         (tdtx a = 1 /\ (in_flight_for (Pst y) s (tdacks a) \/ cb_out_for (Pst y) s (tdacks a)))
  | 2 => tdacks a <= dn a + length (dq x)
  | 3 => tdacks a <= dn a
  | _ => True
  end.

Definition J4 (y : sys) (t : tst) : Prop :=
  anyfail t = false -> forall s, s < nsrc c ->
    (exists e, In e (batch (Pst y)) /\ e_conn e = s /\ e_tag e = nextSeq (Src y s)) \/
    ((forall e, In e (batch (Pst y)) -> e_conn e <> s) /\
     ((exists e, In e (fl_entries (Pst y)) /\ e_conn e = s /\ e_tag e = nextSeq (Src y s)) \/
      ((forall e, In e (fl_entries (Pst y)) -> e_conn e <> s) /\ okmax (src t s) = nextSeq (Src y s)))).

Record X (y : sys) (t : tst) : Prop := {
  x_j4 : J4 y t;
  x_d : forall s, Dst y t s;
  x_td : forall s, 1 <= pc (Src y s) -> tdacks (src t s) <= nextSeq (Src y s);
  x_gen : inflight (Pst y) <> None -> 0 < gen (Pst y);
  x_to : forall s, pc (Src y s) = 1 -> timedout (Src y s) = false
}.

Definition stepsX (y : sys) (t : tst) (y' : sys) : Prop :=
  exists es, out y' = rev es ++ out y /\ X y' (fold_left (track c) es t).

Lemma X_init : X (init_sys m) (init_t c).
Proof.
  constructor.
  - intros _ s Hs. left. unfold init_sys. fold c. simpl.
    exists (mkE s 0 (init_of c s) CbOpen). repeat split.
    apply in_map_iff. exists s. split; [reflexivity|]. rewrite upto_seq. apply in_seq. lia.
  - intros s. unfold Dst, init_sys. simpl. auto.
  - intros s. unfold init_sys. simpl. lia.
  - unfold init_sys. simpl. congruence.
  - intros s. unfold init_sys. simpl. discriminate.
Qed.

(* what Dst looks at *)
Lemma Dst_frame y t y' t' s :
  Dst y t s ->
  pc (Src y' s) = pc (Src y s) -> dq (Src y' s) = dq (Src y s) -> timedout (Src y' s) = timedout (Src y s) ->
  tdh (src t' s) = tdh (src t s) -> tdtx (src t' s) = tdtx (src t s) -> tdacks (src t' s) = tdacks (src t s) ->
  dn (src t' s) = dn (src t s) -> (anyfail t' = false -> anyfail t = false) ->
  fl_entries (Pst y') = fl_entries (Pst y) -> cbs (Pst y') = cbs (Pst y) -> gen (Pst y') = gen (Pst y) ->
  Dst y' t' s.
Proof.
  unfold Dst, Hh, in_flight_for, cb_out_for. intros H E1 E2 E3 E4 E5 E6 E7 Hf E8 E9 E10.
  rewrite E1, E2, E3, E4, E5, E6, E7, E8, E9, E10. intros (H1 & H2 & H3 & H4). apply H. auto.
Qed.

Lemma X_timer y t b o' :
  X y t ->
  X (mkSys (mkP (batch (Pst y)) (bundle (Pst y)) b (inflight (Pst y)) (gen (Pst y)) (stuck (Pst y))
                (store (Pst y)) (cbs (Pst y))) (Src y) o') t.
Proof.
  intros [h1 h2 h3 h4 h5]. constructor; simpl; auto.
  all: try (intros s; eapply Dst_frame; [apply h2|..]; reflexivity || auto).
Qed.

Lemma X_trigger y t p' started o' :
  (forall s, 1 <= pc (Src y s) <= 3 -> ph (src t s) = 1) ->
  X y t -> trigger_flush (Pst y) = Some (p', started) ->
  X (mkSys p' (Src y) o') (fold_left (track c) (tx_event started) t).
Proof.
  intros Hph HX Ht. unfold trigger_flush in Ht.
  destruct (batch (Pst y)) as [|e0 b0] eqn:Hb.
  - inversion Ht; subst. simpl. destruct HX as [h1 h2 h3 h4 h5]. constructor; simpl; auto.
    all: try (intros s; eapply Dst_frame; [apply h2|..]; reflexivity || auto).
    intros Hf s Hs. specialize (h1 Hf s Hs). rewrite Hb in h1. simpl. exact h1.
  - destruct (inflight (Pst y)) as [fl|] eqn:Hf; [discriminate|]. inversion Ht; subst. clear Ht.
    destruct HX as [h1 h2 h3 h4 h5]. constructor; cbn [tx_event fold_left Pst Src].
    + intros Hfa s Hs. simpl in Hfa. specialize (h1 Hfa s Hs). unfold fl_entries in *. rewrite Hf in h1. simpl.
      right. split; [intros e []|].
      destruct h1 as [(e & He & Ec & Et)|(Hno & [(e & [] & _)|(_ & Hok)])].
      * left. exists e. rewrite Hb in He. auto.
      * right. split; [intros e1 He1; apply Hno; rewrite Hb; exact He1|exact Hok].
    + intros s. unfold Dst. cbn [Pst Src]. intros (H1 & H2 & H3 & H4). simpl in H1, H2, H3.
      pose proof (h2 s) as HD. unfold Dst in HD.
      destruct (pc (Src y s)) as [|[|[|[|k]]]] eqn:Hpc; auto.
      * (* pc = 1 *)
        assert (ph (src t s) = 1) by (apply Hph; lia). rewrite H in H3. simpl in H3.
        assert (Htx : tdtx (src t s) = 0) by lia.
        left. simpl. destruct HD as [HD|[HD _]]; [repeat split; auto; lia|exact HD|lia].
      * assert (ph (src t s) = 1) by (apply Hph; lia). rewrite H in H3. simpl in H3.
        simpl. apply HD. repeat split; auto; lia.
      * assert (ph (src t s) = 1) by (apply Hph; lia). rewrite H in H3. simpl in H3.
        simpl. apply HD. repeat split; auto; lia.
    + intros s Hs. simpl. apply h3. exact Hs.
    + simpl. lia.
    + exact h5.
Qed.

Lemma ph_of_G y t : G y t -> forall s, 1 <= pc (Src y s) <= 3 -> ph (src t s) = 1.
Proof.
  intros HG s Hpc. rewrite (r_ph _ _ (g_s _ _ HG s)).
  destruct (pc (Src y s)) as [|[|[|[|k]]]]; try lia; reflexivity.
Qed.

Lemma X_frame y t y' t' :
  X y t ->
  batch (Pst y') = batch (Pst y) -> inflight (Pst y') = inflight (Pst y) ->
  cbs (Pst y') = cbs (Pst y) -> gen (Pst y') = gen (Pst y) ->
  (forall s, nextSeq (Src y' s) = nextSeq (Src y s) /\ pc (Src y' s) = pc (Src y s) /\
             dq (Src y' s) = dq (Src y s) /\ timedout (Src y' s) = timedout (Src y s)) ->
  (forall s, okmax (src t' s) = okmax (src t s) /\ tdh (src t' s) = tdh (src t s) /\
             tdtx (src t' s) = tdtx (src t s) /\ tdacks (src t' s) = tdacks (src t s) /\
             dn (src t' s) = dn (src t s)) ->
  (anyfail t' = false -> anyfail t = false) ->
  X y' t'.
Proof.
  intros [h1 h2 h3 h4 h5] Eb Ei Ec Eg HS HT Hf.
  assert (Efl : fl_entries (Pst y') = fl_entries (Pst y)) by (unfold fl_entries; rewrite Ei; reflexivity).
  constructor.
  - intros Hfa s Hs. specialize (h1 (Hf Hfa) s Hs). destruct (HS s) as (E1 & _). destruct (HT s) as (E2 & _).
    rewrite Eb, Efl, E1, E2. exact h1.
  - intros s. destruct (HS s) as (E1 & E2 & E3 & E4). destruct (HT s) as (F1 & F2 & F3 & F4 & F5).
    eapply Dst_frame; [apply h2|..]; auto.
  - intros s Hs. destruct (HS s) as (E1 & E2 & E3 & E4). destruct (HT s) as (F1 & F2 & F3 & F4 & F5).
    rewrite F4, E1. apply h3. rewrite <- E2. exact Hs.
  - rewrite Ei, Eg. exact h4.
  - intros s Hpc. destruct (HS s) as (E1 & E2 & E3 & E4). rewrite E4. apply h5. rewrite <- E2. exact Hpc.
Qed.

Lemma stepX_read y t s r y' : G y t -> X y t -> step m y (ARead s r) = Some y' -> stepsX y t y'.
Proof.
  intros HG HX Hs. cbv beta iota zeta delta [step] in Hs. fold c in Hs.
  destruct ((s <? nsrc c) && (pc (Src y s) =? 0) && (lastRead (Src y s) <? r)); [|discriminate].
  inversion Hs; subst y'; clear Hs. exists [ERead s r]. split; [reflexivity|].
  cbn [fold_left]. eapply X_frame; [exact HX|..]; try reflexivity.
  - intros s'. cbn [Src]. destruct (Nat.eq_dec s' s) as [->|E]; [rewrite supd_same|rewrite supd_other by exact E]; auto.
  - intros s'. simpl. destruct (Nat.eq_dec s' s) as [->|E]; [rewrite upd_same|rewrite upd_other by exact E]; auto.
  - auto.
Qed.

Lemma stepX_flushlike y t p' started :
  G y t -> X y t -> trigger_flush (Pst y) = Some (p', started) ->
  stepsX y t (mkSys p' (Src y) (emit (tx_event started) (out y))).
Proof.
  intros HG HX Ht. exists (tx_event started). split; [reflexivity|].
  eapply X_trigger; eauto. apply ph_of_G. exact HG.
Qed.

Lemma stepX_timer y t y' : G y t -> X y t -> step m y ATimer = Some y' -> stepsX y t y'.
Proof.
  intros HG HX Hs. simpl in Hs. destruct (timer (Pst y)); [|discriminate].
  destruct (trigger_flush (Pst y)) as [[p' started]|] eqn:Ht; [|discriminate].
  inversion Hs; subst. eapply stepX_flushlike; eauto.
Qed.

Lemma stepX_flush y t cx y' : G y t -> X y t -> step m y (AFlush cx) = Some y' -> stepsX y t y'.
Proof.
  intros HG HX Hs. simpl in Hs.
  destruct (trigger_flush (Pst y)) as [[p' started]|] eqn:Ht; [|discriminate].
  inversion Hs; subst. eapply stepX_flushlike; eauto.
Qed.

Lemma stepX_ack y t s ks y' : G y t -> X y t -> step m y (AAck s ks) = Some y' -> stepsX y t y'.
Proof.
  intros HG HX Hs. cbv beta iota zeta delta [step] in Hs. fold c in Hs.
  destruct ((s <? nsrc c) && plug (Src y s) && (0 <? length ks) && negb (lastp_of ks =? 0)) eqn:Hc; [|discriminate].
  set (x := Src y s) in *. set (sq := S (nextSeq x)) in *.
  destruct (persist (m_thr m) (Pst y) (mkE s sq (lastp_of ks) (CbAck sq))) as [[p' started]|] eqn:Hp; [|discriminate].
  inversion Hs; subst y'; clear Hs.
  set (x' := mkSS (plug x) sq (lastp_of ks) sq (pending x ++ [(sq, ks)]) (durable x) (dq x) (attempts x)
                  (closed x) (tearing x) (streamOpen x) (pc x) (timedout x) (lastRead x)).
  set (p1 := mkP (put (mkE s sq (lastp_of ks) (CbAck sq)) (batch (Pst y))) (S (bundle (Pst y))) (timer (Pst y))
                 (inflight (Pst y)) (gen (Pst y)) (stuck (Pst y)) (store (Pst y)) (cbs (Pst y))).
  remember (track c t (EAck s ks)) as t1 eqn:Et1.
  assert (Hsrc : forall s', src t1 s' = if Nat.eq_dec s' s then src t1 s else src t s').
  { intros s'. destruct (Nat.eq_dec s' s) as [->|E]; [reflexivity|]. rewrite Et1. simpl. apply upd_other. exact E. }
  assert (Hs1 : okmax (src t1 s) = okmax (src t s) /\ tdh (src t1 s) = tdh (src t s) /\
                tdtx (src t1 s) = tdtx (src t s) /\ tdacks (src t1 s) = tdacks (src t s) /\
                dn (src t1 s) = dn (src t s) /\ ph (src t1 s) = ph (src t s)).
  { rewrite Et1. simpl. rewrite upd_same. simpl. repeat split. }
  destruct Hs1 as (K1 & K2 & K3 & K4 & K5 & K6).
  assert (HX1 : forall o', X (mkSys p1 (supd (Src y) s x') o') t1).
  { intros o'. destruct HX as [h1 h2 h3 h4 h5]. constructor; cbn [Pst Src].
    - unfold J4. cbn [Pst Src]. intros Hfa s' Hs'. assert (Hfa' : anyfail t = false) by (rewrite Et1 in Hfa; exact Hfa).
      destruct (Nat.eq_dec s' s) as [->|E].
      + left. exists (mkE s sq (lastp_of ks) (CbAck sq)). rewrite supd_same. simpl. auto.
      + rewrite supd_other by exact E. rewrite (Hsrc s'). destruct (Nat.eq_dec s' s) as [|_]; [contradiction|].
        destruct (h1 Hfa' s' Hs') as [(e & He & Ec & Et)|(Hno & Hr)].
        * left. exists e. split; [|auto]. unfold p1. cbn [batch]. apply in_put. right. split; [exact He|]. simpl. congruence.
        * right. split; [|exact Hr]. intros e He. unfold p1 in He. cbn [batch] in He. apply in_put in He.
          destruct He as [->|[He _]]; [simpl; congruence|apply Hno; exact He].
    - intros s0. eapply Dst_frame; [apply (h2 s0)|..]; try reflexivity; cbn [Src].
      all: try (destruct (Nat.eq_dec s0 s) as [->|E]; [rewrite supd_same; reflexivity|rewrite supd_other by exact E; reflexivity]).
      all: try (rewrite (Hsrc s0); destruct (Nat.eq_dec s0 s) as [->|E]; auto).
      rewrite Et1. auto.
    - intros s0 Hpc. rewrite (Hsrc s0). destruct (Nat.eq_dec s0 s) as [->|E].
      + rewrite supd_same in *. rewrite K4. simpl in *. specialize (h3 s Hpc). fold x in h3. unfold sq. lia.
      + rewrite supd_other in * by exact E. apply h3. exact Hpc.
    - exact h4.
    - intros s0 Hpc. destruct (Nat.eq_dec s0 s) as [->|E].
      + rewrite supd_same in *. simpl in *. apply h5. exact Hpc.
      + rewrite supd_other in * by exact E. apply h5. exact Hpc. }
  exists (EAck s ks :: tx_event started). split; [reflexivity|]. cbn [fold_left]. rewrite <- Et1.
  unfold persist in Hp. fold p1 in Hp. destruct (S (bundle (Pst y)) =? m_thr m).
  - apply (X_trigger (mkSys p1 (supd (Src y) s x') [])); [|apply HX1|exact Hp].
    intros s0 Hpc. cbn [Src] in Hpc. rewrite (Hsrc s0). destruct (Nat.eq_dec s0 s) as [->|E].
    + rewrite supd_same in Hpc. rewrite K6. apply (ph_of_G _ _ HG). exact Hpc.
    + rewrite supd_other in Hpc by exact E. apply (ph_of_G _ _ HG). exact Hpc.
  - inversion Hp; subst p' started. simpl. apply (X_timer (mkSys p1 (supd (Src y) s x') [])). apply HX1.
Qed.

Lemma commit_which (f : conn -> sst) b fails ok s :
  NoDup (map e_conn b) ->
  (apply_writes ok f (writes_of fails b) s = f s /\ forall e, In e b -> e_conn e <> s) \/
  (exists e, In e b /\ e_conn e = s /\
     apply_writes ok f (writes_of fails b) s =
     apply_write ok (f s) (mkW (e_conn e) (e_tag e) (e_pos e) (negb (set_fails fails (e_conn e))))).
Proof.
  intros Hnd. assert (Hn : nodup_src (writes_of fails b) = true) by (apply nodup_src_of; rewrite writes_of_conns; exact Hnd).
  destruct (apply_writes_cases ok (writes_of fails b) f s Hn) as [[H1 H2]|(w & Hw & Es & H1)].
  - left. split; [exact H1|]. intros e He E.
    apply (H2 (mkW (e_conn e) (e_tag e) (e_pos e) (negb (set_fails fails (e_conn e))))); [|exact E].
    apply in_writes_of. exists e. auto.
  - right. apply in_writes_of in Hw. destruct Hw as (e & He & ->). exists e. auto.
Qed.

Lemma all_wok_writes fails b e :
  all_wok (writes_of fails b) = true -> In e b -> set_fails fails (e_conn e) = false.
Proof.
  unfold all_wok. rewrite forallb_forall. intros H He.
  specialize (H (mkW (e_conn e) (e_tag e) (e_pos e) (negb (set_fails fails (e_conn e))))).
  simpl in H. apply negb_true_iff. apply H. apply in_writes_of. exists e. auto.
Qed.

Lemma stepX_writedone y t txok fails commitok y' :
  G y t -> X y t -> step m y (AWriteDone txok fails commitok) = Some y' -> stepsX y t y'.
Proof.
  intros HG HX Hs. cbv beta iota zeta delta [step] in Hs. fold c in Hs.
  destruct (write_done (fixed c) (nsrc c) (Pst y) txok fails commitok) as [[p' es]|] eqn:Hw; [|discriminate].
  inversion Hs; subst y'; clear Hs.
  unfold write_done in Hw. destruct (inflight (Pst y)) as [b|] eqn:Hf; [|discriminate].
  pose proof (g_p _ _ HG) as HP. pose proof (g_inv _ _ HG) as [HIs _].
  pose proof HP as [p1 p2 p3 p4 p5 p6 p7]. unfold fl_entries in *. rewrite Hf in *.
  destruct HX as [h1 h2 h3 h4 h5].
  destruct txok; cbn [negb] in Hw; cbv iota in Hw; inversion Hw; subst p' es; clear Hw.
  - set (ws := writes_of fails b).
    exists [ECommit ws commitok (snapshot (nsrc c) (if commitok then commit_store (store (Pst y)) ws else store (Pst y)))].
    split; [reflexivity|]. cbn [fold_left].
    remember (track c t (ECommit ws commitok (snapshot (nsrc c)
                (if commitok then commit_store (store (Pst y)) ws else store (Pst y))))) as t' eqn:Et'.
    assert (Hsrc : src t' = apply_writes commitok (src t) ws) by (rewrite Et'; reflexivity).
    assert (Hany : anyfail t' = false -> anyfail t = false /\ commitok = true /\ all_wok ws = true).
    { rewrite Et'. simpl. intros H. apply orb_false_iff in H. destruct H as [H H3].
      apply orb_false_iff in H. destruct H as [H1 H2]. apply negb_false_iff in H2, H3. auto. }
    assert (Hfr : forall s, same_but_store (src t' s) (src t s)) by (intros s; rewrite Hsrc; apply apply_writes_frame).
    constructor.
    + unfold J4. cbn [Pst Src batch inflight fl_entries]. intros Hfa s Hs.
      destruct (Hany Hfa) as (Hfa0 & -> & Hall).
      destruct (h1 Hfa0 s Hs) as [Hl|(Hno & Hr)]; [left; exact Hl|]. right. split; [exact Hno|]. right. split; [intros ? []|].
      unfold fl_entries in Hr. rewrite Hf in Hr. rewrite Hsrc. unfold ws.
      destruct (commit_which (src t) b fails true s p4) as [[Eq Hnb]|(e & He & Ec & Eq)]; rewrite Eq.
      * destruct Hr as [(e & He & Ec & _)|[_ Hok]]; [exfalso; apply (Hnb e He Ec)|exact Hok].
      * destruct Hr as [(e' & He' & Ec' & Etg)|[Hnf _]]; [|exfalso; apply (Hnf e He Ec)].
        assert (e' = e) by (eapply nodup_map_inj; eauto; congruence). subst e'.
        unfold apply_write. simpl. rewrite (all_wok_writes fails b e Hall He). simpl. rewrite <- Etg.
        destruct (p6 e He) as (_ & _ & H3 & H4 & _). rewrite Ec in *.
        pose proof (HIs s) as HIv. pose proof (i_ok_stag _ _ HIv). pose proof (i_stag_wn _ _ HIv).
        destruct (e_tag e) as [|k] eqn:Ek.
        -- destruct (H3 eq_refl) as [Hsw _]. pose proof (i_seen _ _ HIv Hsw). lia.
        -- destruct (H4 ltac:(lia)) as [Hwn _]. lia.
    + intros s. unfold Dst. cbn [Pst Src]. intros (H1 & H2 & H3 & H4).
      destruct (Hany H2) as (Hfa0 & -> & Hall).
      destruct (Hfr s) as (_ & _ & _ & _ & _ & F6 & _ & _ & _ & F10 & F11 & F12 & _).
      pose proof (h2 s) as HD. unfold Dst in HD. rewrite F6, F10 in *. rewrite F11 in H1. rewrite F12 in *.
      assert (HH : Hh y t s) by (repeat split; auto).
      specialize (HD HH). destruct (pc (Src y s)) as [|[|[|[|k]]]]; auto.
      destruct HD as [HD|[Htx [HD|HD]]]; [left; exact HD| |].
      * right. split; [exact Htx|]. right. destruct HD as (e & He & Ec & Hk & Hcb).
        unfold fl_entries in He. rewrite Hf in He.
        exists (mkCb (pred (gen (Pst y))) (e_conn e) (e_cb e) (cb_error (fixed c) fails true e)), (e_tag e).
        cbn [cbs gen cb_gen cb_conn cb_err cb_id]. repeat split; auto.
        -- apply in_or_app. right. apply in_map_iff. exists e. auto.
        -- assert (0 < gen (Pst y)) by (apply h4; congruence). lia.
        -- unfold cb_error. simpl. rewrite (all_wok_writes fails b e Hall He). apply andb_false_r.
      * right. split; [exact Htx|]. right. destruct HD as (cb & n & Hin & Hg & Hc' & He & Hid & Hk).
        exists cb, n. cbn [cbs gen]. repeat split; auto. apply in_or_app. left. exact Hin.
    + intros s Hpc. cbn [Src] in *. destruct (Hfr s) as (_ & _ & _ & _ & _ & _ & _ & _ & _ & F10 & _).
      rewrite F10. apply h3. exact Hpc.
    + cbn [Pst inflight]. congruence.
    + exact h5.
  - exists [ETxFail]. split; [reflexivity|]. cbn [fold_left]. constructor.
    + intros Hfa. simpl in Hfa. discriminate.
    + intros s. unfold Dst, Hh. simpl. intros (_ & H2 & _). discriminate.
    + intros s Hpc. simpl in *. apply h3. exact Hpc.
    + simpl. congruence.
    + exact h5.
Qed.

Lemma in_remove_nth_or {A} i (l : list A) a w :
  nth_error l i = Some a -> In w l -> w = a \/ In w (remove_nth i l).
Proof.
  revert i; induction l as [|x r IH]; intros i Hn Hw; [destruct Hw|].
  destruct i as [|j]; simpl in *.
  - inversion Hn; subst. destruct Hw as [->|Hw]; auto.
  - destruct Hw as [->|Hw]; [right; left; reflexivity|].
    destruct (IH j Hn Hw) as [->|H]; [left; reflexivity|right; right; exact H].
Qed.

Lemma flushed_props x seq :
  nextSeq (on_persist_flushed x seq) = nextSeq x /\ pc (on_persist_flushed x seq) = pc x /\
  timedout (on_persist_flushed x seq) = timedout x /\
  (closed x = true -> dq (on_persist_flushed x seq) = dq x) /\
  length (dq x) <= length (dq (on_persist_flushed x seq)).
Proof.
  unfold on_persist_flushed. destruct (drain (Nat.max (durable x) seq) (pending x)) as [ready rest].
  simpl. repeat split; auto.
  - intros ->. reflexivity.
  - destruct (closed x); [lia|rewrite app_length; lia].
Qed.

Lemma flushed_reach x a seq k :
  RelS x a -> closed x = false -> k <= seq -> k <= nextSeq x ->
  k <= dn a + length (dq (on_persist_flushed x seq)).
Proof.
  intros H Hc Hk Hn. unfold on_persist_flushed.
  destruct (drain (Nat.max (durable x) seq) (pending x)) as [ready rest] eqn:Hd.
  destruct (drain_spec _ _ _ _ Hd) as (Hsplit & _ & Hrest). simpl. rewrite Hc, app_length.
  destruct (r_pend _ _ H) as (d & Hd1 & Hd2 & Hd3). specialize (Hd3 Hc).
  rewrite Hsplit in Hd1. destruct (seq_app_inv fst ready rest (S d) Hd1) as [_ Hr2].
  assert (Hlen : length (pending x) = length ready + length rest) by (rewrite Hsplit, app_length; reflexivity).
  destruct Hrest as [->|(n0 & ks0 & r0 & -> & Hgt)].
  - simpl in Hlen. lia.
  - simpl in Hr2. inversion Hr2. lia.
Qed.

Lemma stepX_callback y t i y' : G y t -> X y t -> step m y (ACallback i) = Some y' -> stepsX y t y'.
Proof.
  intros HG HX Hs. cbv beta iota zeta delta [step] in Hs.
  destruct (take_callback (Pst y) i) as [[p' cb]|] eqn:Ht; [|discriminate].
  unfold take_callback in Ht. destruct (nth_error (cbs (Pst y)) i) as [cb0|] eqn:Hn; [|discriminate].
  inversion Ht; subst p' cb0; clear Ht.
  destruct HX as [h1 h2 h3 h4 h5].
  (* the part common to all three outcomes: a callback other than a live Ack callback of the source leaves *)
  assert (Hcbs : forall s k, cb_out_for (Pst y) s k ->
            (cb_conn cb = s /\ cb_err cb = false /\ exists n, cb_id cb = CbAck n /\ k <= n) \/
            cb_out_for (mkP (batch (Pst y)) (bundle (Pst y)) (timer (Pst y)) (inflight (Pst y)) (gen (Pst y))
                            (stuck (Pst y)) (store (Pst y)) (remove_nth i (cbs (Pst y)))) s k).
  { intros s k (w & n & Hin & Hg & Hc' & He & Hid & Hk).
    destruct (in_remove_nth_or i _ cb w Hn Hin) as [->|Hin'].
    - left. repeat split; auto. exists n. auto.
    - right. exists w, n. cbn [cbs gen]. repeat split; auto. }
  assert (Hsame : forall (S' : conn -> sstate) o' t',
            (forall s, nextSeq (S' s) = nextSeq (Src y s) /\ pc (S' s) = pc (Src y s) /\ timedout (S' s) = timedout (Src y s)) ->
            (forall s, okmax (src t' s) = okmax (src t s) /\ tdh (src t' s) = tdh (src t s) /\
                       tdtx (src t' s) = tdtx (src t s) /\ tdacks (src t' s) = tdacks (src t s) /\
                       dn (src t' s) = dn (src t s)) ->
            anyfail t' = anyfail t ->
            (forall s, Dst (mkSys (mkP (batch (Pst y)) (bundle (Pst y)) (timer (Pst y)) (inflight (Pst y)) (gen (Pst y))
                            (stuck (Pst y)) (store (Pst y)) (remove_nth i (cbs (Pst y)))) S' o') t' s) ->
            X (mkSys (mkP (batch (Pst y)) (bundle (Pst y)) (timer (Pst y)) (inflight (Pst y)) (gen (Pst y))
                            (stuck (Pst y)) (store (Pst y)) (remove_nth i (cbs (Pst y)))) S' o') t').
  { intros S' o' t' HS HT Hf HD. constructor; cbn [Pst Src]; auto.
    - unfold J4. cbn [Pst Src batch fl_entries inflight]. intros Hfa s Hs'. rewrite Hf in Hfa.
      destruct (HS s) as (E1 & _). destruct (HT s) as (F1 & _). rewrite E1, F1. apply h1; auto.
    - intros s Hpc. destruct (HS s) as (E1 & E2 & _). destruct (HT s) as (_ & _ & _ & F4 & _).
      rewrite F4, E1. apply h3. rewrite <- E2. exact Hpc.
    - intros s Hpc. destruct (HS s) as (E1 & E2 & E3). rewrite E3. apply h5. rewrite <- E2. exact Hpc. }
  destruct (cb_err cb) eqn:He.
  - inversion Hs; subst y'; clear Hs. exists [ESrcErr (cb_conn cb)]. split; [reflexivity|].
    cbn [fold_left]. simpl track. apply Hsame; auto.
    intros s. pose proof (h2 s) as HD. unfold Dst, Hh in *. cbn [Pst Src]. intros HH. specialize (HD HH).
    destruct (pc (Src y s)) as [|[|[|[|k]]]]; auto.
    destruct HD as [HD|[Htx [HD|HD]]]; [left; exact HD|right; split; [exact Htx|left; exact HD]|].
    right. split; [exact Htx|]. right. destruct (Hcbs _ _ HD) as [(_ & Hf & _)|H']; [congruence|exact H'].
  - destruct (cb_id cb) as [seq|] eqn:Hid; inversion Hs; subst y'; clear Hs.
    + exists []. split; [reflexivity|]. cbn [fold_left]. set (s := cb_conn cb) in *.
      destruct (flushed_props (Src y s) seq) as (P1 & P2 & P3 & P4 & P5).
      apply Hsame; auto.
      * intros s'. destruct (Nat.eq_dec s' s) as [->|E]; [rewrite supd_same; auto|rewrite supd_other by exact E; auto].
      * intros s'. pose proof (h2 s') as HD. unfold Dst, Hh in *. cbn [Pst Src].
        destruct (Nat.eq_dec s' s) as [->|E].
        -- rewrite supd_same, P2, P3. intros HH. specialize (HD HH).
           pose proof (g_s _ _ HG s) as HS.
           destruct (pc (Src y s)) as [|[|[|[|k]]]] eqn:Hpc; auto.
           ++ assert (Hcl : closed (Src y s) = false) by (rewrite (r_closed _ _ HS), Hpc; reflexivity).
              destruct HD as [HD|[Htx [HD|HD]]]; [left; lia|right; split; [exact Htx|left; exact HD]|].
              destruct (Hcbs _ _ HD) as [(_ & _ & n & Hn' & Hk)|H']; [|right; split; [exact Htx|right; exact H']].
              left. inversion Hn'; subst n.
              apply (flushed_reach _ _ _ _ HS Hcl Hk). apply h3. lia.
           ++ assert (Hcl : closed (Src y s) = true) by (rewrite (r_closed _ _ HS), Hpc; reflexivity).
              rewrite (P4 Hcl). exact HD.
        -- rewrite supd_other by exact E. intros HH. specialize (HD HH).
           destruct (pc (Src y s')) as [|[|[|[|k]]]]; auto.
           destruct HD as [HD|[Htx [HD|HD]]]; [left; exact HD|right; split; [exact Htx|left; exact HD]|].
           right. split; [exact Htx|]. right. destruct (Hcbs _ _ HD) as [(Hc' & _)|H']; [fold s in Hc'; congruence|exact H'].
    + exists []. split; [reflexivity|]. cbn [fold_left]. apply Hsame; auto.
      intros s. pose proof (h2 s) as HD. unfold Dst, Hh in *. cbn [Pst Src]. intros HH. specialize (HD HH).
      destruct (pc (Src y s)) as [|[|[|[|k]]]]; auto.
      destruct HD as [HD|[Htx [HD|HD]]]; [left; exact HD|right; split; [exact Htx|left; exact HD]|].
      right. split; [exact Htx|]. right. destruct (Hcbs _ _ HD) as [(_ & _ & n & Hn' & _)|H']; [congruence|exact H'].
Qed.

Lemma X_one y t s x' t' o' :
  X y t ->
  nextSeq x' = nextSeq (Src y s) -> (1 <= pc x' -> 1 <= pc (Src y s)) -> (pc x' = 1 -> timedout x' = false) ->
  (forall s', s' <> s -> src t' s' = src t s') ->
  okmax (src t' s) = okmax (src t s) -> tdacks (src t' s) = tdacks (src t s) ->
  (anyfail t' = false -> anyfail t = false) ->
  Dst (mkSys (Pst y) (supd (Src y) s x') o') t' s ->
  X (mkSys (Pst y) (supd (Src y) s x') o') t'.
Proof.
  intros [h1 h2 h3 h4 h5] E1 E2 Eto Ho E3 E4 Hf HD. constructor; cbn [Pst Src].
  - unfold J4. cbn [Pst Src]. intros Hfa s0 Hs0. specialize (h1 (Hf Hfa) s0 Hs0).
    destruct (Nat.eq_dec s0 s) as [->|E]; [rewrite supd_same, E1, E3; exact h1|].
    rewrite supd_other by exact E. rewrite (Ho s0 E). exact h1.
  - intros s0. destruct (Nat.eq_dec s0 s) as [->|E]; [exact HD|].
    eapply Dst_frame; [apply (h2 s0)|..]; cbn [Pst Src]; try rewrite supd_other by exact E; try rewrite (Ho s0 E); auto.
  - intros s0 Hpc. destruct (Nat.eq_dec s0 s) as [->|E].
    + rewrite supd_same in *. rewrite E4, E1. apply h3. apply E2. exact Hpc.
    + rewrite supd_other in * by exact E. rewrite (Ho s0 E). apply h3. exact Hpc.
  - exact h4.
  - intros s0 Hpc. destruct (Nat.eq_dec s0 s) as [->|E].
    + rewrite supd_same in *. apply Eto. exact Hpc.
    + rewrite supd_other in * by exact E. apply h5. exact Hpc.
Qed.

Lemma stepX_deliver y t s ok y' : G y t -> X y t -> step m y (ADeliver s ok) = Some y' -> stepsX y t y'.
Proof.
  intros HG HX Hs. cbv beta iota zeta delta [step] in Hs. fold c in Hs. set (x := Src y s) in *.
  destruct (dq x) as [|[n ks] r] eqn:Hdq; [discriminate|].
  destruct (negb (s <? nsrc c) || negb (plug x)) eqn:Hg; [discriminate|].
  pose proof (g_s _ _ HG s) as HS. fold x in HS. pose proof (x_d _ _ HX s) as HD. unfold Dst, Hh in HD. fold x in HD.
  pose proof (x_to _ _ HX s) as Hto. fold x in Hto.
  destruct (streamOpen x) eqn:Ho; [change (negb true) with false in Hs|change (negb false) with true in Hs]; cbv iota in Hs.
  - pose proof (r_dq_seq _ _ HS Ho) as Hseq. rewrite Hdq in Hseq. simpl in Hseq. inversion Hseq as [[Hn Hr]].
    assert (Hpc12 : pc x = 0 \/ pc x = 1 \/ pc x = 2).
    { pose proof (r_open _ _ HS) as Hop. rewrite Ho in Hop. symmetry in Hop. apply Nat.leb_le in Hop. lia. }
    destruct ok.
    + inversion Hs; subst y'; clear Hs. exists [EPAck s n ks]. split; [reflexivity|]. cbn [fold_left].
      apply (X_one y t); auto.
      * intros s' E. simpl. apply upd_other. exact E.
      * simpl. rewrite upd_same. reflexivity.
      * simpl. rewrite upd_same. reflexivity.
      * unfold Dst, Hh. cbn [Pst Src]. rewrite supd_same. simpl. rewrite upd_same. simpl. intros HH. specialize (HD HH).
        rewrite Hdq in HD. simpl in HD.
        destruct Hpc12 as [E|[E|E]]; rewrite E in *; auto.
        -- destruct HD as [HD|HD]; [left; lia|right; exact HD].
        -- lia.
    + destruct (S (attempts x) =? retries c); inversion Hs; subst y'; clear Hs.
      * exists (ESendFail s n :: (if tearing x then [] else [ESrcErr s])). split; [reflexivity|].
        assert (Hfold : fold_left (track c) (ESendFail s n :: (if tearing x then [] else [ESrcErr s])) t = track c t (ESendFail s n))
          by (destruct (tearing x); reflexivity).
        rewrite Hfold, track_sendfail. apply (X_one y t); auto.
        -- intros s' E. cbn [src]. apply upd_other. exact E.
        -- cbn [src]. rewrite upd_same. reflexivity.
        -- cbn [src]. rewrite upd_same. reflexivity.
        -- simpl. discriminate.
        -- unfold Dst, Hh. simpl. intros (_ & Hf & _). discriminate.
      * exists [ESendFail s n]. split; [reflexivity|]. cbn [fold_left]. rewrite track_sendfail. apply (X_one y t); auto.
        -- intros s' E. cbn [src]. apply upd_other. exact E.
        -- cbn [src]. rewrite upd_same. reflexivity.
        -- cbn [src]. rewrite upd_same. reflexivity.
        -- simpl. discriminate.
        -- unfold Dst, Hh. simpl. intros (_ & Hf & _). discriminate.
  - inversion Hs; subst y'; clear Hs. exists []. split; [reflexivity|]. cbn [fold_left].
    apply (X_one y t); auto.
    unfold Dst, Hh. cbn [Pst Src]. rewrite supd_same. simpl. intros HH. specialize (HD HH).
    pose proof (r_open _ _ HS) as Hop. rewrite Ho in Hop. symmetry in Hop. apply Nat.leb_gt in Hop.
    destruct (pc x) as [|[|[|[|k]]]]; try lia; auto.
Qed.

Lemma Dst_trigger y t p' started o' s :
  (1 <= pc (Src y s) <= 3 -> ph (src t s) = 1) ->
  Dst y t s -> trigger_flush (Pst y) = Some (p', started) ->
  Dst (mkSys p' (Src y) o') (fold_left (track c) (tx_event started) t) s.
Proof.
  intros Hph HD Ht. unfold trigger_flush in Ht.
  destruct (batch (Pst y)) as [|e0 b0] eqn:Hb.
  - inversion Ht; subst. simpl. eapply Dst_frame; [apply HD|..]; reflexivity || auto.
  - destruct (inflight (Pst y)) as [fl|] eqn:Hf; [discriminate|]. inversion Ht; subst. clear Ht.
    unfold Dst in *. cbn [tx_event fold_left Pst Src]. intros (H1 & H2 & H3 & H4). simpl in H1, H2, H3.
    destruct (pc (Src y s)) as [|[|[|[|k]]]] eqn:Hpc; auto.
    + assert (ph (src t s) = 1) by (apply Hph; lia). rewrite H in H3. simpl in H3.
      left. simpl. destruct HD as [HD|[HD _]]; [repeat split; auto; lia|exact HD|lia].
    + assert (ph (src t s) = 1) by (apply Hph; lia). rewrite H in H3. simpl in H3.
      simpl. apply HD. repeat split; auto; lia.
    + assert (ph (src t s) = 1) by (apply Hph; lia). rewrite H in H3. simpl in H3.
      simpl. apply HD. repeat split; auto; lia.
Qed.

Lemma J4_trigger y t p' started o' :
  J4 y t -> trigger_flush (Pst y) = Some (p', started) ->
  J4 (mkSys p' (Src y) o') (fold_left (track c) (tx_event started) t).
Proof.
  intros h1 Ht. unfold trigger_flush in Ht.
  destruct (batch (Pst y)) as [|e0 b0] eqn:Hb.
  - inversion Ht; subst. simpl. intros Hf s Hs. specialize (h1 Hf s Hs). rewrite Hb in h1. simpl. exact h1.
  - destruct (inflight (Pst y)) as [fl|] eqn:Hf; [discriminate|]. inversion Ht; subst. clear Ht.
    unfold J4. cbn [tx_event fold_left Pst Src].
    intros Hfa s Hs. simpl in Hfa. specialize (h1 Hfa s Hs). unfold fl_entries in *. rewrite Hf in h1. simpl.
    right. split; [intros e []|].
    destruct h1 as [(e & He & Ec & Et)|(Hno & [(e & [] & _)|(_ & Hok)])].
    + left. exists e. rewrite Hb in He. auto.
    + right. split; [intros e1 He1; apply Hno; rewrite Hb; exact He1|exact Hok].
Qed.

Lemma stepX_tdwaited y t s y' : G y t -> X y t -> step m y (ATdWaited s) = Some y' -> stepsX y t y'.
Proof.
  intros HG HX Hs. cbv beta iota zeta delta [step] in Hs. fold c in Hs. set (x := Src y s) in *.
  destruct ((s <? nsrc c) && (pc x =? 1)) eqn:Hc; [|discriminate].
  inversion Hs; subst y'; clear Hs. apply andb_true_iff in Hc. destruct Hc as [Hc H]. apply Nat.eqb_eq in H.
  exists []. split; [reflexivity|]. cbn [fold_left].
  pose proof (x_d _ _ HX s) as HD. unfold Dst, Hh in HD. fold x in HD. rewrite H in HD.
  pose proof (x_to _ _ HX s H) as Hto. fold x in Hto.
  apply (X_one y t); auto; simpl; try (fold x; lia); try discriminate.
  unfold Dst, Hh. cbn [Pst Src]. rewrite supd_same. simpl. intros (H1 & H2 & H3 & H4).
  apply negb_false_iff in H4. unfold wait_done in H4.
  destruct (inflight (Pst y)) as [fl|] eqn:Hf; [discriminate|].
  apply andb_true_iff in H4. destruct H4 as [_ Hall]. rewrite forallb_forall in Hall.
  destruct (HD (conj H1 (conj H2 (conj H3 Hto)))) as [HD'|[_ [HD'|HD']]]; [exact HD'| |].
  - destruct HD' as (e & He & _). unfold fl_entries in He. rewrite Hf in He. destruct He.
  - destruct HD' as (cb & n & Hin & Hg & _). specialize (Hall cb Hin). rewrite Hg, Nat.eqb_refl in Hall. discriminate.
Qed.

Lemma stepX_tdcancel y t s y' : G y t -> X y t -> step m y (ATdCancel s) = Some y' -> stepsX y t y'.
Proof.
  intros HG HX Hs. cbv beta iota zeta delta [step] in Hs. fold c in Hs. set (x := Src y s) in *.
  destruct ((s <? nsrc c) && (pc x =? 2)) eqn:Hc; [|discriminate].
  inversion Hs; subst y'; clear Hs. apply andb_true_iff in Hc. destruct Hc as [Hc H]. apply Nat.eqb_eq in H.
  exists []. split; [reflexivity|]. cbn [fold_left].
  pose proof (x_d _ _ HX s) as HD. unfold Dst, Hh in HD. fold x in HD. rewrite H in HD.
  apply (X_one y t); auto; simpl; try (fold x; lia); try discriminate.
  unfold Dst, Hh. cbn [Pst Src]. rewrite supd_same. simpl. intros (H1 & H2 & H3 & H4).
  apply orb_false_iff in H4. destruct H4 as [H4 H5]. apply negb_false_iff in H5.
  specialize (HD (conj H1 (conj H2 (conj H3 H4)))). destruct (dq x); [simpl in HD; lia|discriminate].
Qed.

Lemma stepX_tddown y t s fast y' : G y t -> X y t -> step m y (ATdDown s fast) = Some y' -> stepsX y t y'.
Proof.
  intros HG HX Hs. cbv beta iota zeta delta [step] in Hs. fold c in Hs. set (x := Src y s) in *.
  destruct ((s <? nsrc c) && (pc x =? 3) && (match dq x with [] => true | _ => false end)
            && (negb fast || negb (timedout x))) eqn:Hc; [|discriminate].
  destruct (trigger_flush (Pst y)) as [[p' started]|] eqn:Ht; [|discriminate].
  inversion Hs; subst y'; clear Hs.
  repeat (apply andb_true_iff in Hc; destruct Hc as [Hc ?]). apply Nat.eqb_eq in H1.
  exists (ETdCancel s :: ETdEnd s fast :: tx_event started). split; [reflexivity|]. cbn [fold_left].
  remember (track c (track c t (ETdCancel s)) (ETdEnd s fast)) as t2 eqn:Et2.
  assert (Ho : forall s', s' <> s -> src t2 s' = src t s').
  { intros s' E. rewrite Et2. simpl. rewrite !upd_other by exact E. reflexivity. }
  assert (Hs2 : okmax (src t2 s) = okmax (src t s) /\ tdacks (src t2 s) = tdacks (src t s)).
  { rewrite Et2. simpl. rewrite !upd_same. simpl. auto. }
  set (x4 := mkSS false (stT x) (stP x) (nextSeq x) (pending x) (durable x) [] (attempts x) (closed x) (tearing x)
                  (streamOpen x) 4 (timedout x) (lastRead x)).
  assert (HX1 : X (mkSys (Pst y) (supd (Src y) s x4) []) t2).
  { apply (X_one y t); auto; simpl; try (fold x; lia); try discriminate; try tauto.
    - rewrite Et2. simpl. auto.
    - unfold Dst. cbn [Src]. rewrite supd_same. simpl. auto. }
  apply (X_trigger (mkSys (Pst y) (supd (Src y) s x4) [])); auto.
  intros s0 Hpc. cbn [Src] in Hpc. destruct (Nat.eq_dec s0 s) as [->|E].
  - rewrite supd_same in Hpc. simpl in Hpc. lia.
  - rewrite supd_other in Hpc by exact E. rewrite (Ho s0 E). apply (ph_of_G _ _ HG). exact Hpc.
Qed.

Lemma stepX_tdbegin y t s cx y' : G y t -> X y t -> step m y (ATdBegin s cx) = Some y' -> stepsX y t y'.
Proof.
  intros HG HX Hs. cbv beta iota zeta delta [step] in Hs. fold c in Hs. set (x := Src y s) in *.
  destruct ((s <? nsrc c) && plug x && (pc x =? 0)) eqn:Hc; [|discriminate].
  destruct (trigger_flush (Pst y)) as [[p' started]|] eqn:Ht; [|discriminate].
  inversion Hs; subst y'; clear Hs.
  repeat (apply andb_true_iff in Hc; destruct Hc as [Hc ?]). apply Nat.eqb_eq in H. apply Nat.ltb_lt in Hc.
  pose proof (g_s _ _ HG s) as HS. fold x in HS. pose proof (g_p _ _ HG) as HP.
  destruct HX as [h1 h2 h3 h4 h5].
  exists (ETdBegin s :: tx_event started). split; [reflexivity|]. cbn [fold_left].
  remember (track c t (ETdBegin s)) as t1 eqn:Et1.
  set (x1 := mkSS (plug x) (stT x) (stP x) (nextSeq x) (pending x) (durable x) (dq x) (attempts x) (closed x) true
                  (streamOpen x) 1 false (lastRead x)).
  assert (Ho : forall s', s' <> s -> src t1 s' = src t s').
  { intros s' E. rewrite Et1. simpl. apply upd_other. exact E. }
  assert (Hs1 : src t1 s = mkS (acks (src t s)) (reads (src t s)) (lastread (src t s)) (nacked (src t s))
                  (eng (src t s)) (seenw (src t s)) (wn (src t s)) (okmax (src t s)) (attmax (src t s))
                  (stag (src t s)) (spos (src t s)) (dn (src t s)) (lastp (src t s)) (att (src t s)) 1
                  (length (acks (src t s)))
                  (negb (anyfail t) && (intx t =? 0) && (okmax (src t s) <=? Nat.max (dn (src t s)) (hs (src t s)))) 0
                  (hs (src t s))).
  { rewrite Et1. simpl. apply upd_same. }
  assert (Hany : anyfail t1 = anyfail t) by (rewrite Et1; reflexivity).
  set (y1 := mkSys (Pst y) (supd (Src y) s x1) []).
  assert (HJ1 : J4 y1 t1).
  { unfold J4, y1. cbn [Pst Src]. intros Hfa s0 Hs0. rewrite Hany in Hfa. specialize (h1 Hfa s0 Hs0).
    destruct (Nat.eq_dec s0 s) as [->|E].
    - rewrite supd_same, Hs1. simpl. exact h1.
    - rewrite supd_other by exact E. rewrite (Ho s0 E). exact h1. }
  assert (Hph1 : forall s0, 1 <= pc (Src y1 s0) <= 3 -> ph (src t1 s0) = 1).
  { intros s0 Hpc. unfold y1 in Hpc. cbn [Src] in Hpc. destruct (Nat.eq_dec s0 s) as [->|E].
    - rewrite Hs1. reflexivity.
    - rewrite supd_other in Hpc by exact E. rewrite (Ho s0 E). apply (ph_of_G _ _ HG). exact Hpc. }
  (* the effect of the flush on what matters here *)
  assert (Hfold : forall s0, let a' := src (fold_left (track c) (tx_event started) t1) s0 in
            tdacks a' = tdacks (src t1 s0) /\ dn a' = dn (src t1 s0) /\ tdh a' = tdh (src t1 s0) /\
            tdtx a' = (if started then (if (ph (src t1 s0) =? 1) || (ph (src t1 s0) =? 2) then S (tdtx (src t1 s0)) else tdtx (src t1 s0))
                       else tdtx (src t1 s0))).
  { intros s0. destruct started; simpl; auto. }
  constructor.
  - apply (J4_trigger y1 t1). exact HJ1. exact Ht.
  - intros s0. destruct (Nat.eq_dec s0 s) as [->|E].
    + (* the source being torn down *)
      unfold Dst, Hh. cbn [Pst Src]. rewrite supd_same. simpl pc. simpl dq. simpl timedout.
      destruct (Hfold s) as (F1 & F2 & F3 & F4). rewrite F1, F2, F3, F4, Hs1. simpl.
      intros (H2 & H3 & H4 & _).
      apply andb_true_iff in H2. destruct H2 as [H2 Hok]. apply andb_true_iff in H2. destruct H2 as [Hfa Hix].
      apply negb_true_iff in Hfa. apply Nat.eqb_eq in Hix. apply Nat.leb_le in Hok.
      assert (Hnone : inflight (Pst y) = None).
      { pose proof (rp_intx _ _ HP) as Hi. rewrite Hix in Hi. destruct (inflight (Pst y)); [discriminate|reflexivity]. }
      destruct (h1 Hfa s Hc) as [(e & He & Ec & Etg)|(Hno & Hr)].
      * (* its last position is in the batch: this flush takes it *)
        unfold trigger_flush in Ht. destruct (batch (Pst y)) as [|e0 b0] eqn:Hb; [destruct He|].
        rewrite Hnone in Ht. inversion Ht; subst p' started. clear Ht.
        fold x in Etg. rewrite <- (r_seq _ _ HS), <- Etg.
        destruct (rp_b _ _ HP e) as (_ & Hcb & _); [rewrite Hb; exact He|].
        destruct (e_cb e) as [n|] eqn:Hcbe.
        -- right. split; [reflexivity|]. left. exists e. unfold fl_entries. cbn [inflight].
           destruct Hcb as [-> _]. repeat split; auto.
        -- left. lia.
      * unfold fl_entries in Hr. rewrite Hnone in Hr. destruct Hr as [(e & [] & _)|(_ & Hk)].
        left. fold x in Hk. rewrite <- (r_seq _ _ HS), <- Hk.
        (* everything committed is delivered, or its send has begun: then it heads the queue *)
        pose proof (r_hs _ _ HS) as Hhs. pose proof (r_hs_le _ _ HS) as Hle. pose proof (r_open _ _ HS) as Hop.
        rewrite H in Hop. simpl in Hop.
        destruct (Nat.max_spec (dn (src t s)) (hs (src t s))) as [[Hlt Hm]|[Hge Hm]]; rewrite Hm in Hok; [|lia].
        specialize (Hhs Hlt Hop). destruct (dq x); [congruence|simpl; lia].
    + apply (Dst_trigger y1 t1); [apply Hph1| |exact Ht].
      eapply Dst_frame; [apply (h2 s0)|..]; unfold y1; cbn [Pst Src]; try rewrite supd_other by exact E;
        try rewrite (Ho s0 E); auto. rewrite Hany. auto.
  - intros s0 Hpc. cbn [Src] in *. destruct (Hfold s0) as (F1 & _). rewrite F1.
    destruct (Nat.eq_dec s0 s) as [->|E].
    + rewrite supd_same, Hs1. simpl. rewrite (r_seq _ _ HS). lia.
    + rewrite supd_other in * by exact E. rewrite (Ho s0 E). apply h3. exact Hpc.
  - cbn [Pst]. unfold trigger_flush in Ht. destruct (batch (Pst y)); [inversion Ht; subst; exact h4|].
    destruct (inflight (Pst y)); [discriminate|]. inversion Ht; subst. simpl. lia.
  - intros s0 Hpc. cbn [Src] in *. destruct (Nat.eq_dec s0 s) as [->|E].
    + rewrite supd_same. reflexivity.
    + rewrite supd_other in * by exact E. apply h5. exact Hpc.
Qed.

Lemma stepX_hold y t s y' : G y t -> X y t -> step m y (AHold s) = Some y' -> stepsX y t y'.
Proof.
  intros HG HX Hs. cbv beta iota zeta delta [step] in Hs. fold c in Hs.
  destruct (dq (Src y s)) as [|[n ks] r]; [discriminate|].
  destruct ((s <? nsrc c) && plug (Src y s) && streamOpen (Src y s)); [|discriminate].
  inversion Hs; subst y'; clear Hs. exists [ESendHeld s n]. split; [reflexivity|].
  cbn [fold_left]. eapply X_frame; [exact HX|..]; try reflexivity.
  - intros s'. auto.
  - intros s'. simpl. destruct (Nat.eq_dec s' s) as [->|E]; [rewrite upd_same|rewrite upd_other by exact E]; auto.
  - auto.
Qed.

Lemma step_stop y t s y' : G y t -> step m y (AStop s) = Some y' -> steps_ok y t y'.
Proof.
  intros HG Hs. cbv beta iota zeta delta [step] in Hs. fold c in Hs.
  destruct ((s <? nsrc c) && plug (Src y s)); [|discriminate]. inversion Hs; subst y'.
  exists []. split; [reflexivity|]. split; [reflexivity|]. exact HG.
Qed.

Lemma stepX_stop y t s y' : X y t -> step m y (AStop s) = Some y' -> stepsX y t y'.
Proof.
  intros HX Hs. cbv beta iota zeta delta [step] in Hs. fold c in Hs.
  destruct ((s <? nsrc c) && plug (Src y s)); [|discriminate]. inversion Hs; subst y'.
  exists []. split; [reflexivity|exact HX].
Qed.

(* ---------- putting the two invariants together ---------- *)
Lemma drain_from_X y t s : X y t -> drain_cond y t s.
Proof.
  intros HX. unfold drain_cond. intros Hpc Hdq Hto Hhl. pose proof (x_d _ _ HX s) as HD. unfold Dst, Hh in HD.
  rewrite Hpc in HD. unfold healthy in Hhl. repeat (apply andb_true_iff in Hhl; destruct Hhl as [Hhl ?]).
  apply negb_true_iff in H1. apply Nat.leb_le in H. apply HD. auto.
Qed.

Lemma step_both y t a y' :
  G y t -> X y t -> step m y a = Some y' ->
  exists es, out y' = rev es ++ out y /\ runchk c (acc_ok c) t es = true /\
             G y' (fold_left (track c) es t) /\ X y' (fold_left (track c) es t).
Proof.
  intros HG HX Hs.
  assert (H1 : steps_ok y t y').
  { destruct a; [eapply step_read|eapply step_ack|eapply step_timer|eapply step_flush|eapply step_writedone
                |eapply step_callback|eapply step_deliver|eapply step_tdbegin|eapply step_tdwaited
                |eapply step_tdcancel|eapply step_tddown|eapply step_hold|eapply step_stop]; eauto. apply drain_from_X. exact HX. }
  assert (H2 : stepsX y t y').
  { destruct a; [eapply stepX_read|eapply stepX_ack|eapply stepX_timer|eapply stepX_flush|eapply stepX_writedone
                |eapply stepX_callback|eapply stepX_deliver|eapply stepX_tdbegin|eapply stepX_tdwaited
                |eapply stepX_tdcancel|eapply stepX_tddown|eapply stepX_hold|eapply stepX_stop]; eauto. }
  destruct H1 as (es & E1 & Ha & HG'). destruct H2 as (es' & E2 & HX').
  assert (es' = es).
  { rewrite E1 in E2. apply app_inv_tail in E2. rewrite <- (rev_involutive es), <- (rev_involutive es'), E2. reflexivity. }
  subst es'. exists es. auto.
Qed.

Lemma run_both acts : forall y t,
  G y t -> X y t ->
  exists es, out (run m y acts) = rev es ++ out y /\ runchk c (acc_ok c) t es = true /\
             G (run m y acts) (fold_left (track c) es t) /\ X (run m y acts) (fold_left (track c) es t).
Proof.
  induction acts as [|a r IH]; intros y t HG HX.
  - exists []. simpl. auto.
  - simpl. destruct (step m y a) as [y'|] eqn:Hs; [|apply IH; assumption].
    destruct (step_both _ _ _ _ HG HX Hs) as (es1 & E1 & A1 & G1 & X1).
    destruct (IH _ _ G1 X1) as (es2 & E2 & A2 & G2 & X2).
    exists (es1 ++ es2). rewrite E2, E1, rev_app_distr, app_assoc, fold_left_app, runchk_app, A1, A2. auto.
Qed.

Theorem model_log_accepted acts : accepts c (run_log m acts) = true.
Proof.
  destruct (run_both acts _ _ G_init X_init) as (es & E & A & _).
  unfold run_log, log_of. rewrite E. simpl. rewrite app_nil_r, rev_involutive. exact A.
Qed.

End Model.
