(* connector.Persister (pkg/connector/persister.go) as an interleaving transition system.
   Definitions only.

   State = what Persister.m guards (batch, bundleCount, flushTimer, the current flush generation)
   plus the store and the callbacks flushNow has spawned and that have not run yet.

     Persist c snap cb   Persist(): PrepareSet copies the instance (the snapshot is taken NOW, under
                         the caller's instance lock), batch[c] := (snapshot, callback) - the previous
                         entry of c, callback included, is overwritten -, bundleCount++, then either
                         the bundle threshold triggers a flush or the debounce timer is armed
     TimerFire / Flush / ConnectorStopped   all end in triggerFlush
     triggerFlush        stops the timer; nothing to do for a nil batch; otherwise WAITS (holding m)
                         for the write in flight, then takes the batch and starts flushNow.
                         Waiting while holding m = nobody else can act on the persister meanwhile:
                         modelled as the action not being enabled until WriteDone.
     WriteDone txok fails commitok   the environment finishes the write in flight:
                         NewTransaction fails -> flushNow returns, NO callback is ever called;
                         otherwise every storeFunc runs (those of [fails] fail), the transaction is
                         committed (commitok) and one callback per batch entry is spawned.
                         What the callbacks receive is transcribed AS WRITTEN: `err := storeFunc()`
                         declares a new err inside the loop, so the outer err is still nil at
                         `if err == nil { err = tx.Commit() }`, the commit always runs, and every
                         callback gets the commit's error only ([fixed_shadow = false]).
                         [fixed_shadow = true] is the repaired flushNow: the callback of a connector
                         whose own storeFunc failed gets that error.
     RunCallback i       the scheduler runs the i-th outstanding callback goroutine *)
From Verif Require Export Conn.Trace.

Inductive cbid := CbAck (n : nat) | CbOpen.

Record entry := mkE { e_conn : conn; e_tag : nat; e_pos : pos; e_cb : cbid }.
Record callback := mkCb { cb_gen : nat; cb_conn : conn; cb_id : cbid; cb_err : bool }.

Record pstate := mkP {
  batch : list entry;              (* at most one entry per connector; [] = nil map *)
  bundle : nat;
  timer : bool;
  inflight : option (list entry);  (* the batch flushNow is writing *)
  gen : nat;                       (* number of flushes triggered so far *)
  stuck : bool;                    (* the latest flush died in NewTransaction: its callbacksDone never closes *)
  store : conn -> (nat * pos);
  cbs : list callback
}.

(* batch[c] = entry: the previous entry of the connector (snapshot and callback) is replaced.
   (A Go map has no order; neither the acceptor nor any theorem depends on the order here.) *)
Definition put (e : entry) (b : list entry) : list entry :=
  e :: filter (fun x => negb (e_conn x =? e_conn e)) b.

Definition find_entry (s : conn) (b : list entry) : option entry :=
  find (fun e => e_conn e =? s) b.

(* Some (p', started): started = a new flushNow was started (ETxBegin).  None = blocked. *)
Definition trigger_flush (p : pstate) : option (pstate * bool) :=
  match batch p with
  | [] => Some (mkP [] (bundle p) false (inflight p) (gen p) (stuck p) (store p) (cbs p), false)
  | b =>
      match inflight p with
      | Some _ => None
      | None => Some (mkP [] 0 false (Some b) (S (gen p)) false (store p) (cbs p), true)
      end
  end.

Definition persist (thr : nat) (p : pstate) (e : entry) : option (pstate * bool) :=
  let p1 := mkP (put e (batch p)) (S (bundle p)) (timer p) (inflight p) (gen p) (stuck p) (store p) (cbs p) in
  if S (bundle p) =? thr then trigger_flush p1
  else Some (mkP (batch p1) (bundle p1) true (inflight p1) (gen p1) (stuck p1) (store p1) (cbs p1), false).

Definition set_fails (fails : list conn) (s : conn) : bool := existsb (Nat.eqb s) fails.

Definition writes_of (fails : list conn) (b : list entry) : list write :=
  map (fun e => mkW (e_conn e) (e_tag e) (e_pos e) (negb (set_fails fails (e_conn e)))) b.

Definition store_upd (st : conn -> (nat * pos)) (s : conn) (v : nat * pos) : conn -> (nat * pos) :=
  fun x => if x =? s then v else st x.

Definition commit_store (st : conn -> (nat * pos)) (ws : list write) : conn -> (nat * pos) :=
  fold_left (fun g w => if w_ok w then store_upd g (w_s w) (w_tag w, w_pos w) else g) ws st.

(* the error flushNow hands to the callback of entry e *)
Definition cb_error (fixed_shadow : bool) (fails : list conn) (commitok : bool) (e : entry) : bool :=
  negb commitok || (fixed_shadow && set_fails fails (e_conn e)).

Definition snapshot (n : nat) (st : conn -> (nat * pos)) : list (nat * pos) := map st (upto n).

(* returns the new state and the events the fault-injecting store logs *)
Definition write_done (fixed_shadow : bool) (n : nat) (p : pstate)
           (txok : bool) (fails : list conn) (commitok : bool) : option (pstate * list event) :=
  match inflight p with
  | None => None
  | Some b =>
      if negb txok then
        Some (mkP (batch p) (bundle p) (timer p) None (gen p) true (store p) (cbs p), [ETxFail])
      else
        let ws := writes_of fails b in
        let st' := if commitok then commit_store (store p) ws else store p in
        let new := map (fun e => mkCb (pred (gen p)) (e_conn e) (e_cb e) (cb_error fixed_shadow fails commitok e)) b in
        Some (mkP (batch p) (bundle p) (timer p) None (gen p) false st' (cbs p ++ new),
              [ECommit ws commitok (snapshot n st')])
  end.

Fixpoint remove_nth {A} (i : nat) (l : list A) : list A :=
  match l, i with
  | [], _ => []
  | _ :: r, 0 => r
  | x :: r, S j => x :: remove_nth j r
  end.

Definition take_callback (p : pstate) (i : nat) : option (pstate * callback) :=
  match nth_error (cbs p) i with
  | None => None
  | Some cb => Some (mkP (batch p) (bundle p) (timer p) (inflight p) (gen p) (stuck p) (store p)
                         (remove_nth i (cbs p)), cb)
  end.

(* WaitPendingWrites would return now: the latest generation's write and all its callbacks are done *)
Definition wait_done (p : pstate) : bool :=
  match inflight p with
  | Some _ => false
  | None => negb (stuck p) && forallb (fun cb => negb (S (cb_gen cb) =? gen p)) (cbs p)
  end.
