(* Every log the acceptor accepts satisfies the monitors of C02 and C03 (by induction over the
   log, carrying an invariant of the tracked state). *)
From Coq Require Import Sorted.
From Verif Require Import Conn.Trace.

(* ---------- small toolkit ---------- *)
Lemma list_eqb_nat_eq a b : list_eqb_nat a b = true <-> a = b.
Proof.
  revert b; induction a as [|x a IH]; intros [|y b]; simpl; try (split; congruence).
  rewrite andb_true_iff, Nat.eqb_eq, IH. split; [intros [-> ->]; reflexivity|intros E; inversion E; auto].
Qed.

Lemma upd_same f s v : upd f s v s = v.
Proof. unfold upd. rewrite Nat.eqb_refl. reflexivity. Qed.

Lemma upd_other f s v x : x <> s -> upd f s v x = f x.
Proof. intros H. unfold upd. destruct (x =? s) eqn:E; [apply Nat.eqb_eq in E; congruence|reflexivity]. Qed.

Lemma ss_app (l1 l2 : list nat) :
  StronglySorted lt (l1 ++ l2) <->
  StronglySorted lt l1 /\ StronglySorted lt l2 /\ (forall a b, In a l1 -> In b l2 -> a < b).
Proof.
  induction l1 as [|x l1 IH]; simpl.
  - split; [intros H; repeat split; [constructor|exact H|intros a b []]|intros (_ & H & _); exact H].
  - split.
    + intros H. inversion H as [|? ? Hs Hf]; subst. apply IH in Hs. destruct Hs as (H1 & H2 & H3).
      rewrite Forall_app in Hf. destruct Hf as [Hf1 Hf2].
      repeat split; [constructor; assumption|assumption|].
      intros a b [->|Ha] Hb; [rewrite Forall_forall in Hf2; auto|auto].
    + intros (H1 & H2 & H3). inversion H1 as [|? ? Hs Hf]; subst.
      constructor; [apply IH; repeat split; auto|].
      rewrite Forall_app. split; [assumption|]. rewrite Forall_forall. intros b Hb. apply H3; auto.
Qed.

Lemma firstn_plus {A} a b (l : list A) : firstn (a + b) l = firstn a l ++ firstn b (skipn a l).
Proof.
  revert l; induction a as [|a IH]; intros l; [reflexivity|].
  destruct l as [|x l]; simpl; [rewrite firstn_nil; reflexivity|]. rewrite IH. reflexivity.
Qed.

Lemma skipn_plus {A} a b (l : list A) : skipn (a + b) l = skipn b (skipn a l).
Proof.
  revert l; induction a as [|a IH]; intros l; [reflexivity|].
  destruct l as [|x l]; simpl; [rewrite skipn_nil; reflexivity|]. apply IH.
Qed.

Lemma in_last {A} (l : list A) d : l <> [] -> In (last l d) l.
Proof.
  induction l as [|x l IH]; [congruence|]. intros _. destruct l as [|y l]; [left; reflexivity|].
  right. apply IH. congruence.
Qed.

Lemma nth_error_split_concat (L : list (list nat)) m ks :
  nth_error L m = Some ks -> exists A B, L = A ++ ks :: B /\ length A = m.
Proof. intros H. apply nth_error_split in H. exact H. Qed.

(* ---------- the invariant of one source ---------- *)
Record InvS (p0 : pos) (x : sst) : Prop := {
  i_stag_wn : stag x <= wn x;
  i_att_wn : attmax x <= wn x;
  i_ok_stag : okmax x = stag x;
  i_ok_att : okmax x <= attmax x;
  i_wn_len : wn x <= length (acks x);
  i_seen : seenw x = false -> wn x = 0;
  i_spos : pos_of_tag p0 x (stag x) = Some (spos x);
  i_lastp : lastp x <= dn x;
  i_eng : eng x = true ->
          concat (acks x) = firstn (nacked x) (reads x) /\
          nacked x <= length (reads x) /\
          StronglySorted lt (p0 :: reads x) /\
          (forall a, In a (p0 :: reads x) -> a <= lastread x) /\
          Forall (fun ks => ks <> []) (acks x)
}.

Definition Inv (c : cfg) (t : tst) : Prop :=
  (forall s, InvS (init_of c s) (src t s)) /\
  (anyfail t = false -> forall s, lastp (src t s) = dn (src t s)).

Lemma inv_init c : Inv c (init_t c).
Proof.
  split; [|reflexivity]. intros s. unfold init_t, init_s; simpl.
  constructor; simpl; try lia; try reflexivity.
  all: try (intros _; repeat split; try lia; try constructor; try constructor; intros a [<-|[]]; lia).
Qed.

(* facts that follow from the engine hypothesis *)
Section Eng.
  Variables (p0 : pos) (x : sst).
  Hypothesis HI : InvS p0 x.
  Hypothesis He : eng x = true.

  Lemma eng_ack_pos m ks :
    nth_error (acks x) m = Some ks ->
    ks <> [] /\ In (lastp_of ks) (firstn (nacked x) (reads x)) /\
    (forall m' ks', m' < m -> nth_error (acks x) m' = Some ks' -> forall a, In a ks' -> a < lastp_of ks) /\
    (forall a, In a ks -> a <= lastp_of ks).
  Proof.
    intros Hn. destruct (i_eng _ _ HI He) as (Hc & Hle & Hss & Hlr & Hne).
    assert (Hks : ks <> []).
    { rewrite Forall_forall in Hne. apply Hne. eapply nth_error_In; eauto. }
    destruct (nth_error_split_concat _ _ _ Hn) as (A & B & HL & HA).
    assert (Hsf : StronglySorted lt (firstn (nacked x) (reads x))).
    { inversion Hss as [|? ? Hs _]; subst.
      rewrite <- (firstn_skipn (nacked x) (reads x)) in Hs. apply ss_app in Hs. tauto. }
    rewrite <- Hc, HL, concat_app in Hsf. simpl in Hsf.
    apply ss_app in Hsf. destruct Hsf as (_ & Hs2 & Hx). apply ss_app in Hs2. destruct Hs2 as (Hsk & _ & _).
    split; [exact Hks|]. split.
    - rewrite <- Hc, HL, concat_app. simpl. apply in_or_app. right. apply in_or_app. left.
      apply in_last; exact Hks.
    - split.
      + intros m' ks' Hlt Hn' a Ha. apply Hx.
        * rewrite HL in Hn'. rewrite nth_error_app1 in Hn' by lia.
          apply in_concat. exists ks'. split; [eapply nth_error_In; eauto|exact Ha].
        * apply in_or_app. left. apply in_last; exact Hks.
      + intros a Ha. clear - Hsk Ha Hks. unfold lastp_of.
        induction ks as [|y ks IH]; [destruct Ha|]. destruct ks as [|z ks].
        * destruct Ha as [->|[]]. simpl. lia.
        * inversion Hsk as [|? ? Hs Hf]; subst. destruct Ha as [->|Ha].
          -- rewrite Forall_forall in Hf. specialize (Hf (last (z :: ks) 0)).
             change (last (a :: z :: ks) 0) with (last (z :: ks) 0).
             assert (In (last (z :: ks) 0) (z :: ks)) by (apply in_last; congruence). specialize (Hf H). lia.
          -- change (last (y :: z :: ks) 0) with (last (z :: ks) 0). apply IH; [congruence|exact Hs|exact Ha].
  Qed.

  Lemma eng_unacked_gt a b :
    In a (p0 :: firstn (nacked x) (reads x)) -> In b (skipn (nacked x) (reads x)) -> a < b.
  Proof.
    intros Ha Hb. destruct (i_eng _ _ HI He) as (_ & _ & Hss & _ & _).
    rewrite <- (firstn_skipn (nacked x) (reads x)) in Hss.
    change (p0 :: firstn (nacked x) (reads x) ++ skipn (nacked x) (reads x))
      with ((p0 :: firstn (nacked x) (reads x)) ++ skipn (nacked x) (reads x)) in Hss.
    apply ss_app in Hss. destruct Hss as (_ & _ & H). apply H; assumption.
  Qed.

  Lemma eng_tag_pos n p :
    pos_of_tag p0 x n = Some p -> In p (p0 :: firstn (nacked x) (reads x)).
  Proof.
    destruct n as [|m]; simpl.
    - intros E; inversion E; left; reflexivity.
    - destruct (nth_error (acks x) m) as [ks|] eqn:Hn; [|discriminate].
      intros E; inversion E; subst. right. apply (eng_ack_pos _ _ Hn).
  Qed.

  Lemma eng_tag_mono n n' p p' :
    n < n' -> pos_of_tag p0 x n = Some p -> pos_of_tag p0 x n' = Some p' -> p < p'.
  Proof.
    intros Hlt Hp Hp'. destruct n' as [|m']; [lia|]. simpl in Hp'.
    destruct (nth_error (acks x) m') as [ks'|] eqn:Hn'; [|discriminate]. inversion Hp'; subst.
    destruct (eng_ack_pos _ _ Hn') as (Hne & Hin & Hlt' & _).
    destruct n as [|m]; simpl in Hp.
    - inversion Hp; subst. destruct (i_eng _ _ HI He) as (_ & _ & Hss & _ & _).
      inversion Hss as [|? ? _ Hf]; subst. rewrite Forall_forall in Hf. apply Hf.
      apply (In_firstn_In _ _ _ _ Hin) || (eapply firstn_In; exact Hin) || idtac.
      all: try (clear - Hin; revert Hin; generalize (nacked x); induction (reads x) as [|y l IH]; intros [|k] H; simpl in *;
                try contradiction; destruct H; auto; right; eauto).
    - destruct (nth_error (acks x) m) as [ks|] eqn:Hn; [|discriminate]. inversion Hp; subst.
      apply (Hlt' m ks); [lia|exact Hn|]. apply in_last. apply (eng_ack_pos _ _ Hn).
  Qed.

  Lemma eng_handled n p : pos_of_tag p0 x n = Some p -> handled_upto x p = true.
  Proof.
    intros Hp. unfold handled_upto. rewrite forallb_forall. intros b Hb. apply Nat.ltb_lt.
    apply eng_unacked_gt; [eapply eng_tag_pos; eauto|exact Hb].
  Qed.
End Eng.

(* ---------- frame: InvS only looks at some fields ---------- *)
Lemma pos_of_tag_ext p0 x y n : acks x = acks y -> pos_of_tag p0 x n = pos_of_tag p0 y n.
Proof. intros E. unfold pos_of_tag. rewrite E. reflexivity. Qed.

Lemma InvS_ext p0 x y :
  InvS p0 x ->
  acks y = acks x -> reads y = reads x -> lastread y = lastread x -> nacked y = nacked x ->
  eng y = eng x -> seenw y = seenw x -> wn y = wn x -> okmax y = okmax x -> attmax y = attmax x ->
  stag y = stag x -> spos y = spos x -> lastp y <= dn y ->
  InvS p0 y.
Proof.
  intros H E1 E2 E3 E4 E5 E6 E7 E8 E9 E10 E11 Hl. destruct H.
  constructor; rewrite ?E1, ?E2, ?E3, ?E4, ?E5, ?E6, ?E7, ?E8, ?E9, ?E10, ?E11; auto.
  rewrite (pos_of_tag_ext p0 y x) by exact E1. assumption.
Qed.

(* ---------- transactions ---------- *)
Lemma apply_writes_other ok ws f s :
  (forall w, In w ws -> w_s w <> s) -> apply_writes ok f ws s = f s.
Proof.
  unfold apply_writes. revert f. induction ws as [|v r IH]; intros f H; simpl; [reflexivity|].
  rewrite IH by (intros w Hw; apply H; right; exact Hw).
  apply upd_other. intros E. apply (H v); [left; reflexivity|congruence].
Qed.

Lemma nodup_head v r : nodup_src (v :: r) = true ->
  (forall w, In w r -> w_s w <> w_s v) /\ nodup_src r = true.
Proof.
  simpl. rewrite andb_true_iff, negb_true_iff. intros [H1 H2]. split; [|exact H2].
  intros w Hw E. assert (existsb (fun u => w_s u =? w_s v) r = true).
  { apply existsb_exists. exists w. split; [exact Hw|apply Nat.eqb_eq; exact E]. }
  congruence.
Qed.

Lemma apply_writes_cases ok ws f s :
  nodup_src ws = true ->
  (apply_writes ok f ws s = f s /\ forall w, In w ws -> w_s w <> s) \/
  (exists w, In w ws /\ w_s w = s /\ apply_writes ok f ws s = apply_write ok (f s) w).
Proof.
  revert f. induction ws as [|v r IH]; intros f Hnd.
  - left. split; [reflexivity|intros w []].
  - destruct (nodup_head _ _ Hnd) as [Hv Hr]. unfold apply_writes in *. simpl.
    destruct (Nat.eq_dec (w_s v) s) as [E|E].
    + right. exists v. split; [left; reflexivity|]. split; [exact E|].
      fold (apply_writes ok (upd f (w_s v) (apply_write ok (f (w_s v)) v)) r).
      rewrite apply_writes_other by (intros w Hw; rewrite <- E; apply Hv; exact Hw).
      rewrite <- E. apply upd_same.
    + destruct (IH (upd f (w_s v) (apply_write ok (f (w_s v)) v)) Hr) as [[H1 H2]|(w & Hw & Es & H1)].
      * left. split; [rewrite H1; apply upd_other; congruence|].
        intros w [<-|Hw]; [exact E|apply H2; exact Hw].
      * right. exists w. split; [right; exact Hw|]. split; [exact Es|].
        rewrite H1. rewrite upd_other by congruence. reflexivity.
Qed.

Lemma write_inv c t w ok :
  InvS (init_of c (w_s w)) (src t (w_s w)) -> write_ok c t w = true ->
  InvS (init_of c (w_s w)) (apply_write ok (src t (w_s w)) w).
Proof.
  intros H Hw. unfold write_ok in Hw. set (x := src t (w_s w)) in *. set (p0 := init_of c (w_s w)) in *.
  apply andb_true_iff in Hw. destruct Hw as [Hw Hp]. apply andb_true_iff in Hw. destruct Hw as [_ Ht].
  destruct (pos_of_tag p0 x (w_tag w)) as [p|] eqn:Hpt; [|discriminate]. apply Nat.eqb_eq in Hp. subst p.
  assert (Hwn : wn x <= w_tag w /\ (w_tag w = 0 \/ wn x < w_tag w)).
  { destruct (w_tag w =? 0) eqn:E0.
    - apply Nat.eqb_eq in E0. apply negb_true_iff in Ht. pose proof (i_seen _ _ H Ht). lia.
    - apply Nat.eqb_neq in E0. apply Nat.ltb_lt in Ht. lia. }
  assert (Hlen : w_tag w <= length (acks x)).
  { destruct (w_tag w) as [|m]; [lia|]. simpl in Hpt.
    destruct (nth_error (acks x) m) eqn:Hn; [|discriminate].
    assert (m < length (acks x)) by (apply nth_error_Some; congruence). lia. }
  destruct H as [h1 h2 h3 h4 h5 h6 h7 h8 h9].
  constructor; unfold apply_write; simpl; fold x.
  - destruct (ok && w_ok w); lia.
  - destruct ok; lia.
  - destruct (ok && w_ok w); lia.
  - destruct ok, (w_ok w); simpl; lia.
  - exact Hlen.
  - discriminate.
  - rewrite (pos_of_tag_ext p0 _ x) by reflexivity. destruct (ok && w_ok w); assumption.
  - exact h8.
  - exact h9.
Qed.

Lemma apply_write_frame ok x w :
  lastp (apply_write ok x w) = lastp x /\ dn (apply_write ok x w) = dn x.
Proof. split; reflexivity. Qed.

Lemma commit_inv c t ws ok :
  Inv c t -> nodup_src ws = true -> forallb (write_ok c t) ws = true ->
  forall s, InvS (init_of c s) (apply_writes ok (src t) ws s) /\
            lastp (apply_writes ok (src t) ws s) = lastp (src t s) /\
            dn (apply_writes ok (src t) ws s) = dn (src t s).
Proof.
  intros [HI _] Hnd Hall s. rewrite forallb_forall in Hall.
  destruct (apply_writes_cases ok ws (src t) s Hnd) as [[E _]|(w & Hw & Es & E)]; rewrite E.
  - split; [apply HI|split; reflexivity].
  - subst s. split; [apply write_inv; [apply HI|apply Hall; exact Hw]|split; reflexivity].
Qed.

(* ---------- one step of the acceptor keeps the invariant ---------- *)
Lemma set_src_inv c t s v :
  Inv c t -> InvS (init_of c s) v ->
  (anyfail t = false -> lastp v = dn v) ->
  Inv c (set_src t s v).
Proof.
  intros [H1 H2] Hv Hl. split; simpl.
  - intros s'. destruct (Nat.eq_dec s' s) as [->|E]; [rewrite upd_same; exact Hv|rewrite upd_other by exact E; apply H1].
  - intros Hf s'. destruct (Nat.eq_dec s' s) as [->|E]; [rewrite upd_same; auto|rewrite upd_other by exact E; auto].
Qed.

Lemma firstn_app_le {A} n (l l' : list A) : n <= length l -> firstn n (l ++ l') = firstn n l.
Proof. intros H. rewrite firstn_app. replace (n - length l) with 0 by lia. simpl. apply app_nil_r. Qed.

Lemma step_inv c t e : Inv c t -> acc_ok c t e = true -> Inv c (track c t e).
Proof.
  intros HI Ha. pose proof HI as [HS HL].
  destruct e as [s r|s ks| | |ws ok snap|s n ks|s n|s|s|s|s fast|s hn]; simpl in Ha |- *.
  - (* ERead *)
    repeat (apply andb_true_iff in Ha; destruct Ha as [Ha ?]). apply Nat.ltb_lt in H.
    apply set_src_inv; [exact HI| |intros Hf; simpl; apply HL; exact Hf].
    pose proof (HS s) as Hx. destruct Hx as [h1 h2 h3 h4 h5 h6 h7 h8 h9].
    constructor; simpl; auto.
    intros He. apply andb_true_iff in He. destruct He as [He _].
    destruct (h9 He) as (Hc & Hle & Hss & Hlr & Hne).
    repeat split.
    + rewrite firstn_app_le by exact Hle. exact Hc.
    + rewrite app_length. simpl. lia.
    + change (init_of c s :: reads (src t s) ++ [r]) with ((init_of c s :: reads (src t s)) ++ [r]).
      apply ss_app. repeat split; [exact Hss|repeat constructor|].
      intros a b Ha' [<-|[]]. specialize (Hlr a Ha'). lia.
    + intros a [<-|Ha'].
      * specialize (Hlr (init_of c s) (or_introl eq_refl)). lia.
      * apply in_app_or in Ha'. destruct Ha' as [Ha'|[<-|[]]]; [specialize (Hlr a (or_intror Ha')); lia|lia].
    + exact Hne.
  - (* EAck *)
    repeat (apply andb_true_iff in Ha; destruct Ha as [Ha ?]).
    apply set_src_inv; [exact HI| |intros Hf; simpl; apply HL; exact Hf].
    pose proof (HS s) as Hx. destruct Hx as [h1 h2 h3 h4 h5 h6 h7 h8 h9].
    constructor; simpl; auto.
    + rewrite app_length. simpl. lia.
    + unfold pos_of_tag in *. simpl. destruct (stag (src t s)) as [|m] eqn:Es; [exact h7|].
      rewrite nth_error_app1 by lia. exact h7.
    + intros He. apply andb_true_iff in He. destruct He as [He Heq].
      apply andb_true_iff in He. destruct He as [He Hk]. apply Nat.ltb_lt in Hk.
      apply list_eqb_nat_eq in Heq.
      destruct (h9 He) as (Hc & Hle & Hss & Hlr & Hne).
      assert (Hlen : length ks <= length (reads (src t s)) - nacked (src t s)).
      { rewrite <- (skipn_length (nacked (src t s)) (reads (src t s))).
        rewrite <- Heq at 1. rewrite firstn_length. lia. }
      repeat split; auto.
      * rewrite concat_app. simpl. rewrite app_nil_r. rewrite firstn_plus, Hc, Heq. reflexivity.
      * lia.
      * rewrite Forall_app. split; [exact Hne|]. constructor; [|constructor]. intros ->. simpl in Hk. lia.
  - (* ETxBegin *)
    split; simpl.
    + intros s. eapply InvS_ext; [apply HS|..]; try reflexivity. simpl. apply (i_lastp _ _ (HS s)).
    + intros Hf s. simpl. apply HL. exact Hf.
  - (* ETxFail *)
    split; simpl; [exact HS|discriminate].
  - (* ECommit *)
    repeat (apply andb_true_iff in Ha; destruct Ha as [Ha ?]).
    split; simpl.
    + intros s. apply (commit_inv c t ws ok HI H2 H1 s).
    + intros Hf s. destruct (commit_inv c t ws ok HI H2 H1 s) as (_ & -> & ->). apply HL.
      destruct (anyfail t); [discriminate|reflexivity].
  - (* EPAck *)
    repeat (apply andb_true_iff in Ha; destruct Ha as [Ha ?]).
    apply set_src_inv; [exact HI| |reflexivity].
    eapply InvS_ext; [apply HS|..]; try reflexivity.
  - (* ESendFail *)
    repeat (apply andb_true_iff in Ha; destruct Ha as [Ha ?]). apply Nat.eqb_eq in H1.
    split; simpl; [|discriminate].
    intros s'. destruct (Nat.eq_dec s' s) as [->|E]; [rewrite upd_same|rewrite upd_other by exact E; apply HS].
    eapply InvS_ext; [apply HS|..]; try reflexivity. simpl.
    pose proof (i_lastp _ _ (HS s)).
    match goal with |- _ <= (if ?b then _ else _) => destruct b end; lia.
  - exact HI.
  - apply set_src_inv; [exact HI| |intros Hf; simpl; apply HL; exact Hf].
    eapply InvS_ext; [apply HS|..]; try reflexivity. simpl. apply (i_lastp _ _ (HS s)).
  - apply set_src_inv; [exact HI| |intros Hf; simpl; apply HL; exact Hf].
    eapply InvS_ext; [apply HS|..]; try reflexivity. simpl. apply (i_lastp _ _ (HS s)).
  - apply set_src_inv; [exact HI| |intros Hf; simpl; apply HL; exact Hf].
    eapply InvS_ext; [apply HS|..]; try reflexivity. simpl. apply (i_lastp _ _ (HS s)).
  - apply set_src_inv; [exact HI| |intros Hf; simpl; apply HL; exact Hf].
    eapply InvS_ext; [apply HS|..]; try reflexivity. simpl. apply (i_lastp _ _ (HS s)).
Qed.

(* ---------- one accepted step satisfies the monitors ---------- *)
Lemma cov_le_att c x p0 : InvS p0 x -> cov c x <= attmax x.
Proof. intros H. unfold cov. destruct (fixed c); [apply (i_ok_att _ _ H)|lia]. Qed.

Lemma write_mon2 c t ok w :
  InvS (init_of c (w_s w)) (src t (w_s w)) -> write_ok c t w = true -> mon2_write c t ok w = true.
Proof.
  intros H Hw. unfold mon2_write. destruct (ok && w_ok w); [simpl|reflexivity].
  unfold write_ok in Hw. set (x := src t (w_s w)) in *. set (p0 := init_of c (w_s w)) in *.
  apply andb_true_iff in Hw. destruct Hw as [Hw Hp]. apply andb_true_iff in Hw. destruct Hw as [_ Ht].
  destruct (pos_of_tag p0 x (w_tag w)) as [p|] eqn:Hpt; [|discriminate].
  rewrite Hp. simpl. apply Nat.eqb_eq in Hp. subst p.
  destruct (eng x) eqn:He; [simpl|reflexivity].
  rewrite (eng_handled p0 x H He _ _ Hpt), andb_true_r.
  pose proof (i_spos _ _ H) as Hsp. pose proof (i_stag_wn _ _ H) as Hsw.
  destruct (w_tag w =? 0) eqn:E0.
  - apply Nat.eqb_eq in E0. apply negb_true_iff in Ht. pose proof (i_seen _ _ H Ht).
    assert (stag x = 0) by lia. rewrite H1 in Hsp. rewrite E0 in Hpt. simpl in Hsp, Hpt.
    assert (E1 : spos x = w_pos w) by congruence. rewrite E1, Nat.leb_refl. reflexivity.
  - apply Nat.eqb_neq in E0. apply Nat.ltb_lt in Ht. simpl.
    assert (spos x < w_pos w) by (apply (eng_tag_mono p0 x H He (stag x) (w_tag w)); [lia|exact Hsp|exact Hpt]).
    apply andb_true_iff. split; [apply Nat.leb_le; lia|].
    apply negb_true_iff. apply Nat.eqb_neq. lia.
Qed.

Lemma step_mon2 strict c t e :
  (strict = true -> fixed c = true) ->
  Inv c t -> acc_ok c t e = true -> mon2_ok strict c t e = true.
Proof.
  intros Hfx [HS HL] Ha. destruct e as [s r|s ks| | |ws ok snap|s n ks|s n|s|s|s|s fast|s hn]; simpl in *; try reflexivity.
  - repeat (apply andb_true_iff in Ha; destruct Ha as [Ha ?]). rewrite forallb_forall in *.
    intros w Hw. apply write_mon2; [apply HS|apply H1; exact Hw].
  - repeat (apply andb_true_iff in Ha; destruct Ha as [Ha ?]).
    apply Nat.eqb_eq in H1. apply Nat.leb_le in H0. rewrite H, andb_true_r.
    pose proof (i_lastp _ _ (HS s)). pose proof (cov_le_att c _ _ (HS s)).
    repeat (apply andb_true_iff; split).
    + apply Nat.ltb_lt. lia.
    + apply Nat.leb_le. destruct strict; [|lia]. unfold cov in H0. rewrite (Hfx eq_refl) in H0. exact H0.
    + apply Nat.ltb_lt. lia.
  - repeat (apply andb_true_iff in Ha; destruct Ha as [Ha ?]).
    destruct (healthy t (src t s) && fast) eqn:Hh; [simpl in *|reflexivity].
    apply andb_true_iff in Hh. destruct Hh as [Hh _]. unfold healthy in Hh. repeat (apply andb_true_iff in Hh; destruct Hh as [Hh ?]).
    apply negb_true_iff in H3. rewrite (HL H3 s). exact H.
Qed.

Lemma step_mon3 strict c t e :
  (strict = true -> fixed c = true) ->
  Inv c t -> acc_ok c t e = true -> mon3_ok strict c t e = true.
Proof.
  intros Hfx HI Ha. pose proof HI as [HS HL].
  destruct e as [s r|s ks| | |ws ok snap|s n ks|s n|s|s|s|s fast|s hn]; simpl; try reflexivity.
  - (* ERead *)
    simpl in Ha. repeat (apply andb_true_iff in Ha; destruct Ha as [Ha ?]). apply Nat.ltb_lt in H.
    destruct (eng (src t s)) eqn:He; [simpl|reflexivity]. apply Nat.ltb_lt.
    pose proof (eng_tag_pos _ _ (HS s) He _ _ (i_spos _ _ (HS s))) as Hin.
    destruct (i_eng _ _ (HS s) He) as (_ & _ & _ & Hlr & _).
    assert (spos (src t s) <= lastread (src t s)); [|lia].
    apply Hlr. destruct Hin as [E|Hin]; [left; exact E|right].
    rewrite <- (firstn_skipn (nacked (src t s)) (reads (src t s))). apply in_or_app. left. exact Hin.
  - (* ECommit *)
    pose proof (step_inv c t _ HI Ha) as [HS' _]. simpl in HS'.
    rewrite forallb_forall. intros s _.
    destruct (eng (apply_writes ok (src t) ws s)) eqn:He; [simpl|reflexivity].
    apply (eng_handled _ _ (HS' s) He _ _ (i_spos _ _ (HS' s))).
  - (* EPAck *)
    simpl in Ha. repeat (apply andb_true_iff in Ha; destruct Ha as [Ha ?]).
    apply Nat.leb_le in H0. pose proof (cov_le_att c _ _ (HS s)).
    destruct strict; [|apply Nat.leb_le; lia].
    unfold cov in H0. rewrite (Hfx eq_refl) in H0. rewrite (i_ok_stag _ _ (HS s)) in H0.
    apply andb_true_iff. split; [apply Nat.leb_le; exact H0|].
    destruct (eng (src t s)) eqn:He; [simpl|reflexivity].
    destruct (ack_at (src t s) n) as [ks'|] eqn:Hk; [|discriminate]. apply list_eqb_nat_eq in H. subst ks'.
    rewrite forallb_forall. intros a Hin. apply Nat.leb_le.
    pose proof (i_spos _ _ (HS s)) as Hsp.
    destruct n as [|m]; [discriminate|]. simpl in Hk.
    destruct (eng_ack_pos _ _ (HS s) He _ _ Hk) as (_ & _ & _ & Hle).
    destruct (stag (src t s)) as [|m'] eqn:Est; [lia|]. simpl in Hsp.
    destruct (nth_error (acks (src t s)) m') as [ks'|] eqn:Hk'; [|discriminate]. inversion Hsp as [Esp].
    destruct (Nat.eq_dec m m') as [->|Hne].
    + rewrite Hk in Hk'. inversion Hk'; subst. apply Hle. exact Hin.
    + destruct (eng_ack_pos _ _ (HS s) He _ _ Hk') as (_ & _ & Hlt & _).
      specialize (Hlt m ks ltac:(lia) Hk a Hin). lia.
Qed.

(* ---------- the theorems that decide the properties on an observed log ---------- *)
Lemma runchk_imp c (P Q : tst -> event -> bool) l :
  (forall t e, Inv c t -> P t e = true -> Q t e = true) ->
  (forall t e, Inv c t -> P t e = true -> Inv c (track c t e)) ->
  forall t, Inv c t -> runchk c P t l = true -> runchk c Q t l = true.
Proof.
  intros H1 H2. induction l as [|e l IH]; intros t HI H; [reflexivity|].
  simpl in *. apply andb_true_iff in H. destruct H as [Hp Hr].
  rewrite (H1 _ _ HI Hp). simpl. apply IH; [apply H2; assumption|exact Hr].
Qed.

Theorem accepted_satisfies_Mon_C02 c l :
  fixed c = true -> accepts c l = true -> Mon_C02 true c l = true.
Proof.
  intros Hf H. unfold accepts, Mon_C02 in *.
  eapply runchk_imp; [| |apply inv_init|exact H].
  - intros t e HI Ha. apply step_mon2; auto.
  - intros t e HI Ha. apply step_inv; auto.
Qed.

Theorem accepted_satisfies_weak_Mon_C02 c l :
  accepts c l = true -> Mon_C02 false c l = true.
Proof.
  intros H. unfold accepts, Mon_C02 in *.
  eapply runchk_imp; [| |apply inv_init|exact H].
  - intros t e HI Ha. apply step_mon2; auto. discriminate.
  - intros t e HI Ha. apply step_inv; auto.
Qed.

Theorem accepted_satisfies_Mon_C03 c l obs :
  fixed c = true -> accepts c l = true -> forallb (restart_ok c l) obs = true ->
  Mon_C03 true c l obs = true.
Proof.
  intros Hf H Ho. unfold accepts, Mon_C03 in *. rewrite Ho, andb_true_r.
  eapply runchk_imp; [| |apply inv_init|exact H].
  - intros t e HI Ha. apply step_mon3; auto.
  - intros t e HI Ha. apply step_inv; auto.
Qed.

Theorem accepted_satisfies_weak_Mon_C03 c l obs :
  accepts c l = true -> forallb (restart_ok c l) obs = true -> Mon_C03 false c l obs = true.
Proof.
  intros H Ho. unfold accepts, Mon_C03 in *. rewrite Ho, andb_true_r.
  eapply runchk_imp; [| |apply inv_init|exact H].
  - intros t e HI Ha. apply step_mon3; auto. discriminate.
  - intros t e HI Ha. apply step_inv; auto.
Qed.
