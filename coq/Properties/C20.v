(* C20 - error classification is stable under wrapping: property theorems only.
   Model: Err/Tree.v; proofs: Err/TreeProofs.v.  Theorems with a [check_* T = true] hypothesis are generic
   in the tables; the per-run file out/C20/gen/Ob_*.v instantiates them with the tables regenerated from
   the source tree and discharges the hypothesis by vm_compute. *)
From Verif Require Import Err.Tree Err.TreeProofs.

(* fatal exactly when some node of the tree is a fatal marker *)
Theorem C20_fatal_iff_some_inner_fatal : forall e, is_fatal e = existsb is_fatal_node (nodes e).
Proof. exact fatal_iff_some_inner_fatal. Qed.
Print Assumptions C20_fatal_iff_some_inner_fatal.

(* under every context of Errorf / Join (any siblings) / FatalError / conduiterr.Wrap / WithCode frames:
   fatal iff the inner error was fatal or a frame marks it or joins a fatal sibling *)
Theorem C20_fatal_stable : forall k e, is_fatal (plug k e) = is_fatal e || existsb frame_fatal k.
Proof. exact fatal_stable. Qed.
Print Assumptions C20_fatal_stable.

(* any number n of plain wrappers keeps the code, every sentinel, the gRPC status, fatal-ness, and with
   them everything the model observes (exit code, wire status, API status) and the classification *)
Theorem C20_code_stable_under_plain_wrap : forall n e,
  get_code (wrapn n e) = get_code e /\
  (forall s, is_a s (wrapn n e) = is_a s e) /\
  first_grpc (wrapn n e) = first_grpc e /\
  is_fatal (wrapn n e) = is_fatal e /\
  (forall T, model_obs T (Some (wrapn n e)) = model_obs T (Some e)) /\
  (forall T, classify T (Some (wrapn n e)) = classify T (Some e)).
Proof. exact code_stable_under_plain_wrap. Qed.
Print Assumptions C20_code_stable_under_plain_wrap.

Theorem C20_exit_stable_under_plain_wrap : forall T n e,
  exit_code T (Some (wrapn n e)) = exit_code T (Some e).
Proof. exact exit_stable_under_plain_wrap. Qed.
Print Assumptions C20_exit_stable_under_plain_wrap.

(* conduiterr.Wrap as written: the inner code wins over the code handed to Wrap *)
Theorem C20_wrap_never_shadows_inner_code : forall c' c e,
  get_code e = Some c -> get_code (cwrap_of c' e) = Some c.
Proof. exact wrap_never_shadows_inner_code. Qed.
Print Assumptions C20_wrap_never_shadows_inner_code.

(* ... and through any context without WithCode and without a coded Join member in front *)
Theorem C20_code_survives_context : forall k e c,
  forallb frame_keeps_code k = true -> get_code e = Some c -> get_code (plug k e) = Some c.
Proof. exact code_survives_context. Qed.
Print Assumptions C20_code_survives_context.

(* ToStatus -> FromStatus gives the code back when the local registry agrees on (or does not know) the reason *)
Theorem C20_status_roundtrip : forall T c,
  cat c <> 0 ->
  (lookup (reason c) (t_registry T) = Some (cat c) \/ lookup (reason c) (t_registry T) = None) ->
  from_status T (to_status c) = c.
Proof. exact status_roundtrip. Qed.
Print Assumptions C20_status_roundtrip.

(* for every registered code, over any registry that passes the per-run check *)
Theorem C20_status_roundtrip_registered : forall T,
  check_registry T = true ->
  forall r g, In (r, g) (t_registry T) -> g <> 0 /\ from_status T (to_status (mkCode r g)) = mkCode r g.
Proof. exact status_roundtrip_registered. Qed.
Print Assumptions C20_status_roundtrip_registered.

(* the exit code is a function of the classification tuple only *)
Theorem C20_exit_code_factors : forall T o, exit_code T o = gen_exit T (classify T o).
Proof. exact exit_code_factors. Qed.
Print Assumptions C20_exit_code_factors.

Theorem C20_equal_class_equal_exit : forall T o1 o2,
  classify T o1 = classify T o2 -> exit_code T o1 = exit_code T o2.
Proof. exact equal_class_equal_exit. Qed.
Print Assumptions C20_equal_class_equal_exit.

(* every registered code lands in one of the buckets 1, 2, 3 *)
Theorem C20_exit_total : forall T,
  check_total T = true -> forall r g, In (r, g) (t_registry T) -> In (bucket T g) [1; 2; 3].
Proof. exact exit_total. Qed.
Print Assumptions C20_exit_total.

(* with tables that pass the check, ExitCode is the documented function of the classification *)
Theorem C20_exit_code_documented : forall T,
  check_exit_doc T = true -> forall o, exit_code T o = doc_exit (classify_doc o).
Proof. exact exit_code_documented. Qed.
Print Assumptions C20_exit_code_documented.

Theorem C20_exit_code_survives_api_boundary : forall T k o c,
  check_exit_doc T = true -> get_codeo o = Some c -> c_cancel (classify_doc o) = false ->
  exit_code T (api_err T k o) = exit_code T o.
Proof. exact exit_code_survives_api_boundary. Qed.
Print Assumptions C20_exit_code_survives_api_boundary.

(* the value the real constructors build has the classification its construction denotes
   (FatalError's short cut, Wrap's code inheritance, nil operands, Join dropping nil members) *)
Theorem C20_build_sound : forall T b,
  is_some (build T b) = negb (spec_nil b) /\
  is_fatalo (build T b) = spec_fatal false b /\
  get_codeo (build T b) = spec_code T false b /\
  first_grpco (build T b) = spec_grpc false b /\
  (forall s, s <> 0 -> is_ao s (build T b) = spec_is false s b).
Proof. exact build_sound. Qed.
Print Assumptions C20_build_sound.

(* the model's observations of every case satisfy the property monitor used on the implementation *)
Theorem C20_model_satisfies_monitor : forall T tr n bs,
  check_exit_doc T = true ->
  (tr = true -> forallb no_multiw bs = true) ->
  monitor T tr bs (model_run T n bs) = true.
Proof. exact model_satisfies_monitor. Qed.
Print Assumptions C20_model_satisfies_monitor.

(* FINDING: cerrors.Errorf with two %w (xerrors) loses the operands' classification *)
Theorem C20_multiw_loses_classification_refuted :
  exists T b, spec_code T true b <> get_codeo (build T b) /\ spec_fatal true b <> is_fatalo (build T b).
Proof. exact multiw_loses_classification_refuted. Qed.
Print Assumptions C20_multiw_loses_classification_refuted.

(* ---------- non-vacuity: the hypotheses above are satisfiable, on a small table of the same shape ---------- *)
Definition sample_tables : tables :=
  mkTables [(0, 0); (1, 0); (3, 2); (5, 2); (6, 2); (9, 2); (11, 2); (14, 3); (4, 3); (8, 3); (16, 3); (7, 3);
            (13, 1); (2, 1); (15, 1); (10, 1); (12, 1)] 1 0 3 1 [1] [3; 2]
           [("internal.unknown"%string, 13); ("common.not_found"%string, 5); ("common.unavailable"%string, 14)]
           "internal.unknown"%string [[(10, 3); (11, 5)]; []; []; []] [(8, 12); (9, 3)] 13 24.

Example C20_nonvacuous_checks :
  check_total sample_tables = true /\ check_exit_doc sample_tables = true /\ check_registry sample_tables = true.
Proof. vm_compute. auto. Qed.

Definition nf := mkCode "common.not_found"%string 5.
Definition un := mkCode "common.unavailable"%string 14.

(* a not-found error, made fatal deep inside, joined behind an uncoded error, wrapped by a boundary with
   another code: still not_found, fatal, exit code 2 - and a WithCode frame does change the code *)
Example C20_nonvacuous_context :
  let e := Coded nf (Leaf 0) in
  let k := [FFatal; FWrap; FJoin [Leaf 11] [Coded un (Leaf 0)]; FCWrap un; FWrap] in
  forallb frame_keeps_code k = true /\ get_code (plug k e) = Some nf /\ is_fatal (plug k e) = true /\
  exit_code sample_tables (Some (plug k e)) = 2 /\
  get_code (plug (k ++ [FWithCode un]) e) = Some un /\
  get_code (plug [FJoin [Coded un (Leaf 0)] []] e) = Some un.
Proof. vm_compute. repeat split; reflexivity. Qed.

Example C20_nonvacuous_roundtrip :
  from_status sample_tables (to_status nf) = nf /\
  exit_code sample_tables (api_err sample_tables 0 (Some (Wrap (Coded un (Leaf 0))))) = 3 /\
  monitor sample_tables true [BCWrap un (BJoin [BNil; BFatal (BNew nf)])]
          (model_run sample_tables 3 [BCWrap un (BJoin [BNil; BFatal (BNew nf)])]) = true.
Proof. vm_compute. repeat split; reflexivity. Qed.
