(* C09 - no reply shape crashes or wedges the engine: property theorems only (arch-v2 half; the
   classic engine nodes and the sandbox are in Funnel/V1Proofs.v). *)
From Verif Require Import Funnel.Check Funnel.Findings Funnel.BatchProofs Funnel.LedgerProofs
     Funnel.CondProofs Funnel.DestProofs Funnel.ProcProofs Funnel.Theorems09.

(* ---- processors with a condition: RunnableProcessor.Process ---- *)

(* records whose condition is false stay in their place unchanged, result i of the plugin sits at
   the place of the i-th kept record, missing results are missing at the end - whenever the results
   suffice for every kept record that is followed by a pass-through record (guard) *)
Theorem C09_cond_passthrough_aligned records ks out cap :
  length ks <= length records -> length out <= cap ->
  guard ks (length out) = true -> idx_false ks 0 <> [] ->
  merge records out cap (idx_false ks 0) = Ok (merge_spec records ks out).
Proof. exact (merge_aligned records ks out cap). Qed.
Print Assumptions C09_cond_passthrough_aligned.

(* REFUTED in general on the SHIPPED tree (finding S2): outside of the guard the merge indexes out
   of range.  (The model carries one flag per repair, record fixes; the harness probes which variant
   the tree under test shows.) *)
Theorem C09_no_panic_processor_replies_cond_refuted records ks out cap :
  guard ks (length out) = false -> merge records out cap (idx_false ks 0) = Panic SCondMerge.
Proof. exact (merge_panics records ks out cap). Qed.
Print Assumptions C09_no_panic_processor_replies_cond_refuted.

(* the same for the whole of Process, for every condition pattern (incl. evaluation errors), every
   reply of the plugin and every slice capacity: it returns the aligned merge or, exactly when the
   guard fails, panics *)
Theorem C09_process_cond_spec c p records w r w' :
  process c p records w = (r, w') ->
  p_cond (nth p (c_procs c) (mkProc false [])) = true ->
  let ks := cond_keeps p records in
  let kept := select ks records in
  let e := negb (length ks =? length records) in
  let out0 := fst (plugin_reply p (nth p (c_procs c) (mkProc false [])) (nth p (w_pcalls w) 0) kept) in
  let out := padded (fx_cond_pad (c_fix c)) (length kept) out0 in
  match kept with
  | [] =>
      r = Ok (if length (idx_false ks 0) =? length records then map PSingle records
              else match idx_false ks 0 with
                   | [] => merge_input e []
                   | _ => merge_spec records ks (merge_input e [])
                   end)
      \/ (guard ks (length (merge_input e [])) = false /\ r = Panic SCondMerge)
  | _ :: _ =>
      if length kept <? length out0 then r = Ok [PError EEng]
      else if length (idx_false ks 0) =? length records then r = Ok (map PSingle records)
      else match idx_false ks 0 with
           | [] => r = Ok (merge_input e out)
           | _ => if guard ks (length (merge_input e out))
                  then r = Ok (merge_spec records ks (merge_input e out))
                  else r = Panic SCondMerge
           end
  end.
Proof. exact (process_cond_spec c p records w r w'). Qed.
Print Assumptions C09_process_cond_spec.

(* REPAIRED tree (9c711ed): with the padding, Process does not panic for ANY plugin reply, any
   condition pattern (evaluation errors included), any slice capacity - no guard left *)
Theorem C09_no_panic_processor_replies_cond_repaired c p records w r w' :
  fx_cond_pad (c_fix c) = true -> process c p records w = (r, w') -> forall s, r <> Panic s.
Proof. exact (process_no_panic_repaired c p records w r w'). Qed.
Print Assumptions C09_no_panic_processor_replies_cond_repaired.

(* the concrete witness on the shipped tree: condition true for records 0 and 2 of 4, one
   result for the two kept records; and the same input on the repaired tree *)
Theorem C09_no_panic_processor_replies_refuted :
  exists c, c_fix c = fixes_none /\ wf_source c = true /\ snd (run_case c) = TPanic /\
            snd (run_case (with_fix c fixes_all)) = TOk /\
            acked_keys (fst (run_case (with_fix c fixes_all))) = src_keys c.
Proof.
  exists s2_cfg. split; [reflexivity|]. split; [reflexivity|]. split; [exact s2_panics|].
  destruct s2_repaired as [A [B _]]. split; [exact A|exact B].
Qed.
Print Assumptions C09_no_panic_processor_replies_refuted.

(* ---- ProcessorTask.Do ---- *)

(* for every well-formed batch (pieces of split records, filtered records, nacked runs included)
   whose filterCount is exact, and nIn active records handed to the plugin: a result vector of ANY
   content - single, modified, changed position, filter, error, multi(0), multi(1), multi(n), nil,
   in any mix and order - that is not longer than nIn is marked without a panic.  The two
   hypotheses that matter are exactly the two shapes refuted below: "not longer than nIn" (more
   results than records) and WF (a record without run has a non-nil position). *)
Theorem C09_no_panic_processor_replies fx b h nIn out :
  WF b h -> filterCount b = count_filter (statuses b) -> nIn <= nf (statuses b) -> length out <= nIn ->
  forall s, proc_do fx b h nIn out <> Panic s.
Proof. exact (proc_do_no_panic fx b h nIn out). Qed.
Print Assumptions C09_no_panic_processor_replies.

(* REPAIRED tree (dc704b4): the length hypothesis is gone - a result vector of any length and any
   content is marked, or refused, without a panic *)
Theorem C09_no_panic_processor_replies_repaired fx b h nIn out :
  fx_more fx = true ->
  WF b h -> filterCount b = count_filter (statuses b) -> nIn <= nf (statuses b) ->
  forall s, proc_do fx b h nIn out <> Panic s.
Proof. exact (proc_do_no_panic_repaired fx b h nIn out). Qed.
Print Assumptions C09_no_panic_processor_replies_repaired.

(* two reply shapes that do panic on the shipped tree; on the repaired tree (dc704b4, 873ce43) the
   same inputs end in a refusal with nothing acked *)

Theorem C09_more_results_than_records_refuted :
  exists c, c_fix c = fixes_none /\ wf_source c = true /\ snd (run_case c) = TPanic /\
            c_procs c = [mkProc false [mkReply [KSame; KSame; KFilter] 0 false 0]] /\
            snd (run_case (with_fix c fixes_all)) = TErr false CNone /\
            acked_keys (fst (run_case (with_fix c fixes_all))) = [].
Proof.
  exists more_cfg. split; [reflexivity|]. split; [reflexivity|]. split; [exact more_results_panics|].
  split; [reflexivity|]. exact more_results_repaired.
Qed.
Print Assumptions C09_more_results_than_records_refuted.

Theorem C09_nil_source_position_split_refuted :
  exists c, c_fix c = fixes_none /\ snd (run_case c) = TPanic /\ map rpos (c_recs c) = [None; Some [1]] /\
            run_case (with_fix c fixes_all) = ([], TErr false CEmptyPos).
Proof.
  exists nilpos_cfg. split; [reflexivity|]. split; [exact nil_position_split_panics|].
  split; [reflexivity|exact nil_position_repaired].
Qed.
Print Assumptions C09_nil_source_position_split_refuted.

(* ---- DestinationTask.Do ---- *)

(* whatever the destination replies (empty lists, too many acks, wrong, duplicate, out-of-order
   positions, errors from Write or Ack), DestinationTask.Do does not panic *)
Theorem C09_no_panic_destination_acks c d b wev :
  lens2 b -> filterCount b <= length (records b) -> no_panic_M (dest_do c d b wev).
Proof. exact (dest_do_no_panic c d b wev). Qed.
Print Assumptions C09_no_panic_destination_acks.

(* REFUTED on the shipped tree (finding S3): a refusal-worthy reply - empty ack lists - is not
   refused; the records are acked to the source without any confirmation.  On the repaired tree
   (a135bc8) the same input is refused at the first empty reply and nothing is acked. *)
Theorem C09_refusal_leaves_unacked_refuted :
  exists c, c_fix c = fixes_none /\ wf_source c = true /\ snd (run_case c) = TOk /\ mon09 c (run_case c) = false /\
            run_case (with_fix c fixes_all) = ([EvWrite [([0], [0]); ([1], [1])]; EvDAck []], TErr false CNone).
Proof. exists s3_cfg. split; [reflexivity|]. split; [reflexivity|]. split; [vm_compute; reflexivity|].
  split; [vm_compute; reflexivity|exact s3_repaired]. Qed.
Print Assumptions C09_refusal_leaves_unacked_refuted.

(* REPAIRED tree: refusal_leaves_unacked for DestinationTask.Do - it returns nil only if the acks
   it received, all of them and in order, match the positions of the written records one by one and
   are at least as many; every other reply is refused before any record of the batch is acked *)
Theorem C09_refusal_leaves_unacked_repaired c d ps :
  fx_emptyack (c_fix c) = true ->
  forall n b k w b' all w',
    dest_loop c d b ps k n w = (Ok (b', all), w') ->
    acks_match all (skipn k ps) = true /\ length ps <= k + length all.
Proof. exact (dest_loop_confirmed c d ps). Qed.
Print Assumptions C09_refusal_leaves_unacked_repaired.

(* what does hold for every configuration: the coded refusal of an empty position leaves it
   unacknowledged - no Source.Ack call ever carries an empty position *)
Theorem C09_no_empty_position_acked fuel c :
  Forall (fun k : key => k <> []) (acked_keys (fst (run_case_fuel fuel c))).
Proof. exact (no_empty_position_acked fuel c). Qed.
Print Assumptions C09_no_empty_position_acked.

(* non-vacuity of the guarded alignment theorem: kept, pass, kept, kept with two results *)
Example C09_nonvacuous :
  let r k := mkRec (Some [k]) [k] [] in
  merge [r 0; r 1; r 2; r 3] [PFilter; PNil] 2 (idx_false [true; false; true; true] 0)
  = Ok [PFilter; PSingle (r 1); PNil].
Proof. vm_compute. reflexivity. Qed.

(* ---- classic engine (v1) nodes and the built-in connector sandbox (Funnel/V1.v) ---- *)
From Verif Require Import Funnel.V1 Funnel.V1Proofs.

(* stream.ProcessorNode never panics, whatever the processor returns (any number of results, any
   kinds, nil entries), for every message list and every nack-handler behaviour *)
Theorem C09_v1_processor_no_panic :
  forall (i : nat) (ms : list pmsg), exists o, proc_run i ms = V1Ok o.
Proof. exact v1_processor_no_panic. Qed.
Print Assumptions C09_v1_processor_no_panic.

(* a record is only forwarded with the position of the message it came from (position-change refusal) *)
Theorem C09_v1_position_immutable :
  forall (ms : list pmsg) fw st t, proc_run 0 ms = V1Ok (fw, st, t) ->
    Forall (fun f => exists m, nth_error ms (f_idx f) = Some m /\ f_pos f = pm_pos m) fw.
Proof. exact v1_position_immutable. Qed.
Print Assumptions C09_v1_position_immutable.

(* a refused (nacked) message is never forwarded *)
Theorem C09_v1_nacked_never_forwarded :
  forall (ms : list pmsg) fw st t, proc_run 0 ms = V1Ok (fw, st, t) ->
    Forall (fun f => nth_error st (f_idx f) = Some SOpen) fw.
Proof. exact v1_nacked_never_forwarded. Qed.
Print Assumptions C09_v1_nacked_never_forwarded.

(* REFUTED on the shipped tree (finding S3, classic engine): one message, one EMPTY Ack() reply:
   acks[0] panics in the worker goroutine of stream.DestinationAckerNode *)
Theorem C09_v1_acker_empty_reply_refuted :
  exists (q : list amsg) (script : list areply), acker_run false q script = V1Panic SiteAcks0.
Proof. exact v1_acker_empty_reply_refuted. Qed.
Print Assumptions C09_v1_acker_empty_reply_refuted.

(* under the precise guard - no Ack() reply is an empty list - the node never panics: wrong,
   duplicate, out-of-order positions, too many acks, errors are all refused *)
Theorem C09_v1_acker_no_panic_nonempty :
  forall fx (q : list amsg) (script : list areply),
    Forall (fun r => r <> RAcks []) script -> exists o, acker_run fx q script = V1Ok o.
Proof. exact v1_acker_no_panic_nonempty. Qed.
Print Assumptions C09_v1_acker_no_panic_nonempty.

(* REPAIRED tree (a135bc8): the guard is gone - the node never panics, whatever the destination replies *)
Theorem C09_v1_acker_no_panic_repaired :
  forall (q : list amsg) (script : list areply), exists o, acker_run true q script = V1Ok o.
Proof. exact v1_acker_no_panic_repaired. Qed.
Print Assumptions C09_v1_acker_no_panic_repaired.

(* a message is acked only if the destination sent, in order, a positive ack with its position *)
Theorem C09_v1_acker_acked_confirmed :
  forall fx (q : list amsg) (script : list areply) st t i m,
    acker_run fx q script = V1Ok (st, t) ->
    nth_error q i = Some m -> am_filtered m = false -> nth_error st i = Some SAcked ->
    nth_error (ack_stream script) (unfiltered_before q i) = Some (am_pos m, false).
Proof. exact v1_acker_acked_confirmed. Qed.
Print Assumptions C09_v1_acker_acked_confirmed.

(* the feeding schedule: messages reach the acker node in groups, before or after the Ack() reply
   that covers them, and the queue runs empty in between.  The worker's ack buffer survives the
   idle period, so the schedule changes nothing: same end of Run, same acks and nacks as with all
   messages queued first; only a message never handed over stays open instead of being nacked *)
Theorem C09_v1_acker_schedule_independent :
  forall fx (ph : list (list amsg)) acks script,
    same_run (acker_feed fx ph acks script) (acker_worker fx (concat ph) acks script).
Proof. exact v1_acker_schedule_independent. Qed.
Print Assumptions C09_v1_acker_schedule_independent.

Theorem C09_v1_acker_feed_no_panic_repaired :
  forall (ph : list (list amsg)) (script : list areply), exists o, acker_feed_run true ph script = V1Ok o.
Proof. exact v1_acker_feed_no_panic_repaired. Qed.
Print Assumptions C09_v1_acker_feed_no_panic_repaired.

Theorem C09_v1_acker_feed_acked_confirmed :
  forall fx (ph : list (list amsg)) (script : list areply) st t i m,
    acker_feed_run fx ph script = V1Ok (st, t) ->
    nth_error (concat ph) i = Some m -> am_filtered m = false -> nth_error st i = Some SAcked ->
    nth_error (ack_stream script) (unfiltered_before (concat ph) i) = Some (am_pos m, false).
Proof. exact v1_acker_feed_acked_confirmed. Qed.
Print Assumptions C09_v1_acker_feed_acked_confirmed.

(* no wedge by a legal reply shape: the node is found waiting in Destination.Ack only while the
   destination owes an ack - it sent fewer acks than unfiltered messages were handed to the node *)
Theorem C09_v1_acker_waits_only_if_owed :
  forall fx (ph : list (list amsg)) (script : list areply) st,
    acker_feed_run fx ph script = V1Ok (st, ATErr true) ->
    length (ack_stream script) < delivered_unf (concat ph) st.
Proof. exact v1_acker_waits_only_if_owed. Qed.
Print Assumptions C09_v1_acker_waits_only_if_owed.

(* runSandbox: a panic of a built-in connector call becomes an error, a cancelled context detaches *)
Theorem C09_sandbox_total :
  forall c : scall,
    (sandbox_call c = SWaits <-> sc_block c = BForever /\ sc_cancel c = CNever) /\
    (forall v e, sandbox_call c = SReturns v e ->
       sc_then c = SPanicErr \/ sc_then c = SPanicVal ->
       v = 0 /\ (e = EPanicErr \/ e = EPanicVal \/ e = ECtx)) /\
    (sc_cancel c = CBefore \/ (sc_cancel c = CDuring /\ sc_block c <> BNo) ->
       sandbox_call c = SReturns 0 ECtx).
Proof. exact sandbox_total. Qed.
Print Assumptions C09_sandbox_total.

(* ---- classic engine: stream.ParallelNode (a processor with workers > 1) around ProcessorNode
   workers, malformed replies at any worker, the DLQ accepting or refusing the rejected record
   (Funnel/Par.v: Run / forwarder / coordinator job protocol as a transition system; which
   forwarder takes a job is the scheduler's choice) ---- *)
From Verif Require Import Funnel.Par Funnel.ParProofs.

(* no wedge: a state of the job protocol is at rest (Run has returned and every dispatched job was
   collected by the coordinator: job.Done met job.Wait) or it can move, and every move takes it
   strictly closer to rest - for any number of workers, any messages, any reply shapes, any worker
   deaths, any scheduling *)
Theorem C09_v1_parallel_no_wedge :
  forall w ms s, par_reach w ms s ->
    par_terminal s \/
    exists s', par_step s s' /\ par_reach w ms s' /\ par_measure s' < par_measure s.
Proof. exact par_no_wedge. Qed.
Print Assumptions C09_v1_parallel_no_wedge.

(* ... so rest is reached from every reachable state *)
Theorem C09_v1_parallel_reaches_rest :
  forall w ms n s, par_measure s <= n -> par_reach w ms s ->
    exists s', par_reach w ms s' /\ par_terminal s'.
Proof. exact par_reaches_rest. Qed.
Print Assumptions C09_v1_parallel_reaches_rest.

(* at rest every message handed to the node has exactly one outcome (forwarded once with its own
   position and not nacked, or nacked and not forwarded), a message with a malformed reply was not
   forwarded, a message not handed in has none, and Run returns nil only if it took every message *)
Theorem C09_v1_parallel_every_job_completed :
  forall w ms s, par_reach w ms s -> par_terminal s ->
    par_monitor ms (par_final_obs s) true (par_final_term s) = true.
Proof. exact par_terminal_monitor. Qed.
Print Assumptions C09_v1_parallel_every_job_completed.

(* whatever observation of the real node the acceptor accepts satisfies the monitor *)
Theorem C09_v1_parallel_accepted_ok :
  forall w ms os closed t, par_accept w ms os closed t = true -> par_monitor ms os closed t = true.
Proof. exact par_accept_monitor. Qed.
Print Assumptions C09_v1_parallel_accepted_ok.

(* non-vacuity: two workers, the first message gets two results for one record (its worker dies, the
   DLQ takes the record), the third message is taken by the forwarder of the dead worker *)
Example C09_v1_parallel_nonvacuous :
  let m k r := mkPMsg [k] [k] false NackOk r in
  par_accept 2 [m 1 [VSame; VSame]; m 2 [VSame]; m 3 [VSame]]
    [mkPO true true SNacked 0 [] [] false; mkPO true true SOpen 1 [2] [2] false;
     mkPO true false SNacked 0 [] [] false] true PTOk = true.
Proof. vm_compute. reflexivity. Qed.
