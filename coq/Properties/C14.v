(* C14 - API changes are all-or-nothing and keep memory, store and references consistent:
   property theorems only.  Model: Api/Entities.v Services.v Orch.v (the code), Api/Spec.v (the
   all-or-nothing reference semantics and the list of bad (operation, store operation) sites). *)
From Verif Require Import Api.Invariant Api.SpecWf Api.Refine Api.History Api.Guards Api.Refuted Api.Check Api.MonitorSound
  Api.MonitorComplete Api.Confine.

(* a freshly started server satisfies the invariant, so everything below covers every state
   reachable through the API *)
Theorem C14_empty_wf : wf empty_state.
Proof. exact wf_empty. Qed.
Print Assumptions C14_empty_wf.

(* api_atomic: for every history and every choice of injected store failures outside the bad
   sites, every call has the outcome and full effect of the reference semantics or returns the
   store error with memory and store as they were; and the invariant holds after it *)
Theorem C14_api_atomic : forall s h, wf s -> good_history h ->
  all_calls (fun s o f => call_atomic s o f /\ wf (snd (step f s o))) s h.
Proof. exact history_atomic. Qed.
Print Assumptions C14_api_atomic.

(* without store failures: exactly the reference outcome and effect, for ALL histories *)
Theorem C14_api_atomic_fault_free : forall s h, wf s -> fault_free h ->
  all_calls (fun s o f => fst (step f s o) = fst (spec_step s o)
                          /\ st_equiv (snd (step f s o)) (snd (spec_step s o))) s h.
Proof. exact history_exact. Qed.
Print Assumptions C14_api_atomic_fault_free.

(* reload_eq_mem: a fresh Init from the store gives the in-memory view *)
Theorem C14_reload_eq_mem : forall s h, wf s -> good_history h ->
  let s' := final s h in
  (forall k, lookup k (pm (reload s')) = option_map norm_status (lookup k (pm s')))
  /\ meq (cm (reload s')) (cm s') /\ meq (rm (reload s')) (rm s')
  /\ sameset (names (reload s')) (names s').
Proof. exact reload_eq_mem. Qed.
Print Assumptions C14_reload_eq_mem.

(* refs_exact: pipelines reference exactly their existing connectors/processors and vice versa *)
Theorem C14_refs_exact : forall s h, wf s -> good_history h -> refs_exact (final s h).
Proof. exact refs_exact_after. Qed.
Print Assumptions C14_refs_exact.

(* guards_hold: a call aimed at a resource of a running or config-provisioned pipeline ([target]:
   the pipeline itself, one of its connectors or processors, or a create under it) never succeeds and
   leaves memory and store as they were - for EVERY injected store failure, bad sites included *)
Theorem C14_guards_hold : forall s o f pid pl,
  wf s -> target s o = Some pid -> lookup pid (pm s) = Some pl -> guarded pl = true ->
  fst (step f s o) <> OOk /\ st_equiv (snd (step f s o)) s.
Proof. exact guards_hold. Qed.
Print Assumptions C14_guards_hold.

(* and no call aimed elsewhere touches it: after any call, every running or config-provisioned
   pipeline, its connectors and its processors are exactly as before *)
Theorem C14_guards_frame : forall s o f pid pl,
  wf s -> good_fault o f -> lookup pid (pm s) = Some pl -> guarded pl = true ->
  slice_unchanged pid s (snd (step f s o)).
Proof. exact guards_frame. Qed.
Print Assumptions C14_guards_frame.

(* the sites at which the code is not all-or-nothing (findings; see known_findings.json) *)
Theorem C14_api_atomic_refuted_pipelines_update_set : refuted_at h_pl (PlUpdate 0 2 3) 0.
Proof. exact api_atomic_refuted_pipelines_update_set. Qed.
Print Assumptions C14_api_atomic_refuted_pipelines_update_set.
Theorem C14_api_atomic_refuted_pipelines_updatedlq_set : refuted_at h_pl (PlUpdateDLQ 0 (mkDlq 1 1 5 2)) 0.
Proof. exact api_atomic_refuted_pipelines_updatedlq_set. Qed.
Print Assumptions C14_api_atomic_refuted_pipelines_updatedlq_set.
Theorem C14_api_atomic_refuted_connectors_create_set2 : refuted_at h_pl (CnCreate 1 1 0 1 1) 2.
Proof. exact api_atomic_refuted_connectors_create_set2. Qed.
Print Assumptions C14_api_atomic_refuted_connectors_create_set2.
Theorem C14_api_atomic_refuted_connectors_update_set : refuted_at h_cn (CnUpdate 1 2 2 2) 1.
Proof. exact api_atomic_refuted_connectors_update_set. Qed.
Print Assumptions C14_api_atomic_refuted_connectors_update_set.
Theorem C14_api_atomic_refuted_connectors_update_commit : refuted_at h_cn (CnUpdate 1 2 2 2) 2.
Proof. exact api_atomic_refuted_connectors_update_commit. Qed.
Print Assumptions C14_api_atomic_refuted_connectors_update_commit.
Theorem C14_api_atomic_refuted_connectors_delete_set2 : refuted_at h_cn (CnDelete 1) 2.
Proof. exact api_atomic_refuted_connectors_delete_set2. Qed.
Print Assumptions C14_api_atomic_refuted_connectors_delete_set2.
Theorem C14_api_atomic_refuted_connectors_delete_commit : refuted_at h_cn (CnDelete 1) 3.
Proof. exact api_atomic_refuted_connectors_delete_commit. Qed.
Print Assumptions C14_api_atomic_refuted_connectors_delete_commit.
Theorem C14_api_atomic_refuted_processors_create_set2 : refuted_at h_pl (PrCreate 1 2 0 1 1%Z 0) 2.
Proof. exact api_atomic_refuted_processors_create_set2. Qed.
Print Assumptions C14_api_atomic_refuted_processors_create_set2.
Theorem C14_api_atomic_refuted_processors_update_set : refuted_at h_pr (PrUpdate 1 2 2 2%Z) 1.
Proof. exact api_atomic_refuted_processors_update_set. Qed.
Print Assumptions C14_api_atomic_refuted_processors_update_set.
Theorem C14_api_atomic_refuted_processors_delete_set2 : refuted_at h_pr (PrDelete 1) 2.
Proof. exact api_atomic_refuted_processors_delete_set2. Qed.
Print Assumptions C14_api_atomic_refuted_processors_delete_set2.
Theorem C14_api_atomic_refuted_processors_delete_commit : refuted_at h_pr (PrDelete 1) 3.
Proof. exact api_atomic_refuted_processors_delete_commit. Qed.
Print Assumptions C14_api_atomic_refuted_processors_delete_commit.

(* S8(b): a failed Connectors.Delete drops the connector's position in memory, the store keeps it *)
Theorem C14_api_atomic_refuted_connectors_delete_loses_position :
  let s := set_state 1 7 (final empty_state (nofault h_cn)) in
  wf s
  /\ fst (step (Some 3) s (CnDelete 1)) = OErr EStore
  /\ option_map c_state (lookup 1 (cm s)) = Some 7
  /\ option_map c_state (lookup 1 (cm (snd (step (Some 3) s (CnDelete 1))))) = Some 0
  /\ option_map c_state (lookup 1 (cs (snd (step (Some 3) s (CnDelete 1))))) = Some 7.
Proof. exact api_atomic_refuted_connectors_delete_loses_position. Qed.
Print Assumptions C14_api_atomic_refuted_connectors_delete_loses_position.

(* a failing rollback panics (rollback.R.MustExecute) *)
Theorem C14_api_panic_connectors_delete :
  let s := final empty_state (nofault [PlCreate 1 0; CnCreate 1 1 0 1 1; CnUpdate 1 1 0 1]) in
  wf s /\ fst (step (Some 3) s (CnDelete 1)) = OPanic.
Proof. exact api_panic_connectors_delete. Qed.
Print Assumptions C14_api_panic_connectors_delete.

(* ---------- the executable monitor of the case files IS the property ---------- *)
(* every boolean clause of [monitor_step] is equivalent to its proposition: all-or-nothing against the
   reference semantics ([atomic_ok]: succeeded with the full effect, or failed with memory and store
   as before; a panic is neither), memory = what Init loads ([reload_ok]), exact references
   ([refs_ok]) and untouched guarded resources ([guards_ok]) *)
Theorem C14_monitor_is_property : forall a o out b,
  monitor_step a o out b = true <-> atomic_ok a o out b /\ reload_ok b /\ refs_ok b /\ guards_ok a b.
Proof. exact monitor_step_iff. Qed.
Print Assumptions C14_monitor_is_property.

Theorem C14_monitor_refs_sound : forall s, refs_exact_b s = true -> refs_exact s.
Proof. exact refs_exact_b_sound. Qed.
Print Assumptions C14_monitor_refs_sound.

(* model_satisfies_monitor: for every well-formed state, call and store failure outside the bad
   sites, the monitor accepts the model's observation (in-memory maps + the store as Init loads it) *)
Theorem C14_model_satisfies_monitor : forall s o f, wf s -> good_fault o f ->
  monitor_step (observe s) o (fst (step f s o)) (observe (snd (step f s o))) = true.
Proof. exact model_satisfies_monitor. Qed.
Print Assumptions C14_model_satisfies_monitor.

Theorem C14_history_satisfies_monitor : forall s h, wf s -> good_history h ->
  all_calls (fun s o f => monitor_step (observe s) o (fst (step f s o)) (observe (snd (step f s o))) = true) s h.
Proof. exact history_satisfies_monitor. Qed.
Print Assumptions C14_history_satisfies_monitor.

(* ---------- the damage of the open findings is confined ---------- *)
(* at EVERY store-failure index, the 11 bad sites included: a call that did not succeed leaves the
   store, the running set and (except Pipelines.Update) the name set as they were, and the in-memory
   maps differ from before at most at the call's own resource and its parent ([touched]) *)
Theorem C14_damage_confined : forall s o f, wf s ->
  fst (step f s o) <> OOk -> confined_to (touched s (next s) o) o s (snd (step f s o)).
Proof. exact step_confined. Qed.
Print Assumptions C14_damage_confined.

(* and for the update calls the touched instance keeps everything but the updated fields: e.g. after
   Connectors.Update with any failure, only plugin/name/settings of that connector can differ *)
Theorem C14_connectors_update_confined : forall s f cid plugin name settings c,
  wf s -> lookup cid (cm s) = Some c ->
  exists a b d, lookup cid (cm (snd (step f s (CnUpdate cid plugin name settings)))) = Some (cn_with_cfg c a b d).
Proof. exact connectors_update_confined. Qed.
Print Assumptions C14_connectors_update_confined.
Theorem C14_processors_update_confined : forall s f rid plugin settings workers r,
  wf s -> lookup rid (rm s) = Some r ->
  exists a b d, lookup rid (rm (snd (step f s (PrUpdate rid plugin settings workers)))) = Some (pr_with_cfg r a b d).
Proof. exact processors_update_confined. Qed.
Print Assumptions C14_processors_update_confined.
Theorem C14_pipelines_update_confined : forall s f pid name desc pl,
  wf s -> lookup pid (pm s) = Some pl ->
  exists a b, lookup pid (pm (snd (step f s (PlUpdate pid name desc)))) = Some (pl_with_cfg pl a b).
Proof. exact pipelines_update_confined. Qed.
Print Assumptions C14_pipelines_update_confined.
Theorem C14_pipelines_updatedlq_confined : forall s f pid d pl,
  wf s -> lookup pid (pm s) = Some pl ->
  exists d', lookup pid (pm (snd (step f s (PlUpdateDLQ pid d)))) = Some (pl_with_dlq pl d').
Proof. exact pipelines_updatedlq_confined. Qed.
Print Assumptions C14_pipelines_updatedlq_confined.

(* non-vacuity: a history with a store failure at a good site (the Commit of Connectors.Create):
   the call fails with the store error, the next call succeeds *)
Example C14_nonvacuous :
  good_history [(PlCreate 1 0, None); (CnCreate 1 1 0 1 1, Some 3); (CnCreate 1 1 0 1 1, None)]
  /\ map fst (run empty_state [(PlCreate 1 0, None); (CnCreate 1 1 0 1 1, Some 3); (CnCreate 1 1 0 1 1, None)])
     = [OOk; OErr EStore; OOk].
Proof. split; [repeat constructor|vm_compute; reflexivity]. Qed.
