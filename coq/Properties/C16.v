(* C16 - live apply to a running pipeline never applies a stale plan and leaves a refused or
   failed apply consistent: property theorems only.  [apply fx] is the model of
   provisioning.Service.ApplyPlanLive (Prov/Apply.v); fx = false is the shipped code, fx = true
   the repaired in-place-fallback path. *)
From Verif Require Import Base.CaseCheck Prov.Apply Prov.ApplyCheck Prov.ApplyProofs Prov.ApplyFlow.

(* a plan whose hash is not the hash of the freshly recomputed plan mutates nothing *)
Theorem C16_stale_plan_no_mutation : forall fx i, a_hash_ok i = false -> apply fx i = ([], RStale).
Proof. exact stale_plan_no_mutation. Qed.
Print Assumptions C16_stale_plan_no_mutation.

Theorem C16_mutation_implies_fresh : forall fx i,
  fst (apply fx i) <> [] -> a_hash_ok i = true /\ a_empty i = false.
Proof. exact mutation_implies_fresh. Qed.
Print Assumptions C16_mutation_implies_fresh.

(* a running pipeline (at either sample) is not touched without the operator's authorisation *)
Theorem C16_running_unauthorised_no_mutation : forall fx i,
  a_hash_ok i = true -> a_empty i = false -> running_of i = true -> a_auth i = false ->
  apply fx i = ([], RUnauth).
Proof. exact running_unauthorised_no_mutation. Qed.
Print Assumptions C16_running_unauthorised_no_mutation.

(* whenever an import happens the pipeline is stopped, or the whole diff is applied in place *)
Theorem C16_running_import_only_after_drain : forall fx i pre t ok post,
  fst (apply fx i) = pre ++ EImport t ok :: post ->
  as_running (run_events (init i) pre) = false \/ a_live i = true.
Proof. exact running_import_only_after_drain. Qed.
Print Assumptions C16_running_import_only_after_drain.

(* ... and a running pipeline only gets stopped by a successful StopAndWait *)
Theorem C16_stopped_only_by_drain : forall pre s,
  as_running s = true -> as_running (run_events s pre) = false -> In (EStop true) pre.
Proof. exact stopped_only_by_drain. Qed.
Print Assumptions C16_stopped_only_by_drain.

(* Start is only ever called directly after a committed import of the new config *)
Theorem C16_start_only_after_committed_import : forall fx i,
  start_after_commit None (fst (apply fx i)) = true.
Proof. exact start_only_after_committed_import. Qed.
Print Assumptions C16_start_only_after_committed_import.

(* every refused or failed apply (at most one failure on its way) leaves config and pipeline
   untouched, or the pipeline stopped on a whole stored config: repaired procedure *)
Theorem C16_failed_apply_consistent : forall i,
  is_error (snd (apply true i)) = true -> failures (fst (apply true i)) <= 1 ->
  consistent_after_failure (length (a_swaps i)) (init i) (run_events (init i) (fst (apply true i))) = true.
Proof. exact failed_apply_consistent. Qed.
Print Assumptions C16_failed_apply_consistent.

(* the shipped procedure: on every path but one *)
Theorem C16_failed_apply_consistent_shipped : forall i,
  fallback_stop_shape i = false ->
  is_error (snd (apply false i)) = true -> failures (fst (apply false i)) <= 1 ->
  consistent_after_failure (length (a_swaps i)) (init i) (run_events (init i) (fst (apply false i))) = true.
Proof. exact failed_apply_consistent_shipped. Qed.
Print Assumptions C16_failed_apply_consistent_shipped.

(* ... on that one it is refuted (finding) *)
Theorem C16_failed_apply_consistent_refuted :
  exists i, is_error (snd (apply false i)) = true /\ failures (fst (apply false i)) = 1
            /\ consistent_after_failure (length (a_swaps i)) (init i) (run_events (init i) (fst (apply false i))) = false
            /\ as_running (run_events (init i) (fst (apply false i))) = true
            /\ as_cfg (run_events (init i) (fst (apply false i))) = CNew.
Proof. exact failed_apply_consistent_refuted. Qed.
Print Assumptions C16_failed_apply_consistent_refuted.

(* the monitor the harness evaluates on the observed calls accepts everything the (repaired)
   model does *)
Theorem C16_model_satisfies_monitor : forall i,
  let s := run_events (init i) (fst (apply true i)) in
  mon_dec i (fst (apply true i)) (snd (apply true i)) (as_running s) (cfg_code (as_cfg s)) = true.
Proof. exact model_satisfies_monitor. Qed.
Print Assumptions C16_model_satisfies_monitor.

(* applies to one pipeline id are serialised by the per-pipeline lock *)
Theorem C16_same_id_applies_serialised : forall l1 l2 l3 a b id s',
  lrun (fun _ => None) (l1 ++ LAcquire a id :: l2 ++ LEvent b id :: l3) = Some s' ->
  (forall x, In x l2 -> x <> LRelease a id) ->
  b = a.
Proof. exact same_id_applies_serialised. Qed.
Print Assumptions C16_same_id_applies_serialised.

Theorem C16_same_id_second_acquire_blocks : forall l1 l2 l3 a b id,
  (forall x, In x l2 -> x <> LRelease a id) ->
  lrun (fun _ => None) (l1 ++ LAcquire a id :: l2 ++ LAcquire b id :: l3) = None.
Proof. exact same_id_second_acquire_blocks. Qed.
Print Assumptions C16_same_id_second_acquire_blocks.

(* ---- the end-to-end half: the decision procedure composed with an abstract record flow whose
   behaviour under StopAndWait / Start / import / live swap is ASSUMED to be what C06, C03, C15 and
   C13 conclude (Prov/ApplyFlow.v: C06_conclusion, C03_conclusion, C15_conclusion, C13_conclusion) *)

(* no record is skipped or lost across an apply, whatever its outcome: every record read so far
   stays durable or in flight *)
Theorem C16_apply_no_skip : forall F,
  C06_conclusion F -> C03_conclusion F -> C15_conclusion F -> C13_conclusion F ->
  forall fx i f, fl_running F f = running_of i -> fl_nogap F f -> fl_nogap F (fl_run F f (fst (apply fx i))).
Proof. exact apply_no_skip_composed. Qed.
Print Assumptions C16_apply_no_skip.

(* a restart-class apply to a running pipeline: the import runs on a fully drained pipeline and the
   restarted pipeline continues with the successor of the last record read before *)
Theorem C16_apply_restart_continues : forall F,
  C06_conclusion F -> C03_conclusion F -> C15_conclusion F -> C13_conclusion F ->
  forall fx i f,
  a_hash_ok i = true -> a_empty i = false -> running_of i = true -> a_auth i = true -> a_live i = false ->
  fl_running F f = true -> fl_nogap F f -> snd (apply fx i) = ROk MRestart ->
  let g := fl_run F f (fst (apply fx i)) in
  fst (apply fx i) = [EStop true; EImport CNew true; EStart true]
  /\ fl_drained F (fl_stop F f true)
  /\ fl_running F g = true /\ fl_unacked F g = 0 /\ fl_next F g = S (fl_durable F g)
  /\ fl_next F g = fl_next F (fl_stop F f true) /\ fl_next F f <= fl_next F g.
Proof. exact apply_restart_continues_composed. Qed.
Print Assumptions C16_apply_restart_continues.

(* a refused apply leaves the records flowing as they were *)
Theorem C16_apply_refused_untouched : forall F fx i f,
  (snd (apply fx i) = RStale \/ snd (apply fx i) = RUnauth) -> fl_run F f (fst (apply fx i)) = f.
Proof. exact apply_refused_untouched_composed. Qed.
Print Assumptions C16_apply_refused_untouched.

(* the four assumptions are jointly satisfiable *)
Theorem C16_flow_assumptions_satisfiable :
  C06_conclusion toy_flow /\ C03_conclusion toy_flow /\ C15_conclusion toy_flow /\ C13_conclusion toy_flow.
Proof. exact toy_flow_ok. Qed.
Print Assumptions C16_flow_assumptions_satisfiable.

(* non-vacuity: a running, authorised, not live-eligible apply drains, imports and restarts; a
   live-eligible one with a failing second swap rolls back and is consistent; two applies to
   different ids do interleave in the lock model *)
Example C16_nonvacuous_restart :
  apply false (mkInp true false true true true false true [RcOk] true [true] true true true)
  = ([EStop true; EImport CNew true; EStart true], ROk MRestart).
Proof. vm_compute. reflexivity. Qed.

Example C16_nonvacuous_rollback :
  let i := mkInp true false true true true true true [RcOk; RcErr] true [true] true true true in
  apply false i = ([EImport CNew true; EReconf 0 RcOk; EReconf 1 RcErr; EImport COld true; EReconf 0 RcOk], RErr)
  /\ failures (fst (apply false i)) = 1
  /\ consistent_after_failure 2 (init i) (run_events (init i) (fst (apply false i))) = true.
Proof. vm_compute. repeat split; reflexivity. Qed.

Example C16_nonvacuous_lock :
  (exists s, lrun (fun _ => None) [LAcquire 0 1; LAcquire 1 2; LEvent 1 2; LEvent 0 1; LRelease 0 1; LRelease 1 2] = Some s)
  /\ lrun (fun _ => None) [LAcquire 0 1; LAcquire 1 1] = None.
Proof. split; [eexists; vm_compute; reflexivity|vm_compute; reflexivity]. Qed.
