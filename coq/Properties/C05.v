(* C05 - every destination receives each source's records in read order, once, filtered records
   absent: property theorems only. *)
From Verif Require Import Multi.Trace Multi.TraceProofs Multi.Accept Multi.AcceptProofs
  Multi.SysV2 Multi.SysV2Proofs Stream.SysV1 Stream.SysV1Proofs Stream.Parallel Stream.ParallelW Base.CaseCheck Multi.Check.

Theorem C05_monitor_is_property : forall t log, Mon_C05 t log = true <-> C05_holds t log.
Proof. exact mon05_sound. Qed.
Print Assumptions C05_monitor_is_property.

Theorem C05_accepted_log_safe : forall t log,
  filt_strict t = true -> accepts t log = true -> C05_holds t log.
Proof. intros t log Hs H. apply mon05_sound, accepted_mon05; assumption. Qed.
Print Assumptions C05_accepted_log_safe.

(* finding: v1 with >= 2 destinations when Message.Clone drops the filtered flag *)
Theorem C05_refuted_without_clone_flag :
  exists t log, v2 t = false /\ ckf t = false /\ accepts t log = true /\ Mon_C05 t log = false.
Proof. exact accepted_mon05_refuted_without_ckf. Qed.
Print Assumptions C05_refuted_without_clone_flag.

Theorem dest_order_v2 : forall N M acts, 1 <= M -> C05_holds (topo_v2 N M) (trace N M acts).
Proof. exact SysV2Proofs.dest_order_v2. Qed.
Print Assumptions dest_order_v2.

(* ---------- default (v1) engine ---------- *)
(* holds when the filtered flag survives the fan-out: Message.Clone copies it, or one destination *)
Theorem dest_order_v1 : forall N M ckf acts,
  1 <= M -> keep_of M ckf = true -> C05_holds (topo_v1 N M ckf) (trace_v1 N M ckf acts).
Proof. exact SysV1Proofs.dest_order_v1. Qed.
Print Assumptions dest_order_v1.

(* the finding, on the faithful model of the tree as it is (Clone drops the flag) *)
Theorem dest_order_v1_refuted_without_clone_flag :
  exists acts, Mon_C05 (topo_v1 1 2 false) (trace_v1 1 2 false acts) = false.
Proof. exact SysV1Proofs.dest_order_v1_refuted_without_clone_flag. Qed.
Print Assumptions dest_order_v1_refuted_without_clone_flag.

Theorem C05_parallel_preserves_order : forall acts,
  increasing (forwarded (par_run acts)) /\
  forall j, In j (forwarded (par_run acts)) ->
    j < njobs (par_run acts) /\ outcome_of (par_run acts) j = Some OPass.
Proof. exact parallel_preserves_order. Qed.
Print Assumptions C05_parallel_preserves_order.

(* ---------- ParallelNode with W workers, coordinator wait / send, head-of-line blocking ---------- *)
(* back-pressure: at most W jobs are dispatched and not yet collected, however long the head takes *)
Theorem C05_parallel_inflight_bounded : forall W acts,
  w_n (parw_run W acts) - w_next (parw_run W acts) <= W.
Proof. exact parallel_inflight_bounded. Qed.
Print Assumptions C05_parallel_inflight_bounded.

(* whatever completes (or is dead-lettered) in the middle of the queue while the coordinator is held
   up in its wait or in its send: what it sends on is strictly increasing in dispatch order *)
Theorem C05_parallel_bounded_preserves_order : forall W acts,
  increasing (w_fwd (parw_run W acts)) /\
  forall j, In j (w_fwd (parw_run W acts)) ->
    j < w_n (parw_run W acts) /\ w_outcome (parw_run W acts) j = Some OPass.
Proof. exact parallel_bounded_preserves_order. Qed.
Print Assumptions C05_parallel_bounded_preserves_order.

(* several sources through one parallel processor: each source's records leave in read order *)
Theorem C05_parallel_per_source_order : forall W acts (tag : nat -> nat * nat),
  (forall i j, i < j -> fst (tag i) = fst (tag j) -> snd (tag i) < snd (tag j)) ->
  forall x y a b, x < y ->
    nth_error (w_fwd (parw_run W acts)) x = Some a ->
    nth_error (w_fwd (parw_run W acts)) y = Some b ->
    fst (tag a) = fst (tag b) -> snd (tag a) < snd (tag b).
Proof. exact parallel_per_source_order. Qed.
Print Assumptions C05_parallel_per_source_order.

(* non-vacuity: head job 0 slow, job 1 dead-lettered while the coordinator waits, jobs 2 and 3 pass *)
Example C05_parallel_hol_demo :
  w_fwd (parw_run 4 [WDispatch; WDispatch; WDispatch; WDispatch; WDispatch;
                     WComplete 1 ODone; WComplete 2 OPass; WComplete 3 OPass; WComplete 0 OPass;
                     WWait; WSend true; WWait; WWait; WSend true; WWait; WSend true]) = [0; 2; 3].
Proof. vm_compute. reflexivity. Qed.

(* a coordinator that drains its queue and lets go of settled jobs by swap-remove reorders *)
Theorem C05_swap_remove_coordinator_refuted : exists queue, ~ increasing (swap_remove_order queue).
Proof. exact swap_remove_coordinator_refuted. Qed.
Print Assumptions C05_swap_remove_coordinator_refuted.

(* ---------- large-batch cases (range form of the log) ---------- *)
(* what the check of a range-form case decides: bit 1 of its code is clear exactly when C05 holds of
   the event log the ranges stand for (the acceptor is skipped for these cases: bit 0 is never set) *)
Theorem C05_range_case_decides_property : forall t l,
  chk05 (BCase t l) = 0 <-> C05_holds t (expand l).
Proof.
  intros t l. cbn [chk05]. rewrite <- mon05_sound. unfold code. cbn [negb].
  destruct (Mon_C05 t (expand l)); cbn; split; intros H; try reflexivity; try discriminate.
Qed.
Print Assumptions C05_range_case_decides_property.

(* the range form expands event by event: a write range is exactly its writes, in index order *)
Theorem C05_expand_writes : forall d s f n rest,
  expand (BWrites d s f n :: rest) = map (DestWrite d s) (seq (N.to_nat f) (N.to_nat n)) ++ expand rest.
Proof. reflexivity. Qed.
Print Assumptions C05_expand_writes.
