(* C05 - every destination receives each source's records in read order, once, filtered records
   absent: property theorems only. *)
From Verif Require Import Multi.Trace Multi.TraceProofs Multi.Accept Multi.AcceptProofs
  Multi.SysV2 Multi.SysV2Proofs Stream.SysV1 Stream.SysV1Proofs Stream.Parallel.

Theorem C05_monitor_is_property : forall t log, Mon_C05 t log = true <-> C05_holds t log.
Proof. exact mon05_sound. Qed.
Print Assumptions C05_monitor_is_property.

Theorem C05_accepted_log_safe : forall t log,
  filt_strict t = true -> accepts t log = true -> C05_holds t log.
Proof. intros t log Hs H. apply mon05_sound, accepted_mon05; assumption. Qed.
Print Assumptions C05_accepted_log_safe.

(* finding: v1 with >= 2 destinations when Message.Clone drops the filtered flag *)
Theorem C05_refuted_without_clone_flag :
  exists t log, v2 t = false /\ ckf t = false /\ accepts t log = true /\ Mon_C05 t log = false.
Proof. exact accepted_mon05_refuted_without_ckf. Qed.
Print Assumptions C05_refuted_without_clone_flag.

Theorem dest_order_v2 : forall N M acts, 1 <= M -> C05_holds (topo_v2 N M) (trace N M acts).
Proof. exact SysV2Proofs.dest_order_v2. Qed.
Print Assumptions dest_order_v2.

(* ---------- default (v1) engine ---------- *)
(* holds when the filtered flag survives the fan-out: Message.Clone copies it, or one destination *)
Theorem dest_order_v1 : forall N M ckf acts,
  1 <= M -> keep_of M ckf = true -> C05_holds (topo_v1 N M ckf) (trace_v1 N M ckf acts).
Proof. exact SysV1Proofs.dest_order_v1. Qed.
Print Assumptions dest_order_v1.

(* the finding, on the faithful model of the tree as it is (Clone drops the flag) *)
Theorem dest_order_v1_refuted_without_clone_flag :
  exists acts, Mon_C05 (topo_v1 1 2 false) (trace_v1 1 2 false acts) = false.
Proof. exact SysV1Proofs.dest_order_v1_refuted_without_clone_flag. Qed.
Print Assumptions dest_order_v1_refuted_without_clone_flag.

Theorem C05_parallel_preserves_order : forall acts,
  increasing (forwarded (par_run acts)) /\
  forall j, In j (forwarded (par_run acts)) ->
    j < njobs (par_run acts) /\ outcome_of (par_run acts) j = Some OPass.
Proof. exact parallel_preserves_order. Qed.
Print Assumptions C05_parallel_preserves_order.
