(* C12 - force stop at any instant: property theorems only.
   Models: coq/Stop/ForceStop.v (the forceStopper latch) and coq/Stop/Stop.v (the run of one source
   with the force path: AForce = Kill(FatalError(ErrForceStop)) + per-node ForceStop, ACut = an open
   message nacked on the cancelled context, AAbortSrc = the source ends without draining). *)
From Verif Require Import Stop.Stop Stop.StopProofs Stop.ForceStop Stop.ForceStopProofs.
From Verif Require Stop.Events Stop.Check Stop.CheckProofs Stop.GenStop Stop.GenStopProofs Stop.GenStopSim.
From Verif Require Import Stop.Lifecycle Stop.LifecycleProofs.

Theorem C12_force_latch : forall l, count_start l = 1 -> In FStop l ->
  cancelled (frun l) = true /\ nil_called (frun l) = false.
Proof. exact force_latch. Qed.
Print Assumptions C12_force_latch.

Theorem C12_latch_no_spurious_cancel : forall l, ~ In FStop l -> cancelled (frun l) = false.
Proof. exact latch_no_spurious_cancel. Qed.
Print Assumptions C12_latch_no_spurious_cancel.

Theorem C12_force_stop_acks_only_handled : forall e l s, run (init e) l = Some s ->
  pack s <= stored s /\ stored s <= eack s /\ eack s <= handled s /\ handled s + nacked s <= taken s.
Proof. exact force_stop_acks_only_handled. Qed.
Print Assumptions C12_force_stop_acks_only_handled.

Theorem C12_cancellation_only_nacks : forall s a s', (a = AForce \/ a = ACut \/ a = AAbortSrc \/ a = AErr) ->
  step s a = Some s' ->
  pack s' = pack s /\ dq s' = dq s /\ stored s' = stored s /\ eack s' = eack s /\ handled s' = handled s /\
  taken s' = taken s /\ nacked s <= nacked s'.
Proof. exact cancellation_only_nacks. Qed.
Print Assumptions C12_cancellation_only_nacks.

Theorem C12_force_stop_degrades_no_restart : forall e l s, run (init e) l = Some s -> why s = RFatalForce ->
  restarts s = 0 /\ (status s = PRunning \/ status s = PDegradedForce) /\ ret_ok s = false.
Proof. exact force_stop_degrades_no_restart. Qed.
Print Assumptions C12_force_stop_degrades_no_restart.

Theorem C12_force_first_wins : forall s s' l s'', why s = RNone -> step s AForce = Some s' ->
  run s' l = Some s'' -> why s'' = RFatalForce.
Proof. exact force_first_wins. Qed.
Print Assumptions C12_force_first_wins.

(* progress (partial: the Go scheduler is fair and a blocked plugin call returns once its context is
   cancelled): a force-stopped run ends within a number of steps bounded by the open messages *)
Theorem C12_force_stop_terminates_partial : forall e s, (exists l, run (init e) l = Some s) ->
  killed s = true -> status s = PRunning ->
  exists l s', run s l = Some s' /\ status s' <> PRunning /\ length l <= fvariant s + 1.
Proof. exact force_stop_terminates. Qed.
Print Assumptions C12_force_stop_terminates_partial.

(* ---- the life of a pipeline (Stop/Lifecycle.v): the Teardown calls that end a force-stopped run are made with
   the cancelled connector context and may answer with its error; afterwards the pipeline is started again ---- *)
(* a run that ended - degraded by the force stop, or stopped gracefully - can be started again whatever its Teardown
   calls answered (every connector instance was released); the new run opens the source at the durable position:
   no record without its final outcome is skipped, and no ack the plugin ever received lies beyond it *)
Theorem C12_ended_run_restartable : forall e l x, xrun (xinit e) l = Some x ->
  status (xb x) = PDegradedForce \/ status (xb x) = PUserStopped ->
  exists x', xstep x XRestart = Some x' /\
    status (xb x') = PRunning /\ srcinst x' = true /\ dstinst x' = true /\
    resumed x' = stored (flush (xb x)) /\ taken (xb x') = resumed x' /\ pack (xb x') = resumed x' /\
    resumed x' <= handled (xb x) /\ pack (xb x) <= resumed x'.
Proof. exact ended_run_restartable. Qed.
Print Assumptions C12_ended_run_restartable.

Theorem C12_teardown_answer_irrelevant : forall x a x1 x2,
  xstep x (XStep a false) = Some x1 -> xstep x (XStep a true) = Some x2 ->
  xb x2 = xb x1 /\ srcinst x2 = srcinst x1 /\ dstinst x2 = dstinst x1 /\ tdfails x2 = S (tdfails x1).
Proof. exact teardown_answer_irrelevant. Qed.
Print Assumptions C12_teardown_answer_irrelevant.

(* every run of a life - the first, or one started after a force stop - is a run of Stop.v: the theorems above
   (acks only for handled records, degraded without automatic restart, termination) hold of each of them *)
Theorem C12_life_is_a_run_of_the_stop_protocol : forall e x, (exists l, xrun (xinit e) l = Some x) ->
  exists l, run (init e) l = Some (xb x).
Proof. exact x_projects. Qed.
Print Assumptions C12_life_is_a_run_of_the_stop_protocol.

(* non-vacuity: force stop mid-batch, both Teardown rounds fail on the cancelled context, restart, next record *)
Example C12_nonvacuous_restart :
  exists x, xrun (xinit true)
    [XStep AEmit false; XStep AEmit false; XStep ATake false; XStep ATake false; XStep AHandled false; XStep AEAck false;
     XStep AForce false; XStep ACut false; XStep AAbortSrc true; XStep ADownTear true; XStep ACleanup false;
     XRestart; XStep AEmit false; XStep ATake false] = Some x /\
    status (xb x) = PRunning /\ tdfails x = 2 /\ runs x = 2 /\ resumed x = 1 /\ taken (xb x) = 2 /\ prev_pack x = 0.
Proof. eexists. vm_compute. repeat split. Qed.

(* what acceptance of an observed event log means (the acceptor of coq/Stop/Check.v is prefix closed;
   in an accepted log a plugin ack is preceded by a commit that covers it, commits move forward only
   onto handled records, and a source is reopened at its durable position) *)
Theorem C12_accept_prefix_closed : forall nd l1 l2,
  Check.accept nd (l1 ++ l2) = true -> Check.accept nd l1 = true.
Proof. exact CheckProofs.accept_prefix_closed. Qed.
Print Assumptions C12_accept_prefix_closed.

Theorem C12_accepted_ack_is_durable : forall nd l s k,
  Check.accept nd (l ++ [Events.EPack s k]) = true ->
  k <= Check.lookup s (Check.stored (Check.track nd l)).
Proof. exact CheckProofs.accepted_ack_is_durable. Qed.
Print Assumptions C12_accepted_ack_is_durable.

Theorem C12_accepted_commit_is_safe : forall nd l snap,
  Check.accept nd (l ++ [Events.ECommit snap]) = true ->
  Check.snap_ge snap (Check.stored (Check.track nd l)) = true /\
  forall p, In p snap -> snd p = 0 \/ Check.handled (Check.c_ndst nd) (Check.track nd l) (fst p) (snd p) = true.
Proof. exact CheckProofs.accepted_commit_is_safe. Qed.
Print Assumptions C12_accepted_commit_is_safe.

Theorem C12_accepted_open_resumes_at_durable_position : forall nd l s pos,
  Check.accept nd (l ++ [Events.EOpen (Events.CSrc s) pos]) = true ->
  pos = Check.lookup s (Check.stored (Check.track nd l)).
Proof. exact CheckProofs.accepted_open_resumes_at_durable_position. Qed.
Print Assumptions C12_accepted_open_resumes_at_durable_position.

(* (ii) every accepted log satisfies the ack clause of Mon_C12: no ack for an unhandled record, none out
   of order, none to a torn-down plugin; and the status clause: the first status after a force stop
   that returned nil is the force-stop failure (or "stopped by the user" under a graceful stop) *)
Theorem C12_accepted_log_acks_only_handled : forall c l, Check.accept c l = true ->
  Check.pack_unhandled (Check.track c l) = false /\ Check.pack_disorder (Check.track c l) = false /\
  Check.pack_closed (Check.track c l) = false.
Proof. exact CheckProofs.accepted_log_acks_only_handled. Qed.
Print Assumptions C12_accepted_log_acks_only_handled.

Theorem C12_accepted_status_after_force : forall c l st f,
  Check.accept c (l ++ [Events.EStatus st f]) = true -> Check.fnil (Check.track c l) = true ->
  Check.force_status_ok (Check.graceful (Check.track c l)) st f = true.
Proof. exact CheckProofs.accepted_status_after_force. Qed.
Print Assumptions C12_accepted_status_after_force.

(* (i), protocol half: in the generative model (1 source x M destinations) an ack is emitted only for a
   durable record every destination confirmed, with the plugin up; a commit lies on such a record; after a
   force stop that found the pipeline running the status emitted is degraded with the force-stop error *)
Theorem C12_gen_ack_guard : forall e m s s', GenStopProofs.greach e m s ->
  GenStop.gstep s GenStop.GDeliver = Some s' ->
  GenStop.evs s' = Events.EPack 1 (S (pack (GenStop.base s))) :: GenStop.evs s /\
  S (pack (GenStop.base s)) <= stored (GenStop.base s) /\
  (forall i, i < m -> S (pack (GenStop.base s)) <= nth i (GenStop.cc s) 0) /\
  plugin_up (GenStop.base s) = true.
Proof. exact GenStopProofs.gen_ack_guard. Qed.
Print Assumptions C12_gen_ack_guard.

Theorem C12_gen_commit_guard : forall e m s, GenStopProofs.greach e m s ->
  stored (GenStop.base s) <= eack (GenStop.base s) /\
  forall i, i < m -> eack (GenStop.base s) <= nth i (GenStop.cc s) 0.
Proof. exact GenStopProofs.gen_commit_guard. Qed.
Print Assumptions C12_gen_commit_guard.

Theorem C12_gen_status_after_force : forall e m s1 s2 l s3 s4, GenStopProofs.greach e m s1 ->
  GenStop.gstep s1 GenStop.GForce = Some s2 -> GenStop.grun s2 l = Some s3 ->
  GenStop.gstep s3 GenStop.GCleanup = Some s4 ->
  GenStop.evs s4 = Events.EStatus Events.StDegraded true :: GenStop.evs s3.
Proof. exact GenStopProofs.gen_status_after_force. Qed.
Print Assumptions C12_gen_status_after_force.

(* (i), the simulation (GenStopSim.v), composed with (ii): every trace of the generative model - any
   schedule including force stops at any instant, any number of destinations, both engines - is accepted,
   hence satisfies the log clauses of Mon_C12: no ack for an unhandled record, out of order or to a
   torn-down plugin; every status written after a force stop that returned nil is the demanded one *)
Theorem C12_gen_trace_accepted : forall e m l s, GenStop.grun (GenStop.ginit e m) l = Some s ->
  Check.accept (GenStopSim.cfgof e m) (GenStop.trace s) = true.
Proof. exact GenStopSim.gen_trace_accepted. Qed.
Print Assumptions C12_gen_trace_accepted.

Theorem C12_gen_trace_acks_only_handled : forall e m l s, GenStop.grun (GenStop.ginit e m) l = Some s ->
  let t := Check.track (GenStopSim.cfgof e m) (GenStop.trace s) in
  Check.pack_unhandled t = false /\ Check.pack_disorder t = false /\ Check.pack_closed t = false.
Proof. exact GenStopSim.gen_trace_acks_only_handled. Qed.
Print Assumptions C12_gen_trace_acks_only_handled.

Theorem C12_gen_trace_status_after_force : forall e m l s pre st f rest,
  GenStop.grun (GenStop.ginit e m) l = Some s ->
  GenStop.trace s = pre ++ Events.EStatus st f :: rest ->
  Check.fnil (Check.track (GenStopSim.cfgof e m) pre) = true ->
  Check.force_status_ok (Check.graceful (Check.track (GenStopSim.cfgof e m) pre)) st f = true.
Proof. exact GenStopSim.gen_trace_status_after_force. Qed.
Print Assumptions C12_gen_trace_status_after_force.

Example C12_gen_trace_accepted_v2 :
  match GenStop.grun (GenStop.ginit false 1)
    [GenStop.GEmit; GenStop.GRead; GenStop.GWrite 0; GenStop.GForce; GenStop.GCut; GenStop.GAbortSrc;
     GenStop.GDownTear; GenStop.GCleanup] with
  | Some s => Check.accept (Check.mkC false false 1 1) (GenStop.trace s)
  | None => false
  end = true.
Proof. vm_compute. reflexivity. Qed.

(* non-vacuity: the stop is latched before the node starts; and a run is force-stopped mid-batch *)
Example C12_nonvacuous_latch : cancelled (frun [FStop; FStart]) = true /\ cancelled (frun [FStart; FStop]) = true.
Proof. vm_compute. split; reflexivity. Qed.

Example C12_nonvacuous_force :
  exists s, run (init true)
    [AEmit; AEmit; ATake; ATake; AHandled; AEAck; AForce; ACut; AAbortSrc; ADownTear; ACleanup] = Some s /\
    status s = PDegradedForce /\ restarts s = 0 /\ pack s = 0 /\ eack s = 1 /\ nacked s = 1.
Proof. eexists. vm_compute. repeat split. Qed.
