(* C03 - a crash at any instant loses no record (at-least-once across restart): property theorems
   only.  crash keeps exactly the store; restart opens every source at the stored position
   (Conn/Crash.v).  Every prefix of a run of the model is the run of a prefix of the action list, so
   "for every prefix of every run" is "for every action list". *)
From Verif Require Import Conn.Crash Conn.TraceProofs Conn.ModelProofs Conn.Theorems.

Theorem C03_accepted_log_satisfies_monitor : forall c l obs,
  fixed c = true -> accepts c l = true -> forallb (restart_ok c l) obs = true ->
  Mon_C03 true c l obs = true.
Proof. exact accepted_satisfies_Mon_C03. Qed.
Print Assumptions C03_accepted_log_satisfies_monitor.

Theorem C03_accepted_log_satisfies_weak_monitor : forall c l obs,
  accepts c l = true -> forallb (restart_ok c l) obs = true -> Mon_C03 false c l obs = true.
Proof. exact accepted_satisfies_weak_Mon_C03. Qed.
Print Assumptions C03_accepted_log_satisfies_weak_monitor.

(* at the instant the process dies (after any action list): what the store holds is what the log says;
   no plugin ack went beyond it; under the engine hypothesis every record read up to it was handled *)
Theorem C03_no_skip_on_crash : forall m, 1 <= retries (m_cfg m) ->
  forall acts s,
  let y := run m (init_sys m) acts in
  let l := log_of y in
  let st := crash y in
  st s = (stored_tag (m_cfg m) s l, stored_pos (m_cfg m) s l) /\
  (fixed (m_cfg m) = true -> forall l1 n ks l2, l = l1 ++ EPAck s n ks :: l2 -> n <= fst (st s)) /\
  (engine_in_order (m_cfg m) s l ->
   forall r, In r (ereads s l) -> r <= snd (st s) -> exists ks, In ks (eacks s l) /\ In r ks).
Proof. exact no_skip_on_crash. Qed.
Print Assumptions C03_no_skip_on_crash.

(* the restarted system opens the source at the stored position and reads only records after it *)
Theorem C03_restart_rereads : forall m, 1 <= retries (m_cfg m) ->
  forall st acts' s r, s < nsrc (m_cfg m) ->
  reopened_at m st s = snd (st s) /\
  (In (ERead s r) (run_log (restart_cfg m st) acts') -> snd (st s) < r).
Proof. exact restart_rereads. Qed.
Print Assumptions C03_restart_rereads.

Theorem C03_no_skip_on_crash_refuted :
  let y := run s1_model (init_sys s1_model) s1_schedule in
  crash y 0 = (0, 0) /\ In (EPAck 0 1 [1]) (log_of y) /\ Mon_C03 true s1_cfg (log_of y) [] = false.
Proof. exact no_skip_on_crash_refuted. Qed.
Print Assumptions C03_no_skip_on_crash_refuted.

(* --- non-vacuity: a crash with a read-but-unacked record and an undelivered ack --- *)

Example C03_nonvacuous :
  let y := run nv3_model (init_sys nv3_model) nv3_schedule in
  crash y 0 = (1, 7) /\ epacks 0 (log_of y) = [(1, [6; 7])] /\ ereads 0 (log_of y) = [6; 7; 8; 9] /\
  engine_in_order nv3_cfg 0 (log_of y) /\
  reopened_at nv3_model (crash y) 0 = 7 /\
  Mon_C03 true nv3_cfg (log_of y) [(7, 0, (1, 7))] = true.
Proof. vm_compute. repeat split. Qed.

(* --- restart through the services --- *)
(* pipeline.Service.Init maps a stored "running" (1) to "system-stopped" (2); lifecycle Init starts what
   it finds system-stopped: a pipeline that was running is resumed, a user-stopped (3), degraded (4) or
   recovering (5) one is not *)
Theorem C03_running_resumes :
  pipeline_init 1 = 2 /\ resumes 1 = true /\ resumes 2 = true /\
  resumes 3 = false /\ resumes 4 = false /\ resumes 5 = false /\
  (forall st, resumes st = true <-> st = 1 \/ st = 2).
Proof. exact running_resumes. Qed.
Print Assumptions C03_running_resumes.

(* an observed restart through the real services that the model accepts satisfies the property *)
Theorem C03_full_restart_accepted_satisfies_monitor : forall c l o,
  full_acc c l o = true -> full_mon c l o = true.
Proof. exact full_acc_mon. Qed.
Print Assumptions C03_full_restart_accepted_satisfies_monitor.

(* (run prefix, crash, restart) in one statement *)
Theorem C03_crash_restart_no_record_skipped : forall m, 1 <= retries (m_cfg m) ->
  forall acts stored_status s, s < nsrc (m_cfg m) ->
  let y := run m (init_sys m) acts in
  let l := log_of y in
  let st := crash y in
  match restart_system m st stored_status with
  | None => resumes stored_status = false
  | Some y' =>
      resumes stored_status = true /\
      y' = restart m st /\
      stP (Src y' s) = snd (st s) /\ snd (st s) = stored_pos (m_cfg m) s l /\
      (forall acts' r', In (ERead s r') (log_of (run (restart_cfg m st) y' acts')) -> snd (st s) < r') /\
      (engine_in_order (m_cfg m) s l ->
       forall r, In r (ereads s l) -> (forall ks, In ks (eacks s l) -> ~ In r ks) -> snd (st s) < r) /\
      (fixed (m_cfg m) = true -> forall l1 n ks l2, l = l1 ++ EPAck s n ks :: l2 -> n <= fst (st s))
  end.
Proof. exact crash_restart_no_record_skipped. Qed.
Print Assumptions C03_crash_restart_no_record_skipped.

(* non-vacuity: the crash of C03_nonvacuous with the pipeline stored as running / as user-stopped *)
Example C03_crash_restart_nonvacuous :
  let y := run nv3_model (init_sys nv3_model) nv3_schedule in
  (exists y', restart_system nv3_model (crash y) 1 = Some y' /\ stP (Src y' 0) = 7) /\
  restart_system nv3_model (crash y) 3 = None /\
  full_acc nv3_cfg (log_of y) (mkFO 7 1 2 true 1 [mkFS 0 true 1 7 [8; 9; 10]]) = true /\
  full_mon nv3_cfg (log_of y) (mkFO 7 1 2 true 1 [mkFS 0 true 1 6 [7; 8; 9]]) = false.
Proof. vm_compute. repeat split. eexists. split; reflexivity. Qed.

(* Stop + Teardown with records read beyond the last ack: the store keeps the last acked position *)
Example C03_stop_then_teardown_keeps_acked_position :
  let y := run (mkM stop_cfg 100) (init_sys (mkM stop_cfg 100)) stop_schedule in
  crash y 0 = (1, 2) /\ ereads 0 (log_of y) = [1; 2; 3; 4; 5] /\
  reopened_at (mkM stop_cfg 100) (crash y) 0 = 2 /\
  Mon_C03 true stop_cfg (log_of y) [(length (log_of y), 0, (1, 2))] = true /\
  accepts stop_cfg stop_bad_log = false /\ Mon_C02 true stop_cfg stop_bad_log = false /\
  Mon_C03 true stop_cfg stop_bad_log [] = false /\ Mon_C03 false stop_cfg stop_bad_log [] = false.
Proof. exact stop_then_teardown_keeps_acked_position. Qed.
