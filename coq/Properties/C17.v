(* C17 - stored pipelines, connectors, processors and positions survive restart: property
   theorems only (models: Codec/Base64.v, Codec/JsonStr.v, Codec/StoreCodec.v). *)
From Coq Require Import List NArith ZArith Bool Ascii String.
From Verif Require Import Codec.Base64 Codec.JsonStr Codec.StoreCodec Codec.StoreCodecProofs Codec.Fields.
Import ListNotations.

(* []byte values (positions): base64 std encoding with padding, every byte string *)
Theorem C17_base64_roundtrip : forall bs, Base64.decode (Base64.encode bs) = Some bs.
Proof. exact base64_roundtrip. Qed.
Print Assumptions C17_base64_roundtrip.

(* string literals as goccy/go-json writes and reads them, every Unicode text *)
Theorem C17_jsonstr_roundtrip : forall s, forallb scalar s = true -> unescape (escape s) = Some s.
Proof. exact jsonstr_roundtrip. Qed.
Print Assumptions C17_jsonstr_roundtrip.

(* ... and what happens to a Go string that is not Unicode text: U+FFFD per offending unit *)
Theorem C17_jsonstr_roundtrip_any : forall s, unescape (escape s) = Some (sanitize s).
Proof. exact jsonstr_roundtrip_any. Qed.
Print Assumptions C17_jsonstr_roundtrip_any.

(* RFC 3339 timestamps with nanoseconds and zone offset *)
Theorem C17_time_roundtrip : forall t, time_ok t -> parse_time (fmt_time t) = Some t.
Proof. exact parse_fmt_time. Qed.
Print Assumptions C17_time_roundtrip.

(* every string literal of a document (member names too) written and read again *)
Theorem C17_text_roundtrip : forall j, json_text_ok j = true -> unesc_json (esc_json j) = Some j.
Proof. exact text_roundtrip. Qed.
Print Assumptions C17_text_roundtrip.

(* connector: decode (encode c) = Some (normalise c); normalise only touches a State whose Go type
   does not belong to the connector type *)
Theorem C17_connector_roundtrip : forall c, connector_ok c -> connector_loadable c ->
  dec_connector (enc_connector c) = Some (normalise_connector c).
Proof. exact connector_roundtrip. Qed.
Print Assumptions C17_connector_roundtrip.

(* ... and for every connector the services can store, nothing at all is lost over a restart
   (ID, type, config, settings, pipeline, plugin, processor order, nil vs empty, state with
   binary positions, provisioning, both timestamps, last active config) *)
Theorem C17_connector_preserved : forall c, connector_ok c -> storable_connector c = true ->
  restart_connector c = Some c.
Proof. exact connector_preserved. Qed.
Print Assumptions C17_connector_preserved.

(* pipeline: restart = Init after decode (encode p); only the status is touched *)
Theorem C17_pipeline_roundtrip : forall p, pipeline_ok p -> restart_pipeline p = Some (init_pipeline p).
Proof. exact pipeline_roundtrip. Qed.
Print Assumptions C17_pipeline_roundtrip.

Theorem C17_status_preserved : forall p, pipeline_ok p -> p_status p <> StatusRunning ->
  restart_pipeline p = Some p.
Proof. exact status_preserved. Qed.
Print Assumptions C17_status_preserved.

(* a pipeline stored as running is found with the status both lifecycle services start again,
   every other field unchanged *)
Theorem C17_running_found_again : forall p, pipeline_ok p -> p_status p = StatusRunning ->
  exists p', restart_pipeline p = Some p' /\
             lifecycle_starts (p_status p') = true /\
             p' = mkPipeline (p_id p) (p_config p) (p_error p) (p_created p) (p_updated p) (p_prov p) (p_dlq p)
                    (p_conns p) (p_procs p) StatusSystemStopped.
Proof. exact running_found_again. Qed.
Print Assumptions C17_running_found_again.

Theorem C17_processor_roundtrip : forall r, processor_ok r -> restart_processor r = Some r.
Proof. exact processor_roundtrip. Qed.
Print Assumptions C17_processor_roundtrip.

(* pre-0.4.1 connector records: the migration writes exactly today's document of the same fields *)
Theorem C17_migration_preserves_fields : forall c, connector_ok c -> type_known (c_type c) ->
  migrate_pre041 (enc_pre041 c) = Some (enc_connector (of_pre041 c)).
Proof. exact migration_preserves_fields. Qed.
Print Assumptions C17_migration_preserves_fields.

Theorem C17_migration_loads : forall c, connector_ok c -> storable_connector c = true ->
  load_pre041 (enc_pre041 c) = Some (of_pre041 c).
Proof. exact migration_loads. Qed.
Print Assumptions C17_migration_loads.

(* value level and text level together: what the check's model computes for a case *)
Theorem C17_connector_survives_restart : forall c,
  connector_ok c -> storable_connector c = true -> json_text_ok (enc_connector c) = true ->
  reload_connector c = Some c.
Proof. exact connector_survives_restart. Qed.
Print Assumptions C17_connector_survives_restart.

Theorem C17_pipeline_survives_restart : forall p,
  pipeline_ok p -> json_text_ok (enc_pipeline p) = true -> reload_pipeline p = Some (init_pipeline p).
Proof. exact pipeline_survives_restart. Qed.
Print Assumptions C17_pipeline_survives_restart.

Theorem C17_processor_survives_restart : forall r,
  processor_ok r -> json_text_ok (enc_processor r) = true -> reload_processor r = Some r.
Proof. exact processor_survives_restart. Qed.
Print Assumptions C17_processor_survives_restart.

(* the reflective obligation over the regenerated field facts (instantiated on every run in
   out/C17/gen/FieldsNow.v): structs, json member names, copy literals are what the model assumes *)
Theorem C17_fields_complete : forall spec gen, fields_ok spec gen = true ->
  (forall name fs, In (name, fs) (f_structs spec) ->
     exists gs, lookup name (f_structs gen) = Some gs /\ incl fs gs /\ incl gs fs) /\
  (forall site cs, In (site, cs) (f_copies spec) ->
     exists gs, lookup site (f_copies gen) = Some gs /\ incl cs gs /\ incl gs cs).
Proof. exact fields_complete. Qed.
Print Assumptions C17_fields_complete.

(* ---- non-vacuity: concrete instances that satisfy the hypotheses ---- *)
Local Open Scope N_scope.
Definition t0 := mkTime 2024 2 29 23 59 59 123456700 330%Z.
Definition c0 := mkConnector (k "conn-1") TypeSource
  (mkCConfig [0x1F600; 0x3c; 0] (Some [(k "a", [0x2028]); (k "b", [])])) (k "p") (k "builtin:file")
  (Some [k "x"; k "x"]) (CSource (Some [ascii_of_N 0; ascii_of_N 255; ascii_of_N 254])) 1%Z t0 zero_time
  (mkCConfig [] None).
Definition c1 := mkConnector (k "conn-2") TypeDestination (mkCConfig [] (Some [])) (k "p") [] None
  (CDest (Some [(k "s1", None); (k "s2", Some [])])) 0%Z t0 t0 (mkCConfig [] None).
Definition p0 := mkPipeline (k "pipe") (mkPConfig (k "n") [0x10FFFF]) [] t0 t0 1%Z
  (mkDlq (k "builtin:log") (Some [(k "level", k "warn")]) 1%Z 0%Z) (Some [k "b"; k "a"]) None StatusRunning.
Definition r0 := mkProcessor (k "proc") t0 t0 0%Z (k "js") [0x22; 0x5c] (mkParent (k "pipe") 2%Z)
  (mkRConfig None (-1)%Z).

Lemma c0_ok : connector_ok c0 /\ storable_connector c0 = true /\ json_text_ok (enc_connector c0) = true.
Proof.
  split; [|split; vm_compute; reflexivity].
  repeat split; try exact I; try (vm_compute; reflexivity).
  cbn. repeat constructor.
Qed.
Lemma c1_ok : connector_ok c1 /\ storable_connector c1 = true /\ json_text_ok (enc_connector c1) = true.
Proof.
  split; [|split; vm_compute; reflexivity].
  repeat split; try exact I; try (vm_compute; reflexivity); cbn; repeat constructor.
Qed.
Lemma p0_ok : pipeline_ok p0 /\ p_status p0 = StatusRunning /\ json_text_ok (enc_pipeline p0) = true.
Proof.
  split; [|split; vm_compute; reflexivity].
  repeat split; try (vm_compute; reflexivity). cbn. repeat constructor.
Qed.
Lemma r0_ok : processor_ok r0 /\ json_text_ok (enc_processor r0) = true.
Proof. split; [|vm_compute; reflexivity]. repeat split; try exact I; vm_compute; reflexivity. Qed.

Example C17_nonvacuous_connector : reload_connector c0 = Some c0 /\ reload_connector c1 = Some c1.
Proof.
  split; [destruct c0_ok as [? [? ?]]|destruct c1_ok as [? [? ?]]]; apply C17_connector_survives_restart; assumption.
Qed.
Example C17_nonvacuous_pipeline : exists p', restart_pipeline p0 = Some p' /\ p_status p' = StatusSystemStopped.
Proof.
  destruct p0_ok as [H [Hr _]]. destruct (C17_running_found_again p0 H Hr) as [p' [H1 [_ H3]]].
  exists p'. split; [exact H1|]. rewrite H3. reflexivity.
Qed.
Example C17_nonvacuous_processor : reload_processor r0 = Some r0.
Proof. destruct r0_ok as [? ?]. apply C17_processor_survives_restart; assumption. Qed.
Example C17_nonvacuous_migration : load_pre041 (enc_pre041 c0) = Some (of_pre041 c0).
Proof. destruct c0_ok as [? [? ?]]. apply C17_migration_loads; assumption. Qed.
(* a byte string that is not UTF-8 and a text with an escape of every kind, by evaluation *)
Example C17_nonvacuous_codecs :
  Base64.decode (Base64.encode [ascii_of_N 255; ascii_of_N 0; ascii_of_N 128; ascii_of_N 10]) =
    Some [ascii_of_N 255; ascii_of_N 0; ascii_of_N 128; ascii_of_N 10] /\
  escape [0x22; 0x5c; 10; 8; 0x3c; 0x2028; 0x7f; 0x1F600] =
    [92; 34; 92; 92; 92; 110; 92; 117; 48; 48; 48; 56; 92; 117; 48; 48; 51; 99; 92; 117; 50; 48; 50; 56; 0x7f; 0x1F600].
Proof. split; vm_compute; reflexivity. Qed.
