(* C01 - no source ack before every destination (or the DLQ) confirmed: property theorems only. *)
From Verif Require Import Multi.Trace Multi.TraceProofs Multi.Accept Multi.AcceptProofs
  Multi.Multi Multi.MultiProofs Multi.SysV2 Multi.SysV2Proofs
  Stream.SysV1 Stream.SysV1Proofs Stream.Msg Stream.Fanout.

(* the monitor is the property *)
Theorem C01_monitor_is_property : forall t log, Mon_C01 t log = true <-> C01_holds t log.
Proof. exact mon01_sound. Qed.
Print Assumptions C01_monitor_is_property.

(* every event log the mechanism acceptor accepts satisfies C01 *)
Theorem C01_accepted_log_safe : forall t log, accepts t log = true -> C01_holds t log.
Proof. intros t log H. apply mon01_sound, accepted_mon01, H. Qed.
Print Assumptions C01_accepted_log_safe.

(* multiAckNacker, any interleaving of the branches' votes *)
Theorem C01_multi_unanimous : forall M n vs m o a b i,
  votes_once M vs ->
  mrun (minit M n) vs = (m, o) -> In (PAck a b) o -> a <= i < b ->
  forall br, br < M -> In br (votes_for true i vs).
Proof. exact multi_unanimous. Qed.
Print Assumptions C01_multi_unanimous.

Theorem C01_multi_nack_wins_once : forall M n vs m o i,
  votes_once M vs ->
  mrun (minit M n) vs = (m, o) -> 1 <= ncount i vs ->
  (forall a b, In (PAck a b) o -> ~ (a <= i < b)) /\
  count_occ Nat.eq_dec (covered o) i <= 1 /\
  (i < mrel m -> In (PNack i) o).
Proof. exact multi_nack_wins_once. Qed.
Print Assumptions C01_multi_nack_wins_once.

(* arch-v2 engine: N workers x M destinations behind the shared sink, every schedule *)
Theorem C01_sysv2_trace_accepted : forall N M acts,
  1 <= M -> accepts (topo_v2 N M) (trace N M acts) = true.
Proof. exact sysv2_trace_accepted. Qed.
Print Assumptions C01_sysv2_trace_accepted.

Theorem c01_v2 : forall N M acts, 1 <= M -> C01_holds (topo_v2 N M) (trace N M acts).
Proof. exact SysV2Proofs.c01_v2. Qed.
Print Assumptions c01_v2.

Theorem C01_stop_or_fail_never_acks_v2 : forall N M acts1 acts2 s,
  mode (run N M acts1) s = WDead ->
  length (acks_of s (trace N M (acts1 ++ acts2))) = length (acks_of s (trace N M acts1)).
Proof. exact stop_or_fail_never_acks_v2. Qed.
Print Assumptions C01_stop_or_fail_never_acks_v2.

(* non-vacuity: a v2 schedule (1 source, 2 destinations) with a fan-out, a destination nack that
   is dead-lettered, a filtered record and acks *)
Example C01_v2_nonvacuous :
  trace 1 2
    [ARd 0 3; AGFilt 0 2; AFOpen 0 3;
     AWr 0 0 0; AWr 1 0 0; AWr 0 0 1; AWr 1 0 1;
     ACf 1 true; ACf 0 true; ACf 1 false; ACf 0 true;
     AVote 0 1 true [0]; ARel 0; ARel 0;
     AVote 0 0 true [0; 1; 2]; ARel 0; ARel 0;
     AVote 0 1 false [1]; ARel 0; ADlqCf 0 true; ARel 0;
     AVote 0 1 true [2]; ARel 0; ARel 0; AFClose 0; AUnlock 0; AUnlock 1; ARd 0 1]
  = [Read 0 0; Read 0 1; Read 0 2; Filt None 0 2;
     DestWrite 0 0 0; DestWrite 1 0 0; DestWrite 0 0 1; DestWrite 1 0 1;
     DestConfirm 1 0 0 true; DestConfirm 0 0 0 true; DestConfirm 1 0 1 false; DestConfirm 0 0 1 true;
     EngineAck 0 [0]; DlqWrite 0 1; DlqConfirm 0 1 true; EngineAck 0 [1]; EngineAck 0 [2]; Read 0 3].
Proof. vm_compute. reflexivity. Qed.

(* ---------- default (v1) engine ---------- *)

(* N sources x M destinations, every schedule: the log is accepted, hence satisfies C01 *)
Theorem C01_sysv1_trace_accepted : forall N M ckf acts,
  1 <= M -> accepts (topo_v1 N M ckf) (trace_v1 N M ckf acts) = true.
Proof. exact sysv1_trace_accepted. Qed.
Print Assumptions C01_sysv1_trace_accepted.

Theorem c01_v1 : forall N M ckf acts, 1 <= M -> C01_holds (topo_v1 N M ckf) (trace_v1 N M ckf acts).
Proof. exact SysV1Proofs.c01_v1. Qed.
Print Assumptions c01_v1.

(* FanoutNode: remaining = M - #acked clones; msg.Ack() is never reached on a nacked original *)
Theorem C01_fanout_counter_inv : forall M cs,
  remaining (fo_run M cs) + n_acked (clones (fo_run M cs)) = M /\ fo_panic (fo_run M cs) = false /\
  (orig (fo_run M cs) = MAcked -> n_acked (clones (fo_run M cs)) = M).
Proof. exact fanout_counter_inv. Qed.
Print Assumptions C01_fanout_counter_inv.

Theorem C01_fanout_never_acks_nacked : forall N M ckf acts,
  1 <= M -> bug1 (run1 N M (keep_of M ckf) acts) = false.
Proof. exact fanout_never_acks_nacked. Qed.
Print Assumptions C01_fanout_never_acks_nacked.

Theorem C01_late_ack_after_nack_errors : forall M cs d,
  let f := fo_run M cs in
  orig f = MNacked -> nth_error (clones f) d = Some COpen ->
  snd (fo_call f (FAck d)) = RErrNackedByOther /\ orig (fst (fo_call f (FAck d))) = MNacked.
Proof. exact late_ack_after_nack_errors. Qed.
Print Assumptions C01_late_ack_after_nack_errors.

(* Message: handlers run at most once, in reverse registration order, with one decision *)
Theorem C01_msg_handlers_once_reverse_order : forall cs, ran_ok (do_calls cs).
Proof. exact handlers_once_reverse_order. Qed.
Print Assumptions C01_msg_handlers_once_reverse_order.

Theorem C01_stop_or_fail_never_acks_v1 : forall N M ckf acts1 acts2 s,
  1 <= M ->
  fail1 (run1 N M (keep_of M ckf) acts1) s = true ->
  length (acks_of s (trace_v1 N M ckf (acts1 ++ acts2))) = length (acks_of s (trace_v1 N M ckf acts1)).
Proof. exact stop_or_fail_never_acks_v1. Qed.
Print Assumptions C01_stop_or_fail_never_acks_v1.

(* non-vacuity: a v1 schedule (1 source, 2 destinations) with a destination nack that is
   dead-lettered; a filtered record reaches both destinations because clones lose the flag *)
Example C01_v1_nonvacuous :
  trace_v1 1 2 false
    [VRd 0 3; VGFilt 0 2; VFan 0; VFan 0; VFan 0; VWr 0; VWr 1; VWr 1; VWr 0; VWr 0; VWr 1;
     VCf 1 true; VCf 0 true; VCf 1 false; VCf 0 true; VCf 0 true; VCf 1 true;
     VDAck 1; VDAck 0; VServeAck 0; VDAck 1; VDAck 0; VServeNackW 0; VDlqCf 0 true;
     VDAck 0; VDAck 1; VServeAck 0]
  = [Read 0 0; Read 0 1; Read 0 2; Filt None 0 2;
     DestWrite 0 0 0; DestWrite 1 0 0; DestWrite 1 0 1; DestWrite 0 0 1; DestWrite 0 0 2; DestWrite 1 0 2;
     DestConfirm 1 0 0 true; DestConfirm 0 0 0 true; DestConfirm 1 0 1 false; DestConfirm 0 0 1 true;
     DestConfirm 0 0 2 true; DestConfirm 1 0 2 true;
     EngineAck 0 [0]; DlqWrite 0 1; DlqConfirm 0 1 true; EngineAck 0 [1]; EngineAck 0 [2]].
Proof. vm_compute. reflexivity. Qed.
