(* C08 - funnel record accounting (filter / split / error / short results): property theorems only.
   Vocabulary: Funnel/Batch.v (Batch), Tasks.v (ProcessorTask / DestinationTask), Ledger.v
   (runAckNacker, Worker.Ack/Nack, DLQ), Worker.v (doTaskAttempt over a linear chain), Check.v
   (acked_keys, src_keys, monitors). *)
From Coq Require Import Permutation.
From Verif Require Import Funnel.Check Funnel.Findings Funnel.BatchProofs Funnel.LedgerProofs
     Funnel.TaskProofs Funnel.WorkerProofs Funnel.Theorems08 Funnel.DestProofs Funnel.ProcProofs Funnel.AlignProofs Funnel.FuelProofs Funnel.MonitorProofs Funnel.ComposeProofs.

Theorem C08_batch_wf_preserved b h : WF b h ->
  (forall i j b', batch_ack b i j = Ok b' -> WF b' h) /\
  (forall i j b', batch_retry b i j = Ok b' -> WF b' h) /\
  (forall i j b', batch_filter b i j = Ok b' -> WF b' h) /\
  (forall fx i errs b', batch_nack fx b i errs = Ok b' -> WF b' h) /\
  (forall i recs b', batch_set_records b i recs = Ok b' -> WF b' h) /\
  (forall i recs b' h', batch_split_record b h i recs = Ok (b', h') -> WF b' h') /\
  (forall from to sb, batch_sub b from to = Ok sb -> WF sb h) /\
  (forall fx nIn out b' h', proc_do fx b h nIn out = Ok (b', h') -> WF b' h').
Proof. exact (batch_wf_preserved b h). Qed.
Print Assumptions C08_batch_wf_preserved.

(* PARTIAL (mark_results_aligned): every single marking operation resolves its active-record
   indices exactly - for every pattern of filtered records.  SetRecords(i, recs) (the dichotomic
   findTo search and the stretch-wise copy) puts record j of recs on the (i+j)-th ACTIVE record and
   touches no other record, status, position or run; Filter/Retry/Ack over the active indices
   [k, k+n) change the flag of exactly those active records.
   The composition over the end->start loop of ProcessorTask.Do / DestinationTask.Do ("an
   operation at a higher index never changes which record a lower active index resolves to") is
   false on the shipped tree when a Nack overwrites the Filter flag of a filtered piece (finding
   below); for the repaired tree it is C08_mark_results_aligned_composition* further down. *)
Theorem C08_mark_results_aligned_partial b i recs b' :
  lens2 b -> filterCount b = count_filter (statuses b) -> i + length recs <= nf (statuses b) ->
  batch_set_records b i recs = Ok b' ->
  statuses b' = statuses b /\ positions b' = positions b /\ runs b' = runs b /\
  length (records b') = length (records b) /\
  (forall j x, j < length recs -> nth_error (idx_active (statuses b) 0) (i + j) = Some x ->
               nth_error (records b') x = nth_error recs j) /\
  (forall x, (forall j, j < length recs -> nth_error (idx_active (statuses b) 0) (i + j) <> Some x) ->
             nth_error (records b') x = nth_error (records b) x).
Proof. exact (set_records_aligned b i recs b'). Qed.
Print Assumptions C08_mark_results_aligned_partial.

Theorem C08_mark_flags_aligned_partial a fl n st k st' :
  set_flags st (Some a) fl k n = Ok st' ->
  length st' = length st /\
  (forall x, (forall j, k <= j < k + n -> nth_error a j <> Some x) -> nth_error st' x = nth_error st x) /\
  (forall j x, k <= j < k + n -> nth_error a j = Some x ->
               (forall j', j < j' < k + n -> nth_error a j' <> Some x) ->
               exists s, nth_error st x = Some s /\ nth_error st' x = Some (fl, snd s)).
Proof. exact (set_flags_aligned a fl n st k st'). Qed.
Print Assumptions C08_mark_flags_aligned_partial.

(* mark_results_aligned, THE COMPOSITION (repaired tree: fx_unfilter = true), ProcessorTask.Do.
   The results of a reply are applied from the last to the first, each through an index into the
   records that are active at that moment.  gs = the groups of the results with index in [i, j)
   (any suffix of the reply; every kind of result: single, filter, error with its spreading over a
   split run, multi(0), multi(1), multi(n) with its insertion of n-1 records, nil/retry).  After
   they were applied everything before the i-th active record is as the plugin was given it -
   records and positions identical, every status identical or (not filtered) nacked by a sibling's
   error - filterCount is exact again, and every active index k < i resolves to the same physical
   record, unchanged.  So result k, when its turn comes, is applied to the k-th active record of the
   batch the plugin saw; what one operation does there is the two _partial theorems above. *)
Theorem C08_mark_results_aligned_composition fx gs i j b h b' h' :
  fx_unfilter fx = true -> chain gs i j ->
  WF b h -> filterCount b = count_filter (statuses b) -> j <= nf (statuses b) ->
  mark_groups fx b h (rev gs) = Ok (b', h') ->
  pre_same (cut (statuses b) i) b b' /\
  filterCount b' = count_filter (statuses b') /\
  (forall k x, k < i -> nth_error (idx_active (statuses b) 0) k = Some x ->
     nth_error (idx_active (statuses b') 0) k = Some x /\
     nth_error (records b') x = nth_error (records b) x /\
     nth_error (positions b') x = nth_error (positions b) x /\
     exists s s', nth_error (statuses b) x = Some s /\ nth_error (statuses b') x = Some s' /\ srel s s').
Proof. exact (mark_groups_composed fx gs i j b h b' h'). Qed.
Print Assumptions C08_mark_results_aligned_composition.

(* the same on ProcessorTask.Do itself: cut the groups of the padded reply anywhere; Do = the
   groups right of the cut, then the groups left of it, and the first half leaves every record the
   second half will address where and as it was *)
Theorem C08_mark_results_aligned_composition_proc_do fx b h nIn out b' h' gs_lo gs_hi :
  fx_unfilter fx = true ->
  WF b h -> filterCount b = count_filter (statuses b) -> nIn <= nf (statuses b) -> length out <= nIn ->
  groups (out ++ repeat PNil (nIn - length out)) 0 = gs_lo ++ gs_hi ->
  proc_do fx b h nIn out = Ok (b', h') ->
  exists m b1 h1,
    chain gs_lo 0 m /\ chain gs_hi m nIn /\
    mark_groups fx b h (rev gs_hi) = Ok (b1, h1) /\ mark_groups fx b1 h1 (rev gs_lo) = Ok (b', h') /\
    pre_same (cut (statuses b) m) b b1 /\
    (forall k x, k < m -> nth_error (idx_active (statuses b) 0) k = Some x ->
       nth_error (idx_active (statuses b1) 0) k = Some x /\
       nth_error (records b1) x = nth_error (records b) x /\
       nth_error (positions b1) x = nth_error (positions b) x /\
       exists s s', nth_error (statuses b) x = Some s /\ nth_error (statuses b1) x = Some s' /\ srel s s').
Proof. exact (proc_do_composed fx b h nIn out b' h' gs_lo gs_hi). Qed.
Print Assumptions C08_mark_results_aligned_composition_proc_do.

(* DestinationTask.Do, over ALL the ack chunks of one Do: no record, no position changes, no status
   changes its filter flag (a status is left alone or a not-filtered one is nacked), so the
   active-record indices the chunks are counted in never move between chunks *)
Theorem C08_mark_results_aligned_composition_dest c d ps n :
  fx_unfilter (c_fix c) = true -> forall b ackCount w b' x w',
  filterCount b = count_filter (statuses b) ->
  dest_loop c d b ps ackCount n w = (Ok (b', x), w') ->
  records b' = records b /\ positions b' = positions b /\ Forall2 srel (statuses b) (statuses b') /\
  idx_active (statuses b') 0 = idx_active (statuses b) 0 /\ filterCount b' = count_filter (statuses b').
Proof. exact (dest_loop_composed c d ps n). Qed.
Print Assumptions C08_mark_results_aligned_composition_dest.

(* and within a chunk received after `from` acks, errored ack i nacks the (from+i)-th active record *)
Theorem C08_dest_ack_lands from l b b' :
  filterCount b = count_filter (statuses b) -> dest_mark true b from l = Ok b' ->
  forall i p e x, In (i, (p, Some e)) l -> nth_error (idx_active (statuses b) 0) (from + i) = Some x ->
    exists s', nth_error (statuses b') x = Some s' /\ fst s' = FNack.
Proof. exact (dest_mark_lands from l b b'). Qed.
Print Assumptions C08_dest_ack_lands.

Theorem C08_subbatches_partition st : contiguous (spans st 0 (S (length st))) 0 (length st).
Proof. exact (subbatches_partition st). Qed.
Print Assumptions C08_subbatches_partition.

Theorem C08_ledger_forwards_once c b isAck task ext q w r w' :
  vote c b isAck task w = (r, w') -> Inv b (w_heap w) ext ->
  (isAck = false -> Forall (fun s : status => snd s <> None) (statuses b)) ->
  shape_of b <> [] -> Forall (fun e : option nat * pos => fst e = Some q) (shape_of b) ->
  exists newl rest,
    w_log w' = newl ++ w_log w /\
    Permutation (acks_of newl ++ rest) (if ext q =? 0 then [okey (w_heap w) q] else []) /\
    (r = Ok tt -> rest = []).
Proof. exact (ledger_forwards_once c b isAck task ext q w r w'). Qed.
Print Assumptions C08_ledger_forwards_once.

(* every chain, every condition pattern, every reply script at every stage, every destination and
   DLQ behaviour, every retry bound, every fuel *)
Theorem C08_accounting_exact_positions fuel c :
  Forall (fun r : rec => rpos r <> None) (c_recs c) ->
  exists rest,
    Permutation (acked_keys (fst (run_case_fuel fuel c)) ++ rest) (src_keys c) /\
    (snd (run_case_fuel fuel c) = TOk -> rest = []).
Proof. exact (accounting_exact_positions fuel c). Qed.
Print Assumptions C08_accounting_exact_positions.

Theorem C08_exactly_once fuel c :
  Forall (fun r : rec => rpos r <> None) (c_recs c) -> NoDup (src_keys c) ->
  NoDup (acked_keys (fst (run_case_fuel fuel c))) /\
  (snd (run_case_fuel fuel c) = TOk -> Permutation (acked_keys (fst (run_case_fuel fuel c))) (src_keys c)).
Proof. exact (exactly_once fuel c). Qed.
Print Assumptions C08_exactly_once.

Theorem C08_position_immutable fuel c :
  Forall (fun r : rec => rpos r <> None) (c_recs c) ->
  incl (acked_keys (fst (run_case_fuel fuel c))) (src_keys c).
Proof. exact (position_immutable fuel c). Qed.
Print Assumptions C08_position_immutable.

Theorem C08_retry_terminates maxA maxS :
  (forall sizes count psize pstall,
     Forall (fun s => s = psize) sizes -> maxS <= pstall + length sizes -> pstall < maxS ->
     exists e, retry_chain maxA maxS (Some (count, psize, pstall)) sizes = Refused e /\
               e_fatal e = true /\ e_code e = CRetry) /\
  (forall count psize pstall size,
     size < psize -> 0 < maxS -> count + 1 <= maxA ->
     retry_next maxA maxS (Some (count, psize, pstall)) size = Ok (count + 1, size, 0)).
Proof. exact (retry_terminates maxA maxS). Qed.
Print Assumptions C08_retry_terminates.

(* the link to the runtime monitor: for a well-behaved source the model's pass never violates the
   "acked set" clause (bit 16) of the C08 and C09 monitors *)
Theorem C08_model_acked_set_ok c :
  wf_source c = true -> bit16 (bits08 c (run_case c)) = false /\ bit16 (bits09 c (run_case c)) = false.
Proof. exact (model_acked_set_ok c). Qed.
Print Assumptions C08_model_acked_set_ok.

(* the fuel of the model is not a restriction: with the fuel run_case uses, no pass ever runs out of
   it (so every pass of the model ends in Ok, a coded refusal or a panic) - for every configuration *)
Theorem C08_fuel_suffices c : snd (run_case c) <> TFuel.
Proof. exact (fuel_suffices c). Qed.
Print Assumptions C08_fuel_suffices.

(* REFUTED on the SHIPPED tree (model flags fixes_none; the harness probes which variant the tree
   under test shows): the OUTCOME half of accounting_exact ("acked only after the
   destination confirmed every piece, or the DLQ the record").
   finding S3 (shared with C09/C01): empty ack replies of the destination *)
Theorem C08_accounting_exact_outcome_refuted :
  exists c, c_fix c = fixes_none /\ wf_source c = true /\ snd (run_case c) = TOk /\ mon08 c (run_case c) = false.
Proof. exists s3_cfg. repeat split; vm_compute; reflexivity. Qed.
Print Assumptions C08_accounting_exact_outcome_refuted.

(* REFUTED on the shipped tree (finding, repaired by bd93dd4): a destination nack of a piece whose run holds a
   filtered piece un-filters it and shifts the indices of the later ack chunks; the record the
   destination rejected is acked as delivered *)
Theorem C08_failed_piece_dead_letters_original_refuted :
  exists c, c_fix c = fixes_none /\ wf_source c = true /\ snd (run_case c) = TOk /\ mon08 c (run_case c) = false /\
            c_dest c = mkDest None [[0; 1]; [1]] None [1] [].
Proof. exists unfilter_cfg. repeat split; vm_compute; reflexivity. Qed.
Print Assumptions C08_failed_piece_dead_letters_original_refuted.

(* REPAIRED tree (bd93dd4), the positive form: Batch.Nack - however far it spreads over a split run -
   leaves the set of filtered records exactly as it was, so the active-record indices that the
   following ack chunks (and the remaining results of a processor) resolve against do not move,
   and filterCount stays exact *)
Theorem C08_nack_keeps_filtered_repaired b i errs b' :
  filterCount b = count_filter (statuses b) ->
  batch_nack true b i errs = Ok b' ->
  fpat (statuses b') = fpat (statuses b) /\ idx_active (statuses b') 0 = idx_active (statuses b) 0 /\
  filterCount b' = count_filter (statuses b').
Proof. exact (batch_nack_keeps_filters b i errs b'). Qed.
Print Assumptions C08_nack_keeps_filtered_repaired.

(* REPAIRED tree (a135bc8): DestinationTask.Do returns nil only if the acks it received - all of
   them, in order - match the positions of the written records one by one and are at least as many *)
Theorem C08_destination_ok_means_confirmed_repaired c d ps :
  fx_emptyack (c_fix c) = true ->
  forall n b k w b' all w',
    dest_loop c d b ps k n w = (Ok (b', all), w') ->
    acks_match all (skipn k ps) = true /\ length ps <= k + length all.
Proof. exact (dest_loop_confirmed c d ps). Qed.
Print Assumptions C08_destination_ok_means_confirmed_repaired.

(* the two refutation inputs on the repaired tree: the split record and the rejected record are
   both dead-lettered; with empty ack replies the pass is refused and nothing is acked *)
Theorem C08_findings_repaired :
  (snd (run_case (with_fix unfilter_cfg fixes_all)) = TOk /\
   mon08 (with_fix unfilter_cfg fixes_all) (run_case (with_fix unfilter_cfg fixes_all)) = true /\
   dlq_ids (fst (run_case (with_fix unfilter_cfg fixes_all))) = [[0]; [1]]) /\
  run_case (with_fix s3_cfg fixes_all) = ([EvWrite [([0], [0]); ([1], [1])]; EvDAck []], TErr false CNone).
Proof. split; [exact unfilter_repaired|exact s3_repaired]. Qed.
Print Assumptions C08_findings_repaired.

(* non-vacuity: a pass with a filter, a split, an error and a retry in which every position is
   acked exactly once *)
Example C08_nonvacuous :
  acked_keys (fst (run_case demo_cfg)) = [[0]; [1]; [2]; [3]] /\ snd (run_case demo_cfg) = TOk.
Proof. vm_compute. split; reflexivity. Qed.
