(* C19 - registry install: property theorems only. *)
From Verif Require Import Reg.Path Reg.PathProofs Reg.Extract Reg.ExtractProofs
  Reg.Gate Reg.GateProofs Reg.Steps Reg.Hwm Reg.HwmProofs Reg.AtomicFile.

(* --- archives cannot write outside the private staging directory --- *)

(* For EVERY entry name the guard of ExtractBinary accepts and every clean absolute directory
   d = /ds..., the path the extractor opens, filepath.Join(d, filepath.Clean(name)), is d
   followed by ordinary path elements only (no "..", no empty element, no separator inside):
   lexically d itself (exactly when the cleaned name is ".") or strictly below it. *)
Theorem C19_extract_confined : forall nm d ds,
  clean_abs d ds -> guard nm = true ->
  exists es, Forall real_elem es /\
             fjoin d (clean nm) = Sl :: join (ds ++ es) /\
             (es = [] <-> clean nm = [Dt]).
Proof. exact extract_confined. Qed.
Print Assumptions C19_extract_confined.

(* The guard is exactly the specification "relative, and resolving it element by element
   from the directory never steps above the directory". *)
Theorem C19_guard_iff_never_leaves : forall nm, guard nm = lexically_inside nm.
Proof. exact guard_iff_never_leaves. Qed.
Print Assumptions C19_guard_iff_never_leaves.

(* Whatever the archive (names, types, order, sizes, cut or corrupt streams) and wherever the
   run stops, every node left in the file tree is strictly below the extraction directory. *)
Theorem C19_extract_tree_confined : forall cap es r f,
  xrun cap es = (r, f) -> Forall (fun pn => okpath (fst pn)) f.
Proof. exact extract_tree_confined. Qed.
Print Assumptions C19_extract_tree_confined.

(* ... and never holds more than cap + 1 bytes in all, whatever sizes the headers declare. *)
Theorem C19_extract_size_bounded : forall cap es r f,
  xrun cap es = (r, f) -> (sum_len f <= cap + 1)%N.
Proof. exact extract_size_bounded. Qed.
Print Assumptions C19_extract_size_bounded.

(* An archive holding a symlink or hardlink entry anywhere is never accepted. *)
Theorem C19_links_refused : forall cap es e,
  In e es -> is_link (e_type e) = true -> forall c f, xrun cap es <> (XOk c, f).
Proof. exact links_refused. Qed.
Print Assumptions C19_links_refused.

(* An accepted archive has no link entry, no corrupt header and only names the guard accepts;
   the file handed to the installer is a single ordinary element directly in the directory. *)
Theorem C19_accepted_archive_shape : forall cap es c f,
  xrun cap es = (XOk c, f) ->
  Forall (fun e => is_link (e_type e) = false /\ e_type e <> TCorrupt /\ guard (e_name e) = true) es
  /\ real_elem c.
Proof.
  intros cap es c f H. split;
    [exact (accepted_archive_shape _ _ _ _ H)|exact (candidate_is_one_element _ _ _ _ H)].
Qed.
Print Assumptions C19_accepted_archive_shape.

(* --- the artifact is installed only behind the integrity and trust gates --- *)

(* In the model of the install pipeline, for every combination of step outcomes: if the final
   artifact is written then the staged bytes matched the declared digest, and either the
   configured verifier accepted the artifact as signed, or an unsigned install was requested
   and policy.Decide allowed it. *)
Theorem C19_install_only_after_gates : forall cap s,
  In (EWrite LFinal) (fst (run cap s)) ->
  s_digest_ok s = true /\
  ((s_allow_unsigned s = false /\ s_verifier s = VSigned) \/
   (s_allow_unsigned s = true /\ decide (s_pol s) = true)).
Proof. exact install_only_after_gates'. Qed.
Print Assumptions C19_install_only_after_gates.

(* For every history of installs on one install directory sharing its download cache, in every
   step: the final artifact is written only if the digest matched and the gate of THAT step
   passed - its verifier was called in that step and accepted, or an unsigned install was
   requested and allowed.  A cache hit only skips the download. *)
Theorem C19_history_only_after_gates : forall cap ss c,
  Forall (fun so =>
            In (EWrite LFinal) (fst (snd so)) ->
            s_digest_ok (fst so) = true /\ gate_ok (fst so) = true
            /\ (s_allow_unsigned (fst so) = true \/ In EVerify (fst (snd so))))
         (hist_run cap c ss).
Proof. exact history_only_after_gates. Qed.
Print Assumptions C19_history_only_after_gates.

(* Before the (first) write of the final artifact nothing is written but bookkeeping below
   .registry: locks, the staging directory, the cache, the unsigned-install log. *)
Theorem C19_nothing_outside_staging_before_rename : forall cap s pre post,
  fst (run cap s) = pre ++ EWrite LFinal :: post -> ~ In (EWrite LFinal) pre ->
  Forall bookkeeping pre.
Proof. exact nothing_outside_staging_before_rename. Qed.
Print Assumptions C19_nothing_outside_staging_before_rename.

(* The effects come in the order: gate, then extraction, then the final artifact, then the
   manifest entry, then the audit entry (acceptor [ordered]). *)
Theorem C19_effects_ordered : forall cap s, ordered (fst (run cap s)) = true.
Proof. exact run_ordered. Qed.
Print Assumptions C19_effects_ordered.

(* A failing install leaves no final artifact, except when the failure comes after the rename
   (chmod, manifest write, audit append) - the code has no rollback there. *)
Theorem C19_failure_leaves_no_final : forall cap s,
  snd (run cap s) = RErr -> In (EWrite LFinal) (fst (run cap s)) ->
  s_rename_ok s = true /\ (s_chmod_ok s = false \/ s_manifest_ok s = false \/ s_audit_ok s = false).
Proof. exact failure_leaves_no_final. Qed.
Print Assumptions C19_failure_leaves_no_final.

(* Every run of the model satisfies the monitor that is evaluated on the observed installs. *)
Theorem C19_model_satisfies_install_monitor : forall cap s,
  mon_install s (fst (observe bits0 (fst (run cap s)))) (snd (observe bits0 (fst (run cap s)))) = true.
Proof. exact run_satisfies_monitor. Qed.
Print Assumptions C19_model_satisfies_install_monitor.

(* For EVERY ordered list of steps (with checked / unchecked errors) in which a checked
   corruption step and a checked gate step precede every rename - the condition re-checked on
   the list regenerated from install.go on every run - the same holds. *)
Theorem C19_steps_only_after_gates : forall cap s l,
  gates_guard l = true ->
  In (EWrite LFinal) (run_steps cap s l) -> s_digest_ok s = true /\ gate_ok s = true.
Proof. exact steps_only_after_gates. Qed.
Print Assumptions C19_steps_only_after_gates.

(* Any guard made of exactly the three tests IsAbs / == ".." / HasPrefix "../" on the cleaned
   name (the shape re-checked on extract.go on every run) accepts exactly the names whose
   lexical resolution never leaves the directory. *)
Theorem C19_guard_shape_confines : forall l, atoms_cover l = true ->
  forall nm, negb (atoms_refuse l nm) = lexically_inside nm.
Proof. exact atoms_cover_confines. Qed.
Print Assumptions C19_guard_shape_confines.

(* --- the rollback high-water mark --- *)

(* For every number of concurrent callers of VerifyIndex, every index each of them presents
   (root-signed or accepted on the freshness key only) and EVERY interleaving of the atomic
   steps of their locked critical sections, the recorded mark never decreases. *)
Theorem C19_hwm_monotone : forall ops s0 sched,
  nondecreasing (st_mark s0) (marks true ops (init s0) sched) = true.
Proof. exact hwm_monotone. Qed.
Print Assumptions C19_hwm_monotone.

(* A call succeeds only at its saving step, with signatures acceptable for the content on
   record (root key, or freshness key over unchanged content), for a version not older than
   the mark in force; the mark becomes exactly that version then - for both kinds of
   acceptance - and the content on record changes only for a root-verified call. *)
Theorem C19_hwm_accept_sound : forall ops s0 sched i,
  let sy := exec true ops (init s0) sched in
  let sy' := tstep true ops sy i in
  pcs sy i <> PDone HAccept -> pcs sy' i = PDone HAccept ->
  (mark sy <= h_version (ops i))%Z /\ mark sy' = h_version (ops i)
  /\ sig_ok (st_hash (cur sy)) (ops i) = true /\ h_fresh (ops i) = true
  /\ st_hash (cur sy') = (if h_root (ops i) then Some (h_content (ops i)) else st_hash (cur sy)).
Proof. exact hwm_accept_sound. Qed.
Print Assumptions C19_hwm_accept_sound.

(* An index older than the mark that was read is refused. *)
Theorem C19_hwm_older_refused : forall st o,
  (h_version o < st_mark st)%Z -> exists r, decide_index st o = inl r /\ (r = HRollback \/ r = HIntegrity).
Proof. exact hwm_older_refused. Qed.
Print Assumptions C19_hwm_older_refused.

(* The mark is the maximum accepted version: over any sequential history of calls, and in
   every reachable state of any interleaving of concurrent callers. *)
Theorem C19_hwm_mark_is_max_accepted :
  (forall ops st, st_mark (hfinal st ops) = fold_left Z.max (accepted_versions st ops) (st_mark st))
  /\ (forall ops s0 sched, max_accepted ops (st_mark s0) (exec true ops (init s0) sched)).
Proof. split; [exact hrun_mark_is_max|exact hwm_mark_is_max_accepted]. Qed.
Print Assumptions C19_hwm_mark_is_max_accepted.

(* Sequential calls satisfy the sequential monitor; a batch of concurrent calls whose results
   the acceptor can explain satisfies the batch monitor. *)
Theorem C19_hwm_monitors :
  (forall ops st, seq_monitor (st_mark st) (st_mark st) (st_hash st)
     (combine ops (map (fun rm => (accepted (fst rm), st_mark (snd rm))) (hrun st ops))) = true)
  /\ (forall m0 h0 log mend, batch_explained m0 h0 log mend = true -> batch_monitor m0 h0 log mend = true).
Proof. split; [exact hrun_monitor|exact batch_explained_monitor]. Qed.
Print Assumptions C19_hwm_monitors.

(* --- atomic replacement of the manifest and of the index state --- *)

(* GIVEN that a kill inside rename(2) shows either the old or the new file at the path
   (rename_atomic, the kernel's promise - an assumption, named here): whenever the process
   running atomicfile.WriteFile is killed, between any two operations or inside one, with the
   content written in any number of pieces, the path holds the complete previous content (or
   still nothing) or the complete new content. *)
Theorem C19_atomic_write_old_or_new :
  forall (byte : Type) (rename_mid : option (list byte) -> list byte -> option (list byte) -> Prop),
  (forall old c v, rename_mid old c v -> v = old \/ v = Some c) ->
  forall old new chunks x,
  concat chunks = new ->
  crashes byte rename_mid (write_file byte chunks) (mkA byte old None) x -> old_or_new byte old new x.
Proof. exact atomic_write_old_or_new. Qed.
Print Assumptions C19_atomic_write_old_or_new.

(* non-vacuity *)
Example C19_nonvacuous_guard :
  guard [Ch 97; Sl; Dt; Dt; Sl; Ch 98] = true            (* a/../b *)
  /\ guard [Ch 97; Sl; Dt; Dt; Sl; Dt; Dt; Sl; Ch 98] = false   (* a/../../b *)
  /\ guard [Dt; Dt; Dt] = true                           (* "..." is an ordinary name *)
  /\ guard [Sl; Ch 97] = false.
Proof. vm_compute. repeat split. Qed.

Example C19_nonvacuous_extract :
  xrun 100 [mkE [Ch 98; Ch 105; Ch 110] TReg 3 3 0; mkE [Ch 100; Sl; Ch 108] TReg 2 2 1]
  = (XOk [Ch 98; Ch 105; Ch 110],
     [([[Ch 98; Ch 105; Ch 110]], NFile 0 3); ([[Ch 100]], NDir); ([[Ch 100]; [Ch 108]], NFile 1 2)]).
Proof. vm_compute. reflexivity. Qed.

Example C19_nonvacuous_install :
  let s := mkS true false false true true false (mkPol true false false true false true) true
               true true false true VSigned [mkE [Ch 98] TReg 3 3 0] None true true true true in
  In (EWrite LFinal) (fst (run 100 s)) /\ snd (run 100 s) = ROk.
Proof. vm_compute. split; [|reflexivity]. repeat (try (left; reflexivity); right). Qed.

Example C19_nonvacuous_hwm :
  map (fun rs => (fst rs, st_mark (snd rs)))
      (hrun (mkSt 0 None) [mkH 5 true false 1 true true; mkH 9 false true 1 true true;
                           mkH 7 true false 1 true true; mkH 9 false true 2 true true; mkH 9 false false 1 true true])
  = [(HAccept, 5%Z); (HAccept, 9%Z); (HRollback, 9%Z); (HIntegrity, 9%Z); (HIntegrity, 9%Z)].
Proof. vm_compute. reflexivity. Qed.
