(* C04 - acks reach each source in exactly read order, no gaps, no repeats: property theorems only. *)
From Verif Require Import Multi.Trace Multi.TraceProofs Multi.Accept Multi.AcceptProofs
  Multi.Multi Multi.MultiProofs Multi.SysV2 Multi.SysV2Proofs
  Stream.SysV1 Stream.SysV1Proofs Stream.Parallel Multi.Retry Multi.RetryProofs.

Theorem C04_monitor_is_property : forall t log, Mon_C04 t log = true <-> C04_holds t log.
Proof. exact mon04_sound. Qed.
Print Assumptions C04_monitor_is_property.

Theorem C04_accepted_log_safe : forall t log, accepts t log = true -> C04_holds t log.
Proof. intros t log H. apply mon04_sound, accepted_mon04, H. Qed.
Print Assumptions C04_accepted_log_safe.

(* multiAckNacker: released only grows, never passes a non-terminal slot, and the successful
   parent calls cover exactly the released prefix, in order, each position once *)
Theorem C04_multi_release_prefix : forall M n vs m o,
  mrun (minit M n) vs = (m, o) ->
  mrel m <= n /\
  (forall i, i < mrel m -> nth i (term m) false = true) /\
  covered o = seq 0 (mrel m) /\
  (forall vs1 vs2 m1 o1, vs = vs1 ++ vs2 -> mrun (minit M n) vs1 = (m1, o1) -> mrel m1 <= mrel m).
Proof. exact multi_release_prefix. Qed.
Print Assumptions C04_multi_release_prefix.

Theorem acks_prefix_v2 : forall N M acts, 1 <= M -> C04_holds (topo_v2 N M) (trace N M acts).
Proof. exact SysV2Proofs.acks_prefix_v2. Qed.
Print Assumptions acks_prefix_v2.

(* ---------- default (v1) engine ---------- *)
Theorem acks_prefix_v1 : forall N M ckf acts,
  1 <= M -> C04_holds (topo_v1 N M ckf) (trace_v1 N M ckf acts).
Proof. exact SysV1Proofs.acks_prefix_v1. Qed.
Print Assumptions acks_prefix_v1.

(* SourceAckerNode: acks leave in ticket (= read) order; once it failed nothing is forwarded *)
Theorem C04_acker_ticket_order : forall N M ckf acts s,
  1 <= M ->
  let st := run1 N M (keep_of M ckf) acts in
  acks_of s (trace_v1 N M ckf acts) = seq 0 (length (acks_of s (trace_v1 N M ckf acts))) /\
  length (acks_of s (trace_v1 N M ckf acts)) <= tick st s /\
  (fail1 st s = false -> length (acks_of s (trace_v1 N M ckf acts)) = tick st s) /\
  (forall k, k < tick st s -> mst st s k <> MOpen).
Proof. exact acker_ticket_order. Qed.
Print Assumptions C04_acker_ticket_order.

(* ParallelNode: whatever the completion order of the workers, the coordinator forwards in
   dispatch order *)
Theorem C04_parallel_preserves_order : forall acts,
  increasing (forwarded (par_run acts)) /\
  forall j, In j (forwarded (par_run acts)) ->
    j < njobs (par_run acts) /\ outcome_of (par_run acts) j = Some OPass.
Proof. exact parallel_preserves_order. Qed.
Print Assumptions C04_parallel_preserves_order.

(* ---------- arch-v2: the tainted-batch loop with retry groups (short / holed processor replies) ---------- *)
(* whatever every call of every task of the chain answers and whichever retry bounds are set: a
   pass releases (Worker.Ack / Worker.Nack) a prefix of the batch in batch order, nothing twice,
   nothing skipped - a retried record in front of finished ones included -, and a pass that
   returned nil released the whole batch *)
Theorem C04_retry_releases_in_batch_order : forall e maxA maxS fuel T ids,
  prefix_of (released (fst (pass e maxA maxS AtCursor fuel T ids))) ids /\
  (snd (pass e maxA maxS AtCursor fuel T ids) = true ->
   released (fst (pass e maxA maxS AtCursor fuel T ids)) = ids).
Proof. exact retry_releases_in_batch_order. Qed.
Print Assumptions C04_retry_releases_in_batch_order.

(* every single call is for the run of positions that starts where the previous one ended: the
   atomicity SysV2's linear-path actions ADAck / ADNackW take for granted *)
Theorem C04_retry_releases_contiguous : forall e maxA maxS fuel T a n,
  contig a (map rel_ids (fst (pass e maxA maxS AtCursor fuel T (seq a n)))).
Proof. exact retry_releases_contiguous. Qed.
Print Assumptions C04_retry_releases_contiguous.

(* non-vacuity: filter(p2) -> capped(1 per call) -> destination on p0 p1 p2 p3 *)
Example C04_retry_demo :
  pass demo_env 100 3 AtCursor 20 3 [0; 1; 2; 3] =
  ([Rel true [0]; Rel true [1]; Rel true [2]; Rel true [3]], true).
Proof. exact retry_at_cursor_demo. Qed.

(* running the retry groups after the loop instead of at the cursor breaks the property *)
Theorem C04_deferred_retry_refuted :
  exists e maxA maxS fuel T ids,
    snd (pass e maxA maxS Deferred fuel T ids) = true /\
    ~ prefix_of (released (fst (pass e maxA maxS Deferred fuel T ids))) ids.
Proof. exact deferred_retry_refuted. Qed.
Print Assumptions C04_deferred_retry_refuted.
