(* C15 - importing a pipeline config converges to it, is idempotent, and fails atomically:
   property theorems only.  The model (Prov/Import.v) carries four flags; [shipped] is what the
   code does today, [repaired] copies the processor id slice before removing (S9), exports and
   updates the processor Condition (S10) and puts the connector State back when a connector
   delete is rolled back.  The full statements hold for [repaired]; for [shipped] they are refuted
   by the witnesses below (findings, replayed on the real provisioning.Service by the harness). *)
From Coq Require Import String.
From Verif Require Import Base.CaseCheck Prov.Import Prov.Check Prov.ImportProofs Prov.ImportCells Prov.ImportExport
  Prov.ImportBuild Prov.ImportKeys Prov.ImportThms Prov.ImportMonitor Prov.ImportRefuted Prov.Fields.

(* converges: from any state an import can start from (no pipeline yet, or a pipeline whose
   export is a valid config), importing a valid config succeeds and the export is that config *)
Theorem C15_import_converges : forall s new, wf repaired s -> valid new = true ->
  exists s' t, import repaired s new None = (s', OOk, None, t) /\ export repaired s' = EOk new.
Proof. exact import_converges_export. Qed.
Print Assumptions C15_import_converges.

(* idempotent: importing it again has nothing to do *)
Theorem C15_import_idempotent : forall s new, valid new = true -> export repaired s = EOk new ->
  plan repaired s new = Some [].
Proof. exact import_idempotent. Qed.
Print Assumptions C15_import_idempotent.

(* any chain of valid configs converges to the last *)
Theorem C15_import_chain : forall l s c, wf repaired s -> forallb valid (l ++ [c]) = true ->
  exists s', chain s (l ++ [c]) = (s', true) /\ export repaired s' = EOk c.
Proof. exact import_chain. Qed.
Print Assumptions C15_import_chain.

(* fails atomically: for every failing store write (every action index, every write inside the
   action) and for every invalid config, a failed import leaves the export - and the State of every
   connector of the old config - as it was *)
Theorem C15_import_fails_atomically : forall s new f s2 f2 t,
  wf repaired s -> nodup_cfg new -> (valid new = true \/ f = None) ->
  import repaired s new f = (s2, OFailed, f2, t) ->
  export repaired s2 = export repaired s
  /\ (forall c x, find_conn c (old_conns (old_of (export repaired s))) = Some x -> conn_state s2 c = conn_state s c).
Proof. exact import_fails_atomically. Qed.
Print Assumptions C15_import_fails_atomically.

(* position kept: a connector with the same id and type before and after keeps its State *)
Theorem C15_position_kept : forall s new, wf repaired s -> valid new = true ->
  forall xo xn, find_conn (c_id xn) (old_conns (old_of (export repaired s))) = Some xo ->
    In xn (pl_conns new) -> c_src xo = c_src xn ->
    conn_state (fst (fst (fst (import repaired s new None)))) (c_id xn) = conn_state s (c_id xn).
Proof. exact position_kept. Qed.
Print Assumptions C15_position_kept.

(* the link to the harness: the property monitor evaluated on what the real code did
   (Prov/Check.v: converges, stored conditions, idempotent, positions kept, fails atomically,
   nothing left over) accepts every run of the repaired model - one step from any reachable state,
   also with an invalid config, and every chain of valid configs with any injected store failure *)
Theorem C15_step_satisfies_monitor : forall s x,
  inv s -> nodup_cfg (st_cfg x) ->
  mon_step (export repaired s) x (snd (run_step repaired s x)) = true
  /\ (valid (st_cfg x) = true ->
        inv (fst (run_step repaired s x))
        /\ o_export (snd (run_step repaired s x)) = export repaired (fst (run_step repaired s x))).
Proof. exact step_satisfies_monitor. Qed.
Print Assumptions C15_step_satisfies_monitor.

Theorem C15_repaired_model_satisfies_monitor : forall steps,
  (forall x, In x steps -> valid (st_cfg x) = true) ->
  mon_chain ENone steps (run_chain repaired empty_st steps) = true.
Proof. exact repaired_model_satisfies_monitor. Qed.
Print Assumptions C15_repaired_model_satisfies_monitor.

(* the shipped code: refuted *)
Theorem C15_import_converges_refuted_S9 :
  exists s new, wf shipped s /\ valid new = true /\ out_of (import shipped s new None) = OFailed.
Proof. exact import_converges_refuted_S9. Qed.
Print Assumptions C15_import_converges_refuted_S9.

Theorem C15_import_converges_refuted_S10 :
  exists new, valid new = true /\ out_of (import shipped empty_st new None) = OOk
              /\ export shipped (st_of (import shipped empty_st new None)) <> EOk new.
Proof. exact import_converges_refuted_S10. Qed.
Print Assumptions C15_import_converges_refuted_S10.

Theorem C15_import_idempotent_refuted_S10 :
  exists new, valid new = true /\ out_of (import shipped empty_st new None) = OOk
              /\ plan shipped (st_of (import shipped empty_st new None)) new <> Some [].
Proof. exact import_idempotent_refuted_S10. Qed.
Print Assumptions C15_import_idempotent_refuted_S10.

Theorem C15_changed_condition_not_stored_refuted :
  exists s new, wf shipped s /\ valid new = true /\ out_of (import shipped s new None) = OOk
                /\ option_map ri_cond (s_procs (st_of (import shipped s new None)) (None, 1)) <> Some 2.
Proof. exact changed_condition_not_stored_refuted. Qed.
Print Assumptions C15_changed_condition_not_stored_refuted.

Theorem C15_position_lost_on_rollback_refuted :
  exists s new, wf shipped s /\ out_of (import shipped s new None) = OFailed
                /\ export shipped (st_of (import shipped s new None)) = export shipped s
                /\ conn_state s 1 = Some 7 /\ conn_state (st_of (import shipped s new None)) 1 = None.
Proof. exact position_lost_on_rollback_refuted. Qed.
Print Assumptions C15_position_lost_on_rollback_refuted.

(* the field tables regenerated from the source on every run: when the reflective check accepts
   them every config field is exported, created and updated (or immutable / ignored), the only
   tolerated gap being the processor Condition of the shipped variant *)
Theorem C15_fields_ok_sound : forall t, fields_ok t = true ->
  (forall f, In f (t_processor_fields t) ->
     (In f (t_exp_processor t) \/ (f = "Condition"%string /\ gen_exp_cond t = false))
     /\ In f (t_create_processor t)
     /\ (In f (t_update_processor t) \/ (f = "Condition"%string /\ gen_upd_cond t = false)))
  /\ (forall f, In f (t_connector_fields t) ->
        In f (t_exp_connector t) /\ In f (t_create_connector t)
        /\ (In f (t_update_connector t) \/ In f (t_connector_immutable t)))
  /\ (forall f, In f (t_pipeline_fields t) ->
        In f (t_exp_pipeline t)
        /\ (In f (t_pipeline_ignored t)
            \/ (In f ("DLQ"%string :: t_create_pipeline t) /\ In f ("DLQ"%string :: t_update_pipeline t)))).
Proof. exact fields_ok_sound. Qed.
Print Assumptions C15_fields_ok_sound.

(* non-vacuity: the S9 and S10 shapes are valid configs from well-formed states, and in the
   repaired model the very same imports converge; a failing write in the middle of an import that
   deletes a connector is rolled back with the State kept *)
Example C15_nonvacuous_repaired :
  (let s := st_of (import repaired empty_st w9_old None) in
   wf repaired s /\ valid w9_new = true /\ out_of (import repaired s w9_new None) = OOk
   /\ export repaired (st_of (import repaired s w9_new None)) = EOk w9_new)
  /\ (valid w10_a = true /\ export repaired (st_of (import repaired empty_st w10_a None)) = EOk w10_a
      /\ plan repaired (st_of (import repaired empty_st w10_a None)) w10_a = Some [])
  /\ (let s := set (st_of (import repaired empty_st wst_old None)) (KC 1) (CC (Some (mkCI true 1 1 0 [] (Some 7)))) in
      out_of (import repaired s wst_new None) = OFailed
      /\ export repaired (st_of (import repaired s wst_new None)) = export repaired s
      /\ conn_state (st_of (import repaired s wst_new None)) 1 = Some 7).
Proof.
  split; [|split].
  - split; [right; exists w9_old; split; vm_compute; reflexivity|]. vm_compute. repeat split; reflexivity.
  - vm_compute. repeat split; reflexivity.
  - vm_compute. repeat split; reflexivity.
Qed.
