(* C15 - importing a pipeline config converges to it, is idempotent, and fails atomically:
   property theorems only.  The model (Prov/Import.v) carries four flags; [shipped] is what the
   code does today, [repaired] copies the processor id slice before removing (S9), exports and
   updates the processor Condition (S10) and puts the connector State back when a connector
   delete is rolled back.  The full statements hold for [repaired]; for [shipped] they are refuted
   by the witnesses below (findings, replayed on the real provisioning.Service by the harness). *)
From Coq Require Import String.
From Verif Require Import Base.CaseCheck Prov.Import Prov.Check Prov.ImportProofs Prov.ImportCells Prov.ImportExport
  Prov.ImportBuild Prov.ImportKeys Prov.ImportThms Prov.ImportMonitor Prov.ImportRefuted Prov.Fields
  Prov.Init Prov.InitProofs.

(* converges: from any state an import can start from (no pipeline yet, or a pipeline whose
   export is a valid config), importing a valid config succeeds and the export is that config *)
Theorem C15_import_converges : forall s new, wf repaired s -> valid new = true ->
  exists s' t, import repaired s new None = (s', OOk, None, t) /\ export repaired s' = EOk new.
Proof. exact import_converges_export. Qed.
Print Assumptions C15_import_converges.

(* idempotent: importing it again has nothing to do *)
Theorem C15_import_idempotent : forall s new, valid new = true -> export repaired s = EOk new ->
  plan repaired s new = Some [].
Proof. exact import_idempotent. Qed.
Print Assumptions C15_import_idempotent.

(* any chain of valid configs converges to the last *)
Theorem C15_import_chain : forall l s c, wf repaired s -> forallb valid (l ++ [c]) = true ->
  exists s', chain s (l ++ [c]) = (s', true) /\ export repaired s' = EOk c.
Proof. exact import_chain. Qed.
Print Assumptions C15_import_chain.

(* fails atomically: for every failing store write (every action index, every write inside the
   action) and for every invalid config, a failed import leaves the export - and the State of every
   connector of the old config - as it was *)
Theorem C15_import_fails_atomically : forall s new f s2 f2 t,
  wf repaired s -> nodup_cfg new -> (valid new = true \/ f = None) ->
  import repaired s new f = (s2, OFailed, f2, t) ->
  export repaired s2 = export repaired s
  /\ (forall c x, find_conn c (old_conns (old_of (export repaired s))) = Some x -> conn_state s2 c = conn_state s c).
Proof. exact import_fails_atomically. Qed.
Print Assumptions C15_import_fails_atomically.

(* position kept: a connector with the same id and type before and after keeps its State *)
Theorem C15_position_kept : forall s new, wf repaired s -> valid new = true ->
  forall xo xn, find_conn (c_id xn) (old_conns (old_of (export repaired s))) = Some xo ->
    In xn (pl_conns new) -> c_src xo = c_src xn ->
    conn_state (fst (fst (fst (import repaired s new None)))) (c_id xn) = conn_state s (c_id xn).
Proof. exact position_kept. Qed.
Print Assumptions C15_position_kept.

(* the link to the harness: the property monitor evaluated on what the real code did
   (Prov/Check.v: converges, stored conditions, idempotent, positions kept, fails atomically,
   nothing left over) accepts every run of the repaired model - one step from any reachable state,
   also with an invalid config, and every chain of valid configs with any injected store failure *)
Theorem C15_step_satisfies_monitor : forall s x,
  inv s -> nodup_cfg (st_cfg x) ->
  mon_step (export repaired s) x (snd (run_step repaired s x)) = true
  /\ (valid (st_cfg x) = true ->
        inv (fst (run_step repaired s x))
        /\ o_export (snd (run_step repaired s x)) = export repaired (fst (run_step repaired s x))).
Proof. exact step_satisfies_monitor. Qed.
Print Assumptions C15_step_satisfies_monitor.

Theorem C15_repaired_model_satisfies_monitor : forall steps,
  (forall x, In x steps -> valid (st_cfg x) = true) ->
  mon_chain ENone steps (run_chain repaired empty_st steps) = true.
Proof. exact repaired_model_satisfies_monitor. Qed.
Print Assumptions C15_repaired_model_satisfies_monitor.

(* the shipped code: refuted *)
Theorem C15_import_converges_refuted_S9 :
  exists s new, wf shipped s /\ valid new = true /\ out_of (import shipped s new None) = OFailed.
Proof. exact import_converges_refuted_S9. Qed.
Print Assumptions C15_import_converges_refuted_S9.

Theorem C15_import_converges_refuted_S10 :
  exists new, valid new = true /\ out_of (import shipped empty_st new None) = OOk
              /\ export shipped (st_of (import shipped empty_st new None)) <> EOk new.
Proof. exact import_converges_refuted_S10. Qed.
Print Assumptions C15_import_converges_refuted_S10.

Theorem C15_import_idempotent_refuted_S10 :
  exists new, valid new = true /\ out_of (import shipped empty_st new None) = OOk
              /\ plan shipped (st_of (import shipped empty_st new None)) new <> Some [].
Proof. exact import_idempotent_refuted_S10. Qed.
Print Assumptions C15_import_idempotent_refuted_S10.

Theorem C15_changed_condition_not_stored_refuted :
  exists s new, wf shipped s /\ valid new = true /\ out_of (import shipped s new None) = OOk
                /\ option_map ri_cond (s_procs (st_of (import shipped s new None)) (None, 1)) <> Some 2.
Proof. exact changed_condition_not_stored_refuted. Qed.
Print Assumptions C15_changed_condition_not_stored_refuted.

Theorem C15_position_lost_on_rollback_refuted :
  exists s new, wf shipped s /\ out_of (import shipped s new None) = OFailed
                /\ export shipped (st_of (import shipped s new None)) = export shipped s
                /\ conn_state s 1 = Some 7 /\ conn_state (st_of (import shipped s new None)) 1 = None.
Proof. exact position_lost_on_rollback_refuted. Qed.
Print Assumptions C15_position_lost_on_rollback_refuted.

(* the field tables regenerated from the source on every run: when the reflective check accepts
   them every config field is exported, created and updated (or immutable / ignored), the only
   tolerated gap being the processor Condition of the shipped variant *)
Theorem C15_fields_ok_sound : forall t, fields_ok t = true ->
  (forall f, In f (t_processor_fields t) ->
     (In f (t_exp_processor t) \/ (f = "Condition"%string /\ gen_exp_cond t = false))
     /\ In f (t_create_processor t)
     /\ (In f (t_update_processor t) \/ (f = "Condition"%string /\ gen_upd_cond t = false)))
  /\ (forall f, In f (t_connector_fields t) ->
        In f (t_exp_connector t) /\ In f (t_create_connector t)
        /\ (In f (t_update_connector t) \/ In f (t_connector_immutable t)))
  /\ (forall f, In f (t_pipeline_fields t) ->
        In f (t_exp_pipeline t)
        /\ (In f (t_pipeline_ignored t)
            \/ (In f ("DLQ"%string :: t_create_pipeline t) /\ In f ("DLQ"%string :: t_update_pipeline t)))).
Proof. exact fields_ok_sound. Qed.
Print Assumptions C15_fields_ok_sound.

(* non-vacuity: the S9 and S10 shapes are valid configs from well-formed states, and in the
   repaired model the very same imports converge; a failing write in the middle of an import that
   deletes a connector is rolled back with the State kept *)
Example C15_nonvacuous_repaired :
  (let s := st_of (import repaired empty_st w9_old None) in
   wf repaired s /\ valid w9_new = true /\ out_of (import repaired s w9_new None) = OOk
   /\ export repaired (st_of (import repaired s w9_new None)) = EOk w9_new)
  /\ (valid w10_a = true /\ export repaired (st_of (import repaired empty_st w10_a None)) = EOk w10_a
      /\ plan repaired (st_of (import repaired empty_st w10_a None)) w10_a = Some [])
  /\ (let s := set (st_of (import repaired empty_st wst_old None)) (KC 1) (CC (Some (mkCI true 1 1 0 [] (Some 7)))) in
      out_of (import repaired s wst_new None) = OFailed
      /\ export repaired (st_of (import repaired s wst_new None)) = export repaired s
      /\ conn_state (st_of (import repaired s wst_new None)) 1 = Some 7).
Proof.
  split; [|split].
  - split; [right; exists w9_old; split; vm_compute; reflexivity|]. vm_compute. repeat split; reflexivity.
  - vm_compute. repeat split; reflexivity.
  - vm_compute. repeat split; reflexivity.
Qed.

(* ---------------------------------------------------------------- the directory path: Service.Init
   (Prov/Init.v: duplicate / API filters, keep-list, provisioning loop over the single-pipeline
   import model, deleteOldPipelines; a world maps a pipeline id to that pipeline's state) *)

(* deleteOldPipelines is handed exactly the config-provisioned pipelines whose config vanished from
   the directory: for every variant of the import code, every directory, every injected failure *)
Theorem C15_init_sweeps_exactly_vanished : forall fl w dir id,
  swept (keep_ids w dir) (fst (provision_all fl w (todo w dir))) id = vanished w dir id.
Proof. exact swept_iff_vanished. Qed.
Print Assumptions C15_init_sweeps_exactly_vanished.

(* the world after Init, pipeline by pipeline: a vanished pipeline is what Delete leaves of it,
   every other pipeline is what the provisioning loop left of it (never handed to Delete) *)
Theorem C15_init_deletes_exactly_vanished : forall fl w dir id,
  fst (init fl w dir) id =
  if vanished w dir id then mkW (fst (fst (delete_pl fl (w_st (w id))))) true
  else fst (provision_all fl w (todo w dir)) id.
Proof. exact init_deletes_exactly_vanished. Qed.
Print Assumptions C15_init_deletes_exactly_vanished.

(* per-pipeline isolation: a pipeline that is neither listed nor vanished is untouched *)
Theorem C15_init_leaves_others : forall fl w dir id, ~ In id (ids_of dir) -> vanished w dir id = false ->
  fst (init fl w dir) id = w id.
Proof. exact init_leaves_others. Qed.
Print Assumptions C15_init_leaves_others.

(* a listed pipeline whose import fails inside Init (rejected by validation, refused by a service
   half way, or one store write fails) is - after rollback AND sweep - exactly what it was: same
   export, every connector State, same provisioning tag *)
Theorem C15_init_retains_failed : forall w dir e,
  In e (todo w dir) ->
  wf repaired (w_st (w (de_id e))) -> nodup_cfg (de_cfg e) ->
  (valid (de_cfg e) = true \/ de_fault e = None) ->
  snd (fst (provision1 repaired (w (de_id e)) e)) = false ->
  let x := w (de_id e) in
  let x' := fst (init repaired w dir) (de_id e) in
  export repaired (w_st x') = export repaired (w_st x)
  /\ (forall c k, find_conn c (old_conns (old_of (export repaired (w_st x)))) = Some k ->
        conn_state (w_st x') c = conn_state (w_st x) c)
  /\ (has_pl (w_st x) = true -> w_cfg x' = w_cfg x).
Proof. exact init_retains_failed. Qed.
Print Assumptions C15_init_retains_failed.

(* a clean directory (valid configs, no id twice, none owned by the API, no store failure)
   converges every listed pipeline to its config ... *)
Theorem C15_init_converges_listed : forall w dir e, clean_dir w dir -> In e dir ->
  let x' := fst (init repaired w dir) (de_id e) in
  export repaired (w_st x') = EOk (de_cfg e) /\ w_cfg x' = true.
Proof. exact init_converges_listed. Qed.
Print Assumptions C15_init_converges_listed.

(* ... and a restart with the same directory does nothing to them: no store write, same state.
   (partial: the statement covers the listed pipelines; that a vanished pipeline stays deleted on
   restart needs "Delete of an exported pipeline removes it", which is checked by the differential
   and the monitor on the real code but not proved about [delete_pl]) *)
Theorem C15_init_idempotent_listed_partial : forall w dir e, clean_dir w dir -> In e dir ->
  let w1 := fst (init repaired w dir) in
  fst (init repaired w1 dir) (de_id e) = w1 (de_id e)
  /\ snd (provision1 repaired (w1 (de_id e)) e) = []
  /\ snd (fst (provision1 repaired (w1 (de_id e)) e)) = true.
Proof. exact init_idempotent_listed. Qed.
Print Assumptions C15_init_idempotent_listed_partial.

(* non-vacuity: two pipelines provisioned from a directory, a position stored for the first, then
   its config is edited into one with an unknown processor plugin while the second config
   vanishes: Init reports an error, the first pipeline exports what it exported with its position,
   the second is gone *)
Example C15_init_nonvacuous :
  In (mkD 1 wi_a2 None false) (todo wi_w1 wi_dir2)
  /\ wf repaired (w_st (wi_w1 1)) /\ snd (fst (provision1 repaired (wi_w1 1) (mkD 1 wi_a2 None false))) = false
  /\ snd (init repaired wi_w1 wi_dir2) = true
  /\ export repaired (w_st (fst (init repaired wi_w1 wi_dir2) 1)) = EOk wi_a1
  /\ conn_state (w_st (fst (init repaired wi_w1 wi_dir2) 1)) 1 = Some 7
  /\ vanished wi_w1 wi_dir2 2 = true
  /\ export repaired (w_st (fst (init repaired wi_w1 wi_dir2) 2)) = ENone.
Proof.
  split; [vm_compute; left; reflexivity|].
  split; [right; exists wi_a1; split; vm_compute; reflexivity|].
  vm_compute. repeat split; reflexivity.
Qed.
