(* C06 - graceful stop drains: property theorems only.
   Model: coq/Stop/Stop.v, the stop protocols of both engines for one source connector as an
   interleaving transition system ([init true] = v1, [init false] = v2); [run (init e) l] ranges
   over every schedule of plugin answers, store flushes, engine steps and the instant of the stop. *)
From Verif Require Import Stop.Stop Stop.StopProofs.
From Verif Require Stop.Events Stop.Check Stop.CheckProofs Stop.GenStop Stop.GenStopProofs Stop.GenStopSim.
From Verif Require Import Stop.Lifecycle Stop.LifecycleProofs.
From Verif Require Stop.ShutdownTrace.

Theorem C06_graceful_stop_drains_v1 : forall l s, run (init true) l = Some s -> ret_ok s = true ->
  pack s = stored s /\ stored s = eack s /\ eack s = handled s /\ handled s = taken s /\
  ph s = STorn /\ tds s = 1 /\ dtds s = 1 /\ nacked s = 0 /\ dirty s = false.
Proof. exact (graceful_stop_drains true). Qed.
Print Assumptions C06_graceful_stop_drains_v1.

Theorem C06_graceful_stop_drains_v2 : forall l s, run (init false) l = Some s -> ret_ok s = true ->
  pack s = stored s /\ stored s = eack s /\ eack s = handled s /\ handled s = taken s /\
  ph s = STorn /\ tds s = 1 /\ dtds s = 1 /\ nacked s = 0 /\ dirty s = false.
Proof. exact (graceful_stop_drains false). Qed.
Print Assumptions C06_graceful_stop_drains_v2.

(* acked = prefix of read, stored = prefix of acked-to-the-engine, at every instant *)
Theorem C06_acked_prefix_of_read : forall e l s, run (init e) l = Some s ->
  pack s <= dq s /\ dq s <= stored s /\ stored s <= eack s /\ eack s <= handled s /\
  handled s + nacked s <= taken s /\ taken s <= avail s.
Proof.
  intros e l s Hr. destruct (J_reach e s (ex_intro _ l Hr)) as (H1 & H2 & H3 & H4 & H5 & H6 & _).
  repeat split; assumption.
Qed.
Print Assumptions C06_acked_prefix_of_read.

Theorem C06_no_ack_after_teardown : forall s s', ph s = STorn -> step s ADeliver = Some s' -> False.
Proof. exact no_ack_after_teardown. Qed.
Print Assumptions C06_no_ack_after_teardown.

(* progress (partial: fairness of the Go scheduler and answering plugins / store are assumed):
   from every reachable state of a run nobody force-stopped, once the stop was requested there is a
   finite continuation after which StopAndWait has returned nil *)
Theorem C06_stop_completes_partial : forall e s, (exists l, run (init e) l = Some s) ->
  stopreq s = true -> killed s = false ->
  exists l s', run s l = Some s' /\ ret_ok s' = true.
Proof. exact stop_completes. Qed.
Print Assumptions C06_stop_completes_partial.

(* ---- the life of a pipeline (Stop/Lifecycle.v): a graceful stop WITH a reason (the engine's shutdown: StopAll
   with the shutdown reason, Wait, persister Wait), Teardown calls that fail on a cancelled context, restarts ---- *)
(* whatever the reason of the stop, in whichever run: when it returned nil the pipeline is drained, its connector
   instances are released, and the status names who stopped it *)
Theorem C06_stop_with_any_reason_drains : forall e l x, xrun (xinit e) l = Some x -> ret_ok (xb x) = true ->
  (pack (xb x) = stored (xb x) /\ stored (xb x) = eack (xb x) /\ eack (xb x) = handled (xb x) /\
   handled (xb x) = taken (xb x) /\ ph (xb x) = STorn /\ tds (xb x) = 1 /\ dtds (xb x) = 1 /\
   nacked (xb x) = 0 /\ dirty (xb x) = false) /\
  srcinst x = false /\ dstinst x = false /\
  xstat x = (if sysstop x then XSystemStopped else XUserStopped).
Proof. exact stop_with_any_reason_drains. Qed.
Print Assumptions C06_stop_with_any_reason_drains.

(* the shutdown is not another protocol: the protocol state of every reachable life is a reachable state of Stop.v *)
Theorem C06_life_is_a_run_of_the_stop_protocol : forall e x, (exists l, xrun (xinit e) l = Some x) ->
  exists l, run (init e) l = Some (xb x).
Proof. exact x_projects. Qed.
Print Assumptions C06_life_is_a_run_of_the_stop_protocol.

(* progress (partial, as C06_stop_completes_partial): a requested shutdown of a run nobody force-stopped completes *)
Theorem C06_shutdown_completes_partial : forall e x, (exists l, xrun (xinit e) l = Some x) ->
  sysstop x = true -> killed (xb x) = false ->
  exists l s', run (xb x) l = Some s' /\ ret_ok s' = true.
Proof. exact shutdown_completes. Qed.
Print Assumptions C06_shutdown_completes_partial.

(* non-vacuity: v1, two records in flight when the shutdown arrives; the second run is stopped by the user *)
Example C06_nonvacuous_shutdown :
  exists x, xrun (xinit true)
    [XStep AEmit false; XStep AEmit false; XStep ATake false; XStep ATake false; XShutdown; XStep AStopSrc false;
     XStep ALoopEnd false; XStep AHandled false; XStep AHandled false; XStep AEAck false; XStep AEAck false;
     XStep ATearBegin false; XStep ATearFlushed false; XStep ADeliver false; XStep ADeliver false;
     XStep ATearDrained false; XStep ADownTear false; XStep ACleanup false; XStep AReturn false] = Some x /\
    ret_ok (xb x) = true /\ pack (xb x) = 2 /\ xstat x = XSystemStopped.
Proof. eexists. vm_compute. repeat split. Qed.

(* ---- the tie between model, acceptor and monitor ---- *)
(* (ii) every log the acceptor accepts satisfies the log part of Mon_C06: at the moment StopAndWait
   returned nil the pipeline was drained *)
Theorem C06_accepted_log_satisfies_mon : forall c l pre snap rest,
  Check.accept c l = true -> Check.split_at_ret l [] = Some (pre, Events.RNil, snap, rest) ->
  Check.drained (Check.c_v1 c) (Check.c_slow c) (Check.c_nsrc c) snap (Check.track c pre) = true.
Proof. exact CheckProofs.accepted_log_satisfies_mon_c06. Qed.
Print Assumptions C06_accepted_log_satisfies_mon.

Theorem C06_accepted_healthy_log_passes_monitor : forall c l pre snap rest,
  Check.accept c l = true -> Check.split_at_ret l [] = Some (pre, Events.RNil, snap, rest) ->
  Check.mon_c06 c true false l = true.
Proof. exact CheckProofs.accepted_healthy_log_passes_mon_c06. Qed.
Print Assumptions C06_accepted_healthy_log_passes_monitor.

(* (i), protocol half: the generative model (1 source x M destinations, both engines; GenStop.v) emits
   the event vocabulary of the observed logs; its protocol state is a reachable state of Stop.v, and it
   emits "StopAndWait returned nil" only from a drained state in which every destination confirmed
   everything that was read *)
Theorem C06_gen_protocol_state_reachable : forall e m s,
  GenStopProofs.greach e m s -> exists l, run (init e) l = Some (GenStop.base s).
Proof. exact GenStopProofs.base_reachable. Qed.
Print Assumptions C06_gen_protocol_state_reachable.

Theorem C06_gen_return_guard : forall e m s s', GenStopProofs.greach e m s ->
  GenStop.gstep s GenStop.GReturn = Some s' ->
  GenStop.evs s' = Events.ERet Events.KStopWait Events.RNil 1 [(1, stored (GenStop.base s))] :: GenStop.evs s /\
  drained (GenStop.base s') /\ stored (GenStop.base s) = pack (GenStop.base s') /\
  forall i, i < m -> nth i (GenStop.cc s') 0 = taken (GenStop.base s') /\
                     nth i (GenStop.wc s') 0 = taken (GenStop.base s').
Proof. exact GenStopProofs.gen_return_guard. Qed.
Print Assumptions C06_gen_return_guard.

(* (i), the simulation (GenStopSim.v): every trace the generative model emits - any schedule, any number
   of destinations, both engines - is accepted by the acceptor the observed logs are judged with ... *)
Theorem C06_gen_trace_accepted : forall e m l s, GenStop.grun (GenStop.ginit e m) l = Some s ->
  Check.accept (GenStopSim.cfgof e m) (GenStop.trace s) = true.
Proof. exact GenStopSim.gen_trace_accepted. Qed.
Print Assumptions C06_gen_trace_accepted.

(* ... so, composing (i) and (ii): every trace of the generative model satisfies the log clauses of
   Mon_C06 (healthy = false: "the stop comes back" is liveness and is judged on observed runs) *)
Theorem C06_gen_trace_satisfies_mon : forall e m l s, GenStop.grun (GenStop.ginit e m) l = Some s ->
  Check.mon_c06 (GenStopSim.cfgof e m) false false (GenStop.trace s) = true.
Proof. exact GenStopSim.gen_trace_satisfies_mon_c06. Qed.
Print Assumptions C06_gen_trace_satisfies_mon.

Theorem C06_gen_trace_return_drained : forall e m l s pre snap rest,
  GenStop.grun (GenStop.ginit e m) l = Some s ->
  Check.split_at_ret (GenStop.trace s) [] = Some (pre, Events.RNil, snap, rest) ->
  Check.drained e false 1 snap (Check.track (GenStopSim.cfgof e m) pre) = true.
Proof. exact GenStopSim.gen_trace_return_drained. Qed.
Print Assumptions C06_gen_trace_return_drained.

(* the shutdown in the event vocabulary (Stop/ShutdownTrace.v): the acceptor treats "shutdown called / returned"
   as it treats StopAndWait, so every trace of the generative model read with its graceful stop being the engine's
   shutdown is accepted too, and the pipeline was drained at the moment the shutdown returned nil *)
Theorem C06_gen_trace_accepted_as_shutdown : forall e m l s, GenStop.grun (GenStop.ginit e m) l = Some s ->
  Check.accept (GenStopSim.cfgof e m) (ShutdownTrace.as_shutdown (GenStop.trace s)) = true.
Proof. exact ShutdownTrace.gen_trace_accepted_as_shutdown. Qed.
Print Assumptions C06_gen_trace_accepted_as_shutdown.

Theorem C06_gen_shutdown_return_drained : forall e m l s pre snap rest,
  GenStop.grun (GenStop.ginit e m) l = Some s ->
  Check.split_at_ret (ShutdownTrace.as_shutdown (GenStop.trace s)) [] = Some (pre, Events.RNil, snap, rest) ->
  Check.drained e false 1 snap (Check.track (GenStopSim.cfgof e m) pre) = true.
Proof. exact ShutdownTrace.gen_shutdown_return_drained. Qed.
Print Assumptions C06_gen_shutdown_return_drained.

(* tests, not theorems: traces of the generative model run through the executable acceptor and monitor *)
Example C06_gen_trace_accepted_v1 :
  match GenStop.grun (GenStop.ginit true 2)
    [GenStop.GEmit; GenStop.GEmit; GenStop.GRead; GenStop.GRead; GenStop.GWrite 0; GenStop.GWrite 1; GenStop.GConf 0;
     GenStop.GConf 1; GenStop.GHandled; GenStop.GEAck; GenStop.GStopCall; GenStop.GStopSrc; GenStop.GLoopEnd;
     GenStop.GWrite 1; GenStop.GWrite 0; GenStop.GConf 1; GenStop.GConf 0; GenStop.GHandled; GenStop.GEAck;
     GenStop.GTearBegin; GenStop.GTearFlushed; GenStop.GDeliver; GenStop.GDeliver; GenStop.GTearDrained;
     GenStop.GDownTear; GenStop.GCleanup; GenStop.GReturn] with
  | Some s => Check.accept (Check.mkC true false 1 2) (GenStop.trace s)
              && Check.mon_c06 (Check.mkC true false 1 2) true false (GenStop.trace s)
  | None => false
  end = true.
Proof. vm_compute. reflexivity. Qed.

(* non-vacuity: v1, three records, the stop arrives while one record is unread and one unconfirmed *)
Example C06_nonvacuous_v1 :
  exists s, run (init true)
    [AEmit; AEmit; AEmit; ATake; ATake; AHandled; AEAck; AStopCall; AStopSrc; ATake; ALoopEnd;
     AHandled; AHandled; AEAck; AEAck; ATearBegin; ATearFlushed; ADeliver; ADeliver; ADeliver;
     ATearDrained; ADownTear; ACleanup; AReturn] = Some s /\ ret_ok s = true /\ pack s = 3.
Proof. eexists. vm_compute. repeat split. Qed.

Example C06_nonvacuous_v2 :
  exists s, run (init false)
    [AEmit; AEmit; ATake; AHandled; AEAck; AStopCall; AStopSrc; ATearFlushed; ADeliver;
     ATearDrained; ADownTear; ACleanup; AReturn] = Some s /\ ret_ok s = true /\ pack s = 1 /\ avail s = 2.
Proof. eexists. vm_compute. repeat split. Qed.
