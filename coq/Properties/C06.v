(* C06 - graceful stop drains: property theorems only.
   Model: coq/Stop/Stop.v, the stop protocols of both engines for one source connector as an
   interleaving transition system ([init true] = v1, [init false] = v2); [run (init e) l] ranges
   over every schedule of plugin answers, store flushes, engine steps and the instant of the stop. *)
From Verif Require Import Stop.Stop Stop.StopProofs.

Theorem C06_graceful_stop_drains_v1 : forall l s, run (init true) l = Some s -> ret_ok s = true ->
  pack s = stored s /\ stored s = eack s /\ eack s = handled s /\ handled s = taken s /\
  ph s = STorn /\ tds s = 1 /\ dtds s = 1 /\ nacked s = 0 /\ dirty s = false.
Proof. exact (graceful_stop_drains true). Qed.
Print Assumptions C06_graceful_stop_drains_v1.

Theorem C06_graceful_stop_drains_v2 : forall l s, run (init false) l = Some s -> ret_ok s = true ->
  pack s = stored s /\ stored s = eack s /\ eack s = handled s /\ handled s = taken s /\
  ph s = STorn /\ tds s = 1 /\ dtds s = 1 /\ nacked s = 0 /\ dirty s = false.
Proof. exact (graceful_stop_drains false). Qed.
Print Assumptions C06_graceful_stop_drains_v2.

(* acked = prefix of read, stored = prefix of acked-to-the-engine, at every instant *)
Theorem C06_acked_prefix_of_read : forall e l s, run (init e) l = Some s ->
  pack s <= dq s /\ dq s <= stored s /\ stored s <= eack s /\ eack s <= handled s /\
  handled s + nacked s <= taken s /\ taken s <= avail s.
Proof.
  intros e l s Hr. destruct (J_reach e s (ex_intro _ l Hr)) as (H1 & H2 & H3 & H4 & H5 & H6 & _).
  repeat split; assumption.
Qed.
Print Assumptions C06_acked_prefix_of_read.

Theorem C06_no_ack_after_teardown : forall s s', ph s = STorn -> step s ADeliver = Some s' -> False.
Proof. exact no_ack_after_teardown. Qed.
Print Assumptions C06_no_ack_after_teardown.

(* progress (partial: fairness of the Go scheduler and answering plugins / store are assumed):
   from every reachable state of a run nobody force-stopped, once the stop was requested there is a
   finite continuation after which StopAndWait has returned nil *)
Theorem C06_stop_completes_partial : forall e s, (exists l, run (init e) l = Some s) ->
  stopreq s = true -> killed s = false ->
  exists l s', run s l = Some s' /\ ret_ok s' = true.
Proof. exact stop_completes. Qed.
Print Assumptions C06_stop_completes_partial.

(* non-vacuity: v1, three records, the stop arrives while one record is unread and one unconfirmed *)
Example C06_nonvacuous_v1 :
  exists s, run (init true)
    [AEmit; AEmit; AEmit; ATake; ATake; AHandled; AEAck; AStopCall; AStopSrc; ATake; ALoopEnd;
     AHandled; AHandled; AEAck; AEAck; ATearBegin; ATearFlushed; ADeliver; ADeliver; ADeliver;
     ATearDrained; ADownTear; ACleanup; AReturn] = Some s /\ ret_ok s = true /\ pack s = 3.
Proof. eexists. vm_compute. repeat split. Qed.

Example C06_nonvacuous_v2 :
  exists s, run (init false)
    [AEmit; AEmit; ATake; AHandled; AEAck; AStopCall; AStopSrc; ATearFlushed; ADeliver;
     ATearDrained; ADownTear; ACleanup; AReturn] = Some s /\ ret_ok s = true /\ pack s = 1 /\ avail s = 2.
Proof. eexists. vm_compute. repeat split. Qed.
