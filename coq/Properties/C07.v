(* C07 - DLQ window: property theorems only. *)
From Verif Require Import Dlq.Window Dlq.WindowProofs Dlq.WindowRle Dlq.WindowRleProofs Dlq.Routing Dlq.RoutingProofs.

Theorem C07_window_v1_refines_spec : forall size t ops,
  run_v1 (new_win size t) ops = run_spec size t init_sp ops.
Proof. exact window_v1_refines_spec. Qed.
Print Assumptions C07_window_v1_refines_spec.

Theorem C07_window_v2_refines_spec : forall size t chunks,
  run_v2 (new_win size t) chunks = run_spec size t init_sp (expand chunks).
Proof. exact window_v2_refines_spec. Qed.
Print Assumptions C07_window_v2_refines_spec.

Theorem C07_window_parity : forall size t chunks,
  run_v2 (new_win size t) chunks = run_v1 (new_win size t) (expand chunks).
Proof. exact window_parity. Qed.
Print Assumptions C07_window_parity.

(* the same rule at any scale: the run-length-encoded timestamp-queue form (all numbers in N,
   O(1) per run of acknowledgments, amortised O(1) per rejection) takes exactly the decisions of
   the sliding-window rule, for every window size, threshold and run-length-encoded history;
   it is what the large-window correspondence cases evaluate *)
Theorem C07_window_rle_refines_spec : forall (size t : N) (runs : list (bool * N)),
  expandN (run_rle size t q0 runs) = run_spec (N.to_nat size) (N.to_nat t) init_sp (expandN runs).
Proof. exact window_rle_refines_spec. Qed.
Print Assumptions C07_window_rle_refines_spec.

Theorem C07_window_rle_is_v1 : forall (size t : N) (runs : list (bool * N)),
  run_v1 (new_win (N.to_nat size) (N.to_nat t)) (expandN runs) = expandN (run_rle size t q0 runs).
Proof. exact window_rle_is_v1. Qed.
Print Assumptions C07_window_rle_is_v1.

Theorem C07_window_rle_is_v2 : forall (size t : N) (chunks : list (bool * N)),
  run_v2 (new_win (N.to_nat size) (N.to_nat t)) (chunks_nat chunks) = expandN (run_rle size t q0 chunks).
Proof. exact window_rle_is_v2. Qed.
Print Assumptions C07_window_rle_is_v2.

(* the comparison of run-length encodings used by the checker only says "same" for encodings
   of the same list of decisions *)
Theorem C07_rle_same_sound : forall l1 l2, rle_same l1 l2 = true -> expandN l1 = expandN l2.
Proof. exact rle_same_sound. Qed.
Print Assumptions C07_rle_same_sound.

(* ... and always says "same" for them: the encoding can never be the cause of an alarm *)
Theorem C07_rle_same_complete : forall l1 l2, expandN l1 = expandN l2 -> rle_same l1 l2 = true.
Proof. exact rle_same_complete. Qed.
Print Assumptions C07_rle_same_complete.

(* non-vacuity at scale: window 100000, threshold 3: three rejections, 70000 acknowledgments,
   and the fourth rejection is refused (the first three are still inside the window); after
   99998 acknowledgments instead it is tolerated (two have left the window) *)
Example C07_rle_nonvacuous :
  rle_norm (run_rle 100000 3 q0 [(true, 3); (false, 70000); (true, 1)]%N)
  = [(true, 70003); (false, 1)]%N
  /\ rle_norm (run_rle 100000 3 q0 [(true, 3); (false, 99998); (true, 2)]%N)
  = [(true, 100003)]%N.
Proof. vm_compute. split; reflexivity. Qed.

Theorem C07_size0_unlimited : forall t ops, run_spec 0 t init_sp ops = map (fun _ => true) ops.
Proof. exact size0_unlimited. Qed.
Print Assumptions C07_size0_unlimited.

Theorem C07_thr0_tolerates_none : forall size h, 0 < size -> tolerated size 0 h = false.
Proof. exact thr0_tolerates_none. Qed.
Print Assumptions C07_thr0_tolerates_none.

Theorem C07_refusal_is_final : forall size t s,
  frozen s = false -> tolerated size t (hist s) = false ->
  forall ops, run_spec size t s (true :: ops) = false :: map negb ops.
Proof. exact refusal_is_final. Qed.
Print Assumptions C07_refusal_is_final.

(* ---- routing: rejected records to the DLQ, acknowledgments to the source ---- *)

(* v1 does exactly what the rule says: the first m records (m and the stop decision computed by
   the rule) get [DlqOk k; SrcAck k] if rejected and [SrcAck k] otherwise, in source order,
   and nothing else happens - for every window, outcome sequence and DLQ failure point *)
Theorem C07_routing_v1_is_spec : forall size t rs,
  let (es, tm) := route_v1 (new_win size t) false 0 rs in
  let (m, st) := spec_route size t init_sp rs in
  es = events_of 0 rs m /\ st = is_some tm.
Proof. exact routing_v1_is_spec. Qed.
Print Assumptions C07_routing_v1_is_spec.

(* and that behaviour satisfies every clause of the monitor [route_ok] (the property) *)
Theorem C07_routing_v1_satisfies_property : forall size t rs,
  let (es, tm) := route_v1 (new_win size t) false 0 rs in
  route_ok size t rs es (is_some tm) = true.
Proof. exact routing_v1_satisfies_property. Qed.
Print Assumptions C07_routing_v1_satisfies_property.

(* v2, for every way of cutting the stream into batches: the same records are acknowledged
   (the first m, once, in order) and the pipeline stops in the same cases ... *)
Theorem C07_routing_v2_handled_and_stop : forall size t bs,
  let (es, tm) := route_v2 (new_win size t) 0 bs in
  let (m, st) := spec_route size t init_sp (concat bs) in
  acks_of es = seq 0 m /\ is_some tm = st.
Proof. exact routing_v2_handled_and_stop. Qed.
Print Assumptions C07_routing_v2_handled_and_stop.

(* ... and what v2 does satisfies every clause of the monitor [route_ok]: every acknowledged
   rejected record was confirmed by the DLQ exactly once and before its acknowledgment, DLQ
   confirmations come in source order and only for rejected records *)
Theorem C07_routing_v2_satisfies_property : forall size t bs,
  let (es, tm) := route_v2 (new_win size t) 0 bs in
  route_ok size t (concat bs) es (is_some tm) = true.
Proof. exact routing_v2_satisfies_property. Qed.
Print Assumptions C07_routing_v2_satisfies_property.

Theorem C07_routing_parity : forall size t bs,
  let (es1, tm1) := route_v1 (new_win size t) false 0 (concat bs) in
  let (es2, tm2) := route_v2 (new_win size t) 0 bs in
  acks_of es1 = acks_of es2 /\ is_some tm1 = is_some tm2.
Proof. exact routing_parity. Qed.
Print Assumptions C07_routing_parity.

(* a stop always leaves a rejected record unacknowledged: the first unhandled record *)
Theorem C07_stop_leaves_rejected_record_unacked : forall size t rs s,
  let (m, st) := spec_route size t s rs in
  st = true -> m < length rs /\ fst (nth m rs (false, false)) = true.
Proof. exact spec_stops_at_first_unhandled. Qed.
Print Assumptions C07_stop_leaves_rejected_record_unacked.

Example C07_routing_nonvacuous :
  spec_route 3 1 init_sp [(false,false); (true,false); (false,false); (true,true); (false,false)]
  = (3, true)
  /\ route_v2 (new_win 3 1) 0 [[(false,false); (true,false)]; [(false,false); (true,true); (false,false)]]
  = ([SrcAck 0; DlqOk 1; SrcAck 1; SrcAck 2], Some true).
Proof. vm_compute. split; reflexivity. Qed.

(* non-vacuity: a concrete window in which a nack is tolerated and a later one is not *)
Example C07_nonvacuous :
  run_spec 3 1 init_sp [true; false; true; false; false; true; true]
  = [true; true; false; true; true; false; false].
Proof. vm_compute. reflexivity. Qed.
