(* C07 - DLQ window: property theorems only. *)
From Verif Require Import Dlq.Window Dlq.WindowProofs.

Theorem C07_window_v1_refines_spec : forall size t ops,
  run_v1 (new_win size t) ops = run_spec size t init_sp ops.
Proof. exact window_v1_refines_spec. Qed.
Print Assumptions C07_window_v1_refines_spec.

Theorem C07_window_v2_refines_spec : forall size t chunks,
  run_v2 (new_win size t) chunks = run_spec size t init_sp (expand chunks).
Proof. exact window_v2_refines_spec. Qed.
Print Assumptions C07_window_v2_refines_spec.

Theorem C07_window_parity : forall size t chunks,
  run_v2 (new_win size t) chunks = run_v1 (new_win size t) (expand chunks).
Proof. exact window_parity. Qed.
Print Assumptions C07_window_parity.

Theorem C07_size0_unlimited : forall t ops, run_spec 0 t init_sp ops = map (fun _ => true) ops.
Proof. exact size0_unlimited. Qed.
Print Assumptions C07_size0_unlimited.

Theorem C07_thr0_tolerates_none : forall size h, 0 < size -> tolerated size 0 h = false.
Proof. exact thr0_tolerates_none. Qed.
Print Assumptions C07_thr0_tolerates_none.

Theorem C07_refusal_is_final : forall size t s,
  frozen s = false -> tolerated size t (hist s) = false ->
  forall ops, run_spec size t s (true :: ops) = false :: map negb ops.
Proof. exact refusal_is_final. Qed.
Print Assumptions C07_refusal_is_final.

(* non-vacuity: a concrete window in which a nack is tolerated and a later one is not *)
Example C07_nonvacuous :
  run_spec 3 1 init_sp [true; false; true; false; false; true; true]
  = [true; true; false; true; true; false; false].
Proof. vm_compute. reflexivity. Qed.
