(* C18 - processor egress never reaches private/metadata addresses unless carved out;
   the effective policy never exceeds the engine-wide ceiling.  Property theorems only.

   The classifier's tables are data of the Go source.  They enter here as a configuration
   [cfg] constrained by the decidable premise [covers_cfg cfg = true]; the driver regenerates
   the configuration from the source on every run and re-establishes that premise (and the
   instances of these theorems) by vm_compute in out/C18/gen/Obl_*.v.  The Examples at the
   end instantiate the premise on a static copy of the pinned tree's configuration. *)
From Verif Require Import Base.CaseCheck.
From Verif Require Import Egress.Ip Egress.Cover Egress.IpProofs Egress.Policy Egress.PolicyProofs
  Egress.Dial Egress.DialProofs Egress.Check Egress.CheckProofs Egress.Snapshot.

(* every IPv4 address (all 2^32) of the floor - loopback, this-network, RFC 1918, link-local
   incl. 169.254.169.254, CGNAT, multicast/reserved - is refused *)
Theorem C18_refuse_covers_floor_v4 : forall cfg, covers spec4 (ivs4 cfg) = true ->
  forall ip, (ip < 2 ^ 32)%N -> floor4 ip = true -> refused cfg (A4 ip) = true.
Proof. exact refuse_covers_floor_v4. Qed.
Print Assumptions C18_refuse_covers_floor_v4.

(* every 16-byte address (all 2^128) of the floor - ::, ::1, fe80::/10, fec0::/10, fc00::/7,
   ff00::/8 and every form that embeds a floor IPv4 address: v4-mapped, v4-compatible,
   IPv4-translated, NAT64 64:ff9b::/96, 6to4, Teredo server and client - is refused *)
Theorem C18_refuse_covers_floor_v6 : forall cfg, covers spec6 (ivs6 cfg) = true ->
  forall ip, (ip < 2 ^ 128)%N -> floor6 ip = true -> refused cfg (A16 ip) = true.
Proof. exact refuse_covers_floor_v6. Qed.
Print Assumptions C18_refuse_covers_floor_v6.

(* the interval-cover decision procedure is sound *)
Theorem C18_covers_sound : forall spec l, covers spec l = true ->
  forall x, in_ivs x spec = true -> in_ivs x l = true.
Proof. exact covers_sound. Qed.
Print Assumptions C18_covers_sound.

(* an address that is not refused is readable, outside the floor, and outside every range
   and special form the classifier lists on its path *)
Theorem C18_not_refused_is_public : forall cfg, covers_cfg cfg = true ->
  forall a, wf_addr a = true -> refused cfg a = false ->
  a <> Abad /\ floor a = false /\
  (match path_guards cfg a with (gs, bits, x) => forall g, In g gs -> guard_reason bits x g = None end).
Proof. exact not_refused_is_public. Qed.
Print Assumptions C18_not_refused_is_public.

(* every address for which a connect is attempted was a candidate that is not refused or is an
   exact carve-out pair - for every candidate of the resolver's answer, not just the first *)
Theorem C18_dial_only_admitted : forall cfg p cands port a,
  In a (dial_plan cfg p cands port) ->
  In a cands /\ (refused cfg a = false \/ carve_out p a port = true).
Proof. exact dial_only_admitted. Qed.
Print Assumptions C18_dial_only_admitted.

(* ... hence, with a configuration covering the floor: outside the floor, or an exact pair *)
Theorem C18_dial_floor_needs_exact_pair : forall cfg, covers_cfg cfg = true ->
  forall p cands port a, (forall a, In a cands -> wf_addr a = true) ->
  In a (dial_plan cfg p cands port) -> floor a = true ->
  exists e ip, In e (p_allow p) /\ e_ip e = Some ip /\ e_port e = port /\ ip_equal ip a = true.
Proof. exact floor_address_needs_exact_pair. Qed.
Print Assumptions C18_dial_floor_needs_exact_pair.

(* the attempts of a run that stops at the first successful connect are among the plan *)
Theorem C18_dial_attempts_in_plan : forall cfg p port ok cands l c,
  dial cfg p port ok cands = (l, c) ->
  (forall a, In a l -> In a (dial_plan cfg p cands port)) /\
  (forall a, c = Some a -> In a l /\ ok a = true).
Proof. exact dial_attempts_in_plan. Qed.
Print Assumptions C18_dial_attempts_in_plan.

(* the second gate (dialControl, on the text handed to the dialer) decides as the first *)
Theorem C18_gate_reparse : forall cfg p port a, wf_addr a = true ->
  gate cfg p port (reparse a) = gate cfg p port a.
Proof. exact gate_reparse. Qed.
Print Assumptions C18_gate_reparse.

Theorem C18_carve_out_is_exact_pair : forall p a port,
  carve_out p a port = true <->
  exists e ip, In e (p_allow p) /\ e_ip e = Some ip /\ e_port e = port /\ ip_equal ip a = true.
Proof. exact carve_out_is_exact_pair. Qed.
Print Assumptions C18_carve_out_is_exact_pair.

Theorem C18_carve_out_needs_port : forall p a port,
  (forall e ip, In e (p_allow p) -> e_ip e = Some ip -> ip_equal ip a = true -> e_port e <> port) ->
  carve_out p a port = false.
Proof. exact carve_out_needs_port. Qed.
Print Assumptions C18_carve_out_needs_port.

(* the effective policy never exceeds the request nor the ceiling *)
Theorem C18_resolve_le_ceiling : forall k req ceil eff dropped,
  resolve k req ceil = (eff, dropped) ->
  (p_enabled ceil = false -> eff = deny_all) /\
  (p_enabled req = false -> eff = deny_all) /\
  (p_enabled eff = true -> p_enabled req = true /\ p_enabled ceil = true) /\
  (forall e, In e (p_allow eff) -> In e (p_allow req)) /\
  (restricted ceil -> forall e, In e (p_allow eff) ->
                      exists c, In c (p_allow ceil) /\ entry_key c = entry_key e) /\
  (forall e, In e (p_allow req) -> p_enabled eff = true -> In e (p_allow eff) \/ In e dropped) /\
  (forall s, In s (p_secrets eff) -> In s (p_secrets req)) /\
  (restricted ceil \/ p_secrets ceil <> [] -> forall s, In s (p_secrets eff) -> In s (p_secrets ceil)) /\
  (p_enabled eff = true -> (0 < p_timeout ceil)%Z -> (p_timeout eff <= p_timeout ceil)%Z) /\
  (p_enabled eff = true -> (0 < p_maxresp ceil)%Z -> (p_maxresp eff <= p_maxresp ceil)%Z) /\
  (p_enabled eff = true -> (0 < p_timeout req)%Z -> (p_timeout eff <= p_timeout req)%Z) /\
  (p_enabled eff = true -> (0 < p_maxresp req)%Z -> (p_maxresp eff <= p_maxresp req)%Z) /\
  (p_enabled eff = true -> (0 < default_timeout k)%Z -> (0 < p_timeout eff)%Z) /\
  (p_enabled eff = true -> (0 < default_max k)%Z -> (0 < p_maxresp eff)%Z).
Proof. exact resolve_le_ceiling. Qed.
Print Assumptions C18_resolve_le_ceiling.

(* resolving creates no carve-out beyond the request, nor beyond a restricted ceiling *)
Theorem C18_resolve_carve_out_le : forall k req ceil eff dropped a port,
  resolve k req ceil = (eff, dropped) -> carve_out eff a port = true ->
  carve_out req a port = true /\
  (restricted ceil ->
   (forall e c, In e (p_allow req) -> In c (p_allow ceil) -> entry_key c = entry_key e ->
                e_ip c = e_ip e /\ e_port c = e_port e) ->
   carve_out ceil a port = true).
Proof. exact resolve_carve_out_le. Qed.
Print Assumptions C18_resolve_carve_out_le.

(* behaviour that agrees with the model is accepted by the property monitors of the check *)
Theorem C18_chk_agree_implies_monitor : forall cfg k c,
  covers_cfg cfg = true -> (0 < default_timeout k)%Z -> (0 < default_max k)%Z ->
  chk cfg k c <> 2.
Proof. exact chk_agree_implies_monitor. Qed.
Print Assumptions C18_chk_agree_implies_monitor.

(* ---------- non-vacuity ---------- *)

(* the premise holds of the pinned tree's configuration *)
Example C18_snapshot_covers : covers_cfg snapshot_cfg = true.
Proof. vm_compute. reflexivity. Qed.

(* the floor is inhabited and refused: 169.254.169.254 plain, v4-mapped, and in NAT64 *)
Example C18_metadata_refused :
  floor4 (ip4 169 254 169 254) = true /\
  refuse snapshot_cfg (A4 (ip4 169 254 169 254)) = (true, "v4_link_local_or_metadata"%string) /\
  refused snapshot_cfg (A16 (mapped_base + ip4 169 254 169 254)) = true /\
  floor6 (0x64ff9b * 2 ^ 96 + ip4 169 254 169 254) = true /\
  refused snapshot_cfg (A16 (0x64ff9b * 2 ^ 96 + ip4 169 254 169 254)) = true.
Proof. vm_compute. repeat split; reflexivity. Qed.

(* something is not refused: 8.8.8.8 and 2606:4700:4700::1111 are admitted, hence dialled *)
Example C18_public_admitted :
  refused snapshot_cfg (A4 (ip4 8 8 8 8)) = false /\
  refused snapshot_cfg (A16 0x26064700470000000000000000001111) = false /\
  dial_plan snapshot_cfg (mkPolicy true [] [] 1 1)
            [A4 (ip4 10 0 0 1); A4 (ip4 8 8 8 8); A16 1] "443"%string = [A4 (ip4 8 8 8 8)].
Proof. vm_compute. repeat split; reflexivity. Qed.

(* a carve-out admits its exact pair only: 127.0.0.1:11434 yes, 127.0.0.1:6379 no *)
Example C18_carve_out_pair :
  let p := mkPolicy true [mkEntry "http" "127.0.0.1" "11434" (Some (A4 (ip4 127 0 0 1)))] [] 1 1 in
  dial_plan snapshot_cfg p [A4 (ip4 127 0 0 1)] "11434"%string = [A4 (ip4 127 0 0 1)] /\
  dial_plan snapshot_cfg p [A4 (ip4 127 0 0 1)] "6379"%string = [].
Proof. vm_compute. split; reflexivity. Qed.

(* a ceiling that really clamps: hosts, secrets, timeout and size all reduced *)
Example C18_resolve_clamps :
  let e1 := mkEntry "https" "api.example.com" "443" None in
  let e2 := mkEntry "https" "evil.example" "443" None in
  resolve snapshot_consts (mkPolicy true [e1; e2] ["A"; "B"]%string 60 100)
                          (mkPolicy true [e1] ["B"]%string 30 50)
  = (mkPolicy true [e1] ["B"]%string 30 50, [e2]).
Proof. vm_compute. reflexivity. Qed.
