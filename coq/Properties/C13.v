(* C13 - live processor reconfiguration: property theorems only.
   Model: coq/Swap/Swap.v (ProcessorNode.Run / Reconfigure / applyPendingSwap as an interleaving
   transition system; [run init l] ranges over every interleaving of record arrivals, reconfigure
   requests (Open succeeding or failing), cancellations, loop steps, graceful close and kill). *)
From Verif Require Import Base.CaseCheck Swap.Swap Swap.SwapProofs Swap.SwapThms Swap.Check Swap.CheckProofs.
From Verif Require Import Swap.Flag Swap.FlagProofs.

Theorem C13_one_generation_per_record : forall l s, run init l = Some s ->
  NoDup (map fst (out s)) /\
  (forall r g g', In (r, g) (out s) -> In (r, g') (out s) -> g = g').
Proof. exact one_generation_per_record. Qed.
Print Assumptions C13_one_generation_per_record.

Theorem C13_generations_monotone_in_record_order : forall l s, run init l = Some s ->
  rev (map fst (out s)) = seq 0 (length (out s)) /\
  nonincr (map snd (out s)) /\
  (forall r g, In (r, g) (out s) -> g = 0 \/ In g (applied s)).
Proof. exact generations_monotone_in_record_order. Qed.
Print Assumptions C13_generations_monotone_in_record_order.

Theorem C13_no_record_lost : forall l s, run init l = Some s ->
  rev (map fst (out s)) ++ nack s ++ flight (ph s) ++ inq s = seq 0 (nextr s).
Proof. exact no_record_lost. Qed.
Print Assumptions C13_no_record_lost.

Theorem C13_failed_open_keeps_old_and_caller_gets_the_error : forall l s q,
  run init l = Some s -> okflag s q = false ->
  ~ In (S q) (applied s) /\ cur s <> S q /\
  (forall r g, In (r, g) (out s) -> g <> S q) /\
  (forall c, call_of s q = Some (Some c) -> In (S q) (opens s) -> c = RErrOpen \/ c = RCancelled).
Proof. exact failed_open_keeps_old. Qed.
Print Assumptions C13_failed_open_keeps_old_and_caller_gets_the_error.

Theorem C13_failed_open_step : forall s q s', ph s = POpening q -> okflag s q = false ->
  step s LOpened = Some s' ->
  cur s' = cur s /\ out s' = out s /\ inq s' = inq s /\ applied s' = applied s /\
  tears s' = S q :: tears s /\ evs s' = NTear (S q) true :: evs s.
Proof. exact failed_open_step. Qed.
Print Assumptions C13_failed_open_step.

Theorem C13_at_most_one_pending : forall l s, run init l = Some s ->
  (forall q1 q2, fate_of s q1 = Some FStaged -> fate_of s q2 = Some FStaged -> q1 = q2) /\
  (forall q, fate_of s q = Some FStaged <-> pend s = Some q) /\
  (forall ok s', pend s <> None -> step s (AReq ok) = Some s' ->
     pend s' = pend s /\ cur s' = cur s /\ ph s' = ph s /\ opens s' = opens s /\ evs s' = evs s /\
     call_of s' (length (reqs s)) = Some (Some RBusy)).
Proof. exact at_most_one_pending. Qed.
Print Assumptions C13_at_most_one_pending.

Theorem C13_cancelled_reconfigure_is_all_or_nothing : forall l s q, run init l = Some s ->
  call_of s q = Some (Some RCancelled) ->
  (fate_of s q = Some FWithdrawn /\
     forall l2 s2, run s l2 = Some s2 ->
       ~ In (S q) (opens s2) /\ pend s2 <> Some q /\ cur s2 <> S q /\ opened_as (S q) (evs s2) = None)
  \/ (fate_of s q = Some FClaimed /\ ph s = POpening q)
  \/ (fate_of s q = Some FApplied /\ okflag s q = true /\ In (S q) (applied s) /\ In (S q) (opens s))
  \/ (fate_of s q = Some FFailed /\ okflag s q = false /\ ~ In (S q) (applied s) /\ In (S q) (tears s)).
Proof. exact cancelled_reconfigure_is_all_or_nothing. Qed.
Print Assumptions C13_cancelled_reconfigure_is_all_or_nothing.

Theorem C13_swap_preserves_acks_and_positions : forall s a s', (a = LApply \/ a = LOpened) ->
  step s a = Some s' ->
  inq s' = inq s /\ nextr s' = nextr s /\ out s' = out s /\ nack s' = nack s /\
  flight (ph s) = [] /\ flight (ph s') = [].
Proof. exact swap_preserves_acks_and_positions. Qed.
Print Assumptions C13_swap_preserves_acks_and_positions.

Theorem C13_running_flag_stays_set : forall l s, run init l = Some s ->
  (ph s <> PEnd -> runflag s = true) /\ (ph s = PEnd -> runflag s = false).
Proof. exact running_flag_stays_set. Qed.
Print Assumptions C13_running_flag_stays_set.

Theorem C13_every_opened_processor_torn_down_once : forall l s, run init l = Some s -> ph s = PEnd ->
  NoDup (opens s) /\ NoDup (tears s) /\ forall g, In g (opens s) <-> In g (tears s).
Proof. exact every_opened_processor_torn_down_once. Qed.
Print Assumptions C13_every_opened_processor_torn_down_once.

(* every behaviour of the model is accepted by the monitor that judges the observed runs *)
Theorem C13_model_satisfies_monitor : forall l s, run init l = Some s ->
  mon_safe (rev (evs s)) (map ret_of (reqs s)) (rev (map fst (out s))) = true.
Proof. exact mon_safe_model. Qed.
Print Assumptions C13_model_satisfies_monitor.

(* the schedules replayed against the real node are schedules of the model *)
Theorem C13_lockstep_is_a_schedule : forall es, exists l, run init l = Some (run_env es).
Proof. exact lockstep_is_a_schedule. Qed.
Print Assumptions C13_lockstep_is_a_schedule.

(* ---- service side (coq/Swap/Flag.v): Instance.running over every history of Start (buildable or
   not), ReconfigureProcessor (swap works / new runnable cannot be built: undispensable plugin,
   malformed sdk.egress.* setting, invalid condition / new runnable refuses to open), StopAndWait,
   Update, Delete, MakeRunnableProcessor and record flow ---- *)
Theorem C13_service_running_flag_iff_live_node : forall ops,
  flag (fend ops) = negb (fnone (node (fend ops))) /\
  (there (fend ops) = false -> node (fend ops) = None) /\
  (forall g, node (fend ops) = Some g -> g < nbuilt (fend ops)).
Proof. exact flag_iff_live_node. Qed.
Print Assumptions C13_service_running_flag_iff_live_node.

Theorem C13_service_failed_reconfigure_keeps_node_and_guards : forall ops o g0,
  node (fend ops) = Some g0 -> o <> OOk ->
  let s' := fst (fstep (fend ops) (FReconf o)) in
  snd (fstep (fend ops) (FReconf o)) = RErr /\
  node s' = Some g0 /\ flag s' = true /\ there s' = true /\
  snd (fstep s' FUpdate) = RRunning /\ snd (fstep s' FDelete) = RRunning /\ snd (fstep s' FMake) = RRunning /\
  snd (fstep s' FEmit) = RStamp (Some g0).
Proof. exact failed_reconfigure_keeps_node_and_guards. Qed.
Print Assumptions C13_service_failed_reconfigure_keeps_node_and_guards.

Theorem C13_service_successful_reconfigure_keeps_flag : forall ops g0,
  node (fend ops) = Some g0 ->
  let s' := fst (fstep (fend ops) (FReconf OOk)) in
  exists g, snd (fstep (fend ops) (FReconf OOk)) = RGen g /\ g <> g0 /\
  node s' = Some g /\ flag s' = true /\
  snd (fstep s' FUpdate) = RRunning /\ snd (fstep s' FDelete) = RRunning /\ snd (fstep s' FMake) = RRunning.
Proof. exact successful_reconfigure_keeps_flag. Qed.
Print Assumptions C13_service_successful_reconfigure_keeps_flag.

Theorem C13_service_stop_releases_flag : forall ops g0,
  node (fend ops) = Some g0 ->
  let s' := fst (fstep (fend ops) FStop) in
  snd (fstep (fend ops) FStop) = RNil /\ node s' = None /\ flag s' = false /\
  snd (fstep s' FUpdate) = RNil /\
  exists g, snd (fstep s' (FStart None)) = RGen g /\ g <> g0.
Proof. exact stop_releases_flag. Qed.
Print Assumptions C13_service_stop_releases_flag.

Theorem C13_service_failed_start_releases_flag : forall ops k,
  node (fend ops) = None -> there (fend ops) = true ->
  let s' := fst (fstep (fend ops) (FStart (Some k))) in
  snd (fstep (fend ops) (FStart (Some k))) = RErr /\ flag s' = false /\ node s' = None /\
  snd (fstep s' FUpdate) = RNil.
Proof. exact failed_start_releases_flag. Qed.
Print Assumptions C13_service_failed_start_releases_flag.

(* every history of the service model is accepted by the monitor that judges the real services *)
Theorem C13_service_model_satisfies_monitor : forall ops, fmon ops (frun ops) = true.
Proof. exact service_model_satisfies_monitor. Qed.
Print Assumptions C13_service_model_satisfies_monitor.

(* non-vacuity of the service theorems: start, a failed build, a failed open, a swap, the guards, stop *)
Example C13_service_nonvacuous :
  frun [FStart (Some BPlugin); FUpdate; FStart None; FEmit; FReconf (OBuildFail BCond); FUpdate; FDelete; FMake;
        FReconf OOpenFail; FEmit; FReconf OOk; FEmit; FUpdate; FStop; FUpdate; FMake; FStart None; FEmit] =
  [RErr; RNil; RGen 0; RStamp (Some 0); RErr; RRunning; RRunning; RRunning;
   RErr; RStamp (Some 0); RGen 3; RStamp (Some 3); RRunning; RNil; RNil; RNil; RGen 5; RStamp (Some 5)].
Proof. vm_compute. reflexivity. Qed.

(* the monitor is not trivially true: a guard that opens after a failed build is rejected *)
Example C13_service_monitor_rejects_cleared_flag :
  fmon [FStart None; FReconf (OBuildFail BPlugin); FUpdate] [RGen 0; RErr; RNil] = false.
Proof. vm_compute. reflexivity. Qed.

(* non-vacuity: a run with a successful swap mid-stream, a refused concurrent request, a failed
   Open and a cancelled (withdrawn) request; two generations stamp records, in order *)
Example C13_nonvacuous :
  let s := run_env [EArrive; EReq true; EArrive; EReq false; EProcRel; EOpenRel; EProcRel;
                    EReq false; EOpenRel; EArrive; EReq true; ECancel 3; EProcRel] in
  rev (out s) = [(0, 0); (1, 1); (2, 1)] /\
  map ret_of (reqs s) = [(true, Some ROk); (false, Some RBusy); (false, Some RErrOpen); (true, Some RCancelled)] /\
  applied s = [1] /\ ph s = PEnd.
Proof. vm_compute. repeat split. Qed.
