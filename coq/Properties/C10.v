(* C10 - Fatal failures degrade, transient ones recover (bounded), stopped stays stopped.
   Property theorems only; the proofs are in Life/ClassifyProofs.v, Life/BackoffProofs.v and
   Life/Witness.v.  "_refuted": the faithful model of the code as it stands violates the statement;
   the witness is replayed against the real service by the harness (corpus/C10). *)
From Verif Require Import Life.Classify Life.ClassifyProofs Life.Backoff Life.BackoffProofs
                          Life.RunMap Life.Witness Life.Accept Life.AcceptProofs.
From Verif Require Err.Tree.
From Verif Require Import Life.Fanout Life.FanoutProofs Life.Mon Life.Check Life.FanoutTie.
From Coq Require Import Permutation.
Local Open Scope Z_scope.

(* ---------------- fatal_degrades_no_restart ---------------- *)

(* whatever the flags and whatever recovery would have returned, a tomb whose first reason is fatal
   ends Degraded with the cause recorded and never enters recovery *)
Theorem C10_fatal_degrades_no_restart_v1 : forall f rec,
  decide v1_arms RFatal f rec = Final Degraded TFatal /\ enters_recovery v1_arms RFatal f = false.
Proof. exact (fatal_degrades_generic v1_arms v1_fatal_first). Qed.
Print Assumptions C10_fatal_degrades_no_restart_v1.

Theorem C10_fatal_degrades_no_restart_v2 : forall f rec,
  decide v2_arms RFatal f rec = Final Degraded TFatal /\ enters_recovery v2_arms RFatal f = false.
Proof. exact (fatal_degrades_generic v2_arms v2_fatal_first). Qed.
Print Assumptions C10_fatal_degrades_no_restart_v2.

(* every cause the property lists as fatal carries the fatal tag when it reaches the tomb, in both engines,
   and therefore degrades without entering recovery (v1 DLQ write failure: since fix feff813; v2 processor error
   with the DLQ switched off: since fix a8c7aa9 - reverting either is reported by the harness) *)
Theorem C10_fatal_causes_degrade : forall e k f rec,
  property_fatal k = true ->
  decide (arms_of e) (engine_tag e true k) f rec = Final Degraded TFatal
  /\ enters_recovery (arms_of e) (engine_tag e true k) f = false.
Proof. exact fatal_causes_degrade. Qed.
Print Assumptions C10_fatal_causes_degrade.

Theorem C10_transient_causes_stay_recoverable : forall e k,
  property_fatal k = false -> engine_tag e true k = RTransient.
Proof. exact transient_causes_not_tagged. Qed.
Print Assumptions C10_transient_causes_stay_recoverable.

(* ---------------- transient_restarts_within_bounds ---------------- *)

Theorem C10_transient_enters_recovery_v1 : forall r,
  is_fatal r = false -> r <> RNil -> enters_recovery v1_arms r (mkFlags false false) = true.
Proof. intros r H1 H2. exact (proj1 (transient_recovers_generic v1_arms r eq_refl H1 H2)). Qed.
Print Assumptions C10_transient_enters_recovery_v1.

Theorem C10_transient_enters_recovery_v2 : forall r,
  is_fatal r = false -> r <> RNil -> enters_recovery v2_arms r (mkFlags false false) = true.
Proof. intros r H1 H2. exact (proj1 (transient_recovers_generic v2_arms r eq_refl H1 H2)). Qed.
Print Assumptions C10_transient_enters_recovery_v2.

(* for every timed history of StartWithBackoff (both engines run the same text): every accepted
   attempt sleeps a delay in [Min, Max], at most Min*Factor^attempt, and the restart never happens
   before Min has passed *)
Theorem C10_transient_restarts_within_bounds : forall c evs s,
  bcfg_ok c -> brun c binit evs = Some s ->
  Forall (fun x => b_min c <= a_delay x <= b_max c
                   /\ (b_min c < b_max c -> a_delay x <= b_min c * b_factor c ^ a_n x)
                   /\ (forall tw, a_wake x = Some tw -> a_time x + b_min c <= tw)) (b_atts s).
Proof. exact delays_within_bounds. Qed.
Print Assumptions C10_transient_restarts_within_bounds.

(* ---------------- attempts_bounded ---------------- *)

Theorem C10_attempts_bounded : forall c evs s,
  bcfg_ok c -> 0 <= b_maxretries c -> brun c binit evs = Some s ->
  forall a, started_in a (b_window c) (b_atts s) <= b_maxretries c.
Proof. exact attempts_bounded_all. Qed.
Print Assumptions C10_attempts_bounded.

Theorem C10_unbounded_never_refuses : forall c evs s,
  b_maxretries c = -1 -> brun c binit evs = Some s -> b_refused s = 0.
Proof. exact unbounded_never_refuses. Qed.
Print Assumptions C10_unbounded_never_refuses.

(* an attempt outside the window is forgotten: in every reachable state of the back-off (nothing refused so far,
   the decrement timers that are due have fired), fewer than MaxRetries attempts still inside their window
   means the next attempt is accepted, however many attempts the pipeline made in its life *)
Theorem C10_attempt_outside_window_is_forgotten : forall c evs s d s' o,
  bcfg_ok c -> brun c binit evs = Some s ->
  b_refused s = 0 -> timers_fired c s -> pending c s < b_maxretries c ->
  bstep c s (Attempt d) = Some (s', o) -> exists n, o = OAccepted n d.
Proof.
  intros c evs s d s' o Hc Hr. apply attempt_outside_window_is_forgotten.
  exact (binv_run c evs Hc binit s (binv_init c) Hr).
Qed.
Print Assumptions C10_attempt_outside_window_is_forgotten.

(* the variant in which a restart COPIES the counter instead of sharing it never forgets *)
Example C10_by_value_counter_refuses_isolated_failure :
  let c := mkBcfg 1 5 2 1 20 in
  let evs := [Attempt 1; Tick 1; Wake 0; Tick 100; Dec 0; Attempt 1] in
  (match brun_with bstep c binit evs with Some (_, os) => last os OTick | None => OTick end = OAccepted 1 1)
  /\ (match brun_with bstep_byvalue c binit evs with Some (_, os) => last os OTick | None => OTick end = ORefused 2).
Proof. exact by_value_counter_refuses_isolated_failure. Qed.

(* ---------------- user_stop_never_restarted ---------------- *)

(* v2: a run marked as intentionally stopped never reaches the recover arm, whatever surfaced *)
Theorem C10_user_stop_never_restarted_v2 : forall r f rec,
  f_intentional f = true -> decide v2_arms r f rec <> Restart /\ enters_recovery v2_arms r f = false.
Proof. exact (user_stop_generic v2_arms eq_refl). Qed.
Print Assumptions C10_user_stop_never_restarted_v2.

Theorem C10_user_stop_ends_user_stopped_v2 : forall r rec,
  is_fatal r = false -> r <> RNil ->
  decide v2_arms r (mkFlags false true) rec = Final UserStopped TNil.
Proof. exact user_stop_status_v2. Qed.
Print Assumptions C10_user_stop_ends_user_stopped_v2.

(* v1 has no such arm: a transient error that surfaces during the drain of a user stop restarts *)
Theorem C10_user_stop_never_restarted_v1_refuted :
  refutes_stop (cfg_v1 false) w_stop_drain_v1 = true.
Proof. exact stop_drain_restarts_v1. Qed.
Print Assumptions C10_user_stop_never_restarted_v1_refuted.

(* both engines: a stop admitted while Recovering returns nil and the sleeping back-off restarts *)
Theorem C10_user_stop_in_backoff_v1_refuted :
  refutes_stop (cfg_v1 false) w_force_in_backoff_v1 = true.
Proof. exact force_in_backoff_restarts_v1. Qed.
Print Assumptions C10_user_stop_in_backoff_v1_refuted.

Theorem C10_user_stop_in_backoff_v2_refuted :
  refutes_stop (cfg_v2 false) w_stop_in_backoff_v2 = true /\
  refutes_stop (cfg_v2 false) w_force_in_backoff_v2 = true.
Proof. exact (conj stop_in_backoff_restarts_v2 force_in_backoff_restarts_v2). Qed.
Print Assumptions C10_user_stop_in_backoff_v2_refuted.

(* v2, as shipped: a force stop that lost the tomb's first-reason race (a worker's transient error was
   recorded first) was restarted. Repaired (9382932): the force path marks the run as intentionally stopped,
   so by C10_user_stop_never_restarted_v2 its cleanup can never take the recover arm. *)
Theorem C10_force_stop_loses_race_v2_shipped_refuted :
  refutes_stop (cfg_v2_shipped false) w_force_loses_race_v2 = true.
Proof. exact force_loses_race_restarts_shipped_v2. Qed.
Print Assumptions C10_force_stop_loses_race_v2_shipped_refuted.

Theorem C10_force_stop_marks_intentional_v2 : forall c s id k i sw ch s' l,
  c_engine c = V2 -> f_force_intent (c_fix c) = true ->
  s_user s = Some (id, k, UAct i MForce sw) -> user_step c s ch = Some (s', l) ->
  r_intent (s_runs s' i) = true
  /\ forall rs rec, decide v2_arms rs (flags_of c s' (s_runs s' i)) rec <> Restart
                    /\ enters_recovery v2_arms rs (flags_of c s' (s_runs s' i)) = false.
Proof.
  intros c s id k i sw ch s' l Hv Hf Hu H. unfold user_step in H. rewrite Hu in H.
  destruct (get_run s i) as [r|] eqn:Er; [|discriminate].
  assert (Hi : r_intent (s_runs s' i) = true).
  { unfold is_v1 in H. rewrite Hv, Hf in H. simpl in H.
    destruct sw; inversion H; subst; simpl; unfold fupd; rewrite Nat.eqb_refl;
      destruct (r_phase r); reflexivity. }
  split; [exact Hi|]. intros rs rec. apply (user_stop_generic v2_arms eq_refl).
  unfold flags_of. rewrite Hv. simpl. exact Hi.
Qed.
Print Assumptions C10_force_stop_marks_intentional_v2.

Example C10_force_stop_loses_race_v2_repaired :
  match trace (cfg_v2 false) init w_force_loses_race_repaired_v2 with
  | Some (ls, s) => negb (restart_after_stop ls) && status_eqb (s_status s) UserStopped && quiescent s
  | None => false
  end = true.
Proof. exact force_loses_race_stops_repaired_v2. Qed.

(* the guard that does hold in both engines: a recovery whose entry was replaced or removed
   does not restart *)
Theorem C10_superseded_recovery_never_restarts : forall e shut,
  wake_decision e false shut = Superseded.
Proof. exact superseded_never_restarts. Qed.
Print Assumptions C10_superseded_recovery_never_restarts.

(* ---------------- shutdown_never_restarted ---------------- *)

Theorem C10_shutdown_never_restarted_v2 :
  (forall r f rec, f_shutdown f = true ->
      decide v2_arms r f rec <> Restart /\ enters_recovery v2_arms r f = false)
  /\ (forall live, wake_decision V2 live true <> DoStart).
Proof. exact (conj (shutdown_generic v2_arms eq_refl) shutdown_never_restarts_v2). Qed.
Print Assumptions C10_shutdown_never_restarted_v2.

(* ... but the check and the restart are not atomic: a StopAll that arrives between the shutdown check of
   StartWithBackoff and the publication of the restarted run stops nothing *)
Theorem C10_shutdown_races_restart_v2_refuted :
  refutes_stop (cfg_v2 false) w_shutdown_races_restart_v2 = true.
Proof. exact shutdown_races_restart_v2. Qed.
Print Assumptions C10_shutdown_races_restart_v2_refuted.

Theorem C10_shutdown_ends_stopped_v2 : forall r f rec,
  is_fatal r = false -> r <> RNil -> f_shutdown f = true ->
  exists s, decide v2_arms r f rec = Final s TNil /\
            (s = SystemStopped \/ s = UserStopped /\ f_intentional f = true).
Proof. exact shutdown_status_v2. Qed.
Print Assumptions C10_shutdown_ends_stopped_v2.

Theorem C10_shutdown_never_restarted_v1_refuted :
  refutes_stop (cfg_v1 false) w_shutdown_drain_v1 = true /\
  refutes_stop (cfg_v1 false) w_shutdown_in_backoff_v1 = true /\
  wake_decision V1 true true = DoStart.
Proof. exact (conj shutdown_drain_restarts_v1 (conj shutdown_in_backoff_restarts_v1 shutdown_restarts_v1)). Qed.
Print Assumptions C10_shutdown_never_restarted_v1_refuted.

(* ---------------- first_reason_decides ---------------- *)

Theorem C10_first_reason_decides_v1 : forall r rs f rec,
  decide v1_arms (tomb_err (kills (r :: rs))) f rec = decide v1_arms r f rec.
Proof. exact (first_reason_decides_generic v1_arms). Qed.
Print Assumptions C10_first_reason_decides_v1.

Theorem C10_first_reason_decides_v2 : forall r rs f rec,
  decide v2_arms (tomb_err (kills (r :: rs))) f rec = decide v2_arms r f rec.
Proof. exact (first_reason_decides_generic v2_arms). Qed.
Print Assumptions C10_first_reason_decides_v2.

(* v1, as shipped: the tomb latch was read too early. The node goroutine's deferred nodesWg.Done() ran before
   tomb.v2 recorded the node's error, so the cleanup goroutine could classify RNil for a run that died of a
   failure: UserStopped, the error dropped, no recovery, no Degraded. *)
Theorem C10_first_reason_decides_v1_shipped_refuted :
  match trace (cfg_v1_shipped false) init w_late_kill_v1 with
  | Some (ls, s) =>
      status_eqb (s_status s) UserStopped
      && negb (has_label (fun l => match l with LCall KStart 0 => false | LCall _ _ => true | _ => false end) ls)
      && has_label (fun l => match l with LInj CaTransient => true | _ => false end) ls
      && negb (has_label (fun l => match l with LStatus Recovering | LStatus Degraded => true | _ => false end) ls)
  | None => false
  end = true.
Proof. exact failure_reported_as_user_stopped_v1. Qed.
Print Assumptions C10_first_reason_decides_v1_shipped_refuted.

(* repaired (2f2ec4f: the node Kills the tomb before Done, as v2 does): in every state and whatever the
   schedule chooses, the cleanup goroutine classifies the run by the tomb's first reason *)
Theorem C10_first_reason_decides_at_cleanup : forall c s i ch,
  (c_engine c = V2 \/ f_sync_kill (c_fix c) = true) ->
  s_cleans s i = Some CWait -> clean_step c s i ch = clean_step c s i 0%nat.
Proof.
  intros c s i ch Hc Hpc. unfold clean_step. destruct (get_run s i) as [r|]; [|reflexivity]. rewrite Hpc.
  assert (E : forall n, late_read c r n = false).
  { intros n. unfold late_read, is_v1. destruct Hc as [Hc|Hc]; rewrite Hc; [reflexivity|].
    destruct (c_engine c); reflexivity. }
  rewrite (E ch), (E 0%nat). reflexivity.
Qed.
Print Assumptions C10_first_reason_decides_at_cleanup.

(* ---------------- fan-out (arch-v2, M destinations): the error of a batch pass ---------------- *)

(* funnel.Worker.doNextTask joins the branch errors: the pass's error is fatal iff the error of SOME branch is,
   for any number of branches ... *)
Theorem C10_fanout_fatal_iff_any : forall done,
  Tree.is_fatalo (do_next_task JoinAll done) = existsb Tree.is_fatalo done.
Proof. exact fanout_fatal_iff_any. Qed.
Print Assumptions C10_fanout_fatal_iff_any.

(* ... and in whatever order the branches finished *)
Theorem C10_fanout_order_irrelevant : forall done done',
  Permutation done done' ->
  reason_of_oerr (do_next_task JoinAll done) = reason_of_oerr (do_next_task JoinAll done').
Proof. exact fanout_order_irrelevant. Qed.
Print Assumptions C10_fanout_order_irrelevant.

(* a fatal cause on ANY branch: the run ends Degraded with the cause recorded and never enters recovery, whatever the
   sibling branches returned (transient errors included), whichever failed first, whatever reaches the tomb after the
   worker's error, whatever the stop flags *)
Theorem C10_fanout_fatal_degrades_no_restart_v2 : forall done later f rec,
  existsb Tree.is_fatalo done = true ->
  let r := tomb_err (kills (reason_of_oerr (do_next_task JoinAll done) :: later)) in
  decide v2_arms r f rec = Final Degraded TFatal /\ enters_recovery v2_arms r f = false.
Proof. exact (fun done later f rec => fanout_fatal_degrades_no_restart v2_arms done later f rec v2_fatal_first). Qed.
Print Assumptions C10_fanout_fatal_degrades_no_restart_v2.

(* the worker goroutine Kills with Do's error before the teardown's: a fatal member keeps the tomb fatal *)
Theorem C10_fanout_worker_kills_fatal : forall done closeErr,
  existsb Tree.is_fatalo done = true ->
  tomb_err (kills (worker_kills (do_next_task JoinAll done) closeErr)) = RFatal.
Proof. exact worker_fatal_pass_kills_fatal. Qed.
Print Assumptions C10_fanout_worker_kills_fatal.

(* only transient branch errors: the pass's error is transient and is recovered *)
Theorem C10_fanout_transient_recovers_v2 : forall done,
  existsb Tree.is_fatalo done = false -> existsb Tree.is_some done = true ->
  reason_of_oerr (do_next_task JoinAll done) = RTransient
  /\ enters_recovery v2_arms (reason_of_oerr (do_next_task JoinAll done)) (mkFlags false false) = true.
Proof. exact (fun done => fanout_transient_recovers v2_arms done eq_refl). Qed.
Print Assumptions C10_fanout_transient_recovers_v2.

(* a pool that reports the FIRST branch error only (.WithFirstError()) drops the fatal marker of a branch that fails
   after a transient sibling: the run is restarted; joined, the same results degrade; with the fatal branch
   first the defect is invisible *)
Theorem C10_fanout_first_error_refuted :
  existsb Tree.is_fatalo w_transient_then_fatal = true
  /\ reason_of_oerr (do_next_task FirstError w_transient_then_fatal) = RTransient
  /\ enters_recovery v2_arms (reason_of_oerr (do_next_task FirstError w_transient_then_fatal)) (mkFlags false false) = true
  /\ decide v2_arms (reason_of_oerr (do_next_task FirstError w_transient_then_fatal)) (mkFlags false false) RecRestarted = Restart
  /\ decide v2_arms (reason_of_oerr (do_next_task JoinAll w_transient_then_fatal)) (mkFlags false false) RecRestarted = Final Degraded TFatal
  /\ reason_of_oerr (do_next_task FirstError (rev w_transient_then_fatal)) = RFatal.
Proof. exact fanout_first_error_refuted. Qed.
Print Assumptions C10_fanout_first_error_refuted.

(* the checker's join: for the failures [ms] of one pass (the property's vocabulary) the model's acceptor is handed
   a fatal cause iff a member is one of the property's fatal causes, and the monitor classifies the join the same way *)
Theorem C10_joined_classes_agree : forall cf ms, ms <> [] ->
  engine_cause cf ms = Some (if existsb property_fatal ms then CaFatal else CaTransient)
  /\ pcause_fatal (pcause_join ms) = existsb property_fatal ms.
Proof. exact (fun cf ms H => conj (engine_cause_join cf ms H) (pcause_join_fatal_iff_any ms)). Qed.
Print Assumptions C10_joined_classes_agree.

Theorem C10_joined_fatal_degrades_no_restart : forall e ms later f rec,
  existsb property_fatal ms = true ->
  let r := tomb_err (kills (join_reason (map (engine_tag e true) ms) :: later)) in
  decide (arms_of e) r f rec = Final Degraded TFatal /\ enters_recovery (arms_of e) r f = false.
Proof. exact joined_fatal_degrades_no_restart. Qed.
Print Assumptions C10_joined_fatal_degrades_no_restart.

Example C10_nonvacuous_fanout :
  reason_of_oerr (do_next_task JoinAll [Some (Tree.Leaf 0%nat); None; Some (Tree.Wrap (Tree.FatalN (Tree.Leaf 0%nat)))]) = RFatal
  /\ reason_of_oerr (do_next_task JoinAll [Some (Tree.Leaf 0%nat); None]) = RTransient
  /\ reason_of_oerr (do_next_task JoinAll [None; None]) = RNil
  /\ pcause_join [FDstWrite; FDlqWriteAfterDst] = PFatalDlqWrite /\ mixed_join [FDstWrite; FDlqWriteAfterDst] = true.
Proof. vm_compute. repeat split; reflexivity. Qed.

(* ---------------- tie to the observed behaviour ---------------- *)
(* the trace acceptor is sound: every event log of the real service that the check accepts is the observable
   trace of an interleaving of the model, whose cleanup steps are [decide] over the tomb's first reason *)
Theorem C10_accepted_log_is_a_model_interleaving : forall c cap log,
  Accept.accepts c cap log = Some true -> exists s', AcceptProofs.explains c init log s'.
Proof. exact AcceptProofs.accepts_sound. Qed.
Print Assumptions C10_accepted_log_is_a_model_interleaving.

(* ---------------- non-vacuity ---------------- *)
Example C10_nonvacuous_backoff :
  exists s, brun (mkBcfg 1 10 2 2 50) binit [Attempt 2; Tick 3; Wake 0; Attempt 3; Tick 1; Attempt 1] = Some s
            /\ b_refused s = 1 /\ started_in 0 50 (b_atts s) = 2.
Proof. vm_compute. eexists. repeat split; reflexivity. Qed.

Example C10_nonvacuous_classify :
  decide v2_arms RTransient (mkFlags false false) RecRestarted = Restart
  /\ decide v2_arms RTransient (mkFlags false true) RecRestarted = Final UserStopped TNil
  /\ decide v1_arms RTransient (mkFlags true false) RecRestarted = Restart.
Proof. vm_compute. repeat split; reflexivity. Qed.
