(* C11 - Start, stop and wait always act on the one live run and report its true result.
   Property theorems only; proofs in Life/RunMapProofs.v (invariants, by induction over arbitrary
   action lists = every interleaving) and Life/Witness.v (refutations by computation).
   "_refuted": the faithful model of the code as it stands violates the statement; the witness is
   replayed against the real service by the harness (corpus/C11).
   "_shipped_refuted": the model of the code AS IT WAS FOUND ([shipped]) violates the statement; the defect has
   been repaired since (the commit is named), the model used by the checks is the repaired variant
   ([repaired], cfg_v1 / cfg_v2), for which the positive "_partial" theorems below are proved; reverting the
   commit makes the harness report the finding again.
   "_before_own_close_refuted": the same for the code as it stood before degradeIfCurrent (the closing write of a
   failed recovery was unconditional; all other repairs in place). *)
From Verif Require Import Life.RunMap Life.RunMapProofs Life.Witness.

(* ---------------- at_most_one_live_run (both engines, every configuration) ---------------- *)
Theorem C11_at_most_one_live_run : forall c acts s,
  run_acts c init acts = Some s -> n_open s <= 1.
Proof. exact at_most_one_live_run. Qed.
Print Assumptions C11_at_most_one_live_run.

(* the mechanism: a run whose source plugin is open holds the connector guard *)
Theorem C11_open_run_holds_the_guard : forall c acts s,
  run_acts c init acts = Some s -> forall j, src_open (s_runs s j) = true -> s_guard s = Some j.
Proof. intros c acts s H. exact (run_acts_G c acts init s G_init H). Qed.
Print Assumptions C11_open_run_holds_the_guard.

(* ---------------- running_implies_map_is_live ---------------- *)
Theorem C11_running_implies_map_is_live_v2_shipped_refuted :
  match final (cfg_v2_shipped true) w_blind_delete_v2 with
  | Some s => quiescent s && status_eqb (s_status s) Running && onat_eqb (s_map s) None
              && onat_eqb (s_cur s) (Some 1) && is_live (s_runs s 1)
              && negb (running_map_ok s) && negb (agrees s)
  | None => false
  end = true.
Proof. exact blind_delete_v2. Qed.
Print Assumptions C11_running_implies_map_is_live_v2_shipped_refuted.

Theorem C11_running_implies_map_is_live_v1_refuted :
  match final (cfg_v1 true) w_double_start_v1 with
  | Some s => status_eqb (s_status s) Running && negb (running_map_ok s)
  | None => false
  end = true.
Proof. exact double_start_v1. Qed.
Print Assumptions C11_running_implies_map_is_live_v1_refuted.

(* ---------------- wait_returns_that_runs_result ---------------- *)
(* v2: Stop finds nothing and WaitPipeline returns the PREVIOUS run's recorded error at once, while the
   pipeline is Running and its run is live *)
Theorem C11_wait_returns_that_runs_result_v2_shipped_refuted :
  match trace (cfg_v2_shipped true) init w_blind_delete_calls_v2 with
  | Some (ls, s) =>
      is_live (s_runs s 1) && status_eqb (s_status s) Running
      && has_label (fun l => match l with LRet 2 RetNotRunning => true | _ => false end) ls
      && has_label (fun l => match l with LRet 3 (RetRes (ResCause CaFatal)) => true | _ => false end) ls
  | None => false
  end = true.
Proof. exact blind_delete_calls_v2. Qed.
Print Assumptions C11_wait_returns_that_runs_result_v2_shipped_refuted.

(* ---------------- status_agrees_with_last_run_end ---------------- *)
(* The code before degradeIfCurrent ([cfg_v?_before_own_close]): a Start admitted while Recovering, then the retries
   are exhausted: the recovering run's cleanup writes Degraded over the run the user just started. *)
Theorem C11_status_agrees_with_last_run_end_v1_before_own_close_refuted :
  match final (cfg_v1_before_own_close true) w_start_in_backoff_v1 with
  | Some s => quiescent s && status_eqb (s_status s) Degraded && is_live (s_runs s 1) && negb (agrees s)
  | None => false
  end = true.
Proof. exact start_in_backoff_degrades_live_run_v1. Qed.
Print Assumptions C11_status_agrees_with_last_run_end_v1_before_own_close_refuted.

Theorem C11_status_agrees_with_last_run_end_v2_before_own_close_refuted :
  match final (cfg_v2_before_own_close true) w_start_in_backoff_v2 with
  | Some s => quiescent s && status_eqb (s_status s) Degraded && is_live (s_runs s 1) && negb (agrees s)
  | None => false
  end = true.
Proof. exact start_in_backoff_degrades_live_run_v2. Qed.
Print Assumptions C11_status_agrees_with_last_run_end_v2_before_own_close_refuted.

(* the same schedules on the code as it stands: the closing write is skipped, the user's run stays Running *)
Example C11_start_in_backoff_schedules_repaired :
  (match final (cfg_v1 true) w_start_in_backoff_v1 with
   | Some s => quiescent s && status_eqb (s_status s) Running && is_live (s_runs s 1) && agrees s && running_map_ok s
   | None => false
   end = true)
  /\ (match final (cfg_v2 true) w_start_in_backoff_v2 with
      | Some s => quiescent s && status_eqb (s_status s) Running && is_live (s_runs s 1) && agrees s && running_map_ok s
      | None => false
      end = true).
Proof. exact start_in_backoff_repaired. Qed.

(* A POLITE history of the code before degradeIfCurrent, both engines: the Running write of a recovery restart
   fails, the restarted run is finalized as Degraded by its own cleanup (742a56e / eff71a0), the user starts the
   pipeline again on that status, and the recovering run's cleanup - whose nested Start returned the error - writes
   Degraded a SECOND time, over the new live run. Found by the C11 check on the real services (v2, history shape
   running-write-fails-at-restart); repaired by degradeIfCurrent. *)
Theorem C11_status_agrees_second_closing_write_before_own_close_refuted :
  (match final (cfg_v1_io_before_own_close true) w_stfail_restart_then_start_v1 with
   | Some s => quiescent s && status_eqb (s_status s) Degraded && is_live (s_runs s 2) && negb (agrees s)
   | None => false
   end = true)
  /\ (match final (cfg_v2_io_before_own_close true) w_stfail_restart_then_start_v2 with
      | Some s => quiescent s && status_eqb (s_status s) Degraded && is_live (s_runs s 2) && negb (agrees s)
      | None => false
      end = true).
Proof. exact second_degraded_write_over_new_run. Qed.
Print Assumptions C11_status_agrees_second_closing_write_before_own_close_refuted.

Theorem C11_status_agrees_second_closing_write_repaired_partial :
  (match final (cfg_v1_io true) w_stfail_restart_then_start_v1 with
   | Some s => quiescent s && status_eqb (s_status s) Running && is_live (s_runs s 2) && agrees s && running_map_ok s
   | None => false
   end = true)
  /\ (match final (cfg_v2_io true) w_stfail_restart_then_start_v2 with
      | Some s => quiescent s && status_eqb (s_status s) Running && is_live (s_runs s 2) && agrees s && running_map_ok s
      | None => false
      end = true).
Proof. exact second_degraded_write_skipped_repaired. Qed.
Print Assumptions C11_status_agrees_second_closing_write_repaired_partial.

(* ---------------- teardown_releases_guards ---------------- *)
Theorem C11_teardown_releases_guards_v2_shipped_refuted :
  (match final (cfg_v2_shipped false) w_dlq_open_leak_v2 with
   | Some s => quiescent s && match live_runs s with [] => true | _ => false end && negb (guards_free s)
   | None => false
   end = true)
  /\ (match trace (cfg_v2_shipped false) init w_dlq_open_leak_restart_v2 with
      | Some (ls, _) => has_label (fun l => match l with LRet 1 RetErr => true | _ => false end) ls
      | None => false
      end = true)
  /\ (match final (cfg_v2_shipped true) w_proc_open_leak_v2 with
      | Some s => quiescent s && match live_runs s with [] => true | _ => false end && negb (guards_free s)
      | None => false
      end = true).
Proof. exact (conj dlq_open_leak_v2 (conj dlq_open_leak_refuses_start_v2 proc_open_leak_v2)). Qed.
Print Assumptions C11_teardown_releases_guards_v2_shipped_refuted.

(* ================================================================================================
   The default engine (v1) satisfies the statements for EVERY interleaving in which no Start takes its
   status check while the status is Recovering (polite_run) and the store write of UpdateStatus(StatusRunning)
   does not fail (c_stfail c = false; with it both engines were refuted as shipped and are repaired since, see the end of this file); the refutations above all go through a
   Start admitted during the recovery back-off.  Proof: inductive invariant Life/RunMapInv.v (Inv). *)
From Verif Require Import Life.RunMapInv.

Theorem C11_running_implies_map_is_live_v1_partial : forall c acts s,
  c_engine c = V1 -> c_stfail c = false -> polite_run c init acts -> run_acts c init acts = Some s ->
  s_status s = Running ->
  exists r, s_map s = Some r /\ s_cur s = Some r /\ alive (s_runs s r).
Proof.
  intros c acts s Hv Hsf Hp Hr. apply running_implies_map_is_live_inv.
  exact (proj1 (run_Inv_GG c acts Hv Hsf init s Inv_init GG_init Hp Hr)).
Qed.
Print Assumptions C11_running_implies_map_is_live_v1_partial.

(* a WaitPipeline / Stop / StopAndWait that looks the pipeline up while it is Running resolves the run that
   announced Running (same statement: they resolve through the map), and a wait that joined run r returns
   the result of r's tomb *)
Theorem C11_wait_returns_that_runs_result_v1_partial : forall c acts s,
  c_engine c = V1 -> c_stfail c = false -> polite_run c init acts -> run_acts c init acts = Some s ->
  (s_status s = Running -> exists r, s_map s = Some r /\ s_cur s = Some r /\ alive (s_runs s r))
  /\ (forall id r s' l, get_wait (s_waits s) id = Some (WJoin r) -> waiter_step s id = Some (s', l) ->
        exists x, r_res (s_runs s r) = Some x /\ r < s_next s /\ l = LTau).
Proof.
  intros c acts s Hv Hsf Hp Hr. split.
  - apply running_implies_map_is_live_inv. exact (proj1 (run_Inv_GG c acts Hv Hsf init s Inv_init GG_init Hp Hr)).
  - intros id r s' l. apply wait_returns_joined_result.
Qed.
Print Assumptions C11_wait_returns_that_runs_result_v1_partial.

Theorem C11_status_agrees_with_last_run_end_v1_partial : forall c acts s,
  c_engine c = V1 -> c_stfail c = false -> polite_run c init acts -> run_acts c init acts = Some s ->
  quiescent s = true -> agrees s = true.
Proof.
  intros c acts s Hv Hsf Hp Hr. apply status_agrees_inv.
  exact (proj1 (run_Inv_GG c acts Hv Hsf init s Inv_init GG_init Hp Hr)).
Qed.
Print Assumptions C11_status_agrees_with_last_run_end_v1_partial.

Theorem C11_teardown_releases_guards_v1_partial : forall c acts s,
  c_engine c = V1 -> c_stfail c = false -> polite_run c init acts -> run_acts c init acts = Some s ->
  quiescent s = true -> live_runs s = [] -> guards_free s = true.
Proof.
  intros c acts s Hv Hsf Hp Hr.
  destruct (run_Inv_GG c acts Hv Hsf init s Inv_init GG_init Hp Hr) as [HI HG].
  apply guards_released_inv; assumption.
Qed.
Print Assumptions C11_teardown_releases_guards_v1_partial.

(* non-vacuity: a polite interleaving (start, fail, recover, restart, stop) that ends quiescent *)
Example C11_nonvacuous :
  let acts := start_v1 0 ++ [AOpen 0] ++ fail_v1 0 CaTransient ++ clean 0 10 ++ [AOpen 1; ACall KStop 1] ++ user 4
              ++ [ATd 1; AEnd 1] ++ clean 1 4 in
  match run_acts (cfg_v1 true) init acts with
  | Some s => quiescent s && agrees s && guards_free s && status_eqb (s_status s) UserStopped
  | None => false
  end = true.
Proof. vm_compute. reflexivity. Qed.

Example C11_nonvacuous_polite :
  polite_run (cfg_v1 true) init
    (start_v1 0 ++ [AOpen 0] ++ fail_v1 0 CaTransient ++ clean 0 10 ++ [AOpen 1; ACall KStop 1] ++ user 4
     ++ [ATd 1; AEnd 1] ++ clean 1 4).
Proof. vm_compute. repeat split; try exact I; intros; discriminate. Qed.

(* ================================================================================================
   The arch-v2 engine, REPAIRED (838f9f1 compare-and-delete, 7f15ba5 / 6946e0c failed opens release what they
   took), satisfies the same statements for every polite interleaving.  Proof: inductive invariant
   Life/RunMapInvV2.v (Inv2).  The shipped variant is refuted above (blind delete, leaking opens); without
   [polite] the default engine is still refuted (C11_running_implies_map_is_live_v1_refuted: Start admitted while
   Recovering, two runs published; open finding). For arch-v2 no refuting schedule of the model as it stands is
   known since degradeIfCurrent; the theorems keep the hypothesis. *)
From Verif Require Import Life.RunMapInvV2.

Theorem C11_running_implies_map_is_live_v2_partial : forall c acts s,
  v2_repaired c -> polite_run c init acts -> run_acts c init acts = Some s ->
  s_status s = Running ->
  exists r, s_map s = Some r /\ s_cur s = Some r /\ alive (s_runs s r).
Proof.
  intros c acts s Hc Hp Hr. apply running_implies_map_is_live_inv2.
  exact (run_Inv2 c acts Hc init s Inv2_init Hp Hr).
Qed.
Print Assumptions C11_running_implies_map_is_live_v2_partial.

Theorem C11_wait_returns_that_runs_result_v2_partial : forall c acts s,
  v2_repaired c -> polite_run c init acts -> run_acts c init acts = Some s ->
  (s_status s = Running -> exists r, s_map s = Some r /\ s_cur s = Some r /\ alive (s_runs s r))
  /\ (forall id r s' l, get_wait (s_waits s) id = Some (WJoin r) -> waiter_step s id = Some (s', l) ->
        exists x, r_res (s_runs s r) = Some x /\ r < s_next s /\ l = LTau).
Proof.
  intros c acts s Hc Hp Hr. split.
  - apply running_implies_map_is_live_inv2. exact (run_Inv2 c acts Hc init s Inv2_init Hp Hr).
  - intros id r s' l. apply wait_returns_joined_result.
Qed.
Print Assumptions C11_wait_returns_that_runs_result_v2_partial.

Theorem C11_status_agrees_with_last_run_end_v2_partial : forall c acts s,
  v2_repaired c -> polite_run c init acts -> run_acts c init acts = Some s ->
  quiescent s = true -> agrees s = true.
Proof.
  intros c acts s Hc Hp Hr. apply status_agrees_inv2. exact (run_Inv2 c acts Hc init s Inv2_init Hp Hr).
Qed.
Print Assumptions C11_status_agrees_with_last_run_end_v2_partial.

Theorem C11_teardown_releases_guards_v2_partial : forall c acts s,
  v2_repaired c -> polite_run c init acts -> run_acts c init acts = Some s ->
  quiescent s = true -> live_runs s = [] -> guards_free s = true.
Proof.
  intros c acts s Hc Hp Hr.
  destruct (run_Inv2_GG c acts Hc init s Inv2_init G_init GG_init Hp Hr) as [HI HG].
  apply guards_released_inv2; assumption.
Qed.
Print Assumptions C11_teardown_releases_guards_v2_partial.

(* non-vacuity: the configuration the checks use is a repaired v2 configuration; a polite v2 interleaving
   (start, fail, recover, restart, stop) ends quiescent; the schedules that refuted the shipped variant
   now end in agreement *)
Example C11_v2_repaired_cfg : v2_repaired (cfg_v2 true) /\ v2_repaired (cfg_v2 false).
Proof. split; constructor; reflexivity. Qed.

Definition nv_acts_v2 : list act :=
  start_v2 0 ++ fail_v1 0 CaTransient ++ clean 0 12 ++ [ACall KStop 1] ++ user 4 ++ [AEnd 1] ++ clean 1 4.

Example C11_nonvacuous_v2 :
  match run_acts (cfg_v2 true) init nv_acts_v2 with
  | Some s => quiescent s && agrees s && guards_free s && status_eqb (s_status s) UserStopped
  | None => false
  end = true.
Proof. vm_compute. reflexivity. Qed.

Example C11_nonvacuous_polite_v2 : polite_run (cfg_v2 true) init nv_acts_v2.
Proof. vm_compute. repeat split; try exact I; intros; discriminate. Qed.

Example C11_shipped_witnesses_repaired_v2 :
  (match final (cfg_v2 true) w_blind_delete_v2 with
   | Some s => quiescent s && status_eqb (s_status s) Running && onat_eqb (s_map s) (Some 1) && running_map_ok s && agrees s
   | None => false
   end = true)
  /\ (match final (cfg_v2 true) w_proc_open_leak_v2 with
      | Some s => quiescent s && match live_runs s with [] => true | _ => false end && guards_free s
      | None => false
      end = true).
Proof. exact (conj blind_delete_repaired_v2 proc_open_fail_repaired_v2). Qed.

(* ================================================================================================
   A failing store write of UpdateStatus(StatusRunning) is an action of the model (c_stfail).
   As shipped (before 742a56e / eff71a0, [cfg_v?_io_shipped]) the statements are refuted with it, in both engines
   (findings keyed <engine>/failed-running-write/..., repaired since): *)
Theorem C11_running_implies_map_is_live_failed_write_v1_shipped_refuted :
  match trace (cfg_v1_io_shipped true) init (w_stfail_start_v1 ++ [ACall KStop 1] ++ user 2) with
  | Some (ls, s) => quiescent s && status_eqb (s_status s) Running && onat_eqb (s_map s) None && is_live (s_runs s 0)
                    && negb (agrees s)
                    && has_label (fun l => match l with LRet 0 RetErr => true | _ => false end) ls
                    && has_label (fun l => match l with LRet 1 RetNotRunning => true | _ => false end) ls
  | None => false
  end = true.
Proof. exact stfail_start_leaks_run_v1. Qed.
Print Assumptions C11_running_implies_map_is_live_failed_write_v1_shipped_refuted.

Theorem C11_status_agrees_failed_write_at_restart_shipped_refuted :
  (match final (cfg_v1_io_shipped true) w_stfail_restart_v1 with
   | Some s => quiescent s && status_eqb (s_status s) Degraded && is_live (s_runs s 1) && negb (agrees s)
   | None => false
   end = true)
  /\ (match final (cfg_v2_io_shipped true) w_stfail_restart_v2 with
      | Some s => quiescent s && status_eqb (s_status s) Degraded && is_live (s_runs s 1) && negb (agrees s)
                  && negb (guards_free s)
      | None => false
      end = true).
Proof. exact (conj stfail_restart_leaks_run_v1 stfail_restart_leaks_run_v2). Qed.
Print Assumptions C11_status_agrees_failed_write_at_restart_shipped_refuted.

(* v2 as shipped, the write fails at the user's Start: startupDone is closed all the same, the run can be stopped *)
Example C11_failed_write_at_start_is_stoppable_v2_shipped :
  match trace (cfg_v2_io_shipped true) init w_stfail_start_v2 with
  | Some (ls, s) => quiescent s && agrees s && guards_free s && status_eqb (s_status s) UserStopped
                    && has_label (fun l => match l with LRet 0 RetErr => true | _ => false end) ls
                    && has_label (fun l => match l with LRet 1 RetNil => true | _ => false end) ls
  | None => false
  end = true.
Proof. exact stfail_start_stoppable_v2. Qed.

(* The code as it stands (742a56e / eff71a0 and the wait added to runPipeline; [cfg_v?_io] = repaired with the
   failing write as an action): the run whose Running write failed is Killed with a fatal error, finalized by its
   own cleanup goroutine, and the failing Start (user's or nested in a recovery) does not return before that.
   Everything ends quiescent with no live run, the stored status (Degraded) agrees with the runs, the guards are
   free, Start returned the error after the closing status. These are the histories of the refutations above; the
   general statement (every history with failing status writes) is not proved: the inductive invariants of
   RunMapInv.v / RunMapInvV2.v assume c_stfail = false. The check accepts every observed log with a failing
   Running write against this model and the monitor decides the property on it. *)
Theorem C11_failed_write_winds_the_run_down_repaired_partial :
  (match trace (cfg_v1_io true) init w_stfail_start_repaired_v1 with
   | Some (ls, s) => quiescent s && agrees s && guards_free s && status_eqb (s_status s) Degraded
                     && onat_eqb (s_map s) None && closing_before_ret ls
                     && has_label (fun l => match l with LRet 0 RetErr => true | _ => false end) ls
                     && negb (has_label (fun l => match l with LNotify _ => true | _ => false end) ls)
   | None => false
   end = true)
  /\ (match trace (cfg_v2_io true) init w_stfail_start_repaired_v2 with
      | Some (ls, s) => quiescent s && agrees s && guards_free s && status_eqb (s_status s) Degraded
                        && onat_eqb (s_map s) None && closing_before_ret ls
                        && has_label (fun l => match l with LRet 0 RetErr => true | _ => false end) ls
                        && has_label (fun l => match l with LNotify (ResCause CaFatal) => true | _ => false end) ls
      | None => false
      end = true)
  /\ (match final (cfg_v1_io true) w_stfail_restart_repaired_v1 with
      | Some s => quiescent s && agrees s && guards_free s && status_eqb (s_status s) Degraded
                  && match live_runs s with [] => true | _ => false end
      | None => false
      end = true)
  /\ (match final (cfg_v2_io true) w_stfail_restart_repaired_v2 with
      | Some s => quiescent s && agrees s && guards_free s && status_eqb (s_status s) Degraded
                  && match live_runs s with [] => true | _ => false end
      | None => false
      end = true).
Proof.
  exact (conj stfail_start_repaired_v1 (conj stfail_start_repaired_v2
         (conj stfail_restart_repaired_v1 stfail_restart_repaired_v2))).
Qed.
Print Assumptions C11_failed_write_winds_the_run_down_repaired_partial.

(* The default engine as it stands, open finding: a WaitPipeline that overlaps the failing Start is answered nil
   while the status says Running, the Killed run is still live and its Start has not returned (the publication was
   rolled back before the run is dead). *)
Theorem C11_wait_returns_that_runs_result_during_failed_start_v1_refuted :
  match trace (cfg_v1_io true) init w_wait_during_failed_start_v1 with
  | Some (ls, s) => status_eqb (s_status s) Running && onat_eqb (s_map s) None && is_live (s_runs s 0)
                    && has_label (fun l => match l with LRet 1 RetNil => true | _ => false end) ls
                    && negb (has_label (fun l => match l with LRet 0 _ => true | _ => false end) ls)
  | None => false
  end = true.
Proof. exact wait_during_failed_start_returns_nil_v1. Qed.
Print Assumptions C11_wait_returns_that_runs_result_during_failed_start_v1_refuted.

(* the failing Start cannot return (and the recovering run's cleanup cannot go on to write Degraded) while the run
   it Killed is still live: the model has no step for it *)
Theorem C11_failed_start_blocks_until_run_finalized :
  (trace (cfg_v1_io true) init ([ACall KStart 0] ++ user 5 ++ [AUser 1; AUser 0]) = None)
  /\ (trace (cfg_v2_io true) init ([ACall KStart 0] ++ user 8 ++ [AUser 1; AUser 0]) = None)
  /\ (trace (cfg_v1_io true) init (start_v1 0 ++ [AOpen 0] ++ fail_v1 0 CaTransient ++ clean 0 8 ++ [AClean 0 1; AClean 0 0]) = None).
Proof. exact stfail_start_blocks_until_finalized. Qed.
Print Assumptions C11_failed_start_blocks_until_run_finalized.

(* ================================================================================================
   Tie between the theorems and the observed behaviour: the trace acceptor is sound. Every event log of
   the real service that the check accepts (bit 0 clear) is the observable trace of an interleaving of the
   model; the theorems above hold for the state the model is in after that log. *)
From Verif Require Import Life.Accept Life.AcceptProofs.

Theorem C11_accepted_log_is_a_model_interleaving : forall c cap log,
  accepts c cap log = Some true -> exists s', explains c init log s'.
Proof. exact accepts_sound. Qed.
Print Assumptions C11_accepted_log_is_a_model_interleaving.

Theorem C11_at_most_one_live_run_after_accepted_log : forall c cap log,
  accepts c cap log = Some true -> exists s', explains c init log s' /\ n_open s' <= 1.
Proof.
  intros c cap log H. destruct (accepts_sound c cap log H) as [s' Hex]. exists s'. split; [exact Hex|].
  destruct (explains_run c _ _ _ Hex) as [acts Ha]. eapply at_most_one_live_run; eauto.
Qed.
Print Assumptions C11_at_most_one_live_run_after_accepted_log.
