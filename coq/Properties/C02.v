(* C02 - source position is durable before the connector is told, and only moves forward:
   property theorems only.  Model: Conn/Persister.v + Conn/SourceAck.v (every action list = every
   schedule and every fault).  Acceptor and monitors over the observed event log: Conn/Trace.v. *)
From Coq Require Import Sorted.
From Verif Require Import Conn.Crash Conn.TraceProofs Conn.ModelProofs Conn.Theorems Conn.FlushCtx.

(* --- what decides the property on a log of the real code --- *)
Theorem C02_accepted_log_satisfies_monitor : forall c l,
  fixed c = true -> accepts c l = true -> Mon_C02 true c l = true.
Proof. exact accepted_satisfies_Mon_C02. Qed.
Print Assumptions C02_accepted_log_satisfies_monitor.

(* for flushNow as written (S1) only the weakened monitor follows *)
Theorem C02_accepted_log_satisfies_weak_monitor : forall c l,
  accepts c l = true -> Mon_C02 false c l = true.
Proof. exact accepted_satisfies_weak_Mon_C02. Qed.
Print Assumptions C02_accepted_log_satisfies_weak_monitor.

(* --- the model: any schedule, any fault --- *)
Theorem C02_model_log_accepted : forall m, 1 <= retries (m_cfg m) ->
  forall acts, accepts (m_cfg m) (run_log m acts) = true.
Proof. exact model_log_accepted. Qed.
Print Assumptions C02_model_log_accepted.

(* a plugin ack (tag n) comes after a committed transaction that holds a successful write for the
   source with a tag n' >= n, and its positions are those of the n-th engine ack *)
Theorem C02_plugin_ack_after_commit : forall m, 1 <= retries (m_cfg m) ->
  forall acts l1 s n ks l2,
  fixed (m_cfg m) = true -> run_log m acts = l1 ++ EPAck s n ks :: l2 ->
  0 < n /\ nth_error (eacks s l1) (n - 1) = Some ks /\
  exists j1 ws snap j2 n' p,
    l1 = j1 ++ ECommit ws true snap :: j2 /\ In (mkW s n' p true) ws /\ n <= n'.
Proof. exact plugin_ack_after_commit. Qed.
Print Assumptions C02_plugin_ack_after_commit.

Theorem C02_failed_write_never_acks : forall m, 1 <= retries (m_cfg m) ->
  forall acts l1 s n ks l2,
  fixed (m_cfg m) = true -> run_log m acts = l1 ++ EPAck s n ks :: l2 ->
  ~ (forall j1 ws ok snap j2 w, l1 = j1 ++ ECommit ws ok snap :: j2 -> In w ws -> w_s w = s -> n <= w_tag w ->
                               ok && w_ok w = false).
Proof. exact failed_write_never_acks. Qed.
Print Assumptions C02_failed_write_never_acks.

(* hypothesis: the engine acks in read order without gap, repeat or empty position *)
Theorem C02_stored_position_monotone : forall m, 1 <= retries (m_cfg m) ->
  forall acts l1 ws snap l2 w,
  run_log m acts = l1 ++ ECommit ws true snap :: l2 -> In w ws -> w_ok w = true ->
  engine_in_order (m_cfg m) (w_s w) l1 ->
  stored_pos (m_cfg m) (w_s w) l1 <= w_pos w /\ (w_tag w <> 0 -> w_pos w <> 0) /\
  stored_pos (m_cfg m) (w_s w) (l1 ++ [ECommit ws true snap]) = w_pos w.
Proof. exact stored_position_monotone. Qed.
Print Assumptions C02_stored_position_monotone.

Theorem C02_commit_covers_handled : forall m, 1 <= retries (m_cfg m) ->
  forall acts l1 ws snap l2 w,
  run_log m acts = l1 ++ ECommit ws true snap :: l2 -> In w ws -> w_ok w = true ->
  ((w_tag w = 0 /\ w_pos w = init_of (m_cfg m) (w_s w)) \/
   (0 < w_tag w /\ exists ks, nth_error (eacks (w_s w) l1) (w_tag w - 1) = Some ks /\ lastp_of ks = w_pos w)) /\
  (engine_in_order (m_cfg m) (w_s w) l1 ->
   forall r, In r (ereads (w_s w) l1) -> r <= w_pos w -> exists ks, In ks (eacks (w_s w) l1) /\ In r ks).
Proof. exact commit_covers_handled. Qed.
Print Assumptions C02_commit_covers_handled.

(* plugin acks = engine acks in order, possibly with some missing; none missing if no send failed *)
Theorem C02_deferred_fifo : forall m, 1 <= retries (m_cfg m) ->
  forall acts s,
  let l := run_log m acts in
  StronglySorted lt (map fst (epacks s l)) /\
  (forall n ks, In (n, ks) (epacks s l) -> 0 < n /\ nth_error (eacks s l) (n - 1) = Some ks) /\
  (sendfails s l = 0 -> map fst (epacks s l) = seq 1 (length (epacks s l))).
Proof. exact deferred_fifo. Qed.
Print Assumptions C02_deferred_fifo.

(* a healthy teardown (nothing failed, it started quiet with every durable ack delivered, only its own
   flush ran, no bounded wait timed out) has delivered every ack made before it began when it cancels
   the stream *)
Theorem C02_teardown_drains : forall m, 1 <= retries (m_cfg m) ->
  forall acts s,
  let y := run m (init_sys m) acts in
  let t := state_after (m_cfg m) (log_of y) in
  pc (Src y s) = 3 -> dq (Src y s) = [] -> timedout (Src y s) = false -> healthy t (src t s) = true ->
  tdacks (src t s) <= lastp (src t s).
Proof. exact teardown_drains. Qed.
Print Assumptions C02_teardown_drains.

(* flushNow as written: the full statement is refuted (finding S1) *)
Theorem C02_plugin_ack_after_commit_refuted :
  let l := run_log s1_model s1_schedule in
  l = [ERead 0 1; EAck 0 [1]; ETxBegin; ECommit [mkW 0 1 1 false] true [(0, 0)]; EPAck 0 1 [1]] /\
  accepts s1_cfg l = true /\ Mon_C02 true s1_cfg l = false /\ Mon_C02 false s1_cfg l = true.
Proof. exact plugin_ack_after_commit_refuted. Qed.
Print Assumptions C02_plugin_ack_after_commit_refuted.

(* the strict and the weakened monitor differ only when a transaction with a failed Set committed
   (what the finding key persister.flushNow/set-fails-commit-ok stands on) *)
Theorem C02_strict_differs_only_by_failed_set : forall c l,
  Mon_C02 true c l = false -> Mon_C02 false c l = true ->
  exists ws snap, In (ECommit ws true snap) l /\ all_wok ws = false.
Proof. exact strict_differs_only_by_failed_set. Qed.
Print Assumptions C02_strict_differs_only_by_failed_set.

(* what the engine hypothesis means in terms of the log *)
Theorem C02_engine_in_order_spec : forall c s l,
  accepts c l = true -> engine_in_order c s l ->
  StronglySorted lt (init_of c s :: ereads s l) /\
  (exists k, concat (eacks s l) = firstn k (ereads s l)) /\
  Forall (fun ks => ks <> []) (eacks s l).
Proof. exact engine_in_order_spec. Qed.
Print Assumptions C02_engine_in_order_spec.

(* --- forced flushes (Persister.Flush(ctx), Source.Teardown(ctx)) with a live, done or expiring context --- *)
(* the model's run does not depend on the contexts the forced flushes / teardowns are called with *)
Theorem C02_forced_flush_ctx_irrelevant : forall m acts,
  run_log m (map erase_ctx acts) = run_log m acts.
Proof. exact run_log_ctx_irrelevant. Qed.
Print Assumptions C02_forced_flush_ctx_irrelevant.

(* two transactions never overlap, whatever context a flush is forced with: between two ETxBegin lies
   the end (commit or failed NewTransaction) of the first *)
Theorem C02_flushes_serialized : forall m, 1 <= retries (m_cfg m) ->
  forall acts l1 l2 l3,
  run_log m acts = l1 ++ ETxBegin :: l2 ++ ETxBegin :: l3 -> existsb tx_end l2 = true.
Proof. exact flushes_serialized. Qed.
Print Assumptions C02_flushes_serialized.

(* the snapshots of one source reach the store in the order they were taken (every commit attempt) *)
Theorem C02_commits_in_snapshot_order : forall m, 1 <= retries (m_cfg m) ->
  forall acts l1 ws ok snap l2 ws' ok' snap' l3 w w',
  run_log m acts = l1 ++ ECommit ws ok snap :: l2 ++ ECommit ws' ok' snap' :: l3 ->
  In w ws -> In w' ws' -> w_s w = w_s w' -> w_tag w < w_tag w'.
Proof. exact commits_in_snapshot_order. Qed.
Print Assumptions C02_commits_in_snapshot_order.

(* the same two facts are what the acceptor enforces on a log of the real code *)
Theorem C02_accepted_log_serialized : forall c l1 l2 l3,
  accepts c (l1 ++ ETxBegin :: l2 ++ ETxBegin :: l3) = true -> existsb tx_end l2 = true.
Proof. exact accepted_flushes_serialized. Qed.
Print Assumptions C02_accepted_log_serialized.

Theorem C02_accepted_log_commits_in_snapshot_order : forall c l1 ws ok snap l2 ws' ok' snap' l3 w w',
  accepts c (l1 ++ ECommit ws ok snap :: l2 ++ ECommit ws' ok' snap' :: l3) = true ->
  In w ws -> In w' ws' -> w_s w = w_s w' -> w_tag w < w_tag w'.
Proof. exact accepted_commits_in_snapshot_order. Qed.
Print Assumptions C02_accepted_log_commits_in_snapshot_order.

(* --- non-vacuity: two sources, a healthy teardown at the instant the stream is cancelled --- *)

Example C02_nonvacuous :
  let l := run_log nv_model nv_schedule in
  let y := run nv_model (init_sys nv_model) nv_schedule in
  let t := state_after nv_cfg l in
  epacks 0 l = [(1, [1; 2]); (2, [3])] /\ epacks 1 l = [(1, [4])] /\
  engine_in_order nv_cfg 0 l /\ stored_pos nv_cfg 0 l = 3 /\ stored_pos nv_cfg 1 l = 4 /\
  pc (Src y 0) = 3 /\ dq (Src y 0) = [] /\ timedout (Src y 0) = false /\ healthy t (src t 0) = true /\
  tdacks (src t 0) = 2 /\ lastp (src t 0) = 2 /\ Mon_C02 true nv_cfg l = true.
Proof. vm_compute. repeat split. Qed.

(* the "quiet start" hypothesis of C02_teardown_drains is needed: with two sources a graceful teardown in
   which nothing fails and no wait times out can still drop the last ack (late flush callback) *)
Example C02_teardown_needs_quiet_start :
  let y := run (mkM late_cb_cfg 100) (init_sys (mkM late_cb_cfg 100)) late_cb_schedule in
  eacks 0 (log_of y) = [[1]] /\ epacks 0 (log_of y) = [] /\ timedout (Src y 0) = false /\
  In (ETdEnd 0 true) (log_of y) /\
  forallb (fun e => match e with ECommit ws ok _ => ok && all_wok ws | ETxFail => false | ESendFail _ _ => false | _ => true end)
          (log_of y) = true.
Proof. exact teardown_needs_quiet_start. Qed.

(* the drain clause with a send parked in the plugin stream when Teardown begins *)
Example C02_held_send_teardown_must_drain :
  accepts held_cfg (held_log false) = false /\ Mon_C02 true held_cfg (held_log false) = false /\
  accepts held_cfg (held_log true) = true /\ Mon_C02 true held_cfg (held_log true) = true.
Proof. pose proof held_send_teardown_must_drain as H. tauto. Qed.

(* forced flushes with a dead / expiring context in the model: the second write starts only after the
   first has committed; and the log of a persister that lets them overlap on a last-commit-wins store
   (the newer write commits first, the older overwrites it) is rejected by acceptor and monitor *)
Example C02_forced_flush_dead_ctx_waits :
  run_log fc_model fc_schedule =
    [ERead 0 1; EAck 0 [1]; ETxBegin; ERead 0 2; EAck 0 [2];
     ECommit [mkW 0 1 1 true] true [(1, 1)]; ETxBegin; ECommit [mkW 0 2 2 true] true [(2, 2)]] /\
  Mon_C02 true fc_cfg (run_log fc_model fc_schedule) = true.
Proof. exact forced_flush_dead_ctx_waits. Qed.

Example C02_overlapping_forced_flush_rejected :
  accepts fc_cfg fc_overlap_log = false /\ Mon_C02 true fc_cfg fc_overlap_log = false /\
  Mon_C02 false fc_cfg fc_overlap_log = false.
Proof. exact overlapping_forced_flush_rejected. Qed.
