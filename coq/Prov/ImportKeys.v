(* Proofs about the import model, part 5: what the actions Build emits for one cell do to it -
   run to the end (convergence), and run up to a failure and rolled back (atomicity). *)
From Verif Require Import Prov.Import Prov.ImportProofs Prov.ImportCells Prov.ImportBuild.

Lemma dlq_eqb_eq a b : dlq_eqb a b = true -> a = b.
Proof.
  unfold dlq_eqb. intros H. repeat (apply andb_prop in H; destruct H as [H ?]).
  repeat match goal with Hx : (_ =? _) = true |- _ => apply Nat.eqb_eq in Hx end.
  destruct a, b; simpl in *; congruence.
Qed.
Lemma procc_eqb_eq a b : procc_eqb a b = true -> a = b.
Proof.
  unfold procc_eqb. intros H. repeat (apply andb_prop in H; destruct H as [H ?]).
  repeat match goal with Hx : (_ =? _) = true |- _ => apply Nat.eqb_eq in Hx end.
  destruct a, b; simpl in *; congruence.
Qed.
Lemma procc_eqb_refl a : procc_eqb a a = true.
Proof. unfold procc_eqb. rewrite !Nat.eqb_refl. reflexivity. Qed.
Lemma dlq_eqb_refl a : dlq_eqb a a = true.
Proof. unfold dlq_eqb. rewrite !Nat.eqb_refl. reflexivity. Qed.
Lemma ids_eqb_refl a : ids_eqb a a = true.
Proof. apply ids_eqb_eq. reflexivity. Qed.

Lemma pipe_shallow_pinst o n : pipe_shallow_eqb o n = true -> pinst_of o = pinst_of n.
Proof.
  unfold pipe_shallow_eqb. intros H. repeat (apply andb_prop in H; destruct H as [H ?]).
  repeat match goal with Hx : (_ =? _) = true |- _ => apply Nat.eqb_eq in Hx end.
  repeat match goal with Hx : ids_eqb _ _ = true |- _ => apply ids_eqb_eq in Hx end.
  match goal with Hx : dlq_eqb _ _ = true |- _ => apply dlq_eqb_eq in Hx end.
  unfold pinst_of. congruence.
Qed.

Lemma conn_same o n stt :
  Bool.eqb (c_src o) (c_src n) = true -> conn_mutable_eqb o n = true -> cinst_of o stt = cinst_of n stt.
Proof.
  unfold conn_mutable_eqb. intros Hs H. apply eqb_prop in Hs. repeat (apply andb_prop in H; destruct H as [H ?]).
  repeat match goal with Hx : (_ =? _) = true |- _ => apply Nat.eqb_eq in Hx end.
  match goal with Hx : ids_eqb _ _ = true |- _ => apply ids_eqb_eq in Hx end.
  unfold cinst_of. congruence.
Qed.

(* validity, field by field *)
Lemma valid_fields c : valid c = true ->
  (pl_name c =? 0) = false /\ dlq_ok (pl_dlq c) = true
  /\ (forall x, In x (pl_conns c) -> (c_name x =? 0) = false /\ (c_plugin x =? 0) = false
                                     /\ forall q, In q (c_procs x) -> valid_proc q = true)
  /\ (forall q, In q (pl_procs c) -> valid_proc q = true).
Proof.
  unfold valid. intros H. repeat (apply andb_prop in H; destruct H as [H ?]).
  split; [apply Nat.ltb_lt in H; apply Nat.eqb_neq; lia|]. split; [assumption|]. split.
  - intros x Hx. match goal with Hf : forallb valid_conn _ = true |- _ => rewrite forallb_forall in Hf; specialize (Hf x Hx) end.
    unfold valid_conn in *. repeat match goal with Hc : (_ && _) = true |- _ => apply andb_prop in Hc; destruct Hc end.
    repeat match goal with Hc : (0 <? _) = true |- _ => apply Nat.ltb_lt in Hc end.
    split; [apply Nat.eqb_neq; lia|]. split; [apply Nat.eqb_neq; lia|].
    intros q Hq. match goal with Hf : forallb valid_proc _ = true |- _ => rewrite forallb_forall in Hf; apply Hf; exact Hq end.
  - intros q Hq. match goal with Hf : forallb valid_proc (pl_procs c) = true |- _ => rewrite forallb_forall in Hf; apply Hf; exact Hq end.
Qed.

Lemma valid_proc_fields q : valid_proc q = true -> good_plugin (p_plugin q) = true /\ (0 <? p_workers q) = true.
Proof. unfold valid_proc. intros H. apply andb_prop in H. exact H. Qed.

(* ---------------------------------------------------------------- cells: evaluating lifted actions *)
Lemma ado_P p v v' a : ado repaired a = liftP p -> runs p v v' ->
  cell_of (ado repaired a (CP v) None) = CP v' /\ ok_of (ado repaired a (CP v) None) = true.
Proof. intros E R. rewrite E, liftP_CP. destruct (runs_cell _ _ _ R) as [-> ->]. auto. Qed.
Lemma ado_C p v v' a : ado repaired a = liftC p -> runs p v v' ->
  cell_of (ado repaired a (CC v) None) = CC v' /\ ok_of (ado repaired a (CC v) None) = true.
Proof. intros E R. rewrite E, liftC_CC. destruct (runs_cell _ _ _ R) as [-> ->]. auto. Qed.
Lemma ado_R p v v' a : ado repaired a = liftR p -> runs p v v' ->
  cell_of (ado repaired a (CR v) None) = CR v' /\ ok_of (ado repaired a (CR v) None) = true.
Proof. intros E R. rewrite E, liftR_CR. destruct (runs_cell _ _ _ R) as [-> ->]. auto. Qed.

(* ---------------------------------------------------------------- convergence, per cell *)
(* the pipeline cell *)
Lemma conv_KP o n v :
  valid n = true ->
  (match o with Some o => v = Some (pinst_of o) | None => v = None end) ->
  call_ok (pl_action o n) (CP v) /\ cfold (pl_action o n) (CP v) = CP (Some (pinst_of n)).
Proof.
  intros Hv Hc. destruct (valid_fields _ Hv) as [Hn [Hd _]]. unfold pl_action. destruct o as [o|].
  - subst v. destruct (pipe_shallow_eqb o n) eqn:E.
    + cbn [call_ok cfold]. rewrite (pipe_shallow_pinst _ _ E). auto.
    + destruct (ado_P _ _ _ (AUpdatePl o n) eq_refl (do_update_pl_runs n (pinst_of o) Hn Hd)) as [A1 A2].
      cbn [call_ok cfold app]. rewrite A1, A2. auto.
  - subst v. destruct (ado_P _ _ _ (ACreatePl n) eq_refl (do_create_pl_runs n Hn Hd)) as [A1 A2].
    cbn [call_ok cfold app]. rewrite A1, A2. auto.
Qed.

(* a connector cell.  [xo] the connector in the old config, [xn] in the new one *)
Definition conn_key_actions (s : st) (olds : list connc) (xo xn : option connc) : list action :=
  (match xo with
   | Some x => match xn with None => [ADeleteConn x (saved_state repaired s (c_id x))] | Some _ => [] end
   | None => []
   end)
  ++ (match xn with Some x => conn_head s olds x | None => [] end).

Lemma conv_KC s olds c xo xn v :
  find_conn c olds = xo ->
  (forall x, xn = Some x -> c_id x = c /\ (c_name x =? 0) = false /\ (c_plugin x =? 0) = false) ->
  (forall x, xo = Some x -> exists stt, v = Some (cinst_of x stt)) ->
  call_ok (conn_key_actions s olds xo xn) (CC v)
  /\ (forall x, xn = Some x ->
        exists stt, cfold (conn_key_actions s olds xo xn) (CC v) = CC (Some (cinst_of x stt))
                    /\ (forall y stt0, xo = Some y -> c_src y = c_src x -> v = Some (cinst_of y stt0) -> stt = stt0)).
Proof.
  intros Hf Hn Ho. unfold conn_key_actions. destruct xn as [x|].
  - destruct (Hn x eq_refl) as [Hid [Hnm Hpl]]. unfold conn_head. rewrite Hid, Hf.
    destruct xo as [y|].
    + destruct (Ho y eq_refl) as [stt ->]. simpl app.
      destruct (Bool.eqb (c_src y) (c_src x)) eqn:Es; [destruct (conn_mutable_eqb y x) eqn:Em|].
      * cbn [call_ok cfold app]. split; [exact I|]. intros x' E. inversion E; subst x'. exists stt. split.
        -- rewrite (conn_same _ _ _ Es Em). reflexivity.
        -- intros y' stt0 E1 _ E2. inversion E1; subst. inversion E2. reflexivity.
      * destruct (ado_C _ _ _ (AUpdateConn y x) eq_refl (do_update_conn_runs x (cinst_of y stt))) as [A1 A2].
        cbn [call_ok cfold app]. rewrite A1, A2. split; [auto|]. intros x' E. inversion E; subst x'. exists stt. split.
        -- apply eqb_prop in Es. unfold cinst_of. simpl. rewrite Es. reflexivity.
        -- intros y' stt0 E1 _ E2. inversion E1; subst. inversion E2. reflexivity.
      * destruct (ado_C _ _ _ (ADeleteConn y (saved_state repaired s (c_id y))) eq_refl
                    (co_delete_runs (c_id y) (cinst_of y stt))) as [A1 A2].
        destruct (ado_C _ _ _ (ACreateConn x) eq_refl (do_create_conn_runs x None Hnm Hpl)) as [B1 B2].
        cbn [call_ok cfold app]. rewrite A1, A2, B1, B2. split; [auto|]. intros x' E. inversion E; subst x'. exists None.
        split; [reflexivity|]. intros y' stt0 E1 E2 _. inversion E1; subst. rewrite E2 in Es.
        rewrite eqb_reflx in Es. discriminate Es.
    + destruct (ado_C _ _ _ (ACreateConn x) eq_refl (do_create_conn_runs x v Hnm Hpl)) as [B1 B2].
      cbn [call_ok cfold app]. rewrite B1, B2. split; [auto|]. intros x' E. inversion E; subst x'. exists None.
      split; [reflexivity|]. intros y' stt0 E1. discriminate E1.
  - destruct xo as [y|]; cbn [call_ok cfold app].
    + destruct (Ho y eq_refl) as [stt ->].
      destruct (ado_C _ _ _ (ADeleteConn y (saved_state repaired s (c_id y))) eq_refl
                  (co_delete_runs (c_id y) (cinst_of y stt))) as [A1 A2].
      rewrite A2. split; [auto|]. intros x E. discriminate E.
    + split; [exact I|]. intros x E. discriminate E.
Qed.

(* a processor cell *)
Lemma conv_KR par p ops nps v :
  (forall q, find_proc p ops = Some q -> v = Some (rinst_of q)) ->
  (forall q, find_proc p nps = Some q -> valid_proc q = true) ->
  call_ok (proc_key_actions par p ops nps) (CR v)
  /\ (forall q, find_proc p nps = Some q -> cfold (proc_key_actions par p ops nps) (CR v) = CR (Some (rinst_of q))).
Proof.
  intros Ho Hn. unfold proc_key_actions.
  destruct (find_proc p nps) as [qn|] eqn:En.
  - destruct (valid_proc_fields _ (Hn qn eq_refl)) as [Hg Hw].
    pose proof (find_proc_id _ _ _ En) as [Eid _]. unfold proc_actions. rewrite Eid.
    destruct (find_proc p ops) as [qo|] eqn:Eo.
    + rewrite (Ho qo eq_refl). simpl app. destruct (procc_eqb qo qn) eqn:Ee.
      * apply procc_eqb_eq in Ee. subst qo. cbn [call_ok cfold app]. split; [exact I|]. intros q E. inversion E. reflexivity.
      * pose proof (find_proc_id _ _ _ Eo) as [Eido _].
        assert (Ek : AUpdateProc par qo qn = AUpdateProc par qo qn) by reflexivity.
        destruct (ado_R _ _ _ (AUpdateProc par qo qn) eq_refl
                    (pr_update_runs (KR par (p_id qn)) qn (rinst_of qo) (good_plugin_nonzero _ Hg))) as [A1 A2].
        cbn [call_ok cfold app]. rewrite A1, A2. split; [auto|]. intros q E. inversion E. reflexivity.
    + destruct (ado_R _ _ _ (ACreateProc par qn) eq_refl (pr_create_runs (KR par (p_id qn)) qn v Hg Hw)) as [A1 A2].
      cbn [call_ok cfold app]. rewrite A1, A2. split; [auto|]. intros q E. inversion E. reflexivity.
  - destruct (find_proc p ops) as [qo|] eqn:Eo; cbn [call_ok cfold app].
    + rewrite (Ho qo eq_refl).
      destruct (ado_R _ _ _ (ADeleteProc par qo) eq_refl (pr_delete_runs (KR par (p_id qo)) (rinst_of qo))) as [A1 A2].
      rewrite A2. split; [auto|]. intros q E. discriminate E.
    + split; [exact I|]. intros q E. discriminate E.
Qed.

(* ---------------------------------------------------------------- atomicity, per cell *)
Lemma reach_nil_inv c c' : reach [] c c' -> c' = c.
Proof. intros H. inversion H. reflexivity. Qed.
Lemma reach_one_inv a c c' : reach [a] c c' -> exists f, c' = cell_of (ado repaired a c f).
Proof. intros H. inversion H; subst. apply reach_nil_inv in H4. eauto. Qed.

Lemma reach_kind l k c c' : (forall a, In a l -> akey a = k) -> kind_ok k c -> reach l c c' -> kind_ok k c'.
Proof.
  intros Hk Hc H. induction H; [exact Hc|]. apply IHreach.
  - intros b Hb. apply Hk. right. exact Hb.
  - rewrite <- (Hk a (or_introl eq_refl)). apply ado_kind. rewrite (Hk a (or_introl eq_refl)). exact Hc.
Qed.

Lemma app_eq_one {X} (P S : list X) a : P ++ S = [a] -> P = [] \/ P = [a].
Proof.
  destruct P as [|x P]; [auto|]. simpl. intros H. inversion H; subst. destruct P; [auto|discriminate].
Qed.
Lemma app_eq_two {X} (P S : list X) a b : P ++ S = [a; b] -> P = [] \/ P = [a] \/ P = [a; b].
Proof.
  destruct P as [|x P]; [auto|]. simpl. intros H. inversion H; subst.
  destruct (app_eq_one _ _ _ H2) as [->| ->]; auto.
Qed.
Lemma app_eq_nil' {X} (P S : list X) : P ++ S = [] -> P = [].
Proof. destruct P; [auto|discriminate]. Qed.

Lemma arb_P p v a : arb repaired a = liftP p -> cell_of (arb repaired a (CP v) None) = CP (cell_of (p v None)).
Proof. intros E. rewrite E, liftP_CP. reflexivity. Qed.
Lemma arb_C p v a : arb repaired a = liftC p -> cell_of (arb repaired a (CC v) None) = CC (cell_of (p v None)).
Proof. intros E. rewrite E, liftC_CC. reflexivity. Qed.
Lemma arb_R p v a : arb repaired a = liftR p -> cell_of (arb repaired a (CR v) None) = CR (cell_of (p v None)).
Proof. intros E. rewrite E, liftR_CR. reflexivity. Qed.

(* the pipeline cell: an update rolled back writes the old fields again *)
Lemma restore_KP o n P S c1 :
  valid o = true -> P ++ S = pl_action (Some o) n ->
  reach P (CP (Some (pinst_of o))) c1 -> rfold (rev P) c1 = CP (Some (pinst_of o)).
Proof.
  intros Hv HL Hr. destruct (valid_fields _ Hv) as [Hn [Hd _]]. unfold pl_action in HL.
  destruct (pipe_shallow_eqb o n).
  - apply app_eq_nil' in HL. subst P. apply reach_nil_inv in Hr. subst. reflexivity.
  - destruct (app_eq_one _ _ _ HL) as [->| ->].
    + apply reach_nil_inv in Hr. subst. reflexivity.
    + apply reach_one_inv in Hr. destruct Hr as [f ->]. cbn [rev app rfold ado].
      rewrite liftP_CP. cbn [cell_of fst].
      destruct (cell_of (do_update_pl n (Some (pinst_of o)) f)) as [p1|] eqn:E.
      * rewrite (arb_P (do_update_pl o) (Some p1) (AUpdatePl o n) eq_refl).
        destruct (runs_cell _ _ _ (do_update_pl_runs o p1 Hn Hd)) as [-> _]. reflexivity.
      * exfalso. eapply (ks_do_update_pl n); [|exact E]. discriminate.
Qed.

Lemma restore_KP_none n P S c1 :
  P ++ S = pl_action None n -> reach P (CP None) c1 -> rfold (rev P) c1 = CP None.
Proof.
  intros HL Hr. unfold pl_action in HL.
  destruct (app_eq_one _ _ _ HL) as [->| ->].
  - apply reach_nil_inv in Hr. subst. reflexivity.
  - assert (Hk : kind_ok KP c1).
    { eapply (reach_kind [ACreatePl n] KP (CP None)); [|exact I|exact Hr]. intros a [<-|[]]. reflexivity. }
    destruct c1 as [v|v|v]; try contradiction.
    cbn [rev app rfold]. rewrite (arb_P pl_delete v (ACreatePl n) eq_refl). rewrite pl_delete_cell. reflexivity.
Qed.

(* a connector cell of the old config *)
Lemma rb_delete_abs x sv v :
  (c_name x =? 0) = false -> (c_plugin x =? 0) = false ->
  cell_of (arb repaired (ADeleteConn x sv) (CC v) None) = CC (Some (cinst_of x sv)).
Proof.
  intros Hn Hp. rewrite (arb_C (rb_delete_conn repaired x sv) v (ADeleteConn x sv) eq_refl).
  destruct (runs_cell _ _ _ (rb_delete_conn_runs x sv v Hn Hp)) as [-> _]. reflexivity.
Qed.

Lemma restore_KC s olds c x xn stt P S c1 :
  find_conn c olds = Some x ->
  (forall y, xn = Some y -> c_id y = c) ->
  (c_name x =? 0) = false -> (c_plugin x =? 0) = false ->
  saved_state repaired s (c_id x) = stt ->
  P ++ S = conn_key_actions s olds (Some x) xn ->
  reach P (CC (Some (cinst_of x stt))) c1 ->
  rfold (rev P) c1 = CC (Some (cinst_of x stt)).
Proof.
  intros Hf Hxn Hn Hp Hsv HL Hr. unfold conn_key_actions in HL. rewrite Hsv in HL.
  assert (Hkind : forall l, (forall a, In a l -> akey a = KC c) -> reach l (CC (Some (cinst_of x stt))) c1 ->
                  exists v, c1 = CC v).
  { intros l Hl H. pose proof (reach_kind l (KC c) (CC (Some (cinst_of x stt))) c1 Hl I H) as Hk. destruct c1 as [v|v|v]; try contradiction. eauto. }
  pose proof (find_conn_id _ _ _ Hf) as [Hidx _].
  destruct xn as [y|].
  - simpl app in HL. unfold conn_head in HL. rewrite (Hxn y eq_refl), Hf in HL.
    destruct (Bool.eqb (c_src x) (c_src y)); [destruct (conn_mutable_eqb x y)|].
    + apply app_eq_nil' in HL. subst P. apply reach_nil_inv in Hr. subst. reflexivity.
    + destruct (app_eq_one _ _ _ HL) as [->| ->].
      * apply reach_nil_inv in Hr. subst. reflexivity.
      * apply reach_one_inv in Hr. destruct Hr as [f ->]. cbn [rev app rfold ado].
        rewrite liftC_CC. cbn [cell_of fst].
        destruct (kss_do_update_conn y (Some (cinst_of x stt)) f _ eq_refl) as [i' [E [A B]]].
        rewrite E. rewrite (arb_C (do_update_conn repaired x) (Some i') (AUpdateConn x y) eq_refl).
        destruct (runs_cell _ _ _ (do_update_conn_runs x i')) as [-> _]. rewrite A, B. reflexivity.
    + rewrite Hsv in HL. destruct (app_eq_two _ _ _ _ HL) as [->|[->| ->]].
      * apply reach_nil_inv in Hr. subst. reflexivity.
      * destruct (Hkind [ADeleteConn x stt]) as [v ->]; [intros a [<-|[]]; simpl; congruence|exact Hr|].
        cbn [rev app rfold]. rewrite rb_delete_abs by assumption. reflexivity.
      * destruct (Hkind [ADeleteConn x stt; ACreateConn y]) as [v ->];
          [intros a [<-|[<-|[]]]; simpl; [congruence|rewrite (Hxn y eq_refl); reflexivity]|exact Hr|].
        cbn [rev app rfold]. rewrite (arb_C (co_delete (c_id y)) v (ACreateConn y) eq_refl), co_delete_cell.
        rewrite rb_delete_abs by assumption. reflexivity.
  - rewrite app_nil_r in HL. destruct (app_eq_one _ _ _ HL) as [->| ->].
    + apply reach_nil_inv in Hr. subst. reflexivity.
    + destruct (Hkind [ADeleteConn x stt]) as [v ->]; [intros a [<-|[]]; simpl; congruence|exact Hr|].
      cbn [rev app rfold]. rewrite rb_delete_abs by assumption. reflexivity.
Qed.

(* a processor cell of the old config *)
Lemma restore_KR par p ops nps qo P S c1 :
  find_proc p ops = Some qo -> valid_proc qo = true ->
  P ++ S = proc_key_actions par p ops nps ->
  reach P (CR (Some (rinst_of qo))) c1 ->
  rfold (rev P) c1 = CR (Some (rinst_of qo)).
Proof.
  intros Hf Hv HL Hr. destruct (valid_proc_fields _ Hv) as [Hg Hw]. unfold proc_key_actions in HL. rewrite Hf in HL.
  pose proof (find_proc_id _ _ _ Hf) as [Hid _].
  destruct (find_proc p nps) as [qn|] eqn:En.
  - simpl app in HL. unfold proc_actions in HL. pose proof (find_proc_id _ _ _ En) as [Hidn _].
    rewrite Hidn, Hf in HL. destruct (procc_eqb qo qn).
    + apply app_eq_nil' in HL. subst P. apply reach_nil_inv in Hr. subst. reflexivity.
    + destruct (app_eq_one _ _ _ HL) as [->| ->].
      * apply reach_nil_inv in Hr. subst. reflexivity.
      * apply reach_one_inv in Hr. destruct Hr as [f ->]. cbn [rev app rfold ado].
        rewrite liftR_CR. cbn [cell_of fst].
        destruct (cell_of (pr_update repaired (KR par (p_id qn)) (p_plugin qn) (p_settings qn) (p_workers qn) (p_cond qn)
                             (Some (rinst_of qo)) f)) as [r1|] eqn:E.
        -- rewrite (arb_R (pr_update repaired (KR par (p_id qo)) (p_plugin qo) (p_settings qo) (p_workers qo) (p_cond qo))
                      (Some r1) (AUpdateProc par qo qn) eq_refl).
           destruct (runs_cell _ _ _ (pr_update_runs (KR par (p_id qo)) qo r1 (good_plugin_nonzero _ Hg))) as [-> _].
           reflexivity.
        -- exfalso. eapply (ks_pr_update repaired); [|exact E]. discriminate.
  - rewrite app_nil_r in HL. destruct (app_eq_one _ _ _ HL) as [->| ->].
    + apply reach_nil_inv in Hr. subst. reflexivity.
    + assert (Hk : kind_ok (KR par p) c1).
      { eapply (reach_kind [ADeleteProc par qo] (KR par p) (CR (Some (rinst_of qo)))); [|exact I|exact Hr].
        intros a [<-|[]]. simpl. congruence. }
      destruct c1 as [v|v|v]; try contradiction. cbn [rev app rfold].
      rewrite (arb_R (pr_create (KR par (p_id qo)) (p_plugin qo) (p_settings qo) (p_workers qo) (p_cond qo)) v
                 (ADeleteProc par qo) eq_refl).
      destruct (runs_cell _ _ _ (pr_create_runs (KR par (p_id qo)) qo v Hg Hw)) as [-> _]. reflexivity.
Qed.

(* ---------------------------------------------------------------- cells the new config does not name *)
(* a connector that is not in the new config: deleted if the old config had it, untouched otherwise *)
Lemma gone_KC s olds xo v :
  (forall x, xo = Some x -> exists stt, v = Some (cinst_of x stt)) ->
  cfold (conn_key_actions s olds xo None) (CC v) = match xo with Some _ => CC None | None => CC v end.
Proof.
  intros Ho. unfold conn_key_actions. destruct xo as [y|]; cbn [app cfold]; [|reflexivity].
  destruct (Ho y eq_refl) as [stt ->].
  destruct (ado_C _ _ _ (ADeleteConn y (saved_state repaired s (c_id y))) eq_refl
              (co_delete_runs (c_id y) (cinst_of y stt))) as [A1 _].
  rewrite A1. reflexivity.
Qed.

Lemma gone_KR par p ops nps v :
  find_proc p nps = None ->
  (forall q, find_proc p ops = Some q -> v = Some (rinst_of q)) ->
  cfold (proc_key_actions par p ops nps) (CR v) = match find_proc p ops with Some _ => CR None | None => CR v end.
Proof.
  intros Hn Ho. unfold proc_key_actions. rewrite Hn. destruct (find_proc p ops) as [qo|] eqn:Eo; cbn [app cfold]; [|reflexivity].
  rewrite (Ho qo eq_refl).
  destruct (ado_R _ _ _ (ADeleteProc par qo) eq_refl (pr_delete_runs (KR par (p_id qo)) (rinst_of qo))) as [A1 _].
  rewrite A1. reflexivity.
Qed.

(* a cell the old config does not name and that is empty: whatever ran on it, the rollback
   leaves it empty again *)
Lemma fresh_KC s olds c xn P S c1 :
  find_conn c olds = None ->
  (forall y, xn = Some y -> c_id y = c) ->
  P ++ S = conn_key_actions s olds None xn ->
  reach P (CC None) c1 -> rfold (rev P) c1 = CC None.
Proof.
  intros Hf Hxn HL Hr. unfold conn_key_actions in HL. simpl app in HL. destruct xn as [y|].
  - unfold conn_head in HL. rewrite (Hxn y eq_refl), Hf in HL.
    destruct (app_eq_one _ _ _ HL) as [->| ->].
    + apply reach_nil_inv in Hr. subst. reflexivity.
    + assert (Hk : kind_ok (KC c) c1).
      { eapply (reach_kind [ACreateConn y] (KC c) (CC None)); [|exact I|exact Hr].
        intros a [<-|[]]. simpl. rewrite (Hxn y eq_refl). reflexivity. }
      destruct c1 as [v|v|v]; try contradiction. cbn [rev app rfold].
      rewrite (arb_C (co_delete (c_id y)) v (ACreateConn y) eq_refl), co_delete_cell. reflexivity.
  - apply app_eq_nil' in HL. subst P. apply reach_nil_inv in Hr. subst. reflexivity.
Qed.

Lemma fresh_KR par p ops nps P S c1 :
  find_proc p ops = None ->
  P ++ S = proc_key_actions par p ops nps ->
  reach P (CR None) c1 -> rfold (rev P) c1 = CR None.
Proof.
  intros Hf HL Hr. unfold proc_key_actions in HL. rewrite Hf in HL. simpl app in HL.
  destruct (find_proc p nps) as [q|] eqn:En.
  - unfold proc_actions in HL. pose proof (find_proc_id _ _ _ En) as [Hid _]. rewrite Hid, Hf in HL.
    destruct (app_eq_one _ _ _ HL) as [->| ->].
    + apply reach_nil_inv in Hr. subst. reflexivity.
    + assert (Hk : kind_ok (KR par p) c1).
      { eapply (reach_kind [ACreateProc par q] (KR par p) (CR None)); [|exact I|exact Hr].
        intros a [<-|[]]. simpl. congruence. }
      destruct c1 as [v|v|v]; try contradiction. cbn [rev app rfold].
      rewrite (arb_R (pr_delete (KR par (p_id q))) v (ACreateProc par q) eq_refl), pr_delete_cell. reflexivity.
  - apply app_eq_nil' in HL. subst P. apply reach_nil_inv in Hr. subst. reflexivity.
Qed.
