(* Proofs about the import model, part 3: Export read as a statement about cells, and back. *)
From Verif Require Import Prov.Import Prov.ImportProofs Prov.ImportCells.

Lemma exp_procs_spec : forall s par ids l,
  exp_procs repaired s par ids = Some l ->
  ids = proc_ids l /\ forall q, In q l -> s_procs s (par, p_id q) = Some (rinst_of q).
Proof.
  induction ids as [|i r IH]; intros l H; simpl in H.
  - inversion H; subst. split; [reflexivity|]. intros q [].
  - destruct (s_procs s (par, i)) as [x|] eqn:Ex; [|discriminate H].
    destruct (exp_procs repaired s par r) as [l'|] eqn:El; [|discriminate H].
    inversion H; subst. destruct (IH l' eq_refl) as [I1 I2]. split.
    + simpl. congruence.
    + intros q [Hq|Hq]; [|apply I2; exact Hq]. subst q. simpl. rewrite Ex. destruct x; reflexivity.
Qed.

Lemma exp_procs_of : forall s par l,
  (forall q, In q l -> s_procs s (par, p_id q) = Some (rinst_of q)) ->
  exp_procs repaired s par (proc_ids l) = Some l.
Proof.
  induction l as [|q r IH]; intros H; simpl; [reflexivity|].
  rewrite (H q (or_introl eq_refl)). rewrite IH by (intros x Hx; apply H; right; exact Hx).
  destruct q; reflexivity.
Qed.

Lemma exp_conns_spec : forall s ids l,
  exp_conns repaired s ids = Some l ->
  ids = conn_ids l
  /\ forall c, In c l -> exists stt, s_conns s (c_id c) = Some (cinst_of c stt)
                                    /\ forall q, In q (c_procs c) -> s_procs s (Some (c_id c), p_id q) = Some (rinst_of q).
Proof.
  induction ids as [|i r IH]; intros l H; simpl in H.
  - inversion H; subst. split; [reflexivity|]. intros c [].
  - destruct (s_conns s i) as [x|] eqn:Ex; [|discriminate H].
    destruct (exp_procs repaired s (Some i) (ci_procs x)) as [ps|] eqn:Ep; [|discriminate H].
    destruct (exp_conns repaired s r) as [l'|] eqn:El; [|discriminate H].
    inversion H; subst. destruct (IH l' eq_refl) as [I1 I2]. split.
    + simpl. congruence.
    + intros c [Hc|Hc]; [|apply I2; exact Hc]. subst c. simpl.
      destruct (exp_procs_spec _ _ _ _ Ep) as [P1 P2].
      exists (ci_state x). split; [|exact P2].
      rewrite Ex. unfold cinst_of. simpl. rewrite <- P1. destruct x; reflexivity.
Qed.

Lemma exp_conns_of : forall s l,
  (forall c, In c l -> exists stt, s_conns s (c_id c) = Some (cinst_of c stt)
                                  /\ forall q, In q (c_procs c) -> s_procs s (Some (c_id c), p_id q) = Some (rinst_of q)) ->
  exp_conns repaired s (conn_ids l) = Some l.
Proof.
  induction l as [|c r IH]; intros H; simpl; [reflexivity|].
  destruct (H c (or_introl eq_refl)) as [stt [E1 E2]]. rewrite E1. simpl.
  rewrite (exp_procs_of _ _ _ E2). rewrite IH by (intros x Hx; apply H; right; exact Hx).
  destruct c; reflexivity.
Qed.

(* the cells an exported config describes *)
Definition cells_as (s : st) (o : pipec) : Prop :=
  s_pl s = Some (pinst_of o)
  /\ (forall c, In c (pl_conns o) -> exists stt, s_conns s (c_id c) = Some (cinst_of c stt)
        /\ forall q, In q (c_procs c) -> s_procs s (Some (c_id c), p_id q) = Some (rinst_of q))
  /\ (forall q, In q (pl_procs o) -> s_procs s (None, p_id q) = Some (rinst_of q)).

Lemma cells_of_export s o : export repaired s = EOk o -> cells_as s o.
Proof.
  unfold export. intros H. destruct (s_pl s) as [p|] eqn:Ep; [|discriminate H].
  destruct (exp_conns repaired s (pi_conns p)) as [cs|] eqn:Ec; [|discriminate H].
  destruct (exp_procs repaired s None (pi_procs p)) as [ps|] eqn:Er; [|discriminate H].
  inversion H; subst. destruct (exp_conns_spec _ _ _ Ec) as [C1 C2]. destruct (exp_procs_spec _ _ _ _ Er) as [P1 P2].
  split; [|split]; simpl; auto.
  rewrite Ep. unfold pinst_of. simpl. rewrite <- C1, <- P1. destruct p as [n0 d0 q0 c0 r0]; reflexivity.
Qed.

Lemma export_of_cells s o : cells_as s o -> export repaired s = EOk o.
Proof.
  intros [H1 [H2 H3]]. unfold export. rewrite H1. unfold pinst_of. simpl.
  rewrite (exp_conns_of _ _ H2), (exp_procs_of _ _ _ H3). destruct o; reflexivity.
Qed.

Lemma export_none s : export repaired s = ENone <-> s_pl s = None.
Proof.
  unfold export. destruct (s_pl s) as [p|]; split; intros H; try reflexivity; try discriminate.
  destruct (exp_conns repaired s (pi_conns p)); [destruct (exp_procs repaired s None (pi_procs p))|]; discriminate H.
Qed.
