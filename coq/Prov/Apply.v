(* Model of provisioning.Service.ApplyPlanLive (pkg/provisioning/plan.go) as a decision
   procedure (C16): a function of
     - whether the presented hash equals the hash of the freshly recomputed plan,
     - whether the fresh diff is empty,
     - the running status where the code samples it (isRunning once, and a second time only
       when the first sample said "not running": the TOCTOU re-check),
     - the operator authorisation flag (allowRestartOnRunning),
     - whether the diff is live-eligible (every change LiveSwappable) and the outcome of every
       lifecycle / import call on the way (applyInPlace's import and ReconfigureProcessor calls,
       rollbackInPlace's import and re-swaps, StopAndWait, transactionalImport, Start)
   to the ordered list of lifecycle and store actions and the result.  Definitions only.

   [fix_fallback] selects the repaired variant of one path: when an in-place apply fell back to
   a restart (a processor is not live-reconfigurable, the new config is already committed) and
   StopAndWait then fails, the shipped code returns the error with the pipeline still running on
   the new stored config; the repair rolls the in-place apply back first. *)
From Coq Require Export List Arith Bool Lia.
Export ListNotations.

Inductive rc := RcOk | RcNotLive | RcErr.            (* ReconfigureProcessor *)
Inductive cfgv := COld | CNew.                       (* which whole config the store holds *)
Inductive mode := MNone | MProvisioned | MInPlace | MRestart.
Inductive result := ROk (m : mode) | RStale | RUnauth | RErr.

Record ainp := mkInp {
  a_hash_ok : bool;
  a_empty : bool;
  a_run1 : bool;
  a_run2 : bool;
  a_auth : bool;
  a_live : bool;
  a_imp_inplace : bool;     (* applyInPlace: transactionalImport(desired) *)
  a_swaps : list rc;        (* ReconfigureProcessor per processor-update change, in diff order *)
  a_rb_imp : bool;          (* rollbackInPlace: transactionalImport(oldConfig) *)
  a_rb_swaps : list bool;   (* rollbackInPlace: re-swaps of the already swapped processors *)
  a_stop : bool;            (* StopAndWait *)
  a_imp : bool;             (* transactionalImport(desired) on the stopped (or not running) pipeline *)
  a_start : bool            (* Start *)
}.

Inductive ev :=
| EImport (target : cfgv) (ok : bool)     (* one transactionalImport: begin ... commit / discard *)
| EStop (ok : bool)
| EStart (ok : bool)
| EReconf (idx : nat) (r : rc).           (* idx = position among the processor-update changes *)

(* the for-loop of applyInPlace over the processor-update changes *)
Inductive swapres := SwAll | SwFallback | SwFailed.
Fixpoint swap_loop (k : nat) (l : list rc) (swapped : list nat) : list ev * swapres * list nat :=
  match l with
  | [] => ([], SwAll, swapped)
  | RcOk :: r => let '(e, x, s) := swap_loop (S k) r (swapped ++ [k]) in (EReconf k RcOk :: e, x, s)
  | RcNotLive :: _ => ([EReconf k RcNotLive], SwFallback, swapped)
  | RcErr :: _ => ([EReconf k RcErr], SwFailed, swapped)
  end.

(* rollbackInPlace: restore the old config; only if that worked, swap the swapped ones back *)
Fixpoint reswap (swapped : list nat) (outs : list bool) : list ev :=
  match swapped with
  | [] => []
  | k :: r => EReconf k (match outs with true :: _ | [] => RcOk | false :: _ => RcErr end)
              :: reswap r (tl outs)
  end.
Definition rollback_inplace (i : ainp) (swapped : list nat) : list ev :=
  if a_rb_imp i then EImport COld true :: reswap swapped (a_rb_swaps i) else [EImport COld false].

(* StopAndWait -> transactionalImport -> Start *)
Definition restart_path (fx : bool) (i : ainp) (fellback : option (list nat)) : list ev * result :=
  if a_stop i
  then if a_imp i
       then if a_start i then ([EStop true; EImport CNew true; EStart true], ROk MRestart)
            else ([EStop true; EImport CNew true; EStart false], RErr)
       else ([EStop true; EImport CNew false], RErr)
  else match fellback with
       | Some swapped => if fx then (EStop false :: rollback_inplace i swapped, RErr) else ([EStop false], RErr)
       | None => ([EStop false], RErr)
       end.

Definition running_of (i : ainp) : bool := if a_run1 i then true else a_run2 i.

Definition apply (fx : bool) (i : ainp) : list ev * result :=
  if negb (a_hash_ok i) then ([], RStale)
  else if a_empty i then ([], ROk MNone)
  else if running_of i && negb (a_auth i) then ([], RUnauth)
  else if negb (running_of i)
       then (if a_imp i then ([EImport CNew true], ROk MProvisioned) else ([EImport CNew false], RErr))
  else if a_live i
       then if a_imp_inplace i
            then let '(e, x, swapped) := swap_loop 0 (a_swaps i) [] in
                 match x with
                 | SwAll => (EImport CNew true :: e, ROk MInPlace)
                 | SwFailed => (EImport CNew true :: e ++ rollback_inplace i swapped, RErr)
                 | SwFallback => let '(e2, r) := restart_path fx i (Some swapped) in
                                 (EImport CNew true :: e ++ e2, r)
                 end
            else ([EImport CNew false], RErr)
       else restart_path fx i None.

(* ---------------------------------------------------------------- what the actions do
   Abstract state the events act on.  A committed import replaces the whole stored config, a
   failed one leaves it (C15: an import fails atomically); a successful StopAndWait leaves the
   pipeline stopped with positions durable (C06), a failed one leaves it as it was; Start
   rebuilds every node from the stored config; a successful ReconfigureProcessor makes the
   live processor follow the stored config. *)
Record astate := mkA {
  as_cfg : cfgv;             (* stored config *)
  as_running : bool;
  as_live : nat -> cfgv      (* which config the k-th changed processor of the live pipeline runs *)
}.
Definition cfgv_eqb (a b : cfgv) : bool := match a, b with COld, COld | CNew, CNew => true | _, _ => false end.

Definition set_live (k : nat) (c : cfgv) (f : nat -> cfgv) : nat -> cfgv := fun j => if j =? k then c else f j.

Definition ev_step (s : astate) (e : ev) : astate :=
  match e with
  | EImport t true => mkA t (as_running s) (as_live s)
  | EImport _ false => s
  | EStop true => mkA (as_cfg s) false (as_live s)
  | EStop false => s
  | EStart true => mkA (as_cfg s) true (fun _ => as_cfg s)
  | EStart false => s
  | EReconf k RcOk => mkA (as_cfg s) (as_running s) (set_live k (as_cfg s) (as_live s))
  | EReconf _ _ => s
  end.
Definition run_events (s : astate) (l : list ev) : astate := fold_left ev_step l s.

(* every changed processor of the live pipeline (n of them) runs the stored config *)
Definition live_agrees (n : nat) (s : astate) : bool :=
  forallb (fun k => cfgv_eqb (as_live s k) (as_cfg s)) (seq 0 n).
(* the pipeline and its configuration are untouched *)
Definition untouched (n : nat) (s0 s : astate) : bool :=
  cfgv_eqb (as_cfg s) (as_cfg s0) && Bool.eqb (as_running s) (as_running s0) && live_agrees n s.
(* C16's "refused or failed apply": unchanged, or cleanly stopped on a whole stored config *)
Definition consistent_after_failure (n : nat) (s0 s : astate) : bool := untouched n s0 s || negb (as_running s).

Definition is_error (r : result) : bool := match r with ROk _ => false | _ => true end.
Definition mutating (e : ev) : bool :=
  match e with EImport _ _ | EStop _ | EStart _ | EReconf _ _ => true end.

(* number of failing outcomes the environment contributed on the path taken (NotLive is a normal
   answer, not a failure) *)
Definition failures (l : list ev) : nat :=
  length (filter (fun e => match e with
                           | EImport _ false | EStop false | EStart false | EReconf _ RcErr => true
                           | _ => false
                           end) l).

(* the initial state of an apply: old config stored, every processor runs it.  The status is the
   one the code sees when it samples it; an apply that returns before sampling (stale hash, empty
   diff) leaves the status it found ([a_run1]). *)
Definition init (i : ainp) : astate :=
  mkA COld (if a_hash_ok i && negb (a_empty i) then running_of i else a_run1 i) (fun _ => COld).

(* ---------------------------------------------------------------- the per-pipeline lock
   lock.go: ApplyPlan / ApplyPlanLive take the mutex of their pipeline id for their whole body.
   Interleaving model: actions of concurrently running applies; an apply emits events only while
   it holds the lock of its id. *)
Inductive lact :=
| LAcquire (a : nat) (id : nat)
| LEvent (a : nat) (id : nat)
| LRelease (a : nat) (id : nat).

(* holder of every id's mutex *)
Definition lstate := nat -> option nat.
Definition lstep (s : lstate) (x : lact) : option lstate :=
  match x with
  | LAcquire a id => match s id with
                     | None => Some (fun j => if j =? id then Some a else s j)
                     | Some _ => None            (* blocked: not a step *)
                     end
  | LEvent a id => match s id with
                   | Some h => if h =? a then Some s else None
                   | None => None
                   end
  | LRelease a id => match s id with
                     | Some h => if h =? a then Some (fun j => if j =? id then None else s j) else None
                     | None => None
                     end
  end.
Fixpoint lrun (s : lstate) (l : list lact) : option lstate :=
  match l with
  | [] => Some s
  | x :: r => match lstep s x with Some s' => lrun s' r | None => None end
  end.

(* observed log of the concurrency cases: (apply, event); [serial] = the events of every apply are
   contiguous *)
Fixpoint drop_while_eq (a : nat) (l : list nat) : list nat :=
  match l with
  | [] => []
  | b :: r => if b =? a then drop_while_eq a r else l
  end.
Fixpoint serial (l : list nat) : bool :=
  match l with
  | [] => true
  | a :: r => let rest := drop_while_eq a r in
              negb (existsb (Nat.eqb a) rest) && serial r
  end.
