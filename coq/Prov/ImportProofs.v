(* Proofs about the import model (Prov/Import.v).  Part 1: infrastructure - keys and cells,
   the fault-free semantics of every cell program, executing an action list cell by cell. *)
From Verif Require Import Prov.Import.

(* ---------------------------------------------------------------- keys *)
Lemma onat_eqb_eq a b : onat_eqb a b = true <-> a = b.
Proof.
  destruct a as [x|], b as [y|]; simpl; split; intros H; try congruence; try discriminate.
  - apply Nat.eqb_eq in H. congruence.
  - inversion H. apply Nat.eqb_refl.
Qed.

Lemma ekey_eqb_eq a b : ekey_eqb a b = true <-> a = b.
Proof.
  destruct a as [|x|q x], b as [|y|r y]; simpl; split; intros H; try congruence; try discriminate.
  - apply Nat.eqb_eq in H. congruence.
  - inversion H. apply Nat.eqb_refl.
  - apply andb_prop in H. destruct H as [H1 H2]. apply onat_eqb_eq in H1. apply Nat.eqb_eq in H2. congruence.
  - inversion H. subst. apply andb_true_intro. split; [apply onat_eqb_eq; reflexivity|apply Nat.eqb_refl].
Qed.

Lemma ekey_eqb_refl a : ekey_eqb a a = true.
Proof. apply ekey_eqb_eq. reflexivity. Qed.

Lemma ekey_eqb_neq a b : a <> b -> ekey_eqb a b = false.
Proof. intros H. destruct (ekey_eqb a b) eqn:E; [apply ekey_eqb_eq in E; contradiction|reflexivity]. Qed.

Lemma ekey_eqb_sym a b : ekey_eqb a b = ekey_eqb b a.
Proof.
  destruct (ekey_eqb a b) eqn:E.
  - apply ekey_eqb_eq in E. subst. symmetry. apply ekey_eqb_refl.
  - destruct (ekey_eqb b a) eqn:E2; [|reflexivity]. apply ekey_eqb_eq in E2. subst.
    rewrite ekey_eqb_refl in E. discriminate E.
Qed.

Lemma pkey_eqb_eq a b : pkey_eqb a b = true <-> a = b.
Proof.
  destruct a as [q x], b as [r y]. unfold pkey_eqb. simpl. split; intros H.
  - apply andb_prop in H. destruct H as [H1 H2]. apply onat_eqb_eq in H1. apply Nat.eqb_eq in H2. congruence.
  - inversion H. subst. apply andb_true_intro. split; [apply onat_eqb_eq; reflexivity|apply Nat.eqb_refl].
Qed.

(* a cell has the kind of its key *)
Definition kind_ok (k : ekey) (c : cell) : Prop :=
  match k, c with KP, CP _ | KC _, CC _ | KR _ _, CR _ => True | _, _ => False end.

Lemma get_kind s k : kind_ok k (get s k).
Proof. destruct k; simpl; exact I. Qed.

Lemma get_set_same s k c : kind_ok k c -> get (set s k c) k = c.
Proof.
  destruct k as [|i|par p], c as [v|v|v]; simpl; intros H; try contradiction; try reflexivity.
  - rewrite Nat.eqb_refl. reflexivity.
  - assert (E : pkey_eqb (par, p) (par, p) = true) by (apply pkey_eqb_eq; reflexivity).
    rewrite E. reflexivity.
Qed.

Lemma get_set_other s k c k' : k' <> k -> get (set s k c) k' = get s k'.
Proof.
  intros Hn. destruct k as [|i|par p], c as [v|v|v]; try reflexivity;
    destruct k' as [|j|par' q]; try reflexivity; simpl.
  - contradiction Hn; reflexivity.
  - destruct (j =? i) eqn:E; [apply Nat.eqb_eq in E; subst; contradiction Hn; reflexivity|reflexivity].
  - destruct (pkey_eqb (par', q) (par, p)) eqn:E; [|reflexivity].
    apply pkey_eqb_eq in E. inversion E; subst. contradiction Hn. reflexivity.
Qed.

(* ---------------------------------------------------------------- lifted programs keep the kind *)
Definition cell_of {A} (r : res A) : A := fst (fst (fst r)).
Definition ok_of {A} (r : res A) : bool := snd (fst (fst r)).
Definition fault_of {A} (r : res A) : fault := snd (fst r).

Lemma liftP_CP p v f : liftP p (CP v) f = (CP (cell_of (p v f)), ok_of (p v f), fault_of (p v f), snd (p v f)).
Proof. unfold liftP, cell_of, ok_of, fault_of. destruct (p v f) as [[[? ?] ?] ?]. reflexivity. Qed.
Lemma liftC_CC p v f : liftC p (CC v) f = (CC (cell_of (p v f)), ok_of (p v f), fault_of (p v f), snd (p v f)).
Proof. unfold liftC, cell_of, ok_of, fault_of. destruct (p v f) as [[[? ?] ?] ?]. reflexivity. Qed.
Lemma liftR_CR p v f : liftR p (CR v) f = (CR (cell_of (p v f)), ok_of (p v f), fault_of (p v f), snd (p v f)).
Proof. unfold liftR, cell_of, ok_of, fault_of. destruct (p v f) as [[[? ?] ?] ?]. reflexivity. Qed.

Lemma ado_kind fl a c f : kind_ok (akey a) c -> kind_ok (akey a) (cell_of (ado fl a c f)).
Proof.
  destruct a, c as [v|v|v]; cbn [akey kind_ok]; intros H; try contradiction; cbn [ado];
    rewrite ?liftP_CP, ?liftC_CC, ?liftR_CR; exact I.
Qed.

Lemma arb_kind fl a c f : kind_ok (akey a) c -> kind_ok (akey a) (cell_of (arb fl a c f)).
Proof.
  destruct a, c as [v|v|v]; cbn [akey kind_ok]; intros H; try contradiction; cbn [arb];
    rewrite ?liftP_CP, ?liftC_CC, ?liftR_CR; exact I.
Qed.

(* ---------------------------------------------------------------- well-behaved programs
   [nf]: without a pending fault a program ends without one.
   [pend]: if the fault is still pending afterwards it never fired: same result as without. *)
Definition nf {A} (p : prog A) : Prop :=
  forall v, exists v' ok t, p v None = (v', ok, None, t).
Definition pend {A} (p : prog A) : Prop :=
  forall v n v' ok n' t, p v (Some n) = (v', ok, Some n', t) -> exists t', p v None = (v', ok, None, t').
(* [fires]: a fault that fired made the program fail *)
Definition fires {A} (p : prog A) : Prop :=
  forall v n v' ok t, p v (Some n) = (v', ok, None, t) -> ok = false.
Definition wfp {A} (p : prog A) : Prop := nf p /\ pend p /\ fires p.

Lemma wfp_store {A} k del (a b : A) : wfp (fun _ f => store k del a b f).
Proof.
  split; [|split].
  - intros v. simpl. eauto.
  - intros v n v' ok n' t H. simpl in H. destruct n; inversion H; subst. simpl. eauto.
  - intros v n v' ok t H. simpl in H. destruct n; inversion H; subst. reflexivity.
Qed.

Lemma wfp_failp {A} : wfp (@failp A).
Proof.
  split; [intros v; unfold failp; eauto|split].
  - intros v n v' ok n' t H. unfold failp in *. inversion H; subst. eauto.
  - intros v n v' ok t H. unfold failp in H. inversion H.
Qed.

Lemma wfp_skip {A} : wfp (@skip A).
Proof.
  split; [intros v; unfold skip; eauto|split].
  - intros v n v' ok n' t H. unfold skip in *. inversion H; subst. eauto.
  - intros v n v' ok t H. unfold skip in H. inversion H.
Qed.

(* a fault that fired is gone and is never re-armed: a pending fault afterwards was pending before *)
Definition mono {A} (p : prog A) : Prop :=
  forall v v' ok n' t, p v None = (v', ok, Some n', t) -> False.

Lemma wfp_seq {A} (p q : prog A) : wfp p -> wfp q -> wfp (seq p q).
Proof.
  intros [Np [Pp Fp]] [Nq [Pq Fq]]. split; [|split].
  - intros v. unfold seq. destruct (Np v) as [v1 [ok1 [t1 E1]]]. rewrite E1.
    destruct ok1; [|eauto]. destruct (Nq v1) as [v2 [ok2 [t2 E2]]]. rewrite E2. eauto.
  - intros v n v' ok n' t H. unfold seq in *.
    destruct (p v (Some n)) as [[[v1 ok1] f1] t1] eqn:E1.
    destruct ok1.
    + destruct (q v1 f1) as [[[v2 ok2] f2] t2] eqn:E2. inversion H; subst.
      destruct f1 as [m|].
      * destruct (Pp _ _ _ _ _ _ E1) as [t1' E1']. rewrite E1'.
        destruct (Pq _ _ _ _ _ _ E2) as [t2' E2']. rewrite E2'. eauto.
      * destruct (Nq v1) as [w [o [tt Ew]]]. rewrite Ew in E2. inversion E2.
    + inversion H; subst. destruct (Pp _ _ _ _ _ _ E1) as [t1' E1']. rewrite E1'. eauto.
  - intros v n v' ok t H. unfold seq in H.
    destruct (p v (Some n)) as [[[v1 ok1] f1] t1] eqn:E1.
    destruct ok1.
    + destruct (q v1 f1) as [[[v2 ok2] f2] t2] eqn:E2. inversion H; subst.
      destruct f1 as [m|].
      * eapply Fq; eauto.
      * pose proof (Fp _ _ _ _ _ E1) as Hc. discriminate Hc.
    + inversion H; subst. reflexivity.
Qed.

Lemma wfp_iter {A} (op : nat -> prog A) ids : (forall x, wfp (op x)) -> wfp (iter op ids).
Proof.
  intros H. induction ids as [|x r IH]; simpl; [apply wfp_skip|apply wfp_seq; auto].
Qed.

(* a program chosen by looking at the value *)
Lemma wfp_case {A} (sel : A -> prog A) : (forall v, wfp (sel v)) -> wfp (fun v f => sel v v f).
Proof.
  intros H. split; [|split].
  - intros v. destruct (H v) as [N _]. apply N.
  - intros v n v' ok n' t E. destruct (H v) as [_ [P _]]. eapply P; eauto.
  - intros v n v' ok t E. destruct (H v) as [_ [_ F]]. eapply F; eauto.
Qed.

(* ---------------------------------------------------------------- every service call is well-behaved *)
Ltac wfp_leaf_nf := cbv [failp store skip]; repeat eexists.
Ltac wfp_leaf_pend H n :=
  cbv [failp store skip] in *; try destruct n; inversion H; subst; eexists; reflexivity.
Ltac wfp_ifs :=
  repeat match goal with
         | |- context [if ?b then _ else _] => destruct b
         | H : context [if ?b then _ else _] |- _ => destruct b
         end.
Ltac wfp_leaf_fires H n :=
  cbv [failp store skip] in H; try destruct n; inversion H; subst; reflexivity.
Ltac wfp_op op :=
  split; [|split];
  [ let v := fresh "v" in intros v; unfold op; destruct v; wfp_ifs; wfp_leaf_nf
  | let v := fresh "v" in let n := fresh "n" in let H := fresh "H" in
    intros v n ? ? ? ? H; unfold op in H |- *; destruct v; wfp_ifs; wfp_leaf_pend H n
  | let v := fresh "v" in let n := fresh "n" in let H := fresh "H" in
    intros v n ? ? ? H; unfold op in H; destruct v; wfp_ifs; wfp_leaf_fires H n ].

Lemma wfp_pl_create a b : wfp (pl_create a b).
Proof.
  split; [intros v |split; [intros v n v' ok n' t H|intros v n v' ok t H]]; unfold pl_create in *.
  - destruct (a =? 0); [wfp_leaf_nf|]. destruct v as [x|]; [destruct (pi_name x =? a)|]; wfp_leaf_nf.
  - destruct (a =? 0); [wfp_leaf_pend H n|]. destruct v as [x|]; [destruct (pi_name x =? a)|]; wfp_leaf_pend H n.
  - destruct (a =? 0); [wfp_leaf_fires H n|]. destruct v as [x|]; [destruct (pi_name x =? a)|]; wfp_leaf_fires H n.
Qed.
Lemma wfp_pl_update a b : wfp (pl_update a b). Proof. wfp_op @pl_update. Qed.
Lemma wfp_pl_update_dlq d : wfp (pl_update_dlq d). Proof. wfp_op @pl_update_dlq. Qed.
Lemma wfp_pl_add_conn c : wfp (pl_add_conn c). Proof. wfp_op @pl_add_conn. Qed.
Lemma wfp_pl_rm_conn c : wfp (pl_rm_conn c). Proof. wfp_op @pl_rm_conn. Qed.
Lemma wfp_pl_add_proc c : wfp (pl_add_proc c). Proof. wfp_op @pl_add_proc. Qed.
Lemma wfp_pl_rm_proc c : wfp (pl_rm_proc c). Proof. wfp_op @pl_rm_proc. Qed.
Lemma wfp_pl_delete : wfp pl_delete. Proof. wfp_op @pl_delete. Qed.
Lemma wfp_co_create i s p n st : wfp (co_create i s p n st).
Proof.
  split; [intros v |split; [intros v m v' ok n' t H|intros v m v' ok t H]]; unfold co_create in *;
    destruct ((n =? 0) || (p =? 0));
    [wfp_leaf_nf | wfp_leaf_nf | wfp_leaf_pend H m | wfp_leaf_pend H m | wfp_leaf_fires H m | wfp_leaf_fires H m].
Qed.
Lemma wfp_co_delete i : wfp (co_delete i). Proof. wfp_op @co_delete. Qed.
Lemma wfp_co_update i p n st : wfp (co_update i p n st). Proof. wfp_op @co_update. Qed.
Lemma wfp_co_add_proc i p : wfp (co_add_proc i p). Proof. wfp_op @co_add_proc. Qed.
Lemma wfp_co_rm_proc i p : wfp (co_rm_proc i p). Proof. wfp_op @co_rm_proc. Qed.
Lemma wfp_co_set_state i st : wfp (co_set_state i st). Proof. wfp_op @co_set_state. Qed.
Lemma wfp_pr_create k p s w c : wfp (pr_create k p s w c).
Proof.
  split; [intros v |split; [intros v m v' ok n' t H|intros v m v' ok t H]]; unfold pr_create in *;
    destruct (good_plugin p);
    [wfp_leaf_nf | wfp_leaf_nf | wfp_leaf_pend H m | wfp_leaf_pend H m | wfp_leaf_fires H m | wfp_leaf_fires H m].
Qed.
Lemma wfp_pr_delete k : wfp (pr_delete k). Proof. wfp_op @pr_delete. Qed.
Lemma wfp_pr_update fl k p s w c : wfp (pr_update fl k p s w c). Proof. wfp_op @pr_update. Qed.

Lemma wfp_ext {A} (p q : prog A) : (forall v f, p v f = q v f) -> wfp q -> wfp p.
Proof.
  intros E [N [P F]]. split; [|split].
  - intros v. rewrite E. apply N.
  - intros v n v' ok n' t H. rewrite E in H. rewrite E. eapply P; eauto.
  - intros v n v' ok t H. rewrite E in H. eapply F; eauto.
Qed.

Lemma wfp_liftP p : wfp p -> wfp (liftP p).
Proof.
  intros [N [P F]]. split; [|split].
  - intros c. destruct c as [v|v|v]; simpl; try (repeat eexists; fail).
    destruct (N v) as [v' [ok [t E]]]. rewrite E. repeat eexists.
  - intros c n c' ok n' t H. destruct c as [v|v|v]; simpl in *; try (inversion H; subst; repeat eexists; fail).
    destruct (p v (Some n)) as [[[v1 ok1] f1] t1] eqn:E. inversion H; subst.
    destruct (P _ _ _ _ _ _ E) as [t' E']. rewrite E'. repeat eexists.
  - intros c n c' ok t H. destruct c as [v|v|v]; simpl in *; try (inversion H; fail).
    destruct (p v (Some n)) as [[[v1 ok1] f1] t1] eqn:E. inversion H; subst. eapply F; eauto.
Qed.
Lemma wfp_liftC p : wfp p -> wfp (liftC p).
Proof.
  intros [N [P F]]. split; [|split].
  - intros c. destruct c as [v|v|v]; simpl; try (repeat eexists; fail).
    destruct (N v) as [v' [ok [t E]]]. rewrite E. repeat eexists.
  - intros c n c' ok n' t H. destruct c as [v|v|v]; simpl in *; try (inversion H; subst; repeat eexists; fail).
    destruct (p v (Some n)) as [[[v1 ok1] f1] t1] eqn:E. inversion H; subst.
    destruct (P _ _ _ _ _ _ E) as [t' E']. rewrite E'. repeat eexists.
  - intros c n c' ok t H. destruct c as [v|v|v]; simpl in *; try (inversion H; fail).
    destruct (p v (Some n)) as [[[v1 ok1] f1] t1] eqn:E. inversion H; subst. eapply F; eauto.
Qed.
Lemma wfp_liftR p : wfp p -> wfp (liftR p).
Proof.
  intros [N [P F]]. split; [|split].
  - intros c. destruct c as [v|v|v]; simpl; try (repeat eexists; fail).
    destruct (N v) as [v' [ok [t E]]]. rewrite E. repeat eexists.
  - intros c n c' ok n' t H. destruct c as [v|v|v]; simpl in *; try (inversion H; subst; repeat eexists; fail).
    destruct (p v (Some n)) as [[[v1 ok1] f1] t1] eqn:E. inversion H; subst.
    destruct (P _ _ _ _ _ _ E) as [t' E']. rewrite E'. repeat eexists.
  - intros c n c' ok t H. destruct c as [v|v|v]; simpl in *; try (inversion H; fail).
    destruct (p v (Some n)) as [[[v1 ok1] f1] t1] eqn:E. inversion H; subst. eapply F; eauto.
Qed.

Lemma wfp_do_create_pl c : wfp (do_create_pl c).
Proof.
  unfold do_create_pl. repeat apply wfp_seq; try apply wfp_iter; intros;
    auto using wfp_pl_create, wfp_pl_update_dlq, wfp_pl_add_conn, wfp_pl_add_proc.
Qed.

Lemma wfp_do_update_pl c : wfp (do_update_pl c).
Proof.
  unfold do_update_pl. repeat apply wfp_seq; auto using wfp_pl_update, wfp_pl_update_dlq.
  - eapply wfp_ext with (q := fun v f =>
      (match v with
       | None => failp
       | Some p => if ids_eqb (pi_conns p) (conn_ids (pl_conns c)) then skip
                   else seq (iter pl_rm_conn (pi_conns p)) (iter pl_add_conn (conn_ids (pl_conns c)))
       end) v f).
    + intros v f. destruct v as [p|]; [destruct (ids_eqb _ _)|]; reflexivity.
    + apply wfp_case. intros v. destruct v as [p|]; [destruct (ids_eqb _ _)|];
        auto using wfp_failp, wfp_skip.
      apply wfp_seq; apply wfp_iter; intros; auto using wfp_pl_rm_conn, wfp_pl_add_conn.
  - eapply wfp_ext with (q := fun v f =>
      (match v with
       | None => failp
       | Some p => if ids_eqb (pi_procs p) (proc_ids (pl_procs c)) then skip
                   else seq (iter pl_rm_proc (pi_procs p)) (iter pl_add_proc (proc_ids (pl_procs c)))
       end) v f).
    + intros v f. destruct v as [p|]; [destruct (ids_eqb _ _)|]; reflexivity.
    + apply wfp_case. intros v. destruct v as [p|]; [destruct (ids_eqb _ _)|];
        auto using wfp_failp, wfp_skip.
      apply wfp_seq; apply wfp_iter; intros; auto using wfp_pl_rm_proc, wfp_pl_add_proc.
Qed.

Lemma wfp_do_create_conn c : wfp (do_create_conn c).
Proof.
  unfold do_create_conn. apply wfp_seq; [apply wfp_co_create|apply wfp_iter; intros; apply wfp_co_add_proc].
Qed.

Lemma wfp_do_update_conn c : wfp (do_update_conn repaired c).
Proof.
  unfold do_update_conn. apply wfp_seq; [apply wfp_co_update|]. cbn [copy_ids repaired].
  eapply wfp_ext with (q := fun v f =>
      (match v with
       | None => failp
       | Some i => if ids_eqb (ci_procs i) (proc_ids (c_procs c)) then skip
                   else seq (iter (co_rm_proc (c_id c)) (ci_procs i)) (iter (co_add_proc (c_id c)) (proc_ids (c_procs c)))
       end) v f).
  - intros v f. destruct v as [p|]; [destruct (ids_eqb _ _)|]; reflexivity.
  - apply wfp_case. intros v. destruct v as [p|]; [destruct (ids_eqb _ _)|]; auto using wfp_failp, wfp_skip.
    apply wfp_seq; apply wfp_iter; intros; auto using wfp_co_rm_proc, wfp_co_add_proc.
Qed.

Lemma wfp_rb_delete_conn c sv : wfp (rb_delete_conn repaired c sv).
Proof.
  unfold rb_delete_conn. cbn [restore_state repaired]. apply wfp_seq; [apply wfp_do_create_conn|].
  destruct sv; [apply wfp_co_set_state|apply wfp_skip].
Qed.

Lemma wfp_ado a : wfp (ado repaired a).
Proof.
  destruct a; cbn [ado];
    auto using wfp_liftP, wfp_liftC, wfp_liftR, wfp_do_create_pl, wfp_do_update_pl, wfp_do_create_conn,
      wfp_do_update_conn, wfp_co_delete, wfp_pr_create, wfp_pr_update, wfp_pr_delete.
Qed.

Lemma wfp_arb a : wfp (arb repaired a).
Proof.
  destruct a; cbn [arb];
    auto using wfp_liftP, wfp_liftC, wfp_liftR, wfp_pl_delete, wfp_do_update_pl, wfp_do_create_conn,
      wfp_do_update_conn, wfp_co_delete, wfp_rb_delete_conn, wfp_pr_create, wfp_pr_update, wfp_pr_delete.
Qed.

(* ---------------------------------------------------------------- executing an action list, cell by cell *)
Definition on (k : ekey) (l : list action) : list action := filter (fun a => ekey_eqb (akey a) k) l.

Lemma on_app k a b : on k (a ++ b) = on k a ++ on k b.
Proof. unfold on. apply filter_app. Qed.

Lemma on_rev k l : on k (rev l) = rev (on k l).
Proof.
  induction l as [|a l IH]; simpl; [reflexivity|]. rewrite on_app, IH. simpl.
  destruct (ekey_eqb (akey a) k); simpl; [reflexivity|apply app_nil_r].
Qed.

(* the fault-free run of the actions that touch one cell *)
Fixpoint cfold (l : list action) (c : cell) : cell :=
  match l with [] => c | a :: r => cfold r (cell_of (ado repaired a c None)) end.
Fixpoint call_ok (l : list action) (c : cell) : Prop :=
  match l with
  | [] => True
  | a :: r => ok_of (ado repaired a c None) = true /\ call_ok r (cell_of (ado repaired a c None))
  end.
Fixpoint rfold (l : list action) (c : cell) : cell :=
  match l with [] => c | a :: r => rfold r (cell_of (arb repaired a c None)) end.

Lemma res_eta {A} (r : res A) : r = (cell_of r, ok_of r, fault_of r, snd r).
Proof. destruct r as [[[? ?] ?] ?]. reflexivity. Qed.

Lemma ado_none a c : fault_of (ado repaired a c None) = None.
Proof.
  destruct (wfp_ado a) as [N _]. destruct (N c) as [c' [ok [t E]]]. rewrite E. reflexivity.
Qed.
Lemma arb_none a c : fault_of (arb repaired a c None) = None.
Proof.
  destruct (wfp_arb a) as [N _]. destruct (N c) as [c' [ok [t E]]]. rewrite E. reflexivity.
Qed.

Lemma exec_do_ok : forall acts s done,
  (forall k, call_ok (on k acts) (get s k)) ->
  exists s1 t, exec_do repaired acts s None done = (s1, rev acts ++ done, true, None, t)
               /\ forall k, get s1 k = cfold (on k acts) (get s k).
Proof.
  induction acts as [|a r IH]; intros s done H.
  - simpl. exists s, []. split; [reflexivity|]. intros k. reflexivity.
  - pose proof (H (akey a)) as Ha. unfold on in Ha. simpl in Ha. rewrite ekey_eqb_refl in Ha.
    simpl in Ha. destruct Ha as [Hok Hrest].
    cbn [exec_do]. rewrite (res_eta (ado repaired a (get s (akey a)) None)).
    rewrite Hok, ado_none.
    set (c1 := cell_of (ado repaired a (get s (akey a)) None)) in *.
    assert (Hk1 : kind_ok (akey a) c1) by (apply ado_kind; apply get_kind).
    destruct (IH (set s (akey a) c1) (a :: done)) as [s1 [t [E Hc]]].
    { intros k. destruct (ekey_eqb (akey a) k) eqn:Ek.
      - apply ekey_eqb_eq in Ek. subst k. rewrite get_set_same by exact Hk1. exact Hrest.
      - rewrite get_set_other.
        + specialize (H k). unfold on in H. simpl in H. rewrite Ek in H. exact H.
        + intros ->. rewrite ekey_eqb_refl in Ek. discriminate Ek. }
    rewrite E. exists s1. eexists. split.
    + simpl. rewrite <- app_assoc. reflexivity.
    + intros k. rewrite Hc. unfold on. simpl. destruct (ekey_eqb (akey a) k) eqn:Ek.
      * apply ekey_eqb_eq in Ek. subst k. rewrite get_set_same by exact Hk1. reflexivity.
      * rewrite get_set_other; [reflexivity|]. intros ->. rewrite ekey_eqb_refl in Ek. discriminate Ek.
Qed.

Lemma exec_rb_cells : forall l s,
  exists s2 ok t, exec_rb repaired l s None = (s2, ok, None, t)
                  /\ forall k, get s2 k = rfold (on k l) (get s k).
Proof.
  induction l as [|a r IH]; intros s.
  - simpl. exists s, true, []. split; [reflexivity|]. intros k. reflexivity.
  - cbn [exec_rb]. rewrite (res_eta (arb repaired a (get s (akey a)) None)). rewrite arb_none.
    set (c1 := cell_of (arb repaired a (get s (akey a)) None)) in *.
    assert (Hk1 : kind_ok (akey a) c1) by (apply arb_kind; apply get_kind).
    destruct (IH (set s (akey a) c1)) as [s2 [ok [t [E Hc]]]]. rewrite E.
    exists s2. eexists. eexists. split; [reflexivity|].
    intros k. rewrite Hc. unfold on. simpl. destruct (ekey_eqb (akey a) k) eqn:Ek.
    + apply ekey_eqb_eq in Ek. subst k. rewrite get_set_same by exact Hk1. reflexivity.
    + rewrite get_set_other; [reflexivity|]. intros ->. rewrite ekey_eqb_refl in Ek. discriminate Ek.
Qed.

(* what a cell can look like after a (possibly failing) run: each action with some fault *)
Inductive reach : list action -> cell -> cell -> Prop :=
| reach_nil c : reach [] c c
| reach_cons a r c f c' : reach r (cell_of (ado repaired a c f)) c' -> reach (a :: r) c c'.

Lemma reach_app l1 l2 c c1 c2 : reach l1 c c1 -> reach l2 c1 c2 -> reach (l1 ++ l2) c c2.
Proof.
  intros H. induction H; intros H2; simpl; [exact H2|]. econstructor. apply IHreach. exact H2.
Qed.

Lemma exec_do_reach : forall acts s f done s1 d ok f1 t,
  exec_do repaired acts s f done = (s1, d, ok, f1, t) ->
  exists pre suf, acts = pre ++ suf /\ d = rev pre ++ done /\ (ok = true -> suf = [])
                  /\ (ok = false -> pre <> [])
                  /\ forall k, reach (on k pre) (get s k) (get s1 k).
Proof.
  induction acts as [|a r IH]; intros s f done s1 d ok f1 t H.
  - simpl in H. inversion H; subst. exists [], []. repeat split; auto; try discriminate. intros k. constructor.
  - cbn [exec_do] in H. rewrite (res_eta (ado repaired a (get s (akey a)) f)) in H.
    set (c1 := cell_of (ado repaired a (get s (akey a)) f)) in *.
    assert (Hk1 : kind_ok (akey a) c1) by (apply ado_kind; apply get_kind).
    assert (Hcell : forall k, reach (on k [a]) (get s k) (get (set s (akey a) c1) k)).
    { intros k. unfold on. simpl. destruct (ekey_eqb (akey a) k) eqn:Ek.
      - apply ekey_eqb_eq in Ek. subst k. rewrite get_set_same by exact Hk1.
        econstructor. fold c1. constructor.
      - rewrite get_set_other; [constructor|]. intros ->. rewrite ekey_eqb_refl in Ek. discriminate Ek. }
    destruct (ok_of (ado repaired a (get s (akey a)) f)).
    + destruct (exec_do repaired r (set s (akey a) c1) (fault_of (ado repaired a (get s (akey a)) f)) (a :: done))
        as [[[[s2 d2] ok2] f2] t2] eqn:E.
      inversion H; subst. destruct (IH _ _ _ _ _ _ _ _ E) as [pre [suf [E1 [E2 [E3 [E4 E5]]]]]].
      exists (a :: pre), suf. split; [simpl; congruence|]. split; [simpl; rewrite <- app_assoc; exact E2|].
      split; [exact E3|]. split; [intros _; discriminate|].
      intros k. change (a :: pre) with ([a] ++ pre). rewrite on_app. eapply reach_app; [apply Hcell|apply E5].
    + inversion H; subst. exists [a], r. repeat split; auto; try discriminate.
Qed.

Lemma exec_do_none_fault : forall acts s done s1 d ok f1 t,
  exec_do repaired acts s None done = (s1, d, ok, f1, t) -> f1 = None.
Proof.
  induction acts as [|a r IH]; intros s done s1 d ok f1 t H.
  - simpl in H. inversion H. reflexivity.
  - cbn [exec_do] in H. rewrite (res_eta (ado repaired a (get s (akey a)) None)) in H.
    rewrite ado_none in H. destruct (ok_of (ado repaired a (get s (akey a)) None)).
    + destruct (exec_do repaired r _ None (a :: done)) as [[[[s2 d2] ok2] f2] t2] eqn:E.
      inversion H; subst. eapply IH; eauto.
    + inversion H. reflexivity.
Qed.

(* a fault that is still pending at the end never fired *)
Lemma exec_do_pend : forall acts s n done s1 d ok n' t,
  exec_do repaired acts s (Some n) done = (s1, d, ok, Some n', t) ->
  exists t', exec_do repaired acts s None done = (s1, d, ok, None, t').
Proof.
  induction acts as [|a r IH]; intros s n done s1 d ok n' t H.
  - simpl in *. inversion H; subst. eauto.
  - cbn [exec_do] in *. destruct (ado repaired a (get s (akey a)) (Some n)) as [[[c1 ok1] f1] t1] eqn:E.
    destruct (wfp_ado a) as [N [P _]]. destruct ok1.
    + destruct (exec_do repaired r (set s (akey a) c1) f1 (a :: done)) as [[[[s2 d2] ok2] f2] t2] eqn:E2.
      inversion H; subst. destruct f1 as [m|].
      * destruct (P _ _ _ _ _ _ E) as [t1' E']. rewrite E'.
        destruct (IH _ _ _ _ _ _ _ _ E2) as [t2' E2']. rewrite E2'. eauto.
      * apply exec_do_none_fault in E2. discriminate E2.
    + inversion H; subst. destruct (P _ _ _ _ _ _ E) as [t1' E']. rewrite E'. eauto.
Qed.

(* a fault that fired made the run fail *)
Lemma exec_do_fired_fails : forall acts s n done s1 d ok t,
  exec_do repaired acts s (Some n) done = (s1, d, ok, None, t) -> ok = false.
Proof.
  induction acts as [|a r IH]; intros s n done s1 d ok t H.
  - simpl in H. inversion H.
  - cbn [exec_do] in H. destruct (ado repaired a (get s (akey a)) (Some n)) as [[[c1 ok1] f1] t1] eqn:E.
    destruct (wfp_ado a) as [_ [_ F]]. destruct ok1.
    + destruct (exec_do repaired r (set s (akey a) c1) f1 (a :: done)) as [[[[s2 d2] ok2] f2] t2] eqn:E2.
      inversion H; subst. destruct f1 as [m|].
      * eapply IH; eauto.
      * pose proof (F _ _ _ _ _ E) as Hc. discriminate Hc.
    + inversion H; subst. reflexivity.
Qed.

(* so a run that succeeded is the run without a fault *)
Lemma exec_do_ok_any_fault : forall acts s f done s1 d f1 t,
  exec_do repaired acts s f done = (s1, d, true, f1, t) ->
  exists t', exec_do repaired acts s None done = (s1, d, true, None, t').
Proof.
  intros acts s f done s1 d f1 t H. destruct f as [n|].
  - destruct f1 as [n'|].
    + eapply exec_do_pend; eauto.
    + apply exec_do_fired_fails in H. discriminate H.
  - pose proof (exec_do_none_fault _ _ _ _ _ _ _ _ H). subst. eauto.
Qed.
