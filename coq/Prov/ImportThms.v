(* Proofs about the import model, part 6: the theorems of C15 for the repaired import path. *)
From Verif Require Import Prov.Import Prov.ImportProofs Prov.ImportCells Prov.ImportExport Prov.ImportBuild
  Prov.ImportKeys.

(* what an import starts from: the state [s] and the old config Export gives for it *)
Definition old_ok (s : st) (old : option pipec) : Prop :=
  match old with
  | Some o => cells_as s o /\ valid o = true
  | None => s_pl s = None
  end.

Lemma wf_old s : wf repaired s -> old_ok s (old_of (export repaired s)) /\ export repaired s <> EErr.
Proof.
  intros [H|[c [H Hv]]]; rewrite H; simpl.
  - split; [apply export_none; exact H|discriminate].
  - split; [split; [apply cells_of_export; exact H|exact Hv]|discriminate].
Qed.

Lemma old_nodup s old : old_ok s old ->
  nodup_ids (conn_ids (old_conns old)) = true
  /\ (forall x, In x (old_conns old) -> nodup_ids (proc_ids (c_procs x)) = true)
  /\ nodup_ids (proc_ids (old_procs old)) = true.
Proof.
  destruct old as [o|]; simpl.
  - intros [_ Hv]. apply valid_nodup. exact Hv.
  - intros _. repeat split. intros x [].
Qed.

(* nothing but the entities of the (exported) config is stored *)
Definition gf (s : st) (old : option pipec) : Prop :=
  (forall c, find_conn c (old_conns old) = None -> s_conns s c = None)
  /\ (forall c p, find_proc p (procs_of (old_conns old) c) = None -> s_procs s (Some c, p) = None)
  /\ (forall p, find_proc p (old_procs old) = None -> s_procs s (None, p) = None).

Section OneImport.
  Variables (s : st) (old : option pipec) (new : pipec).
  Hypothesis Hold : old_ok s old.
  Hypothesis Hnd : nodup_cfg new.

  Let acts := build repaired s old new.

  (* ---- the cells of the old config, as the state holds them *)
  Lemma old_conn_cell c x : find_conn c (old_conns old) = Some x ->
    exists stt, s_conns s c = Some (cinst_of x stt).
  Proof.
    intros H. destruct (find_conn_id _ _ _ H) as [Hid Hin]. destruct old as [o|]; [|contradiction].
    destruct Hold as [[_ [Hc _]] _]. destruct (Hc x Hin) as [stt [E _]]. exists stt. rewrite <- Hid. exact E.
  Qed.

  Lemma old_proc_cell_conn c p q : find_proc p (procs_of (old_conns old) c) = Some q ->
    s_procs s (Some c, p) = Some (rinst_of q) /\ valid_proc q = true.
  Proof.
    unfold procs_of. destruct (find_conn c (old_conns old)) as [x|] eqn:E; [|discriminate].
    intros H. destruct (find_conn_id _ _ _ E) as [Hid Hin]. destruct (find_proc_id _ _ _ H) as [Hp Hq].
    destruct old as [o|]; [|contradiction]. destruct Hold as [[_ [Hc _]] Hv].
    destruct (Hc x Hin) as [stt [_ E2]]. split.
    - rewrite <- Hid, <- Hp. apply E2. exact Hq.
    - destruct (valid_fields _ Hv) as [_ [_ [Hvc _]]]. destruct (Hvc x Hin) as [_ [_ Hvp]]. apply Hvp. exact Hq.
  Qed.

  Lemma old_proc_cell_pl p q : find_proc p (old_procs old) = Some q ->
    s_procs s (None, p) = Some (rinst_of q) /\ valid_proc q = true.
  Proof.
    intros H. destruct (find_proc_id _ _ _ H) as [Hp Hq]. destruct old as [o|]; [|contradiction].
    destruct Hold as [[_ [_ Hc]] Hv]. split.
    - rewrite <- Hp. apply Hc. exact Hq.
    - destruct (valid_fields _ Hv) as [_ [_ [_ Hvp]]]. apply Hvp. exact Hq.
  Qed.

  Lemma old_pl_cell : match old with Some o => s_pl s = Some (pinst_of o) | None => s_pl s = None end.
  Proof. destruct old as [o|]; [destruct Hold as [[H _] _]; exact H|exact Hold]. Qed.

  (* ---- the actions on every key *)
  Lemma acts_KP : on KP acts = pl_action old new.
  Proof. apply on_KP. Qed.

  Lemma acts_KC c : on (KC c) acts
    = conn_key_actions s (old_conns old) (find_conn c (old_conns old)) (find_conn c (pl_conns new)).
  Proof.
    unfold acts. destruct (old_nodup _ _ Hold) as [H1 _]. destruct Hnd as [H2 _].
    rewrite on_KC by assumption. reflexivity.
  Qed.

  Lemma acts_KR_pl p : on (KR None p) acts = proc_key_actions None p (old_procs old) (pl_procs new).
  Proof.
    unfold acts. destruct (old_nodup _ _ Hold) as [_ [_ H1]]. destruct Hnd as [_ [_ H2]].
    apply on_KR_pipeline; assumption.
  Qed.

  Lemma acts_KR_conn c p : on (KR (Some c) p) acts
    = proc_key_actions (Some c) p (procs_of (old_conns old) c) (procs_of (pl_conns new) c).
  Proof.
    unfold acts. destruct (old_nodup _ _ Hold) as [H1 [H2 _]]. destruct Hnd as [H3 [H4 _]].
    apply on_KR_conn; assumption.
  Qed.

  (* ---- convergence *)
  Section Converge.
    Hypothesis Hv : valid new = true.

    Lemma new_conn_fields c x : find_conn c (pl_conns new) = Some x ->
      c_id x = c /\ (c_name x =? 0) = false /\ (c_plugin x =? 0) = false.
    Proof.
      intros H. destruct (find_conn_id _ _ _ H) as [Hid Hin]. destruct (valid_fields _ Hv) as [_ [_ [Hc _]]].
      destruct (Hc x Hin) as [A [B _]]. auto.
    Qed.

    Lemma new_proc_valid_conn c p q : find_proc p (procs_of (pl_conns new) c) = Some q -> valid_proc q = true.
    Proof.
      unfold procs_of. destruct (find_conn c (pl_conns new)) as [x|] eqn:E; [|discriminate].
      intros H. destruct (find_conn_id _ _ _ E) as [_ Hin]. destruct (find_proc_id _ _ _ H) as [_ Hq].
      destruct (valid_fields _ Hv) as [_ [_ [Hc _]]]. destruct (Hc x Hin) as [_ [_ Hp]]. apply Hp. exact Hq.
    Qed.

    Lemma new_proc_valid_pl p q : find_proc p (pl_procs new) = Some q -> valid_proc q = true.
    Proof.
      intros H. destruct (find_proc_id _ _ _ H) as [_ Hq]. destruct (valid_fields _ Hv) as [_ [_ [_ Hp]]]. apply Hp. exact Hq.
    Qed.

    Lemma all_calls_ok k : call_ok (on k acts) (get s k).
    Proof.
      destruct k as [|c|[c|] p].
      - rewrite acts_KP. simpl get. apply conv_KP; [exact Hv|].
        pose proof old_pl_cell as H. destruct old; exact H.
      - rewrite acts_KC. simpl get. eapply conv_KC; [reflexivity| |].
        + intros x E. apply new_conn_fields. exact E.
        + intros x E. apply old_conn_cell. exact E.
      - rewrite acts_KR_conn. simpl get. apply conv_KR.
        + intros q E. apply old_proc_cell_conn in E. tauto.
        + intros q E. eapply new_proc_valid_conn; eauto.
      - rewrite acts_KR_pl. simpl get. apply conv_KR.
        + intros q E. apply old_proc_cell_pl in E. tauto.
        + intros q E. eapply new_proc_valid_pl; eauto.
    Qed.

    Lemma converged_cells s1 : (forall k, get s1 k = cfold (on k acts) (get s k)) -> cells_as s1 new.
    Proof.
      intros Hc. destruct Hnd as [N1 [N2 N3]]. split; [|split].
      - pose proof (Hc KP) as H. rewrite acts_KP in H. simpl get in H.
        destruct (conv_KP old new (s_pl s) Hv) as [_ E].
        { pose proof old_pl_cell as Ho. destruct old; exact Ho. }
        rewrite E in H. inversion H. reflexivity.
      - intros x Hx. pose proof (find_conn_in _ _ N1 Hx) as Hf.
        pose proof (Hc (KC (c_id x))) as H. rewrite acts_KC in H. simpl get in H.
        destruct (conv_KC s (old_conns old) (c_id x) (find_conn (c_id x) (old_conns old)) (find_conn (c_id x) (pl_conns new))
                    (s_conns s (c_id x)) eq_refl) as [_ E].
        { intros y Ey. apply new_conn_fields. exact Ey. }
        { intros y Ey. apply old_conn_cell. exact Ey. }
        destruct (E x Hf) as [stt [E1 _]]. rewrite E1 in H. inversion H as [H']. exists stt. split; [exact H'|].
        intros q Hq. pose proof (Hc (KR (Some (c_id x)) (p_id q))) as Hp. rewrite acts_KR_conn in Hp. simpl get in Hp.
        assert (Hfq : find_proc (p_id q) (procs_of (pl_conns new) (c_id x)) = Some q).
        { unfold procs_of. rewrite Hf. apply find_proc_in; [apply N2; exact Hx|exact Hq]. }
        destruct (conv_KR (Some (c_id x)) (p_id q) (procs_of (old_conns old) (c_id x)) (procs_of (pl_conns new) (c_id x))
                    (s_procs s (Some (c_id x), p_id q))) as [_ E2].
        { intros q0 E0. apply old_proc_cell_conn in E0. tauto. }
        { intros q0 E0. eapply new_proc_valid_conn; eauto. }
        rewrite (E2 q Hfq) in Hp. inversion Hp. reflexivity.
      - intros q Hq. pose proof (Hc (KR None (p_id q))) as Hp. rewrite acts_KR_pl in Hp. simpl get in Hp.
        pose proof (find_proc_in _ _ N3 Hq) as Hfq.
        destruct (conv_KR None (p_id q) (old_procs old) (pl_procs new) (s_procs s (None, p_id q))) as [_ E2].
        { intros q0 E0. apply old_proc_cell_pl in E0. tauto. }
        { intros q0 E0. eapply new_proc_valid_pl; eauto. }
        rewrite (E2 q Hfq) in Hp. inversion Hp. reflexivity.
    Qed.

    Lemma converged_state s1 xo xn :
      (forall k, get s1 k = cfold (on k acts) (get s k)) ->
      find_conn (c_id xn) (old_conns old) = Some xo -> In xn (pl_conns new) -> c_src xo = c_src xn ->
      conn_state s1 (c_id xn) = conn_state s (c_id xn).
    Proof.
      intros Hc Ho Hx Hs. destruct Hnd as [N1 _]. pose proof (find_conn_in _ _ N1 Hx) as Hf.
      pose proof (Hc (KC (c_id xn))) as H. rewrite acts_KC in H. simpl get in H.
      destruct (conv_KC s (old_conns old) (c_id xn) (find_conn (c_id xn) (old_conns old)) (find_conn (c_id xn) (pl_conns new))
                  (s_conns s (c_id xn)) eq_refl) as [_ E].
      { intros y Ey. apply new_conn_fields. exact Ey. }
      { intros y Ey. apply old_conn_cell. exact Ey. }
      destruct (E xn Hf) as [stt [E1 E2]]. rewrite E1 in H. inversion H as [H'].
      destruct (old_conn_cell _ _ Ho) as [stt0 E0].
      unfold conn_state. rewrite H', E0. simpl. apply (E2 xo stt0 Ho Hs E0).
    Qed.

    Lemma converged_gf s1 : gf s old -> (forall k, get s1 k = cfold (on k acts) (get s k)) -> gf s1 (Some new).
    Proof.
      intros [G1 [G2 G3]] Hc. split; [|split]; simpl old_conns; simpl old_procs.
      - intros c Hn. pose proof (Hc (KC c)) as H. rewrite acts_KC, Hn in H. simpl get in H.
        rewrite gone_KC in H by (intros x E; apply old_conn_cell; exact E).
        destruct (find_conn c (old_conns old)) eqn:E; inversion H as [H']; [reflexivity|].
        rewrite H'. apply G1. exact E.
      - intros c p Hn. pose proof (Hc (KR (Some c) p)) as H. rewrite acts_KR_conn in H. simpl get in H.
        rewrite (gone_KR _ _ _ _ _ Hn) in H by (intros q E; apply old_proc_cell_conn in E; tauto).
        destruct (find_proc p (procs_of (old_conns old) c)) eqn:E; inversion H as [H']; [reflexivity|].
        rewrite H'. apply G2. exact E.
      - intros p Hn. pose proof (Hc (KR None p)) as H. rewrite acts_KR_pl in H. simpl get in H.
        rewrite (gone_KR _ _ _ _ _ Hn) in H by (intros q E; apply old_proc_cell_pl in E; tauto).
        destruct (find_proc p (old_procs old)) eqn:E; inversion H as [H']; [reflexivity|].
        rewrite H'. apply G3. exact E.
    Qed.

    Lemma exec_converges : exists s1 t,
      exec_do repaired acts s None [] = (s1, rev acts ++ [], true, None, t)
      /\ cells_as s1 new
      /\ (forall xo xn, find_conn (c_id xn) (old_conns old) = Some xo -> In xn (pl_conns new) ->
            c_src xo = c_src xn -> conn_state s1 (c_id xn) = conn_state s (c_id xn))
      /\ (gf s old -> gf s1 (Some new)).
    Proof.
      destruct (exec_do_ok acts s [] all_calls_ok) as [s1 [t [E Hc]]].
      exists s1, t. split; [exact E|]. split; [apply converged_cells; exact Hc|].
      split; [intros xo xn; apply converged_state; exact Hc|].
      intros G. apply converged_gf; assumption.
    Qed.
  End Converge.

  (* ---- atomicity: whatever prefix ran, and however far its last action got, rolling it back
          restores every cell of the old config *)
  Section Restore.
    Variables (pre suf : list action) (s1 s2 : st).
    Hypothesis Hsplit : acts = pre ++ suf.
    Hypothesis Hreach : forall k, reach (on k pre) (get s k) (get s1 k).
    Hypothesis Hrb : forall k, get s2 k = rfold (on k (rev pre)) (get s1 k).

    Lemma split_on k : on k pre ++ on k suf = on k acts.
    Proof. rewrite Hsplit, on_app. reflexivity. Qed.

    Lemma restored_pl : s_pl s2 = s_pl s.
    Proof.
      pose proof (Hrb KP) as H. rewrite on_rev in H. pose proof (Hreach KP) as R. simpl get in *.
      pose proof (split_on KP) as HL. rewrite acts_KP in HL.
      pose proof old_pl_cell as Ho. destruct old as [o|].
      - destruct Hold as [_ Hvo]. rewrite Ho in R.
        rewrite (restore_KP o new _ _ _ Hvo HL R) in H. inversion H. congruence.
      - rewrite Ho in R. rewrite (restore_KP_none new _ _ _ HL R) in H. inversion H. congruence.
    Qed.

    Lemma restored_conn c x : find_conn c (old_conns old) = Some x -> s_conns s2 c = s_conns s c.
    Proof.
      intros Hf. pose proof (Hrb (KC c)) as H. rewrite on_rev in H. pose proof (Hreach (KC c)) as R. simpl get in *.
      pose proof (split_on (KC c)) as HL. rewrite acts_KC, Hf in HL.
      destruct (old_conn_cell _ _ Hf) as [stt E]. rewrite E in R.
      destruct (find_conn_id _ _ _ Hf) as [Hid Hin].
      assert (Hfields : (c_name x =? 0) = false /\ (c_plugin x =? 0) = false).
      { destruct old as [o|]; [|contradiction]. destruct Hold as [_ Hvo].
        destruct (valid_fields _ Hvo) as [_ [_ [Hc _]]]. destruct (Hc x Hin) as [A [B _]]. auto. }
      destruct Hfields as [Hn Hp].
      assert (Hsv : saved_state repaired s (c_id x) = stt).
      { unfold saved_state. cbn [restore_state repaired]. rewrite Hid, E. reflexivity. }
      assert (Hxn : forall y, find_conn c (pl_conns new) = Some y -> c_id y = c).
      { intros y Ey. apply find_conn_id in Ey. tauto. }
      rewrite (restore_KC s (old_conns old) c x (find_conn c (pl_conns new)) stt _ _ _ Hf Hxn Hn Hp Hsv HL R) in H.
      inversion H. congruence.
    Qed.

    Lemma restored_proc_conn c p q : find_proc p (procs_of (old_conns old) c) = Some q ->
      s_procs s2 (Some c, p) = s_procs s (Some c, p).
    Proof.
      intros Hf. pose proof (Hrb (KR (Some c) p)) as H. rewrite on_rev in H. pose proof (Hreach (KR (Some c) p)) as R.
      simpl get in *. pose proof (split_on (KR (Some c) p)) as HL. rewrite acts_KR_conn in HL.
      destruct (old_proc_cell_conn _ _ _ Hf) as [E Hvq]. rewrite E in R.
      rewrite (restore_KR _ _ _ _ q _ _ _ Hf Hvq HL R) in H. inversion H. congruence.
    Qed.

    Lemma restored_proc_pl p q : find_proc p (old_procs old) = Some q ->
      s_procs s2 (None, p) = s_procs s (None, p).
    Proof.
      intros Hf. pose proof (Hrb (KR None p)) as H. rewrite on_rev in H. pose proof (Hreach (KR None p)) as R.
      simpl get in *. pose proof (split_on (KR None p)) as HL. rewrite acts_KR_pl in HL.
      destruct (old_proc_cell_pl _ _ Hf) as [E Hvq]. rewrite E in R.
      rewrite (restore_KR _ _ _ _ q _ _ _ Hf Hvq HL R) in H. inversion H. congruence.
    Qed.

    Lemma restored_old : old_ok s2 old.
    Proof.
      pose proof (old_nodup _ _ Hold) as [N1 [N2 N3]].
      pose proof restored_pl as Rpl. pose proof restored_conn as Rc.
      pose proof restored_proc_conn as Rpc. pose proof restored_proc_pl as Rpp.
      pose proof Hold as Ho. unfold old_ok in *.
      destruct old as [o|].
      - destruct Ho as [[H1 [H2 H3]] Hvo]. split; [|exact Hvo]. split; [|split].
        + rewrite Rpl. exact H1.
        + intros x Hx. destruct (H2 x Hx) as [stt [E1 E2]]. exists stt.
          pose proof (find_conn_in _ _ N1 Hx) as Hf. split.
          * rewrite (Rc _ _ Hf). exact E1.
          * intros q Hq. rewrite (Rpc (c_id x) (p_id q) q); [apply E2; exact Hq|].
            unfold procs_of. rewrite Hf. apply find_proc_in; [apply N2; exact Hx|exact Hq].
        + intros q Hq. rewrite (Rpp (p_id q) q); [apply H3; exact Hq|].
          apply find_proc_in; [exact N3|exact Hq].
      - rewrite Rpl. exact Ho.
    Qed.

    Lemma restored_gf : gf s old -> gf s2 old.
    Proof.
      intros [G1 [G2 G3]]. split; [|split].
      - intros c Hn. pose proof (Hrb (KC c)) as H. rewrite on_rev in H. pose proof (Hreach (KC c)) as R.
        simpl get in *. pose proof (split_on (KC c)) as HL. rewrite acts_KC, Hn in HL. rewrite (G1 c Hn) in R.
        assert (Hxn : forall y, find_conn c (pl_conns new) = Some y -> c_id y = c).
        { intros y Ey. apply find_conn_id in Ey. tauto. }
        rewrite (fresh_KC s (old_conns old) c _ _ _ _ Hn Hxn HL R) in H. inversion H. reflexivity.
      - intros c p Hn. pose proof (Hrb (KR (Some c) p)) as H. rewrite on_rev in H. pose proof (Hreach (KR (Some c) p)) as R.
        simpl get in *. pose proof (split_on (KR (Some c) p)) as HL. rewrite acts_KR_conn in HL. rewrite (G2 c p Hn) in R.
        rewrite (fresh_KR _ _ _ _ _ _ _ Hn HL R) in H. inversion H. reflexivity.
      - intros p Hn. pose proof (Hrb (KR None p)) as H. rewrite on_rev in H. pose proof (Hreach (KR None p)) as R.
        simpl get in *. pose proof (split_on (KR None p)) as HL. rewrite acts_KR_pl in HL. rewrite (G3 p Hn) in R.
        rewrite (fresh_KR _ _ _ _ _ _ _ Hn HL R) in H. inversion H. reflexivity.
    Qed.

    Lemma restored_state c x : find_conn c (old_conns old) = Some x -> conn_state s2 c = conn_state s c.
    Proof. intros Hf. unfold conn_state. rewrite (restored_conn _ _ Hf). reflexivity. Qed.
  End Restore.
End OneImport.

(* ================================================================ the theorems *)
Lemma plan_of_wf s new : wf repaired s ->
  plan repaired s new = Some (build repaired s (old_of (export repaired s)) new).
Proof.
  intros Hw. destruct (wf_old _ Hw) as [_ Hne]. unfold plan. destruct (export repaired s); [reflexivity|congruence|reflexivity].
Qed.

(* converges: importing a valid config into any state an import can start from succeeds, and the
   export afterwards is that config; the State of a connector that keeps id and type is kept *)
Theorem import_converges : forall s new, wf repaired s -> valid new = true ->
  exists s' t, import repaired s new None = (s', OOk, None, t)
               /\ export repaired s' = EOk new
               /\ (forall xo xn, find_conn (c_id xn) (old_conns (old_of (export repaired s))) = Some xo ->
                     In xn (pl_conns new) -> c_src xo = c_src xn -> conn_state s' (c_id xn) = conn_state s (c_id xn)).
Proof.
  intros s new Hw Hv. destruct (wf_old _ Hw) as [Hold _].
  destruct (exec_converges s _ new Hold (valid_nodup _ Hv) Hv) as [s1 [t [E [Hc [Hs _]]]]].
  exists s1, t. unfold import. rewrite (plan_of_wf _ _ Hw), E. split; [reflexivity|].
  split; [apply export_of_cells; exact Hc|exact Hs].
Qed.

Lemma flat_map_nil {X Y} (f : X -> list Y) l : (forall x, In x l -> f x = []) -> flat_map f l = [].
Proof.
  induction l as [|x r IH]; intros H; simpl; [reflexivity|].
  rewrite (H x (or_introl eq_refl)). apply IH. intros y Hy. apply H. right. exact Hy.
Qed.

Lemma vanished_same par l : nodup_ids (proc_ids l) = true -> vanished_procs par l l = [].
Proof.
  intros H. unfold vanished_procs. apply flat_map_nil. intros q Hq. rewrite (find_proc_in _ _ H Hq). reflexivity.
Qed.

Lemma proc_actions_same par l : nodup_ids (proc_ids l) = true -> flat_map (proc_actions par l) l = [].
Proof.
  intros H. apply flat_map_nil. intros q Hq. unfold proc_actions. rewrite (find_proc_in _ _ H Hq), procc_eqb_refl.
  reflexivity.
Qed.

(* idempotent: once the export equals the config, Build has nothing left to do *)
Theorem import_idempotent : forall s new, valid new = true -> export repaired s = EOk new ->
  plan repaired s new = Some [].
Proof.
  intros s new Hv He. destruct (valid_nodup _ Hv) as [N1 [N2 N3]].
  unfold plan. rewrite He. simpl old_of. f_equal. unfold build, build_old, build_new.
  assert (E1 : flat_map (fun c => match find_conn (c_id c) (pl_conns new) with
                                  | None => ADeleteConn c (saved_state repaired s (c_id c))
                                            :: vanished_procs (Some (c_id c)) (c_procs c) []
                                  | Some c' => vanished_procs (Some (c_id c)) (c_procs c) (c_procs c')
                                  end) (pl_conns new) = []).
  { apply flat_map_nil. intros c Hc. rewrite (find_conn_in _ _ N1 Hc). apply vanished_same. apply N2. exact Hc. }
  rewrite E1, (vanished_same None _ N3). simpl rev. simpl app.
  assert (E2 : pipe_shallow_eqb new new = true).
  { unfold pipe_shallow_eqb. rewrite !Nat.eqb_refl, dlq_eqb_refl, !ids_eqb_refl. reflexivity. }
  rewrite E2. simpl app. rewrite (proc_actions_same None _ N3), app_nil_r.
  apply flat_map_nil. intros c Hc. unfold conn_actions. rewrite (find_conn_in _ _ N1 Hc), eqb_reflx.
  assert (E3 : conn_mutable_eqb c c = true).
  { unfold conn_mutable_eqb. rewrite !Nat.eqb_refl, ids_eqb_refl. reflexivity. }
  rewrite E3. simpl app. apply proc_actions_same. apply N2. exact Hc.
Qed.

(* chain: any chain of valid configs converges to the last *)
Fixpoint chain (s : st) (l : list pipec) : st * bool :=
  match l with
  | [] => (s, true)
  | c :: r => let '(s', oc, _, _) := import repaired s c None in
              match oc with OOk => chain s' r | _ => (s', false) end
  end.

Theorem import_chain : forall l s c, wf repaired s -> forallb valid (l ++ [c]) = true ->
  exists s', chain s (l ++ [c]) = (s', true) /\ export repaired s' = EOk c.
Proof.
  induction l as [|x r IH]; intros s c Hw Hv; simpl in Hv; apply andb_prop in Hv; destruct Hv as [Hx Hr].
  - destruct (import_converges s c Hw Hx) as [s' [t [E [He _]]]]. exists s'. simpl. rewrite E. auto.
  - destruct (import_converges s x Hw Hx) as [s' [t [E [He _]]]]. simpl. rewrite E.
    apply IH; [|exact Hr]. right. exists x. auto.
Qed.

(* fails atomically: an import that fails - because one store write failed, or because the config
   is invalid - leaves the export and every connector State as they were *)
Theorem import_fails_atomically : forall s new f s2 f2 t,
  wf repaired s -> nodup_cfg new -> (valid new = true \/ f = None) ->
  import repaired s new f = (s2, OFailed, f2, t) ->
  export repaired s2 = export repaired s
  /\ (forall c x, find_conn c (old_conns (old_of (export repaired s))) = Some x -> conn_state s2 c = conn_state s c).
Proof.
  intros s new f s2 f2 t Hw Hnd Hf H. destruct (wf_old _ Hw) as [Hold Hne].
  unfold import in H. rewrite (plan_of_wf _ _ Hw) in H.
  set (old := old_of (export repaired s)) in *. set (acts := build repaired s old new) in *.
  destruct (exec_do repaired acts s f []) as [[[[s1 done] ok] f1] t1] eqn:E.
  destruct ok; [inversion H|].
  assert (Hf1 : f1 = None).
  { destruct f as [n|]; [|eapply exec_do_none_fault; eauto].
    destruct f1 as [n'|]; [|reflexivity]. exfalso.
    destruct Hf as [Hv|Hf]; [|discriminate Hf].
    destruct (exec_do_pend _ _ _ _ _ _ _ _ _ E) as [t' E'].
    destruct (exec_converges s old new Hold Hnd Hv) as [s1' [t'' [E'' _]]].
    fold acts in E''. rewrite E'' in E'. inversion E'. }
  subst f1. destruct (exec_do_reach _ _ _ _ _ _ _ _ _ E) as [pre [suf [Hs [Hd [_ [_ Hr]]]]]].
  destruct (exec_rb_cells done s1) as [s2' [ok2 [t2 [Erb Hcells]]]]. rewrite Erb in H. inversion H; subst s2'.
  rewrite app_nil_r in Hd. subst done.
  pose proof (restored_old s old new Hold Hnd pre suf s1 s2 Hs Hr Hcells) as Hro.
  split.
  - unfold old in *. destruct (export repaired s) as [| |o] eqn:Ee; simpl in *.
    + apply export_none. exact Hro.
    + congruence.
    + apply export_of_cells. tauto.
  - intros c x Hfc. eapply (restored_state s old new Hold Hnd pre suf s1 s2 Hs Hr Hcells); eauto.
Qed.

Theorem import_converges_export : forall s new, wf repaired s -> valid new = true ->
  exists s' t, import repaired s new None = (s', OOk, None, t) /\ export repaired s' = EOk new.
Proof.
  intros s new Hw Hv. destruct (import_converges s new Hw Hv) as [s' [t [E [He _]]]]. eauto.
Qed.

(* position kept: a connector with the same id and type before and after keeps its State *)
Theorem position_kept : forall s new, wf repaired s -> valid new = true ->
  forall xo xn, find_conn (c_id xn) (old_conns (old_of (export repaired s))) = Some xo ->
    In xn (pl_conns new) -> c_src xo = c_src xn ->
    conn_state (fst (fst (fst (import repaired s new None)))) (c_id xn) = conn_state s (c_id xn).
Proof.
  intros s new Hw Hv xo xn H1 H2 H3. destruct (import_converges s new Hw Hv) as [s' [t [E [_ Hs]]]].
  rewrite E. simpl. eapply Hs; eauto.
Qed.

(* ---------------------------------------------------------------- one import, any fault: full specification *)
Theorem import_ok_spec : forall s new f s' f' t, wf repaired s -> valid new = true ->
  import repaired s new f = (s', OOk, f', t) ->
  cells_as s' new
  /\ (forall xo xn, find_conn (c_id xn) (old_conns (old_of (export repaired s))) = Some xo ->
        In xn (pl_conns new) -> c_src xo = c_src xn -> conn_state s' (c_id xn) = conn_state s (c_id xn))
  /\ (gf s (old_of (export repaired s)) -> gf s' (Some new)).
Proof.
  intros s new f s' f' t Hw Hv H. destruct (wf_old _ Hw) as [Hold _].
  unfold import in H. rewrite (plan_of_wf _ _ Hw) in H.
  set (old := old_of (export repaired s)) in *.
  destruct (exec_do repaired (build repaired s old new) s f []) as [[[[s1 done] ok] f1] t1] eqn:E.
  destruct ok.
  - inversion H; subst. destruct (exec_do_ok_any_fault _ _ _ _ _ _ _ _ E) as [t' E'].
    destruct (exec_converges s old new Hold (valid_nodup _ Hv) Hv) as [s1' [t'' [E'' [Hc [Hs Hg]]]]].
    rewrite E'' in E'. inversion E'; subst. auto.
  - destruct (exec_rb repaired done s1 f1) as [[[s2 ok2] f2] t2]. inversion H.
Qed.

Theorem import_failed_spec : forall s new f s2 f2 t,
  wf repaired s -> nodup_cfg new -> (valid new = true \/ f = None) ->
  import repaired s new f = (s2, OFailed, f2, t) ->
  old_ok s2 (old_of (export repaired s))
  /\ (forall c x, find_conn c (old_conns (old_of (export repaired s))) = Some x -> s_conns s2 c = s_conns s c)
  /\ (gf s (old_of (export repaired s)) -> gf s2 (old_of (export repaired s))).
Proof.
  intros s new f s2 f2 t Hw Hnd Hf H. destruct (wf_old _ Hw) as [Hold Hne].
  unfold import in H. rewrite (plan_of_wf _ _ Hw) in H.
  set (old := old_of (export repaired s)) in *. set (acts := build repaired s old new) in *.
  destruct (exec_do repaired acts s f []) as [[[[s1 done] ok] f1] t1] eqn:E.
  destruct ok; [inversion H|].
  assert (Hf1 : f1 = None).
  { destruct f as [n|]; [|eapply exec_do_none_fault; eauto].
    destruct f1 as [n'|]; [|reflexivity]. exfalso.
    destruct Hf as [Hv|Hf]; [|discriminate Hf].
    destruct (exec_do_pend _ _ _ _ _ _ _ _ _ E) as [t' E'].
    destruct (exec_converges s old new Hold Hnd Hv) as [s1' [t'' [E'' _]]].
    fold acts in E''. rewrite E'' in E'. inversion E'. }
  subst f1. destruct (exec_do_reach _ _ _ _ _ _ _ _ _ E) as [pre [suf [Hs [Hd [_ [_ Hr]]]]]].
  destruct (exec_rb_cells done s1) as [s2' [ok2 [t2 [Erb Hcells]]]]. rewrite Erb in H. inversion H; subst s2'.
  rewrite app_nil_r in Hd. subst done.
  split; [exact (restored_old s old new Hold Hnd pre suf s1 s2 Hs Hr Hcells)|].
  split; [intros c x Hc; exact (restored_conn s old new Hold Hnd pre suf s1 s2 Hs Hr Hcells c x Hc)|].
  exact (restored_gf s old new Hold Hnd pre suf s1 s2 Hs Hr Hcells).
Qed.

Theorem import_never_export_err : forall s new f, wf repaired s ->
  snd (fst (fst (import repaired s new f))) <> OExportErr.
Proof.
  intros s new f Hw. unfold import. rewrite (plan_of_wf _ _ Hw).
  destruct (exec_do repaired _ s f []) as [[[[s1 done] ok] f1] t1]. destruct ok; simpl; [discriminate|].
  destruct (exec_rb repaired done s1 f1) as [[[s2 ok2] f2] t2]. simpl. discriminate.
Qed.
