(* Witnesses: the faithful model of the shipped import path ([shipped] flags) refutes the
   C15 statements.  Each witness is a concrete config pair evaluated with vm_compute; the
   harness replays the same shapes on the real provisioning.Service (findings S9, S10 and the
   lost connector State). *)
From Verif Require Import Prov.Import.

Definition w_dlq := mkDlq 1 1 1 0.
Definition w_p (i : nat) := mkProc i 1 0 1 0.
Definition out_of (r : st * outcome * fault * list sop) : outcome := snd (fst (fst r)).
Definition st_of (r : st * outcome * fault * list sop) : st := fst (fst (fst r)).

(* S9: a connector with three processors whose order changes *)
Definition w9_old := mkPipe 1 0 w_dlq [mkConn 1 true 1 1 0 [w_p 1; w_p 2; w_p 3]] [].
Definition w9_new := mkPipe 1 0 w_dlq [mkConn 1 true 1 1 0 [w_p 3; w_p 2; w_p 1]] [].

Lemma import_converges_refuted_S9 :
  exists s new, wf shipped s /\ valid new = true /\ out_of (import shipped s new None) = OFailed.
Proof.
  exists (st_of (import shipped empty_st w9_old None)), w9_new.
  split; [|split].
  - right. exists w9_old. split; vm_compute; reflexivity.
  - vm_compute. reflexivity.
  - vm_compute. reflexivity.
Qed.

(* S10: a processor with a condition *)
Definition w10_a := mkPipe 1 0 w_dlq [] [mkProc 1 1 0 1 1].
Definition w10_b := mkPipe 1 0 w_dlq [] [mkProc 1 1 0 1 2].

Lemma import_converges_refuted_S10 :
  exists new, valid new = true /\ out_of (import shipped empty_st new None) = OOk
              /\ export shipped (st_of (import shipped empty_st new None)) <> EOk new.
Proof.
  exists w10_a. split; [|split]; [vm_compute; reflexivity ..|].
  vm_compute. intros H. discriminate H.
Qed.

Lemma import_idempotent_refuted_S10 :
  exists new, valid new = true /\ out_of (import shipped empty_st new None) = OOk
              /\ plan shipped (st_of (import shipped empty_st new None)) new <> Some [].
Proof.
  exists w10_a. split; [|split]; [vm_compute; reflexivity ..|].
  vm_compute. intros H. discriminate H.
Qed.

Lemma changed_condition_not_stored_refuted :
  exists s new, wf shipped s /\ valid new = true /\ out_of (import shipped s new None) = OOk
                /\ option_map ri_cond (s_procs (st_of (import shipped s new None)) (None, 1)) <> Some 2.
Proof.
  exists (st_of (import shipped empty_st w10_a None)), w10_b.
  split; [|split; [|split]].
  - right. exists (mkPipe 1 0 w_dlq [] [mkProc 1 1 0 1 0]). split; vm_compute; reflexivity.
  - vm_compute. reflexivity.
  - vm_compute. reflexivity.
  - vm_compute. intros H. discriminate H.
Qed.

(* a failed import that had deleted a connector: the rollback recreates it without its State *)
Definition wst_old := mkPipe 1 0 w_dlq [mkConn 1 true 1 1 0 []; mkConn 2 false 1 2 0 []] [].
Definition wst_new := mkPipe 1 0 w_dlq [mkConn 2 false 1 2 0 []] [mkProc 1 100 0 1 0].
Definition wst_s : st :=
  let s := st_of (import shipped empty_st wst_old None) in
  set s (KC 1) (CC (Some (mkCI true 1 1 0 [] (Some 7)))).

Lemma position_lost_on_rollback_refuted :
  exists s new, wf shipped s /\ out_of (import shipped s new None) = OFailed
                /\ export shipped (st_of (import shipped s new None)) = export shipped s
                /\ conn_state s 1 = Some 7 /\ conn_state (st_of (import shipped s new None)) 1 = None.
Proof.
  exists wst_s, wst_new. split; [|split; [|split; [|split]]].
  - right. exists wst_old. split; vm_compute; reflexivity.
  - vm_compute. reflexivity.
  - vm_compute. reflexivity.
  - vm_compute. reflexivity.
  - vm_compute. reflexivity.
Qed.
