(* Proofs about the model of provisioning.Service.Init (Prov/Init.v): which pipelines the sweep
   deletes (exactly the config-provisioned ones that vanished from the directory), what a failed
   import inside Init leaves behind (everything, and the pipeline is not swept), and restart. *)
From Verif Require Import Prov.Import Prov.ImportProofs Prov.ImportCells Prov.ImportExport Prov.ImportBuild Prov.ImportKeys
  Prov.ImportThms Prov.Check Prov.ImportMonitor Prov.Init.

(* ---------------------------------------------------------------- worlds *)
Lemma wset_same w id e : wset w id e id = e.
Proof. unfold wset. rewrite Nat.eqb_refl. reflexivity. Qed.
Lemma wset_other w id e j : j <> id -> wset w id e j = w j.
Proof. intros H. unfold wset. destruct (j =? id) eqn:E; [apply Nat.eqb_eq in E; contradiction|reflexivity]. Qed.

Lemma mem_In x l : mem x l = true <-> In x l.
Proof.
  induction l as [|y r IH]; simpl; [split; [discriminate|intros []]|].
  rewrite orb_true_iff, IH, Nat.eqb_eq. split; intros [H|H]; auto.
Qed.
Lemma mem_false x l : mem x l = false <-> ~ In x l.
Proof. rewrite <- mem_In. destruct (mem x l); split; try congruence; intros H; exfalso; apply H; reflexivity. Qed.

(* ---------------------------------------------------------------- counting ids *)
Lemma count_in x l : In x l -> 1 <= count x l.
Proof.
  induction l as [|y r IH]; simpl; [intros []|]. intros [H|H].
  - subst. rewrite Nat.eqb_refl. lia.
  - specialize (IH H). lia.
Qed.
Lemma count_le1_nodup l : (forall x, In x l -> count x l <= 1) -> NoDup l.
Proof.
  induction l as [|a r IH]; intros H; constructor.
  - intros Hin. specialize (H a (or_introl eq_refl)). simpl in H. rewrite Nat.eqb_refl in H.
    pose proof (count_in _ _ Hin). lia.
  - apply IH. intros x Hx. specialize (H x (or_intror Hx)). simpl in H. lia.
Qed.
Lemma count_filter_le (P : dentry -> bool) id dir : count id (ids_of (filter P dir)) <= count id (ids_of dir).
Proof.
  induction dir as [|e r IH]; simpl; [lia|]. destruct (P e); simpl; lia.
Qed.

Lemma in_ids_of id l : In id (ids_of l) <-> exists e, In e l /\ de_id e = id.
Proof.
  unfold ids_of. rewrite in_map_iff. split; intros [e [H1 H2]]; exists e; auto.
Qed.

Lemma todo_nodup w dir : NoDup (ids_of (todo w dir)).
Proof.
  apply count_le1_nodup. intros x Hx. apply in_ids_of in Hx. destruct Hx as [e [He Hid]].
  unfold todo in He. apply filter_In in He. destruct He as [_ Hc]. apply andb_prop in Hc. destruct Hc as [Hd _].
  subst x. unfold dup in Hd. apply negb_true_iff in Hd. apply Nat.ltb_ge in Hd.
  pose proof (count_filter_le (fun e => negb (dup dir (de_id e)) && negb (api_owned w (de_id e))) (de_id e) dir) as Hle.
  fold (todo w dir) in Hle. unfold dup in Hle. lia.
Qed.

(* ---------------------------------------------------------------- the provisioning loop *)
Lemma provision_all_cons fl w e r :
  provision_all fl w (e :: r) =
  (fst (provision_all fl (wset w (de_id e) (fst (fst (provision1 fl (w (de_id e)) e)))) r),
   (de_id e, snd (fst (provision1 fl (w (de_id e)) e)), snd (provision1 fl (w (de_id e)) e))
   :: snd (provision_all fl (wset w (de_id e) (fst (fst (provision1 fl (w (de_id e)) e)))) r)).
Proof.
  simpl. unfold provision. destruct (provision1 fl (w (de_id e)) e) as [[x' ok] t]. simpl.
  destruct (provision_all fl (wset w (de_id e) x') r) as [w2 res]. reflexivity.
Qed.

(* isolation: the loop only touches the pipelines it is given *)
Lemma provision_all_other fl l : forall w id, ~ In id (ids_of l) -> fst (provision_all fl w l) id = w id.
Proof.
  induction l as [|e r IH]; intros w id Hn; [reflexivity|].
  rewrite provision_all_cons. simpl fst. simpl in Hn. rewrite IH by tauto.
  apply wset_other. intros H. apply Hn. left. congruence.
Qed.

Lemma provision_all_in fl l : forall w e, NoDup (ids_of l) -> In e l ->
  fst (provision_all fl w l) (de_id e) = fst (fst (provision1 fl (w (de_id e)) e)).
Proof.
  induction l as [|a r IH]; intros w e Hnd Hin; [destruct Hin|].
  rewrite provision_all_cons. simpl fst. simpl in Hnd. inversion Hnd as [|? ? Hna Hnr]; subst.
  destruct Hin as [H|H].
  - subst a. rewrite provision_all_other by exact Hna. apply wset_same.
  - assert (Hne : de_id e <> de_id a).
    { intros Heq. apply Hna. rewrite <- Heq. apply in_ids_of. exists e. auto. }
    rewrite (IH _ e Hnr H). rewrite wset_other by exact Hne. reflexivity.
Qed.

(* ---------------------------------------------------------------- the sweep *)
Lemma in_todo_in_dir w dir id : In id (ids_of (todo w dir)) -> In id (ids_of dir).
Proof.
  intros H. apply in_ids_of in H. destruct H as [e [He Hid]]. apply filter_In in He.
  apply in_ids_of. exists e. tauto.
Qed.

Lemma in_keep w dir id :
  In id (keep_ids w dir) <-> (In id (ids_of dir) /\ dup dir id = true) \/ In id (ids_of (todo w dir)).
Proof.
  unfold keep_ids. rewrite in_app_iff, filter_In. tauto.
Qed.

Lemma not_todo_why w dir id : In id (ids_of dir) -> ~ In id (ids_of (todo w dir)) ->
  dup dir id = true \/ api_owned w id = true.
Proof.
  intros Hd Hn. apply in_ids_of in Hd. destruct Hd as [e [He Hid]].
  destruct (dup dir id) eqn:E1; [auto|]. destruct (api_owned w id) eqn:E2; [auto|].
  exfalso. apply Hn. apply in_ids_of. exists e. split; [|exact Hid].
  apply filter_In. split; [exact He|]. rewrite Hid, E1, E2. reflexivity.
Qed.

(* deleteOldPipelines is handed exactly the config-provisioned pipelines that vanished from the
   directory - for every variant of the import code, any directory, any faults *)
Theorem swept_iff_vanished fl w dir id :
  swept (keep_ids w dir) (fst (provision_all fl w (todo w dir))) id = vanished w dir id.
Proof.
  unfold swept, swept1, vanished, in_dir, exists_pl.
  destruct (mem id (ids_of (todo w dir))) eqn:Et.
  - apply mem_In in Et.
    assert (Hk : mem id (keep_ids w dir) = true) by (apply mem_In, in_keep; auto).
    assert (Hd : mem id (ids_of dir) = true) by (apply mem_In; eapply in_todo_in_dir; eauto).
    rewrite Hk, Hd. simpl. rewrite !andb_false_r. reflexivity.
  - apply mem_false in Et. rewrite (provision_all_other fl _ w id Et).
    destruct (mem id (ids_of dir)) eqn:Ed.
    + apply mem_In in Ed. simpl. rewrite andb_false_r.
      destruct (not_todo_why w dir id Ed Et) as [Hdup|Hapi].
      * assert (Hk : mem id (keep_ids w dir) = true) by (apply mem_In, in_keep; auto).
        rewrite Hk. simpl. apply andb_false_r.
      * unfold api_owned, exists_pl in Hapi. apply andb_prop in Hapi. destruct Hapi as [H1 H2].
        apply negb_true_iff in H2. rewrite H1, H2. reflexivity.
    + assert (Hk : mem id (keep_ids w dir) = false).
      { apply mem_false. intros H. apply in_keep in H. apply mem_false in Ed.
        destruct H as [[H _]|H]; [auto|]. apply Ed. eapply in_todo_in_dir; eauto. }
      rewrite Hk. reflexivity.
Qed.

(* the world after Init, pipeline by pipeline: a vanished pipeline is what Delete leaves of it;
   every other pipeline is what the provisioning loop left (in particular: never deleted) *)
Theorem init_deletes_exactly_vanished fl w dir id :
  fst (init fl w dir) id =
  if vanished w dir id then mkW (fst (fst (delete_pl fl (w_st (w id))))) true
  else fst (provision_all fl w (todo w dir)) id.
Proof.
  unfold init. destruct (provision_all fl w (todo w dir)) as [w1 res] eqn:E. simpl fst.
  pose proof (swept_iff_vanished fl w dir id) as Hs. rewrite E in Hs. simpl fst in Hs.
  unfold sweep. unfold swept in Hs. rewrite Hs.
  destruct (vanished w dir id) eqn:Ev; [|reflexivity].
  unfold vanished in Ev. apply andb_prop in Ev. destruct Ev as [Ev Hnd]. apply andb_prop in Ev. destruct Ev as [_ Hc].
  apply negb_true_iff in Hnd. unfold in_dir in Hnd. apply mem_false in Hnd.
  assert (Hw : w1 id = w id).
  { replace w1 with (fst (provision_all fl w (todo w dir))) by (rewrite E; reflexivity).
    apply provision_all_other. intros H. apply Hnd. eapply in_todo_in_dir; eauto. }
  rewrite Hw, Hc. reflexivity.
Qed.

(* a pipeline that is in the directory - whatever happens to its config: imported, failing,
   rejected, duplicated, owned by the API - is never handed to Delete *)
Corollary init_never_deletes_listed fl w dir id : In id (ids_of dir) ->
  fst (init fl w dir) id = fst (provision_all fl w (todo w dir)) id.
Proof.
  intros H. rewrite init_deletes_exactly_vanished. unfold vanished, in_dir.
  apply mem_In in H. rewrite H. simpl. rewrite andb_false_r. reflexivity.
Qed.

(* pipelines Init has no business with are untouched *)
Corollary init_leaves_others fl w dir id : ~ In id (ids_of dir) -> vanished w dir id = false ->
  fst (init fl w dir) id = w id.
Proof.
  intros Hn Hv. rewrite init_deletes_exactly_vanished, Hv. apply provision_all_other.
  intros H. apply Hn. eapply in_todo_in_dir; eauto.
Qed.

(* ---------------------------------------------------------------- a failing import inside Init *)
(* the pipeline [de_id e] reaches the loop, its import fails (rejected by validation, refused by a
   service, or one store write fails): after Init - rollback AND sweep - the pipeline exports
   exactly what it exported before, every connector of it has its State, and it keeps its tag *)
Theorem init_retains_failed w dir e :
  In e (todo w dir) ->
  wf repaired (w_st (w (de_id e))) -> nodup_cfg (de_cfg e) ->
  (valid (de_cfg e) = true \/ de_fault e = None) ->
  snd (fst (provision1 repaired (w (de_id e)) e)) = false ->
  let x := w (de_id e) in
  let x' := fst (init repaired w dir) (de_id e) in
  export repaired (w_st x') = export repaired (w_st x)
  /\ (forall c k, find_conn c (old_conns (old_of (export repaired (w_st x)))) = Some k ->
        conn_state (w_st x') c = conn_state (w_st x) c)
  /\ (has_pl (w_st x) = true -> w_cfg x' = w_cfg x).
Proof.
  intros Hin Hwf Hnd Hf Hfail x x'. subst x x'.
  assert (Hd : In (de_id e) (ids_of dir)).
  { apply (in_todo_in_dir w dir). apply in_ids_of. exists e. split; [exact Hin|reflexivity]. }
  rewrite (init_never_deletes_listed repaired w dir _ Hd).
  rewrite (provision_all_in repaired _ w e (todo_nodup w dir) Hin).
  unfold provision1 in *. destruct (de_bad e); [simpl; auto|].
  destruct (import repaired (w_st (w (de_id e))) (de_cfg e) (de_fault e)) as [[[s' oc] f'] t] eqn:E.
  simpl in Hfail. simpl.
  destruct oc; simpl in Hfail; [discriminate| |].
  - destruct (import_fails_atomically _ _ _ _ _ _ Hwf Hnd Hf E) as [H1 H2].
    split; [exact H1|]. split; [exact H2|]. intros Hp. rewrite Hp. reflexivity.
  - exfalso. pose proof (import_never_export_err (w_st (w (de_id e))) (de_cfg e) (de_fault e) Hwf) as Hne.
    rewrite E in Hne. simpl in Hne. congruence.
Qed.

(* ---------------------------------------------------------------- restart *)
(* every config of the directory is valid, no id twice, none owned by the API, no store failure:
   Init converges every listed pipeline to its config ... *)
Definition clean_dir (w : world) (dir : list dentry) : Prop :=
  NoDup (ids_of dir)
  /\ forall e, In e dir -> valid (de_cfg e) = true /\ de_bad e = false /\ de_fault e = None
                          /\ api_owned w (de_id e) = false /\ wf repaired (w_st (w (de_id e))).

Lemma nodup_count1 x l : NoDup l -> count x l <= 1.
Proof.
  induction 1 as [|a r Hn _ IH]; simpl; [lia|]. destruct (x =? a) eqn:E; [|lia].
  apply Nat.eqb_eq in E. subst a. destruct (count x r) eqn:Ec; [lia|].
  exfalso. apply Hn. clear -Ec. induction r as [|b r IH]; simpl in *; [discriminate|].
  destruct (x =? b) eqn:E; [apply Nat.eqb_eq in E; auto|right; apply IH; exact Ec].
Qed.

Lemma filter_all {A} (P : A -> bool) l : (forall x, In x l -> P x = true) -> filter P l = l.
Proof.
  induction l as [|a r IH]; intros H; simpl; [reflexivity|].
  rewrite (H a (or_introl eq_refl)). f_equal. apply IH. intros x Hx. apply H. right. exact Hx.
Qed.

Lemma clean_todo w dir : clean_dir w dir -> todo w dir = dir.
Proof.
  intros [Hnd Hall]. unfold todo. apply filter_all. intros e He.
  destruct (Hall e He) as [_ [_ [_ [Ha _]]]]. rewrite Ha. unfold dup.
  pose proof (nodup_count1 (de_id e) _ Hnd) as Hc. destruct (1 <? count (de_id e) (ids_of dir)) eqn:E; [|reflexivity].
  apply Nat.ltb_lt in E. lia.
Qed.

Theorem init_converges_listed w dir e : clean_dir w dir -> In e dir ->
  let x' := fst (init repaired w dir) (de_id e) in
  export repaired (w_st x') = EOk (de_cfg e) /\ w_cfg x' = true.
Proof.
  intros Hc He. pose proof Hc as [Hnd Hall]. destruct (Hall e He) as [Hv [Hb [Hf [Ha Hwf]]]].
  assert (Hd : In (de_id e) (ids_of dir)) by (apply in_ids_of; exists e; auto).
  cbv zeta. rewrite (init_never_deletes_listed repaired w dir _ Hd). rewrite (clean_todo _ _ Hc).
  rewrite (provision_all_in repaired dir w e Hnd He).
  unfold provision1. rewrite Hb, Hf.
  destruct (import_converges_export _ _ Hwf Hv) as [s' [t [E Hex]]]. rewrite E. simpl.
  split; [exact Hex|].
  destruct (has_pl (w_st (w (de_id e)))) eqn:Ep; [|reflexivity].
  unfold api_owned, exists_pl in Ha. rewrite Ep in Ha. simpl in Ha. apply negb_false_iff in Ha. exact Ha.
Qed.

(* ... and Init once more (restart, same directory) has nothing to do for them: no store write,
   the pipeline state is literally the same *)
Theorem init_idempotent_listed w dir e : clean_dir w dir -> In e dir ->
  let w1 := fst (init repaired w dir) in
  fst (init repaired w1 dir) (de_id e) = w1 (de_id e)
  /\ snd (provision1 repaired (w1 (de_id e)) e) = []
  /\ snd (fst (provision1 repaired (w1 (de_id e)) e)) = true.
Proof.
  intros Hc He. cbv zeta. pose proof Hc as [Hnd Hall]. destruct (Hall e He) as [Hv [Hb [Hf [Ha Hwf]]]].
  destruct (init_converges_listed w dir e Hc He) as [Hex Hcfg]. cbv zeta in Hex, Hcfg.
  set (w1 := fst (init repaired w dir)) in *.
  assert (Hd : In (de_id e) (ids_of dir)) by (apply in_ids_of; exists e; auto).
  assert (Hp : has_pl (w_st (w1 (de_id e))) = true).
  { unfold has_pl. unfold export in Hex. destruct (s_pl (w_st (w1 (de_id e)))); [reflexivity|discriminate]. }
  assert (Hnoop : provision1 repaired (w1 (de_id e)) e = (w1 (de_id e), true, [])).
  { unfold provision1. rewrite Hb, Hf.
    rewrite (reimport_noop _ _ Hv Hex). simpl. rewrite Hp, Hcfg.
    destruct (w1 (de_id e)) as [s c] eqn:Ew. simpl in Hcfg. subst c. reflexivity. }
  split; [|rewrite Hnoop; auto].
  rewrite (init_never_deletes_listed repaired w1 dir _ Hd).
  assert (Ht : In e (todo w1 dir)).
  { unfold todo. apply filter_In. split; [exact He|]. apply andb_true_intro. split.
    - unfold dup. pose proof (nodup_count1 (de_id e) _ Hnd) as Hc1.
      destruct (1 <? count (de_id e) (ids_of dir)) eqn:E; [apply Nat.ltb_lt in E; lia|reflexivity].
    - unfold api_owned, exists_pl. rewrite Hp, Hcfg. reflexivity. }
  rewrite (provision_all_in repaired _ w1 e (todo_nodup w1 dir) Ht). rewrite Hnoop. reflexivity.
Qed.

(* ---------------------------------------------------------------- non-vacuity witnesses *)
Definition wi_a1 : pipec := mkPipe 1 0 (mkDlq 1 1 1 0) [mkConn 1 true 1 1 0 [mkProc 1 1 0 1 0]] [].
Definition wi_a2 : pipec := mkPipe 1 1 (mkDlq 1 1 1 0) [mkConn 1 true 1 2 0 [mkProc 1 1 0 1 0]] [mkProc 2 100 0 1 0].
Definition wi_b : pipec := mkPipe 2 0 (mkDlq 1 1 1 0) [mkConn 1 false 1 1 0 []] [].
Definition wi_dir1 : list dentry := [mkD 1 wi_a1 None false; mkD 2 wi_b None false].
Definition wi_dir2 : list dentry := [mkD 1 wi_a2 None false].
Definition wi_w1 : world :=
  let w := fst (init repaired empty_world wi_dir1) in
  wset w 1 (mkW (set (w_st (w 1)) (KC 1) (CC (Some (mkCI true 1 1 0 [1] (Some 7))))) true).
