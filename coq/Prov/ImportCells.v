(* Proofs about the import model, part 2: what every action does to its cell - without a fault
   (the value it leaves), and with an arbitrary fault (what it can not destroy). *)
From Verif Require Import Prov.Import Prov.ImportProofs.

(* [runs p v v']: without a fault, p succeeds on v and leaves v' *)
Definition runs {A} (p : prog A) (v v' : A) : Prop := exists t, p v None = (v', true, None, t).

Lemma runs_seq {A} (p q : prog A) v v1 v2 : runs p v v1 -> runs q v1 v2 -> runs (seq p q) v v2.
Proof. intros [t1 E1] [t2 E2]. unfold runs, seq. rewrite E1, E2. eauto. Qed.

Lemma runs_skip {A} (v : A) : runs skip v v.
Proof. unfold runs, skip. eauto. Qed.

Lemma runs_cell {A} (p : prog A) v v' : runs p v v' -> cell_of (p v None) = v' /\ ok_of (p v None) = true.
Proof. intros [t E]. rewrite E. auto. Qed.

Ltac refold_runs :=
  match goal with |- exists t, ?p ?v None = (?v', true, None, t) => change (runs p v v') end.

Lemma ids_eqb_eq a b : ids_eqb a b = true <-> a = b.
Proof.
  revert b. induction a as [|x a IH]; intros [|y b]; simpl; split; intros H; try congruence; try discriminate.
  - apply andb_prop in H. destruct H as [H1 H2]. apply Nat.eqb_eq in H1. apply IH in H2. congruence.
  - inversion H; subst. rewrite Nat.eqb_refl. simpl. apply IH. reflexivity.
Qed.

(* ---------------------------------------------------------------- pipeline cell *)
Definition pinst_of (c : pipec) : pinst :=
  mkPI (pl_name c) (pl_desc c) (pl_dlq c) (conn_ids (pl_conns c)) (proc_ids (pl_procs c)).

Lemma pl_add_conns : forall ids n d q cs ps,
  runs (iter pl_add_conn ids) (Some (mkPI n d q cs ps)) (Some (mkPI n d q (cs ++ ids) ps)).
Proof.
  induction ids as [|x r IH]; intros n d q cs ps; simpl.
  - rewrite app_nil_r. apply runs_skip.
  - eapply runs_seq; [unfold runs, pl_add_conn; simpl; eauto|].
    replace (cs ++ x :: r) with ((cs ++ [x]) ++ r) by (rewrite <- app_assoc; reflexivity). apply IH.
Qed.
Lemma pl_add_procs : forall ids n d q cs ps,
  runs (iter pl_add_proc ids) (Some (mkPI n d q cs ps)) (Some (mkPI n d q cs (ps ++ ids))).
Proof.
  induction ids as [|x r IH]; intros n d q cs ps; simpl.
  - rewrite app_nil_r. apply runs_skip.
  - eapply runs_seq; [unfold runs, pl_add_proc; simpl; eauto|].
    replace (ps ++ x :: r) with ((ps ++ [x]) ++ r) by (rewrite <- app_assoc; reflexivity). apply IH.
Qed.
(* removing, one by one, every id of the list the instance holds empties it (the list is copied) *)
Lemma pl_rm_conns : forall cs n d q ps,
  runs (iter pl_rm_conn cs) (Some (mkPI n d q cs ps)) (Some (mkPI n d q [] ps)).
Proof.
  induction cs as [|x r IH]; intros n d q ps; simpl.
  - apply runs_skip.
  - eapply runs_seq; [|apply IH]. unfold runs, pl_rm_conn. simpl. rewrite Nat.eqb_refl. simpl. eauto.
Qed.
Lemma pl_rm_procs : forall ps n d q cs,
  runs (iter pl_rm_proc ps) (Some (mkPI n d q cs ps)) (Some (mkPI n d q cs [])).
Proof.
  induction ps as [|x r IH]; intros n d q cs; simpl.
  - apply runs_skip.
  - eapply runs_seq; [|apply IH]. unfold runs, pl_rm_proc. simpl. rewrite Nat.eqb_refl. simpl. eauto.
Qed.

Lemma do_create_pl_runs c :
  (pl_name c =? 0) = false -> dlq_ok (pl_dlq c) = true ->
  runs (do_create_pl c) None (Some (pinst_of c)).
Proof.
  intros Hn Hd. unfold do_create_pl.
  eapply runs_seq; [unfold runs, pl_create; rewrite Hn; simpl; eauto|].
  eapply runs_seq; [unfold runs, pl_update_dlq; rewrite Hd; simpl; eauto|].
  eapply runs_seq; [apply pl_add_conns|]. apply pl_add_procs.
Qed.

(* updatePipelineAction.update writes every field, whatever the instance held before *)
Lemma do_update_pl_runs c p :
  (pl_name c =? 0) = false -> dlq_ok (pl_dlq c) = true ->
  runs (do_update_pl c) (Some p) (Some (pinst_of c)).
Proof.
  intros Hn Hd. unfold do_update_pl. destruct p as [n d q cs ps].
  eapply runs_seq; [unfold runs, pl_update; rewrite Hn; simpl; eauto|].
  eapply runs_seq; [unfold runs, pl_update_dlq; rewrite Hd; simpl; eauto|].
  eapply runs_seq with (v1 := Some (mkPI (pl_name c) (pl_desc c) (pl_dlq c) (conn_ids (pl_conns c)) ps)).
  - unfold runs. cbv beta. cbn [pi_conns]. destruct (ids_eqb cs (conn_ids (pl_conns c))) eqn:E.
    + apply ids_eqb_eq in E. subst cs. apply runs_skip.
    + refold_runs. eapply runs_seq; [apply pl_rm_conns|]. apply (pl_add_conns _ _ _ _ []).
  - unfold runs. cbv beta. cbn [pi_procs]. unfold pinst_of. destruct (ids_eqb ps (proc_ids (pl_procs c))) eqn:E.
    + apply ids_eqb_eq in E. subst ps. apply runs_skip.
    + refold_runs. eapply runs_seq; [apply pl_rm_procs|]. apply (pl_add_procs _ _ _ _ _ []).
Qed.

Lemma pl_delete_cell v : cell_of (pl_delete v None) = None.
Proof. destruct v; reflexivity. Qed.

(* with any fault: an update never removes the instance *)
Definition keeps_some {A} (p : prog (option A)) : Prop :=
  forall v f, v <> None -> cell_of (p v f) <> None.

Lemma keeps_some_seq {A} (p q : prog (option A)) : keeps_some p -> keeps_some q -> keeps_some (seq p q).
Proof.
  intros Hp Hq v f Hv. unfold seq. specialize (Hp v f Hv).
  destruct (p v f) as [[[v1 ok1] f1] t1]. unfold cell_of in Hp. simpl in Hp.
  destruct ok1; [|exact Hp]. specialize (Hq v1 f1 Hp).
  destruct (q v1 f1) as [[[v2 ok2] f2] t2]. exact Hq.
Qed.
Lemma keeps_some_iter {A} (op : nat -> prog (option A)) ids : (forall x, keeps_some (op x)) -> keeps_some (iter op ids).
Proof.
  intros H. induction ids as [|x r IH]; simpl; [intros v f Hv; exact Hv|apply keeps_some_seq; auto].
Qed.

Ltac ks_op op :=
  let v := fresh "v" in let f := fresh "f" in let Hv := fresh "Hv" in
  intros v f Hv; unfold op; destruct v; [|congruence];
  repeat match goal with |- context [if ?b then _ else _] => destruct b end;
  unfold failp, store; try (destruct f as [[|?]|]); unfold cell_of; simpl; congruence.

Lemma ks_pl_update a b : keeps_some (pl_update a b). Proof. ks_op @pl_update. Qed.
Lemma ks_pl_update_dlq d : keeps_some (pl_update_dlq d). Proof. ks_op @pl_update_dlq. Qed.
Lemma ks_pl_add_conn c : keeps_some (pl_add_conn c). Proof. ks_op @pl_add_conn. Qed.
Lemma ks_pl_rm_conn c : keeps_some (pl_rm_conn c). Proof. ks_op @pl_rm_conn. Qed.
Lemma ks_pl_add_proc c : keeps_some (pl_add_proc c). Proof. ks_op @pl_add_proc. Qed.
Lemma ks_pl_rm_proc c : keeps_some (pl_rm_proc c). Proof. ks_op @pl_rm_proc. Qed.

Lemma ks_do_update_pl c : keeps_some (do_update_pl c).
Proof.
  unfold do_update_pl. repeat apply keeps_some_seq; auto using ks_pl_update, ks_pl_update_dlq.
  - intros v f Hv. destruct v as [p|]; [|congruence]. destruct (ids_eqb _ _); [exact Hv|].
    apply keeps_some_seq; [apply keeps_some_iter, ks_pl_rm_conn|apply keeps_some_iter, ks_pl_add_conn|exact Hv].
  - intros v f Hv. destruct v as [p|]; [|congruence]. destruct (ids_eqb _ _); [exact Hv|].
    apply keeps_some_seq; [apply keeps_some_iter, ks_pl_rm_proc|apply keeps_some_iter, ks_pl_add_proc|exact Hv].
Qed.

(* ---------------------------------------------------------------- connector cell *)
Definition cinst_of (c : connc) (stt : option nat) : cinst :=
  mkCI (c_src c) (c_plugin c) (c_name c) (c_settings c) (proc_ids (c_procs c)) stt.

Lemma co_add_procs : forall id ids s p n st ps stt,
  runs (iter (co_add_proc id) ids) (Some (mkCI s p n st ps stt)) (Some (mkCI s p n st (ps ++ ids) stt)).
Proof.
  induction ids as [|x r IH]; intros s p n st ps stt; simpl.
  - rewrite app_nil_r. apply runs_skip.
  - eapply runs_seq; [unfold runs, co_add_proc; simpl; eauto|].
    replace (ps ++ x :: r) with ((ps ++ [x]) ++ r) by (rewrite <- app_assoc; reflexivity). apply IH.
Qed.
Lemma co_rm_procs : forall id ps s p n st stt,
  runs (iter (co_rm_proc id) ps) (Some (mkCI s p n st ps stt)) (Some (mkCI s p n st [] stt)).
Proof.
  induction ps as [|x r IH]; intros s p n st stt; simpl.
  - apply runs_skip.
  - eapply runs_seq; [|apply IH]. unfold runs, co_rm_proc. simpl. rewrite Nat.eqb_refl. simpl. eauto.
Qed.

Lemma do_create_conn_runs c v :
  (c_name c =? 0) = false -> (c_plugin c =? 0) = false ->
  runs (do_create_conn c) v (Some (cinst_of c None)).
Proof.
  intros Hn Hp. unfold do_create_conn.
  eapply runs_seq; [unfold runs, co_create; rewrite Hn, Hp; simpl; eauto|].
  apply (co_add_procs _ _ _ _ _ _ []).
Qed.

Lemma do_update_conn_runs c i :
  runs (do_update_conn repaired c) (Some i)
       (Some (mkCI (ci_src i) (c_plugin c) (c_name c) (c_settings c) (proc_ids (c_procs c)) (ci_state i))).
Proof.
  unfold do_update_conn. destruct i as [s p n st ps stt]. cbn [copy_ids repaired ci_src ci_state].
  eapply runs_seq; [unfold runs, co_update; simpl; eauto|].
  unfold runs. cbv beta. cbn [ci_procs]. destruct (ids_eqb ps (proc_ids (c_procs c))) eqn:E.
  - apply ids_eqb_eq in E. subst ps. apply runs_skip.
  - refold_runs. eapply runs_seq; [apply co_rm_procs|]. apply (co_add_procs _ _ _ _ _ _ []).
Qed.

Lemma rb_delete_conn_runs c sv v :
  (c_name c =? 0) = false -> (c_plugin c =? 0) = false ->
  runs (rb_delete_conn repaired c sv) v (Some (cinst_of c sv)).
Proof.
  intros Hn Hp. unfold rb_delete_conn. cbn [restore_state repaired].
  eapply runs_seq; [apply do_create_conn_runs; assumption|].
  destruct sv as [x|]; [|apply runs_skip]. unfold runs, co_set_state, cinst_of. simpl. eauto.
Qed.

Lemma co_delete_cell id v : cell_of (co_delete id v None) = None.
Proof. destruct v; reflexivity. Qed.

(* with any fault: an update keeps the instance, its type and its State *)
Definition keeps_ss (p : prog (option cinst)) : Prop :=
  forall v f i, v = Some i ->
    exists i', cell_of (p v f) = Some i' /\ ci_src i' = ci_src i /\ ci_state i' = ci_state i.

Lemma keeps_ss_seq p q : keeps_ss p -> keeps_ss q -> keeps_ss (seq p q).
Proof.
  intros Hp Hq v f i Hv. unfold seq. destruct (Hp v f i Hv) as [i1 [E1 [A1 B1]]].
  destruct (p v f) as [[[v1 ok1] f1] t1]. unfold cell_of in E1. simpl in E1. subst v1.
  destruct ok1.
  - destruct (Hq (Some i1) f1 i1 eq_refl) as [i2 [E2 [A2 B2]]].
    destruct (q (Some i1) f1) as [[[v2 ok2] f2] t2]. unfold cell_of in *. simpl in *.
    exists i2. repeat split; congruence.
  - exists i1. unfold cell_of. simpl. auto.
Qed.
Lemma keeps_ss_iter op ids : (forall x, keeps_ss (op x)) -> keeps_ss (iter op ids).
Proof.
  intros H. induction ids as [|x r IH]; simpl.
  - intros v f i Hv. exists i. unfold skip, cell_of. simpl. auto.
  - apply keeps_ss_seq; auto.
Qed.

Ltac kss_op op :=
  let v := fresh "v" in let f := fresh "f" in let i := fresh "i" in let Hv := fresh "Hv" in
  intros v f i Hv; subst v; unfold op;
  repeat match goal with |- context [if ?b then _ else _] => destruct b end;
  unfold failp, store; try (destruct f as [[|?]|]); unfold cell_of; simpl; eexists; repeat split; reflexivity.

Lemma kss_co_update id p n st : keeps_ss (co_update id p n st). Proof. kss_op @co_update. Qed.
Lemma kss_co_add_proc id p : keeps_ss (co_add_proc id p). Proof. kss_op @co_add_proc. Qed.
Lemma kss_co_rm_proc id p : keeps_ss (co_rm_proc id p). Proof. kss_op @co_rm_proc. Qed.

Lemma kss_do_update_conn c : keeps_ss (do_update_conn repaired c).
Proof.
  unfold do_update_conn. apply keeps_ss_seq; [apply kss_co_update|]. cbn [copy_ids repaired].
  intros v f i Hv. subst v. destruct (ids_eqb _ _).
  - exists i. unfold skip, cell_of. simpl. auto.
  - apply keeps_ss_seq; [apply keeps_ss_iter, kss_co_rm_proc|apply keeps_ss_iter, kss_co_add_proc|reflexivity].
Qed.

(* ---------------------------------------------------------------- processor cell *)
Definition rinst_of (c : procc) : rinst := mkRI (p_plugin c) (p_settings c) (p_workers c) (p_cond c).

Lemma pr_create_runs k c v :
  good_plugin (p_plugin c) = true -> (0 <? p_workers c) = true ->
  runs (pr_create k (p_plugin c) (p_settings c) (p_workers c) (p_cond c)) v (Some (rinst_of c)).
Proof.
  intros Hg Hw. unfold runs, pr_create. rewrite Hg.
  assert (E : (p_workers c =? 0) = false).
  { apply Nat.ltb_lt in Hw. apply Nat.eqb_neq. lia. }
  rewrite E. simpl. eauto.
Qed.

Lemma pr_update_runs k c r :
  (p_plugin c =? 0) = false ->
  runs (pr_update repaired k (p_plugin c) (p_settings c) (p_workers c) (p_cond c)) (Some r) (Some (rinst_of c)).
Proof. intros Hp. unfold runs, pr_update. rewrite Hp. simpl. eauto. Qed.

Lemma pr_delete_cell k v : cell_of (pr_delete k v None) = None.
Proof. destruct v; reflexivity. Qed.

Lemma pr_delete_runs k r : runs (pr_delete k) (Some r) None.
Proof. unfold runs, pr_delete. simpl. eauto. Qed.

Lemma co_delete_runs id i : runs (co_delete id) (Some i) None.
Proof. unfold runs, co_delete. simpl. eauto. Qed.

Lemma ks_pr_update fl k p s w c : keeps_some (pr_update fl k p s w c). Proof. ks_op @pr_update. Qed.

Lemma good_plugin_nonzero p : good_plugin p = true -> (p =? 0) = false.
Proof.
  unfold good_plugin. intros H. apply andb_prop in H. destruct H as [H _].
  apply Nat.ltb_lt in H. apply Nat.eqb_neq. lia.
Qed.
