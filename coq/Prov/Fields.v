(* Reflective obligation over the field lists the translator (harness/cmd/c15 --mode gen)
   extracts from pkg/provisioning on every run:
     - the config structs have exactly the fields the model (Prov/Import.v) has;
     - the mutable / immutable / ignored classes are the ones the model's Build uses;
     - every field is exported by its *ToConfig literal, handed to the service by the create
       action and - unless immutable - by the update action, or is explicitly ignored;
   with one tolerated gap, which is exactly the variant switch of the model: the processor
   Condition may be missing from the export literal ([exp_cond] = false) and from the update
   action ([upd_cond] = false).  Reordering a list or adding a harmless entry keeps the
   obligation true; dropping a field from an export literal or from an action breaks it. *)
From Coq Require Import List String Bool Arith.
Import ListNotations.
Open Scope string_scope.

Record tables := mkTables {
  t_pipeline_fields : list string; t_connector_fields : list string;
  t_processor_fields : list string; t_dlq_fields : list string;
  t_pipeline_mutable : list string; t_pipeline_ignored : list string;
  t_connector_immutable : list string; t_connector_mutable : list string;
  t_exp_pipeline : list string; t_exp_dlq : list string;
  t_exp_connector : list string; t_exp_processor : list string;
  t_create_pipeline : list string; t_update_pipeline : list string;
  t_create_connector : list string; t_update_connector : list string;
  t_create_processor : list string; t_update_processor : list string;
  t_default_dlq_size : nat; t_default_dlq_thr : nat
}.

Definition smem (s : string) (l : list string) : bool := existsb (String.eqb s) l.
Definition subset (a b : list string) : bool := forallb (fun x => smem x b) a.
Definition same_set (a b : list string) : bool := subset a b && subset b a.

(* what the model has *)
Definition m_pipeline_fields := ["ID"; "Status"; "Name"; "Description"; "Connectors"; "Processors"; "DLQ"].
Definition m_connector_fields := ["ID"; "Type"; "Plugin"; "Name"; "Settings"; "Processors"].
Definition m_processor_fields := ["ID"; "Plugin"; "Settings"; "Workers"; "Condition"].
Definition m_dlq_fields := ["Plugin"; "Settings"; "WindowSize"; "WindowNackThreshold"].
Definition m_dlq_refs := ["DLQ.Plugin"; "DLQ.Settings"; "DLQ.WindowSize"; "DLQ.WindowNackThreshold"].

(* the variant the source has, read off the same tables *)
Definition gen_exp_cond (t : tables) : bool := smem "Condition" (t_exp_processor t).
Definition gen_upd_cond (t : tables) : bool := smem "Condition" (t_update_processor t).

Definition tolerated (present : bool) : list string := if present then [] else ["Condition"].

Definition fields_ok (t : tables) : bool :=
  same_set (t_pipeline_fields t) m_pipeline_fields
  && same_set (t_connector_fields t) m_connector_fields
  && same_set (t_processor_fields t) m_processor_fields
  && same_set (t_dlq_fields t) m_dlq_fields
  && same_set (t_pipeline_mutable t) ["Name"; "Description"; "Connectors"; "Processors"; "DLQ"]
  && same_set (t_pipeline_ignored t) ["Status"]
  && same_set (t_connector_immutable t) ["Type"]
  && same_set (t_connector_mutable t) ["Name"; "Settings"; "Processors"; "Plugin"]
  (* exports *)
  && subset (t_pipeline_fields t) (t_exp_pipeline t)
  && subset (t_dlq_fields t) (t_exp_dlq t)
  && subset (t_connector_fields t) (t_exp_connector t)
  && subset (t_processor_fields t) (t_exp_processor t ++ tolerated (gen_exp_cond t))
  (* creates hand every (not ignored) field to the services *)
  && subset ("ID" :: t_pipeline_mutable t) ("DLQ" :: t_create_pipeline t)
  && subset m_dlq_refs (t_create_pipeline t)
  && subset (t_connector_fields t) (t_create_connector t)
  && subset (t_processor_fields t) (t_create_processor t)
  (* updates hand every mutable field to the services *)
  && subset ("ID" :: t_pipeline_mutable t) ("DLQ" :: t_update_pipeline t)
  && subset m_dlq_refs (t_update_pipeline t)
  && subset ("ID" :: t_connector_mutable t) (t_update_connector t)
  && subset (t_processor_fields t) (t_update_processor t ++ tolerated (gen_upd_cond t))
  (* pipeline.DefaultDLQ as in Import.dlq_default *)
  && Nat.eqb (t_default_dlq_size t) 1 && Nat.eqb (t_default_dlq_thr t) 0.

Lemma smem_In s l : smem s l = true <-> In s l.
Proof.
  unfold smem. rewrite existsb_exists. split.
  - intros [x [Hin Heq]]. apply String.eqb_eq in Heq. subst. exact Hin.
  - intros Hin. exists s. split; [exact Hin|apply String.eqb_refl].
Qed.

Lemma subset_In a b : subset a b = true -> forall x, In x a -> In x b.
Proof.
  unfold subset. rewrite forallb_forall. intros H x Hx. apply smem_In. apply H. exact Hx.
Qed.

(* the generic fact the per-run obligation rests on: when [fields_ok] holds, every field of every
   config struct is covered - exported and created and (updated, immutable or the ID), or
   ignored - and the only possible gap is the processor Condition, exactly when the variant flags
   read off the source say so. *)
Theorem fields_ok_sound : forall t, fields_ok t = true ->
  (forall f, In f (t_processor_fields t) ->
     (In f (t_exp_processor t) \/ (f = "Condition" /\ gen_exp_cond t = false))
     /\ In f (t_create_processor t)
     /\ (In f (t_update_processor t) \/ (f = "Condition" /\ gen_upd_cond t = false)))
  /\ (forall f, In f (t_connector_fields t) ->
        In f (t_exp_connector t) /\ In f (t_create_connector t)
        /\ (In f (t_update_connector t) \/ In f (t_connector_immutable t)))
  /\ (forall f, In f (t_pipeline_fields t) ->
        In f (t_exp_pipeline t)
        /\ (In f (t_pipeline_ignored t)
            \/ (In f ("DLQ" :: t_create_pipeline t) /\ In f ("DLQ" :: t_update_pipeline t)))).
Proof.
  intros t H. unfold fields_ok in H.
  repeat (apply andb_prop in H; destruct H as [H ?]).
  unfold same_set in *.
  repeat match goal with Hx : (_ && _) = true |- _ => apply andb_prop in Hx; destruct Hx end.
  split; [|split].
  - intros f Hf. split; [|split].
    + match goal with Hs : subset (t_processor_fields t) (t_exp_processor t ++ _) = true |- _ =>
        pose proof (subset_In _ _ Hs f Hf) as Hi end.
      apply in_app_or in Hi. destruct Hi as [Hi|Hi]; [left; exact Hi|].
      unfold tolerated in Hi. destruct (gen_exp_cond t); simpl in Hi; [contradiction|].
      destruct Hi as [Hi|[]]. right. split; [symmetry; exact Hi|reflexivity].
    + match goal with Hs : subset (t_processor_fields t) (t_create_processor t) = true |- _ =>
        exact (subset_In _ _ Hs f Hf) end.
    + match goal with Hs : subset (t_processor_fields t) (t_update_processor t ++ _) = true |- _ =>
        pose proof (subset_In _ _ Hs f Hf) as Hi end.
      apply in_app_or in Hi. destruct Hi as [Hi|Hi]; [left; exact Hi|].
      unfold tolerated in Hi. destruct (gen_upd_cond t); simpl in Hi; [contradiction|].
      destruct Hi as [Hi|[]]. right. split; [symmetry; exact Hi|reflexivity].
  - intros f Hf. split; [|split].
    + match goal with Hs : subset (t_connector_fields t) (t_exp_connector t) = true |- _ =>
        exact (subset_In _ _ Hs f Hf) end.
    + match goal with Hs : subset (t_connector_fields t) (t_create_connector t) = true |- _ =>
        exact (subset_In _ _ Hs f Hf) end.
    + match goal with Hs : subset (t_connector_fields t) m_connector_fields = true |- _ =>
        pose proof (subset_In _ _ Hs f Hf) as Hm end.
      match goal with Hs : subset ("ID" :: t_connector_mutable t) (t_update_connector t) = true |- _ =>
        pose proof (subset_In _ _ Hs) as Hu end.
      match goal with Hs : subset ["Name"; "Settings"; "Processors"; "Plugin"] (t_connector_mutable t) = true |- _ =>
        pose proof (subset_In _ _ Hs) as Hmu end.
      match goal with Hs : subset ["Type"] (t_connector_immutable t) = true |- _ =>
        pose proof (subset_In _ _ Hs) as Him end.
      simpl in Hm.
      destruct Hm as [<-|[<-|[<-|[<-|[<-|[<-|[]]]]]]].
      * left. apply Hu. left. reflexivity.
      * right. apply Him. left. reflexivity.
      * left. apply Hu. right. apply Hmu. simpl. tauto.
      * left. apply Hu. right. apply Hmu. simpl. tauto.
      * left. apply Hu. right. apply Hmu. simpl. tauto.
      * left. apply Hu. right. apply Hmu. simpl. tauto.
  - intros f Hf. split.
    + match goal with Hs : subset (t_pipeline_fields t) (t_exp_pipeline t) = true |- _ =>
        exact (subset_In _ _ Hs f Hf) end.
    + match goal with Hs : subset (t_pipeline_fields t) m_pipeline_fields = true |- _ =>
        pose proof (subset_In _ _ Hs f Hf) as Hm end.
      match goal with Hs : subset ("ID" :: t_pipeline_mutable t) ("DLQ" :: t_create_pipeline t) = true |- _ =>
        pose proof (subset_In _ _ Hs) as Hc end.
      match goal with Hs : subset ("ID" :: t_pipeline_mutable t) ("DLQ" :: t_update_pipeline t) = true |- _ =>
        pose proof (subset_In _ _ Hs) as Hu end.
      match goal with Hs : subset ["Name"; "Description"; "Connectors"; "Processors"; "DLQ"] (t_pipeline_mutable t) = true |- _ =>
        pose proof (subset_In _ _ Hs) as Hmu end.
      match goal with Hs : subset ["Status"] (t_pipeline_ignored t) = true |- _ =>
        pose proof (subset_In _ _ Hs) as Hig end.
      simpl in Hm.
      destruct Hm as [<-|[<-|[<-|[<-|[<-|[<-|[<-|[]]]]]]]].
      * right. split; [apply Hc|apply Hu]; left; reflexivity.
      * left. apply Hig. left. reflexivity.
      * right. split; [apply Hc|apply Hu]; right; apply Hmu; simpl; tauto.
      * right. split; [apply Hc|apply Hu]; right; apply Hmu; simpl; tauto.
      * right. split; [apply Hc|apply Hu]; right; apply Hmu; simpl; tauto.
      * right. split; [apply Hc|apply Hu]; right; apply Hmu; simpl; tauto.
      * right. split; [apply Hc|apply Hu]; right; apply Hmu; simpl; tauto.
Qed.
