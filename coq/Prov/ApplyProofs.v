(* Proofs about the ApplyPlanLive decision procedure (Prov/Apply.v), for every input. *)
From Verif Require Import Base.CaseCheck Prov.Apply Prov.ApplyCheck.

Fixpoint memn (x : nat) (l : list nat) : bool :=
  match l with [] => false | y :: r => (x =? y) || memn x r end.

Lemma memn_app x a b : memn x (a ++ b) = memn x a || memn x b.
Proof. induction a as [|y a IH]; simpl; [reflexivity|]. rewrite IH. apply orb_assoc. Qed.

Lemma run_events_app s a b : run_events s (a ++ b) = run_events (run_events s a) b.
Proof. unfold run_events. apply fold_left_app. Qed.

Lemma failures_app a b : failures (a ++ b) = failures a + failures b.
Proof. unfold failures. rewrite filter_app, app_length. reflexivity. Qed.

(* ---------------------------------------------------------------- refusals *)
Lemma stale_plan_no_mutation : forall fx i, a_hash_ok i = false -> apply fx i = ([], RStale).
Proof. intros fx i H. unfold apply. rewrite H. reflexivity. Qed.

Lemma empty_diff_no_mutation : forall fx i, a_hash_ok i = true -> a_empty i = true -> apply fx i = ([], ROk MNone).
Proof. intros fx i H1 H2. unfold apply. rewrite H1, H2. reflexivity. Qed.

Lemma running_unauthorised_no_mutation : forall fx i,
  a_hash_ok i = true -> a_empty i = false -> running_of i = true -> a_auth i = false ->
  apply fx i = ([], RUnauth).
Proof. intros fx i H1 H2 H3 H4. unfold apply. rewrite H1, H2, H3, H4. reflexivity. Qed.

(* a presented plan is only ever executed when it is the current one *)
Lemma mutation_implies_fresh : forall fx i, fst (apply fx i) <> [] -> a_hash_ok i = true /\ a_empty i = false.
Proof.
  intros fx i H. unfold apply in H.
  destruct (a_hash_ok i); simpl in H; [|congruence].
  destruct (a_empty i); simpl in H; [congruence|]. auto.
Qed.

(* ---------------------------------------------------------------- the swap loops *)
Definition live_is (s : astate) (newones : list nat) : Prop :=
  forall j, as_live s j = if memn j newones then CNew else COld.

Lemma swap_loop_spec : forall l k swapped e x sw,
  swap_loop k l swapped = (e, x, sw) ->
  forall s, as_cfg s = CNew -> live_is s swapped ->
    as_cfg (run_events s e) = CNew /\ as_running (run_events s e) = as_running s
    /\ live_is (run_events s e) sw
    /\ failures e = (match x with SwFailed => 1 | _ => 0 end)
    /\ (forall b, In (EStart b) e -> False).
Proof.
  induction l as [|r l IH]; intros k swapped e x sw H s Hc Hl.
  - simpl in H. inversion H; subst. simpl. repeat split; auto.
  - simpl in H. destruct r.
    + destruct (swap_loop (S k) l (swapped ++ [k])) as [[e1 x1] s1] eqn:E. inversion H; subst; clear H.
      specialize (IH _ _ _ _ _ E (ev_step s (EReconf k RcOk))).
      simpl in IH. rewrite Hc in IH.
      assert (Hl' : live_is (mkA CNew (as_running s) (set_live k CNew (as_live s))) (swapped ++ [k])).
      { intros j. simpl. unfold set_live. rewrite memn_app. simpl. rewrite orb_false_r.
        destruct (j =? k); [rewrite orb_true_r; reflexivity|]. rewrite orb_false_r. apply Hl. }
      specialize (IH eq_refl Hl'). destruct IH as [I1 [I2 [I3 [I4 I5]]]].
      unfold run_events in *. simpl. rewrite Hc.
      split; [exact I1|]. split; [exact I2|]. split; [exact I3|]. split; [exact I4|].
      intros b [Hb|Hb]; [discriminate Hb|]. eapply I5; eauto.
    + inversion H; subst. unfold run_events. simpl.
      split; [exact Hc|]. split; [reflexivity|]. split; [exact Hl|]. split; [reflexivity|].
      intros b [Hb|[]]; discriminate Hb.
    + inversion H; subst. unfold run_events. simpl.
      split; [exact Hc|]. split; [reflexivity|]. split; [exact Hl|]. split; [reflexivity|].
      intros b [Hb|[]]; discriminate Hb.
Qed.

Lemma reswap_spec : forall swapped outs s,
  as_cfg s = COld -> failures (reswap swapped outs) = 0 ->
    as_cfg (run_events s (reswap swapped outs)) = COld
    /\ as_running (run_events s (reswap swapped outs)) = as_running s
    /\ (forall j, as_live (run_events s (reswap swapped outs)) j = if memn j swapped then COld else as_live s j).
Proof.
  induction swapped as [|k r IH]; intros outs s Hc Hf.
  - simpl. auto.
  - simpl in Hf. simpl.
    assert (Hk : match outs with true :: _ | [] => RcOk | false :: _ => RcErr end = RcOk /\
                 failures (reswap r (tl outs)) = 0).
    { unfold failures in *. simpl in Hf.
      destruct outs as [|[|] q]; simpl in *; try (split; [reflexivity|assumption]); discriminate Hf. }
    destruct Hk as [Hk Hf']. rewrite Hk. unfold run_events. simpl. rewrite Hc.
    specialize (IH (tl outs) (mkA COld (as_running s) (set_live k COld (as_live s))) eq_refl Hf').
    destruct IH as [I1 [I2 I3]]. unfold run_events in *. repeat split; auto.
    intros j. rewrite I3. simpl. unfold set_live.
    destruct (j =? k) eqn:Ej; simpl.
    + destruct (memn j r); reflexivity.
    + reflexivity.
Qed.

Lemma reswap_no_start : forall swapped outs b, In (EStart b) (reswap swapped outs) -> False.
Proof.
  induction swapped as [|k r IH]; intros outs b H; simpl in H; [exact H|].
  destruct H as [H|H]; [discriminate H|]. eapply IH; eauto.
Qed.

Lemma live_agrees_all : forall n s, (forall j, as_live s j = as_cfg s) -> live_agrees n s = true.
Proof.
  intros n s H. unfold live_agrees. apply forallb_forall. intros k _. rewrite H.
  destruct (as_cfg s); reflexivity.
Qed.

Lemma run_events_cons s e l : run_events s (e :: l) = run_events (ev_step s e) l.
Proof. reflexivity. Qed.

(* rolling an in-place apply back, with no further failure, puts everything back *)
Lemma rollback_restores : forall i swapped s n,
  as_cfg s = CNew -> as_running s = true -> live_is s swapped ->
  failures (rollback_inplace i swapped) = 0 ->
  untouched n (mkA COld true (fun _ => COld)) (run_events s (rollback_inplace i swapped)) = true.
Proof.
  intros i swapped s n Hc Hr Hl Hf. unfold rollback_inplace in *.
  destruct (a_rb_imp i).
  - rewrite run_events_cons.
    remember (ev_step s (EImport COld true)) as s1 eqn:Es1.
    assert (Hc1 : as_cfg s1 = COld) by (subst; reflexivity).
    assert (Hr1 : as_running s1 = true) by (subst; exact Hr).
    assert (Hl1 : forall j, as_live s1 j = as_live s j) by (subst; reflexivity).
    destruct (reswap_spec swapped (a_rb_swaps i) s1 Hc1 Hf) as [R1 [R2 R3]].
    unfold untouched. rewrite R1, R2, Hr1. simpl.
    apply live_agrees_all. intros j. rewrite R1, R3, Hl1, Hl. destruct (memn j swapped); reflexivity.
  - discriminate Hf.
Qed.

(* ---------------------------------------------------------------- imports only after a drain *)
Lemma imports_drained_live : forall l s, imports_drained true s l = true.
Proof.
  induction l as [|e l IH]; intros s; simpl; [reflexivity|].
  rewrite IH. destruct e; simpl; try reflexivity. rewrite orb_true_r. reflexivity.
Qed.

Lemma running_import_only_after_drain_b : forall fx i,
  imports_drained (a_live i) (init i) (fst (apply fx i)) = true.
Proof.
  intros fx i. unfold apply.
  destruct (a_hash_ok i) eqn:Eh; simpl; [|reflexivity].
  destruct (a_empty i) eqn:Ee; simpl; [reflexivity|].
  destruct (running_of i) eqn:Er; simpl.
  - destruct (a_auth i); simpl; [|reflexivity].
    destruct (a_live i) eqn:El.
    + apply imports_drained_live.
    + unfold restart_path. unfold init. rewrite Eh, Ee, Er.
      destruct (a_stop i); [destruct (a_imp i); [destruct (a_start i)|]|]; simpl; reflexivity.
  - unfold init. rewrite Eh, Ee, Er. destruct (a_imp i); simpl; reflexivity.
Qed.

(* the explicit form: at the moment of any import, the pipeline is stopped - which from a running
   pipeline only a successful StopAndWait achieves - or the diff is live-eligible (in place) *)
Lemma imports_drained_split : forall live pre s t ok post,
  imports_drained live s (pre ++ EImport t ok :: post) = true ->
  as_running (run_events s pre) = false \/ live = true.
Proof.
  induction pre as [|e pre IH]; intros s t ok post H; simpl in H.
  - apply andb_prop in H. destruct H as [H _]. apply orb_prop in H.
    destruct H as [H|H]; [left|right; exact H]. unfold run_events. simpl.
    destruct (as_running s); [discriminate H|reflexivity].
  - apply andb_prop in H. destruct H as [_ H]. apply IH in H. exact H.
Qed.

Lemma running_import_only_after_drain : forall fx i pre t ok post,
  fst (apply fx i) = pre ++ EImport t ok :: post ->
  as_running (run_events (init i) pre) = false \/ a_live i = true.
Proof.
  intros fx i pre t ok post H. eapply imports_drained_split. rewrite <- H.
  apply running_import_only_after_drain_b.
Qed.

Lemma stopped_only_by_drain : forall pre s, as_running s = true -> as_running (run_events s pre) = false ->
  In (EStop true) pre.
Proof.
  induction pre as [|e pre IH]; intros s Hr Hf.
  - unfold run_events in Hf. simpl in Hf. congruence.
  - unfold run_events in *. simpl in Hf.
    destruct (as_running (ev_step s e)) eqn:E.
    + right. eapply IH; eauto.
    + left. destruct e as [t [|]| [|] | [|] | k [| |]]; simpl in E; try congruence.
Qed.

(* ---------------------------------------------------------------- Start only after a committed import *)
Lemma start_after_commit_nostart : forall l prev rest,
  (forall b, In (EStart b) l -> False) -> l <> [] ->
  start_after_commit prev (l ++ rest) = start_after_commit (Some (last l (EStop true))) rest.
Proof.
  induction l as [|e l IH]; intros prev rest Hn Hne; [congruence|].
  simpl. assert (He : match e with EStart _ => match prev with Some (EImport CNew true) => true | _ => false end | _ => true end = true).
  { destruct e; try reflexivity. exfalso. eapply Hn. left. reflexivity. }
  rewrite He. simpl. destruct l as [|e' l'].
  - simpl. reflexivity.
  - rewrite IH; [reflexivity| |discriminate]. intros b Hb. eapply Hn. right. exact Hb.
Qed.

Lemma start_after_commit_nostart_all : forall l prev,
  (forall b, In (EStart b) l -> False) -> start_after_commit prev l = true.
Proof.
  induction l as [|e l IH]; intros prev Hn; simpl; [reflexivity|].
  rewrite IH; [|intros b Hb; eapply Hn; right; exact Hb].
  destruct e; try reflexivity. exfalso. eapply Hn. left. reflexivity.
Qed.

Lemma restart_start_ok : forall fx i fb prev,
  (forall sw, fb = Some sw -> True) ->
  start_after_commit prev (fst (restart_path fx i fb)) = true.
Proof.
  intros fx i fb prev _. unfold restart_path.
  destruct (a_stop i); [destruct (a_imp i); [destruct (a_start i)|]|]; simpl; try reflexivity.
  destruct fb as [sw|]; [destruct fx|]; simpl; try reflexivity.
  unfold rollback_inplace. destruct (a_rb_imp i); simpl; [|reflexivity].
  apply start_after_commit_nostart_all. intros b Hb. eapply reswap_no_start; eauto.
Qed.

Lemma start_only_after_committed_import : forall fx i, start_after_commit None (fst (apply fx i)) = true.
Proof.
  intros fx i. unfold apply.
  destruct (a_hash_ok i); simpl; [|reflexivity].
  destruct (a_empty i); simpl; [reflexivity|].
  destruct (running_of i && negb (a_auth i)); simpl; [reflexivity|].
  destruct (negb (running_of i)); simpl; [destruct (a_imp i); reflexivity|].
  destruct (a_live i); [|apply restart_start_ok; auto].
  destruct (a_imp_inplace i); [|reflexivity].
  destruct (swap_loop 0 (a_swaps i) []) as [[e x] sw] eqn:E.
  pose proof (swap_loop_spec _ _ _ _ _ _ E (mkA CNew true (fun _ => COld)) eq_refl (fun _ => eq_refl)) as [_ [_ [_ [_ Hns]]]].
  destruct x.
  - simpl. apply start_after_commit_nostart_all. exact Hns.
  - destruct (restart_path fx i (Some sw)) as [e2 r] eqn:E2. simpl.
    assert (H2 : forall p, start_after_commit p e2 = true).
    { intros p. change e2 with (fst (e2, r)). rewrite <- E2. apply restart_start_ok. auto. }
    destruct e as [|e0 e'].
    + simpl. apply H2.
    + rewrite start_after_commit_nostart; [apply H2|exact Hns|discriminate].
  - simpl. apply start_after_commit_nostart_all.
    intros b Hb. apply in_app_or in Hb. destruct Hb as [Hb|Hb]; [eapply Hns; eauto|].
    unfold rollback_inplace in Hb. destruct (a_rb_imp i); simpl in Hb.
    + destruct Hb as [Hb|Hb]; [discriminate Hb|]. eapply reswap_no_start; eauto.
    + destruct Hb as [Hb|[]]; discriminate Hb.
Qed.

(* ---------------------------------------------------------------- a failed apply is consistent *)
(* the one shape in which the shipped code leaves a running pipeline on a changed stored config *)
Definition fallback_stop_shape (i : ainp) : bool :=
  a_hash_ok i && negb (a_empty i) && running_of i && a_auth i && a_live i && a_imp_inplace i
  && (match swap_loop 0 (a_swaps i) [] with (_, SwFallback, _) => true | _ => false end)
  && negb (a_stop i).

Lemma consistent_init : forall n i, consistent_after_failure n (init i) (init i) = true.
Proof.
  intros n i. unfold consistent_after_failure, untouched, init. simpl.
  rewrite eqb_reflx. rewrite live_agrees_all; [reflexivity|]. intros j. reflexivity.
Qed.

Lemma not_running_consistent n s0 s : as_running s = false -> consistent_after_failure n s0 s = true.
Proof. intros H. unfold consistent_after_failure. rewrite H. apply orb_true_r. Qed.

Lemma stays_stopped : forall l s, as_running s = false -> (forall b, In (EStart b) l -> b = false) ->
  as_running (run_events s l) = false.
Proof.
  induction l as [|a l IHl]; intros s H0 Hb; [exact H0|]. rewrite run_events_cons. apply IHl.
  - destruct a as [t [|]|[|]|[|]|k [| |]]; simpl; auto.
    specialize (Hb true (or_introl eq_refl)). discriminate Hb.
  - intros b Hin. apply Hb. right. exact Hin.
Qed.

Lemma restart_after_stop : forall fx i fb e r,
  restart_path fx i fb = (e, r) -> a_stop i = true -> is_error r = true ->
  exists rest, e = EStop true :: rest /\ (forall b, In (EStart b) rest -> b = false).
Proof.
  intros fx i fb e r H Hs He. unfold restart_path in H. rewrite Hs in H.
  destruct (a_imp i); [destruct (a_start i)|]; inversion H; subst; simpl in He; try discriminate He.
  - exists [EImport CNew true; EStart false]. split; [reflexivity|].
    intros b [Hb|[Hb|[]]]; [discriminate Hb|]. inversion Hb. reflexivity.
  - exists [EImport CNew false]. split; [reflexivity|]. intros b [Hb|[]]. discriminate Hb.
Qed.

Lemma untouched_same n s0 s :
  as_cfg s = as_cfg s0 -> as_running s = as_running s0 -> (forall j, as_live s j = as_cfg s) ->
  consistent_after_failure n s0 s = true.
Proof.
  intros H1 H2 H3. unfold consistent_after_failure, untouched. rewrite H1, H2.
  rewrite live_agrees_all; [|exact H3].
  destruct (as_cfg s0), (as_running s0); reflexivity.
Qed.

Lemma failed_apply_consistent_gen : forall fx i,
  (fx = true \/ fallback_stop_shape i = false) ->
  is_error (snd (apply fx i)) = true -> failures (fst (apply fx i)) <= 1 ->
  consistent_after_failure (length (a_swaps i)) (init i) (run_events (init i) (fst (apply fx i))) = true.
Proof.
  intros fx i Hfx. unfold apply, fallback_stop_shape in *.
  destruct (a_hash_ok i) eqn:Eh; simpl; [|intros; apply consistent_init].
  destruct (a_empty i) eqn:Ee; simpl; [intros; apply consistent_init|].
  destruct (running_of i) eqn:Er; simpl.
  2:{ (* not running: whatever happens, the pipeline stays stopped *)
      intros _ _. apply not_running_consistent.
      apply stays_stopped; [unfold init; rewrite Eh, Ee; simpl; exact Er|].
      intros b Hb. destruct (a_imp i); simpl in Hb; destruct Hb as [Hb|[]]; discriminate Hb. }
  destruct (a_auth i); simpl; [|intros; apply consistent_init].
  assert (Hinit : init i = mkA COld true (fun _ => COld)) by (unfold init; rewrite Eh, Ee, Er; reflexivity).
  destruct (a_live i); simpl.
  - destruct (a_imp_inplace i); simpl.
    2:{ intros _ _. apply consistent_init. }
    destruct (swap_loop 0 (a_swaps i) []) as [[e x] sw] eqn:E.
    pose proof (swap_loop_spec _ _ _ _ _ _ E (mkA CNew true (fun _ => COld)) eq_refl (fun _ => eq_refl))
      as [S1 [S2 [S3 [S4 S5]]]].
    simpl in S2.
    assert (Hs1 : forall rest, run_events (init i) (EImport CNew true :: e ++ rest)
                  = run_events (run_events (mkA CNew true (fun _ => COld)) e) rest).
    { intros rest. rewrite run_events_cons, run_events_app, Hinit. reflexivity. }
    destruct x.
    + cbn [fst snd]. intros He; discriminate He.
    + (* fell back to a restart: the new config is committed, some processors are swapped *)
      destruct (restart_path fx i (Some sw)) as [e2 r] eqn:E2. cbn [fst snd]. intros He Hf.
      rewrite Hs1.
      destruct (a_stop i) eqn:Es.
      * destruct (restart_after_stop _ _ _ _ _ E2 Es He) as [rest [-> Hns]].
        apply not_running_consistent. rewrite run_events_cons. apply stays_stopped; [reflexivity|exact Hns].
      * unfold restart_path in E2. rewrite Es in E2. destruct fx.
        -- (* repaired: the in-place apply is rolled back *)
           inversion E2; subst; clear E2.
           rewrite run_events_cons. simpl ev_step.
           assert (Hf0 : failures (rollback_inplace i sw) = 0).
           { change (EImport CNew true :: e ++ EStop false :: rollback_inplace i sw)
               with ((EImport CNew true :: e) ++ [EStop false] ++ rollback_inplace i sw) in Hf.
             rewrite !failures_app in Hf.
             change (failures (EImport CNew true :: e)) with (failures e) in Hf.
             change (failures [EStop false]) with 1 in Hf. lia. }
           unfold consistent_after_failure. rewrite Hinit.
           rewrite (rollback_restores i sw _ (length (a_swaps i)) S1 S2 S3 Hf0). reflexivity.
        -- destruct Hfx as [Hfx|Hfx]; [discriminate Hfx|]. simpl in Hfx. discriminate Hfx.
    + (* a swap failed: rolled back *)
      cbn [fst snd]. intros _ Hf. rewrite Hs1.
      assert (Hf0 : failures (rollback_inplace i sw) = 0).
      { change (EImport CNew true :: e ++ rollback_inplace i sw)
          with ((EImport CNew true :: e) ++ rollback_inplace i sw) in Hf.
        rewrite failures_app in Hf.
        change (failures (EImport CNew true :: e)) with (failures e) in Hf. lia. }
      unfold consistent_after_failure. rewrite Hinit.
      rewrite (rollback_restores i sw _ (length (a_swaps i)) S1 S2 S3 Hf0). reflexivity.
  - (* not live-eligible: StopAndWait, import, Start *)
    destruct (restart_path fx i None) as [e2 r] eqn:E2. cbn [fst snd]. intros He _.
    destruct (a_stop i) eqn:Es.
    + destruct (restart_after_stop _ _ _ _ _ E2 Es He) as [rest [-> Hns]].
      apply not_running_consistent. rewrite run_events_cons. apply stays_stopped; [reflexivity|exact Hns].
    + unfold restart_path in E2. rewrite Es in E2. inversion E2; subst. rewrite run_events_cons. simpl.
      apply consistent_init.
Qed.

(* the repaired procedure: every refused or failed apply is consistent *)
Theorem failed_apply_consistent : forall i,
  is_error (snd (apply true i)) = true -> failures (fst (apply true i)) <= 1 ->
  consistent_after_failure (length (a_swaps i)) (init i) (run_events (init i) (fst (apply true i))) = true.
Proof. intros i. apply failed_apply_consistent_gen. left. reflexivity. Qed.

(* the shipped procedure: the same, except on the in-place-fallback-then-StopAndWait-fails path *)
Theorem failed_apply_consistent_shipped : forall i,
  fallback_stop_shape i = false ->
  is_error (snd (apply false i)) = true -> failures (fst (apply false i)) <= 1 ->
  consistent_after_failure (length (a_swaps i)) (init i) (run_events (init i) (fst (apply false i))) = true.
Proof. intros i H. apply failed_apply_consistent_gen. right. exact H. Qed.

(* ... and on that path it is refuted: one failure (StopAndWait), the apply returns an error, the
   pipeline keeps running, the store holds the new config *)
Definition w_fallback : ainp :=
  mkInp true false true true true true true [RcNotLive] true [true] false true true.

Theorem failed_apply_consistent_refuted :
  exists i, is_error (snd (apply false i)) = true /\ failures (fst (apply false i)) = 1
            /\ consistent_after_failure (length (a_swaps i)) (init i) (run_events (init i) (fst (apply false i))) = false
            /\ as_running (run_events (init i) (fst (apply false i))) = true
            /\ as_cfg (run_events (init i) (fst (apply false i))) = CNew.
Proof. exists w_fallback. vm_compute. repeat split; reflexivity. Qed.

(* ---------------------------------------------------------------- model output satisfies the monitor *)
Lemma cfg_code_lt2 c : (cfg_code c <? 2) = true.
Proof. destruct c; reflexivity. Qed.

Theorem model_satisfies_monitor : forall i,
  let s := run_events (init i) (fst (apply true i)) in
  mon_dec i (fst (apply true i)) (snd (apply true i)) (as_running s) (cfg_code (as_cfg s)) = true.
Proof.
  intros i s. unfold mon_dec.
  rewrite running_import_only_after_drain_b, start_only_after_committed_import, cfg_code_lt2.
  fold s. rewrite Nat.eqb_refl, eqb_reflx. rewrite !andb_true_r.
  assert (H1 : (if a_hash_ok i then true else match fst (apply true i) with [] => true | _ => false end) = true).
  { destruct (a_hash_ok i) eqn:E; [reflexivity|]. rewrite (stale_plan_no_mutation true i E). reflexivity. }
  assert (H2 : (if running_of i && negb (a_auth i)
                then match fst (apply true i) with [] => true | _ => false end else true) = true).
  { destruct (running_of i && negb (a_auth i)) eqn:E; [|reflexivity].
    unfold apply. rewrite E. destruct (a_hash_ok i); [destruct (a_empty i)|]; reflexivity. }
  rewrite H1, H2. simpl.
  destruct (is_error (snd (apply true i))) eqn:He; [|reflexivity].
  destruct (failures (fst (apply true i)) <=? 1) eqn:Hf; [|reflexivity]. simpl.
  apply Nat.leb_le in Hf. unfold s. apply failed_apply_consistent; assumption.
Qed.

(* ---------------------------------------------------------------- the per-pipeline lock *)
Lemma holder_kept : forall l2 (s s' : lstate) a id,
  s id = Some a -> (forall x, In x l2 -> x <> LRelease a id) -> lrun s l2 = Some s' -> s' id = Some a.
Proof.
  induction l2 as [|x l2 IH]; intros s s' a id Hh Hn Hr; simpl in Hr.
  - inversion Hr; subst. exact Hh.
  - destruct (lstep s x) as [s1|] eqn:E; [|discriminate Hr].
    apply (IH s1 s' a id); [|intros y Hy; apply Hn; right; exact Hy|exact Hr].
    destruct x as [b j|b j|b j]; simpl in E.
    + destruct (s j) eqn:Ej; [discriminate E|]. inversion E; subst.
      destruct (id =? j) eqn:Eij; [apply Nat.eqb_eq in Eij; subst; congruence|exact Hh].
    + destruct (s j) as [h|]; [|discriminate E]. destruct (h =? b); inversion E; subst. exact Hh.
    + destruct (s j) as [h|] eqn:Ej; [|discriminate E]. destruct (h =? b) eqn:Ehb; [|discriminate E].
      inversion E; subst. apply Nat.eqb_eq in Ehb. subst h.
      destruct (id =? j) eqn:Eij; [|exact Hh].
      apply Nat.eqb_eq in Eij. subst j. rewrite Hh in Ej. inversion Ej; subst.
      exfalso. apply (Hn (LRelease b id)); [left; reflexivity|reflexivity].
Qed.

(* while an apply holds the lock of a pipeline id, every action on that id is its own: applies to
   one id are serialised, whatever the interleaving of the rest *)
Theorem same_id_applies_serialised : forall l1 l2 l3 a b id s',
  lrun (fun _ => None) (l1 ++ LAcquire a id :: l2 ++ LEvent b id :: l3) = Some s' ->
  (forall x, In x l2 -> x <> LRelease a id) ->
  b = a.
Proof.
  intros l1 l2 l3 a b id s' H Hn.
  assert (Hsplit : forall l s r t, lrun s (l ++ r) = Some t -> exists m, lrun s l = Some m /\ lrun m r = Some t).
  { induction l as [|x l IH]; intros s r t Hr; simpl in *; [eauto|].
    destruct (lstep s x); [|discriminate Hr]. apply IH. exact Hr. }
  destruct (Hsplit _ _ _ _ H) as [m1 [_ H1]]. simpl in H1.
  destruct (m1 id) eqn:E1; [discriminate H1|].
  destruct (Hsplit _ _ _ _ H1) as [m2 [H2 H3]].
  assert (Hh : m2 id = Some a).
  { eapply holder_kept; [|exact Hn|exact H2]. simpl. rewrite Nat.eqb_refl. reflexivity. }
  simpl in H3. rewrite Hh in H3. destruct (a =? b) eqn:Eab; [|discriminate H3].
  apply Nat.eqb_eq in Eab. congruence.
Qed.

(* a second apply to the same id cannot even start while the first holds the lock *)
Theorem same_id_second_acquire_blocks : forall l1 l2 l3 a b id,
  (forall x, In x l2 -> x <> LRelease a id) ->
  lrun (fun _ => None) (l1 ++ LAcquire a id :: l2 ++ LAcquire b id :: l3) = None.
Proof.
  intros l1 l2 l3 a b id Hn.
  destruct (lrun (fun _ => None) (l1 ++ LAcquire a id :: l2 ++ LAcquire b id :: l3)) as [s'|] eqn:H; [|reflexivity].
  exfalso.
  assert (Hsplit : forall l s r t, lrun s (l ++ r) = Some t -> exists m, lrun s l = Some m /\ lrun m r = Some t).
  { induction l as [|x l IH]; intros s r t Hr; simpl in *; [eauto|].
    destruct (lstep s x); [|discriminate Hr]. apply IH. exact Hr. }
  destruct (Hsplit _ _ _ _ H) as [m1 [_ H1]]. simpl in H1.
  destruct (m1 id) eqn:E1; [discriminate H1|].
  destruct (Hsplit _ _ _ _ H1) as [m2 [H2 H3]].
  assert (Hh : m2 id = Some a).
  { eapply holder_kept; [|exact Hn|exact H2]. simpl. rewrite Nat.eqb_refl. reflexivity. }
  simpl in H3. rewrite Hh in H3. discriminate H3.
Qed.
