(* Model of the pipeline import path of pkg/provisioning (C15).

   Go code transcribed here (definitions only; proofs are in ImportProofs.v):
     export.go            Export / exportConnectors / exportProcessors / *ToConfig
     import.go            importPipeline, executeActions, rollbackActions, reverseActions,
                          actionsBuilder.Build / buildForOldConfig / buildForNewConfig /
                          prepare{Pipeline,Connector,Processor}Actions
     import_actions.go    Do / Rollback of every action as the sequence of service calls it makes
     pipeline/service.go  Create Update UpdateDLQ Add/RemoveConnector Add/RemoveProcessor Delete
     connector/service.go Create Update Delete AddProcessor RemoveProcessor (+ State field)
     processor/service.go Create UpdateWhileRunning Delete
   with, per service call, the order "mutate the in-memory instance / write the store" the code
   has (so that an injected store failure leaves exactly what the code leaves).

   Strings, settings maps and positions are opaque tokens (nat); the harness renders token k
   injectively.  Token 0 is the empty string / nil map.  Processor ids are local to their parent
   (config.Enrich prefixes them with the parent id), so the key of a processor is
   (parent connector or pipeline, local id).  One pipeline (fixed id) per state.

   Four flags select between the behaviour of the shipped code and its repair:
     copy_ids       updateConnectorAction.update copies c.ProcessorIDs before removing (S9)
     exp_cond       processorToConfig exports Condition                                  (S10)
     upd_cond       updateProcessorAction writes Condition                               (S10)
     restore_state  the rollback of a connector delete restores the connector State
   [shipped] is what /repo does today; the theorems of the property hold for [repaired]. *)
From Coq Require Export List Arith Bool Lia.
Export ListNotations.

Record flags := mkFlags { copy_ids : bool; exp_cond : bool; upd_cond : bool; restore_state : bool }.
Definition shipped : flags := mkFlags false false false false.
Definition repaired : flags := mkFlags true true true true.

(* ---------------------------------------------------------------- configs *)
Record dlqc := mkDlq { d_plugin : nat; d_settings : nat; d_size : nat; d_thr : nat }.
Record procc := mkProc { p_id : nat; p_plugin : nat; p_settings : nat; p_workers : nat; p_cond : nat }.
Record connc := mkConn { c_id : nat; c_src : bool; c_plugin : nat; c_name : nat; c_settings : nat;
                         c_procs : list procc }.
Record pipec := mkPipe { pl_name : nat; pl_desc : nat; pl_dlq : dlqc; pl_conns : list connc;
                         pl_procs : list procc }.

Definition dlq_eqb (a b : dlqc) : bool :=
  (d_plugin a =? d_plugin b) && (d_settings a =? d_settings b) && (d_size a =? d_size b) && (d_thr a =? d_thr b).
Definition procc_eqb (a b : procc) : bool :=
  (p_id a =? p_id b) && (p_plugin a =? p_plugin b) && (p_settings a =? p_settings b)
  && (p_workers a =? p_workers b) && (p_cond a =? p_cond b).
Fixpoint ids_eqb (a b : list nat) : bool :=
  match a, b with
  | [], [] => true
  | x :: r, y :: q => (x =? y) && ids_eqb r q
  | _, _ => false
  end.
Definition proc_ids (l : list procc) : list nat := map p_id l.
Definition conn_ids (l : list connc) : list nat := map c_id l.

(* ---------------------------------------------------------------- stored instances *)
Record pinst := mkPI { pi_name : nat; pi_desc : nat; pi_dlq : dlqc; pi_conns : list nat; pi_procs : list nat }.
Record cinst := mkCI { ci_src : bool; ci_plugin : nat; ci_name : nat; ci_settings : nat;
                       ci_procs : list nat; ci_state : option nat }.
Record rinst := mkRI { ri_plugin : nat; ri_settings : nat; ri_workers : nat; ri_cond : nat }.

Definition pkey := (option nat * nat)%type.
Definition onat_eqb (a b : option nat) : bool :=
  match a, b with Some x, Some y => x =? y | None, None => true | _, _ => false end.
Definition pkey_eqb (a b : pkey) : bool := onat_eqb (fst a) (fst b) && (snd a =? snd b).

Record st := mkSt { s_pl : option pinst; s_conns : nat -> option cinst; s_procs : pkey -> option rinst }.
Definition empty_st : st := mkSt None (fun _ => None) (fun _ => None).

(* entity keys and the unified cell type the actions work on *)
Inductive ekey := KP | KC (c : nat) | KR (par : option nat) (p : nat).
Definition ekey_eqb (a b : ekey) : bool :=
  match a, b with
  | KP, KP => true
  | KC x, KC y => x =? y
  | KR q x, KR r y => onat_eqb q r && (x =? y)
  | _, _ => false
  end.
Inductive cell := CP (v : option pinst) | CC (v : option cinst) | CR (v : option rinst).

Definition get (s : st) (k : ekey) : cell :=
  match k with
  | KP => CP (s_pl s)
  | KC c => CC (s_conns s c)
  | KR par p => CR (s_procs s (par, p))
  end.
Definition set (s : st) (k : ekey) (c : cell) : st :=
  match k, c with
  | KP, CP v => mkSt v (s_conns s) (s_procs s)
  | KC i, CC v => mkSt (s_pl s) (fun j => if j =? i then v else s_conns s j) (s_procs s)
  | KR par p, CR v => mkSt (s_pl s) (s_conns s) (fun j => if pkey_eqb j (par, p) then v else s_procs s j)
  | _, _ => s
  end.

(* ---------------------------------------------------------------- store operations and faults *)
(* every service call that mutates writes the store exactly once (db.Set; a delete is Set nil) *)
Record sop := mkSop { so_key : ekey; so_del : bool; so_failed : bool }.
Definition fault := option nat.        (* Some n: the n-th store operation from now on fails, once *)
Definition res (A : Type) := (A * bool * fault * list sop)%type.
Definition prog (A : Type) := A -> fault -> res A.

(* one store write: [onok] is the instance value if the write succeeds, [onfail] if it fails *)
Definition store {A} (k : ekey) (del : bool) (onok onfail : A) (f : fault) : res A :=
  match f with
  | Some 0 => (onfail, false, None, [mkSop k del true])
  | Some (S n) => (onok, true, Some n, [mkSop k del false])
  | None => (onok, true, None, [mkSop k del false])
  end.
Definition failp {A} : prog A := fun v f => (v, false, f, []).
Definition skip {A} : prog A := fun v f => (v, true, f, []).
Definition seq {A} (p q : prog A) : prog A := fun v f =>
  let '(v1, ok1, f1, t1) := p v f in
  if ok1 then let '(v2, ok2, f2, t2) := q v1 f1 in (v2, ok2, f2, t1 ++ t2)
  else (v1, false, f1, t1).
Fixpoint iter {A} (op : nat -> prog A) (ids : list nat) : prog A :=
  match ids with
  | [] => skip
  | x :: r => seq (op x) (iter op r)
  end.

Fixpoint mem (x : nat) (l : list nat) : bool :=
  match l with [] => false | y :: r => (x =? y) || mem x r end.
Fixpoint remove1 (x : nat) (l : list nat) : list nat :=
  match l with [] => [] | y :: r => if x =? y then r else y :: remove1 x r end.
Fixpoint index_of (x : nat) (l : list nat) : nat :=
  match l with [] => 0 | y :: r => if x =? y then 0 else S (index_of x r) end.

(* ---------------------------------------------------------------- pipeline service *)
(* pipeline.DefaultDLQ, in tokens (the harness maps "builtin:log" and the default settings map to 1;
   the generated file re-checks window size and threshold against instance.go on every run) *)
Definition dlq_default : dlqc := mkDlq 1 1 1 0.
(* UpdateDLQ's validation *)
Definition dlq_ok (d : dlqc) : bool := (0 <? d_plugin d) && ((d_size d =? 0) || (d_thr d <? d_size d)).

(* Create: validatePipeline (name mandatory, name not taken), store.Set, then publish *)
Definition pl_create (name desc : nat) : prog (option pinst) := fun v f =>
  if name =? 0 then failp v f
  else match v with
       | Some p => if pi_name p =? name then failp v f
                   else store KP false (Some (mkPI name desc dlq_default [] [])) v f
       | None => store KP false (Some (mkPI name desc dlq_default [] [])) v f
       end.
(* Update / UpdateDLQ / Add* / Remove*: mutate the instance, then store.Set *)
Definition pl_update (name desc : nat) : prog (option pinst) := fun v f =>
  match v with
  | None => failp v f
  | Some p => if name =? 0 then failp v f
              else let v' := Some (mkPI name desc (pi_dlq p) (pi_conns p) (pi_procs p)) in store KP false v' v' f
  end.
Definition pl_update_dlq (d : dlqc) : prog (option pinst) := fun v f =>
  match v with
  | None => failp v f
  | Some p => if dlq_ok d
              then let v' := Some (mkPI (pi_name p) (pi_desc p) d (pi_conns p) (pi_procs p)) in store KP false v' v' f
              else failp v f
  end.
Definition pl_add_conn (c : nat) : prog (option pinst) := fun v f =>
  match v with
  | None => failp v f
  | Some p => let v' := Some (mkPI (pi_name p) (pi_desc p) (pi_dlq p) (pi_conns p ++ [c]) (pi_procs p)) in
              store KP false v' v' f
  end.
Definition pl_rm_conn (c : nat) : prog (option pinst) := fun v f =>
  match v with
  | None => failp v f
  | Some p => if mem c (pi_conns p)
              then let v' := Some (mkPI (pi_name p) (pi_desc p) (pi_dlq p) (remove1 c (pi_conns p)) (pi_procs p)) in
                   store KP false v' v' f
              else failp v f
  end.
Definition pl_add_proc (c : nat) : prog (option pinst) := fun v f =>
  match v with
  | None => failp v f
  | Some p => let v' := Some (mkPI (pi_name p) (pi_desc p) (pi_dlq p) (pi_conns p) (pi_procs p ++ [c])) in
              store KP false v' v' f
  end.
Definition pl_rm_proc (c : nat) : prog (option pinst) := fun v f =>
  match v with
  | None => failp v f
  | Some p => if mem c (pi_procs p)
              then let v' := Some (mkPI (pi_name p) (pi_desc p) (pi_dlq p) (pi_conns p) (remove1 c (pi_procs p))) in
                   store KP false v' v' f
              else failp v f
  end.
(* Delete: store.Delete, then unpublish *)
Definition pl_delete : prog (option pinst) := fun v f =>
  match v with
  | None => failp v f
  | Some _ => store KP true None v f
  end.

(* ---------------------------------------------------------------- connector service *)
Definition co_create (id : nat) (src : bool) (plugin name settings : nat) : prog (option cinst) := fun v f =>
  if (name =? 0) || (plugin =? 0) then failp v f
  else store (KC id) false (Some (mkCI src plugin name settings [] None)) v f.
Definition co_delete (id : nat) : prog (option cinst) := fun v f =>
  match v with
  | None => failp v f
  | Some _ => store (KC id) true None v f
  end.
Definition co_update (id plugin name settings : nat) : prog (option cinst) := fun v f =>
  match v with
  | None => failp v f
  | Some c => let v' := Some (mkCI (ci_src c) plugin name settings (ci_procs c) (ci_state c)) in
              store (KC id) false v' v' f
  end.
Definition co_add_proc (id p : nat) : prog (option cinst) := fun v f =>
  match v with
  | None => failp v f
  | Some c => let v' := Some (mkCI (ci_src c) (ci_plugin c) (ci_name c) (ci_settings c) (ci_procs c ++ [p]) (ci_state c)) in
              store (KC id) false v' v' f
  end.
Definition co_rm_proc (id p : nat) : prog (option cinst) := fun v f =>
  match v with
  | None => failp v f
  | Some c => if mem p (ci_procs c)
              then let v' := Some (mkCI (ci_src c) (ci_plugin c) (ci_name c) (ci_settings c)
                                        (remove1 p (ci_procs c)) (ci_state c)) in
                   store (KC id) false v' v' f
              else failp v f
  end.
Definition co_set_state (id : nat) (stt : option nat) : prog (option cinst) := fun v f =>
  match v with
  | None => failp v f
  | Some c => let v' := Some (mkCI (ci_src c) (ci_plugin c) (ci_name c) (ci_settings c) (ci_procs c) stt) in
              store (KC id) false v' v' f
  end.

(* Go slice aliasing in updateConnectorAction.update (shipped code):
       for _, procID := range c.ProcessorIDs { connectorService.RemoveProcessor(ctx, cfg.ID, procID) }
   The range expression is evaluated once: the loop reads element i of the backing array [arr]
   (fixed length) at iteration i, while RemoveProcessor shifts the logical prefix arr[:len] left
   in place (copy(ids[idx:], ids[idx+1:])) and shortens the instance's slice by one.  The
   last element of the logical prefix stays behind as a stale duplicate. *)
Definition shift (arr : list nat) (len idx : nat) : list nat :=
  firstn idx arr ++ skipn (S idx) (firstn len arr) ++ skipn (len - 1) arr.
Fixpoint alias_loop (id : nat) (fuel : nat) (arr : list nat) (len i : nat) : prog (option cinst) :=
  match fuel with
  | 0 => skip
  | S fuel' => fun v f =>
      let x := nth i arr 0 in
      let '(v1, ok1, f1, t1) := co_rm_proc id x v f in
      if ok1
      then let '(v2, ok2, f2, t2) :=
             alias_loop id fuel' (shift arr len (index_of x (firstn len arr))) (len - 1) (S i) v1 f1 in
           (v2, ok2, f2, t1 ++ t2)
      else (v1, false, f1, t1)
  end.

(* ---------------------------------------------------------------- processor service *)
(* the fake plugin registry of the harness knows plugin tokens 1..99 *)
Definition good_plugin (p : nat) : bool := (0 <? p) && (p <? 100).
Definition pr_create (k : ekey) (plugin settings workers cond : nat) : prog (option rinst) := fun v f =>
  if good_plugin plugin
  then store k false (Some (mkRI plugin settings (if workers =? 0 then 1 else workers) cond)) v f
  else failp v f.
Definition pr_delete (k : ekey) : prog (option rinst) := fun v f =>
  match v with
  | None => failp v f
  | Some _ => store k true None v f
  end.
Definition pr_update (fl : flags) (k : ekey) (plugin settings workers cond : nat) : prog (option rinst) := fun v f =>
  match v with
  | None => failp v f
  | Some r => if plugin =? 0 then failp v f
              else let v' := Some (mkRI plugin settings workers (if upd_cond fl then cond else ri_cond r)) in
                   store k false v' v' f
  end.

(* ---------------------------------------------------------------- actions *)
Inductive action :=
| ACreatePl (c : pipec)
| AUpdatePl (o n : pipec)
| ACreateConn (c : connc)
| AUpdateConn (o n : connc)
| ADeleteConn (c : connc) (saved : option nat)
| ACreateProc (par : option nat) (c : procc)
| AUpdateProc (par : option nat) (o n : procc)
| ADeleteProc (par : option nat) (c : procc).
(* deletePipelineAction only arises for an empty new config (Service.Delete), never in an import *)

Definition akey (a : action) : ekey :=
  match a with
  | ACreatePl _ | AUpdatePl _ _ => KP
  | ACreateConn c | AUpdateConn c _ | ADeleteConn c _ => KC (c_id c)
  | ACreateProc par c | AUpdateProc par c _ | ADeleteProc par c => KR par (p_id c)
  end.

(* createPipelineAction.Do *)
Definition do_create_pl (c : pipec) : prog (option pinst) :=
  seq (pl_create (pl_name c) (pl_desc c))
  (seq (pl_update_dlq (pl_dlq c))
  (seq (iter pl_add_conn (conn_ids (pl_conns c)))
       (iter pl_add_proc (proc_ids (pl_procs c))))).
(* updatePipelineAction.update: the id lists are copied before the removals *)
Definition do_update_pl (c : pipec) : prog (option pinst) :=
  seq (pl_update (pl_name c) (pl_desc c))
  (seq (pl_update_dlq (pl_dlq c))
  (seq (fun v f => match v with
                   | None => failp v f
                   | Some p => if ids_eqb (pi_conns p) (conn_ids (pl_conns c)) then skip v f
                               else seq (iter pl_rm_conn (pi_conns p)) (iter pl_add_conn (conn_ids (pl_conns c))) v f
                   end)
       (fun v f => match v with
                   | None => failp v f
                   | Some p => if ids_eqb (pi_procs p) (proc_ids (pl_procs c)) then skip v f
                               else seq (iter pl_rm_proc (pi_procs p)) (iter pl_add_proc (proc_ids (pl_procs c))) v f
                   end))).
Definition do_create_conn (c : connc) : prog (option cinst) :=
  seq (co_create (c_id c) (c_src c) (c_plugin c) (c_name c) (c_settings c))
      (iter (co_add_proc (c_id c)) (proc_ids (c_procs c))).
Definition do_update_conn (fl : flags) (c : connc) : prog (option cinst) :=
  seq (co_update (c_id c) (c_plugin c) (c_name c) (c_settings c))
      (fun v f => match v with
                  | None => failp v f
                  | Some i => if ids_eqb (ci_procs i) (proc_ids (c_procs c)) then skip v f
                              else seq (if copy_ids fl then iter (co_rm_proc (c_id c)) (ci_procs i)
                                        else alias_loop (c_id c) (length (ci_procs i)) (ci_procs i) (length (ci_procs i)) 0)
                                       (iter (co_add_proc (c_id c)) (proc_ids (c_procs c))) v f
                  end).
(* rollback of a connector delete = createConnectorAction.Do (a fresh instance: State nil);
   the repaired variant puts the State the deleted instance had back *)
Definition rb_delete_conn (fl : flags) (c : connc) (saved : option nat) : prog (option cinst) :=
  if restore_state fl
  then seq (do_create_conn c) (match saved with None => skip | Some _ => co_set_state (c_id c) saved end)
  else do_create_conn c.

Definition liftP (p : prog (option pinst)) : prog cell := fun c f =>
  match c with CP v => let '(v', ok, f', t) := p v f in (CP v', ok, f', t) | _ => (c, false, f, []) end.
Definition liftC (p : prog (option cinst)) : prog cell := fun c f =>
  match c with CC v => let '(v', ok, f', t) := p v f in (CC v', ok, f', t) | _ => (c, false, f, []) end.
Definition liftR (p : prog (option rinst)) : prog cell := fun c f =>
  match c with CR v => let '(v', ok, f', t) := p v f in (CR v', ok, f', t) | _ => (c, false, f, []) end.

Definition ado (fl : flags) (a : action) : prog cell :=
  match a with
  | ACreatePl c => liftP (do_create_pl c)
  | AUpdatePl _ n => liftP (do_update_pl n)
  | ACreateConn c => liftC (do_create_conn c)
  | AUpdateConn _ n => liftC (do_update_conn fl n)
  | ADeleteConn c _ => liftC (co_delete (c_id c))
  | ACreateProc par c => liftR (pr_create (KR par (p_id c)) (p_plugin c) (p_settings c) (p_workers c) (p_cond c))
  | AUpdateProc par _ n => liftR (pr_update fl (KR par (p_id n)) (p_plugin n) (p_settings n) (p_workers n) (p_cond n))
  | ADeleteProc par c => liftR (pr_delete (KR par (p_id c)))
  end.
Definition arb (fl : flags) (a : action) : prog cell :=
  match a with
  | ACreatePl _ => liftP pl_delete
  | AUpdatePl o _ => liftP (do_update_pl o)
  | ACreateConn c => liftC (co_delete (c_id c))
  | AUpdateConn o _ => liftC (do_update_conn fl o)
  | ADeleteConn c saved => liftC (rb_delete_conn fl c saved)
  | ACreateProc par c => liftR (pr_delete (KR par (p_id c)))
  | AUpdateProc par o _ => liftR (pr_update fl (KR par (p_id o)) (p_plugin o) (p_settings o) (p_workers o) (p_cond o))
  | ADeleteProc par c => liftR (pr_create (KR par (p_id c)) (p_plugin c) (p_settings c) (p_workers c) (p_cond c))
  end.

(* executeActions: stop at the first failing action; [done] collects actions[:failed+1] reversed *)
Fixpoint exec_do (fl : flags) (acts : list action) (s : st) (f : fault) (done : list action)
  : st * list action * bool * fault * list sop :=
  match acts with
  | [] => (s, done, true, f, [])
  | a :: r =>
      let '(c, ok, f1, t1) := ado fl a (get s (akey a)) f in
      let s1 := set s (akey a) c in
      if ok then let '(s2, d2, ok2, f2, t2) := exec_do fl r s1 f1 (a :: done) in (s2, d2, ok2, f2, t1 ++ t2)
      else (s1, a :: done, false, f1, t1)
  end.
(* rollbackActions: every action is rolled back, errors are only logged *)
Fixpoint exec_rb (fl : flags) (acts : list action) (s : st) (f : fault) : st * bool * fault * list sop :=
  match acts with
  | [] => (s, true, f, [])
  | a :: r =>
      let '(c, ok, f1, t1) := arb fl a (get s (akey a)) f in
      let '(s2, ok2, f2, t2) := exec_rb fl r (set s (akey a) c) f1 in
      (s2, ok && ok2, f2, t1 ++ t2)
  end.

(* ---------------------------------------------------------------- export *)
Fixpoint exp_procs (fl : flags) (s : st) (par : option nat) (ids : list nat) : option (list procc) :=
  match ids with
  | [] => Some []
  | i :: r =>
      match s_procs s (par, i), exp_procs fl s par r with
      | Some x, Some l => Some (mkProc i (ri_plugin x) (ri_settings x) (ri_workers x)
                                       (if exp_cond fl then ri_cond x else 0) :: l)
      | _, _ => None
      end
  end.
Fixpoint exp_conns (fl : flags) (s : st) (ids : list nat) : option (list connc) :=
  match ids with
  | [] => Some []
  | i :: r =>
      match s_conns s i with
      | Some x =>
          match exp_procs fl s (Some i) (ci_procs x), exp_conns fl s r with
          | Some ps, Some l => Some (mkConn i (ci_src x) (ci_plugin x) (ci_name x) (ci_settings x) ps :: l)
          | _, _ => None
          end
      | None => None
      end
  end.
Inductive expres := ENone | EErr | EOk (c : pipec).
Definition export (fl : flags) (s : st) : expres :=
  match s_pl s with
  | None => ENone
  | Some p =>
      match exp_conns fl s (pi_conns p), exp_procs fl s None (pi_procs p) with
      | Some cs, Some ps => EOk (mkPipe (pi_name p) (pi_desc p) (pi_dlq p) cs ps)
      | _, _ => EErr
      end
  end.

(* ---------------------------------------------------------------- actionsBuilder.Build *)
Fixpoint find_conn (id : nat) (l : list connc) : option connc :=
  match l with [] => None | c :: r => if c_id c =? id then Some c else find_conn id r end.
Fixpoint find_proc (id : nat) (l : list procc) : option procc :=
  match l with [] => None | p :: r => if p_id p =? id then Some p else find_proc id r end.

Definition saved_state (fl : flags) (s : st) (id : nat) : option nat :=
  if restore_state fl then match s_conns s id with Some i => ci_state i | None => None end else None.

(* prepareProcessorActions for a processor of the old config that the new parent does not have *)
Definition vanished_procs (par : option nat) (olds news : list procc) : list action :=
  flat_map (fun p => match find_proc (p_id p) news with Some _ => [] | None => [ADeleteProc par p] end) olds.

Definition build_old (fl : flags) (s : st) (o : option pipec) (n : pipec) : list action :=
  match o with
  | None => []
  | Some o =>
      rev (flat_map (fun c =>
                       match find_conn (c_id c) (pl_conns n) with
                       | None => ADeleteConn c (saved_state fl s (c_id c)) :: vanished_procs (Some (c_id c)) (c_procs c) []
                       | Some c' => vanished_procs (Some (c_id c)) (c_procs c) (c_procs c')
                       end) (pl_conns o)
           ++ vanished_procs None (pl_procs o) (pl_procs n))
  end.

(* cmp.Equal with the nested configs compared by ID and Status ignored *)
Definition pipe_shallow_eqb (a b : pipec) : bool :=
  (pl_name a =? pl_name b) && (pl_desc a =? pl_desc b) && dlq_eqb (pl_dlq a) (pl_dlq b)
  && ids_eqb (conn_ids (pl_conns a)) (conn_ids (pl_conns b))
  && ids_eqb (proc_ids (pl_procs a)) (proc_ids (pl_procs b)).
(* the mutable fields of a connector (config.ConnectorMutableFields), nested processors by ID *)
Definition conn_mutable_eqb (a b : connc) : bool :=
  (c_plugin a =? c_plugin b) && (c_name a =? c_name b) && (c_settings a =? c_settings b)
  && ids_eqb (proc_ids (c_procs a)) (proc_ids (c_procs b)).

Definition proc_actions (par : option nat) (olds : list procc) (p : procc) : list action :=
  match find_proc (p_id p) olds with
  | None => [ACreateProc par p]
  | Some o => if procc_eqb o p then [] else [AUpdateProc par o p]
  end.
Definition conn_actions (fl : flags) (s : st) (olds : list connc) (c : connc) : list action :=
  match find_conn (c_id c) olds with
  | None => ACreateConn c :: flat_map (proc_actions (Some (c_id c)) []) (c_procs c)
  | Some o =>
      (if Bool.eqb (c_src o) (c_src c)
       then if conn_mutable_eqb o c then [] else [AUpdateConn o c]
       else [ADeleteConn o (saved_state fl s (c_id o)); ACreateConn c])
      ++ flat_map (proc_actions (Some (c_id c)) (c_procs o)) (c_procs c)
  end.
Definition build_new (fl : flags) (s : st) (o : option pipec) (n : pipec) : list action :=
  match o with
  | None => ACreatePl n :: flat_map (conn_actions fl s []) (pl_conns n)
                        ++ flat_map (proc_actions None []) (pl_procs n)
  | Some o =>
      (if pipe_shallow_eqb o n then [] else [AUpdatePl o n])
      ++ flat_map (conn_actions fl s (pl_conns o)) (pl_conns n)
      ++ flat_map (proc_actions None (pl_procs o)) (pl_procs n)
  end.
Definition build (fl : flags) (s : st) (o : option pipec) (n : pipec) : list action :=
  build_old fl s o n ++ build_new fl s o n.

(* ---------------------------------------------------------------- importPipeline *)
Inductive outcome := OOk | OFailed | OExportErr.
Definition outcome_eqb (a b : outcome) : bool :=
  match a, b with OOk, OOk | OFailed, OFailed | OExportErr, OExportErr => true | _, _ => false end.

Definition old_of (e : expres) : option pipec := match e with EOk c => Some c | _ => None end.

Definition plan (fl : flags) (s : st) (n : pipec) : option (list action) :=
  match export fl s with
  | EErr => None
  | e => Some (build fl s (old_of e) n)
  end.

Definition import (fl : flags) (s : st) (n : pipec) (f : fault) : st * outcome * fault * list sop :=
  match plan fl s n with
  | None => (s, OExportErr, f, [])
  | Some acts =>
      let '(s1, done, ok, f1, t1) := exec_do fl acts s f [] in
      if ok then (s1, OOk, f1, t1)
      else let '(s2, _, f2, t2) := exec_rb fl done s1 f1 in (s2, OFailed, f2, t1 ++ t2)
  end.

(* ---------------------------------------------------------------- validity (config.Enrich + config.Validate
   + the services' own argument checks) *)
Fixpoint nodup_ids (l : list nat) : bool :=
  match l with [] => true | x :: r => negb (mem x r) && nodup_ids r end.
Definition valid_proc (p : procc) : bool := good_plugin (p_plugin p) && (0 <? p_workers p).
Definition valid_conn (c : connc) : bool :=
  (0 <? c_name c) && (0 <? c_plugin c) && nodup_ids (proc_ids (c_procs c)) && forallb valid_proc (c_procs c).
Definition valid (c : pipec) : bool :=
  (0 <? pl_name c) && dlq_ok (pl_dlq c)
  && nodup_ids (conn_ids (pl_conns c)) && forallb valid_conn (pl_conns c)
  && nodup_ids (proc_ids (pl_procs c)) && forallb valid_proc (pl_procs c).

(* a state some import can start from: no pipeline yet, or one whose export is a valid config *)
Definition wf (fl : flags) (s : st) : Prop :=
  export fl s = ENone \/ exists c, export fl s = EOk c /\ valid c = true.

(* stored State of a connector *)
Definition conn_state (s : st) (id : nat) : option nat :=
  match s_conns s id with Some i => ci_state i | None => None end.
