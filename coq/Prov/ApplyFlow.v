(* C16, end-to-end half: the decision procedure of ApplyPlanLive (Prov/Apply.v) composed with an
   abstract record flow.  What StopAndWait, Start, the import and a processor swap do to the flow
   is NOT proved here: it enters as named Section hypotheses, which are exactly the conclusions of
   C06 (graceful stop drains), C03 (a restart resumes from the durable position), C15 (an import
   keeps the connector positions) and C13 (a live swap happens at a record boundary).  Under them
   no record is skipped or lost across an apply, an import into a running pipeline only happens
   after the drain completed, and the restarted pipeline continues with the successor of the last
   record read before the apply. *)
From Verif Require Import Base.CaseCheck Prov.Apply Prov.ApplyCheck Prov.ApplyProofs.

Section ApplyNoSkip.
  (* the record flow of one pipeline: is it running; the record its source hands out next (every
     record below has been read); how many read records are not yet acked; the stored position *)
  Variable flow : Type.
  Variables (f_running : flow -> bool) (f_next f_unacked f_durable : flow -> nat).
  (* what the four kinds of calls do to it, given their outcome *)
  Variables (do_stop do_start : flow -> bool -> flow) (do_import : flow -> cfgv -> bool -> flow)
            (do_reconf : flow -> nat -> rc -> flow).

  (* no record skipped, none lost: every record read so far is durable or still in flight *)
  Definition nogap (f : flow) : Prop := f_next f = S (f_durable f + f_unacked f).
  (* fully drained: stopped, nothing in flight, the position of the last record read is stored *)
  Definition drained (f : flow) : Prop :=
    f_running f = false /\ f_unacked f = 0 /\ f_next f = S (f_durable f).
  Definition same (f g : flow) : Prop :=
    f_running g = f_running f /\ f_next g = f_next f /\ f_unacked g = f_unacked f /\ f_durable g = f_durable f.

  (* C06: a successful StopAndWait of a running pipeline returns only after every record that was
     read (also those read while it was stopping) is acked and its position stored; no record that
     had been read is forgotten *)
  Hypothesis C06_graceful_stop_drains : forall f,
    f_running f = true -> nogap f -> drained (do_stop f true) /\ f_next f <= f_next (do_stop f true).
  Hypothesis C06_failed_stop_leaves : forall f, same f (do_stop f false).
  (* C03: a (re)start resumes every source from its stored position *)
  Hypothesis C03_restart_resumes_from_durable : forall f,
    f_running f = false ->
    f_running (do_start f true) = true /\ f_next (do_start f true) = S (f_durable f)
    /\ f_unacked (do_start f true) = 0 /\ f_durable (do_start f true) = f_durable f.
  Hypothesis C03_failed_start_leaves : forall f, same f (do_start f false).
  (* C15 (position_kept / fails atomically): an import, committed or rolled back, keeps the stored
     positions and does not touch the engine *)
  Hypothesis C15_import_keeps_positions : forall f t ok, same f (do_import f t ok).
  (* C13: a live processor swap happens at a record boundary: the flow is not disturbed *)
  Hypothesis C13_swap_at_record_boundary : forall f k r, same f (do_reconf f k r).

  Definition flow_step (f : flow) (e : ev) : flow :=
    match e with
    | EStop ok => do_stop f ok
    | EStart ok => do_start f ok
    | EImport t ok => do_import f t ok
    | EReconf k r => do_reconf f k r
    end.
  Definition flow_run (f : flow) (l : list ev) : flow := fold_left flow_step l f.

  Lemma same_refl f : same f f.
  Proof. unfold same. auto. Qed.
  Lemma same_trans f g h : same f g -> same g h -> same f h.
  Proof. unfold same. intros [A [B [C D]]] [A' [B' [C' D']]]. repeat split; congruence. Qed.
  Lemma same_nogap f g : same f g -> nogap f -> nogap g.
  Proof. unfold same, nogap. intros [A [B [C D]]] H. congruence. Qed.

  Definition quiet (e : ev) : bool := match e with EImport _ _ | EReconf _ _ => true | _ => false end.

  Lemma quiet_run : forall l f, forallb quiet l = true -> same f (flow_run f l).
  Proof.
    induction l as [|e l IH]; intros f H; simpl in *; [apply same_refl|].
    apply andb_prop in H. destruct H as [He Hl].
    eapply same_trans; [|apply IH; exact Hl].
    destruct e; simpl in *; try discriminate; auto.
  Qed.

  Lemma flow_run_app f a b : flow_run f (a ++ b) = flow_run (flow_run f a) b.
  Proof. unfold flow_run. apply fold_left_app. Qed.

  Lemma swap_loop_quiet : forall l k sw e x sw', swap_loop k l sw = (e, x, sw') -> forallb quiet e = true.
  Proof.
    induction l as [|r l IH]; intros k sw e x sw' H; simpl in H.
    - inversion H. reflexivity.
    - destruct r.
      + destruct (swap_loop (S k) l (sw ++ [k])) as [[e1 x1] s1] eqn:E. inversion H; subst. simpl. eapply IH; eauto.
      + inversion H. reflexivity.
      + inversion H. reflexivity.
  Qed.

  Lemma reswap_quiet : forall sw outs, forallb quiet (reswap sw outs) = true.
  Proof. induction sw as [|k r IH]; intros outs; simpl; [reflexivity|apply IH]. Qed.

  Lemma rollback_quiet i sw : forallb quiet (rollback_inplace i sw) = true.
  Proof. unfold rollback_inplace. destruct (a_rb_imp i); simpl; [apply reswap_quiet|reflexivity]. Qed.

  (* StopAndWait -> import -> Start on a running pipeline *)
  Lemma restart_flow fx i fb f :
    f_running f = true -> nogap f ->
    let g := flow_run f (fst (restart_path fx i fb)) in
    nogap g
    /\ (snd (restart_path fx i fb) = ROk MRestart ->
          f_running g = true /\ f_unacked g = 0 /\ f_next g = S (f_durable g) /\ f_next f <= f_next g)
    /\ (a_stop i = false -> same f g).
  Proof.
    intros Hr Hn. unfold restart_path. destruct (a_stop i) eqn:Es.
    - destruct (C06_graceful_stop_drains f Hr Hn) as [[D1 [D2 D3]] D4].
      set (f1 := do_stop f true) in *.
      assert (N1 : nogap f1) by (unfold nogap; rewrite D2, D3; lia).
      destruct (a_imp i).
      + pose proof (C15_import_keeps_positions f1 CNew true) as [I1 [I2 [I3 I4]]].
        set (f2 := do_import f1 CNew true) in *.
        assert (R2 : f_running f2 = false) by congruence.
        destruct (a_start i); cbn [fst snd]; unfold flow_run; cbn [fold_left flow_step]; fold f1; fold f2.
        * destruct (C03_restart_resumes_from_durable f2 R2) as [S1 [S2 [S3 S4]]].
          split; [unfold nogap; rewrite S2, S3, S4; lia|]. split; [|intros Hc; discriminate Hc].
          intros _. repeat split; try assumption; [congruence|]. rewrite S2, I4. lia.
        * pose proof (C03_failed_start_leaves f2) as Sf. split.
          -- eapply same_nogap; [exact Sf|]. eapply same_nogap; [apply C15_import_keeps_positions|exact N1].
          -- split; [intros Hc; discriminate Hc|intros Hc; discriminate Hc].
      + cbn [fst snd]. unfold flow_run. cbn [fold_left flow_step]. fold f1. split.
        * eapply same_nogap; [apply C15_import_keeps_positions|exact N1].
        * split; [intros Hc; discriminate Hc|intros Hc; discriminate Hc].
    - assert (Hq : forall l, forallb quiet l = true -> same f (flow_run f (EStop false :: l))).
      { intros l Hl. unfold flow_run. cbn [fold_left flow_step].
        eapply same_trans; [apply C06_failed_stop_leaves|]. apply quiet_run. exact Hl. }
      assert (Hall : same f (flow_run f (fst match fb with
                                             | Some swapped => if fx then (EStop false :: rollback_inplace i swapped, RErr)
                                                               else ([EStop false], RErr)
                                             | None => ([EStop false], RErr)
                                             end))).
      { destruct fb as [sw|]; [destruct fx|]; cbn [fst]; apply Hq; try reflexivity. apply rollback_quiet. }
      split; [eapply same_nogap; [exact Hall|exact Hn]|]. split; [|intros _; exact Hall].
      intros Hc. destruct fb as [sw|]; [destruct fx|]; discriminate Hc.
  Qed.

  (* ---- the composition *)
  (* no record is skipped or lost across an apply, whatever its outcome *)
  Theorem apply_no_skip : forall fx i f,
    f_running f = running_of i -> nogap f -> nogap (flow_run f (fst (apply fx i))).
  Proof.
    intros fx i f Hr Hn. unfold apply.
    destruct (a_hash_ok i); cbn [negb]; [|exact Hn].
    destruct (a_empty i); [exact Hn|].
    destruct (running_of i) eqn:Er; cbn [andb negb].
    2:{ destruct (a_imp i); cbn [fst]; (eapply same_nogap; [apply quiet_run; reflexivity|exact Hn]). }
    destruct (a_auth i); cbn [negb]; [|exact Hn].
    destruct (a_live i).
    - destruct (a_imp_inplace i); [|eapply same_nogap; [apply quiet_run; reflexivity|exact Hn]].
      destruct (swap_loop 0 (a_swaps i) []) as [[e x] sw] eqn:E.
      pose proof (swap_loop_quiet _ _ _ _ _ _ E) as Hq.
      assert (Hpre : same f (flow_run f (EImport CNew true :: e))).
      { apply quiet_run. simpl. exact Hq. }
      destruct x.
      + cbn [fst]. eapply same_nogap; [exact Hpre|exact Hn].
      + destruct (restart_path fx i (Some sw)) as [e2 r] eqn:E2. cbn [fst].
        change (EImport CNew true :: e ++ e2) with ((EImport CNew true :: e) ++ e2). rewrite flow_run_app.
        destruct Hpre as [P1 [P2 [P3 P4]]].
        pose proof (restart_flow fx i (Some sw) (flow_run f (EImport CNew true :: e))) as R.
        rewrite E2 in R. cbn [fst] in R. apply R; [congruence|]. unfold nogap in *. congruence.
      + cbn [fst]. eapply same_nogap; [|exact Hn]. apply quiet_run.
        simpl. rewrite forallb_app, Hq, rollback_quiet. reflexivity.
    - apply (restart_flow fx i None f); [congruence|exact Hn].
  Qed.

  (* a restart-class apply to a running pipeline: the import happens on a fully drained pipeline
     (every record read is acked and its position stored), and the restarted pipeline continues
     with the successor of the last record read - nothing skipped, nothing read twice *)
  Theorem apply_restart_continues : forall fx i f,
    a_hash_ok i = true -> a_empty i = false -> running_of i = true -> a_auth i = true -> a_live i = false ->
    f_running f = true -> nogap f ->
    snd (apply fx i) = ROk MRestart ->
    let g := flow_run f (fst (apply fx i)) in
    fst (apply fx i) = [EStop true; EImport CNew true; EStart true]
    /\ drained (do_stop f true)
    /\ f_running g = true /\ f_unacked g = 0 /\ f_next g = S (f_durable g)
    /\ f_next g = f_next (do_stop f true) /\ f_next f <= f_next g.
  Proof.
    intros fx i f H1 H2 H3 H4 H5 Hr Hn. unfold apply. rewrite H1, H2, H3, H4, H5. cbn [negb andb].
    unfold restart_path. destruct (a_stop i); [destruct (a_imp i); [destruct (a_start i)|]|]; cbn [fst snd];
      intros Hres; try discriminate Hres.
    destruct (C06_graceful_stop_drains f Hr Hn) as [[D1 [D2 D3]] D4].
    unfold flow_run. cbn [fold_left flow_step].
    pose proof (C15_import_keeps_positions (do_stop f true) CNew true) as [I1 [I2 [I3 I4]]].
    assert (R2 : f_running (do_import (do_stop f true) CNew true) = false) by congruence.
    destruct (C03_restart_resumes_from_durable _ R2) as [S1 [S2 [S3 S4]]].
    split; [reflexivity|]. split; [repeat split; assumption|].
    repeat split; try assumption; try congruence; rewrite S2, I4; lia.
  Qed.

  (* a refused apply (stale plan, or a running pipeline without authorisation) does not touch the flow *)
  Theorem apply_refused_untouched : forall fx i f,
    (snd (apply fx i) = RStale \/ snd (apply fx i) = RUnauth) -> flow_run f (fst (apply fx i)) = f.
  Proof.
    intros fx i f H. unfold apply in *.
    destruct (a_hash_ok i); cbn [negb] in *; [|reflexivity].
    destruct (a_empty i); [reflexivity|].
    destruct (running_of i && negb (a_auth i)); [reflexivity|].
    exfalso. destruct (negb (running_of i)).
    - destruct (a_imp i); simpl in H; destruct H as [H|H]; discriminate H.
    - destruct (a_live i).
      + destruct (a_imp_inplace i); [|simpl in H; destruct H as [H|H]; discriminate H].
        destruct (swap_loop 0 (a_swaps i) []) as [[e x] sw]. destruct x.
        * simpl in H; destruct H as [H|H]; discriminate H.
        * destruct (restart_path fx i (Some sw)) as [e2 r] eqn:E2. simpl in H.
          unfold restart_path in E2.
          destruct (a_stop i); [destruct (a_imp i); [destruct (a_start i)|]|destruct fx]; inversion E2; subst;
            destruct H as [H|H]; discriminate H.
        * simpl in H; destruct H as [H|H]; discriminate H.
      + unfold restart_path in H.
        destruct (a_stop i); [destruct (a_imp i); [destruct (a_start i)|]|]; simpl in H; destruct H as [H|H]; discriminate H.
  Qed.
End ApplyNoSkip.

(* ---------------------------------------------------------------- the same, with the interface and its
   assumptions as first-class objects (for Properties/C16.v) *)
Record flow_iface := mkFlow {
  fl_t : Type;
  fl_running : fl_t -> bool;
  fl_next : fl_t -> nat;
  fl_unacked : fl_t -> nat;
  fl_durable : fl_t -> nat;
  fl_stop : fl_t -> bool -> fl_t;
  fl_start : fl_t -> bool -> fl_t;
  fl_import : fl_t -> cfgv -> bool -> fl_t;
  fl_reconf : fl_t -> nat -> rc -> fl_t
}.

Definition fl_nogap (F : flow_iface) := nogap (fl_t F) (fl_next F) (fl_unacked F) (fl_durable F).
Definition fl_drained (F : flow_iface) := drained (fl_t F) (fl_running F) (fl_next F) (fl_unacked F) (fl_durable F).
Definition fl_same (F : flow_iface) := same (fl_t F) (fl_running F) (fl_next F) (fl_unacked F) (fl_durable F).
Definition fl_run (F : flow_iface) := flow_run (fl_t F) (fl_stop F) (fl_start F) (fl_import F) (fl_reconf F).

(* the conclusion of C06 (graceful stop drains), as the interface sees it *)
Definition C06_conclusion (F : flow_iface) : Prop :=
  (forall f, fl_running F f = true -> fl_nogap F f ->
     fl_drained F (fl_stop F f true) /\ fl_next F f <= fl_next F (fl_stop F f true))
  /\ (forall f, fl_same F f (fl_stop F f false)).
(* the conclusion of C03 (a restart resumes from the durable position) *)
Definition C03_conclusion (F : flow_iface) : Prop :=
  (forall f, fl_running F f = false ->
     fl_running F (fl_start F f true) = true /\ fl_next F (fl_start F f true) = S (fl_durable F f)
     /\ fl_unacked F (fl_start F f true) = 0 /\ fl_durable F (fl_start F f true) = fl_durable F f)
  /\ (forall f, fl_same F f (fl_start F f false)).
(* C15 (positions kept, import atomic) and C13 (swap at a record boundary) *)
Definition C15_conclusion (F : flow_iface) : Prop := forall f t ok, fl_same F f (fl_import F f t ok).
Definition C13_conclusion (F : flow_iface) : Prop := forall f k r, fl_same F f (fl_reconf F f k r).

Theorem apply_no_skip_composed : forall F,
  C06_conclusion F -> C03_conclusion F -> C15_conclusion F -> C13_conclusion F ->
  forall fx i f, fl_running F f = running_of i -> fl_nogap F f -> fl_nogap F (fl_run F f (fst (apply fx i))).
Proof.
  intros F [A1 A2] [B1 B2] C D fx i f. unfold fl_nogap, fl_run.
  apply (apply_no_skip (fl_t F) (fl_running F) (fl_next F) (fl_unacked F) (fl_durable F)); assumption.
Qed.

Theorem apply_restart_continues_composed : forall F,
  C06_conclusion F -> C03_conclusion F -> C15_conclusion F -> C13_conclusion F ->
  forall fx i f,
  a_hash_ok i = true -> a_empty i = false -> running_of i = true -> a_auth i = true -> a_live i = false ->
  fl_running F f = true -> fl_nogap F f -> snd (apply fx i) = ROk MRestart ->
  let g := fl_run F f (fst (apply fx i)) in
  fst (apply fx i) = [EStop true; EImport CNew true; EStart true]
  /\ fl_drained F (fl_stop F f true)
  /\ fl_running F g = true /\ fl_unacked F g = 0 /\ fl_next F g = S (fl_durable F g)
  /\ fl_next F g = fl_next F (fl_stop F f true) /\ fl_next F f <= fl_next F g.
Proof.
  intros F [A1 A2] [B1 B2] C D fx i f. unfold fl_nogap, fl_run, fl_drained.
  apply (apply_restart_continues (fl_t F) (fl_running F) (fl_next F) (fl_unacked F) (fl_durable F)); assumption.
Qed.

Theorem apply_refused_untouched_composed : forall F fx i f,
  (snd (apply fx i) = RStale \/ snd (apply fx i) = RUnauth) -> fl_run F f (fst (apply fx i)) = f.
Proof. intros F fx i f. unfold fl_run. apply apply_refused_untouched. Qed.

(* the assumptions are satisfiable: a concrete flow (counters) that behaves as C06/C03/C15/C13 say *)
Definition toy_flow : flow_iface :=
  mkFlow (bool * nat * nat * nat)   (* running, next, unacked, durable *)
    (fun f => fst (fst (fst f))) (fun f => snd (fst (fst f))) (fun f => snd (fst f)) (fun f => snd f)
    (fun f ok => if ok then (false, snd (fst (fst f)), 0, snd (fst (fst f)) - 1) else f)
    (fun f ok => if ok then (true, S (snd f), 0, snd f) else f)
    (fun f _ _ => f) (fun f _ _ => f).

Lemma toy_flow_ok : C06_conclusion toy_flow /\ C03_conclusion toy_flow /\ C15_conclusion toy_flow /\ C13_conclusion toy_flow.
Proof.
  unfold C06_conclusion, C03_conclusion, C15_conclusion, C13_conclusion, fl_drained, fl_same, fl_nogap, drained, same, nogap.
  simpl. repeat split; intros; simpl in *; try reflexivity; try lia.
Qed.
