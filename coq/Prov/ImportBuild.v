(* Proofs about the import model, part 4: which actions of Build touch a given cell.
   Ids are unique per list (valid configs), so every cell is touched by at most one delete of the
   old-config pass and the actions one entity of the new config gives rise to. *)
From Verif Require Import Prov.Import Prov.ImportProofs Prov.ImportCells.

(* ---------------------------------------------------------------- filtering *)
Lemma on_flat_map {X} k (f : X -> list action) l : on k (flat_map f l) = flat_map (fun x => on k (f x)) l.
Proof.
  induction l as [|x r IH]; simpl; [reflexivity|]. rewrite on_app, IH. reflexivity.
Qed.

Lemma on_none k l : (forall a, In a l -> akey a <> k) -> on k l = [].
Proof.
  induction l as [|a r IH]; intros H; simpl; [reflexivity|].
  rewrite (ekey_eqb_neq (akey a) k) by (apply H; left; reflexivity).
  apply IH. intros b Hb. apply H. right. exact Hb.
Qed.

Lemma mem_conn_ids_find c l : mem c (conn_ids l) = false -> find_conn c l = None.
Proof.
  induction l as [|x r IH]; simpl; intros H; [reflexivity|].
  apply orb_false_elim in H. destruct H as [H1 H2]. rewrite Nat.eqb_sym, H1. apply IH. exact H2.
Qed.
Lemma mem_proc_ids_find p l : mem p (proc_ids l) = false -> find_proc p l = None.
Proof.
  induction l as [|x r IH]; simpl; intros H; [reflexivity|].
  apply orb_false_elim in H. destruct H as [H1 H2]. rewrite Nat.eqb_sym, H1. apply IH. exact H2.
Qed.

Lemma find_conn_id c l x : find_conn c l = Some x -> c_id x = c /\ In x l.
Proof.
  induction l as [|y r IH]; simpl; intros H; [discriminate H|].
  destruct (c_id y =? c) eqn:E.
  - inversion H; subst. apply Nat.eqb_eq in E. auto.
  - destruct (IH H). auto.
Qed.
Lemma find_proc_id p l x : find_proc p l = Some x -> p_id x = p /\ In x l.
Proof.
  induction l as [|y r IH]; simpl; intros H; [discriminate H|].
  destruct (p_id y =? p) eqn:E.
  - inversion H; subst. apply Nat.eqb_eq in E. auto.
  - destruct (IH H). auto.
Qed.

Lemma find_conn_none_notin c l : find_conn c l = None -> forall x, In x l -> c_id x <> c.
Proof.
  induction l as [|y r IH]; simpl; intros H x Hx; [contradiction|].
  destruct (c_id y =? c) eqn:E; [discriminate H|]. apply Nat.eqb_neq in E.
  destruct Hx as [<-|Hx]; [exact E|apply IH; assumption].
Qed.
Lemma find_proc_none_notin p l : find_proc p l = None -> forall x, In x l -> p_id x <> p.
Proof.
  induction l as [|y r IH]; simpl; intros H x Hx; [contradiction|].
  destruct (p_id y =? p) eqn:E; [discriminate H|]. apply Nat.eqb_neq in E.
  destruct Hx as [<-|Hx]; [exact E|apply IH; assumption].
Qed.

(* in a list without duplicate ids, find returns the element itself *)
Lemma find_conn_in l x : nodup_ids (conn_ids l) = true -> In x l -> find_conn (c_id x) l = Some x.
Proof.
  induction l as [|y r IH]; simpl; intros H Hx; [contradiction|].
  apply andb_prop in H. destruct H as [H1 H2]. destruct Hx as [<-|Hx].
  - rewrite Nat.eqb_refl. reflexivity.
  - destruct (c_id y =? c_id x) eqn:E.
    + apply Nat.eqb_eq in E. apply negb_true_iff in H1. apply mem_conn_ids_find in H1.
      rewrite E in H1. exfalso. eapply find_conn_none_notin; eauto.
    + apply IH; assumption.
Qed.
Lemma find_proc_in l x : nodup_ids (proc_ids l) = true -> In x l -> find_proc (p_id x) l = Some x.
Proof.
  induction l as [|y r IH]; simpl; intros H Hx; [contradiction|].
  apply andb_prop in H. destruct H as [H1 H2]. destruct Hx as [<-|Hx].
  - rewrite Nat.eqb_refl. reflexivity.
  - destruct (p_id y =? p_id x) eqn:E.
    + apply Nat.eqb_eq in E. apply negb_true_iff in H1. apply mem_proc_ids_find in H1.
      rewrite E in H1. exfalso. eapply find_proc_none_notin; eauto.
    + apply IH; assumption.
Qed.

(* a flat_map over entities with unique ids, filtered to a key only the entity [c] can produce *)
Lemma on_flat_map_conns k c (f : connc -> list action) l :
  nodup_ids (conn_ids l) = true ->
  (forall x, c_id x <> c -> on k (f x) = []) ->
  on k (flat_map f l) = match find_conn c l with Some x => on k (f x) | None => [] end.
Proof.
  intros Hn Hf. rewrite on_flat_map. induction l as [|x r IH]; simpl; [reflexivity|].
  simpl in Hn. apply andb_prop in Hn. destruct Hn as [H1 H2]. destruct (c_id x =? c) eqn:E.
  - apply Nat.eqb_eq in E. subst c. apply negb_true_iff in H1. apply mem_conn_ids_find in H1.
    rewrite IH by exact H2. rewrite H1. apply app_nil_r.
  - apply Nat.eqb_neq in E. rewrite (Hf x E). simpl. apply IH. exact H2.
Qed.
Lemma on_flat_map_procs k p (f : procc -> list action) l :
  nodup_ids (proc_ids l) = true ->
  (forall x, p_id x <> p -> on k (f x) = []) ->
  on k (flat_map f l) = match find_proc p l with Some x => on k (f x) | None => [] end.
Proof.
  intros Hn Hf. rewrite on_flat_map. induction l as [|x r IH]; simpl; [reflexivity|].
  simpl in Hn. apply andb_prop in Hn. destruct Hn as [H1 H2]. destruct (p_id x =? p) eqn:E.
  - apply Nat.eqb_eq in E. subst p. apply negb_true_iff in H1. apply mem_proc_ids_find in H1.
    rewrite IH by exact H2. rewrite H1. apply app_nil_r.
  - apply Nat.eqb_neq in E. rewrite (Hf x E). simpl. apply IH. exact H2.
Qed.

(* ---------------------------------------------------------------- keys of the pieces of Build *)
Lemma vanished_procs_keys par olds news a : In a (vanished_procs par olds news) ->
  exists q, In q olds /\ a = ADeleteProc par q /\ find_proc (p_id q) news = None.
Proof.
  unfold vanished_procs. intros H. apply in_flat_map in H. destruct H as [q [Hq Ha]].
  destruct (find_proc (p_id q) news) eqn:E; [contradiction|]. destruct Ha as [<-|[]]. eauto.
Qed.

Lemma proc_actions_keys par olds q a : In a (proc_actions par olds q) -> akey a = KR par (p_id q).
Proof.
  unfold proc_actions. destruct (find_proc (p_id q) olds) as [o|] eqn:E.
  - destruct (procc_eqb o q); [intros []|]. intros [<-|[]]. simpl.
    apply find_proc_id in E. destruct E as [E _]. rewrite E. reflexivity.
  - intros [<-|[]]. reflexivity.
Qed.

Definition is_proc_key (k : ekey) : bool := match k with KR _ _ => true | _ => false end.

Lemma on_vanished_other k par olds news :
  (forall p, k <> KR par p) -> on k (vanished_procs par olds news) = [].
Proof.
  intros H. apply on_none. intros a Ha. apply vanished_procs_keys in Ha. destruct Ha as [q [_ [-> _]]].
  simpl. intros E. apply (H (p_id q)). symmetry. exact E.
Qed.

Lemma on_proc_actions_other k par olds l :
  (forall p, k <> KR par p) -> on k (flat_map (proc_actions par olds) l) = [].
Proof.
  intros H. apply on_none. intros a Ha. apply in_flat_map in Ha. destruct Ha as [q [_ Ha]].
  apply proc_actions_keys in Ha. rewrite Ha. intros E. apply (H (p_id q)). symmetry. exact E.
Qed.

(* the processor actions below one parent, for one processor key *)
Lemma on_vanished par p olds news :
  nodup_ids (proc_ids olds) = true ->
  on (KR par p) (vanished_procs par olds news)
  = match find_proc p olds with
    | Some q => match find_proc p news with None => [ADeleteProc par q] | Some _ => [] end
    | None => []
    end.
Proof.
  intros Hn. unfold vanished_procs. rewrite (on_flat_map_procs _ p); [|exact Hn|].
  2:{ intros x Hx. destruct (find_proc (p_id x) news); [reflexivity|]. unfold on. cbn [filter akey].
      rewrite ekey_eqb_neq; [reflexivity|]. intros E. inversion E. contradiction. }
  destruct (find_proc p olds) as [q|] eqn:E; [|reflexivity].
  apply find_proc_id in E. destruct E as [E _]. rewrite E.
  destruct (find_proc p news); [reflexivity|]. unfold on. cbn [filter akey]. rewrite E, ekey_eqb_refl. reflexivity.
Qed.

Lemma on_all k l : (forall a, In a l -> akey a = k) -> on k l = l.
Proof.
  induction l as [|a r IH]; intros H; simpl; [reflexivity|].
  rewrite (H a (or_introl eq_refl)), ekey_eqb_refl. f_equal. apply IH. intros b Hb. apply H. right. exact Hb.
Qed.

Lemma on_proc_actions par p olds l :
  nodup_ids (proc_ids l) = true ->
  on (KR par p) (flat_map (proc_actions par olds) l)
  = match find_proc p l with Some q => proc_actions par olds q | None => [] end.
Proof.
  intros Hn. rewrite (on_flat_map_procs _ p); auto.
  - destruct (find_proc p l) as [q|] eqn:E; [|reflexivity].
    apply find_proc_id in E. destruct E as [E _].
    apply on_all. intros a Ha. apply proc_actions_keys in Ha. rewrite Ha, E. reflexivity.
  - intros x Hx. apply on_none. intros a Ha. apply proc_actions_keys in Ha. rewrite Ha.
    intros E. inversion E. contradiction.
Qed.

(* ---------------------------------------------------------------- Build, key by key *)
Definition old_conns (o : option pipec) : list connc := match o with Some o => pl_conns o | None => [] end.
Definition old_procs (o : option pipec) : list procc := match o with Some o => pl_procs o | None => [] end.
Definition procs_of (cs : list connc) (c : nat) : list procc :=
  match find_conn c cs with Some x => c_procs x | None => [] end.

Definition nodup_cfg (c : pipec) : Prop :=
  nodup_ids (conn_ids (pl_conns c)) = true
  /\ (forall x, In x (pl_conns c) -> nodup_ids (proc_ids (c_procs x)) = true)
  /\ nodup_ids (proc_ids (pl_procs c)) = true.
Definition nodup_old (o : option pipec) : Prop := match o with Some o => nodup_cfg o | None => True end.

Lemma valid_nodup c : valid c = true -> nodup_cfg c.
Proof.
  unfold valid. intros H. repeat (apply andb_prop in H; destruct H as [H ?]).
  split; [assumption|]. split; [|assumption].
  intros x Hx. match goal with Hf : forallb valid_conn _ = true |- _ => rewrite forallb_forall in Hf; specialize (Hf x Hx) end.
  unfold valid_conn in *. repeat match goal with Hc : (_ && _) = true |- _ => apply andb_prop in Hc; destruct Hc end.
  assumption.
Qed.

Definition g_old (s : st) (news : list connc) (c : connc) : list action :=
  match find_conn (c_id c) news with
  | None => ADeleteConn c (saved_state repaired s (c_id c)) :: vanished_procs (Some (c_id c)) (c_procs c) []
  | Some c' => vanished_procs (Some (c_id c)) (c_procs c) (c_procs c')
  end.
Definition pl_action (o : option pipec) (n : pipec) : list action :=
  match o with
  | None => [ACreatePl n]
  | Some o => if pipe_shallow_eqb o n then [] else [AUpdatePl o n]
  end.
Definition conn_head (s : st) (olds : list connc) (c : connc) : list action :=
  match find_conn (c_id c) olds with
  | None => [ACreateConn c]
  | Some o => if Bool.eqb (c_src o) (c_src c)
              then if conn_mutable_eqb o c then [] else [AUpdateConn o c]
              else [ADeleteConn o (saved_state repaired s (c_id o)); ACreateConn c]
  end.

Lemma conn_actions_split s olds c :
  conn_actions repaired s olds c
  = conn_head s olds c ++ flat_map (proc_actions (Some (c_id c)) (procs_of olds (c_id c))) (c_procs c).
Proof.
  unfold conn_actions, conn_head, procs_of. destruct (find_conn (c_id c) olds); reflexivity.
Qed.

Lemma build_shape s o n :
  build repaired s o n
  = rev (flat_map (g_old s (pl_conns n)) (old_conns o) ++ vanished_procs None (old_procs o) (pl_procs n))
    ++ pl_action o n
    ++ flat_map (conn_actions repaired s (old_conns o)) (pl_conns n)
    ++ flat_map (proc_actions None (old_procs o)) (pl_procs n).
Proof.
  unfold build, build_old, build_new, pl_action. destruct o as [o|]; simpl.
  - reflexivity.
  - reflexivity.
Qed.

Lemma conn_head_keys s olds c a : In a (conn_head s olds c) -> akey a = KC (c_id c).
Proof.
  unfold conn_head. destruct (find_conn (c_id c) olds) as [o|] eqn:E.
  - apply find_conn_id in E. destruct E as [E _].
    destruct (Bool.eqb (c_src o) (c_src c)); [destruct (conn_mutable_eqb o c)|]; simpl.
    + intros [].
    + intros [<-|[]]. simpl. congruence.
    + intros [<-|[<-|[]]]; simpl; congruence.
  - intros [<-|[]]. reflexivity.
Qed.

Lemma g_old_keys s news c a : In a (g_old s news c) ->
  akey a = KC (c_id c) \/ exists p, akey a = KR (Some (c_id c)) p.
Proof.
  unfold g_old. destruct (find_conn (c_id c) news).
  - intros H. apply vanished_procs_keys in H. destruct H as [q [_ [-> _]]]. right. eexists. reflexivity.
  - intros [<-|H]; [left; reflexivity|]. apply vanished_procs_keys in H. destruct H as [q [_ [-> _]]].
    right. eexists. reflexivity.
Qed.

Lemma conn_actions_keys s olds c a : In a (conn_actions repaired s olds c) ->
  akey a = KC (c_id c) \/ exists p, akey a = KR (Some (c_id c)) p.
Proof.
  rewrite conn_actions_split. intros H. apply in_app_or in H. destruct H as [H|H].
  - left. eapply conn_head_keys; eauto.
  - right. apply in_flat_map in H. destruct H as [q [_ H]]. apply proc_actions_keys in H. eauto.
Qed.

Lemma pl_action_keys o n a : In a (pl_action o n) -> akey a = KP.
Proof.
  unfold pl_action. destruct o as [o|]; [destruct (pipe_shallow_eqb o n)|]; simpl;
    intros H; try contradiction; destruct H as [<-|[]]; reflexivity.
Qed.

Lemma g_old_other s news x k c :
  c_id x <> c -> (k = KC c \/ exists p, k = KR (Some c) p) -> on k (g_old s news x) = [].
Proof.
  intros Hx Hk. apply on_none. intros a Ha. apply g_old_keys in Ha.
  destruct Ha as [Ha|[q Ha]]; rewrite Ha; destruct Hk as [->|[p ->]]; try discriminate;
    intros E; inversion E; contradiction.
Qed.
Lemma conn_actions_other s olds x k c :
  c_id x <> c -> (k = KC c \/ exists p, k = KR (Some c) p) -> on k (conn_actions repaired s olds x) = [].
Proof.
  intros Hx Hk. apply on_none. intros a Ha. apply conn_actions_keys in Ha.
  destruct Ha as [Ha|[q Ha]]; rewrite Ha; destruct Hk as [->|[p ->]]; try discriminate;
    intros E; inversion E; contradiction.
Qed.

(* the pipeline cell *)
Lemma on_KP s o n : on KP (build repaired s o n) = pl_action o n.
Proof.
  rewrite build_shape. rewrite !on_app, on_rev, on_app.
  rewrite (on_none KP (flat_map (g_old s (pl_conns n)) (old_conns o))).
  2:{ intros a Ha. apply in_flat_map in Ha. destruct Ha as [c [_ Ha]]. apply g_old_keys in Ha.
      destruct Ha as [Ha|[p Ha]]; rewrite Ha; discriminate. }
  rewrite on_vanished_other by (intros p; discriminate).
  rewrite (on_none KP (flat_map (conn_actions repaired s (old_conns o)) (pl_conns n))).
  2:{ intros a Ha. apply in_flat_map in Ha. destruct Ha as [c [_ Ha]]. apply conn_actions_keys in Ha.
      destruct Ha as [Ha|[p Ha]]; rewrite Ha; discriminate. }
  rewrite on_proc_actions_other by (intros p; discriminate).
  simpl. rewrite app_nil_r. apply on_all. apply pl_action_keys.
Qed.

(* a connector cell *)
Lemma on_KC s o n c :
  nodup_ids (conn_ids (old_conns o)) = true -> nodup_ids (conn_ids (pl_conns n)) = true ->
  on (KC c) (build repaired s o n)
  = (match find_conn c (old_conns o) with
     | Some x => match find_conn c (pl_conns n) with
                 | None => [ADeleteConn x (saved_state repaired s (c_id x))]
                 | Some _ => []
                 end
     | None => []
     end)
    ++ (match find_conn c (pl_conns n) with Some x => conn_head s (old_conns o) x | None => [] end).
Proof.
  intros Ho Hn. rewrite build_shape. rewrite !on_app, on_rev, on_app.
  rewrite on_vanished_other by (intros p; discriminate).
  rewrite (on_none (KC c) (pl_action o n)) by (intros a Ha; apply pl_action_keys in Ha; rewrite Ha; discriminate).
  rewrite on_proc_actions_other by (intros p; discriminate).
  rewrite !app_nil_r. simpl. f_equal.
  - rewrite (on_flat_map_conns _ c); [|exact Ho|intros x Hx; apply (g_old_other _ _ _ _ c); auto].
    destruct (find_conn c (old_conns o)) as [x|] eqn:E; [|reflexivity].
    apply find_conn_id in E. destruct E as [E _]. unfold g_old. rewrite E.
    destruct (find_conn c (pl_conns n)).
    + rewrite on_vanished_other by (intros p; discriminate). reflexivity.
    + unfold on at 1. cbn [filter akey]. rewrite E, ekey_eqb_refl.
      fold (on (KC c) (vanished_procs (Some c) (c_procs x) [])).
      rewrite on_vanished_other by (intros p; discriminate). reflexivity.
  - rewrite (on_flat_map_conns _ c); [|exact Hn|intros x Hx; apply (conn_actions_other _ _ _ _ c); auto].
    destruct (find_conn c (pl_conns n)) as [x|] eqn:E; [|reflexivity].
    apply find_conn_id in E. destruct E as [E _].
    rewrite conn_actions_split, on_app. rewrite on_proc_actions_other by (intros p; discriminate).
    rewrite app_nil_r. apply on_all. intros a Ha. apply conn_head_keys in Ha. congruence.
Qed.

(* a processor cell: [par] its parent, [ops] / [nps] the processors below that parent before / after *)
Definition proc_key_actions (par : option nat) (p : nat) (ops nps : list procc) : list action :=
  (match find_proc p ops with
   | Some q => match find_proc p nps with None => [ADeleteProc par q] | Some _ => [] end
   | None => []
   end)
  ++ (match find_proc p nps with Some q => proc_actions par ops q | None => [] end).

Lemma on_KR_pipeline s o n p :
  nodup_ids (proc_ids (old_procs o)) = true -> nodup_ids (proc_ids (pl_procs n)) = true ->
  on (KR None p) (build repaired s o n) = proc_key_actions None p (old_procs o) (pl_procs n).
Proof.
  intros Ho Hn. rewrite build_shape. rewrite !on_app, on_rev, on_app.
  rewrite (on_none (KR None p) (flat_map (g_old s (pl_conns n)) (old_conns o))).
  2:{ intros a Ha. apply in_flat_map in Ha. destruct Ha as [c [_ Ha]]. apply g_old_keys in Ha.
      destruct Ha as [Ha|[q Ha]]; rewrite Ha; discriminate. }
  rewrite (on_none (KR None p) (pl_action o n)) by (intros a Ha; apply pl_action_keys in Ha; rewrite Ha; discriminate).
  rewrite (on_none (KR None p) (flat_map (conn_actions repaired s (old_conns o)) (pl_conns n))).
  2:{ intros a Ha. apply in_flat_map in Ha. destruct Ha as [c [_ Ha]]. apply conn_actions_keys in Ha.
      destruct Ha as [Ha|[q Ha]]; rewrite Ha; discriminate. }
  simpl. rewrite on_vanished by exact Ho. rewrite on_proc_actions by exact Hn.
  unfold proc_key_actions. f_equal.
  destruct (find_proc p (old_procs o)); [destruct (find_proc p (pl_procs n))|]; reflexivity.
Qed.

Lemma nodup_procs_of cs c :
  (forall x, In x cs -> nodup_ids (proc_ids (c_procs x)) = true) -> nodup_ids (proc_ids (procs_of cs c)) = true.
Proof.
  intros H. unfold procs_of. destruct (find_conn c cs) as [x|] eqn:E; [|reflexivity].
  apply find_conn_id in E. apply H. tauto.
Qed.

Lemma on_KR_conn s o n c p :
  nodup_ids (conn_ids (old_conns o)) = true -> nodup_ids (conn_ids (pl_conns n)) = true ->
  (forall x, In x (old_conns o) -> nodup_ids (proc_ids (c_procs x)) = true) ->
  (forall x, In x (pl_conns n) -> nodup_ids (proc_ids (c_procs x)) = true) ->
  on (KR (Some c) p) (build repaired s o n)
  = proc_key_actions (Some c) p (procs_of (old_conns o) c) (procs_of (pl_conns n) c).
Proof.
  intros Ho Hn Hop Hnp. rewrite build_shape. rewrite !on_app, on_rev, on_app.
  rewrite on_vanished_other by (intros q; discriminate).
  rewrite (on_none (KR (Some c) p) (pl_action o n)) by (intros a Ha; apply pl_action_keys in Ha; rewrite Ha; discriminate).
  rewrite on_proc_actions_other by (intros q; discriminate).
  rewrite !app_nil_r. simpl. unfold proc_key_actions. f_equal.
  - rewrite (on_flat_map_conns _ c); [|exact Ho|intros x Hx; apply (g_old_other _ _ _ _ c); eauto].
    unfold procs_of. destruct (find_conn c (old_conns o)) as [x|] eqn:E; [|reflexivity].
    pose proof (find_conn_id _ _ _ E) as [Ex Hx]. unfold g_old. rewrite Ex.
    destruct (find_conn c (pl_conns n)) as [x'|].
    + rewrite on_vanished by (apply Hop; exact Hx).
      destruct (find_proc p (c_procs x)); [destruct (find_proc p (c_procs x'))|]; reflexivity.
    + unfold on at 1. cbn [filter akey]. rewrite (ekey_eqb_neq (KC (c_id x))) by discriminate.
      fold (on (KR (Some c) p) (vanished_procs (Some c) (c_procs x) [])).
      rewrite on_vanished by (apply Hop; exact Hx). simpl.
      destruct (find_proc p (c_procs x)); reflexivity.
  - rewrite (on_flat_map_conns _ c); [|exact Hn|intros x Hx; apply (conn_actions_other _ _ _ _ c); eauto].
    unfold procs_of at 1. destruct (find_conn c (pl_conns n)) as [x|] eqn:E; [|reflexivity].
    pose proof (find_conn_id _ _ _ E) as [Ex Hx].
    rewrite conn_actions_split, on_app.
    rewrite (on_none _ (conn_head s (old_conns o) x)) by (intros a Ha; apply conn_head_keys in Ha; rewrite Ha; discriminate).
    simpl. rewrite Ex. apply on_proc_actions. apply Hnp. exact Hx.
Qed.
