(* Executable correspondence + property monitor for the C16 case files. *)
From Verif Require Import Base.CaseCheck Prov.Apply.

Definition rc_eqb (a b : rc) : bool :=
  match a, b with RcOk, RcOk | RcNotLive, RcNotLive | RcErr, RcErr => true | _, _ => false end.
Definition ev_eqb (a b : ev) : bool :=
  match a, b with
  | EImport t o, EImport t' o' => cfgv_eqb t t' && Bool.eqb o o'
  | EStop o, EStop o' => Bool.eqb o o'
  | EStart o, EStart o' => Bool.eqb o o'
  | EReconf k r, EReconf k' r' => (k =? k') && rc_eqb r r'
  | _, _ => false
  end.
Definition mode_eqb (a b : mode) : bool :=
  match a, b with
  | MNone, MNone | MProvisioned, MProvisioned | MInPlace, MInPlace | MRestart, MRestart => true
  | _, _ => false
  end.
Definition result_eqb (a b : result) : bool :=
  match a, b with
  | ROk m, ROk m' => mode_eqb m m'
  | RStale, RStale | RUnauth, RUnauth | RErr, RErr => true
  | _, _ => false
  end.

(* observed: the ordered calls, the result class, and what the harness sees afterwards: is the
   pipeline running, and is the stored config the old one (0), the new one (1) or neither (2) *)
Inductive acase :=
| ADec (fx : bool) (i : ainp) (events : list ev) (r : result) (running_after : bool) (cfg_after : nat)
| ALock (same_id : bool) (log : list nat) (overlap : bool).

Definition cfg_code (c : cfgv) : nat := match c with COld => 0 | CNew => 1 end.

(* the theorems' conclusions, on the observed call list *)
Fixpoint imports_drained (live : bool) (s : astate) (l : list ev) : bool :=
  match l with
  | [] => true
  | e :: r =>
      (match e with
       | EImport _ _ => negb (as_running s) || live     (* stopped first, or applied in place *)
       | _ => true
       end) && imports_drained live (ev_step s e) r
  end.
Fixpoint start_after_commit (prev : option ev) (l : list ev) : bool :=
  match l with
  | [] => true
  | e :: r =>
      (match e with
       | EStart _ => match prev with Some (EImport CNew true) => true | _ => false end
       | _ => true
       end) && start_after_commit (Some e) r
  end.

Definition mon_dec (i : ainp) (events : list ev) (r : result) (running_after : bool) (cfg_after : nat) : bool :=
  let s0 := init i in
  let s := run_events s0 events in
  (* a stale plan mutates nothing *)
  (if a_hash_ok i then true else match events with [] => true | _ => false end)
  (* a running pipeline is not touched without authorisation *)
  && (if running_of i && negb (a_auth i) then match events with [] => true | _ => false end else true)
  (* an import into a running pipeline only after a successful StopAndWait, or in place *)
  && imports_drained (a_live i) s0 events
  && start_after_commit None events
  (* the stored config is one of the two, whole *)
  && (cfg_after <? 2)
  (* a refused or failed apply (at most one failure on the way) leaves everything untouched, or
     the pipeline stopped *)
  && (if is_error r && (failures events <=? 1)
      then consistent_after_failure (length (a_swaps i)) s0 s && (cfg_after =? cfg_code (as_cfg s)) && Bool.eqb running_after (as_running s)
      else true).

Definition chk (c : acase) : nat :=
  match c with
  | ADec fx i events r running_after cfg_after =>
      let '(me, mr) := apply fx i in
      let s := run_events (init i) me in
      let agree := list_eqb ev_eqb me events && result_eqb mr r
                   && Bool.eqb (as_running s) running_after && (cfg_code (as_cfg s) =? cfg_after) in
      let ok := mon_dec i events r running_after cfg_after in
      code agree ok
      + (if ok then 0
         else let '(fe, fr) := apply true i in
              let fs := run_events (init i) fe in
              if mon_dec i fe fr (as_running fs) (cfg_code (as_cfg fs)) then 4 else 0)
  | ALock same_id log overlap =>
      (* applies to one id never interleave; applies to different ids are not serialised *)
      code (Bool.eqb overlap (negb same_id)) (if same_id then serial log else true)
  end.
