(* Executable correspondence + property monitor for the C16 case files. *)
From Verif Require Import Base.CaseCheck Prov.Apply.

Definition rc_eqb (a b : rc) : bool :=
  match a, b with RcOk, RcOk | RcNotLive, RcNotLive | RcErr, RcErr => true | _, _ => false end.
Definition ev_eqb (a b : ev) : bool :=
  match a, b with
  | EImport t o, EImport t' o' => cfgv_eqb t t' && Bool.eqb o o'
  | EStop o, EStop o' => Bool.eqb o o'
  | EStart o, EStart o' => Bool.eqb o o'
  | EReconf k r, EReconf k' r' => (k =? k') && rc_eqb r r'
  | _, _ => false
  end.
Definition mode_eqb (a b : mode) : bool :=
  match a, b with
  | MNone, MNone | MProvisioned, MProvisioned | MInPlace, MInPlace | MRestart, MRestart => true
  | _, _ => false
  end.
Definition result_eqb (a b : result) : bool :=
  match a, b with
  | ROk m, ROk m' => mode_eqb m m'
  | RStale, RStale | RUnauth, RUnauth | RErr, RErr => true
  | _, _ => false
  end.

(* observed: the ordered calls, the result class, and what the harness sees afterwards: is the
   pipeline running, and is the stored config the old one (0), the new one (1) or neither (2) *)
(* end-to-end log of a pipeline run by the REAL lifecycle service while a plan is applied
   (harness/lib/applyx): what the fake plugins, the store and the caller saw, in real-time order *)
Inductive xev :=
| XRead (k : nat)                 (* the source plugin handed record k to the engine *)
| XUnread (k : nat)               (* ... but the hand-off failed: k was not read *)
| XWrite (k : nat)                (* the destination plugin received (and confirms) record k *)
| XAck (k : nat)                  (* the source plugin received the ack of record k *)
| XCommit (p : nat)               (* a store commit; p = stored source position afterwards *)
| XImport (p : nat) (ok : bool)   (* a transactionalImport of the apply ended; p as above *)
| XOpenSrc (p : nat)              (* the source plugin was opened at position p *)
| XTdSrc                          (* the source plugin was torn down *)
| XPOpen (inst : nat)             (* a processor instance was opened *)
| XApplyCall
| XApplyRet (r : result)
| XEnd (p : nat).                 (* after the final StopAndWait; p = stored source position *)

Inductive acase :=
| ADec (fx : bool) (i : ainp) (events : list ev) (r : result) (running_after : bool) (cfg_after : nat)
| ALock (same_id : bool) (log : list nat) (overlap : bool)
| AE2E (live auth hash_ok : bool) (total : nat) (log : list xev).

Definition cfg_code (c : cfgv) : nat := match c with COld => 0 | CNew => 1 end.

(* the theorems' conclusions, on the observed call list *)
Fixpoint imports_drained (live : bool) (s : astate) (l : list ev) : bool :=
  match l with
  | [] => true
  | e :: r =>
      (match e with
       | EImport _ _ => negb (as_running s) || live     (* stopped first, or applied in place *)
       | _ => true
       end) && imports_drained live (ev_step s e) r
  end.
Fixpoint start_after_commit (prev : option ev) (l : list ev) : bool :=
  match l with
  | [] => true
  | e :: r =>
      (match e with
       | EStart _ => match prev with Some (EImport CNew true) => true | _ => false end
       | _ => true
       end) && start_after_commit (Some e) r
  end.

Definition mon_dec (i : ainp) (events : list ev) (r : result) (running_after : bool) (cfg_after : nat) : bool :=
  let s0 := init i in
  let s := run_events s0 events in
  (* a stale plan mutates nothing *)
  (if a_hash_ok i then true else match events with [] => true | _ => false end)
  (* a running pipeline is not touched without authorisation *)
  && (if running_of i && negb (a_auth i) then match events with [] => true | _ => false end else true)
  (* an import into a running pipeline only after a successful StopAndWait, or in place *)
  && imports_drained (a_live i) s0 events
  && start_after_commit None events
  (* the stored config is one of the two, whole *)
  && (cfg_after <? 2)
  (* a refused or failed apply (at most one failure on the way) leaves everything untouched, or
     the pipeline stopped *)
  && (if is_error r && (failures events <=? 1)
      then consistent_after_failure (length (a_swaps i)) s0 s && (cfg_after =? cfg_code (as_cfg s)) && Bool.eqb running_after (as_running s)
      else true).

(* ---------------------------------------------------------------- the end-to-end monitor *)
Record xst := mkX {
  x_running : bool;       (* a source plugin is open *)
  x_next : nat;           (* the record the source has to hand out next *)
  x_maxread : nat;        (* highest record handed out so far *)
  x_acked : nat;          (* highest record whose ack reached the source plugin *)
  x_durable : nat;        (* stored source position *)
  x_written : list nat;
  x_inapply : bool;
  x_touched : bool;       (* a teardown, an open or an import happened inside the apply *)
  x_ok : bool
}.
Definition x_init : xst := mkX false 1 0 0 0 [] false false true.

Definition x_fail (s : xst) : xst :=
  mkX (x_running s) (x_next s) (x_maxread s) (x_acked s) (x_durable s) (x_written s) (x_inapply s) (x_touched s) false.
Definition x_check (b : bool) (s : xst) : xst := if b then s else x_fail s.

Definition x_step (live : bool) (s : xst) (e : xev) : xst :=
  match e with
  | XOpenSrc p =>
      (* the (re)started source resumes from the durable position *)
      x_check (p =? x_durable s)
        (mkX true (S p) (x_maxread s) (x_acked s) (x_durable s) (x_written s) (x_inapply s) (x_inapply s || x_touched s) (x_ok s))
  | XRead k =>
      (* no record is skipped: the next record read is the successor of the last one (of the durable
         position, after a restart) *)
      x_check (x_running s && (k =? x_next s))
        (mkX (x_running s) (S k) (Nat.max k (x_maxread s)) (x_acked s) (x_durable s) (x_written s) (x_inapply s) (x_touched s) (x_ok s))
  | XUnread k =>
      mkX (x_running s) (Nat.min k (x_next s)) (Nat.min (k - 1) (x_maxread s)) (x_acked s) (x_durable s) (x_written s)
          (x_inapply s) (x_touched s) (x_ok s)
  | XWrite k =>
      x_check (k <=? x_maxread s)
        (mkX (x_running s) (x_next s) (x_maxread s) (x_acked s) (x_durable s) (k :: x_written s) (x_inapply s) (x_touched s) (x_ok s))
  | XAck k =>
      x_check (existsb (Nat.eqb k) (x_written s))
        (mkX (x_running s) (x_next s) (x_maxread s) (Nat.max k (x_acked s)) (x_durable s) (x_written s) (x_inapply s) (x_touched s) (x_ok s))
  | XCommit p =>
      (* only the position of a delivered record is stored, and it never goes back *)
      x_check (((p =? 0) || existsb (Nat.eqb p) (x_written s)) && (x_durable s <=? p))
        (mkX (x_running s) (x_next s) (x_maxread s) (x_acked s) p (x_written s) (x_inapply s) (x_touched s) (x_ok s))
  | XImport p _ =>
      (* the import happens inside the apply, keeps the stored position, and - unless the whole diff
         is applied in place - only after the drain completed: source torn down, every record read
         acked, its position stored *)
      x_check (x_inapply s && (p =? x_durable s)
               && (live || (negb (x_running s) && (x_acked s =? x_maxread s) && (x_durable s =? x_maxread s))))
        (mkX (x_running s) (x_next s) (x_maxread s) (x_acked s) (x_durable s) (x_written s) (x_inapply s) true (x_ok s))
  | XTdSrc =>
      mkX false (x_next s) (x_maxread s) (x_acked s) (x_durable s) (x_written s) (x_inapply s) (x_inapply s || x_touched s) (x_ok s)
  | XPOpen _ => s
  | XApplyCall =>
      mkX (x_running s) (x_next s) (x_maxread s) (x_acked s) (x_durable s) (x_written s) true false (x_ok s)
  | XApplyRet r =>
      (* a refused or failed apply touched nothing: the records keep flowing *)
      x_check (if is_error r then negb (x_touched s) else true)
        (mkX (x_running s) (x_next s) (x_maxread s) (x_acked s) (x_durable s) (x_written s) false false (x_ok s))
  | XEnd p =>
      s
  end.

Fixpoint all_written (n : nat) (l : list nat) : bool :=
  match n with 0 => true | S m => existsb (Nat.eqb n) l && all_written m l end.

Definition mon_e2e (live : bool) (total : nat) (log : list xev) : bool :=
  let s := fold_left (x_step live) log x_init in
  x_ok s
  (* nothing lost: every released record was read, delivered, acked, and its position is stored *)
  && (x_maxread s =? total) && all_written total (x_written s) && (x_acked s =? total) && (x_durable s =? total)
  && match last log XApplyCall with XEnd p => p =? total | _ => false end.

(* the calls the apply made, read off the log between ApplyCall and ApplyRet (Start returns before
   the plugins are opened, so the restart itself shows later: XOpenSrc is checked by the monitor) *)
Fixpoint window (live inw tdseen : bool) (log : list xev) : list ev * option result :=
  match log with
  | [] => ([], None)
  | XApplyCall :: r => window live true false r
  | XApplyRet res :: _ => ([], Some res)
  | XTdSrc :: r => if inw then let '(e, x) := window live inw true r in (EStop true :: e, x) else window live inw tdseen r
  | XImport _ ok :: r => if inw then let '(e, x) := window live inw tdseen r in (EImport CNew ok :: e, x) else window live inw tdseen r
  | XPOpen _ :: r => if live && inw && negb tdseen then let '(e, x) := window live inw tdseen r in (EReconf 0 RcOk :: e, x)
                     else window live inw tdseen r
  | _ :: r => window live inw tdseen r
  end.
Definition no_start (l : list ev) : list ev := filter (fun e => match e with EStart _ => false | _ => true end) l.

Definition chk (c : acase) : nat :=
  match c with
  | ADec fx i events r running_after cfg_after =>
      let '(me, mr) := apply fx i in
      let s := run_events (init i) me in
      let agree := list_eqb ev_eqb me events && result_eqb mr r
                   && Bool.eqb (as_running s) running_after && (cfg_code (as_cfg s) =? cfg_after) in
      let ok := mon_dec i events r running_after cfg_after in
      code agree ok
      + (if ok then 0
         else let '(fe, fr) := apply true i in
              let fs := run_events (init i) fe in
              if mon_dec i fe fr (as_running fs) (cfg_code (as_cfg fs)) then 4 else 0)
  | AE2E live auth hash_ok total log =>
      let i := mkInp hash_ok false true true auth live true [RcOk] true [true] true true true in
      let '(me, mr) := apply false i in
      let '(oe, ores) := window live false false log in
      code (list_eqb ev_eqb (no_start me) oe && match ores with Some r => result_eqb mr r | None => false end)
           (mon_e2e live total log)
  | ALock same_id log overlap =>
      (* applies to one id never interleave; applies to different ids are not serialised *)
      code (Bool.eqb overlap (negb same_id)) (if same_id then serial log else true)
  end.
