(* Model of provisioning.Service.Init over a DIRECTORY of pipeline configs (C15, directory family).

   Go code transcribed here (definitions only; proofs are in InitProofs.v):
     service.go  Init: findDuplicateIDs / deleteIndexes (every config of a duplicated id is skipped,
                       the id still goes to the keep-list), the "provisioned by the API" filter
                       (such configs are skipped and NOT put on the keep-list), the provisioning loop
                       (keep-list first, then provisionPipeline, errors collected), deleteOldPipelines
                 provisionPipeline: config.Validate, importPipeline inside one transaction
                 deleteOldPipelines / Delete: Export, Build(old, empty config), executeActions
                       (no rollback), failures only logged
   on top of the single-pipeline import model of Import.v.

   A world maps a pipeline id to the state of that pipeline's entities (config.Enrich prefixes
   every connector / processor id with the pipeline id, so the entity sets of two pipelines are
   disjoint) and to its ProvisionedBy tag.  The sweep is defined pointwise: Delete(id) only
   touches entities of [id], so the (random) map order of pipelineService.List does not matter.
   Pipelines are never running (status "stopped", never SystemStopped): the status switch at the
   end of provisionPipeline does nothing. *)
From Verif Require Import Prov.Import.

Record went := mkW { w_st : st; w_cfg : bool (* ProvisionedBy = config *) }.
Definition world := nat -> went.
Definition empty_world : world := fun _ => mkW empty_st false.
Definition wset (w : world) (id : nat) (e : went) : world := fun j => if j =? id then e else w j.
Definition has_pl (s : st) : bool := match s_pl s with Some _ => true | None => false end.
Definition exists_pl (w : world) (id : nat) : bool := has_pl (w_st (w id)).

(* one pipeline config found in the directory *)
Record dentry := mkD {
  de_id : nat;
  de_cfg : pipec;
  de_fault : fault;      (* the store write of THIS pipeline's import that fails (harness injection) *)
  de_bad : bool          (* the config is rejected by config.Validate (before anything is done) *)
}.
Definition ids_of (dir : list dentry) : list nat := map de_id dir.
Fixpoint count (x : nat) (l : list nat) : nat :=
  match l with [] => 0 | y :: r => (if x =? y then 1 else 0) + count x r end.
Definition dup (dir : list dentry) (id : nat) : bool := 1 <? count id (ids_of dir).
Definition api_owned (w : world) (id : nat) : bool := exists_pl w id && negb (w_cfg (w id)).

(* the configs that reach the provisioning loop, in directory order *)
Definition todo (w : world) (dir : list dentry) : list dentry :=
  filter (fun e => negb (dup dir (de_id e)) && negb (api_owned w (de_id e))) dir.
(* allPls: the ids of duplicated configs and of every config that reaches the loop *)
Definition keep_ids (w : world) (dir : list dentry) : list nat :=
  filter (dup dir) (ids_of dir) ++ ids_of (todo w dir).

(* provisionPipeline *)
Definition provision1 (fl : flags) (x : went) (e : dentry) : went * bool * list sop :=
  if de_bad e then (x, false, [])
  else let '(s', oc, _, t) := import fl (w_st x) (de_cfg e) (de_fault e) in
       (mkW s' (if has_pl (w_st x) then w_cfg x else true), outcome_eqb oc OOk, t).
Definition provision (fl : flags) (w : world) (e : dentry) : world * bool * list sop :=
  let '(x', ok, t) := provision1 fl (w (de_id e)) e in (wset w (de_id e) x', ok, t).
Fixpoint provision_all (fl : flags) (w : world) (l : list dentry) : world * list (nat * bool * list sop) :=
  match l with
  | [] => (w, [])
  | e :: r => let '(w1, ok, t) := provision fl w e in
              let '(w2, res) := provision_all fl w1 r in (w2, (de_id e, ok, t) :: res)
  end.

(* Service.Delete: Build(Export(id), config.Pipeline{}) = the delete actions of every connector and
   processor, innermost first, then deletePipelineAction (= createPipelineAction.Rollback =
   pipelineService.Delete); executeActions stops at the first failure, nothing is rolled back *)
Definition empty_cfg : pipec := mkPipe 0 0 (mkDlq 0 0 0 0) [] [].
Definition delete_pl (fl : flags) (s : st) : st * bool * list sop :=
  match export fl s with
  | EOk o =>
      let '(s1, _, ok, _, t1) := exec_do fl (build_old fl s (Some o) empty_cfg) s None [] in
      if ok then let '(v, ok2, _, t2) := pl_delete (s_pl s1) None in (set s1 KP (CP v), ok2, t1 ++ t2)
      else (s1, false, t1)
  | _ => (s, false, [])
  end.

(* deleteOldPipelines: which pipelines are handed to Delete *)
Definition swept1 (keep : list nat) (x : went) (id : nat) : bool :=
  has_pl (w_st x) && w_cfg x && negb (mem id keep).
Definition swept (keep : list nat) (w : world) (id : nat) : bool := swept1 keep (w id) id.
Definition sweep (fl : flags) (keep : list nat) (w : world) : world := fun id =>
  let x := w id in
  if swept1 keep x id then mkW (fst (fst (delete_pl fl (w_st x)))) (w_cfg x) else x.

Definition init_err (w : world) (dir : list dentry) (res : list (nat * bool * list sop)) : bool :=
  existsb (dup dir) (ids_of dir)
  || existsb (fun e => negb (dup dir (de_id e)) && api_owned w (de_id e)) dir
  || existsb (fun r => negb (snd (fst r))) res.

Definition init (fl : flags) (w : world) (dir : list dentry) : world * bool :=
  let '(w1, res) := provision_all fl w (todo w dir) in
  (sweep fl (keep_ids w dir) w1, init_err w dir res).

(* the store writes Init made for pipeline [id]: its import (if any), then its deletion (if any) *)
Definition init_trace (fl : flags) (w : world) (dir : list dentry) (id : nat) : list sop :=
  let '(w1, res) := provision_all fl w (todo w dir) in
  flat_map (fun r => if fst (fst r) =? id then snd r else []) res
  ++ (if swept (keep_ids w dir) w1 id then snd (delete_pl fl (w_st (w1 id))) else []).

(* restart with the same directory and no injected failure *)
Definition clear_faults (dir : list dentry) : list dentry :=
  map (fun e => mkD (de_id e) (de_cfg e) None (de_bad e)) dir.

(* in the directory at all (duplicated, API-owned, invalid or failing: all count) *)
Definition in_dir (dir : list dentry) (id : nat) : bool := mem id (ids_of dir).
(* a config-provisioned pipeline whose config vanished from the directory *)
Definition vanished (w : world) (dir : list dentry) (id : nat) : bool :=
  exists_pl w id && w_cfg (w id) && negb (in_dir dir id).
