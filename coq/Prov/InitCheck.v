(* Executable correspondence + property monitor for the DIRECTORY family of C15: rounds of
   provisioning.Service.Init over a directory of several pipeline configs, on one set of real
   services.  A case: pipelines created through the API beforehand, then rounds; a round is the
   directory content (per config: an optional injected store failure of that pipeline's import, or
   a config that fails validation) and the connector positions stored afterwards.  The harness
   observes, before the first round and after every round, every pipeline of the id pool. *)
From Verif Require Import Base.CaseCheck Prov.Import Prov.Check Prov.Init.

Definition pl_pool : list nat := [1; 2; 3; 4].

Record pobs := mkPObs {
  po_export : expres;                      (* Export(id) *)
  po_states : list (nat * option nat);     (* State of every connector of the pipeline *)
  po_cfg : bool;                           (* the pipeline exists and ProvisionedBy = config *)
  po_inst : list nat * list pkey;          (* connector / processor instances under the pipeline's id prefix *)
  po_trace : list sop                      (* store writes under the pipeline's id prefix during Init *)
}.
Record robs := mkRObs {
  ro_states_before : list (list (nat * option nat));  (* per pipeline of the pool: connector States just before Init *)
  ro_err : bool;                           (* Init returned an error *)
  ro_pls : list pobs;                      (* per pipeline of the pool, afterwards *)
  ro_re_err : bool;                        (* Init once more (only when the first returned nil) *)
  ro_re_ops : nat                          (* ... and the number of store writes that made *)
}.
Record round := mkRound {
  r_dir : list dentry;
  r_setstates : list (nat * (nat * nat))   (* pipeline, connector, position token *)
}.

Definition pobs_eqb (a b : pobs) : bool :=
  expres_eqb (po_export a) (po_export b) && list_eqb cstate_eqb (po_states a) (po_states b)
  && Bool.eqb (po_cfg a) (po_cfg b) && inst_eqb (po_inst a) (po_inst b)
  && list_eqb sop_eqb (po_trace a) (po_trace b).
Definition robs_eqb (a b : robs) : bool :=
  list_eqb (list_eqb cstate_eqb) (ro_states_before a) (ro_states_before b)
  && Bool.eqb (ro_err a) (ro_err b) && list_eqb pobs_eqb (ro_pls a) (ro_pls b)
  && Bool.eqb (ro_re_err a) (ro_re_err b) && (ro_re_ops a =? ro_re_ops b).

(* ---------------------------------------------------------------- the model's run *)
Definition observe_pl (fl : flags) (w : world) (tr : nat -> list sop) (id : nat) : pobs :=
  let s := w_st (w id) in
  mkPObs (export fl s) (states_of s) (exists_pl w id && w_cfg (w id)) (instances s) (tr id).
Definition observe (fl : flags) (w : world) (tr : nat -> list sop) : list pobs :=
  map (observe_pl fl w tr) pl_pool.

Definition set_state_w (w : world) (x : nat * (nat * nat)) : world :=
  wset w (fst x) (mkW (set_state1 (w_st (w (fst x))) (snd x)) (w_cfg (w (fst x)))).

(* the same world, tabulated on the pool (evaluation only: worlds are chains of closures) *)
Fixpoint lookup_w (id : nat) (l : list (nat * went)) : option went :=
  match l with [] => None | (i, x) :: r => if i =? id then Some x else lookup_w id r end.
Definition freeze (w : world) : world :=
  let l := map (fun id => (id, w id)) pl_pool in
  fun id => match lookup_w id l with Some x => x | None => w id end.

Definition run_round (fl : flags) (w : world) (r : round) : world * robs :=
  let w := freeze w in
  let dir := r_dir r in
  let '(w1, err) := init fl w dir in
  let w1 := freeze w1 in
  let obs := observe fl w1 (init_trace fl w dir) in
  let dir2 := clear_faults dir in
  let '(w2, rerr, rops) :=
    if err then (w1, false, 0)
    else let '(w2, e2) := init fl w1 dir2 in
         (freeze w2, e2, length (flat_map (init_trace fl w1 dir2) pl_pool)) in
  (fold_left set_state_w (r_setstates r) w2,
   mkRObs (map (fun id => states_of (w_st (w id))) pl_pool) err obs rerr rops).

Fixpoint run_rounds (fl : flags) (w : world) (rs : list round) : list robs :=
  match rs with
  | [] => []
  | r :: q => let '(w', o) := run_round fl w r in o :: run_rounds fl w' q
  end.

(* pipelines created through the API before the first round *)
Definition api_setup (fl : flags) (api : list (nat * pipec)) : world :=
  fold_left (fun w x => wset w (fst x) (mkW (fst (fst (fst (import fl (w_st (w (fst x))) (snd x) None)))) false))
            api empty_world.

(* ---------------------------------------------------------------- the property monitor *)
Fixpoint find_entry (id : nat) (dir : list dentry) : option dentry :=
  match dir with [] => None | e :: r => if de_id e =? id then Some e else find_entry id r end.
Definition exp_exists (e : expres) : bool := match e with ENone => false | _ => true end.
Definition inst_empty (i : list nat * list pkey) : bool :=
  match i with ([], []) => true | _ => false end.
Definition same_pl (sb : list (nat * option nat)) (p a : pobs) : bool :=
  expres_eqb (po_export a) (po_export p) && list_eqb cstate_eqb (po_states a) sb
  && Bool.eqb (po_cfg a) (po_cfg p) && inst_eqb (po_inst a) (po_inst p).
Definition clean_entry (e : dentry) : bool :=
  valid (de_cfg e) && negb (de_bad e) && match de_fault e with None => true | Some _ => false end.

(* [p]: the pipeline before Init ([sb]: its connector States just before), [a]: afterwards.
   Claims are made only from a state an import can legitimately start from. *)
Definition mon_pl (dir : list dentry) (err : bool) (id : nat) (sb : list (nat * option nat)) (p a : pobs) : bool :=
  if negb (wf_exp (po_export p)) then true
  else match find_entry id dir with
       | None =>
           (* not in the directory: deleted iff it was provisioned by a config; untouched otherwise *)
           if po_cfg p then negb (exp_exists (po_export a)) && inst_empty (po_inst a) && negb (po_cfg a)
           else same_pl sb p a
       | Some e =>
           if dup dir id || (exp_exists (po_export p) && negb (po_cfg p))
           then (* duplicated id, or owned by the API: skipped, reported, untouched *)
                same_pl sb p a && err
           else
             let cfg := de_cfg e in
             (* converged to the config of the directory *)
             (* (a config the services should refuse - not [valid] - may still be accepted, e.g. an
                existing processor updated to an unknown plugin: then it is what is stored) *)
             let conv := negb (de_bad e)
                         && expres_eqb (po_export a) (EOk cfg) && po_cfg a
                         && (if valid cfg
                             then forallb (fun c => mem c (conn_ids (pl_conns cfg))) (fst (po_inst a))
                                  && forallb (fun k => memk k (cfg_proc_keys cfg)) (snd (po_inst a))
                             else true) in
             (* or: the import failed, is reported, and the previous pipeline is fully retained *)
             let kept := err && expres_eqb (po_export a) (po_export p) && Bool.eqb (po_cfg a) (po_cfg p)
                         && forallb (fun c => mem c (fst (po_inst p))) (fst (po_inst a))
                         && forallb (fun k => memk k (snd (po_inst p))) (snd (po_inst a)) in
             (conv || kept)
             && positions_kept (conns_of (po_export p)) (conns_of (po_export a)) sb (po_states a)
             && (if clean_entry e then conv else true)
       end.

Fixpoint mon_pls (dir : list dentry) (err : bool) (ids : list nat) (sbs : list (list (nat * option nat)))
                 (ps qs : list pobs) : bool :=
  match ids, sbs, ps, qs with
  | [], [], [], [] => true
  | id :: r, sb :: sbs', p :: ps', a :: qs' => mon_pl dir err id sb p a && mon_pls dir err r sbs' ps' qs'
  | _, _, _, _ => false
  end.

Definition all_clean (prev : list pobs) (dir : list dentry) : bool :=
  forallb clean_entry dir && nodup_ids (ids_of dir)
  && forallb (fun p => wf_exp (po_export p) && (negb (exp_exists (po_export p)) || po_cfg p)) prev.

Definition mon_round (prev : list pobs) (r : round) (o : robs) : bool :=
  mon_pls (r_dir r) (ro_err o) pl_pool (ro_states_before o) prev (ro_pls o)
  && (if all_clean prev (r_dir r) then negb (ro_err o) else true)
  (* restart with the same directory: nothing to do *)
  && (if ro_err o then true else negb (ro_re_err o) && (ro_re_ops o =? 0)).

Fixpoint mon_rounds (prev : list pobs) (rs : list round) (os : list robs) : bool :=
  match rs, os with
  | [], [] => true
  | r :: q, o :: p => mon_round prev r o && mon_rounds (ro_pls o) q p
  | _, _ => false
  end.

(* ---------------------------------------------------------------- cases *)
Inductive dcase :=
| Imp (c : icase)
| Dir (fl : flags) (api : list (nat * pipec)) (rounds : list round) (observed0 : list pobs) (observed : list robs).

Fixpoint first_fix_dir (fl : flags) (api : list (nat * pipec)) (rs : list round) (ms : list nat) : nat :=
  match ms with
  | [] => 0
  | m :: r =>
      let fl' := with_fix fl m in
      let w0 := api_setup fl' api in
      if mon_rounds (observe fl' w0 (fun _ => [])) rs (run_rounds fl' w0 rs) then m else first_fix_dir fl api rs r
  end.

Definition chkd (c : dcase) : nat :=
  match c with
  | Imp c => chk c
  | Dir fl api rounds observed0 observed =>
      let w0 := api_setup fl api in
      let agree := list_eqb pobs_eqb (observe fl w0 (fun _ => [])) observed0
                   && list_eqb robs_eqb (run_rounds fl w0 rounds) observed in
      let ok := mon_rounds observed0 rounds observed in
      code agree ok + (if ok then 0 else 4 * first_fix_dir fl api rounds [1; 2; 4; 3; 5; 6; 7])
  end.
