(* Proofs about the import model, part 7: the run of the repaired model satisfies the property
   monitor the harness evaluates on what the real code did (Prov/Check.v). *)
From Verif Require Import Base.CaseCheck Prov.Import Prov.Check Prov.ImportProofs Prov.ImportCells Prov.ImportExport
  Prov.ImportBuild Prov.ImportKeys Prov.ImportThms.

(* ---------------------------------------------------------------- reflexivity of the comparisons *)
Lemma list_eqb_refl {A} (eqb : A -> A -> bool) l : (forall a, eqb a a = true) -> list_eqb eqb l l = true.
Proof. intros H. induction l as [|a l IH]; simpl; [reflexivity|]. rewrite H, IH. reflexivity. Qed.

Lemma connc_eqb_refl c : connc_eqb c c = true.
Proof.
  unfold connc_eqb. rewrite !Nat.eqb_refl, eqb_reflx, (list_eqb_refl procc_eqb _ procc_eqb_refl). reflexivity.
Qed.
Lemma pipec_eqb_refl c : pipec_eqb c c = true.
Proof.
  unfold pipec_eqb. rewrite !Nat.eqb_refl, dlq_eqb_refl, (list_eqb_refl connc_eqb _ connc_eqb_refl),
    (list_eqb_refl procc_eqb _ procc_eqb_refl). reflexivity.
Qed.
Lemma expres_eqb_refl e : expres_eqb e e = true.
Proof. destruct e; simpl; auto using pipec_eqb_refl. Qed.

(* ---------------------------------------------------------------- observations of a converged state *)
Lemma conds_procs_of s par l :
  (forall q, In q l -> s_procs s (par, p_id q) = Some (rinst_of q)) ->
  conds_procs s par (proc_ids l) = map p_cond l.
Proof.
  induction l as [|q r IH]; intros H; simpl; [reflexivity|].
  rewrite (H q (or_introl eq_refl)). simpl. f_equal. apply IH. intros x Hx. apply H. right. exact Hx.
Qed.

Lemma conds_of_cells s c : cells_as s c -> conds_of s = cfg_conds c.
Proof.
  intros [H1 [H2 H3]]. unfold conds_of, cfg_conds. rewrite H1. simpl. f_equal.
  - induction (pl_conns c) as [|k r IH]; simpl; [reflexivity|].
    destruct (H2 k (or_introl eq_refl)) as [stt [E1 E2]]. rewrite E1. simpl.
    rewrite (conds_procs_of _ _ _ E2). f_equal. apply IH. intros x Hx. apply H2. right. exact Hx.
  - apply conds_procs_of. exact H3.
Qed.

Lemma lookup_states_of l f c : mem c l = true -> lookup_state c (map (fun c => (c, f c)) l) = Some (f c).
Proof.
  induction l as [|x r IH]; simpl; intros H; [discriminate H|].
  destruct (x =? c) eqn:E.
  - apply Nat.eqb_eq in E. subst. reflexivity.
  - rewrite Nat.eqb_sym, E in H. simpl in H. apply IH. exact H.
Qed.

Lemma mem_conn_ids_in l x : In x l -> mem (c_id x) (conn_ids l) = true.
Proof.
  induction l as [|y r IH]; simpl; intros H; [contradiction|]. destruct H as [->|H].
  - rewrite Nat.eqb_refl. reflexivity.
  - rewrite (IH H). apply orb_true_r.
Qed.

Lemma find_conn_mem c l : find_conn c l <> None -> mem c (conn_ids l) = true.
Proof.
  destruct (find_conn c l) as [x|] eqn:E; [|congruence]. intros _.
  apply find_conn_id in E. destruct E as [<- H]. apply mem_conn_ids_in. exact H.
Qed.

Lemma states_of_cells s c : cells_as s c -> states_of s = map (fun k => (k, conn_state s k)) (conn_ids (pl_conns c)).
Proof. intros [H _]. unfold states_of. rewrite H. reflexivity. Qed.

(* positions, as the monitor checks them *)
Lemma positions_kept_ok befores afters (sb sa : list (nat * option nat)) (fb fa : nat -> option nat) :
  sb = map (fun k => (k, fb k)) (conn_ids befores) ->
  (forall x y, In x befores -> find_conn (c_id x) afters = Some y -> lookup_state (c_id x) sa = Some (fa (c_id x))) ->
  (forall x y, In x befores -> find_conn (c_id x) afters = Some y -> c_src x = c_src y -> fa (c_id x) = fb (c_id x)) ->
  positions_kept befores afters sb sa = true.
Proof.
  intros -> Ha Hs. unfold positions_kept. apply forallb_forall. intros x Hx.
  destruct (find_conn (c_id x) afters) as [y|] eqn:E; [|reflexivity].
  destruct (Bool.eqb (c_src x) (c_src y)) eqn:Eb; [|reflexivity]. apply eqb_prop in Eb.
  rewrite (lookup_states_of _ fb _ (mem_conn_ids_in _ _ Hx)).
  rewrite (Ha x y Hx E). rewrite (Hs x y Hx E Eb).
  destruct (fb (c_id x)); simpl; [apply Nat.eqb_refl|reflexivity].
Qed.

(* leftovers *)
Lemma memk_in k l : In k l -> memk k l = true.
Proof.
  intros H. unfold memk. apply existsb_exists. exists k. split; [exact H|]. apply pkey_eqb_eq. reflexivity.
Qed.

Lemma find_proc_in_keys (par : option nat) p l : find_proc p l <> None -> In (par, p) (map (fun q => (par, p_id q)) l).
Proof.
  destruct (find_proc p l) as [q|] eqn:E; [|congruence]. intros _.
  apply find_proc_id in E. destruct E as [<- H]. apply in_map_iff. exists q. auto.
Qed.

Lemma proc_key_of_cfg c k p new :
  find_proc p (procs_of (pl_conns new) c) <> None -> k = (Some c, p) -> In k (cfg_proc_keys new).
Proof.
  intros H ->. unfold cfg_proc_keys. apply in_or_app. left. unfold procs_of in H.
  destruct (find_conn c (pl_conns new)) as [x|] eqn:E; [|simpl in H; congruence].
  apply find_conn_id in E. destruct E as [<- Hx]. apply in_flat_map. exists x. split; [exact Hx|].
  apply (find_proc_in_keys (Some (c_id x))). exact H.
Qed.

Lemma no_leftovers s new : gf s (Some new) ->
  forallb (fun c => mem c (conn_ids (pl_conns new))) (fst (instances s)) = true
  /\ forallb (fun k => memk k (cfg_proc_keys new)) (snd (instances s)) = true.
Proof.
  intros [G1 [G2 G3]]. cbn [old_conns old_procs] in G1, G2, G3. unfold instances. cbn [fst snd]. split; apply forallb_forall.
  - intros c Hc. apply filter_In in Hc. destruct Hc as [_ Hc]. apply find_conn_mem. intros Hn.
    rewrite (G1 c Hn) in Hc. discriminate Hc.
  - intros [par p] Hk. apply filter_In in Hk. destruct Hk as [_ Hk]. apply memk_in. destruct par as [c|].
    + eapply proc_key_of_cfg; [|reflexivity]. intros Hn. rewrite (G2 c p Hn) in Hk. discriminate Hk.
    + unfold cfg_proc_keys. apply in_or_app. right. apply (find_proc_in_keys None). intros Hn.
      rewrite (G3 p Hn) in Hk. discriminate Hk.
Qed.

Lemma mem_filter_pool (P : nat -> bool) c l : In c (filter P l) -> mem c (filter P l) = true.
Proof.
  induction (filter P l) as [|x r IH]; simpl; intros H; [contradiction|]. destruct H as [->|H].
  - rewrite Nat.eqb_refl. reflexivity.
  - rewrite (IH H). apply orb_true_r.
Qed.

(* after a failed import nothing new is stored: every instance was there before *)
Lemma no_new_instances s s2 old :
  old_ok s old -> gf s2 old ->
  (forall c x, find_conn c (old_conns old) = Some x -> s_conns s c <> None) ->
  (forall c p q, find_proc p (procs_of (old_conns old) c) = Some q -> s_procs s (Some c, p) <> None) ->
  (forall p q, find_proc p (old_procs old) = Some q -> s_procs s (None, p) <> None) ->
  forallb (fun c => mem c (fst (instances s))) (fst (instances s2)) = true
  /\ forallb (fun k => memk k (snd (instances s))) (snd (instances s2)) = true.
Proof.
  intros _ [G1 [G2 G3]] H1 H2 H3. unfold instances. cbn [fst snd]. split; apply forallb_forall.
  - intros c Hc. apply filter_In in Hc. destruct Hc as [Hp Hc]. apply mem_filter_pool. apply filter_In. split; [exact Hp|].
    destruct (find_conn c (old_conns old)) as [x|] eqn:E.
    + specialize (H1 c x E). destruct (s_conns s c); [reflexivity|congruence].
    + rewrite (G1 c E) in Hc. discriminate Hc.
  - intros [par p] Hk. apply filter_In in Hk. destruct Hk as [Hp Hk]. apply memk_in. apply filter_In. split; [exact Hp|].
    destruct par as [c|].
    + destruct (find_proc p (procs_of (old_conns old) c)) as [q|] eqn:E.
      * specialize (H2 c p q E). destruct (s_procs s (Some c, p)); [reflexivity|congruence].
      * rewrite (G2 c p E) in Hk. discriminate Hk.
    + destruct (find_proc p (old_procs old)) as [q|] eqn:E.
      * specialize (H3 p q E). destruct (s_procs s (None, p)); [reflexivity|congruence].
      * rewrite (G3 p E) in Hk. discriminate Hk.
Qed.

(* ---------------------------------------------------------------- storing a position changes nothing else *)
Definition same_conn (a b : option cinst) : Prop :=
  match a, b with
  | Some x, Some y => ci_src x = ci_src y /\ ci_plugin x = ci_plugin y /\ ci_name x = ci_name y
                      /\ ci_settings x = ci_settings y /\ ci_procs x = ci_procs y
  | None, None => True
  | _, _ => False
  end.

Lemma exp_procs_ext fl s s' par ids : (forall k, s_procs s' k = s_procs s k) ->
  exp_procs fl s' par ids = exp_procs fl s par ids.
Proof. intros H. induction ids as [|i r IH]; simpl; [reflexivity|]. rewrite H, IH. reflexivity. Qed.

Lemma exp_conns_ext fl s s' ids :
  (forall k, s_procs s' k = s_procs s k) -> (forall c, same_conn (s_conns s' c) (s_conns s c)) ->
  exp_conns fl s' ids = exp_conns fl s ids.
Proof.
  intros Hp Hc. induction ids as [|i r IH]; simpl; [reflexivity|].
  specialize (Hc i). destruct (s_conns s' i) as [x|], (s_conns s i) as [y|]; simpl in Hc; try contradiction; [|reflexivity].
  destruct Hc as [A [B [C [D E]]]]. rewrite E, (exp_procs_ext fl s s' _ _ Hp), IH, A, B, C, D. reflexivity.
Qed.

Lemma export_ext fl s s' :
  s_pl s' = s_pl s -> (forall k, s_procs s' k = s_procs s k) -> (forall c, same_conn (s_conns s' c) (s_conns s c)) ->
  export fl s' = export fl s.
Proof.
  intros H1 H2 H3. unfold export. rewrite H1. destruct (s_pl s) as [p|]; [|reflexivity].
  rewrite (exp_conns_ext fl s s' _ H2 H3), (exp_procs_ext fl s s' _ _ H2). reflexivity.
Qed.

Lemma same_conn_refl a : same_conn a a.
Proof. destruct a; simpl; auto. Qed.

Lemma set_state1_spec s ct :
  s_pl (set_state1 s ct) = s_pl s /\ (forall k, s_procs (set_state1 s ct) k = s_procs s k)
  /\ (forall c, same_conn (s_conns (set_state1 s ct) c) (s_conns s c)).
Proof.
  unfold set_state1. destruct (s_conns s (fst ct)) as [i|] eqn:E.
  - simpl. repeat split. intros c. destruct (c =? fst ct) eqn:Ec.
    + apply Nat.eqb_eq in Ec. subst c. rewrite E. simpl. auto.
    + apply same_conn_refl.
  - repeat split. intros c. apply same_conn_refl.
Qed.

Lemma set_states_spec l : forall s,
  s_pl (fold_left set_state1 l s) = s_pl s /\ (forall k, s_procs (fold_left set_state1 l s) k = s_procs s k)
  /\ (forall c, same_conn (s_conns (fold_left set_state1 l s) c) (s_conns s c)).
Proof.
  induction l as [|ct r IH]; intros s; simpl.
  - repeat split. intros c. apply same_conn_refl.
  - destruct (IH (set_state1 s ct)) as [A [B C]]. destruct (set_state1_spec s ct) as [A' [B' C']].
    split; [congruence|]. split; [intros k; rewrite B; apply B'|].
    intros c. specialize (C c). specialize (C' c).
    destruct (s_conns (fold_left set_state1 r (set_state1 s ct)) c), (s_conns (set_state1 s ct) c), (s_conns s c);
      simpl in *; try contradiction; auto.
    destruct C as [? [? [? [? ?]]]], C' as [? [? [? [? ?]]]]. repeat split; congruence.
Qed.

Lemma set_states_export fl l s : export fl (fold_left set_state1 l s) = export fl s.
Proof. destruct (set_states_spec l s) as [A [B C]]. apply export_ext; assumption. Qed.

Lemma set_states_gf l s old : gf s old -> gf (fold_left set_state1 l s) old.
Proof.
  destruct (set_states_spec l s) as [A [B C]]. intros [G1 [G2 G3]]. split; [|split].
  - intros c Hn. specialize (C c). rewrite (G1 c Hn) in C. destruct (s_conns (fold_left set_state1 l s) c); [contradiction|reflexivity].
  - intros c p Hn. rewrite B. apply G2. exact Hn.
  - intros p Hn. rewrite B. apply G3. exact Hn.
Qed.

(* ---------------------------------------------------------------- one step of the repaired model *)
Definition inv (s : st) : Prop := wf repaired s /\ gf s (old_of (export repaired s)).

Lemma inv_empty : inv empty_st.
Proof. split; [left; reflexivity|]. simpl. repeat split. Qed.

Lemma inv_set_states l s : inv s -> inv (fold_left set_state1 l s).
Proof.
  intros [Hw Hg]. unfold inv, wf. rewrite !set_states_export. split; [exact Hw|]. apply set_states_gf. exact Hg.
Qed.

Lemma wf_exp_wf s : wf repaired s -> wf_exp (export repaired s) = true.
Proof. intros [H|[c [H Hv]]]; rewrite H; simpl; auto. Qed.

Lemma reimport_noop s new : valid new = true -> export repaired s = EOk new ->
  import repaired s new None = (s, OOk, None, []).
Proof. intros Hv He. unfold import. rewrite (import_idempotent s new Hv He). reflexivity. Qed.

Lemma old_cells_exist s old : old_ok s old ->
  (forall c x, find_conn c (old_conns old) = Some x -> s_conns s c <> None)
  /\ (forall c p q, find_proc p (procs_of (old_conns old) c) = Some q -> s_procs s (Some c, p) <> None)
  /\ (forall p q, find_proc p (old_procs old) = Some q -> s_procs s (None, p) <> None).
Proof.
  intros Ho. split; [|split].
  - intros c x H. destruct (old_conn_cell s old (mkPipe 0 0 dlq_default [] []) Ho c x H) as [stt E]. congruence.
  - intros c p q H. destruct (old_proc_cell_conn s old (mkPipe 0 0 dlq_default [] []) Ho c p q H) as [E _]. congruence.
  - intros p q H. destruct (old_proc_cell_pl s old (mkPipe 0 0 dlq_default [] []) Ho p q H) as [E _]. congruence.
Qed.

Lemma states_of_old s old : old_ok s old ->
  states_of s = map (fun k => (k, conn_state s k)) (conn_ids (old_conns old)).
Proof.
  destruct old as [o|]; simpl.
  - intros [Hc _]. apply states_of_cells. exact Hc.
  - intros H. unfold states_of. rewrite H. reflexivity.
Qed.

Lemma conns_of_export s : conns_of (export repaired s) = old_conns (old_of (export repaired s)).
Proof. destruct (export repaired s); reflexivity. Qed.

Lemma export_of_old_ok s old : old_ok s old -> export repaired s = match old with Some o => EOk o | None => ENone end.
Proof.
  destruct old as [o|]; simpl.
  - intros [Hc _]. apply export_of_cells. exact Hc.
  - intros H. apply export_none. exact H.
Qed.

Lemma old_of_roundtrip e : wf_exp e = true -> match old_of e with Some o => EOk o | None => ENone end = e.
Proof. destruct e; simpl; intros H; try reflexivity. discriminate H. Qed.

Lemma lookup_states_of_cells s c k : cells_as s c -> mem k (conn_ids (pl_conns c)) = true ->
  lookup_state k (states_of s) = Some (conn_state s k).
Proof. intros Hc Hm. rewrite (states_of_cells _ _ Hc). apply (lookup_states_of _ (conn_state s)). exact Hm. Qed.

Theorem step_satisfies_monitor : forall s x,
  inv s -> nodup_cfg (st_cfg x) ->
  mon_step (export repaired s) x (snd (run_step repaired s x)) = true
  /\ (valid (st_cfg x) = true ->
        inv (fst (run_step repaired s x))
        /\ o_export (snd (run_step repaired s x)) = export repaired (fst (run_step repaired s x))).
Proof.
  intros s x [Hw Hg] Hnd. set (cfg := st_cfg x) in *. set (old := old_of (export repaired s)) in *.
  destruct (wf_old _ Hw) as [Hold Hne]. fold old in Hold.
  pose proof (wf_exp_wf _ Hw) as Hwe.
  unfold run_step. fold cfg.
  destruct (import repaired s cfg (st_fault x)) as [[[s1 oc] f1] t] eqn:E.
  destruct oc.
  - (* the import succeeded *)
    destruct (valid cfg) eqn:Hv.
    + destruct (import_ok_spec _ _ _ _ _ _ Hw Hv E) as [Hc [Hpos Hgf]]. fold old in Hpos, Hgf.
      pose proof (export_of_cells _ _ Hc) as He.
      rewrite (reimport_noop s1 cfg Hv He). rewrite (import_idempotent s1 cfg Hv He). cbn [fst snd length].
      split.
      * unfold mon_step. cbn [st_cfg o_outcome o_export o_conds o_plan_empty o_re_outcome o_re_ops o_states_before o_states o_inst o_inst_before].
        fold cfg. rewrite Hwe, Hv. cbn [negb].
        rewrite He, expres_eqb_refl, (conds_of_cells _ _ Hc), (list_eqb_refl Nat.eqb _ Nat.eqb_refl).
        destruct (no_leftovers s1 cfg (Hgf Hg)) as [L1 L2]. rewrite L1, L2. cbn [outcome_eqb Nat.eqb andb].
        rewrite ?andb_true_r. rewrite conns_of_export. fold old.
        apply (positions_kept_ok _ _ _ _ (conn_state s) (conn_state s1)).
        -- apply states_of_old. exact Hold.
        -- intros xo y Hx Hy. apply lookup_states_of_cells with (c := cfg); [exact Hc|].
           destruct (find_conn_id _ _ _ Hy) as [<- Hin]. apply mem_conn_ids_in. exact Hin.
        -- intros xo y Hx Hy Hs. destruct (find_conn_id _ _ _ Hy) as [Hid Hin].
           destruct (old_nodup _ _ Hold) as [N1 _]. rewrite <- Hid.
           apply (Hpos xo y); [rewrite Hid; apply find_conn_in; assumption|exact Hin|exact Hs].
      * intros _. split; [|rewrite set_states_export; reflexivity].
        apply inv_set_states. split; [right; exists cfg; auto|]. rewrite He. simpl old_of. apply Hgf. exact Hg.
    + split; [|intros Hc; discriminate Hc].
      unfold mon_step. destruct (import repaired s1 cfg None) as [[[s2 oc2] f2] t2].
      cbn [st_cfg o_outcome snd]. fold cfg. rewrite Hwe, Hv. reflexivity.
  - (* the import failed and was rolled back *)
    cbn [fst snd]. split.
    + unfold mon_step. cbn [st_cfg o_outcome o_export o_states_before o_states o_inst o_inst_before]. fold cfg. rewrite Hwe. cbn [negb].
      assert (H1 : (if valid cfg then match st_fault x with Some _ => true | None => false end else true) = true).
      { destruct (valid cfg) eqn:Hv; [|reflexivity]. destruct (st_fault x) eqn:Ef; [reflexivity|].
        destruct (import_converges s cfg Hw Hv) as [s' [t' [E' _]]]. rewrite E' in E. inversion E. }
      rewrite H1. cbn [andb].
      destruct (valid cfg || match st_fault x with None => true | Some _ => false end) eqn:Hclaim; [|reflexivity].
      assert (Hcl : valid cfg = true \/ st_fault x = None).
      { apply orb_prop in Hclaim. destruct Hclaim as [Hc|Hc]; [left; exact Hc|right]. destruct (st_fault x); [discriminate Hc|reflexivity]. }
      destruct (import_failed_spec _ _ _ _ _ _ Hw Hnd Hcl E) as [Ho2 [Hsame Hgf]]. fold old in Ho2, Hsame, Hgf.
      assert (He : export repaired s1 = export repaired s).
      { rewrite (export_of_old_ok _ _ Ho2). unfold old. apply old_of_roundtrip. exact Hwe. }
      rewrite He, expres_eqb_refl.
      destruct (old_cells_exist _ _ Hold) as [X1 [X2 X3]].
      destruct (no_new_instances s s1 old Hold (Hgf Hg) X1 X2 X3) as [L1 L2]. rewrite L1, L2. cbn [andb].
      rewrite ?andb_true_r. rewrite conns_of_export. fold old.
      apply (positions_kept_ok _ _ _ _ (conn_state s) (conn_state s1)).
      * apply states_of_old. exact Hold.
      * intros xo y Hx Hy. rewrite (states_of_old _ _ Ho2). apply (lookup_states_of _ (conn_state s1)).
        apply mem_conn_ids_in. exact Hx.
      * intros xo y Hx Hy _. unfold conn_state. destruct (old_nodup _ _ Hold) as [N1 _].
        rewrite (Hsame (c_id xo) xo (find_conn_in _ _ N1 Hx)). reflexivity.
    + intros Hv. destruct (import_failed_spec _ _ _ _ _ _ Hw Hnd (or_introl Hv) E) as [Ho2 [Hsame Hgf]].
      fold old in Ho2, Hsame, Hgf.
      assert (He : export repaired s1 = export repaired s).
      { rewrite (export_of_old_ok _ _ Ho2). unfold old. apply old_of_roundtrip. exact Hwe. }
      split; [|cbn [o_export]; rewrite set_states_export; reflexivity].
      apply inv_set_states. split.
      * unfold wf. rewrite He. exact Hw.
      * rewrite He. fold old. apply Hgf. exact Hg.
  - exfalso. apply (import_never_export_err s cfg (st_fault x) Hw). rewrite E. reflexivity.
Qed.

(* every chain of valid configs - whatever store write fails in whichever import, whatever
   positions are stored in between - is accepted by the monitor *)
Theorem chain_satisfies_monitor : forall steps s,
  inv s -> (forall x, In x steps -> valid (st_cfg x) = true) ->
  mon_chain (export repaired s) steps (run_chain repaired s steps) = true.
Proof.
  induction steps as [|x r IH]; intros s Hi Hv; simpl; [reflexivity|].
  pose proof (Hv x (or_introl eq_refl)) as Hvx.
  destruct (step_satisfies_monitor s x Hi (valid_nodup _ Hvx)) as [M N].
  destruct (run_step repaired s x) as [s' o] eqn:E. cbn [fst snd] in M, N.
  destruct (N Hvx) as [Hi' He]. rewrite M. cbn [andb]. rewrite He. apply IH; [exact Hi'|].
  intros y Hy. apply Hv. right. exact Hy.
Qed.

Corollary repaired_model_satisfies_monitor : forall steps,
  (forall x, In x steps -> valid (st_cfg x) = true) ->
  mon_chain ENone steps (run_chain repaired empty_st steps) = true.
Proof. intros steps Hv. apply (chain_satisfies_monitor steps empty_st inv_empty Hv). Qed.
