(* Executable correspondence + property monitor for the C15 case files.
   A case is a chain of imports into one provisioning service, starting from an empty store:
   per step the config, an optional injected store failure, and the connector positions the
   harness stores afterwards (standing for a pipeline run between two imports). *)
From Verif Require Import Base.CaseCheck Prov.Import.

(* ---------------------------------------------------------------- boolean equalities *)
Definition opt_eqb {A} (eqb : A -> A -> bool) (a b : option A) : bool :=
  match a, b with Some x, Some y => eqb x y | None, None => true | _, _ => false end.
Definition connc_eqb (a b : connc) : bool :=
  (c_id a =? c_id b) && Bool.eqb (c_src a) (c_src b) && (c_plugin a =? c_plugin b) && (c_name a =? c_name b)
  && (c_settings a =? c_settings b) && list_eqb procc_eqb (c_procs a) (c_procs b).
Definition pipec_eqb (a b : pipec) : bool :=
  (pl_name a =? pl_name b) && (pl_desc a =? pl_desc b) && dlq_eqb (pl_dlq a) (pl_dlq b)
  && list_eqb connc_eqb (pl_conns a) (pl_conns b) && list_eqb procc_eqb (pl_procs a) (pl_procs b).
Definition expres_eqb (a b : expres) : bool :=
  match a, b with
  | ENone, ENone => true
  | EErr, EErr => true
  | EOk x, EOk y => pipec_eqb x y
  | _, _ => false
  end.
Definition sop_eqb (a b : sop) : bool :=
  ekey_eqb (so_key a) (so_key b) && Bool.eqb (so_del a) (so_del b) && Bool.eqb (so_failed a) (so_failed b).
Definition desc_eqb (a b : nat * ekey) : bool := (fst a =? fst b) && ekey_eqb (snd a) (snd b).
Definition cstate_eqb (a b : nat * option nat) : bool := (fst a =? fst b) && opt_eqb Nat.eqb (snd a) (snd b).

(* ---------------------------------------------------------------- steps and observations *)
Record step := mkStep {
  st_cfg : pipec;
  st_fault : fault;                  (* index of the store operation of this import that fails *)
  st_setstates : list (nat * nat)    (* connector id, position token: SetState after the step *)
}.

Record obs := mkObs {
  o_plan : option (list (nat * ekey));       (* Plan(cfg).Changes before the import: 0 create 1 update 2 delete *)
  o_states_before : list (nat * option nat); (* State of every connector of the pipeline, before *)
  o_outcome : outcome;                       (* Import(cfg) *)
  o_trace : list sop;                        (* store operations the import made, in order *)
  o_export : expres;                         (* Export(id) afterwards *)
  o_plan_empty : bool;                       (* Plan(cfg).Empty() afterwards *)
  o_states : list (nat * option nat);        (* State of every connector of the pipeline, afterwards *)
  o_conds : list nat;                        (* Condition stored in every processor instance, afterwards *)
  o_re_outcome : outcome;                    (* importing the same config once more (only after OOk) *)
  o_re_ops : nat;                            (* ... and the number of store operations that made *)
  o_inst_before : list nat * list pkey;      (* ids of the connector / processor instances the services hold, before *)
  o_inst : list nat * list pkey              (* ... and afterwards (leftovers of a rollback show here) *)
}.

Definition inst_eqb (a b : list nat * list pkey) : bool :=
  list_eqb Nat.eqb (fst a) (fst b) && list_eqb pkey_eqb (snd a) (snd b).

Definition obs_eqb (a b : obs) : bool :=
  opt_eqb (list_eqb desc_eqb) (o_plan a) (o_plan b)
  && list_eqb cstate_eqb (o_states_before a) (o_states_before b)
  && outcome_eqb (o_outcome a) (o_outcome b)
  && list_eqb sop_eqb (o_trace a) (o_trace b)
  && expres_eqb (o_export a) (o_export b)
  && Bool.eqb (o_plan_empty a) (o_plan_empty b)
  && list_eqb cstate_eqb (o_states a) (o_states b)
  && list_eqb Nat.eqb (o_conds a) (o_conds b)
  && outcome_eqb (o_re_outcome a) (o_re_outcome b)
  && (o_re_ops a =? o_re_ops b)
  && inst_eqb (o_inst_before a) (o_inst_before b)
  && inst_eqb (o_inst a) (o_inst b).

(* ---------------------------------------------------------------- the model's run of a chain *)
Definition describe (a : action) : nat * ekey :=
  (match a with
   | ACreatePl _ | ACreateConn _ | ACreateProc _ _ => 0
   | AUpdatePl _ _ | AUpdateConn _ _ | AUpdateProc _ _ _ => 1
   | ADeleteConn _ _ | ADeleteProc _ _ => 2
   end, akey a).

Definition states_of (s : st) : list (nat * option nat) :=
  match s_pl s with
  | Some p => map (fun c => (c, conn_state s c)) (pi_conns p)
  | None => []
  end.
Definition conds_procs (s : st) (par : option nat) (ids : list nat) : list nat :=
  flat_map (fun i => match s_procs s (par, i) with Some r => [ri_cond r] | None => [] end) ids.
Definition conds_of (s : st) : list nat :=
  match s_pl s with
  | Some p => flat_map (fun c => match s_conns s c with
                                 | Some i => conds_procs s (Some c) (ci_procs i)
                                 | None => []
                                 end) (pi_conns p)
              ++ conds_procs s None (pi_procs p)
  | None => []
  end.
(* the instances the services hold; the harness draws ids from 1..8 and lists the instances in
   this order *)
Definition id_pool : list nat := List.seq 1 8.
Definition instances (s : st) : list nat * list pkey :=
  (filter (fun c => match s_conns s c with Some _ => true | None => false end) id_pool,
   filter (fun k => match s_procs s k with Some _ => true | None => false end)
          (list_prod (None :: map Some id_pool) id_pool)).
(* the entities a config names *)
Definition cfg_proc_keys (c : pipec) : list pkey :=
  flat_map (fun k => map (fun q => (Some (c_id k), p_id q)) (c_procs k)) (pl_conns c)
  ++ map (fun q => (None, p_id q)) (pl_procs c).
Definition memk (k : pkey) (l : list pkey) : bool := existsb (pkey_eqb k) l.

Definition set_state1 (s : st) (ct : nat * nat) : st :=
  match s_conns s (fst ct) with
  | Some i => set s (KC (fst ct)) (CC (Some (mkCI (ci_src i) (ci_plugin i) (ci_name i) (ci_settings i)
                                                  (ci_procs i) (Some (snd ct)))))
  | None => s
  end.

Definition run_step (fl : flags) (s : st) (x : step) : st * obs :=
  let cfg := st_cfg x in
  let pl := option_map (map describe) (plan fl s cfg) in
  let sb := states_of s in
  let cb := instances s in
  let '(s1, oc, _, t) := import fl s cfg (st_fault x) in
  let e := export fl s1 in
  let pe := match plan fl s1 cfg with Some [] => true | _ => false end in
  let sa := states_of s1 in
  let cs := conds_of s1 in
  let ca := instances s1 in
  let '(s2, roc, rops) :=
    match oc with
    | OOk => let '(s2, oc2, _, t2) := import fl s1 cfg None in (s2, oc2, length t2)
    | _ => (s1, OOk, 0)
    end in
  (fold_left set_state1 (st_setstates x) s2, mkObs pl sb oc t e pe sa cs roc rops cb ca).

Fixpoint run_chain (fl : flags) (s : st) (xs : list step) : list obs :=
  match xs with
  | [] => []
  | x :: r => let '(s', o) := run_step fl s x in o :: run_chain fl s' r
  end.

(* ---------------------------------------------------------------- the property monitor *)
Definition wf_exp (e : expres) : bool :=
  match e with ENone => true | EOk c => valid c | EErr => false end.
Definition cfg_conds (c : pipec) : list nat :=
  flat_map (fun k => map p_cond (c_procs k)) (pl_conns c) ++ map p_cond (pl_procs c).
Fixpoint lookup_state (id : nat) (l : list (nat * option nat)) : option (option nat) :=
  match l with [] => None | (i, v) :: r => if i =? id then Some v else lookup_state id r end.
Definition conns_of (e : expres) : list connc := match e with EOk c => pl_conns c | _ => [] end.

(* position of every connector that has the same id and type before and after is unchanged *)
Definition positions_kept (before after : list connc) (sb sa : list (nat * option nat)) : bool :=
  forallb (fun c => match find_conn (c_id c) after with
                    | Some c' => if Bool.eqb (c_src c) (c_src c')
                                 then match lookup_state (c_id c) sb, lookup_state (c_id c) sa with
                                      | Some x, Some y => opt_eqb Nat.eqb x y
                                      | _, _ => false
                                      end
                                 else true
                    | None => true
                    end) before.

(* [prev] is the export before the step.  Claims are made only from a state an import can
   legitimately start from (no pipeline, or a valid exported config). *)
Definition mon_step (prev : expres) (x : step) (o : obs) : bool :=
  let cfg := st_cfg x in
  if negb (wf_exp prev) then true
  else match o_outcome o with
       | OOk =>
           if valid cfg
           then (* converges *) expres_eqb (o_export o) (EOk cfg) && list_eqb Nat.eqb (o_conds o) (cfg_conds cfg)
                (* idempotent *) && o_plan_empty o && outcome_eqb (o_re_outcome o) OOk && (o_re_ops o =? 0)
                (* positions *) && positions_kept (conns_of prev) (pl_conns cfg) (o_states_before o) (o_states o)
                (* nothing left over *) && forallb (fun c => mem c (conn_ids (pl_conns cfg))) (fst (o_inst o))
                                       && forallb (fun k => memk k (cfg_proc_keys cfg)) (snd (o_inst o))
           else true
       | OFailed =>
           (* a valid config only fails because of an injected store failure *)
           (if valid cfg then match st_fault x with Some _ => true | None => false end else true)
           && (* exactly one failure (invalid config, or injected): nothing may have changed *)
              (if valid cfg || match st_fault x with None => true | Some _ => false end
               then expres_eqb (o_export o) prev
                    && positions_kept (conns_of prev) (conns_of prev) (o_states_before o) (o_states o)
                    && forallb (fun c => mem c (fst (o_inst_before o))) (fst (o_inst o))
                    && forallb (fun k => memk k (snd (o_inst_before o))) (snd (o_inst o))
               else true)
       | OExportErr => false
       end.

Fixpoint mon_chain (prev : expres) (xs : list step) (os : list obs) : bool :=
  match xs, os with
  | [], [] => true
  | x :: r, o :: q => mon_step prev x o && mon_chain (o_export o) r q
  | _, _ => false
  end.

(* ---------------------------------------------------------------- cases *)
Inductive icase := Case (fl : flags) (steps : list step) (observed : list obs).

(* which repairs make the model itself satisfy the monitor on this input: bit 0 copy_ids (S9),
   bit 1 the two Condition flags (S10), bit 2 restore_state.  Smallest set first. *)
Definition with_fix (fl : flags) (m : nat) : flags :=
  mkFlags (copy_ids fl || Nat.testbit m 0)
          (exp_cond fl || Nat.testbit m 1) (upd_cond fl || Nat.testbit m 1)
          (restore_state fl || Nat.testbit m 2).
Fixpoint first_fix (fl : flags) (steps : list step) (ms : list nat) : nat :=
  match ms with
  | [] => 0
  | m :: r => if mon_chain ENone steps (run_chain (with_fix fl m) empty_st steps) then m else first_fix fl steps r
  end.

Definition chk (c : icase) : nat :=
  match c with
  | Case fl steps observed =>
      let agree := list_eqb obs_eqb (run_chain fl empty_st steps) observed in
      let ok := mon_chain ENone steps observed in
      code agree ok + (if ok then 0 else 4 * first_fix fl steps [1; 2; 4; 3; 5; 6; 7])
  end.
