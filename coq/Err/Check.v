(* Executable correspondence + monitor for the C20 case files.
   A case: the number n of plain wrappers, the builder expressions, and per expression what the real
   code showed for the value and for the value under n wrappers.
   chk T c: bit 0 = the model's observations differ from the implementation's;
            bit 1 = the property monitor (reading every %w operand as reachable) rejects;
            bit 2 (4) = the monitor also rejects when cerrors.Errorf with two or more %w is read as
                    xerrors implements it (opaque) - i.e. the rejection is not the known multi-%w defect. *)
From Verif Require Import Base.CaseCheck Err.Tree.

(* the second observation (value under n wrappers) is written None when it is identical to the first *)
Inductive ecase := ECase (n : nat) (bs : list bexp) (observed : list (obs * option obs)).

Definition expand (xs : list (obs * option obs)) : list (obs * obs) :=
  map (fun p => (fst p, match snd p with Some y => y | None => fst p end)) xs.

Definition obs2_eqb (a b : obs * obs) : bool := obs_eqb (fst a) (fst b) && obs_eqb (snd a) (snd b).

Definition chk (T : tables) (c : ecase) : nat :=
  match c with
  | ECase n bs xs0 =>
      let xs := expand xs0 in
      let m := monitor T true bs xs in
      CaseCheck.code (list_eqb' obs2_eqb (model_run T n bs) xs) m
      + (if m || monitor T false bs xs then 0 else 4)
  end.
